------------------------------ MODULE DepHash ------------------------------
(* C07 -- editing an included header always invalidates stale cached kernels.

   One kernel source (never edited) includes the headers in Root; a header's content is a
   value plus its own #include lines (only of later headers, so the include graph stays
   acyclic -- the OKL preprocessor has no include guards).  Contents are *name independent*:
   two headers may hold byte-identical text.

   The cache is a map  key -> [deps: the snapshot (file -> content) recorded in build.json,
   bin: what the compiled binary computes].  Every Build runs in a fresh process, so the
   cache directory is the only memory.

   Build: Resolve the key (TRANSCRIBED FROM device::applyDependencyHash: start at the base
   key; while the entry exists and one of its recorded dependencies differs from the file on
   disk, fold the *current* hashes of its dependencies into the key and look again); then
   load the entry's binary if it exists, else compile the current files into it.

   Hashes are ideal (an atom per distinct string), XOR is symmetric difference.  Variants of
   the fold:
     "found"    k' = k XOR hash(content_d) ...           as found: atoms carry no file name
     "tagged"   k' = k XOR hash(d ":" hash(content_d))   name-tagged atoms, still XOR
     "chained"  k' = hash(k, d1 ":" hash(content_d1), d2 ...)   the repaired code: the new
                key is a hash *of the previous key* and the current dependency hashes
   The recursion of the code is unbounded when the walk returns to a key it already visited;
   Resolve detects exactly that (and also carries a fuel counter as a safety net for TLC),
   so non-termination is a reachable state instead of a stack overflow of the checker.

   Properties: NoStaleRun, ResolveTerminates.  The prediction used for the replay (exp) is the
   intended one -- the value of the *current* files -- and does not depend on the variant.  *)
EXTENDS Naturals, Sequences, FiniteSets, TLC, Json

CONSTANTS HSeq,      \* the headers, as a sequence (fixes the include order), e.g. <<"h1","h2">>
          Root,      \* headers the kernel source includes (in HSeq order)
          Vals,      \* possible header values, e.g. 1..3
          InitVal,   \* initial value of each header: function Headers -> Vals
          MaxEdits, MaxBuilds,   \* bounds on a behaviour
          Variant,   \* "found" | "tagged" | "chained"
          Fuel,
          MaxHist,   \* length of the generated behaviours (generation runs)
          Styles     \* include delimiter styles a behaviour may use (see Delim)

VARIABLES style,     \* the delimiter style of this behaviour's #include lines (fixed per behaviour)
          content,   \* header -> [val, inc]
          dirs,      \* key -> [deps, bin]
          last,      \* outcome of the last Build
          edits, builds,
          hist

vars == <<style, content, dirs, last, edits, builds, hist>>

Headers == {HSeq[i] : i \in 1..Len(HSeq)}
Idx(h) == CHOOSE i \in 1..Len(HSeq) : HSeq[i] = h
Later(h) == {g \in Headers : Idx(g) > Idx(h)}

\* sequence of the elements of S in HSeq order
InOrder(S) == SelectSeq(HSeq, LAMBDA h : h \in S)

RECURSIVE Flatten(_)
Flatten(ss) == IF ss = <<>> THEN <<>> ELSE Head(ss) \o Flatten(Tail(ss))

\* what the preprocessor produces: depth-first expansion of the #include lines
RECURSIVE Expand(_, _)
Expand(C, h) == <<C[h].val>> \o
                LET incs == InOrder(C[h].inc)
                IN Flatten([i \in 1..Len(incs) |-> Expand(C, incs[i])])
KernelValue(C) == LET r == InOrder(Root) IN Flatten([i \in 1..Len(r) |-> Expand(C, r[i])])

RECURSIVE Reach(_, _)
Reach(C, S) == LET T == S \cup UNION {C[h].inc : h \in S} IN IF T = S THEN S ELSE Reach(C, T)
Included(C) == Reach(C, Root)

\* The delimiter of an #include line, "q" for "x.h" and "a" for <x.h>, is a dimension of every include edge
\* (from the kernel source or from a header, to a header).  The OKL preprocessor expands a header it finds
\* through okl/include_paths whichever delimiter is used, so KernelValue does not depend on it -- and neither
\* may the dependency tracking.
Delim(st, from, to) ==
  CASE st = "quoted" -> "q"
    [] st = "angle"  -> "a"
    [] st = "mixed"  -> IF from = "kernel" THEN "a" ELSE "q"    \* kernel's own includes <>, header to header ""
    [] OTHER         -> IF from = "kernel" THEN "q" ELSE "a"    \* "mixed2": the other way round
DelimTable == [from \in Headers \cup {"kernel"} |-> [to \in Headers |-> Delim(style, from, to)]]

---------------------------------------------------------------------------
(* keys *)
Xor(S, T) == (S \ T) \cup (T \ S)
RECURSIVE XorAll(_)
XorAll(seq) == IF seq = <<>> THEN {} ELSE Xor({Head(seq)}, XorAll(Tail(seq)))

BaseKey == IF Variant = "chained" THEN <<>> ELSE {}

\* fold the current contents of the dependency set D into key k
Fold(k, D, C) ==
  LET ds == InOrder(D) IN
  CASE Variant = "found"  -> Xor(k, XorAll([i \in 1..Len(ds) |-> <<"c", C[ds[i]]>>]))
    [] Variant = "tagged" -> Xor(k, XorAll([i \in 1..Len(ds) |-> <<"d", ds[i], C[ds[i]]>>]))
    [] OTHER              -> <<k, [i \in 1..Len(ds) |-> <<ds[i], C[ds[i]]>>]>>

\* TRANSCRIBED FROM device::applyDependencyHash
RECURSIVE Resolve(_, _, _)
Resolve(k, visited, fuel) ==
  IF k \notin DOMAIN dirs THEN [ok |-> TRUE, key |-> k]
  ELSE LET deps    == dirs[k].deps
           changed == \E d \in DOMAIN deps : deps[d] # content[d]
           nk      == Fold(k, DOMAIN deps, content)
       IN IF ~changed THEN [ok |-> TRUE, key |-> k]
          ELSE IF nk \in visited \cup {k} \/ fuel = 0 THEN [ok |-> FALSE, key |-> k]
          ELSE Resolve(nk, visited \cup {k}, fuel - 1)

---------------------------------------------------------------------------
InitContent == [h \in Headers |-> [val |-> InitVal[h], inc |-> {}]]
Init == /\ style \in Styles
        /\ content = InitContent
        /\ dirs = <<>>
        /\ last = [outcome |-> "none"]
        /\ edits = 0 /\ builds = 0
        /\ hist = <<>>

Edited(a, h, x) ==
  /\ edits' = edits + 1
  /\ hist' = Append(hist, [a |-> a, h |-> h, x |-> x, text |-> content'[h]])
  /\ UNCHANGED <<style, dirs, last, builds>>

\* content change (includes going back to a value the header had before)
SetVal(h, v) ==
  /\ edits < MaxEdits /\ v # content[h].val
  /\ content' = [content EXCEPT ![h].val = v]
  /\ Edited("setval", h, v)

AddInclude(h, g) ==
  /\ edits < MaxEdits /\ g \in Later(h) \ content[h].inc
  /\ content' = [content EXCEPT ![h].inc = @ \cup {g}]
  /\ Edited("addinc", h, g)

RemoveInclude(h, g) ==
  /\ edits < MaxEdits /\ g \in content[h].inc
  /\ content' = [content EXCEPT ![h].inc = @ \ {g}]
  /\ Edited("rminc", h, g)

\* a build in a fresh process
Build ==
  /\ builds < MaxBuilds
  /\ LET r   == Resolve(BaseKey, {}, Fuel)
         now == KernelValue(content)
     IN /\ IF ~r.ok
             THEN /\ last' = [outcome |-> "diverged", exp |-> now]
                  /\ UNCHANGED dirs
           ELSE IF r.key \in DOMAIN dirs
             THEN /\ last' = [outcome |-> "ran", act |-> "loaded", val |-> dirs[r.key].bin, exp |-> now]
                  /\ UNCHANGED dirs
           ELSE /\ dirs' = dirs @@ (r.key :> [deps |-> [d \in Included(content) |-> content[d]], bin |-> now])
                /\ last' = [outcome |-> "ran", act |-> "compiled", val |-> now, exp |-> now]
        /\ hist' = Append(hist, [a |-> "build", exp |-> now])
  /\ builds' = builds + 1
  /\ UNCHANGED <<style, content, edits>>

Next == \/ \E h \in Headers, v \in Vals : SetVal(h, v)
        \/ \E h \in Headers, g \in Headers : AddInclude(h, g) \/ RemoveInclude(h, g)
        \/ Build

Spec == Init /\ [][Next]_vars

---------------------------------------------------------------------------
TypeOK == /\ \A h \in Headers : content[h].val \in Vals /\ content[h].inc \subseteq Later(h)
          /\ edits \in 0..MaxEdits /\ builds \in 0..MaxBuilds

\* a build never runs a binary compiled against other contents than the current ones
NoStaleRun == last.outcome = "ran" => last.val = last.exp
\* every build terminates (the key walk never returns to a key it has visited)
ResolveTerminates == last.outcome # "diverged"
View == <<style, content, dirs, last, edits, builds>>
\* generation: every behaviour of MaxHist steps is printed once and cut there (the replay drops the
\* edits after the last build, so all shorter histories that end in a build are covered too)
Emit == Len(hist) < MaxHist
        \/ (PrintT(<<"B", ToJson([root |-> InOrder(Root), init |-> InitContent, delims |-> DelimTable, style |-> style, steps |-> hist])>>) /\ FALSE)
\* directed generation, the "join" family: histories in which a header that the kernel source does not
\* include JOINS the include graph through an edit of an already included header (directly, or behind
\* another joining header: h1 -> h2 -> h3), is built, and is then edited / leaves / rejoins, with a build
\* after every phase.  Shape (prefix closed, so TLC prunes while it enumerates):
\*   build ; 1-2 AddInclude ; build ; one of {SetVal of a joined header, RemoveInclude, AddInclude} ; build ;
\*   one of {SetVal of a joined header, AddInclude right after a RemoveInclude (rejoin)} ; build
NonRoot == Headers \ Root
RECURSIVE TrailingEdits(_)
TrailingEdits(h) == IF h = <<>> \/ h[Len(h)].a = "build" THEN 0 ELSE 1 + TrailingEdits(SubSeq(h, 1, Len(h) - 1))
JoinShape ==
  \/ hist = <<>>
  \/ LET n == Len(hist)
         s == hist[n]
         t == TrailingEdits(hist)
     IN IF s.a = "build" THEN builds = 1 \/ hist[n - 1].a # "build"
        ELSE CASE builds = 0 -> FALSE
               [] builds = 1 -> /\ s.a = "addinc" /\ t <= 2
                                /\ t = 2 => Idx(hist[n - 1].h) * 10 + Idx(hist[n - 1].x) < Idx(s.h) * 10 + Idx(s.x)   \* one order of two additions
               [] builds = 2 -> t = 1 /\ \/ s.a = "setval" /\ s.h \in NonRoot \cap Included(content)
                                         \/ s.a \in {"rminc", "addinc"}
               [] builds = 3 -> t = 1 /\ \/ s.a = "setval" /\ s.h \in NonRoot \cap Included(content)
                                         \/ s.a = "addinc" /\ hist[n - 2].a = "rminc"
               [] OTHER -> FALSE
EmitJoin == JoinShape /\ (builds < 4 \/ (PrintT(<<"B", ToJson([root |-> InOrder(Root), init |-> InitContent, delims |-> DelimTable, style |-> style, steps |-> hist])>>) /\ FALSE))
\* directed generation: with Variant = "found" every shortest history on which the fold of the code as
\* found diverges is printed (and cut); the replay runs them on the real code (prediction: exp, as always)
EmitDiverged == IF last.outcome = "diverged"
                THEN PrintT(<<"B", ToJson([root |-> InOrder(Root), init |-> InitContent, delims |-> DelimTable, style |-> style, steps |-> hist])>>) /\ FALSE
                ELSE Len(hist) < MaxHist
=============================================================================
