----------------------------- MODULE KernelKey -----------------------------
(* C06 -- kernel cache keys separate every build configuration.

   A build configuration is an assignment of a value token to every build input the
   property statement lists (the kernel source text and eleven properties).  A token is
   "e" (the property is absent / the base source text) or one of two non-empty values
   "a", "b".  Properties whose values have the same JSON type can carry the *same* value
   ("values may coincide across different properties"): the six string-valued compiler
   properties, the two array-valued ones (includes, headers) and the two object-valued
   ones (defines, functions).

   A configuration also says by which ROUTE its properties reach the build (field "route"): flat in the
   build properties, in their modes/<own mode> section, as a generic value overridden in that section,
   in the section of the OTHER mode (must not take effect), as a device-level kernel default
   (kernel/... or kernel/modes/<mode> of the device properties), or as a device-level default overridden
   by the build properties.  The effective input is the merged value; the source text has no route.

   The system is the on-disk cache shared by processes: a map from cache keys to the
   configuration whose binary was compiled into that entry.  One action, Build(c), is one
   `device.buildKernel` call in a fresh process on one device (Serial or OpenMP, fixed per
   behaviour -- the statement speaks of builds "on the same device").

   Hashes are modelled algebraically: the hash of a string is an *atom* (an ideal hash:
   different strings, different atoms) and XOR of hashes is the symmetric difference of
   atom sets.  Three compositions of the key are given:
     "ideal"   one atom for the whole configuration (injective by construction); used to
               generate behaviours, so predictions never depend on a transcription;
     "xor"     TRANSCRIBED FROM the code as found: device::setupKernelInfo,
               serial::device::kernelHash, openmp::device::kernelHash, kernelHeaderHash
               -- the XOR of the hashes of the bare property values;
     "tagged"  TRANSCRIBED FROM the repaired code: each of the two property groups is one
               ordered, name-tagged JSON object that is hashed as a whole, and the okl
               settings are part of it.
   The property is RunsOwnConfig /\ SameEntry below.  The oracle for the replay is the
   intended outcome (exp), which is independent of the composition.                    *)
EXTENDS Naturals, Sequences, FiniteSets, TLC, Json

CONSTANTS FocusGroups,  \* set of sets of property names; a behaviour varies one group only
          Modes,        \* subset of {"Serial", "OpenMP"}
          MaxWeight,    \* at most this many non-"e" properties per configuration
          MaxBuilds,    \* builds per behaviour
          RouteWeight,  \* configurations with <= RouteWeight properties set are also generated for every
                        \* non-flat route (0: flat only)
          KeyVariant    \* "ideal" | "xor" | "tagged" | "rawhdr"

VARIABLES mode,    \* the device of this behaviour
          focus,   \* the property group this behaviour varies
          space,   \* = ConfigsOf(focus), computed once per behaviour (not in the views)
          cache,   \* key -> configuration compiled into that entry (the shared cache dir)
          built,   \* configurations built so far (for the intended outcome)
          last,    \* what the last build did according to the model's Key
          n,       \* number of builds so far
          hist     \* history variable (generation / replay)

vars == <<mode, focus, space, cache, built, last, n, hist>>

StrProps == {"compiler", "compiler_flags", "compiler_linker_flags", "compiler_shared_flags",
             "compiler_env_script", "compiler_language"}
ArrProps == {"includes", "headers"}
ObjProps == {"defines", "functions"}
AllProps == StrProps \cup ArrProps \cup ObjProps \cup {"source", "okl"}

Kind(p) == IF p \in StrProps THEN "str" ELSE IF p \in ArrProps THEN "arr"
           ELSE IF p \in ObjProps THEN "obj" ELSE p
Tokens == {"e", "a", "b"}
Vals   == {"a", "b"}

Routes == {"flat", "mode", "generic+mode", "othermode", "dev", "devmode", "dev+flat"}
Other(v) == IF v = "a" THEN "b" ELSE "a"

\* configurations that vary only the properties of group g, at most MaxWeight of them; all properties of
\* one configuration take the same route
Ext(S, f, r) == [p \in AllProps \cup {"route"} |-> IF p = "route" THEN r ELSE IF p \in S THEN f[p] ELSE "e"]
SubsetsUpTo(g, w) == {T \in SUBSET g : Cardinality(T) <= w}
ConfigsOf(g) ==
  UNION { {Ext(S, f, "flat") : f \in [S -> Vals]} : S \in SubsetsUpTo(g, MaxWeight) }
  \cup UNION { UNION { {Ext(S, f, r) : f \in [S -> Vals]} : r \in Routes \ {"flat"} }
              : S \in {T \in SubsetsUpTo(g, RouteWeight) : T \ {"source"} # {}} }
Weight(c) == Cardinality({p \in AllProps : c[p] # "e"})

\* the effective build inputs of the statement: every listed input counts
\* (stated per route, independently of the layering that Merged transcribes)
Effective(c) == [p \in AllProps |-> IF c["route"] = "othermode" /\ p # "source" THEN "e" ELSE c[p]]

---------------------------------------------------------------------------
(* hashes *)
Atom(tag, x) == <<tag, ToString(x)>>
Xor(S, T) == (S \ T) \cup (T \ S)
RECURSIVE XorAll(_)
XorAll(seq) == IF seq = <<>> THEN {} ELSE Xor({Head(seq)}, XorAll(Tail(seq)))

\* hash of the JSON dump of a bare property value.  An absent property dumps as the empty
\* string whatever its name; equal tokens of equal JSON type dump identically.
DumpAtom(p, v) == IF v = "e" THEN Atom("dump", "") ELSE Atom("dump", <<Kind(p), v>>)

DeviceAtoms(m) == IF m = "OpenMP" THEN <<Atom("h", "host"), Atom("h", "openmp device::hash")>>
                  ELSE <<Atom("h", "host")>>
ModeTagAtoms(m) == IF m = "OpenMP" THEN <<Atom("h", "openmp device::kernelHash")>> ELSE <<>>

\* TRANSCRIBED FROM serial::device::kernelHash (order as in the code); compiler_vendor,
\* include_occa and link_occa are hashed too but are not inputs of the statement: absent here
ModeHashed == <<"compiler", "compiler_flags", "compiler_env_script", "compiler_vendor",
                "compiler_language", "compiler_linker_flags", "compiler_shared_flags",
                "include_occa", "link_occa">>
\* TRANSCRIBED FROM kernelHeaderHash
HeaderHashed == <<"defines", "functions", "includes", "headers">>
\* TRANSCRIBED FROM device::kernelProperties / getModeSpecificProps / initialObjectProps: the properties the
\* build uses are  device kernel defaults + device kernel/modes/<mode> + build props + build props' modes/<mode>,
\* later layers win; a section for another mode is dropped
LayerSeq == <<"dev", "devmode", "props", "propsmode">>
Layer(c, L, p) ==
  LET r == c["route"] v == c[p] IN
  IF v = "e" \/ p = "source" THEN "e"
  ELSE CASE L = "dev"       -> IF r = "dev" THEN v ELSE IF r = "dev+flat" THEN Other(v) ELSE "e"
         [] L = "devmode"   -> IF r = "devmode" THEN v ELSE "e"
         [] L = "props"     -> IF r \in {"flat", "dev+flat"} THEN v ELSE IF r = "generic+mode" THEN Other(v) ELSE "e"
         [] L = "propsmode" -> IF r \in {"mode", "generic+mode"} THEN v ELSE "e"
RECURSIVE LastSet(_, _, _)
LastSet(c, p, i) == IF i = 0 THEN "e"
                    ELSE IF Layer(c, LayerSeq[i], p) # "e" THEN Layer(c, LayerSeq[i], p) ELSE LastSet(c, p, i - 1)
Merged(c) == [p \in AllProps |-> IF p = "source" THEN c[p] ELSE LastSet(c, p, Len(LayerSeq))]
\* what the top level of the build properties alone holds (a defective composition may look only there)
Raw(c) == [p \in AllProps |-> IF p = "source" THEN c[p] ELSE Layer(c, "props", p)]
ValOf(c, p) == IF p \in DOMAIN c THEN c[p] ELSE "e"

KeyXorOn(m, c) ==
  XorAll(DeviceAtoms(m) \o ModeTagAtoms(m)
         \o [i \in 1..Len(ModeHashed)   |-> DumpAtom(ModeHashed[i], ValOf(c, ModeHashed[i]))]
         \o [i \in 1..Len(HeaderHashed) |-> DumpAtom(HeaderHashed[i], ValOf(c, HeaderHashed[i]))]
         \o <<Atom("src", c["source"])>>)

\* the repaired composition: one name-tagged object per group, hashed as a whole
Range(seq) == {seq[i] : i \in 1..Len(seq)}
KeyTaggedOn(m, c, ch) ==
  XorAll(DeviceAtoms(m) \o ModeTagAtoms(m)
         \o <<Atom("modekey", [p \in Range(ModeHashed) |-> ValOf(c, p)])>>
         \o <<Atom("hdrkey",  [p \in Range(HeaderHashed) \cup {"okl"} |-> ValOf(ch, p)])>>
         \o <<Atom("src", c["source"])>>)
KeyXor(m, c)    == KeyXorOn(m, Merged(c))
KeyTagged(m, c) == KeyTaggedOn(m, Merged(c), Merged(c))
\* a defective variant kept to show that the model sees the route dimension: the header group is hashed
\* from the top level of the build properties instead of the merged properties
KeyRawHdr(m, c) == KeyTaggedOn(m, Merged(c), Raw(c))

KeyIdeal(m, c) == {Atom("ideal", <<m, Effective(c)>>)}

Key(m, c) == CASE KeyVariant = "xor"    -> KeyXor(m, c)
               [] KeyVariant = "tagged" -> KeyTagged(m, c)
               [] KeyVariant = "rawhdr" -> KeyRawHdr(m, c)
               [] OTHER                 -> KeyIdeal(m, c)

---------------------------------------------------------------------------
NoBuild == [act |-> "none"]

Init == /\ mode \in Modes
        /\ focus \in FocusGroups
        /\ space = ConfigsOf(focus)
        /\ cache = <<>>
        /\ built = {}
        /\ last = NoBuild
        /\ n = 0
        /\ hist = <<>>

\* one buildKernel call in a fresh process: everything it knows comes from the cache
Build(c) ==
  LET k   == Key(mode, c)
      hit == k \in DOMAIN cache
      exp == [act |-> IF Effective(c) \in built THEN "loaded" ELSE "compiled",
              ran |-> Effective(c)]
  IN /\ n < MaxBuilds
     /\ cache' = IF hit THEN cache ELSE cache @@ (k :> c)
     /\ last'  = [act |-> IF hit THEN "loaded" ELSE "compiled",
                  ran |-> IF hit THEN Effective(cache[k]) ELSE Effective(c),
                  exp |-> exp]
     /\ built' = built \cup {Effective(c)}
     /\ n' = n + 1
     /\ hist' = Append(hist, [mode |-> mode, cfg |-> c, exp |-> exp])
     /\ UNCHANGED <<mode, focus, space>>

Next == \E c \in space : Build(c)

Spec == Init /\ [][Next]_vars

---------------------------------------------------------------------------
TypeOK == /\ mode \in Modes /\ focus \in FocusGroups /\ n \in 0..MaxBuilds
          /\ \A k \in DOMAIN cache : cache[k] \in space

\* every build runs code compiled for its own configuration
RunsOwnConfig == last.act # "none" => last.ran = last.exp.ran
\* identical builds resolve to the same entry (the second one compiles nothing), and a
\* build only finds an entry when an identical build made it
SameEntry == last.act # "none" => last.act = last.exp.act
\* the same statement on the key function itself (what the replay compares)
KeySeparates ==
  \A k1, k2 \in DOMAIN cache : k1 # k2 => Effective(cache[k1]) # Effective(cache[k2])

View == <<mode, focus, cache, built, last, n>>
GenView == <<mode, focus, cache, built, last, n, hist>>
Emit == n < MaxBuilds \/ (PrintT(<<"B", ToJson(hist)>>) /\ FALSE)
=============================================================================
