------------------------------- MODULE CacheFS -------------------------------
(***************************************************************************)
(* The file system of the OCCA kernel cache as the building processes see  *)
(* it (properties C08, C09).                                               *)
(*                                                                         *)
(* A name is  absent | partial | ok | bad :                                *)
(*    partial : created/truncated by open(O_CREAT|O_TRUNC) and not yet     *)
(*              closed by its writer (stdio flushes at fclose, so the      *)
(*              content is only known to be complete at close), or being   *)
(*              produced by a spawned compiler that has not exited, or     *)
(*              left behind in that condition by a killed writer;          *)
(*    ok      : complete, with the intended content  (full(c), c right);   *)
(*    bad     : complete, but derived from an incomplete input             *)
(*              (full(c), c wrong).                                        *)
(*                                                                         *)
(* Names are either FINAL names (the names readers test with io::isFile /  *)
(* io::exists and then trust: binary, build.json, source files, the        *)
(* compiler-vendor `output` ...) or temporary names (io::                  *)
(* getStagedTempFilename: a random 64-bit prefix, unique per staging).     *)
(* The actions are what the operating system does for one call class; the  *)
(* discipline of io::stageFile(s) -- "only temporary names are ever        *)
(* written, a final name appears by rename of a complete temporary file"   *)
(* -- is NOT built into the actions: it is the invariant                   *)
(* NoPartialUnderFinalName, so that an in-place write of a final name is   *)
(* a reachable, rejected state (of the model, and of a recorded trace).    *)
(*                                                                         *)
(* This module is generic in the set of names; it is instantiated by       *)
(* KernelCache (names of the build script, temp name = <<process, final>>) *)
(* and by CacheFSTrace (names that occur in a recorded strace log).        *)
(***************************************************************************)
EXTENDS Naturals, FiniteSets

CONSTANTS Name,      \* all file names
          Final,     \* the reader-visible final names (subset of Name)
          Dirs,      \* directories that mkpath may have to create
          Proc       \* processes

VARIABLES fs,        \* [Name -> FileState]
          dir,       \* [Dirs -> BOOLEAN]       directory exists
          wr,        \* [Proc -> SUBSET Name]   names the process holds open for writing
          child      \* [Proc -> SUBSET Name]   names being produced by the process's running child

fsvars == <<fs, dir, wr, child>>

FileState == {"absent", "partial", "ok", "bad"}

FsTypeOK == /\ fs \in [Name -> FileState]
            /\ dir \in [Dirs -> BOOLEAN]
            /\ wr \in [Proc -> SUBSET Name]
            /\ child \in [Proc -> SUBSET Name]

FsInit == /\ fs = [n \in Name |-> "absent"]
          /\ dir = [d \in Dirs |-> FALSE]
          /\ wr = [p \in Proc |-> {}]
          /\ child = [p \in Proc |-> {}]

Exists(n) == fs[n] # "absent"          \* what io::isFile / io::exists can see: NOT completeness

-----------------------------------------------------------------------------
(* one action per file-system call class *)

FsMkdir(p, d) ==                       \* mkdir(2); EEXIST is ignored by sys::mkpath
  /\ dir' = [dir EXCEPT ![d] = TRUE]
  /\ UNCHANGED <<fs, wr, child>>

FsOpenW(p, n) ==                       \* open(n, O_WRONLY|O_CREAT|O_TRUNC): whatever was there is gone
  /\ fs' = [fs EXCEPT ![n] = "partial"]
  /\ wr' = [wr EXCEPT ![p] = @ \cup {n}]
  /\ UNCHANGED <<dir, child>>

FsWrite(p, n) ==                       \* write(2) of one chunk: still incomplete until closed
  /\ n \in wr[p]
  /\ fs[n] = "partial"
  /\ UNCHANGED fsvars

FsCloseW(p, n, c) ==                   \* close(2) by the writer: complete; c = "ok" | "bad"
  /\ n \in wr[p]
  /\ fs' = [fs EXCEPT ![n] = IF @ = "partial" THEN c ELSE @]   \* (renamed-away/unlinked: name unaffected)
  /\ wr' = [wr EXCEPT ![p] = @ \ {n}]
  /\ UNCHANGED <<dir, child>>

FsFsync(p, n) ==                       \* open(O_RDONLY); fsync; close -- durability only
  /\ UNCHANGED fsvars

FsRename(p, s, t) ==                   \* rename(2): atomic replacement of t
  /\ Exists(s)
  /\ fs' = [fs EXCEPT ![t] = fs[s], ![s] = "absent"]
  /\ wr' = [q \in Proc |-> IF s \in wr[q] THEN (wr[q] \ {s}) \cup {t} ELSE wr[q]]  \* open handles follow the file
  /\ UNCHANGED <<dir, child>>

FsUnlink(p, n) ==
  /\ fs' = [fs EXCEPT ![n] = "absent"]
  /\ UNCHANGED <<dir, wr, child>>

FsSpawnWriter(p, outs) ==              \* fork+exec of a compiler (or shell redirection) creating `outs`
  /\ fs' = [n \in Name |-> IF n \in outs THEN "partial" ELSE fs[n]]
  /\ child' = [child EXCEPT ![p] = outs]
  /\ UNCHANGED <<dir, wr>>

FsWaitChild(p, c) ==                   \* wait4: the child has exited, its outputs are complete
  /\ fs' = [n \in Name |-> IF n \in child[p] /\ fs[n] = "partial" THEN c ELSE fs[n]]
  /\ child' = [child EXCEPT ![p] = {}]
  /\ UNCHANGED <<dir, wr>>

FsKill(p) ==                           \* SIGKILL: descriptors are closed by the kernel, nothing is flushed;
  /\ wr' = [wr EXCEPT ![p] = {}]       \* what was partial stays partial for ever
  /\ child' = [child EXCEPT ![p] = {}] \* (an orphaned compiler only ever touches its temp name)
  /\ UNCHANGED <<fs, dir>>

-----------------------------------------------------------------------------
(* The property, in model form *)

NoPartialUnderFinalName == \A f \in Final : fs[f] # "partial"
NoBadUnderFinalName     == \A f \in Final : fs[f] # "bad"

=============================================================================
