----------------------------- MODULE KernelScript -----------------------------
(***************************************************************************)
(* The build script of one OCCA kernel build, flattened into one           *)
(* micro-instruction per file-system call (used by KernelCache, C08/C09):  *)
(*   occa::device::buildKernelFromString / buildKernel  (core/device.cpp)  *)
(*   serial::device::buildKernel, openmp::device::buildKernel              *)
(*   sys::compilerVendor, openmp::compilerFlag, io::cacheFile,             *)
(*   io::stageFile(s), io::write, io::sync, io::moveStagedTempFile         *)
(* An instruction names the call class (op), the final name it is about    *)
(* (f), whether it addresses the process's own temp name of f (t), the     *)
(* directory sys::mkpath makes sure of first (mk) and where to go next.    *)
(***************************************************************************)
EXTENDS Naturals, Sequences

CONSTANTS VendorOutStaged,\* TRUE: sys::compilerVendor publishes `output` through io::stageFile (intended);
                          \* FALSE: named deviation -- io::write(output) in place, as the code did before the fix
          Collapsed       \* TRUE: leave out the micro-steps that cannot matter (write chunk, fsync, stat of own temp)

-----------------------------------------------------------------------------
(* Micro-instructions.  pc' = pc + 1 + (yes|no, for STAT) + skip.          *)
Op(op, f, t) == [op |-> op, f |-> f, t |-> t, mk |-> "", acc |-> "none", yes |-> 0, no |-> 0,
                 need |-> FALSE, outs |-> {}, ins |-> {}, skip |-> 0]


\* io::write(name, content): mkpath; fopen "w"; fputs; fclose; io::sync (file, then its directory)
WriteOps(f, t, d) ==
  IF Collapsed
  THEN << [Op("OPENW", f, t) EXCEPT !.mk = d], Op("CLOSEW", f, t) >>
  ELSE << [Op("OPENW", f, t) EXCEPT !.mk = d], Op("WRITE", f, t), Op("CLOSEW", f, t),
          Op("FSYNC", f, t), Op("FSYNCD", d, FALSE) >>

\* io::moveStagedTempFile: if (!isFile(temp)) return; rename(temp, final)
MoveOps(f) ==
  IF Collapsed THEN << Op("RENAME", f, FALSE) >>
  ELSE << [Op("STAT", f, TRUE) EXCEPT !.no = 1], Op("RENAME", f, FALSE) >>

\* io::stageFiles(F, skipExisting = true, producer): per file mkpath + isFile(final) (all of them are
\* evaluated: `doNothing &= isFile(...)`); nothing to do when all exist; else producer, then the moves
StageOps(F, d, producer) ==
  LET n == Len(F)
      rest == producer \o (IF n = 1 THEN MoveOps(F[1]) ELSE MoveOps(F[1]) \o MoveOps(F[2]))
      probes == [i \in 1..n |->
                   [Op("STAT", F[i], FALSE) EXCEPT !.mk = d,
                                                   !.acc = IF i = 1 THEN "set" ELSE "and",
                                                   !.yes = IF i = n THEN Len(rest) ELSE 0]]
  IN probes \o rest

\* io::cacheFile(origin, cachedName): if (!isFile(cached)) { read origin; stageFile(cached, true, write) }
\* `origin` = "" when the origin lies outside the cache directory
CacheFileOps(f, d, origin) ==
  LET body == (IF origin = "" THEN <<>> ELSE << Op("READ", origin, FALSE) >>)
              \o StageOps(<<f>>, d, WriteOps(f, TRUE, d))
  IN << [Op("STAT", f, FALSE) EXCEPT !.yes = Len(body)] >> \o body

\* sys::compilerVendor(compiler)
VendorOps ==
  LET compile == << [Op("SPAWNC", "", FALSE) EXCEPT !.outs = {"V.bin", "V.log"}, !.ins = {"V.src"}],
                    Op("WAITC", "", FALSE),
                    [Op("STAT", "V.bin", TRUE) EXCEPT !.need = TRUE] >>   \* OCCA_ERROR(... isFile(tempBinary))
      publish == IF VendorOutStaged
                 THEN StageOps(<<"V.out">>, "V", WriteOps("V.out", TRUE, "V"))
                 ELSE WriteOps("V.out", FALSE, "V")                      \* io::write(outFilename, ...) in place
      notFound == StageOps(<<"V.bin", "V.log">>, "V", compile)
                  \o << Op("SPAWNX", "V.bin", FALSE), Op("WAITX", "V.bin", FALSE) >>   \* system(binary)
                  \o publish
  IN CacheFileOps("V.src", "V", "")
     \* foundOutput = io::exists(output) && io::isFile(output)
     \o << [Op("STAT", "V.out", FALSE) EXCEPT !.no = 2],
           [Op("STAT", "V.out", FALSE) EXCEPT !.no = 1],
           [Op("READ", "V.out", FALSE) EXCEPT !.skip = Len(notFound)] >>
     \o notFound

\* openmp::compilerFlag(vendor, compiler)
OmpFlagOps ==
  LET producer == << [Op("SPAWNC", "", FALSE) EXCEPT !.outs = {"O.bin"}, !.ins = {"O.src"}],
                     Op("WAITC", "", FALSE) >>
                  \o WriteOps("O.out", TRUE, "O")
  IN CacheFileOps("O.src", "O", "")
     \o StageOps(<<"O.bin", "O.out">>, "O", producer)
     \o << Op("READ", "O.out", FALSE) >>

\* serial::device::buildKernel(filename, kernelName, kernelHash, props)
SerialBuildOps(origin) ==
  LET build ==
          VendorOps
          \o CacheFileOps("K.raw", "K", origin)                                   \* cache raw origin
          \o << Op("READ", "K.raw", FALSE) >>                                     \* parser.parseFile
          \o StageOps(<<"K.src">>, "K", WriteOps("K.src", TRUE, "K"))             \* parser.writeToFile(temp)
          \o StageOps(<<"K.build">>, "K", WriteOps("K.build", TRUE, "K"))         \* io::writeBuildFile
          \o StageOps(<<"K.bin">>, "K",
                      << [Op("SPAWNC", "", FALSE) EXCEPT !.outs = {"K.bin"}, !.ins = {"K.src"}],
                         Op("WAITC", "", FALSE) >>)                               \* sys::call(compiler ... -o temp)
          \o (IF Collapsed THEN <<>> ELSE << Op("FSYNC", "K.bin", FALSE), Op("FSYNCD", "K", FALSE) >>)  \* io::sync(binary)
          \o << Op("DLOPEN", "K.bin", FALSE), Op("RUN", "", FALSE) >>
      cached == << [Op("STAT", "K.build", FALSE) EXCEPT !.no = 2],               \* buildKernelFromBinary: isFile(build.json)
                   [Op("STAT", "K.build", FALSE) EXCEPT !.no = 1],               \* sourceMetadata_t::fromBuildFile: io::exists
                   Op("READ", "K.build", FALSE),                                 \*   json::read
                   Op("DLOPEN", "K.bin", FALSE), Op("RUN", "", FALSE) >>
  IN << [Op("STAT", "K.bin", FALSE) EXCEPT !.yes = Len(build)] >> \o build \o cached    \* foundBinary

\* device::setupKernelInfo -> applyDependencyHash: io::exists(build.json) ? json::read
DepHashOps == << [Op("STAT", "K.build", FALSE) EXCEPT !.no = 1], Op("READ", "K.build", FALSE) >>

\* the environment creates the cache root once, before anything else touches the cache
WithRoot(s) == [s EXCEPT ![1].mk = IF @ = "" THEN "R" ELSE @]

CoreOps(kind) ==
  IF kind = "string"
  THEN DepHashOps                                                               \* buildKernelFromString
       \o StageOps(<<"K.strsrc">>, "K", WriteOps("K.strsrc", TRUE, "K"))
       \o << Op("READ", "K.strsrc", FALSE) >>                                      \* buildKernel: hashFile
       \o DepHashOps
  ELSE DepHashOps

ScriptSS == WithRoot(CoreOps("string") \o SerialBuildOps("K.strsrc"))
ScriptSF == WithRoot(CoreOps("file")   \o SerialBuildOps(""))
ScriptOS == WithRoot(CoreOps("string") \o VendorOps \o OmpFlagOps \o SerialBuildOps("K.strsrc"))
ScriptOF == WithRoot(CoreOps("file")   \o VendorOps \o OmpFlagOps \o SerialBuildOps(""))

Script(v) == CASE v = "SS" -> ScriptSS [] v = "SF" -> ScriptSF
               [] v = "OS" -> ScriptOS [] v = "OF" -> ScriptOF

=============================================================================
