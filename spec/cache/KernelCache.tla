----------------------------- MODULE KernelCache -----------------------------
(***************************************************************************)
(* Processes building (and caching) one OCCA kernel, as the code does it   *)
(* (properties C08 and C09).  Composition of CacheFS (what the operating   *)
(* system does per call class) with the BUILD SCRIPT of                    *)
(*   occa::device::buildKernelFromString / buildKernel  (core/device.cpp)  *)
(*   serial::device::buildKernel, openmp::device::buildKernel              *)
(*   sys::compilerVendor, openmp::compilerFlag, io::cacheFile,             *)
(*   io::stageFile(s), io::write, io::sync                                 *)
(* flattened into one micro-instruction per file-system call.  A process   *)
(* may be killed before any of its calls (Crash); later processes build    *)
(* the same kernel in the same cache directory.                            *)
(*                                                                         *)
(* Final names (directory K = kernel hash dir, V = compiler-vendor test,   *)
(* O = OpenMP-flag test):                                                  *)
(*   K.strsrc string_source.cpp      K.raw  *.raw_source.cpp               *)
(*   K.src    *.source.cpp           K.build build.json     K.bin binary   *)
(*   V.src findCompilerVendor.cpp  V.bin binary  V.log build.log           *)
(*   V.out output                                                          *)
(*   O.src compilerSupportsOpenMP.cpp  O.bin binary  O.out output          *)
(* Temp name of final name f for process p:  <<p, f>>;  final: <<"", f>>.  *)
(***************************************************************************)
EXTENDS Naturals, Sequences, FiniteSets, TLC, Json

CONSTANTS Proc,           \* process names (strings)
          ProcSeq,        \* the processes in starting order (sequence without repetition)
          Crashers,       \* processes that may be killed
          Late,           \* processes that start only when every other process has terminated
          Sequential,     \* TRUE: a process starts only when no process is running (C08)
          Variants,       \* subset of {"SS","SF","OS","OF"}: Serial/OpenMP x String/File built kernel
          Scripts,        \* [variant -> program]: the build script as micro-instructions, one per file-system
                          \* call; defined in module KernelScript (kept behind a constant so that TLC's
                          \* coverage instrumentation does not inline the script into every action)
          Emit            \* TRUE: print the behaviour when every process has terminated (generation runs)

FinalId == {"K.strsrc", "K.raw", "K.src", "K.build", "K.bin",
            "V.src", "V.bin", "V.log", "V.out",
            "O.src", "O.bin", "O.out"}
Dirs == {"R", "C", "K", "V", "O"}          \* cache root, <root>/cache, the three hash directories
Chain(d) == IF d = "R" THEN <<"R">> ELSE IF d = "C" THEN <<"R", "C">> ELSE <<"R", "C", d>>

Name  == ({""} \cup Proc) \X FinalId
Final == {""} \X FinalId

VARIABLES fs, dir, wr, child,            \* CacheFS
          variant,                       \* which kernel/mode every process of this behaviour builds
          pc, acc, st, val, nspawn, cres, mkq,\* per process
          hist                           \* history of file-system events (hidden by VIEW in design runs)

INSTANCE CacheFS

procvars == <<pc, acc, st, val, nspawn, cres, mkq>>
vars == <<fs, dir, wr, child, variant, pc, acc, st, val, nspawn, cres, mkq, hist>>
View == <<fs, dir, wr, child, variant, pc, acc, st, val, nspawn, cres, mkq>>

-----------------------------------------------------------------------------
Prog == Scripts[variant]        \* the micro-instruction program every process runs (module KernelScript)
CurOp(p) == Prog[pc[p]]
NameOf(p, o) == <<IF o.t THEN p ELSE "", o.f>>

Terminated(p) == st[p] \in {"done", "failed", "crashed"}

TypeOK == /\ FsTypeOK
          /\ variant \in Variants
          /\ pc \in [Proc -> 1..Len(Prog)]
          /\ acc \in [Proc -> BOOLEAN]
          /\ st \in [Proc -> {"idle", "run", "done", "failed", "crashed"}]
          /\ val \in [Proc -> {"none", "ok", "bad"}]
          /\ nspawn \in [Proc -> Nat]
          /\ cres \in [Proc -> {"ok", "bad"}]
          /\ mkq \in [Proc -> Seq(Dirs)]

Init == /\ FsInit
        /\ variant \in Variants
        /\ pc = [p \in Proc |-> 1]
        /\ acc = [p \in Proc |-> FALSE]
        /\ st = [p \in Proc |-> "idle"]
        /\ val = [p \in Proc |-> "none"]
        /\ nspawn = [p \in Proc |-> 0]
        /\ cres = [p \in Proc |-> "ok"]
        /\ mkq = [p \in Proc |-> <<>>]
        /\ hist = <<>>

\* the history is only kept in generation runs (Emit); s = the final names that exist after the event
Ev(p, e, o, r) == hist' = IF ~Emit THEN hist
                          ELSE Append(hist, [p |-> p, e |-> e, f |-> o.f, t |-> o.t, r |-> r,
                                 s |-> [g \in {h \in FinalId : fs'[<<"", h>>] # "absent"} |-> fs'[<<"", g>>]]])

MissingDirs(p) == LET m == CurOp(p).mk
                  IN IF m = "" THEN {} ELSE {i \in 1..Len(Chain(m)) : ~dir[Chain(m)[i]]}
Ready(p, op) == st[p] = "run" /\ CurOp(p).op = op /\ MissingDirs(p) = {} /\ mkq[p] = <<>>

Go(p, extra) == pc' = [pc EXCEPT ![p] = @ + 1 + extra + CurOp(p).skip]
Fail(p) == st' = [st EXCEPT ![p] = "failed"] /\ UNCHANGED pc

-----------------------------------------------------------------------------
(* process life cycle *)
Index(p) == CHOOSE i \in 1..Len(ProcSeq) : ProcSeq[i] = p

Start(p) ==
  /\ st[p] = "idle"
  /\ \A i \in 1..(Index(p) - 1) : st[ProcSeq[i]] # "idle"
  /\ Sequential => \A q \in Proc : st[q] # "run"
  /\ p \in Late => \A q \in Proc \ Late : Terminated(q)
  /\ st' = [st EXCEPT ![p] = "run"]
  /\ UNCHANGED <<fs, dir, wr, child, variant, pc, acc, val, nspawn, cres, hist, mkq>>

Crash(p) ==                                   \* SIGKILL before the next call
  /\ st[p] = "run"
  /\ p \in Crashers
  /\ FsKill(p)
  /\ st' = [st EXCEPT ![p] = "crashed"]
  /\ hist' = IF ~Emit THEN hist
             ELSE Append(hist, [p |-> p, e |-> "Crash", f |-> CurOp(p).f, t |-> CurOp(p).t, r |-> CurOp(p).op,
                                s |-> [g \in {h \in FinalId : fs[<<"", h>>] # "absent"} |-> fs[<<"", g>>]]])
  /\ UNCHANGED <<variant, pc, acc, val, nspawn, cres, mkq>>

(* one action per file-system call class *)
Mkdir(p) ==                                   \* sys::mkpath probes the chain, then mkdir()s the first missing
  /\ st[p] = "run"                            \* directory AND every deeper one without probing again
  /\ mkq[p] # <<>> \/ MissingDirs(p) # {}     \* (EEXIST is ignored): the probe and the mkdirs are not atomic
  /\ LET m == CurOp(p).mk
         i == CHOOSE j \in MissingDirs(p) : \A k \in MissingDirs(p) : j <= k
         q == IF mkq[p] # <<>> THEN mkq[p] ELSE SubSeq(Chain(m), i, Len(Chain(m)))
         d == Head(q)
     IN /\ FsMkdir(p, d)
        /\ mkq' = [mkq EXCEPT ![p] = Tail(q)]
        /\ Ev(p, "Mkdir", [f |-> d, t |-> FALSE], ~dir[d])
  /\ UNCHANGED <<variant, pc, acc, st, val, nspawn, cres>>

Stat(p) ==                                    \* io::isFile / io::exists: sees existence, not completeness
  /\ Ready(p, "STAT")
  /\ UNCHANGED <<fs, dir, wr, child, variant, val, nspawn, cres, mkq>>
  /\ LET o == CurOp(p)
         ex == Exists(NameOf(p, o))
         na == CASE o.acc = "none" -> acc[p] [] o.acc = "set" -> ex [] o.acc = "and" -> acc[p] /\ ex
         cond == IF o.acc = "none" THEN ex ELSE na
     IN /\ acc' = [acc EXCEPT ![p] = na]
        /\ IF o.need /\ ~ex THEN Fail(p) ELSE Go(p, IF cond THEN o.yes ELSE o.no) /\ UNCHANGED st
        /\ Ev(p, "Stat", o, ex)

OpenW(p, tmp) ==
  /\ Ready(p, "OPENW") /\ CurOp(p).t = tmp
  /\ FsOpenW(p, NameOf(p, CurOp(p)))
  /\ Go(p, 0) /\ Ev(p, "OpenW", CurOp(p), TRUE)
  /\ UNCHANGED <<variant, acc, st, val, nspawn, cres, mkq>>
OpenTmp(p)     == OpenW(p, TRUE)
OpenInPlace(p) == OpenW(p, FALSE)             \* named deviation: truncates a final name

WriteChunk(p, tmp) ==
  /\ Ready(p, "WRITE") /\ CurOp(p).t = tmp
  /\ FsWrite(p, NameOf(p, CurOp(p)))
  /\ Go(p, 0) /\ Ev(p, "Write", CurOp(p), TRUE)
  /\ UNCHANGED <<variant, acc, st, val, nspawn, cres, mkq>>
WriteTmp(p)     == WriteChunk(p, TRUE)
WriteInPlace(p) == WriteChunk(p, FALSE)

CloseW(p, tmp) ==
  /\ Ready(p, "CLOSEW") /\ CurOp(p).t = tmp
  /\ FsCloseW(p, NameOf(p, CurOp(p)), "ok")
  /\ Go(p, 0) /\ Ev(p, "CloseW", CurOp(p), TRUE)
  /\ UNCHANGED <<variant, acc, st, val, nspawn, cres, mkq>>
CloseTmp(p)     == CloseW(p, TRUE)
CloseInPlace(p) == CloseW(p, FALSE)

Fsync(p) ==                                   \* io::sync: file, then directory
  /\ Ready(p, "FSYNC") \/ Ready(p, "FSYNCD")
  /\ FsFsync(p, NameOf(p, CurOp(p)))
  /\ Go(p, 0) /\ Ev(p, IF CurOp(p).op = "FSYNC" THEN "Fsync" ELSE "FsyncDir", CurOp(p), TRUE)
  /\ UNCHANGED <<variant, acc, st, val, nspawn, cres, mkq>>

RenameTmp(p) ==                               \* io::moveStagedTempFile
  /\ Ready(p, "RENAME")
  /\ FsRename(p, <<p, CurOp(p).f>>, <<"", CurOp(p).f>>)
  /\ Go(p, 0) /\ Ev(p, "Rename", CurOp(p), TRUE)
  /\ UNCHANGED <<variant, acc, st, val, nspawn, cres, mkq>>

SpawnCompiler(p) ==                           \* system()/popen of the compiler writing temp names
  /\ Ready(p, "SPAWNC")
  /\ FsSpawnWriter(p, {<<p, f>> : f \in CurOp(p).outs})
  /\ cres' = [cres EXCEPT ![p] = IF \A i \in CurOp(p).ins : fs[<<"", i>>] = "ok" THEN "ok" ELSE "bad"]
  /\ nspawn' = [nspawn EXCEPT ![p] = @ + 1]
  /\ Go(p, 0) /\ Ev(p, "Spawn", CurOp(p), TRUE)
  /\ UNCHANGED <<variant, acc, st, val, mkq>>

WaitCompiler(p) ==
  /\ Ready(p, "WAITC")
  /\ FsWaitChild(p, cres[p])
  /\ IF cres[p] = "ok" THEN Go(p, 0) /\ UNCHANGED st ELSE Fail(p)      \* "Error compiling"
  /\ Ev(p, "Wait", CurOp(p), cres[p] = "ok")
  /\ UNCHANGED <<variant, acc, val, nspawn, cres, mkq>>

ExecSpawn(p) ==                               \* system(<vendor dir>/binary)
  /\ Ready(p, "SPAWNX")
  /\ UNCHANGED <<fs, dir, wr, child, variant, acc, st, val, nspawn, mkq>>
  /\ cres' = [cres EXCEPT ![p] = IF fs[<<"", CurOp(p).f>>] = "ok" THEN "ok" ELSE "bad"]
  /\ Go(p, 0) /\ Ev(p, "Spawn", CurOp(p), TRUE)

ExecWait(p) ==
  /\ Ready(p, "WAITX")
  /\ UNCHANGED <<fs, dir, wr, child, variant, acc, val, nspawn, cres, mkq>>
  /\ IF cres[p] = "ok" THEN Go(p, 0) /\ UNCHANGED st ELSE Fail(p)      \* garbage exit status -> no vendor
  /\ Ev(p, "Wait", CurOp(p), cres[p] = "ok")

ReadFile(p) ==                                \* io::read of a final name: trusts what it finds
  /\ Ready(p, "READ")
  /\ UNCHANGED <<fs, dir, wr, child, variant, acc, val, nspawn, cres, mkq>>
  /\ IF fs[NameOf(p, CurOp(p))] = "ok" THEN Go(p, 0) /\ UNCHANGED st ELSE Fail(p)
  /\ Ev(p, "Read", CurOp(p), fs[NameOf(p, CurOp(p))] = "ok")

Dlopen(p) ==
  /\ Ready(p, "DLOPEN")
  /\ UNCHANGED <<fs, dir, wr, child, variant, acc, nspawn, cres, mkq>>
  /\ IF fs[NameOf(p, CurOp(p))] = "ok"
     THEN Go(p, 0) /\ val' = [val EXCEPT ![p] = "ok"] /\ UNCHANGED st
     ELSE Fail(p) /\ UNCHANGED val
  /\ Ev(p, "Read", CurOp(p), fs[NameOf(p, CurOp(p))] = "ok")

Run(p) ==                                     \* launch the kernel, compare the value
  /\ Ready(p, "RUN")
  /\ st' = [st EXCEPT ![p] = "done"]
  /\ UNCHANGED <<fs, dir, wr, child, variant, pc, acc, val, nspawn, cres, hist, mkq>>

AllTerminated == \A p \in Proc : Terminated(p)
Finished == AllTerminated /\ UNCHANGED vars

Step(p) == \/ Start(p) \/ Crash(p) \/ Mkdir(p) \/ Stat(p)
           \/ OpenTmp(p) \/ WriteTmp(p) \/ CloseTmp(p)
           \/ OpenInPlace(p) \/ WriteInPlace(p) \/ CloseInPlace(p)
           \/ Fsync(p) \/ RenameTmp(p)
           \/ SpawnCompiler(p) \/ WaitCompiler(p) \/ ExecSpawn(p) \/ ExecWait(p)
           \/ ReadFile(p) \/ Dlopen(p) \/ Run(p)

Next == (\E p \in Proc : Step(p)) \/ Finished
Spec == Init /\ [][Next]_vars

-----------------------------------------------------------------------------
(* Properties *)

\* C08/C09: "no partially written source, build file or binary is ever treated as a completed cache
\* entry" -- readers only test existence, so no final name may ever be partial (or complete but wrong)
NoPoison == NoPartialUnderFinalName /\ NoBadUnderFinalName

\* C08: the later process (and every process that is not killed) builds and runs the right code;
\* with TLC's deadlock check on and a loop-free script, "never failed" + "done => right value"
\* means every process that is not killed reaches Run with the right value
FollowUpSucceeds     == \A p \in Proc : st[p] # "failed" /\ (st[p] = "done" => val[p] = "ok")
EveryProcessSucceeds == FollowUpSucceeds
AllAgree             == \A p, q \in Proc : (st[p] = "done" /\ st[q] = "done") => val[p] = val[q]
\* C09: the cache is left in a state that later builds reuse without recompiling
LaterBuildReuses     == \A p \in Late : nspawn[p] = 0

\* behaviour generation: print the history when everything has terminated
EmitOK == (Emit /\ AllTerminated) =>
            PrintT(<<"B", ToJson([variant |-> variant, n |-> Len(Prog), hist |-> hist])>>)

\* bound on the history for generation runs (the script is loop free, this is never binding)
=============================================================================
