\* trace validation: keys a, a/b, b; paths up to 3 components (the pools are not used: arguments come from the log)
SPECIFICATION TraceSpec
CONSTANTS
  KeySeq <- TK3
  PathKeys = {"a", "b"}
  MaxPathLen = 3
  WriteVals = {}
  MergeVals = {}
  SetKeys = {}
  MaxDepth = 99
  Variant = "intended"
  MaxHist = 0
INVARIANT TraceTypeOK
POSTCONDITION Accepted
