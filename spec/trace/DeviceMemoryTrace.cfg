\* trace validation: 6 handle slots, up to 6 device stores, bytes 1..255; the generation constants are unused
SPECIFICATION TSpec
CONSTANTS
  NViews = 6
  NStores = 6
  MaxBytes = 16
  HostInit <- TraceHost0
  ESizes = {1, 2, 4}
  NStamps = 1
  PatMod = 255
  Dom <- TraceDom
  Dom2 <- TraceDom
  WrapAt = {0}
  Progress = FALSE
  Mode = "all"
  Prefixes <- TraceNoPrefix
  Depth = 0
  MaxErr = 0
INVARIANTS TypeOK ViewInsideBuffer NoOrphanStore
PROPERTIES ErrorLeavesMemoryUnchanged SliceAliasesParent CloneDoesNot CopiesKeepViews
POSTCONDITION Accepted
CHECK_DEADLOCK FALSE
