---------------------------- MODULE DepHashTrace ----------------------------
(* C07, code -> spec: validates the log of real edit/build histories against DepHash's
   definitions.  The log (ndjson, $TRACE) has one event per line:
     {"e":"reset","init":{"h1":{"val":1,"inc":[]},...}}      a new history (fresh cache directory)
     {"e":"edit","h":"h1","val":2,"inc":["h2"]}              header h was rewritten with this content
     {"e":"build","dir":"<cache dir>","act":"compiled|loaded","val":N}   what a build in a fresh
                                                             process reported
   Cache directory names are opaque here (no key function is assumed).  A build event is accepted
   only if
     - the value is the one of the current files (KernelValue of DepHash),
     - "loaded": the directory was filled by an earlier build of this history and the files that
       build included, with the contents they had then, are exactly the files included now with
       their current contents,
     - "compiled": the directory was not filled before (a compile never overwrites an entry).
   TLC follows the log; the number of accepted events is the depth of the search - 1.          *)
EXTENDS DepHash, IOUtils

VARIABLE l     \* index of the next event

Log == ndJsonDeserialize(IOEnv.TRACE)

ToSet(s) == {s[i] : i \in 1..Len(s)}
Conv(c) == [val |-> c.val, inc |-> ToSet(c.inc)]
RECURSIVE Num(_)
Num(s) == IF s = <<>> THEN 0 ELSE Num(SubSeq(s, 1, Len(s) - 1)) * 10 + s[Len(s)]
Snapshot(C) == [d \in Included(C) |-> C[d]]

IsEvent(e) == l <= Len(Log) /\ Log[l].e = e /\ l' = l + 1

TraceInit == /\ l = 1
             /\ style = "quoted" /\ content = <<>> /\ dirs = <<>>
             /\ last = [outcome |-> "none"] /\ edits = 0 /\ builds = 0 /\ hist = <<>>

Reset == /\ IsEvent("reset")
         /\ content' = [h \in DOMAIN Log[l].init |-> Conv(Log[l].init[h])]
         /\ dirs' = <<>>
         /\ UNCHANGED <<style, last, edits, builds, hist>>

EditEvent == /\ IsEvent("edit")
             /\ content' = [content EXCEPT ![Log[l].h] = [val |-> Log[l].val, inc |-> ToSet(Log[l].inc)]]
             /\ UNCHANGED <<style, dirs, last, edits, builds, hist>>

BuildEvent ==
  /\ IsEvent("build")
  /\ LET ev == Log[l] IN
     /\ ev.val = Num(KernelValue(content))
     /\ \/ /\ ev.act = "loaded"
           /\ ev.dir \in DOMAIN dirs
           /\ dirs[ev.dir] = Snapshot(content)
           /\ UNCHANGED dirs
        \/ /\ ev.act = "compiled"
           /\ ev.dir \notin DOMAIN dirs
           /\ dirs' = dirs @@ (ev.dir :> Snapshot(content))
  /\ UNCHANGED <<style, content, last, edits, builds, hist>>

TraceNext == Reset \/ EditEvent \/ BuildEvent
TraceSpec == TraceInit /\ [][TraceNext]_<<vars, l>>
=============================================================================
