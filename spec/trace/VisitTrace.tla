----------------------------- MODULE VisitTrace -----------------------------
(* Trace validation for C17 / C18: consumes the ndjson log of what the backends did,
       {"e":"B","r":id,"h":{init,bound,step,cmp,left,upd}}   a kernel run begins (ORIGINAL loop header, evaluated operands)
       {"e":"V","v":n}                                       the body ran with iterator value n
       {"e":"X"}                                             the launch was rejected / raised an error
       {"e":"E","r":id}                                      the run is over
   and judges every run against the sequential loop of OklHeaders: each visit must be a value the
   sequential loop takes and not seen before in this run (else the NAMED deviation Unexpected), a
   rejected launch is the deviation Rejected, values left over at the end are Missed.  Deviations
   do not stop the validation: one TLC run judges every run of every backend and prints
   <<"V", id, names>> for the runs that deviate; acceptance of the whole log is the POSTCONDITION. *)
EXTENDS OklHeaders, IOUtils

Log == ndJsonDeserialize(IOEnv.TRACE)

VARIABLES l,          \* next line
          remaining,  \* sequential values not visited yet in the current run
          bad         \* deviations of the current run

tvars == <<l, remaining, bad>>

IsEvent(e) == l <= Len(Log) /\ Log[l].e = e /\ l' = l + 1

TInit == l = 1 /\ remaining = {} /\ bad = {}

Begin == /\ IsEvent("B")
         /\ remaining' = SeqToSet(SeqIters(Log[l].h))
         /\ bad' = {}

Visit == /\ IsEvent("V")
         /\ Log[l].v \in remaining
         /\ remaining' = remaining \ {Log[l].v}
         /\ UNCHANGED bad
Unexpected == /\ IsEvent("V")
              /\ Log[l].v \notin remaining
              /\ bad' = bad \cup {"Unexpected"}
              /\ UNCHANGED remaining
Rejected == /\ IsEvent("X")
            /\ bad' = bad \cup {"Rejected"}
            /\ UNCHANGED remaining
End == /\ IsEvent("E")
       /\ LET b == IF remaining = {} THEN bad ELSE bad \cup {"Missed"}
          IN IF b = {} THEN TRUE ELSE PrintT(<<"V", Log[l].r, b>>)
       /\ remaining' = {} /\ bad' = {}

TNext == Begin \/ Visit \/ Unexpected \/ Rejected \/ End
TSpec == TInit /\ [][TNext]_tvars

Accepted == TLCGet("stats").diameter - 1 = Len(Log)
=============================================================================
