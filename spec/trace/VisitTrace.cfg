SPECIFICATION TSpec
CONSTANTS
  ArgVals = {0}
  StepVals = {1}
  Fuel = 40
  MaxAbs = 100
  OneQ = TRUE
POSTCONDITION Accepted
CHECK_DEADLOCK FALSE
