\* trace validation of recorded build processes against the CacheFS protocol (C08, C09)
SPECIFICATION TraceSpec
INVARIANTS TraceNoPartialUnderFinalName TraceNoBadUnderFinalName NoOpenFinal
POSTCONDITION TraceAccepted
CHECK_DEADLOCK FALSE
