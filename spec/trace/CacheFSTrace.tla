----------------------------- MODULE CacheFSTrace -----------------------------
(***************************************************************************)
(* Trace validation (code -> spec) for C08/C09: the file-system calls that *)
(* ONE real building process made (recorded with strace, projected by      *)
(* tools/cachefs.py onto the call classes of CacheFS) are replayed through *)
(* the CacheFS actions; the CacheFS invariants are evaluated after every   *)
(* event.  An in-place write of a final name (open(O_TRUNC) of a name that *)
(* readers test with isFile/exists) makes that name `partial` and is       *)
(* therefore REJECTED (NoPartialUnderFinalName), as is a rename of a       *)
(* temporary file that is not complete and closed, a spawned compiler      *)
(* writing a final name, a read of a name that nobody completed, a write   *)
(* or close on a name that is not open, and any unknown mutating call.     *)
(*                                                                         *)
(* Names are the names that occur in the log: final names ("K.bin", ...)   *)
(* and temporary names ("K.bin~<random prefix>").  Several recorded runs   *)
(* are concatenated; a Reset event starts a new run on an empty cache.     *)
(* With env = TRUE (runs that had concurrent builders, C09) the other      *)
(* processes are environment: a final name may have been published         *)
(* (absent -> ok) and a directory created by somebody else at any time;    *)
(* no ordering between processes is assumed.  Runs recorded without        *)
(* following children (fo = FALSE on their events) cannot show what a      *)
(* spawned compiler created: after such a child has finished, a temporary  *)
(* name we never saw may exist and be complete (never a final name).       *)
(***************************************************************************)
EXTENDS Naturals, Sequences, FiniteSets, TLC, Json, IOUtils

Log == ndJsonDeserialize(IOEnv.TRACE)

FileEvents == {"Stat", "OpenW", "Write", "CloseW", "Fsync", "Rename", "Read", "Unlink",
               "ChildOpenW", "ChildUnlink"}
Name  == {Log[i].n : i \in {j \in 1..Len(Log) : Log[j].e \in FileEvents}}
         \cup {Log[i].s : i \in {j \in 1..Len(Log) : Log[j].e = "Rename"}}
Final == {Log[i].n : i \in {j \in 1..Len(Log) : Log[j].e \in FileEvents /\ ~Log[j].t}}
         \cup {Log[i].s : i \in {j \in 1..Len(Log) : Log[j].e = "Rename" /\ ~Log[j].st}}
Dirs == {"R", "C", "K", "V", "O", "?"}
Proc == {"me"}

VARIABLES fs, dir, wr, child,      \* CacheFS
          l,                       \* next event
          env,                     \* this run had concurrent builders
          spawned,                 \* a child of the traced process is running
          blind                    \* children were not recorded in this run and one of them has finished:
                                   \* it may have created temp names (never final names) we did not see

INSTANCE CacheFS

vars == <<fs, dir, wr, child, l, env, spawned, blind>>

Ev == Log[l]
IsEvent(e) == l <= Len(Log) /\ Log[l].e = e /\ l' = l + 1

TraceInit == FsInit /\ l = 1 /\ env = FALSE /\ spawned = FALSE /\ blind = FALSE

\* what the other builders may have done in the meantime (only in env runs, only final names / dirs)
Published(n) == \/ env /\ n \in Final /\ fs[n] = "absent"
                \/ blind /\ n \notin Final /\ fs[n] = "absent"      \* temp name made by an unrecorded child
FsWith(n) == IF Published(n) THEN [fs EXCEPT ![n] = "ok"] ELSE fs
DirOK(d) == dir[d] \/ env

Reset ==
  /\ IsEvent("Reset")
  /\ fs' = [n \in Name |-> "absent"] /\ dir' = [d \in Dirs |-> FALSE]
  /\ wr' = [p \in Proc |-> {}] /\ child' = [p \in Proc |-> {}]
  /\ env' = Ev.env /\ spawned' = FALSE /\ blind' = FALSE

TMkdir ==
  /\ IsEvent("Mkdir")
  /\ Ev.r \/ env \/ dir[Ev.d]           \* EEXIST only when somebody (or an earlier call) made it
  /\ FsMkdir("me", Ev.d)
  /\ UNCHANGED <<env, spawned, blind>>

TStat ==                                \* the answer must be explainable by the state of the name
  /\ IsEvent("Stat")
  /\ IF Ev.r THEN Exists(Ev.n) \/ Published(Ev.n) ELSE ~Exists(Ev.n)
  /\ fs' = IF Ev.r THEN FsWith(Ev.n) ELSE fs
  /\ UNCHANGED <<dir, wr, child, env, spawned, blind>>

TOpenW ==
  /\ IsEvent("OpenW")
  /\ DirOK(Ev.d)
  /\ FsOpenW("me", Ev.n)
  /\ UNCHANGED <<env, spawned, blind>>

TWrite ==
  /\ IsEvent("Write")
  /\ FsWrite("me", Ev.n)
  /\ UNCHANGED <<env, spawned, blind>>

TCloseW ==
  /\ IsEvent("CloseW")
  /\ FsCloseW("me", Ev.n, "ok")
  /\ UNCHANGED <<env, spawned, blind>>

TFsync ==
  /\ IsEvent("Fsync")
  /\ Exists(Ev.n) \/ Published(Ev.n)
  /\ FsFsync("me", Ev.n)
  /\ UNCHANGED <<env, spawned, blind>>

TFsyncDir ==
  /\ IsEvent("FsyncDir")
  /\ DirOK(Ev.d)
  /\ UNCHANGED <<fs, dir, wr, child, env, spawned, blind>>

TRename ==                              \* publication: the invariants judge what became visible
  /\ IsEvent("Rename")
  /\ Exists(Ev.s) \/ Published(Ev.s)
  /\ fs' = [FsWith(Ev.s) EXCEPT ![Ev.n] = FsWith(Ev.s)[Ev.s], ![Ev.s] = "absent"]
  /\ wr' = [q \in Proc |-> IF Ev.s \in wr[q] THEN (wr[q] \ {Ev.s}) \cup {Ev.n} ELSE wr[q]]
  /\ UNCHANGED <<dir, child>>
  /\ UNCHANGED <<env, spawned, blind>>

TRead ==                                \* the reader trusts what it finds: it must be complete
  /\ IsEvent("Read")
  /\ FsWith(Ev.n)[Ev.n] = "ok"
  /\ fs' = FsWith(Ev.n)
  /\ UNCHANGED <<dir, wr, child, env, spawned, blind>>

TUnlink ==
  /\ IsEvent("Unlink")
  /\ FsUnlink("me", Ev.n)
  /\ UNCHANGED <<env, spawned, blind>>

TSpawn ==
  /\ IsEvent("Spawn")
  /\ ~spawned
  /\ spawned' = TRUE
  /\ UNCHANGED <<fs, dir, wr, child, env, blind>>

TChildOpenW ==                          \* the spawned compiler / shell redirection creates a file
  /\ IsEvent("ChildOpenW")
  /\ spawned
  /\ fs' = [fs EXCEPT ![Ev.n] = "partial"]
  /\ child' = [child EXCEPT !["me"] = @ \cup {Ev.n}]
  /\ UNCHANGED <<dir, wr, env, spawned, blind>>

TChildUnlink ==
  /\ IsEvent("ChildUnlink")
  /\ spawned
  /\ fs' = [fs EXCEPT ![Ev.n] = "absent"]
  /\ child' = [child EXCEPT !["me"] = @ \ {Ev.n}]
  /\ UNCHANGED <<dir, wr, env, spawned, blind>>

TWait ==
  /\ IsEvent("Wait")
  /\ spawned
  /\ FsWaitChild("me", "ok")
  /\ spawned' = FALSE
  /\ blind' = (blind \/ ~Log[l].fo)
  /\ UNCHANGED env

TraceNext == \/ Reset \/ TMkdir \/ TStat \/ TOpenW \/ TWrite \/ TCloseW \/ TFsync \/ TFsyncDir
             \/ TRename \/ TRead \/ TUnlink \/ TSpawn \/ TChildOpenW \/ TChildUnlink \/ TWait

TraceSpec == TraceInit /\ [][TraceNext]_vars

-----------------------------------------------------------------------------
\* evaluated after every consumed event
TraceNoPartialUnderFinalName == NoPartialUnderFinalName
TraceNoBadUnderFinalName == NoBadUnderFinalName
\* a final name is never removed or replaced by something incomplete; handles are closed before publication
NoOpenFinal == \A f \in Final : f \notin wr["me"]

\* acceptance: every event was consumed (the spec is deterministic: one successor per event)
TraceAccepted ==
  LET d == TLCGet("stats").diameter
  IN IF d - 1 = Len(Log) THEN TRUE
     ELSE Print(<<"REJECTED-AFTER", d - 1, "OF", Len(Log),
                  IF d <= Len(Log) THEN Log[d] ELSE "end">>, FALSE)
=============================================================================
