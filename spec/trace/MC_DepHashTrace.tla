------------------------- MODULE MC_DepHashTrace -------------------------
EXTENDS DepHashTrace
TH3 == <<"h1", "h2", "h3">>
TRoot == {"h1", "h2"}
TRootOne == {"h1"}
QuotedOnly == {"quoted"}
TVals == 1..3
TInit == [h \in {"h1", "h2", "h3"} |-> 1]
=============================================================================
