---------------------------- MODULE OJsonTrace ----------------------------
(* Trace validation for C25: the log of harness/ojson_driver.cpp (one ndjson event per public
   call, written when the call returns) is replayed against the actions of OJson.  Every logged
   field is constrained: the arguments select the action instance, the logged outcome and the
   logged document must be the ones the action produces, and a logged read must be what the
   nested-dictionary operators give on the current document.  A "reset" event starts a new
   document, so that many histories share one TLC run.  Acceptance: the number of events
   consumed (diameter - 1) is printed by the POSTCONDITION and compared with the log length.   *)
EXTENDS OJson, IOUtils

TK3 == <<"a", "a/b", "b">>
Log == ndJsonDeserialize(IOEnv.TRACE)

VARIABLE l
tvars == <<doc, hist, l>>

Ev == Log[l]
Last == hist'[Len(hist')]

TReset   == Ev.e = "reset"   /\ doc' = NoneV /\ hist' = <<>>
TSetPath == Ev.e = "setPath" /\ SetPath(Ev.p, Ev.v) /\ Ev.ok = Last.ok /\ Ev.doc = doc'
TRemove  == Ev.e = "remove"  /\ Remove(Ev.p) /\ Ev.ok = TRUE /\ Ev.doc = doc'
TSetKey  == Ev.e = "set"     /\ SetKey(Ev.p, Ev.key, Ev.v) /\ Ev.ok = TRUE /\ Ev.doc = doc'
TMerge   == Ev.e = "merge"   /\ Merge(Ev.p, Ev.v) /\ Ev.ok = Last.ok /\ Ev.doc = doc'
TRead    == /\ Ev.e = "read" /\ UNCHANGED <<doc, hist>>
            /\ Ev.c = Lookup(doc, Ev.p)
            /\ Ev.g = Lookup(doc, Ev.p)
            /\ Ev.h = HasP(doc, Ev.p)
            /\ (Lookup(doc, Ev.p).k # "str" => Ev.z = SizeOf(Lookup(doc, Ev.p)))
            /\ Ev.doc = doc

TraceInit == doc = NoneV /\ hist = <<>> /\ l = 1
TraceNext == /\ l <= Len(Log)
             /\ l' = l + 1
             /\ (TReset \/ TSetPath \/ TRemove \/ TSetKey \/ TMerge \/ TRead)
TraceSpec == TraceInit /\ [][TraceNext]_tvars

Accepted == PrintT(<<"TRACE-ACCEPTED", TLCGet("stats").diameter - 1>>)
TraceTypeOK == TypeOK
=============================================================================
