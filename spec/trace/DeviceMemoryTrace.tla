------------------------- MODULE DeviceMemoryTrace -------------------------
(* Trace validation (code -> spec) for C02: consumes the ndjson log written by
   harness/devmem_driver.cpp -- one event per public occa::memory / device call at its return,
   with the arguments, the outcome, the bytes a copyTo returned and what every handle and the
   wrapped host array show afterwards -- and replays it through the effects of DeviceMemory.tla.
   After every event the spec's prediction is compared with the logged observation; the names of
   the comparisons that fail are printed as <<"V", json of [l, bad]>>.  After a deviation the
   abstract state can no longer be trusted, so the remaining events of that execution are skipped
   (printed as one verdict) and validation resumes at the next "Reset" (several executions are
   concatenated in one log).  The DeviceMemory invariants and action properties are evaluated at
   every consumed event.  Acceptance of the whole log is the POSTCONDITION.                    *)
EXTENDS DeviceMemory, IOUtils

Log == ndJsonDeserialize(IOEnv.TRACE)
TraceHost0 == <<>>
TraceNoPrefix == {<<>>}
TraceDom(L) == {}

VARIABLES l,      \* next line of the log
          bad,    \* names of the comparisons that failed for line l-1
          skip    \* TRUE after a deviation, until the next Reset
tvars == <<vars, l, bad, skip>>

Ev == Log[l]
CmdOf(ev) == [a |-> ev.a, v |-> ev.v, w |-> ev.w, t |-> ev.t, x |-> ev.x, y |-> ev.y, z |-> ev.z,
              e |-> ev.e, f |-> ev.f, pat |-> ev.pat]

\* model bytes vs logged bytes: an undefined model byte (malloc without data) matches anything
SeqMatch(m, x) == Len(m) = Len(x) /\ \A i \in DOMAIN m : m[i] = U \/ m[i] = x[i]
ViewMatch(m, x) == /\ m.i = x.i
                   /\ m.i = 0 => x.n = 0
                   /\ m.i = 1 => (m.n = x.n /\ m.e = x.e /\ SeqMatch(m.b, x.b))
ObsMatch(m, x) == /\ Len(x.v) = NViews
                  /\ \A i \in 1..NViews : ViewMatch(m.v[i], x.v[i])
                  /\ SeqMatch(m.h, x.h)

\* one line per rejected event:  <<"V", "{json}">>   (a string is never wrapped by TLC's printer)
Names == <<"IllFormedEvent", "Outcome", "Read", "Overrun", "UBSan", "Observation">>
Report(names, r, m2) ==
  PrintT(<<"V", ToJson([l |-> l, bad |-> SelectSeq(Names, LAMBDA n : n \in names),
                        spec |-> [res |-> r.res, rd |-> r.rd, obs |-> Obs(r.view, m2)]])>>)

TInit == Init /\ l = 1 /\ bad = {} /\ skip = FALSE

\* a new execution: nothing allocated, a fresh host array
TReset ==
  /\ l <= Len(Log) /\ Ev.a = "Reset"
  /\ view' = [v \in 1..NViews |-> Uninit]
  /\ mem' = [s \in 0..NStores |-> IF s = 0 THEN Ev.host ELSE <<>>]
  /\ k' = 0
  /\ last' = [a |-> "", res |-> "ok", v |-> 0, t |-> 0]
  /\ hist' = <<>> /\ bad' = {} /\ skip' = FALSE
  /\ l' = l + 1

TSkip ==
  /\ l <= Len(Log) /\ Ev.a # "Reset" /\ skip
  /\ l' = l + 1 /\ UNCHANGED <<vars, bad, skip>>

TCall ==
  /\ l <= Len(Log) /\ Ev.a # "Reset" /\ ~skip
  /\ LET c == CmdOf(Ev) IN
     IF ~WellFormed(c)
       THEN /\ bad' = {"IllFormedEvent"} /\ Report(bad', Err, mem) /\ skip' = TRUE /\ UNCHANGED vars
       ELSE LET r == Eff(c)
                m2 == GC(r.view, r.mem)
                verdict == (IF r.res = Ev.res THEN {} ELSE {"Outcome"})
                           \cup (IF SeqMatch(r.rd, Ev.rd) THEN {} ELSE {"Read"})
                           \cup (IF Ev.over = 0 THEN {} ELSE {"Overrun"})
                           \cup (IF Ev.ubsan = "" THEN {} ELSE {"UBSan"})
                           \cup (IF ObsMatch(Obs(r.view, m2), Ev.obs) THEN {} ELSE {"Observation"})
            IN /\ bad' = verdict
               /\ (IF verdict = {} THEN TRUE ELSE Report(verdict, r, m2))
               /\ skip' = (verdict # {})
               /\ view' = TLCEval(r.view) /\ mem' = TLCEval(m2) /\ k' = k
               /\ last' = [a |-> c.a, res |-> r.res, v |-> c.v, t |-> c.t]
               /\ hist' = hist
  /\ l' = l + 1

TNext == TReset \/ TSkip \/ TCall
TSpec == TInit /\ [][TNext]_tvars

\* every line of the log was consumed
Accepted == TLCGet("stats").diameter - 1 = Len(Log)
=============================================================================
