-------------------------- MODULE MemoryPoolTrace --------------------------
(* Trace validation for C03 / C04: consumes the ndjson log written by harness/pool_replay.cpp
   (one event per public memoryPool call, carrying the complete observable post-state) and
   re-plays it through the abstract pool of MemoryPool.tla, binding the placement parameters
   to the logged values.  After every event the property predicates are evaluated on the
   resulting abstract state; the names of the predicates that fail are collected in `bad` and
   printed as  <<"V", line, names>>  (so that ONE TLC run judges every event of every
   concatenated execution instead of stopping at the first failure).  Acceptance of the
   whole log (every line explained by an action) is the POSTCONDITION.                     *)
EXTENDS MemoryPool, Json, IOUtils

Log == ndJsonDeserialize(IOEnv.TRACE)

VARIABLES l,     \* next line of the log
          bad    \* names of the predicates violated by the state reached by line l-1
tvars == <<pvars, l, bad>>

ResIdx(ev) == DOMAIN ev.res
LoggedIds(ev) == {ev.res[k].id : k \in ResIdx(ev)}
ResOf(ev, i) == ev.res[CHOOSE k \in ResIdx(ev) : ev.res[k].id = i]
LoggedPlace(ev) == [i \in LoggedIds(ev) |-> ResOf(ev, i).off]

\* names of the property predicates that are false in the NEXT state, given the event
Verdict(ev) ==
  LET L == live'  P == place'
      idsOK == LoggedIds(ev) = {x.id : x \in L}
      RR == IF idsOK THEN Placed(L, P) ELSE {}
  IN  (IF idsOK THEN {} ELSE {"LiveSet"})
      \cup (IF idsOK /\ \A x \in L : ResOf(ev, x.id).len = x.len THEN {} ELSE {"Length"})
      \cup (IF Disjoint(RR) THEN {} ELSE {"Disjoint"})
      \cup (IF Inside(RR, psize') THEN {} ELSE {"Inside"})
      \cup (IF Rigid(RR) THEN {} ELSE {"Rigid"})
      \cup (IF idsOK /\ \A x \in L : ResOf(ev, x.id).data = Reads(x, cells', unit') THEN {} ELSE {"Reads"})
      \cup (IF reserved' = UnionSize(RR, align') THEN {} ELSE {"Reserved"})
      \cup (IF nres' = Cardinality(L) THEN {} ELSE {"Count"})
      \cup (IF psize' >= reserved' THEN {} ELSE {"SizeGeReserved"})
      \cup (IF L = {} /\ reserved' # 0 THEN {"ZeroWhenEmpty"} ELSE {})

Unchanged(ev) ==
  /\ ev.size = psize /\ ev.reserved = reserved /\ ev.nres = nres /\ ev.align = align
  /\ LoggedIds(ev) = Ids /\ \A i \in Ids : ResOf(ev, i).off = place[i]

\* Events carry j = 0 when the driver knows that the very same event (same operation after the same
\* prefix) is the judged final event of another execution in the log (transition-cover batches):
\* its effect is applied, its verdict is not recomputed.
Judged(ev) == ~("j" \in DOMAIN ev /\ ev.j = 0)
Judge(ev, extra) ==
  /\ bad' = (IF Judged(ev) THEN Verdict(ev) \cup extra ELSE {})
  /\ (IF bad' = {} THEN TRUE ELSE PrintT(<<"V", l, bad'>>))

\* adopt the logged placement / counters
BindLog(ev) == Bind(LoggedPlace(ev), ev.size, ev.reserved, ev.nres, ev.align)
Args(ev) == <<LoggedPlace(ev), ev.size, ev.reserved, ev.nres, ev.align>>

\* a step whose abstract guard does not hold, or that was refused although the abstract pool
\* accepts it: a NAMED deviation -- keep the abstract part, adopt the log, record why
Deviation(ev, why) ==
  /\ UNCHANGED <<live, cells>> /\ BindLog(ev) /\ Judge(ev, {why})
RefusedAsExpected(ev) ==
  /\ Refused /\ bad' = (IF Unchanged(ev) \/ ~Judged(ev) THEN {} ELSE {"RefusedButChanged"})
  /\ (IF bad' = {} THEN TRUE ELSE PrintT(<<"V", l, bad'>>))

IsEvent(e) == l <= Len(Log) /\ Log[l].e = e /\ l' = l + 1

TInit ==
  /\ l = 1 /\ bad = {}
  /\ live = {} /\ place = <<>> /\ cells = <<>> /\ psize = 0 /\ reserved = 0 /\ nres = 0 /\ align = 1 /\ unit = 1

\* "init": a fresh pool (also the separator between concatenated executions)
TStart == /\ IsEvent("init")
          /\ LET ev == Log[l] IN
               /\ live' = {} /\ place' = <<>> /\ cells' = <<>>
               /\ psize' = ev.size /\ reserved' = ev.reserved /\ nres' = ev.nres /\ align' = ev.align
               /\ unit' = ev.unit
               /\ Judge(ev, {})

TReserve == /\ IsEvent("reserve")
            /\ LET ev == Log[l] IN
                 IF ev.err = 0
                 THEN /\ Reserve(ev.n, ev.id, ev.w, LoggedPlace(ev), ev.size, ev.reserved, ev.nres, ev.align)
                      /\ Judge(ev, {})
                 ELSE Deviation(ev, "ReserveRefused")

TSlice == /\ IsEvent("slice")
          /\ LET ev == Log[l] IN
               IF SliceOK(ev.r, ev.o, ev.n)
               THEN IF ev.err = 0
                    THEN /\ Slice(ev.r, ev.o, ev.n, ev.id, LoggedPlace(ev), ev.size, ev.reserved, ev.nres, ev.align)
                         /\ Judge(ev, {})
                    ELSE Deviation(ev, "SliceRefused")
               ELSE IF ev.err = 1 THEN RefusedAsExpected(ev)
                    ELSE Deviation(ev, "BadSliceAccepted")

TRelease == /\ IsEvent("release")
            /\ LET ev == Log[l] IN
                 IF ev.err = 0 /\ ev.r \in Ids
                 THEN /\ Release(ev.r, LoggedPlace(ev), ev.size, ev.reserved, ev.nres, ev.align)
                      /\ Judge(ev, {})
                 ELSE Deviation(ev, "ReleaseRefused")

TWrite == /\ IsEvent("write")
          /\ LET ev == Log[l] IN
               IF ev.err = 0 /\ ev.r \in Ids
               THEN /\ Write(ev.r, ev.w, LoggedPlace(ev), ev.size, ev.reserved, ev.nres, ev.align)
                    /\ Judge(ev, {})
               ELSE Deviation(ev, "WriteRefused")

TResize == /\ IsEvent("resize")
           /\ LET ev == Log[l] IN
                IF ev.err = 2 THEN RefusedAsExpected(ev)          \* request not expressible, skipped by the driver
                ELSE IF ResizeOK(ev.b)
                THEN IF ev.err = 0
                     THEN IF ev.size >= ev.b
                          THEN /\ Resize(ev.b, LoggedPlace(ev), ev.size, ev.reserved, ev.nres, ev.align)
                               /\ Judge(ev, {})
                          ELSE Deviation(ev, "ResizeTooSmall")
                     ELSE Deviation(ev, "ResizeRefused")
                ELSE IF ev.err = 1 THEN RefusedAsExpected(ev)
                     ELSE Deviation(ev, "ResizeBelowReservedAccepted")

TAlign == /\ IsEvent("align")
          /\ LET ev == Log[l] IN
               IF ev.err = 0 /\ ev.a >= 1 /\ ev.align = ev.a
               THEN /\ SetAlignment(ev.a, LoggedPlace(ev), ev.size, ev.reserved, ev.nres, ev.align)
                    /\ Judge(ev, {})
               ELSE Deviation(ev, "SetAlignment")

TReleaseAll == /\ IsEvent("releaseAll")
               /\ LET ev == Log[l] IN
                    /\ live' = {} /\ UNCHANGED cells /\ BindLog(ev) /\ Judge(ev, {})

TNext == TStart \/ TReserve \/ TSlice \/ TRelease \/ TWrite \/ TResize \/ TAlign \/ TReleaseAll
TSpec == TInit /\ [][TNext]_tvars

\* every line of the log was explained by an action
Accepted == TLCGet("stats").diameter - 1 = Len(Log)
=============================================================================
