\* trace validation of real edit/build logs (constants of DepHash that the trace spec does not use are dummies)
SPECIFICATION TraceSpec
CONSTANTS
  HSeq <- TH3
  Root <- TRoot
  Vals <- TVals
  InitVal <- TInit
  MaxEdits = 0
  MaxBuilds = 0
  Variant = "chained"
  Fuel = 0
  Styles <- QuotedOnly
  MaxHist = 0
