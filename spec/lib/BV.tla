--------------------------------- MODULE BV ---------------------------------
(* Exact fixed-width binary arithmetic for TLC, whose integers are 32-bit.

   A bit vector is a little-endian sequence of BYTES (limb 1 = least significant, each limb
   in 0..255).  Every operator works for any length n = Len(a); the C semantics (CExpr) use
   n = 8 (64 bits) for values and n = 9 / 16 for intermediate results (division remainders,
   full products), so that overflow can be *detected* instead of wrapped.  All intermediate
   TLC integers stay below 2^25.

   (DESIGN 4.4 planned base-2^15 limbs; bytes were chosen instead because truncation to
   8/16/32/64 bits, sign extension and the bitwise operators are then limb-aligned.)      *)
EXTENDS Integers, Sequences

Byte == 0..255
IsBV(a, n) == a \in [1..n -> Byte]

Zeros(n) == [i \in 1..n |-> 0]
Ones(n)  == [i \in 1..n |-> 255]
\* a small natural ( < 2^31 ) as an n-limb vector, n >= 1
Pow256 == <<1, 256, 65536, 16777216>>
OfNat(x, n) == [i \in 1..n |-> IF i <= 4 THEN (x \div Pow256[i]) % 256 ELSE 0]
\* resize: truncate, or extend with the fill byte (0 = zero extension, 255 = sign extension)
Resize(a, n, fill) == [i \in 1..n |-> IF i <= Len(a) THEN a[i] ELSE fill]
TopBit(a) == a[Len(a)] \div 128                    \* 1 iff negative as two's complement
SignFill(a) == IF TopBit(a) = 1 THEN 255 ELSE 0
SExt(a, n) == Resize(a, n, SignFill(a))
ZExt(a, n) == Resize(a, n, 0)
IsZero(a) == \A i \in 1..Len(a) : a[i] = 0

\* ---------------------------------------------------------------- add / sub / neg
\* (recursive OPERATORS, not recursive functions: TLC re-evaluates a LET-bound recursive
\*  function at every application, which made one 9-limb product cost ~70 ms)
RECURSIVE AddFrom(_, _, _, _)
AddFrom(a, b, i, c) ==          \* limbs i.. of a+b+c, followed by the carry out as last element
  IF i > Len(a) THEN <<c>>
  ELSE LET s == a[i] + b[i] + c IN <<s % 256>> \o AddFrom(a, b, i + 1, s \div 256)
AddC(a, b, cin) == SubSeq(AddFrom(a, b, 1, cin), 1, Len(a))
CarryOut(a, b, cin) == AddFrom(a, b, 1, cin)[Len(a) + 1]
Not(a)    == [i \in 1..Len(a) |-> 255 - a[i]]
Add(a, b) == AddC(a, b, 0)
Sub(a, b) == AddC(a, Not(b), 1)
Neg(a)    == AddC(Not(a), Zeros(Len(a)), 1)

\* ---------------------------------------------------------------- comparisons
\* unsigned:  most significant differing limb decides
RECURSIVE ULtFrom(_, _, _)
ULtFrom(a, b, i) == IF i = 0 THEN FALSE
                    ELSE IF a[i] # b[i] THEN a[i] < b[i]
                    ELSE ULtFrom(a, b, i - 1)
ULt(a, b) == ULtFrom(a, b, Len(a))
ULe(a, b) == ~ULt(b, a)
\* signed (two's complement): different signs decide, else unsigned order
SLt(a, b) == IF TopBit(a) # TopBit(b) THEN TopBit(a) = 1 ELSE ULt(a, b)
SLe(a, b) == ~SLt(b, a)

\* ---------------------------------------------------------------- multiplication (mod 2^(8n))
\* a * m for a small natural m < 2^16 (mod 2^(8n))
RECURSIVE MulSmFrom(_, _, _, _)
MulSmFrom(a, m, i, c) ==
  IF i > Len(a) THEN <<>>
  ELSE LET s == a[i] * m + c IN <<s % 256>> \o MulSmFrom(a, m, i + 1, s \div 256)
MulSmall(a, m) == MulSmFrom(a, m, 1, 0)
LimbShl(a, j) == [i \in 1..Len(a) |-> IF i > j THEN a[i - j] ELSE 0]
\* schoolbook: sum over the limbs of a of (b * a[i]) shifted by i-1 limbs
RECURSIVE MulFrom(_, _, _, _)
MulFrom(a, b, i, acc) ==
  IF i > Len(a) THEN acc
  ELSE MulFrom(a, b, i + 1, IF a[i] = 0 THEN acc
                            ELSE AddC(acc, LimbShl(MulSmall(b, a[i]), i - 1), 0))
Mul(a, b) == MulFrom(a, b, 1, Zeros(Len(a)))
\* full product of two n-limb unsigned numbers: 2n limbs
MulWide(a, b) == Mul(ZExt(a, 2 * Len(a)), ZExt(b, 2 * Len(a)))

\* ---------------------------------------------------------------- shifts (0 <= k < 8n)
Pow2 == <<1, 2, 4, 8, 16, 32, 64, 128>>              \* Pow2[j + 1] = 2^j
Shl(a, k) ==
  LET n == Len(a)
      bs == k \div 8
      m == Pow2[(k % 8) + 1]
      Lo(i) == IF i >= 1 THEN a[i] ELSE 0
  IN [i \in 1..n |-> ((Lo(i - bs) * m) % 256) + ((Lo(i - bs - 1) * m) \div 256)]
\* right shift with the given fill byte for the vacated positions (0: logical, 255: arithmetic)
ShrFill(a, k, fill) ==
  LET n == Len(a)
      bs == k \div 8
      j == k % 8
      m == Pow2[j + 1]
      w == Pow2[((8 - j) % 8) + 1]
      Hi(i) == IF i <= n THEN a[i] ELSE fill
  IN [i \in 1..n |-> IF j = 0 THEN Hi(i + bs)
                     ELSE (Hi(i + bs) \div m) + ((Hi(i + bs + 1) % m) * w)]
Shr(a, k)  == ShrFill(a, k, 0)
Sar(a, k)  == ShrFill(a, k, SignFill(a))

\* ---------------------------------------------------------------- bitwise
BitOf(x, j) == (x \div Pow2[j + 1]) % 2
ByteOp(x, y, F(_, _)) ==
  LET RECURSIVE G(_)
      G(j) == IF j = 8 THEN 0 ELSE F(BitOf(x, j), BitOf(y, j)) * Pow2[j + 1] + G(j + 1)
  IN G(0)
FAnd(p, q) == p * q
FOr(p, q)  == IF p + q > 0 THEN 1 ELSE 0
FXor(p, q) == (p + q) % 2
And(a, b) == [i \in 1..Len(a) |-> ByteOp(a[i], b[i], FAnd)]
Or(a, b)  == [i \in 1..Len(a) |-> ByteOp(a[i], b[i], FOr)]
Xor(a, b) == [i \in 1..Len(a) |-> ByteOp(a[i], b[i], FXor)]

Bit(a, p) == BitOf(a[(p \div 8) + 1], p % 8)               \* bit p, 0 = least significant
\* number of significant bits (0 for zero) and of trailing zero bits (of a non-zero vector)
RECURSIVE BitLenFrom(_, _)
BitLenFrom(a, p) == IF p = 0 THEN 0 ELSE IF Bit(a, p - 1) = 1 THEN p ELSE BitLenFrom(a, p - 1)
BitLen(a) == BitLenFrom(a, 8 * Len(a))
RECURSIVE TzFrom(_, _)
TzFrom(a, p) == IF p >= 8 * Len(a) THEN p ELSE IF Bit(a, p) = 1 THEN p ELSE TzFrom(a, p + 1)
Tz(a) == TzFrom(a, 0)
\* ---------------------------------------------------------------- unsigned division
\* restoring bit-serial division; the remainder register has one extra limb so that
\* 2r+1 never wraps.  Requires ~IsZero(b).
UDivMod(a, b) ==
  LET n == Len(a)
      bx == ZExt(b, n + 1)
      RECURSIVE Step(_, _, _)
      Step(p, r, q) ==          \* p = number of bits still to bring down
        IF p = 0 THEN [q |-> q, r |-> Resize(r, n, 0)]
        ELSE LET r1 == AddC(Shl(r, 1), OfNat(Bit(a, p - 1), n + 1), 0)
                 ge == ULe(bx, r1)
                 q1 == AddC(Shl(q, 1), OfNat(IF ge THEN 1 ELSE 0, n), 0)
             IN Step(p - 1, IF ge THEN Sub(r1, bx) ELSE r1, q1)
      \* short division (divisor below 2^16): one limb of the dividend per step, from the top
      d == b[1] + 256 * b[2]
      RECURSIVE Short(_, _, _)
      Short(i, rm, q) == IF i = 0 THEN [q |-> q, r |-> OfNat(rm, n)]
                         ELSE LET t == rm * 256 + a[i]
                              IN Short(i - 1, t % d, <<t \div d>> \o q)
  IN IF ULt(a, b) THEN [q |-> Zeros(n), r |-> a]
     ELSE IF \A i \in 3..n : b[i] = 0 THEN Short(n, 0, <<>>)
     ELSE Step(BitLen(a), Zeros(n + 1), Zeros(n))   \* leading zero bits contribute nothing
UDiv(a, b) == UDivMod(a, b).q
URem(a, b) == UDivMod(a, b).r

=============================================================================
