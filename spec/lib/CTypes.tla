------------------------------- MODULE CTypes -------------------------------
(* The arithmetic types of C/C++ constant expressions as far as C13/C14 distinguish them
   (kind, signedness, width), literal typing, integer promotion, the usual arithmetic
   conversions, and typed values with their conversions.   LP64 data model (the one OCCA's
   primitive uses: int32/uint32/int64/uint64/float/double/bool):

        bool  int  uint  long  ulong  float  double

   `long` stands for both long and long long (same width and signedness; the property
   speaks of value, signedness and width only).

   PPMode = TRUE gives the arithmetic of #if conditions (C11 6.10.1p4, C++ [cpp.cond]):
   every signed type acts as intmax_t (`long`), every unsigned type as uintmax_t (`ulong`),
   there is no bool (comparisons yield the signed 0/1) and no floating point.              *)
EXTENDS Integers, Sequences, BV

CONSTANT PPMode

IntTypes == {"int", "uint", "long", "ulong"}
FltTypes == {"float", "double"}
ATypes   == {"bool"} \cup IntTypes \cup FltTypes
IsIntT(t) == t \in IntTypes \/ t = "bool"
IsFltT(t) == t \in FltTypes
Signed(t) == t \in {"int", "long"}
Bytes(t)  == IF t = "bool" THEN 1 ELSE IF t \in {"int", "uint", "float"} THEN 4 ELSE 8
Rank(t)   == IF t \in {"int", "uint"} THEN 1 ELSE 2
Mant(t)   == IF t = "float" THEN 24 ELSE 53          \* significand precision in bits

BoolT == IF PPMode THEN "long" ELSE "bool"           \* type of !, &&, ||, comparisons
Promote(t) == IF t = "bool" THEN "int" ELSE t
\* usual arithmetic conversions ([expr.arith.conv]); on LP64 the only signed type of higher
\* rank than an unsigned one is long over uint, and long represents every uint value
UAC(a, b) ==
  LET x == Promote(a)
      y == Promote(b)
  IN IF "double" \in {x, y} THEN "double"
     ELSE IF "float" \in {x, y} THEN "float"
     ELSE IF x = y THEN x
     ELSE IF Signed(x) = Signed(y) THEN (IF Rank(x) >= Rank(y) THEN x ELSE y)
     ELSE LET u == IF Signed(x) THEN y ELSE x
              s == IF Signed(x) THEN x ELSE y
          IN IF Rank(u) >= Rank(s) THEN u ELSE s

\* ---------------------------------------------------------------- values
(* An integer/bool value is [t, v] with v the 8-limb two's-complement vector of the
   mathematical value (sign- resp. zero-extended from the type's width).  A floating value
   is [t, v] with v = [neg, m, e] denoting (-1)^neg * m / 2^e, m an 8-limb magnitude,
   normalised (m odd or e = 0; zero is [FALSE, 0, 0]): only dyadic rationals that the type
   represents exactly are values; everything else is `Inexact` (outside the model).       *)
Undef     == [t |-> "undef",   v |-> <<>>]     \* C++ leaves it undefined / not a constant expression
Inexact   == [t |-> "inexact", v |-> <<>>]     \* floating result outside the exact fragment
IsVal(x)  == x.t \in ATypes
Canon(t, v) ==
  LET lo == SubSeq(v, 1, Bytes(t))
  IN IF Signed(t) THEN SExt(lo, 8) ELSE ZExt(lo, 8)
IntV(t, v) == [t |-> t, v |-> Canon(t, v)]
BoolV(b)   == [t |-> BoolT, v |-> OfNat(IF b THEN 1 ELSE 0, 8)]
IsNegI(x)  == Signed(x.t) /\ TopBit(x.v) = 1
MagI(x)    == IF IsNegI(x) THEN Neg(x.v) ELSE x.v          \* |value| as unsigned 64-bit
MinOf(t)   == Canon(t, [i \in 1..8 |-> IF i = Bytes(t) THEN 128 ELSE 0])

MaxE == 16
\* normalising constructor from a wide (16-limb) magnitude
MkF(t, neg, m16, e) ==
  IF IsZero(m16) THEN [t |-> t, v |-> [neg |-> FALSE, m |-> Zeros(8), e |-> 0]]
  ELSE LET tz0 == Tz(m16)
           tz  == IF tz0 < e THEN tz0 ELSE e
           m1  == Shr(m16, tz)
           e1  == e - tz
           bl  == BitLen(m1)
       IN IF bl > 64 \/ e1 > MaxE \/ bl - Tz(m1) > Mant(t) THEN Inexact
          ELSE [t |-> t, v |-> [neg |-> neg, m |-> Resize(m1, 8, 0), e |-> e1]]

ToBool(x) == IF IsFltT(x.t) THEN ~IsZero(x.v.m) ELSE ~IsZero(x.v)

\* conversion of a value to an arithmetic type (only the conversions that expressions
\* without casts can need: anything -> bool, integer -> integer, integer -> floating,
\* floating -> wider floating)
Conv(x, t) ==
  IF ~IsVal(x) THEN x
  ELSE IF x.t = t THEN x
  ELSE IF t = "bool" THEN [t |-> "bool", v |-> OfNat(IF ToBool(x) THEN 1 ELSE 0, 8)]
  ELSE IF IsFltT(t) THEN
         IF IsFltT(x.t) THEN MkF(t, x.v.neg, ZExt(x.v.m, 16), x.v.e)
         ELSE MkF(t, IsNegI(x), ZExt(MagI(x), 16), 0)
  ELSE IF IsFltT(x.t) THEN Undef          \* floating -> integer never arises without a cast
  ELSE IntV(t, x.v)

\* ---------------------------------------------------------------- literals
(* An integer literal is [k |-> "int", neg, radix, digs, u, l]: digits most significant
   first, u = has a u/U suffix, l = number of l/L (0, 1, 2).  `neg` puts a unary minus in
   front (a leaf of the generated expressions is an optionally negated literal; the minus is
   the unary operator, applied after the literal has got its type).                        *)
DigitsValue(radix, digs) ==           \* 9 limbs, so that "does not fit in 64 bits" is visible
  LET RECURSIVE H(_, _)
      H(i, acc) == IF i > Len(digs) THEN acc
                   ELSE H(i + 1, Add(MulSmall(acc, radix), OfNat(digs[i], 9)))
  IN H(1, Zeros(9))
Fits(t, v9) == BitLen(v9) <= (IF Signed(t) THEN 8 * Bytes(t) - 1 ELSE 8 * Bytes(t))
\* [lex.icon] table 7: the first type of the list in which the value fits
Candidates(radix, u, l) ==
  IF u THEN (IF l = 0 THEN <<"uint", "ulong">> ELSE <<"ulong">>)
  ELSE IF radix = 10 THEN (IF l = 0 THEN <<"int", "long">> ELSE <<"long">>)
  ELSE IF l = 0 THEN <<"int", "uint", "long", "ulong">> ELSE <<"long", "ulong">>
FirstFit(c, v9) ==
  LET RECURSIVE F(_)
      F(i) == IF i > Len(c) THEN "illformed" ELSE IF Fits(c[i], v9) THEN c[i] ELSE F(i + 1)
  IN F(1)
\* in #if every signed candidate is intmax_t and every unsigned one uintmax_t
PPCandidates(radix, u) ==
  IF u THEN <<"ulong">> ELSE IF radix = 10 THEN <<"long">> ELSE <<"long", "ulong">>
IntLitType(l) ==
  FirstFit(IF PPMode THEN PPCandidates(l.radix, l.u) ELSE Candidates(l.radix, l.u, l.l),
           DigitsValue(l.radix, l.digs))
=============================================================================
