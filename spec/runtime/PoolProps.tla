----------------------------- MODULE PoolProps -----------------------------
(* The C03 / C04 predicates, defined ONCE over an abstract pool state and used by
     - PoolAlgo.tla       (the transcribed algorithm, model-checked exhaustively), and
     - MemoryPoolTrace.tla (every state of real executions, trace validation).

   A reservation is a record
       [id, grp, rel, len, off]
   id  : creation number;  grp : id of the reserve() it descends from (slices inherit it);
   rel : byte offset relative to its group's origin (0 for the reserve() itself);
   len : bytes;  off : current byte offset inside the pool's backing buffer.            *)
EXTENDS Integers, FiniteSets, Sequences

Down(x, a) == (x \div a) * a
Up(x, a)   == ((x + a - 1) \div a) * a
Max2(a, b) == IF a > b THEN a ELSE b
Min2(a, b) == IF a < b THEN a ELSE b

\* C03: reservations of different groups occupy disjoint byte ranges ...
Disjoint(R) ==
  \A x, y \in R : x.grp # y.grp => (x.off + x.len <= y.off \/ y.off + y.len <= x.off)
\* ... inside the pool ...
Inside(R, size) == \A x \in R : x.off >= 0 /\ x.off + x.len <= size
\* ... and a slice keeps aliasing the bytes of the reservation it was cut from, wherever the
\* pool moves them (each group moves rigidly)
Rigid(R) == \A x, y \in R : x.grp = y.grp => x.off - x.rel = y.off - y.rel

\* C04: size of the union of the live ranges, each rounded out to the alignment.
\* Counted in alignment cells so that the cost does not depend on the byte scale.
UnionSize(R, a) ==
  LET top == IF R = {} THEN 0 ELSE (CHOOSE m \in {Up(x.off + x.len, a) : x \in R} :
                                       \A x \in R : Up(x.off + x.len, a) <= m) \div a
  IN a * Cardinality({c \in 0..(top - 1) :
                        \E x \in R : Down(x.off, a) <= c * a /\ c * a < Up(x.off + x.len, a)})

Accounting(R, a, reserved, nres, size) ==
  /\ reserved = UnionSize(R, a)
  /\ nres = Cardinality(R)
  /\ size >= reserved
=============================================================================
