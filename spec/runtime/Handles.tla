------------------------------ MODULE Handles ------------------------------
(* C01 -- handle classes (occa::device, memory, memoryPool, kernel, stream, streamTag) and the
   backend objects they refer to.

   Structure of the implementation that the model mirrors:
     * every backend object keeps an intrusive ring of the handle variables that point at it
       (gc::ring_t: addRef appends at the tail; removing the head makes the old tail the head);
       `useRefs` can be switched off with dontUseRefs();
     * a handle that gives up its reference (destructor, assignment) unlinks itself and deletes
       the object when the ring became empty and useRefs is on (removeXRef / needsFree);
     * free() deletes the object; the destructor of an object sets every handle *in its ring*
       to NULL;
     * ownership is two-level:  device -> {kernels, buffers, pools, streams, tags},
       buffer -> {modeMemory views},  pool -> {reservations (views), its backing buffer};
       deleting an object deletes its children first; a plain buffer is deleted together with
       its last view; memory::free() deletes one view only;
     * a device holds one hidden handle (modeDevice_t::currentStream) on a stream.

   One action per public call.  Objects are numbered in creation order; every object also
   carries its index among the objects of its kind, which is what the live-object registry of
   the instrumented library (hook H1) reports, so that identities can be compared.         *)
EXTENDS Integers, Sequences, FiniteSets, TLC, Json

CONSTANTS SlotSeq,    \* the handle variables of the program, as a sequence of strings
          KindOf(_),  \* handle class of a variable: "device" "memory" "pool" "kernel" "stream" "tag"
          MaxDev,     \* devices created in one history (their hidden handles are cur1..curN)
          MaxObj,     \* bound on backend objects created in one history
          MaxHist,    \* bound on the history (behaviour generation)
          MaxCells,   \* pool sizes are 0..MaxCells cells (a cell = one aligned reservation)
          SwapImpl,   \* "rings": swap moves ring membership with the pointers (intended)
                      \* "pointers": swap exchanges the raw pointers only (the code before the repair)
          BufBytes, CellBytes,  \* accounted bytes of one malloc / of one pool cell
          LazyObs,    \* TRUE: the history keeps state snapshots and the observations are computed when a
                      \* behaviour is printed (simulation); FALSE: computed at every step (exhaustive generation)
          Profiles    \* sequence of [use |-> the handle variables a history may touch,
                      \*              pre |-> a fixed prefix of calls (<<>> = none)]; one is chosen at Init

VARIABLES O,     \* sequence of backend objects (records), index = creation order
          H,     \* handle variables: [in |-> in scope, ref |-> object id or 0]
          last,  \* what the last step did: [a, drop] (drop = handle variables that gave up a reference)
          hist,  \* history variable (generation / replay)
          prof   \* the profile of this history (index into Profiles; never changes)

vars == <<O, H, last, hist, prof>>
Use == Profiles[prof].use
Pre == Profiles[prof].pre

KindSeq  == <<"device", "buffer", "memory", "pool", "kernel", "stream", "tag">>
CurName  == <<"cur1", "cur2", "cur3">>
Cur(i)   == CurName[i]
Range(f) == {f[x] : x \in DOMAIN f}
UserSlots == Range(SlotSeq)
CurSlots  == {Cur(i) : i \in 1..MaxDev}
AllSlots  == UserSlots \cup CurSlots
SK(s)    == IF s \in CurSlots THEN "stream" ELSE KindOf(s)

S0 == [O |-> O, H |-> H]      \* the current state as a value (the effects below are functions on it)

NewObj(k, i, par) ==
  [k |-> k, i |-> i, alive |-> TRUE, dc |-> 0, refs |-> TRUE, ring |-> <<>>, par |-> par,
   bytes |-> 0, mx |-> 0, bi |-> 0, psz |-> 0, back |-> 0, grp |-> 0]

Ids(st) == DOMAIN st.O
OfKind(st, k) == {o \in Ids(st) : st.O[o].k = k}
\* index the next object of kind k gets in the registry (a pool is registered as a buffer too)
NextIdx(st, k) == 1 + Cardinality(OfKind(st, k))
                    + (IF k = "buffer" THEN Cardinality(OfKind(st, "pool")) ELSE 0)
Alive(st, o) == st.O[o].alive
Children(st, o) == {c \in Ids(st) : st.O[c].alive /\ st.O[c].par = o}
Views(st, b) == {c \in Children(st, b) : st.O[c].k = "memory"}

\* [x \in S |-> e] is kept by TLC as an unevaluated function; states holding one cannot be written to the
\* disk queue (TLC aborts).  These two force the explicit value.
NormSeq(f) == SubSeq(f, 1, Len(f))
NormFun(f) == f @@ <<>>

---------------------------------------------------------------------------
(* Rings *)
RemoveFrom(ring, s) ==
  IF \A j \in DOMAIN ring : ring[j] # s THEN ring
  ELSE IF ring[1] = s
       THEN (IF Len(ring) = 1 THEN <<>>
             ELSE <<ring[Len(ring)]>> \o SubSeq(ring, 2, Len(ring) - 1))   \* old tail becomes head
       ELSE SelectSeq(ring, LAMBDA x : x # s)

AddRef(st, s, o) ==
  [O |-> [st.O EXCEPT ![o].ring = Append(@, s)],
   H |-> [st.H EXCEPT ![s] = [in |-> TRUE, ref |-> o]]]

---------------------------------------------------------------------------
(* Destruction.  Down = the object and everything it owns; a plain buffer follows its last view. *)
RECURSIVE Down(_, _)
Down(st, o) == {o} \cup UNION {Down(st, c) : c \in Children(st, o)}
Up(st, D) == {b \in Ids(st) : /\ st.O[b].alive /\ st.O[b].k = "buffer" /\ b \notin D
                              /\ Views(st, b) # {} /\ Views(st, b) \subseteq D}
Dying(st, o) == LET D == Down(st, o) IN D \cup Up(st, D)

\* destructors: every dying object is destroyed once and NULLs the handles in its ring
Kill(st, D) ==
  [O |-> NormSeq([o \in Ids(st) |-> IF o \in D
                             THEN [st.O[o] EXCEPT !.alive = FALSE, !.dc = @ + 1, !.ring = <<>>]
                             ELSE st.O[o]]),
   H |-> NormFun([s \in AllSlots |-> IF \E o \in D : s \in Range(st.O[o].ring)
                             THEN [st.H[s] EXCEPT !.ref = 0] ELSE st.H[s]])]

RECURSIVE KillObj(_, _), Unref(_, _)
\* a handle gives up its reference (removeXRef): unlink; delete the object if that was the last one
Unref(st, s) ==
  LET o == st.H[s].ref IN
  IF o = 0 THEN st
  ELSE LET r2  == RemoveFrom(st.O[o].ring, s)
           st1 == [O |-> [st.O EXCEPT ![o].ring = r2], H |-> [st.H EXCEPT ![s].ref = 0]]
       IN IF st1.O[o].refs /\ r2 = <<>> THEN KillObj(st1, o) ELSE st1
ExitSlot(st, s) == LET st1 == Unref(st, s) IN [st1 EXCEPT !.H[s] = [in |-> FALSE, ref |-> 0]]
\* delete o.  A device frees its resources first, then its hidden currentStream handle is destroyed.
KillObj(st, o) ==
  LET st1 == Kill(st, Dying(st, o)) IN
  IF st.O[o].k = "device" THEN ExitSlot(st1, Cur(st.O[o].i)) ELSE st1

---------------------------------------------------------------------------
(* Pools: sizes in cells; the pool grows to reserved+1 when a reservation does not fit. *)
Reserved(st, p) == Cardinality({st.O[m].grp : m \in Views(st, p)})
DeviceOf(st, o) == IF st.O[o].k = "device" THEN o
                   ELSE IF st.O[st.O[o].par].k = "device" THEN st.O[o].par
                   ELSE st.O[st.O[o].par].par
Acct(st, d) ==
  LET bs == {b \in Ids(st) : st.O[b].alive /\ st.O[b].k = "buffer" /\ DeviceOf(st, b) = d}
      RECURSIVE Sum(_)
      Sum(S) == IF S = {} THEN 0 ELSE LET x == CHOOSE x \in S : TRUE IN st.O[x].bytes + Sum(S \ {x})
  IN Sum(bs)
Max(a, b) == IF a >= b THEN a ELSE b
\* maxBytesAllocated is raised where bytesAllocated is raised: in device::malloc and when a pool allocates a new buffer
RaiseMax(st, d, v) == [st EXCEPT !.O[d].mx = Max(@, v)]
\* replace the backing buffer by one of n cells (modeMemoryPool_t::reallocate): with live reservations the new buffer
\* is allocated before the old one is released (both are counted for a moment), otherwise after
Rebuffer(st, p, n) ==
  LET b    == Len(st.O) + 1
      nb   == [NewObj("buffer", NextIdx(st, "buffer"), p) EXCEPT !.bytes = n * CellBytes]
      old  == st.O[p].back
      d    == DeviceOf(st, p)
      oldB == IF old = 0 THEN 0 ELSE st.O[old].bytes
      peak == IF Views(st, p) # {} THEN Acct(st, d) + n * CellBytes ELSE Acct(st, d) - oldB + n * CellBytes
      st1  == [st EXCEPT !.O = Append(st.O, nb)]
      st2  == IF old = 0 THEN st1 ELSE Kill(st1, {old})
  IN RaiseMax([st2 EXCEPT !.O[p].back = b, !.O[p].psz = n], d, peak)

---------------------------------------------------------------------------
(* Observation: what the replayer can see after a step.
     Hd : per handle variable  -1 out of scope, 0 not initialized, else index of the object among its kind
     L  : live objects per kind (KindSeq order; pools count as buffers too)
     D  : per kind, how often each object (by index) was destroyed
     A  : per handle variable, memoryAllocated() when it is an initialized device handle, else 0
     M  : the same for maxMemoryAllocated() *)
IdxObj(st, k, j) ==
  CHOOSE o \in Ids(st) : \/ (st.O[o].k = k /\ st.O[o].i = j)
                         \/ (k = "buffer" /\ st.O[o].k = "pool" /\ st.O[o].bi = j)
Obs(st) ==
  [Hd |-> NormSeq([j \in 1..Len(SlotSeq) |->
             LET h == st.H[SlotSeq[j]] IN
             IF ~h.in THEN -1 ELSE IF h.ref = 0 THEN 0 ELSE st.O[h.ref].i]),
   L  |-> NormSeq([x \in 1..Len(KindSeq) |->
             Cardinality({o \in Ids(st) : st.O[o].alive /\
                            (st.O[o].k = KindSeq[x] \/ (KindSeq[x] = "buffer" /\ st.O[o].k = "pool"))})]),
   D  |-> NormSeq([x \in 1..Len(KindSeq) |->
             NormSeq([j \in 1..(NextIdx(st, KindSeq[x]) - 1) |-> st.O[IdxObj(st, KindSeq[x], j)].dc])]),
   A  |-> NormSeq([j \in 1..Len(SlotSeq) |->
             LET h == st.H[SlotSeq[j]] IN
             IF h.in /\ h.ref # 0 /\ KindOf(SlotSeq[j]) = "device" THEN Acct(st, h.ref) ELSE 0]),
   M  |-> NormSeq([j \in 1..Len(SlotSeq) |->
             LET h == st.H[SlotSeq[j]] IN
             IF h.in /\ h.ref # 0 /\ KindOf(SlotSeq[j]) = "device" THEN st.O[h.ref].mx ELSE 0])]

\* end of the enclosing block: every variable still in scope is destroyed, in SlotSeq order
RECURSIVE ExitFrom(_, _)
ExitFrom(st, j) == IF j > Len(SlotSeq) THEN st
                   ELSE ExitFrom(IF st.H[SlotSeq[j]].in THEN ExitSlot(st, SlotSeq[j]) ELSE st, j + 1)
ExitAll(st) == ExitFrom(st, 1)

---------------------------------------------------------------------------
In(s)     == H[s].in
Ref(s)    == H[s].ref
Room(n)   == Len(O) + n <= MaxObj
DevOf(d)  == Ref(d)        \* object a device handle refers to (0 = not initialized)

\* commit the effect `st` of the public call `rec`; err = the call raised occa::exception
Commit(st, rec, err, drop) ==
  /\ O' = st.O /\ H' = st.H
  /\ last' = [a |-> rec.a, drop |-> drop]
  /\ prof' = prof
  /\ hist' = IF MaxHist = 0 THEN hist
            ELSE Append(hist, rec @@ [err |-> err] @@ (IF LazyObs THEN [snap |-> st] ELSE Obs(st)))
Rec(a, s, t, n) == [a |-> a, s |-> s, t |-> t, n |-> n]
Failed(rec) == Commit(S0, rec, TRUE, {})

\* --- handle-level calls ---------------------------------------------------
DefaultConstruct(s) ==
  /\ ~In(s)
  /\ Commit([S0 EXCEPT !.H[s] = [in |-> TRUE, ref |-> 0]], Rec("default", s, "", 0), FALSE, {})

CopyConstruct(s, t) ==
  /\ ~In(s) /\ In(t) /\ s # t /\ KindOf(s) = KindOf(t)
  /\ Commit(IF Ref(t) = 0 THEN [S0 EXCEPT !.H[s] = [in |-> TRUE, ref |-> 0]]
            ELSE AddRef(S0, s, Ref(t)),
            Rec("copy", s, t, 0), FALSE, {})

\* s = t  (setModeX: nothing when equal; else give up the old reference, then link to the new object)
AssignEff(st, s, t) ==
  IF st.H[s].ref = st.H[t].ref THEN st
  ELSE LET o2  == st.H[t].ref
           st1 == Unref(st, s)
       IN IF o2 = 0 THEN st1 ELSE AddRef(st1, s, o2)
Assign(s, t) ==
  /\ In(s) /\ In(t) /\ KindOf(s) = KindOf(t)
  /\ Commit(AssignEff(S0, s, t), Rec("assign", s, t, 0), FALSE, IF Ref(s) = Ref(t) THEN {} ELSE {s})

\* s.swap(t): exists for memory and memoryPool
SwapEff(st, s, t) ==
  LET x == st.H[s].ref
      y == st.H[t].ref
  IN IF x = y THEN st
     ELSE IF SwapImpl = "pointers"
     THEN [st EXCEPT !.H[s].ref = y, !.H[t].ref = x]
     ELSE LET Ox == IF x = 0 THEN st.O ELSE [st.O EXCEPT ![x].ring = Append(RemoveFrom(@, s), t)]
              Oy == IF y = 0 THEN Ox   ELSE [Ox   EXCEPT ![y].ring = Append(RemoveFrom(@, t), s)]
          IN [O |-> Oy, H |-> [st.H EXCEPT ![s].ref = y, ![t].ref = x]]
Swap(s, t) ==
  /\ In(s) /\ In(t) /\ s # t /\ KindOf(s) = KindOf(t) /\ KindOf(s) \in {"memory", "pool"}
  /\ Commit(SwapEff(S0, s, t), Rec("swap", s, t, 0), FALSE, {})

Free(s) ==
  /\ In(s)
  /\ Commit(IF Ref(s) = 0 THEN S0 ELSE KillObj(S0, Ref(s)), Rec("free", s, "", 0), FALSE, {})

ScopeExit(s) ==
  /\ In(s)
  /\ Commit(ExitSlot(S0, s), Rec("exit", s, "", 0), FALSE, {s})

DontUseRefs(s) ==
  /\ In(s) /\ Ref(s) # 0 /\ O[Ref(s)].refs
  /\ Commit([S0 EXCEPT !.O[Ref(s)].refs = FALSE], Rec("norefs", s, "", 0), FALSE, {})

\* --- calls that create backend objects -----------------------------------
NumDevices == Cardinality(OfKind(S0, "device"))
NewDevice(s) ==
  /\ ~In(s) /\ KindOf(s) = "device" /\ NumDevices < MaxDev /\ Room(2)
  /\ LET d  == Len(O) + 1
         i  == NextIdx(S0, "device")
         od == [NewObj("device", i, 0) EXCEPT !.ring = <<s>>]
         os == [NewObj("stream", NextIdx(S0, "stream"), d) EXCEPT !.ring = <<Cur(i)>>]
     IN Commit([O |-> O \o <<od, os>>,
                H |-> [H EXCEPT ![s] = [in |-> TRUE, ref |-> d], ![Cur(i)] = [in |-> TRUE, ref |-> d + 1]]],
               Rec("newDevice", s, "", 0), FALSE, {})

\* s = d.malloc(..) / d.wrapMemory(..): a buffer and its first view
MallocEff(st, s, dev, bytes) ==
  LET b  == Len(st.O) + 1
      ob == [NewObj("buffer", NextIdx(st, "buffer"), dev) EXCEPT !.bytes = bytes]
      om == [NewObj("memory", NextIdx(st, "memory"), b) EXCEPT !.ring = <<s>>]
      st1 == [O |-> st.O \o <<ob, om>>, H |-> [st.H EXCEPT ![s] = [in |-> TRUE, ref |-> b + 1]]]
  IN RaiseMax(st1, dev, Acct(st1, dev))
\* v = 1: with the memory property use_host_pointer but without a source pointer -- an ordinary allocation
Malloc(s, d, v) ==
  /\ ~In(s) /\ KindOf(s) = "memory" /\ In(d) /\ KindOf(d) = "device" /\ Room(2)
  /\ IF DevOf(d) = 0 THEN Failed(Rec("malloc", s, d, v))
     ELSE Commit(MallocEff(S0, s, DevOf(d), BufBytes), Rec("malloc", s, d, v), FALSE, {})
Wrap(s, d) ==
  /\ ~In(s) /\ KindOf(s) = "memory" /\ In(d) /\ KindOf(d) = "device" /\ Room(2)
  /\ IF DevOf(d) = 0 THEN Failed(Rec("wrap", s, d, 0))
     ELSE Commit(MallocEff(S0, s, DevOf(d), 0), Rec("wrap", s, d, 0), FALSE, {})

\* s = t.slice(0): a new view of the same buffer (or pool); of nothing when t is not initialized
Slice(s, t) ==
  /\ ~In(s) /\ In(t) /\ s # t /\ KindOf(s) = "memory" /\ KindOf(t) = "memory" /\ Room(1)
  /\ IF Ref(t) = 0
     THEN Commit([S0 EXCEPT !.H[s] = [in |-> TRUE, ref |-> 0]], Rec("slice", s, t, 0), FALSE, {})
     ELSE LET m  == Len(O) + 1
              om == [NewObj("memory", NextIdx(S0, "memory"), O[Ref(t)].par)
                       EXCEPT !.ring = <<s>>, !.grp = O[Ref(t)].grp]
          IN Commit([O |-> Append(O, om), H |-> [H EXCEPT ![s] = [in |-> TRUE, ref |-> m]]],
                    Rec("slice", s, t, 0), FALSE, {})

NewPool(s, d) ==
  /\ ~In(s) /\ KindOf(s) = "pool" /\ In(d) /\ KindOf(d) = "device" /\ Room(1)
  /\ IF DevOf(d) = 0 THEN Failed(Rec("newPool", s, d, 0))
     ELSE LET p  == Len(O) + 1
              op == [NewObj("pool", NextIdx(S0, "pool"), DevOf(d))
                       EXCEPT !.ring = <<s>>, !.bi = NextIdx(S0, "buffer")]
          IN Commit([O |-> Append(O, op), H |-> [H EXCEPT ![s] = [in |-> TRUE, ref |-> p]]],
                    Rec("newPool", s, d, 0), FALSE, {})

\* s = p.reserve(one cell)
Reserve(s, p) ==
  /\ ~In(s) /\ KindOf(s) = "memory" /\ In(p) /\ KindOf(p) = "pool" /\ Room(2)
  /\ IF Ref(p) = 0 THEN Failed(Rec("reserve", s, p, 0))
     ELSE LET pl  == Ref(p)
              r   == Reserved(S0, pl)
              st1 == IF r + 1 > O[pl].psz THEN Rebuffer(S0, pl, r + 1) ELSE S0
              m   == Len(st1.O) + 1
              om  == [NewObj("memory", NextIdx(st1, "memory"), pl) EXCEPT !.ring = <<s>>, !.grp = m]
          IN /\ r + 1 <= MaxCells
             /\ Commit([O |-> Append(st1.O, om), H |-> [st1.H EXCEPT ![s] = [in |-> TRUE, ref |-> m]]],
                       Rec("reserve", s, p, 0), FALSE, {})

ResizeTo(p, n, name) ==
  IF Ref(p) = 0 \/ n < Reserved(S0, Ref(p)) THEN Failed(Rec(name, p, "", n))
  ELSE Commit(IF n = O[Ref(p)].psz THEN S0 ELSE Rebuffer(S0, Ref(p), n), Rec(name, p, "", n), FALSE, {})
Resize(p, n) ==
  /\ In(p) /\ KindOf(p) = "pool" /\ n \in 0..MaxCells /\ Room(1)
  /\ ResizeTo(p, n, "resize")
ShrinkToFit(p) ==
  /\ In(p) /\ KindOf(p) = "pool" /\ Room(1)
  /\ ResizeTo(p, IF Ref(p) = 0 THEN 0 ELSE Reserved(S0, Ref(p)), "shrink")

Child(s, d, hk, ok, name) ==
  /\ ~In(s) /\ KindOf(s) = hk /\ In(d) /\ KindOf(d) = "device" /\ Room(1)
  /\ IF DevOf(d) = 0 THEN Failed(Rec(name, s, d, 0))
     ELSE LET c  == Len(O) + 1
              oc == [NewObj(ok, NextIdx(S0, ok), DevOf(d)) EXCEPT !.ring = <<s>>]
          IN Commit([O |-> Append(O, oc), H |-> [H EXCEPT ![s] = [in |-> TRUE, ref |-> c]]],
                    Rec(name, s, d, 0), FALSE, {})
BuildKernel(s, d)  == Child(s, d, "kernel", "kernel", "buildKernel")
CreateStream(s, d) == Child(s, d, "stream", "stream", "createStream")
TagStream(s, d)    == Child(s, d, "tag", "tag", "tagStream")

\* s = d.getStream(): a copy of the device's hidden handle
GetStream(s, d) ==
  /\ ~In(s) /\ KindOf(s) = "stream" /\ In(d) /\ KindOf(d) = "device"
  /\ IF DevOf(d) = 0 THEN Failed(Rec("getStream", s, d, 0))
     ELSE LET c == Cur(O[DevOf(d)].i) IN
          Commit(IF Ref(c) = 0 THEN [S0 EXCEPT !.H[s] = [in |-> TRUE, ref |-> 0]] ELSE AddRef(S0, s, Ref(c)),
                 Rec("getStream", s, d, 0), FALSE, {})
\* d.setStream(s): assignment to the hidden handle
SetStream(d, s) ==
  /\ In(s) /\ KindOf(s) = "stream" /\ In(d) /\ KindOf(d) = "device"
  /\ IF DevOf(d) = 0 THEN Failed(Rec("setStream", d, s, 0))
     ELSE LET c == Cur(O[DevOf(d)].i) IN
          Commit(AssignEff(S0, c, s), Rec("setStream", d, s, 0), FALSE, IF Ref(c) = Ref(s) THEN {} ELSE {c})

Init == /\ O = <<>>
        /\ H = NormFun([s \in AllSlots |-> [in |-> FALSE, ref |-> 0]])
        /\ last = [a |-> "init", drop |-> {}]
        /\ hist = <<>>
        /\ prof \in DOMAIN Profiles

\* the calls, quantified over the handle variables of the profile
Busy == MaxHist = 0 \/ Len(hist) < Len(Pre) + MaxHist
UseK(k) == {s \in Use : KindOf(s) = k}
Swappable == {"memory", "pool"}
DoDefaultConstruct == Busy /\ \E s \in Use : DefaultConstruct(s)
DoCopyConstruct == Busy /\ \E s \in Use : \E t \in UseK(KindOf(s)) : CopyConstruct(s, t)
DoAssign == Busy /\ \E s \in Use : \E t \in UseK(KindOf(s)) : Assign(s, t)
DoSwap == Busy /\ \E k \in Swappable : \E s, t \in UseK(k) : Swap(s, t)
DoFree == Busy /\ \E s \in Use : Free(s)
DoScopeExit == Busy /\ \E s \in Use : ScopeExit(s)
DoDontUseRefs == Busy /\ \E s \in Use : DontUseRefs(s)
DoNewDevice == Busy /\ \E s \in UseK("device") : NewDevice(s)
DoMalloc == Busy /\ \E s \in UseK("memory"), t \in UseK("device") : \E v \in 0..1 : Malloc(s, t, v)
DoWrap == Busy /\ \E s \in UseK("memory"), t \in UseK("device") : Wrap(s, t)
DoSlice == Busy /\ \E s, t \in UseK("memory") : Slice(s, t)
DoNewPool == Busy /\ \E s \in UseK("pool"), t \in UseK("device") : NewPool(s, t)
DoReserve == Busy /\ \E s \in UseK("memory"), t \in UseK("pool") : Reserve(s, t)
DoResize == Busy /\ \E s \in UseK("pool") : \E n \in 0..MaxCells : Resize(s, n)
DoShrinkToFit == Busy /\ \E s \in UseK("pool") : ShrinkToFit(s)
DoBuildKernel == Busy /\ \E s \in UseK("kernel"), t \in UseK("device") : BuildKernel(s, t)
DoCreateStream == Busy /\ \E s \in UseK("stream"), t \in UseK("device") : CreateStream(s, t)
DoTagStream == Busy /\ \E s \in UseK("tag"), t \in UseK("device") : TagStream(s, t)
DoGetStream == Busy /\ \E s \in UseK("stream"), t \in UseK("device") : GetStream(s, t)
DoSetStream == Busy /\ \E s \in UseK("device"), t \in UseK("stream") : SetStream(s, t)

Call == \/ DoDefaultConstruct
        \/ DoCopyConstruct
        \/ DoAssign
        \/ DoSwap
        \/ DoFree
        \/ DoScopeExit
        \/ DoDontUseRefs
        \/ DoNewDevice
        \/ DoMalloc
        \/ DoWrap
        \/ DoSlice
        \/ DoNewPool
        \/ DoReserve
        \/ DoResize
        \/ DoShrinkToFit
        \/ DoBuildKernel
        \/ DoCreateStream
        \/ DoTagStream
        \/ DoGetStream
        \/ DoSetStream

\* Behaviour generation (MaxHist > 0): after the profile's prefix and MaxHist further calls the history is
\* complete; one last step prints it, together with the observation after leaving the block.
GenBound  == Len(Pre) + MaxHist
Printable == IF LazyObs
             THEN [j \in DOMAIN hist |->
                     [a |-> hist[j].a, s |-> hist[j].s, t |-> hist[j].t, n |-> hist[j].n, err |-> hist[j].err]
                       @@ Obs(hist[j].snap)]
             ELSE hist
Finish == /\ MaxHist > 0 /\ Len(hist) = GenBound /\ last.a # "fin"
          /\ PrintT(<<"B", ToJson([p |-> prof, h |-> Printable, fin |-> Obs(ExitAll(S0))])>>)
          /\ last' = [a |-> "fin", drop |-> {}]
          /\ UNCHANGED <<O, H, hist, prof>>

Next == Call \/ Finish

Spec == Init /\ [][Next]_vars

---------------------------------------------------------------------------
(* The property, on the model *)
TypeOK ==
  /\ \A s \in AllSlots : H[s].in \in BOOLEAN /\ H[s].ref \in 0..Len(O)
  /\ \A o \in DOMAIN O : O[o].par \in 0..Len(O) /\ O[o].dc \in Nat

\* a handle variable refers to an object exactly when it is linked in that object's ring
RingMatchesRefs ==
  \A o \in DOMAIN O :
    /\ \A s \in AllSlots : (H[s].in /\ H[s].ref = o) <=> (s \in Range(O[o].ring))
    /\ \A a, b \in DOMAIN O[o].ring : a # b => O[o].ring[a] # O[o].ring[b]
\* every object is destroyed at most once, and exactly the destroyed ones are not alive
DestroyedAtMostOnce == \A o \in DOMAIN O : O[o].dc <= 1 /\ (O[o].alive <=> O[o].dc = 0)
\* no handle variable refers to a destroyed object (after free() every handle reports isInitialized() = false)
DeadIsUnreferenced == \A s \in AllSlots : (H[s].in /\ H[s].ref # 0) => O[H[s].ref].alive
\* nothing outlives its owner, so nothing can touch a destroyed owner
ParentAlive == \A o \in DOMAIN O : (O[o].alive /\ O[o].par # 0) => O[O[o].par].alive
\* an object that is alive is held by something: a handle, useRefs switched off, a view (buffer), its pool (backing)
Anchored(o) == \/ O[o].ring # <<>>
               \/ ~O[o].refs
               \/ (O[o].k = "buffer" /\ Views(S0, o) # {})
               \/ (O[o].k = "buffer" /\ O[O[o].par].k = "pool" /\ O[O[o].par].back = o)
NoOrphans == \A o \in DOMAIN O : O[o].alive => Anchored(o)
\* when no variable is in scope, whatever is still alive is (owned by) an object whose reference counting was switched off
RECURSIVE Excused(_)
Excused(o) == ~O[o].refs \/ (O[o].par # 0 /\ Excused(O[o].par))
QuiescentNoLeak ==
  (\A s \in UserSlots : ~H[s].in) => \A o \in DOMAIN O : O[o].alive => Excused(o)
\* accounted memory belongs to live buffers only (so: nothing alive => nothing accounted)
AcctOnlyLive == \A d \in DOMAIN O : (O[d].k = "device" /\ O[d].alive /\ Acct(S0, d) > 0) =>
                   \E b \in DOMAIN O : O[b].alive /\ O[b].k = "buffer" /\ O[b].bytes > 0

\* maxMemoryAllocated() is never below memoryAllocated()
MaxAboveAcct == \A d \in DOMAIN O : (O[d].k = "device" /\ O[d].alive) => O[d].mx >= Acct(S0, d)

\* an object dies only at free(), with its owner, with its last view, or when its last handle gives up its reference
NewlyDead == {o \in DOMAIN O : O[o].alive /\ ~O'[o].alive}
NoEarlyDeath ==
  [][ (last'.a # "free") =>
        \A o \in NewlyDead :
          \/ (O[o].par # 0 /\ ~O'[O[o].par].alive)
          \/ (O[o].k = "buffer" /\ \A c \in Views(S0, o) : ~O'[c].alive)
          \/ (O[o].refs /\ \A s \in Range(O[o].ring) :
                 s \in last'.drop \/ \E d \in NewlyDead : O[d].k = "device" /\ s = Cur(O[d].i)) ]_vars
DeathIsFinal == [][ \A o \in DOMAIN O : /\ (~O[o].alive => ~O'[o].alive)
                                         /\ O'[o].k = O[o].k /\ O'[o].i = O[o].i /\ O'[o].par = O[o].par ]_vars

\* design run: hide the history and what does not influence the future (the last action, the
\* attributes of destroyed objects other than their kind, which fixes the numbering)
View == <<[o \in DOMAIN O |-> IF O[o].alive THEN O[o] ELSE [k |-> O[o].k]], H, prof>>
ObjBound == Len(O) <= MaxObj

\* generation: the history starts with the profile's prefix (state constraint)
PrefixOK == \A j \in 1..Len(hist) : j <= Len(Pre) =>
              /\ hist[j].a = Pre[j].a /\ hist[j].s = Pre[j].s /\ hist[j].t = Pre[j].t /\ hist[j].n = Pre[j].n
=============================================================================
