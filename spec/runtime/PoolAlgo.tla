------------------------------ MODULE PoolAlgo ------------------------------
(* C03 / C04 -- step-for-step transcription of occa::modeMemoryPool_t
   (src/occa/internal/core/memoryPool.cpp: reserve, resize, reallocate, migrate,
   setAlignment, add/removeModeMemoryRef + computeReserved; serial::memoryPool::slice/setPtr).

   TRANSCRIBED FROM the code; it is NOT the oracle.  The oracle is PoolProps (the property
   predicates).  TLC checks exhaustively, within the constants, that every state the real
   placement policy can reach satisfies them, and that the bytes a reservation owns follow
   it through every migration (`mem` holds, per byte of the backing buffer, the token
   <<grp, position in group>> that was written there).
   The same module generates the operation sequences that are executed on the real pool
   (history variable `hist`): placement-independent arguments only (sizes, ids, offsets
   relative to a reservation, resize requests relative to the pool's own counters).       *)
EXTENDS PoolProps, TLC, SequencesExt, Json

CONSTANTS Align0,     \* alignment set right after creation
          Aligns,     \* alignments setAlignment may switch to
          MaxReq,     \* request sizes 1..MaxReq
          MaxLive,    \* bound on simultaneously live reservations (incl. slices)
          MaxOps,     \* bound on the history length
          WithWrites  \* generation only: include explicit writes through slices

VARIABLES size, reserved, align, res, mem, nextId, hist
vars == <<size, reserved, align, res, mem, nextId, hist>>

Junk == <<0, 0>>
\* std::set<modeMemory_t*, compare>: by offset, then size, then address (modelled by id)
Less(a, b) == \/ a.off < b.off
              \/ (a.off = b.off /\ a.len < b.len)
              \/ (a.off = b.off /\ a.len = b.len /\ a.id < b.id)
Sorted(S) == SortSeq(SetToSeq(S), Less)

\* computeReserved(align): one pass merging overlapping or touching aligned ranges
RECURSIVE CR(_, _, _, _, _, _)
CR(seq, i, lo, hi, total, a) ==
  IF i > Len(seq) THEN total + (hi - lo)
  ELSE LET mlo == Down(seq[i].off, a)  mhi == Up(seq[i].off + seq[i].len, a) IN
       IF mlo > hi THEN CR(seq, i + 1, mlo, mhi, total + (hi - lo), a)
       ELSE CR(seq, i + 1, lo, Max2(hi, mhi), total, a)
ComputeReserved(S, a) == CR(Sorted(S), 1, 0, 0, 0, a)

\* migrate(newBuffer, a): blocks of reservations whose aligned ranges overlap or touch
RECURSIVE BlockEnd(_, _, _, _)
BlockEnd(seq, j, hi, a) ==      \* returns <<first index after the block, hi>>
  IF j > Len(seq) THEN <<j, hi>>
  ELSE LET mlo == Down(seq[j].off, a)  mhi == Up(seq[j].off + seq[j].len, a) IN
       IF mlo > hi THEN <<j, hi>> ELSE BlockEnd(seq, j + 1, Max2(hi, mhi), a)
RECURSIVE MigrateFrom(_, _, _, _, _, _, _, _)
MigrateFrom(seq, i, offset, newRes, newMem, a, oldMem, oldSize) ==
  IF i > Len(seq) THEN [res |-> newRes, mem |-> newMem]
  ELSE LET lo == Down(seq[i].off, a)
           be == BlockEnd(seq, i, lo, a)
           j  == be[1]
           hi == be[2]
           n  == Min2(hi, oldSize) - lo                    \* bytes copied
           copied == [k \in DOMAIN newMem |->
                        IF k - 1 >= offset /\ k - 1 < offset + n THEN oldMem[lo + (k - 1 - offset) + 1]
                        ELSE newMem[k]]
           moved == {[seq[t] EXCEPT !.off = seq[t].off - (lo - offset)] : t \in i..(j - 1)}
       IN MigrateFrom(seq, j, offset + (hi - lo), newRes \cup moved, copied, a, oldMem, oldSize)
Migrate(st, a, newSize) ==
  MigrateFrom(Sorted(st.res), 1, 0, {}, [k \in 1..newSize |-> Junk], a, st.mem, st.size)

\* reallocate(bytes)
Reallocate(st, bytes) ==
  LET ab == Up(bytes, st.align) IN
  IF st.res = {} THEN [st EXCEPT !.size = ab, !.mem = [k \in 1..ab |-> Junk]]
  ELSE LET m == Migrate(st, st.align, ab) IN
       [st EXCEPT !.size = ab, !.res = m.res, !.mem = m.mem]   \* reserved unchanged
\* resize(bytes): <<state, error>>
Resize(st, bytes) ==
  IF st.reserved > bytes THEN <<st, TRUE>>
  ELSE IF st.size = bytes THEN <<st, FALSE>>
  ELSE <<Reallocate(st, bytes), FALSE>>
\* setAlignment(a)
SetAlign(st, a) ==
  IF st.align = a THEN st
  ELSE IF st.res # {}
  THEN LET nr == ComputeReserved(st.res, a)
           m  == Migrate(st, a, nr) IN
       [st EXCEPT !.size = nr, !.reserved = nr, !.res = m.res, !.mem = m.mem, !.align = a]
  ELSE LET st1 == [st EXCEPT !.align = a] IN
       IF st1.size % a # 0 THEN Reallocate(st1, st1.size) ELSE st1

\* hole search of reserve()
RECURSIVE Hole(_, _, _, _, _)
Hole(seq, i, offset, bytes, a) ==
  IF i > Len(seq) THEN offset
  ELSE IF seq[i].off >= offset + bytes THEN offset
  ELSE Hole(seq, i + 1, Max2(offset, Up(seq[i].off + seq[i].len, a)), bytes, a)

\* slice(offset, bytes) of the pool: a new modeMemory in the reservation list
AddRes(st, id, grp, rel, off, n) ==
  LET S == st.res \cup {[id |-> id, grp |-> grp, rel |-> rel, len |-> n, off |-> off]} IN
  [st EXCEPT !.res = S, !.reserved = ComputeReserved(S, st.align)]
\* the replayer writes the pattern of the new reservation into it
WriteTokens(st, id, off, n) ==
  [st EXCEPT !.mem = [k \in DOMAIN st.mem |->
                        IF k - 1 >= off /\ k - 1 < off + n THEN <<id, k - 1 - off>> ELSE st.mem[k]]]

ReserveAt(st, off, n, id) == WriteTokens(AddRes(st, id, id, 0, off, n), id, off, n)
DoReserve(st, n, id) ==
  LET ab == Up(n, st.align) IN
  IF st.reserved + n > st.size
  THEN LET st1 == Resize(st, st.reserved + ab)[1] IN ReserveAt(st1, st1.reserved, n, id)
  ELSE IF st.res = {} THEN ReserveAt(st, 0, n, id)
  ELSE LET o == Hole(Sorted(st.res), 1, 0, n, st.align) IN
       IF o + n <= st.size THEN ReserveAt(st, o, n, id)
       ELSE LET st1 == Reallocate(st, st.reserved + ab) IN ReserveAt(st1, st1.reserved, n, id)

St == [size |-> size, reserved |-> reserved, align |-> align, res |-> res, mem |-> mem]
Set(st) == /\ size' = st.size /\ reserved' = st.reserved /\ align' = st.align
           /\ res' = st.res /\ mem' = st.mem

Init == /\ size = 0 /\ reserved = 0 /\ align = Align0 /\ res = {} /\ mem = <<>>
        /\ nextId = 1 /\ hist = <<>>

Reserve(n) ==
  /\ Len(hist) < MaxOps
  /\ Cardinality(res) < MaxLive
  /\ Set(DoReserve(St, n, nextId))
  /\ nextId' = nextId + 1
  /\ hist' = Append(hist, [op |-> "reserve", n |-> n])
SliceOf(r, o, n) ==
  /\ Len(hist) < MaxOps
  /\ Cardinality(res) < MaxLive
  /\ o >= 0 /\ n >= 1 /\ o + n <= r.len
  /\ Set(AddRes(St, nextId, r.grp, r.rel + o, r.off + o, n))
  /\ nextId' = nextId + 1
  /\ hist' = Append(hist, [op |-> "slice", r |-> r.id, o |-> o, n |-> n])
Release(r) ==
  /\ Len(hist) < MaxOps
  /\ LET S == res \ {r} IN Set([St EXCEPT !.res = S, !.reserved = ComputeReserved(S, align)])
  /\ UNCHANGED nextId
  /\ hist' = Append(hist, [op |-> "release", r |-> r.id])
\* resize requests are relative to the pool's own counters
ResizeReq(mode, k) == CASE mode = "fit"   -> reserved
                       [] mode = "below" -> reserved - k
                       [] mode = "above" -> reserved + k
                       [] mode = "grow"  -> size + k
DoResizeOp(mode, k) ==
  /\ Len(hist) < MaxOps
  /\ ResizeReq(mode, k) >= 0
  /\ Set(Resize(St, ResizeReq(mode, k))[1])
  /\ UNCHANGED nextId
  /\ hist' = Append(hist, [op |-> "resize", mode |-> mode, k |-> k])
SetAlignment(a) ==
  /\ Len(hist) < MaxOps
  /\ a # align
  /\ Set(SetAlign(St, a))
  /\ UNCHANGED nextId
  /\ hist' = Append(hist, [op |-> "align", a |-> a])
WriteThrough(r) ==     \* contents only: re-writes r's own bytes with a new salt (tokens unchanged)
  /\ Len(hist) < MaxOps
  /\ WithWrites
  /\ UNCHANGED <<size, reserved, align, res, mem, nextId>>
  /\ hist' = Append(hist, [op |-> "write", r |-> r.id, salt |-> Len(hist) + 1])

Next ==
  \/ \E n \in 1..MaxReq : Reserve(n)
  \/ \E r \in res : \E o \in 0..(MaxReq - 1) : \E n \in 1..MaxReq : SliceOf(r, o, n)
  \/ \E r \in res : Release(r)
  \/ \E md \in {"fit", "below", "above", "grow"} : DoResizeOp(md, 1)
  \/ \E a \in Aligns : SetAlignment(a)
  \/ \E r \in res : WriteThrough(r)
Spec == Init /\ [][Next]_vars

---------------------------------------------------------------------------
\* the property, on the transcribed algorithm
C03Disjoint == Disjoint(res)
C03Inside   == Inside(res, size)
C03Rigid    == Rigid(res)
C03Contents == \A r \in res : \A i \in 0..(r.len - 1) :
                  (r.off + i + 1) \in DOMAIN mem /\ mem[r.off + i + 1] = <<r.grp, r.rel + i>>
C04Reserved == reserved = UnionSize(res, align)
C04SizeGeReserved == size >= reserved
C04ZeroWhenEmpty  == res = {} => reserved = 0
\* auxiliary (what makes the hole search sound)
SizeAligned == size % align = 0
\* resize below reserved is refused and changes nothing
C04ResizeBelowRefused ==
  reserved > 0 => Resize(St, reserved - 1) = <<St, TRUE>>

View == <<size, reserved, align, res, mem>>
\* generation
\* (a) as an ACTION_CONSTRAINT of the design run: TLC evaluates it once per generated transition, so
\*     this prints, for every reachable pool state (distinct under View) and every operation enabled
\*     in it, one operation sequence that ends with that operation (transition coverage of the graph)
EmitEdge == PrintT(<<"B", ToJson(hist')>>)
\* (b) simulation: exactly one printed sequence per simulated trace
SimNext == Next \/ (Len(hist) = MaxOps /\ PrintT(<<"B", ToJson(hist)>>) /\ UNCHANGED vars)
SimSpec == Init /\ [][SimNext]_vars
Emit == Len(hist) < MaxOps \/ (PrintT(<<"B", ToJson(hist)>>) /\ FALSE)
=============================================================================
