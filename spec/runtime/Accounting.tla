----------------------------- MODULE Accounting -----------------------------
(* C05 -- device memory accounting: device::memoryAllocated() / maxMemoryAllocated().

   The implementation keeps two counters on the device (modeDevice_t::bytesAllocated,
   maxBytesAllocated) and updates them
     * in device::malloc             (+ bytes, then max)   -- also for clone(), which is a malloc
     * in ~modeBuffer_t              (- size, unless the buffer only wraps user memory)
     * in modeMemoryPool_t::resize   with reservations:   AllocNew (+ new, max) ; FreeOld (- old)
                                     without reservations: FreeOld (- old) ; AllocNew (+ new, max)
   The model keeps the same two counters, updates them with the same sub-steps, and states the
   property against an independent definition: the sum over what is alive, and the largest value
   the counter has taken (ghost set `taken`).

   One action per public call.  A buffer lives as long as one of its views (memory handles of
   malloc / slice) lives; `Malloc` arguments range over the use_host_pointer / own_host_pointer
   combinations with and without a source pointer.                                           *)
EXTENDS Integers, Sequences, FiniteSets, TLC, Json

CONSTANTS Sizes,      \* byte sizes of mallocs / wraps
          ResSizes,   \* byte sizes of pool reservations (not multiples of the alignments)
          Aligns,     \* pool alignments setAlignment() may choose (a new pool has 128)
          ResizeTo,   \* byte arguments of pool.resize()
          MaxLiveRes, \* live reservations per pool
          MaxPoolBytes, \* pools are not grown beyond this (bounds the model)
          MaxBufs,    \* buffers created in one history
          MaxPools,   \* pools created in one history
          MaxHist,    \* calls after the prefix (behaviour generation)
          Prefixes,   \* sequence of fixed call prefixes (<<>> = none); one is chosen at Init
          HostPtrImpl \* "counted": a use_host_pointer allocation is un-counted when released (intended)
                      \* "leaky":   it is treated like wrapped memory on release (the code before the repair)

VARIABLES bufs,    \* sequence of buffers [bytes, kind, views, wrapped]  (views = 0: released)
          pools,   \* sequence of pools   [alive, size (bytes of the backing buffer), al (alignment),
                   \*                      res (live reservations: set of [id, off, len]), nres (ids handed out)]
          bytes,   \* modeDevice_t::bytesAllocated
          maxb,    \* modeDevice_t::maxBytesAllocated
          taken,   \* ghost: every value `bytes` has had
          hist,
          done,    \* generation only: the finished history has been printed
          pf       \* generation only: which prefix this history starts with

vars == <<bufs, pools, bytes, maxb, taken, hist, done, pf>>
Pre == Prefixes[pf]

Max(a, b) == IF a >= b THEN a ELSE b
SetMax(S) == CHOOSE x \in S : \A y \in S : y <= x
RECURSIVE SumSeq(_, _)
SumSeq(f, j) == IF j = 0 THEN 0 ELSE f[j] + SumSeq(f, j - 1)

LiveBufs  == {b \in DOMAIN bufs : bufs[b].views > 0}
LivePools == {p \in DOMAIN pools : pools[p].alive}
\* the intended meaning of memoryAllocated(): live malloc/clone allocations + live pool backing buffers;
\* wrapped memory counts nothing
Intended ==
  SumSeq([b \in DOMAIN bufs |-> IF bufs[b].views > 0 /\ bufs[b].kind # "wrap" THEN bufs[b].bytes ELSE 0], Len(bufs))
  + SumSeq([p \in DOMAIN pools |-> IF pools[p].alive THEN pools[p].size ELSE 0], Len(pools))

\* counter sub-steps: a sequence of signed deltas applied one after the other; the maximum is taken
\* after every increment (as the code does), the ghost records every intermediate value
RECURSIVE Apply(_, _)
Apply(st, ds) ==
  IF ds = <<>> THEN st
  ELSE LET v == st.b + ds[1]
       IN Apply([b |-> v, m |-> IF ds[1] > 0 THEN Max(st.m, v) ELSE st.m, t |-> st.t \cup {v}], Tail(ds))

\* observation: the two counters and the size() of every live pool (in pool order)
LiveSizes(ps) == LET RECURSIVE G(_)
                     G(j) == IF j > Len(ps) THEN <<>> ELSE (IF ps[j].alive THEN <<ps[j].size>> ELSE <<>>) \o G(j + 1)
                 IN G(1)
Obs(b, m) == [mem |-> b, max |-> m, psz |-> LiveSizes(pools')]
Commit(rec, ds) ==
  LET st == Apply([b |-> bytes, m |-> maxb, t |-> taken], ds) IN
  /\ bytes' = st.b /\ maxb' = st.m /\ taken' = st.t
  /\ hist' = IF MaxHist = 0 THEN hist ELSE Append(hist, rec @@ Obs(st.b, st.m))
  /\ done' = done /\ pf' = pf
Rec(a, x, n, use, own, src) == [a |-> a, x |-> x, n |-> n, use |-> use, own |-> own, src |-> src, err |-> FALSE]

\* what a released buffer gives back
Refund(b) == IF bufs[b].kind = "wrap" THEN 0
             ELSE IF bufs[b].kind = "host" /\ HostPtrImpl = "leaky" THEN 0
             ELSE bufs[b].bytes

\* m = device.malloc(n bytes, src, {use_host_pointer: use, own_host_pointer: own})
Malloc(n, use, own, src) ==
  /\ Len(bufs) < MaxBufs
  /\ (own => use)
  /\ bufs' = Append(bufs, [bytes |-> n, kind |-> IF src /\ use THEN "host" ELSE "malloc", views |-> 1])
  /\ UNCHANGED pools
  /\ Commit(Rec("malloc", Len(bufs) + 1, n, use, own, src), <<n>>)

\* device.malloc(0 entries): an uninitialized handle, nothing allocated
MallocZero ==
  /\ UNCHANGED <<bufs, pools>>
  /\ Commit(Rec("malloc0", 0, 0, FALSE, FALSE, FALSE), <<>>)

\* m = device.wrapMemory(ptr, n bytes)
Wrap(n) ==
  /\ Len(bufs) < MaxBufs
  /\ bufs' = Append(bufs, [bytes |-> n, kind |-> "wrap", views |-> 1])
  /\ UNCHANGED pools
  /\ Commit(Rec("wrap", Len(bufs) + 1, n, FALSE, FALSE, FALSE), <<>>)

\* c = m.clone(): a malloc of the same size on the same device (whatever m is)
Clone(b) ==
  /\ Len(bufs) < MaxBufs /\ b \in LiveBufs
  /\ bufs' = Append(bufs, [bytes |-> bufs[b].bytes, kind |-> "malloc", views |-> 1])
  /\ UNCHANGED pools
  /\ Commit(Rec("clone", b, Len(bufs) + 1, FALSE, FALSE, FALSE), <<bufs[b].bytes>>)

\* s = m.slice(..): one more view of the same buffer
Slice(b) ==
  /\ b \in LiveBufs /\ bufs[b].views < 2
  /\ bufs' = [bufs EXCEPT ![b].views = @ + 1]
  /\ UNCHANGED pools
  /\ Commit(Rec("slice", b, 0, FALSE, FALSE, FALSE), <<>>)

\* free() of one view; the buffer is released with its last view
FreeView(b) ==
  /\ b \in LiveBufs
  /\ bufs' = [bufs EXCEPT ![b].views = @ - 1]
  /\ UNCHANGED pools
  /\ Commit(Rec("free", b, 0, FALSE, FALSE, FALSE),
            IF bufs[b].views = 1 /\ Refund(b) > 0 THEN <<-Refund(b)>> ELSE <<>>)

\* --- pools ------------------------------------------------------------------
(* Byte-exact model of a pool that is used through reserve() only (no slices of reservations).
   The backing size after a resize / setAlignment depends on where the reservations sit, so the placement of
   modeMemoryPool_t is followed:  TRANSCRIBED FROM src/occa/internal/core/memoryPool.cpp (reserve, resize,
   reallocate, migrate, computeReserved, setAlignment).  It is not the oracle of this property -- Conservation and
   HighWater are -- but it makes the predicted pool sizes depend on the alignment (reserved extent under the old
   versus the new alignment), which a cell-sized model cannot.  The replayer also reports size() of every pool, so a
   changed placement policy shows up under its own signature (pool-size:...) and not as an accounting error.      *)
DefaultAlign == 128
RoundUp(x, a)   == ((x + a - 1) \div a) * a
RoundDown(x, a) == (x \div a) * a
CellsOf(r, a)   == (RoundDown(r.off, a) \div a) .. ((RoundUp(r.off + r.len, a) \div a) - 1)
Occupied(res, a) == UNION {CellsOf(r, a) : r \in res}
\* size of the union of the reserved ranges, each rounded out to a        (computeReserved)
Reserved(res, a) == a * Cardinality(Occupied(res, a))
\* packing: every block of touching rounded ranges moves down over the free a-cells below it   (migrate)
Migrate(res, a) ==
  LET occ == Occupied(res, a) IN
  {[r EXCEPT !.off = r.off - a * Cardinality({k \in 0..((RoundDown(r.off, a) \div a) - 1) : k \notin occ})] : r \in res}
\* first unreserved region that fits, scanning the reservations by offset   (reserve)
Hole(res, a, n) ==
  LET RECURSIVE Go(_, _)
      Go(S, off) == IF S = {} THEN off
                    ELSE LET m == CHOOSE m \in S : \A x \in S : m.off <= x.off IN
                         IF m.off >= off + n THEN off ELSE Go(S \ {m}, Max(off, RoundUp(m.off + m.len, a)))
  IN Go(res, 0)

\* counter sub-steps of reallocate(): old buffer first when nothing is reserved, new buffer first otherwise
Realloc(res, old, new) ==
  IF res = {} THEN (IF old > 0 THEN <<-old>> ELSE <<>>) \o (IF new > 0 THEN <<new>> ELSE <<>>)
  ELSE (IF new > 0 THEN <<new>> ELSE <<>>) \o (IF old > 0 THEN <<-old>> ELSE <<>>)
\* reallocate(n): [pool, deltas]
Reallocated(pl, n) ==
  LET new == RoundUp(n, pl.al) IN
  [pool |-> [pl EXCEPT !.size = new, !.res = Migrate(pl.res, pl.al)], ds |-> Realloc(pl.res, pl.size, new)]

CreatePool ==
  /\ Len(pools) < MaxPools
  /\ pools' = Append(pools, [alive |-> TRUE, size |-> 0, al |-> DefaultAlign, res |-> {}, nres |-> 0])
  /\ UNCHANGED bufs
  /\ Commit(Rec("newPool", Len(pools) + 1, 0, FALSE, FALSE, FALSE), <<>>)

\* r = pool.reserve(n bytes)
Reserve(p, n) ==
  /\ p \in LivePools /\ Cardinality(pools[p].res) < MaxLiveRes
  /\ LET pl   == pools[p]
         a    == pl.al
         rsv  == Reserved(pl.res, a)
         id   == pl.nres + 1
         h    == Hole(pl.res, a, n)
         grow == (rsv + n > pl.size) \/ (pl.res # {} /\ h + n > pl.size)
         g    == Reallocated(pl, rsv + RoundUp(n, a))
         pl2  == IF grow THEN g.pool ELSE pl
         off  == IF grow THEN rsv ELSE IF pl.res = {} THEN 0 ELSE h
     IN /\ pl2.size <= MaxPoolBytes
        /\ pools' = [pools EXCEPT ![p] = [pl2 EXCEPT !.res = @ \cup {[id |-> id, off |-> off, len |-> n]}, !.nres = id]]
        /\ UNCHANGED bufs
        /\ Commit(Rec("reserve", p, n, FALSE, FALSE, FALSE), IF grow THEN g.ds ELSE <<>>)

\* free() of reservation number r of pool p
Release(p, r) ==
  /\ p \in LivePools /\ \E x \in pools[p].res : x.id = r
  /\ pools' = [pools EXCEPT ![p].res = {x \in @ : x.id # r}]
  /\ UNCHANGED bufs
  /\ Commit(Rec("release", p, r, FALSE, FALSE, FALSE), <<>>)

\* pool.resize(n bytes): an error below the reserved size, nothing when n is the current size, else reallocate
ResizeEff(p, n, name) ==
  LET pl == pools[p] IN
  IF n < Reserved(pl.res, pl.al)
  THEN /\ UNCHANGED pools
       /\ Commit([Rec(name, p, n, FALSE, FALSE, FALSE) EXCEPT !.err = TRUE], <<>>)
  ELSE IF n = pl.size
  THEN /\ UNCHANGED pools
       /\ Commit(Rec(name, p, n, FALSE, FALSE, FALSE), <<>>)
  ELSE LET g == Reallocated(pl, n) IN
       /\ pools' = [pools EXCEPT ![p] = g.pool]
       /\ Commit(Rec(name, p, n, FALSE, FALSE, FALSE), g.ds)
Resize(p, n) ==
  /\ p \in LivePools /\ n \in ResizeTo
  /\ UNCHANGED bufs
  /\ ResizeEff(p, n, "resize")
\* pool.shrinkToFit() = resize(reserved())
ShrinkToFit(p) ==
  /\ p \in LivePools
  /\ UNCHANGED bufs
  /\ ResizeEff(p, Reserved(pools[p].res, pools[p].al), "shrink")

\* pool.setAlignment(a): with live reservations the pool is re-made (new buffer first) with exactly the extent the
\* reservations need under the NEW alignment; an empty pool notes the alignment and keeps its size a multiple of it
SetAlignment(p, a) ==
  /\ p \in LivePools /\ a \in Aligns
  /\ UNCHANGED bufs
  /\ LET pl == pools[p] IN
     IF a = pl.al
     THEN /\ UNCHANGED pools
          /\ Commit(Rec("align", p, a, FALSE, FALSE, FALSE), <<>>)
     ELSE IF pl.res # {}
     THEN LET new == Reserved(pl.res, a) IN
          /\ pools' = [pools EXCEPT ![p] = [pl EXCEPT !.al = a, !.size = new, !.res = Migrate(pl.res, a)]]
          /\ Commit(Rec("align", p, a, FALSE, FALSE, FALSE), <<new>> \o (IF pl.size > 0 THEN <<-pl.size>> ELSE <<>>))
     ELSE LET new == RoundUp(pl.size, a) IN
          /\ pools' = [pools EXCEPT ![p] = [pl EXCEPT !.al = a, !.size = new]]
          /\ Commit(Rec("align", p, a, FALSE, FALSE, FALSE),
                    IF pl.size % a # 0 THEN <<-pl.size, new>> ELSE <<>>)

\* pool.free(): the reservations die with it, the backing buffer is released
FreePool(p) ==
  /\ p \in LivePools
  /\ pools' = [pools EXCEPT ![p].alive = FALSE, ![p].res = {}, ![p].size = 0]
  /\ UNCHANGED bufs
  /\ Commit(Rec("freePool", p, 0, FALSE, FALSE, FALSE),
            IF pools[p].size > 0 THEN <<-pools[p].size>> ELSE <<>>)

Init == /\ bufs = <<>> /\ pools = <<>> /\ bytes = 0 /\ maxb = 0 /\ taken = {0} /\ hist = <<>> /\ done = FALSE
        /\ pf \in DOMAIN Prefixes

Busy == MaxHist = 0 \/ Len(hist) < Len(Pre) + MaxHist
DoMalloc      == Busy /\ \E n \in Sizes, use, own, src \in BOOLEAN : Malloc(n, use, own, src)
DoMallocZero  == Busy /\ MallocZero
DoWrap        == Busy /\ \E n \in Sizes : Wrap(n)
DoClone       == Busy /\ \E b \in DOMAIN bufs : Clone(b)
DoSlice       == Busy /\ \E b \in DOMAIN bufs : Slice(b)
DoFreeView    == Busy /\ \E b \in DOMAIN bufs : FreeView(b)
DoCreatePool  == Busy /\ CreatePool
DoReserve     == Busy /\ \E p \in DOMAIN pools : \E n \in ResSizes : Reserve(p, n)
DoRelease     == Busy /\ \E p \in DOMAIN pools : \E r \in pools[p].res : Release(p, r.id)
DoResize      == Busy /\ \E p \in DOMAIN pools : \E n \in ResizeTo : Resize(p, n)
DoShrinkToFit == Busy /\ \E p \in DOMAIN pools : ShrinkToFit(p)
DoSetAlignment == Busy /\ \E p \in DOMAIN pools : \E a \in Aligns : SetAlignment(p, a)
DoFreePool    == Busy /\ \E p \in DOMAIN pools : FreePool(p)

Call == \/ DoMalloc \/ DoMallocZero \/ DoWrap \/ DoClone \/ DoSlice \/ DoFreeView
        \/ DoCreatePool \/ DoReserve \/ DoRelease \/ DoResize \/ DoShrinkToFit \/ DoSetAlignment \/ DoFreePool

\* generation (MaxHist > 0): the history starts with the chosen prefix (state constraint PrefixOK); after MaxHist
\* further calls it is printed once by a last step
PrefixOK == \A j \in 1..Len(hist) : j <= Len(Pre) =>
              hist[j].a = Pre[j].a /\ hist[j].x = Pre[j].x /\ hist[j].n = Pre[j].n
Finish == /\ MaxHist > 0 /\ Len(hist) = Len(Pre) + MaxHist /\ ~done
          /\ PrintT(<<"B", ToJson(hist)>>)
          /\ done' = TRUE
          /\ UNCHANGED <<bufs, pools, bytes, maxb, taken, hist, pf>>

Next == Call \/ Finish

Spec == Init /\ [][Next]_vars

---------------------------------------------------------------------------
(* The property *)
TypeOK == bytes \in Nat /\ maxb \in Nat
\* memoryAllocated() = live malloc/clone bytes + live pool backing bytes
Conservation == bytes = Intended
\* maxMemoryAllocated() = the largest value memoryAllocated() has taken
HighWater == maxb = SetMax(taken)
\* everything released => 0
AllReleased == (LiveBufs = {} /\ LivePools = {}) => bytes = 0
\* sanity of the transcribed placement: reservations are disjoint, inside the pool, and the pool holds the reserved extent
PoolSane == \A p \in LivePools :
  LET pl == pools[p] IN
  /\ \A x, y \in pl.res : x.id # y.id => (x.off + x.len <= y.off \/ y.off + y.len <= x.off)
  /\ \A x \in pl.res : x.off + x.len <= pl.size
  /\ Reserved(pl.res, pl.al) <= pl.size /\ pl.size % pl.al = 0

\* design run: released buffers and dead pools keep only their slot in the numbering
View == <<[b \in DOMAIN bufs |-> IF bufs[b].views > 0 THEN bufs[b] ELSE <<>>],
         [p \in DOMAIN pools |-> IF pools[p].alive THEN [s |-> pools[p].size, a |-> pools[p].al, r |-> {<<x.off, x.len>> : x \in pools[p].res}] ELSE <<>>],
         bytes, maxb, SetMax(taken), pf>>

=============================================================================
