----------------------------- MODULE Accounting -----------------------------
(* C05 -- device memory accounting: device::memoryAllocated() / maxMemoryAllocated().

   The implementation keeps two counters on the device (modeDevice_t::bytesAllocated,
   maxBytesAllocated) and updates them
     * in device::malloc             (+ bytes, then max)   -- also for clone(), which is a malloc
     * in ~modeBuffer_t              (- size, unless the buffer only wraps user memory)
     * in modeMemoryPool_t::resize   with reservations:   AllocNew (+ new, max) ; FreeOld (- old)
                                     without reservations: FreeOld (- old) ; AllocNew (+ new, max)
   The model keeps the same two counters, updates them with the same sub-steps, and states the
   property against an independent definition: the sum over what is alive, and the largest value
   the counter has taken (ghost set `taken`).

   One action per public call.  A buffer lives as long as one of its views (memory handles of
   malloc / slice) lives; `Malloc` arguments range over the use_host_pointer / own_host_pointer
   combinations with and without a source pointer.                                           *)
EXTENDS Integers, Sequences, FiniteSets, TLC, Json

CONSTANTS Sizes,      \* byte sizes of mallocs / wraps
          Cell,       \* pool alignment = bytes of one reservation
          MaxCells,   \* pool sizes 0..MaxCells cells
          MaxBufs,    \* buffers created in one history
          MaxPools,   \* pools created in one history
          MaxHist,
          HostPtrImpl \* "counted": a use_host_pointer allocation is un-counted when released (intended)
                      \* "leaky":   it is treated like wrapped memory on release (the code before the repair)

VARIABLES bufs,    \* sequence of buffers [bytes, kind, views, wrapped]  (views = 0: released)
          pools,   \* sequence of pools   [alive, cells, res (live reservations: set of ids), nres (ids handed out),
                   \*                      al (alignment: Cell or Cell/2)]
          bytes,   \* modeDevice_t::bytesAllocated
          maxb,    \* modeDevice_t::maxBytesAllocated
          taken,   \* ghost: every value `bytes` has had
          hist,
          done     \* generation only: the finished history has been printed

vars == <<bufs, pools, bytes, maxb, taken, hist, done>>

Max(a, b) == IF a >= b THEN a ELSE b
SetMax(S) == CHOOSE x \in S : \A y \in S : y <= x
RECURSIVE SumSeq(_, _)
SumSeq(f, j) == IF j = 0 THEN 0 ELSE f[j] + SumSeq(f, j - 1)

LiveBufs  == {b \in DOMAIN bufs : bufs[b].views > 0}
LivePools == {p \in DOMAIN pools : pools[p].alive}
\* the intended meaning of memoryAllocated(): live malloc/clone allocations + live pool backing buffers;
\* wrapped memory counts nothing
Intended ==
  SumSeq([b \in DOMAIN bufs |-> IF bufs[b].views > 0 /\ bufs[b].kind # "wrap" THEN bufs[b].bytes ELSE 0], Len(bufs))
  + SumSeq([p \in DOMAIN pools |-> IF pools[p].alive THEN pools[p].cells * Cell ELSE 0], Len(pools))

\* counter sub-steps: a sequence of signed deltas applied one after the other; the maximum is taken
\* after every increment (as the code does), the ghost records every intermediate value
RECURSIVE Apply(_, _)
Apply(st, ds) ==
  IF ds = <<>> THEN st
  ELSE LET v == st.b + ds[1]
       IN Apply([b |-> v, m |-> IF ds[1] > 0 THEN Max(st.m, v) ELSE st.m, t |-> st.t \cup {v}], Tail(ds))

Obs(b, m) == [mem |-> b, max |-> m]
Commit(rec, ds) ==
  LET st == Apply([b |-> bytes, m |-> maxb, t |-> taken], ds) IN
  /\ bytes' = st.b /\ maxb' = st.m /\ taken' = st.t
  /\ hist' = IF MaxHist = 0 THEN hist ELSE Append(hist, rec @@ Obs(st.b, st.m))
  /\ done' = done
Rec(a, x, n, use, own, src) == [a |-> a, x |-> x, n |-> n, use |-> use, own |-> own, src |-> src, err |-> FALSE]

\* what a released buffer gives back
Refund(b) == IF bufs[b].kind = "wrap" THEN 0
             ELSE IF bufs[b].kind = "host" /\ HostPtrImpl = "leaky" THEN 0
             ELSE bufs[b].bytes

\* m = device.malloc(n bytes, src, {use_host_pointer: use, own_host_pointer: own})
Malloc(n, use, own, src) ==
  /\ Len(bufs) < MaxBufs
  /\ (own => use)
  /\ bufs' = Append(bufs, [bytes |-> n, kind |-> IF src /\ use THEN "host" ELSE "malloc", views |-> 1])
  /\ UNCHANGED pools
  /\ Commit(Rec("malloc", Len(bufs) + 1, n, use, own, src), <<n>>)

\* device.malloc(0 entries): an uninitialized handle, nothing allocated
MallocZero ==
  /\ UNCHANGED <<bufs, pools>>
  /\ Commit(Rec("malloc0", 0, 0, FALSE, FALSE, FALSE), <<>>)

\* m = device.wrapMemory(ptr, n bytes)
Wrap(n) ==
  /\ Len(bufs) < MaxBufs
  /\ bufs' = Append(bufs, [bytes |-> n, kind |-> "wrap", views |-> 1])
  /\ UNCHANGED pools
  /\ Commit(Rec("wrap", Len(bufs) + 1, n, FALSE, FALSE, FALSE), <<>>)

\* c = m.clone(): a malloc of the same size on the same device (whatever m is)
Clone(b) ==
  /\ Len(bufs) < MaxBufs /\ b \in LiveBufs
  /\ bufs' = Append(bufs, [bytes |-> bufs[b].bytes, kind |-> "malloc", views |-> 1])
  /\ UNCHANGED pools
  /\ Commit(Rec("clone", b, Len(bufs) + 1, FALSE, FALSE, FALSE), <<bufs[b].bytes>>)

\* s = m.slice(..): one more view of the same buffer
Slice(b) ==
  /\ b \in LiveBufs /\ bufs[b].views < 2
  /\ bufs' = [bufs EXCEPT ![b].views = @ + 1]
  /\ UNCHANGED pools
  /\ Commit(Rec("slice", b, 0, FALSE, FALSE, FALSE), <<>>)

\* free() of one view; the buffer is released with its last view
FreeView(b) ==
  /\ b \in LiveBufs
  /\ bufs' = [bufs EXCEPT ![b].views = @ - 1]
  /\ UNCHANGED pools
  /\ Commit(Rec("free", b, 0, FALSE, FALSE, FALSE),
            IF bufs[b].views = 1 /\ Refund(b) > 0 THEN <<-Refund(b)>> ELSE <<>>)

\* --- pools ------------------------------------------------------------------
CreatePool ==
  /\ Len(pools) < MaxPools
  /\ pools' = Append(pools, [alive |-> TRUE, cells |-> 0, res |-> {}, nres |-> 0, al |-> Cell])
  /\ UNCHANGED bufs
  /\ Commit(Rec("newPool", Len(pools) + 1, 0, FALSE, FALSE, FALSE), <<>>)

\* modeMemoryPool_t::resize to n cells (n # current size)
ResizeDeltas(p, n) ==
  LET old == pools[p].cells * Cell
      new == n * Cell
  IN IF pools[p].res = {} THEN (IF old > 0 THEN <<-old>> ELSE <<>>) \o (IF new > 0 THEN <<new>> ELSE <<>>)
     ELSE (IF new > 0 THEN <<new>> ELSE <<>>) \o (IF old > 0 THEN <<-old>> ELSE <<>>)

\* r = pool.reserve(one cell): grows the pool to reserved+1 cells when it does not fit
Reserve(p) ==
  /\ p \in LivePools
  /\ LET r    == Cardinality(pools[p].res)
         grow == r + 1 > pools[p].cells
     IN /\ r + 1 <= MaxCells
        /\ pools' = [pools EXCEPT ![p].res = @ \cup {pools[p].nres + 1}, ![p].nres = @ + 1,
                                  ![p].cells = IF grow THEN r + 1 ELSE @]
        /\ UNCHANGED bufs
        /\ Commit(Rec("reserve", p, pools[p].nres + 1, FALSE, FALSE, FALSE),
                  IF grow THEN ResizeDeltas(p, r + 1) ELSE <<>>)

Release(p, r) ==
  /\ p \in LivePools /\ r \in pools[p].res
  /\ pools' = [pools EXCEPT ![p].res = @ \ {r}]
  /\ UNCHANGED bufs
  /\ Commit(Rec("release", p, r, FALSE, FALSE, FALSE), <<>>)

\* pool.resize(n cells): an error below the reserved size, nothing when the size is unchanged
Resize(p, n) ==
  /\ p \in LivePools /\ n \in 0..MaxCells
  /\ UNCHANGED bufs
  /\ IF n < Cardinality(pools[p].res)
     THEN /\ UNCHANGED pools
          /\ Commit([Rec("resize", p, n, FALSE, FALSE, FALSE) EXCEPT !.err = TRUE], <<>>)
     ELSE /\ pools' = [pools EXCEPT ![p].cells = n]
          /\ Commit(Rec("resize", p, n, FALSE, FALSE, FALSE),
                    IF n = pools[p].cells THEN <<>> ELSE ResizeDeltas(p, n))

ShrinkToFit(p) ==
  /\ p \in LivePools
  /\ UNCHANGED bufs
  /\ LET n == Cardinality(pools[p].res) IN
     /\ pools' = [pools EXCEPT ![p].cells = n]
     /\ Commit(Rec("shrink", p, n, FALSE, FALSE, FALSE),
               IF n = pools[p].cells THEN <<>> ELSE ResizeDeltas(p, n))

\* pool.setAlignment(a), a toggling between Cell and Cell/2 (every reservation stays one Cell, so placement still does
\* not matter): with live reservations the pool is re-made with exactly the reserved size -- always, also when
\* that is its current size -- new buffer first; an empty pool only notes the alignment
SetAlignment(p) ==
  /\ p \in LivePools
  /\ UNCHANGED bufs
  /\ LET n  == Cardinality(pools[p].res)
         a2 == IF pools[p].al = Cell THEN Cell \div 2 ELSE Cell
     IN /\ pools' = [pools EXCEPT ![p].al = a2, ![p].cells = IF n > 0 THEN n ELSE @]
        /\ Commit(Rec("align", p, a2, FALSE, FALSE, FALSE),
                  IF n > 0 THEN <<n * Cell>> \o (IF pools[p].cells > 0 THEN <<-(pools[p].cells * Cell)>> ELSE <<>>) ELSE <<>>)

\* pool.free(): the reservations die with it, the backing buffer is released
FreePool(p) ==
  /\ p \in LivePools
  /\ pools' = [pools EXCEPT ![p].alive = FALSE, ![p].res = {}]
  /\ UNCHANGED bufs
  /\ Commit(Rec("freePool", p, 0, FALSE, FALSE, FALSE),
            IF pools[p].cells > 0 THEN <<-(pools[p].cells * Cell)>> ELSE <<>>)

Init == /\ bufs = <<>> /\ pools = <<>> /\ bytes = 0 /\ maxb = 0 /\ taken = {0} /\ hist = <<>> /\ done = FALSE

Busy == MaxHist = 0 \/ Len(hist) < MaxHist
DoMalloc      == Busy /\ \E n \in Sizes, use, own, src \in BOOLEAN : Malloc(n, use, own, src)
DoMallocZero  == Busy /\ MallocZero
DoWrap        == Busy /\ \E n \in Sizes : Wrap(n)
DoClone       == Busy /\ \E b \in DOMAIN bufs : Clone(b)
DoSlice       == Busy /\ \E b \in DOMAIN bufs : Slice(b)
DoFreeView    == Busy /\ \E b \in DOMAIN bufs : FreeView(b)
DoCreatePool  == Busy /\ CreatePool
DoReserve     == Busy /\ \E p \in DOMAIN pools : Reserve(p)
DoRelease     == Busy /\ \E p \in DOMAIN pools : \E r \in pools[p].res : Release(p, r)
DoResize      == Busy /\ \E p \in DOMAIN pools : \E n \in 0..MaxCells : Resize(p, n)
DoShrinkToFit == Busy /\ \E p \in DOMAIN pools : ShrinkToFit(p)
DoSetAlignment == Busy /\ \E p \in DOMAIN pools : SetAlignment(p)
DoFreePool    == Busy /\ \E p \in DOMAIN pools : FreePool(p)

Call == \/ DoMalloc \/ DoMallocZero \/ DoWrap \/ DoClone \/ DoSlice \/ DoFreeView
        \/ DoCreatePool \/ DoReserve \/ DoRelease \/ DoResize \/ DoShrinkToFit \/ DoSetAlignment \/ DoFreePool

\* generation (MaxHist > 0): a history of MaxHist calls is printed once by a last step
Finish == /\ MaxHist > 0 /\ Len(hist) = MaxHist /\ ~done
          /\ PrintT(<<"B", ToJson(hist)>>)
          /\ done' = TRUE
          /\ UNCHANGED <<bufs, pools, bytes, maxb, taken, hist>>

Next == Call \/ Finish

Spec == Init /\ [][Next]_vars

---------------------------------------------------------------------------
(* The property *)
TypeOK == bytes \in Nat /\ maxb \in Nat
\* memoryAllocated() = live malloc/clone bytes + live pool backing bytes
Conservation == bytes = Intended
\* maxMemoryAllocated() = the largest value memoryAllocated() has taken
HighWater == maxb = SetMax(taken)
\* everything released => 0
AllReleased == (LiveBufs = {} /\ LivePools = {}) => bytes = 0

\* design run: released buffers and dead pools keep only their slot in the numbering
View == <<[b \in DOMAIN bufs |-> IF bufs[b].views > 0 THEN bufs[b] ELSE <<>>],
         [p \in DOMAIN pools |-> IF pools[p].alive THEN [c |-> pools[p].cells, r |-> Cardinality(pools[p].res), a |-> pools[p].al] ELSE <<>>],
         bytes, maxb, SetMax(taken)>>

=============================================================================
