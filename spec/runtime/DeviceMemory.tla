---------------------------- MODULE DeviceMemory ----------------------------
(* C02 -- occa::memory on a host device (Serial / OpenMP): device memory is an aliased byte
   array and misuse raises errors.

   Reference model.  A *store* is a byte array: store 0 is a host array owned by the caller
   (what device::wrapMemory aliases), stores 1..NStores are device allocations (device::malloc,
   memory::clone).  A *view* (one occa::memory handle per slot 1..NViews; slot 0 denotes a
   default-constructed handle that is never initialised) is a window [off, off+len) of one store
   together with a dtype size esz.  Slices, offsets (operator+) and casts are new views of the
   SAME store -- that is "slices and casts share their parent's bytes"; clone and malloc make a
   NEW store -- "clones do not".  Every read is a read of the store's bytes.

   One action per public call.  Each call has an intended validity condition in the units the
   API documents (offsets and counts are ELEMENTS of the view's dtype; count = -1 means "the
   rest" for slice and "the whole length" for copies; malloc of 0 entries returns an uninitialised
   handle; slice/clone/free/copy with a host pointer on an uninitialised handle are no-ops).  When
   the condition fails the outcome is "error" (occa::exception) and NOTHING changes.  A
   device-to-device copy that involves exactly one uninitialised handle is an error.

   The same operators are used (a) by TLC for the design run, (b) to generate behaviours that a
   C++ replayer executes on the real library (history variable `hist`), and (c) by
   DeviceMemoryTrace.tla to validate logs of a random driver.                                  *)
EXTENDS Integers, Sequences, FiniteSets, TLC, Json

CONSTANTS
  NViews,        \* handle slots 1..NViews
  NStores,       \* device store ids 1..NStores
  MaxBytes,      \* largest device allocation generated (bytes)
  HostInit,      \* initial contents of the host array (store 0); <<>> = no host array
  ESizes,        \* dtype sizes generated (subset of 1..8; 3 = char3, 8 = double)
  NStamps,       \* number of distinct data stamps  (the data written by the k-th call)
  PatMod,        \* data bytes are 1..PatMod
  Dom(_),        \* argument domain for offsets/counts of single-view calls, given the element count
  Dom2(_),       \* argument domain for the offsets of device-to-device copies
  WrapAt,        \* offsets into the host array at which wrapMemory is tried
  Mode,          \* "all": every argument tuple is a successor; "sim": random picks (simulation)
  Prefixes,      \* set of scripted command sequences executed first (shape coverage); {<<>>} = none
  Depth,         \* a behaviour is emitted and cut Depth calls after its scripted prefix (0 = keep no history)
  Progress,      \* TRUE: a call that changes nothing (error, no-op, read) ends its behaviour -- histories
                 \* that continue after such a call are covered by the shorter history without it
  MaxErr         \* at most this many "error" steps per behaviour (-1 = unbounded)

VARIABLES
  view,          \* [1..NViews -> view record]
  mem,           \* [0..NStores -> Seq(byte)]   (<<>> = free device store)
  k,             \* data stamp
  last,          \* [a, res, v, t] of the last call (for the action properties)
  hist           \* history variable: one record per call (generation / replay)

vars == <<view, mem, k, last, hist>>

DEFAULT == -1
HUGE    == 1000000      \* tokens: the harness concretises them to 2^31, 2^62, 2^63-1, ...
NEGHUGE == -1000000
U == -1                 \* undefined byte (malloc without initial data)

Uninit == [init |-> FALSE, st |-> 0, off |-> 0, len |-> 0, esz |-> 1, kind |-> "none"]
V(v) == IF v = 0 THEN Uninit ELSE view[v]
Elems(w) == w.len \div w.esz

Min(S) == CHOOSE x \in S : \A y \in S : x <= y
FreeSlots  == {t \in 1..NViews : ~view[t].init}
HasSlot    == FreeSlots # {}
LowSlot    == IF HasSlot THEN Min(FreeSlots) ELSE 0
FreeStores == {s \in 1..NStores : mem[s] = <<>>}
HasStore   == FreeStores # {}
FreshStore == Min(FreeStores)

Pat(kk, i) == ((kk * MaxBytes + i - 1) % PatMod) + 1
PatSeq(kk) == [i \in 1..MaxBytes |-> Pat(kk, i)]

---------------------------------------------------------------------------
(* Byte-array primitives *)
ReadB(m, s, at, n) == SubSeq(m[s], at + 1, at + n)
WriteB(m, s, at, data) ==
  [m EXCEPT ![s] = [i \in 1..Len(@) |-> IF i > at /\ i <= at + Len(data) THEN data[i - at] ELSE @[i]]]
PutView(t, w) == [view EXCEPT ![t] = w]
\* a device store lives exactly as long as a view refers to it
GC(vw, m) == [s \in DOMAIN m |->
                IF s # 0 /\ ~\E v \in 1..NViews : vw[v].init /\ vw[v].st = s THEN <<>> ELSE m[s]]

---------------------------------------------------------------------------
(* Intended validity conditions (the guards Valid(...) of the property) *)
SliceCnt(w, off, cnt) == IF cnt = DEFAULT THEN Elems(w) - off ELSE cnt
SliceOK(w, off, cnt) == /\ off >= 0
                        /\ SliceCnt(w, off, cnt) >= 0
                        /\ off + SliceCnt(w, off, cnt) <= Elems(w)
CopyCnt(w, cnt) == IF cnt = DEFAULT THEN Elems(w) ELSE cnt
CopyOK(w, cnt, off) == /\ off >= 0
                       /\ CopyCnt(w, cnt) >= 0
                       /\ off + CopyCnt(w, cnt) <= Elems(w)
\* device-to-device: the count is in elements of the CALLER's dtype (dst for copyFrom, src for
\* copyTo), each offset in elements of its own memory's dtype
D2DBytes(wd, ws, from, cnt) == LET c == IF from = 1 THEN wd ELSE ws IN c.esz * CopyCnt(c, cnt)
D2DOK(wd, ws, from, cnt, doff, soff) ==
  LET b == D2DBytes(wd, ws, from, cnt) IN
    /\ wd.init /\ ws.init
    /\ b >= 0 /\ doff >= 0 /\ soff >= 0
    /\ soff * ws.esz + b <= ws.len
    /\ doff * wd.esz + b <= wd.len

SliceKind(w) == IF w.kind \in {"slice", "slice2"} THEN "slice2" ELSE "slice"

---------------------------------------------------------------------------
(* Effects.  A command c = [a, v, w, t, x, y, z, e, f, pat]; Eff(c) = [res, view, mem, rd]. *)
C0 == [a |-> "", v |-> 0, w |-> 0, t |-> 0, x |-> 0, y |-> 0, z |-> 0, e |-> 1, f |-> 0, pat |-> <<>>]
Ok(vw, m, rd) == [res |-> "ok", view |-> vw, mem |-> m, rd |-> rd]
Err == [res |-> "error", view |-> view, mem |-> mem, rd |-> <<>>]
Noop == Ok(view, mem, <<>>)

\* device.malloc(x entries, dtype of size e [, host data])          t := new buffer
EffMalloc(c) ==
  IF c.x = 0 THEN Noop
  ELSE IF c.x < 0 THEN Err
  ELSE LET s == FreshStore
           n == c.x * c.e
           bytes == IF c.f = 1 THEN SubSeq(c.pat, 1, n) ELSE [i \in 1..n |-> U]
       IN Ok(PutView(c.t, [init |-> TRUE, st |-> s, off |-> 0, len |-> n, esz |-> c.e, kind |-> "buf"]),
             [mem EXCEPT ![s] = bytes], <<>>)

\* device.malloc(x entries, dtype of size e, occa::memory v)        t := new buffer filled from v
EffMallocFrom(c) ==
  LET src == V(c.v)
      n == c.x * c.e IN
  IF c.x = 0 THEN Noop
  ELSE IF c.x < 0 THEN Err
  ELSE IF ~src.init \/ src.len = 0
    THEN Ok(PutView(c.t, [init |-> TRUE, st |-> FreshStore, off |-> 0, len |-> n, esz |-> c.e, kind |-> "buf"]),
            [mem EXCEPT ![FreshStore] = [i \in 1..n |-> U]], <<>>)
  ELSE IF n > src.len THEN Err
  ELSE Ok(PutView(c.t, [init |-> TRUE, st |-> FreshStore, off |-> 0, len |-> n, esz |-> c.e, kind |-> "buf"]),
          [mem EXCEPT ![FreshStore] = ReadB(mem, src.st, src.off, n)], <<>>)

\* device.wrapMemory(host + x, y entries, dtype of size e)          t := view of the host array
EffWrap(c) ==
  IF c.y < 0 THEN Err
  ELSE Ok(PutView(c.t, [init |-> TRUE, st |-> 0, off |-> c.x, len |-> c.y * c.e, esz |-> c.e, kind |-> "wrap"]),
          mem, <<>>)

\* v.slice(x, y)   /   v + x   (y = DEFAULT)                        t := window of v
EffSlice(c) ==
  LET w == V(c.v) IN
  IF ~w.init THEN Noop
  ELSE IF ~SliceOK(w, c.x, c.y) THEN Err
  ELSE Ok(PutView(c.t, [init |-> TRUE, st |-> w.st, off |-> w.off + c.x * w.esz,
                        len |-> SliceCnt(w, c.x, c.y) * w.esz, esz |-> w.esz, kind |-> SliceKind(w)]),
          mem, <<>>)

\* v.cast(dtype of size e)                                          t := same window, other dtype
EffCast(c) ==
  LET w == V(c.v) IN
  IF ~w.init THEN Err
  ELSE Ok(PutView(c.t, [w EXCEPT !.esz = c.e, !.kind = "cast"]), mem, <<>>)

\* v.clone()                                                        t := new buffer, same bytes
EffClone(c) ==
  LET w == V(c.v) IN
  IF ~w.init \/ w.len = 0 THEN Noop
  ELSE Ok(PutView(c.t, [init |-> TRUE, st |-> FreshStore, off |-> 0, len |-> w.len, esz |-> w.esz, kind |-> "clone"]),
          [mem EXCEPT ![FreshStore] = ReadB(mem, w.st, w.off, w.len)], <<>>)

\* v.copyFrom(host pointer, y, x)
EffH2D(c) ==
  LET w == V(c.v) IN
  IF ~w.init THEN Noop
  ELSE IF ~CopyOK(w, c.y, c.x) THEN Err
  ELSE Ok(view, WriteB(mem, w.st, w.off + c.x * w.esz, SubSeq(c.pat, 1, CopyCnt(w, c.y) * w.esz)), <<>>)

\* v.copyTo(host pointer, y, x)
EffD2H(c) ==
  LET w == V(c.v) IN
  IF ~w.init THEN Noop
  ELSE IF ~CopyOK(w, c.y, c.x) THEN Err
  ELSE Ok(view, mem, ReadB(mem, w.st, w.off + c.x * w.esz, CopyCnt(w, c.y) * w.esz))

\* f = 1:  v.copyFrom(w, y, x, z)      f = 0:  w.copyTo(v, y, x, z)      (v = destination, w = source)
EffD2D(c) ==
  LET wd == V(c.v)
      ws == V(c.w) IN
  IF ~wd.init /\ ~ws.init THEN Noop
  ELSE IF ~D2DOK(wd, ws, c.f, c.y, c.x, c.z) THEN Err
  ELSE LET b == D2DBytes(wd, ws, c.f, c.y)
           data == ReadB(mem, ws.st, ws.off + c.z * ws.esz, b)     \* snapshot, then write
       IN Ok(view, WriteB(mem, wd.st, wd.off + c.x * wd.esz, data), <<>>)

\* the caller writes y bytes into its own host array at x (no OCCA call): every view that wraps
\* these bytes must show them
EffHostPoke(c) == Ok(view, WriteB(mem, 0, c.x, SubSeq(c.pat, 1, c.y)), <<>>)

\* v.free()
EffFree(c) ==
  IF c.v = 0 \/ ~V(c.v).init THEN Noop
  ELSE Ok(PutView(c.v, Uninit), mem, <<>>)

Eff(c) == CASE c.a = "Malloc"     -> EffMalloc(c)
            [] c.a = "MallocFrom" -> EffMallocFrom(c)
            [] c.a = "Wrap"       -> EffWrap(c)
            [] c.a \in {"Slice", "Offset"} -> EffSlice(c)
            [] c.a = "Cast"       -> EffCast(c)
            [] c.a = "Clone"      -> EffClone(c)
            [] c.a = "H2D"        -> EffH2D(c)
            [] c.a = "D2H"        -> EffD2H(c)
            [] c.a = "D2D"        -> EffD2D(c)
            [] c.a = "Free"       -> EffFree(c)
            [] c.a = "HostPoke"   -> EffHostPoke(c)

\* calls that put their result into slot t / need a fresh device store
Creates(c)    == c.a \in {"Malloc", "MallocFrom", "Wrap", "Slice", "Offset", "Cast", "Clone"}
NeedsStore(c) == c.a \in {"Malloc", "MallocFrom", "Clone"}
WellFormed(c) == /\ Creates(c) => (c.t \in FreeSlots)
                 /\ NeedsStore(c) => HasStore
                 /\ c.a = "Wrap" => (c.x >= 0 /\ (c.y >= 0 => c.x + c.y * c.e <= Len(mem[0])))
                 /\ c.a = "HostPoke" => (c.x >= 0 /\ c.y >= 1 /\ c.x + c.y <= Len(mem[0]) /\ c.y <= Len(c.pat))

---------------------------------------------------------------------------
(* Observation: what every handle shows through the public API after a call *)
ViewObs(w, m) == IF ~w.init THEN [i |-> 0, n |-> 0, e |-> 0, b |-> <<>>]
                 ELSE [i |-> 1, n |-> w.len, e |-> w.esz,
                       b |-> SubSeq(m[w.st], w.off + 1, w.off + Elems(w) * w.esz)]
Obs(vw, m) == [v |-> [i \in 1..NViews |-> ViewObs(vw[i], m)], h |-> m[0]]

NErr == Cardinality({i \in DOMAIN hist : hist[i].res = "error"})

Do(c) ==
  /\ WellFormed(c)
  /\ LET r == Eff(c)
         m2 == GC(r.view, r.mem) IN
       /\ (MaxErr >= 0 /\ r.res = "error") => NErr < MaxErr
       /\ view' = TLCEval(r.view)
       /\ mem' = TLCEval(m2)
       /\ k' = (k + 1) % NStamps
       /\ last' = [a |-> c.a, res |-> r.res, v |-> c.v, t |-> c.t]
       /\ hist' = IF Depth = 0 THEN hist      \* design run: no history
                  ELSE Append(hist, TLCEval([c |-> c, res |-> r.res, rd |-> r.rd, kind |-> V(c.v).kind,
                                             kind2 |-> V(c.w).kind, chg |-> (r.view # view \/ m2 # mem),
                                             obs |-> Obs(r.view, m2)]))

---------------------------------------------------------------------------
(* Argument generation.  In "all" mode every tuple of the domain is a successor; in "sim" mode
   (TLC -simulate) one valid and one invalid tuple are drawn at random for one random handle,
   so that long random behaviours make progress instead of collecting errors.                *)
PickV(S) == IF Mode = "sim" THEN {RandomElement(S)} ELSE S
PickArgs(S, P(_)) ==
  IF Mode = "sim"
    THEN LET good == {a \in S : P(a)}
             bad  == S \ good
         IN (IF good = {} THEN {} ELSE {RandomElement(good)}) \cup
            (IF bad = {} THEN {} ELSE {RandomElement(bad)})
    ELSE S

ArgViews == {v \in 1..NViews : view[v].init} \cup {0}
\* the handle a call is made on: any initialised handle or handle 0; in simulation a random one,
\* an initialised handle five times as likely as handle 0
PickH == IF Mode = "sim"
           THEN {RandomElement(((ArgViews \ {0}) \X (1..5)) \cup {<<0, 0>>})[1]}
           ELSE ArgViews
Sometimes(n) == Mode = "sim" => RandomElement(1..n) = 1     \* thins an action out in simulation
UDom == {-1, 2}                                      \* arguments tried on an uninitialised handle
ADom(w)  == IF w.init THEN Dom(Elems(w))  ELSE UDom
ADom2(w) == IF w.init THEN Dom2(Elems(w)) ELSE {0}
MallocDom(e) == {NEGHUGE, -2, -1} \cup (0..(MaxBytes \div e))
Cmd(a) == [C0 EXCEPT !.a = a, !.t = LowSlot, !.pat = PatSeq(k)]

Malloc == \E e \in ESizes : \E a \in PickArgs(MallocDom(e) \X {0, 1}, LAMBDA a : a[1] >= 0) :
            Do([Cmd("Malloc") EXCEPT !.x = a[1], !.e = e, !.f = a[2]])
MallocFrom == \E v \in PickH : \E e \in ESizes :
              \E n \in PickArgs(MallocDom(e), LAMBDA n : n >= 0 /\ (V(v).init /\ V(v).len > 0 => n * e <= V(v).len)) :
                Do([Cmd("MallocFrom") EXCEPT !.v = v, !.x = n, !.e = e])
WrapArgs == {a \in WrapAt \X (-2..Len(mem[0])) \X ESizes : a[1] <= Len(mem[0]) /\ (a[2] >= 0 => a[1] + a[2] * a[3] <= Len(mem[0]))}
Wrap == /\ Len(mem[0]) > 0
        /\ \E a \in PickArgs(WrapArgs, LAMBDA a : a[2] >= 0) :
             Do([Cmd("Wrap") EXCEPT !.x = a[1], !.y = a[2], !.e = a[3]])
Slice == \E v \in PickH :
         \E a \in PickArgs(ADom(V(v)) \X ADom(V(v)), LAMBDA a : SliceOK(V(v), a[1], a[2])) :
           Do([Cmd("Slice") EXCEPT !.v = v, !.x = a[1], !.y = a[2]])
Offset == \E v \in PickH :
          \E x \in PickArgs(ADom(V(v)), LAMBDA x : SliceOK(V(v), x, DEFAULT)) :
            Do([Cmd("Offset") EXCEPT !.v = v, !.x = x, !.y = DEFAULT])
Cast == \E v \in PickH : \E e \in PickV(ESizes) :
          Do([Cmd("Cast") EXCEPT !.v = v, !.e = e])
Clone == \E v \in PickH : Do([Cmd("Clone") EXCEPT !.v = v])
H2D == \E v \in PickH :
       \E a \in PickArgs(ADom(V(v)) \X ADom(V(v)), LAMBDA a : CopyOK(V(v), a[2], a[1])) :
         Do([Cmd("H2D") EXCEPT !.v = v, !.x = a[1], !.y = a[2]])
D2H == \E v \in PickH :
       \E a \in PickArgs(ADom(V(v)) \X ADom(V(v)), LAMBDA a : CopyOK(V(v), a[2], a[1])) :
         Do([Cmd("D2H") EXCEPT !.v = v, !.x = a[1], !.y = a[2]])
\* counts tried for a device-to-device copy: default, negative, 0, 1, the largest that fits and one more
D2DCnts(wd, ws, from, doff, soff) ==
  LET c == IF from = 1 THEN wd ELSE ws
      room == IF wd.init /\ ws.init /\ doff >= 0 /\ soff >= 0
                THEN LET r1 == (ws.len - soff * ws.esz) \div c.esz
                         r2 == (wd.len - doff * wd.esz) \div c.esz
                         r == IF r1 < r2 THEN r1 ELSE r2
                     IN IF r < 0 THEN 0 ELSE r
                ELSE 1
  IN IF wd.init /\ ws.init THEN (IF doff < 0 \/ soff < 0 THEN {0, 1}       \* hopeless anyway: two counts
                                  ELSE {DEFAULT, -2, 0, 1, room, room + 1, HUGE})
     ELSE IF wd.init \/ ws.init THEN {DEFAULT, 0, 1}
     ELSE {DEFAULT, 1}
D2DArgs(wd, ws, from) ==
  UNION {{<<x, z, y>> : y \in D2DCnts(wd, ws, from, x, z)} : x \in ADom2(wd), z \in ADom2(ws)}
D2D == \E d \in PickH : \E s \in PickH : \E from \in PickV({0, 1}) :
       \E a \in PickArgs(D2DArgs(V(d), V(s), from), LAMBDA a : D2DOK(V(d), V(s), from, a[3], a[1], a[2])) :
         Do([Cmd("D2D") EXCEPT !.v = d, !.w = s, !.f = from, !.x = a[1], !.z = a[2], !.y = a[3]])
Free == Sometimes(3) /\ \E v \in PickH : Do([Cmd("Free") EXCEPT !.v = v])

\* only while some view wraps the host array (otherwise nothing can observe it through OCCA)
HostPoke == /\ \E v \in 1..NViews : view[v].init /\ view[v].st = 0
            /\ \E a \in PickV({b \in (0..Len(mem[0])) \X (1..MaxBytes) : b[1] + b[2] <= Len(mem[0]) /\ b[1] \in WrapAt \cup {1}}) :
                 Do([Cmd("HostPoke") EXCEPT !.x = a[1], !.y = a[2]])

\* scripted prefixes (shape coverage).  The prefix a behaviour follows is recognised from its
\* history (the prefixes differ in their first command).
SameCmd(p, c) == /\ p.a = c.a /\ p.v = c.v /\ p.w = c.w /\ p.x = c.x /\ p.y = c.y /\ p.z = c.z
                 /\ p.e = c.e /\ p.f = c.f
Follows(p) == \A i \in 1..(IF Len(p) < Len(hist) THEN Len(p) ELSE Len(hist)) : SameCmd(p[i], hist[i].c)
Scripted == \E p \in Prefixes :
              /\ Len(hist) < Len(p) /\ Follows(p)
              /\ LET q == p[Len(hist) + 1] IN
                   Do([Cmd(q.a) EXCEPT !.v = q.v, !.w = q.w, !.x = q.x, !.y = q.y, !.z = q.z, !.e = q.e, !.f = q.f])
Free_ == \E p \in Prefixes : Len(hist) >= Len(p) /\ Follows(p)
Next == \/ Scripted
        \/ Free_ /\ Malloc
        \/ Free_ /\ MallocFrom
        \/ Free_ /\ Wrap
        \/ Free_ /\ Slice
        \/ Free_ /\ Offset
        \/ Free_ /\ Cast
        \/ Free_ /\ Clone
        \/ Free_ /\ H2D
        \/ Free_ /\ D2H
        \/ Free_ /\ D2D
        \/ Free_ /\ Free
        \/ Free_ /\ HostPoke

Init == /\ view = [v \in 1..NViews |-> Uninit]
        /\ mem = [s \in 0..NStores |-> IF s = 0 THEN HostInit ELSE <<>>]
        /\ k = 0
        /\ last = [a |-> "", res |-> "ok", v |-> 0, t |-> 0]
        /\ hist = <<>>

Spec == Init /\ [][Next]_vars

---------------------------------------------------------------------------
(* Properties *)
Bytes == (1..PatMod) \cup {U} \cup {HostInit[i] : i \in DOMAIN HostInit}
TypeOK ==
  /\ \A v \in 1..NViews :
       LET w == view[v] IN
         /\ w.init \in BOOLEAN /\ w.st \in 0..NStores /\ w.off \in Nat /\ w.len \in Nat /\ w.esz \in 1..8
         /\ ~w.init => w = Uninit
  /\ \A s \in 0..NStores : \A i \in DOMAIN mem[s] : mem[s][i] \in Bytes
  /\ k \in 0..(NStamps - 1)

\* every initialised view is a window of a live store
ViewInsideBuffer ==
  \A v \in 1..NViews :
    LET w == view[v] IN
      w.init => /\ w.off >= 0 /\ w.len >= 0
                /\ w.off + w.len <= Len(mem[w.st])
                /\ (w.st # 0 => mem[w.st] # <<>>)
NoOrphanStore ==
  \A s \in 1..NStores : mem[s] # <<>> => \E v \in 1..NViews : view[v].init /\ view[v].st = s

\* "raise occa::exception without modifying any memory"
ErrorLeavesMemoryUnchanged == [][last'.res = "error" => UNCHANGED <<view, mem>>]_vars

\* slices, offsets and casts share their parent's bytes (same store, window inside the parent's);
\* clones and mallocs do not (a store nobody referred to before)
SliceAliasesParent ==
  [][(last'.a \in {"Slice", "Offset", "Cast"} /\ last'.res = "ok" /\ last'.v # 0 /\ view[last'.v].init)
       => LET p == view[last'.v]
              c == view'[last'.t] IN
            /\ c.init /\ c.st = p.st
            /\ p.off <= c.off /\ c.off + c.len <= p.off + p.len]_vars
CloneDoesNot ==
  [][(last'.a \in {"Clone", "Malloc", "MallocFrom"} /\ last'.res = "ok" /\ view'[last'.t].init)
       => /\ view'[last'.t].st # 0
          /\ ~\E v \in 1..NViews : view[v].init /\ view[v].st = view'[last'.t].st
          /\ \A s \in 0..NStores : s # view'[last'.t].st => mem'[s] = mem[s]]_vars
\* a write through one view is seen by exactly the views that overlap it: reads are reads of `mem`
\* (true by construction of ViewObs); stated here as: views never change in a copy
CopiesKeepViews == [][last'.a \in {"H2D", "D2H", "D2D"} => view' = view]_vars

\* design-run view: hide the history and the ghost field `kind`
View == <<[v \in 1..NViews |-> [view[v] EXCEPT !.kind = ""]], mem, k>>

\* generation: print a behaviour once, and cut it there, when it is Depth calls past its prefix or
\* (Progress) when its last call past the prefix changed nothing
EmitNow == /\ hist # <<>>
           /\ \E p \in Prefixes :
                /\ Follows(p)
                /\ \/ Len(hist) = Len(p) + Depth
                   \/ Progress /\ Len(hist) > Len(p) /\ ~hist[Len(hist)].chg
Emit == ~EmitNow \/ (PrintT(<<"B", ToJson(hist)>>) /\ FALSE)

\* simulation (tlc -simulate): no CONSTRAINT (the simulator evaluates a constraint on every candidate
\* successor and would print them all); a finished behaviour is printed by a stuttering step instead
SimNext == \/ ~EmitNow /\ Next
           \/ EmitNow /\ PrintT(<<"B", ToJson(hist)>>) /\ UNCHANGED vars
SimSpec == Init /\ [][SimNext]_vars
=============================================================================
