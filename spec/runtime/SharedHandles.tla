--------------------------- MODULE SharedHandles ---------------------------
(* C30 -- handles to ONE shared backend object used by several threads, in the
   ENABLE_SHARABLE_DEVICE configuration, at the atomicity the code really has:

     memory::removeMemoryRef()            (same shape in device/kernel/stream/memoryPool)
        modeMemory->removeMemoryRef(this)    -> ring_t::removeRef : lock; unlink; unlock
        if (modeMemory->needsFree())         -> reads ring.head OUTSIDE the lock
          delete modeMemory                  -> destructor, outside the lock
     memory::setModeMemory(m)   (copy)    -> ring_t::addRef : lock; link; unlock
     device::malloc / ~modeBuffer_t       -> bytesAllocated += n / -= n : unsynchronised
                                             read-modify-write

   Threads run small straight-line programs over their own handle slots.  Each program
   step is split into the atomic actions above.  `AtomicRelease` selects between the code's
   behaviour (FALSE: check-then-delete outside the lock, counter update in two steps) and
   the intended one (TRUE: unlink, check and delete form one critical section; counter
   update indivisible); TLC shows that the intended design satisfies the invariants for all
   schedules and produces, for the as-implemented one, the shortest violating schedule --
   which the harness then imposes on real threads (yield points, see harness/shared_sched.cpp).

   Program operations:
     <<"drop", h>>        destroy handle h (it refers to the object)
     <<"copy", s, h>>     copy-construct h from the thread's own live handle s
     <<"malloc", n>>      allocate n accounted bytes on the shared device (links a buffer into the
                          device's ring of buffers, then updates the counter)
     <<"free", n>>        release n accounted bytes (unlinks the buffer, then updates the counter) *)
EXTENDS Integers, Sequences, FiniteSets, TLC, Json

CONSTANTS Threads,        \* thread ids
          Prog,           \* Prog[t]: sequence of operations of thread t
          InitRing,       \* handles that refer to the object initially
          AtomicRelease   \* TRUE: intended design, FALSE: as implemented

VARIABLES pc,        \* pc[t] = <<index of current op, phase>>
          ring,      \* set of handles linked in the object's ring
          lock,      \* holder of the ring mutex or "none"
          alive,     \* the object has not been destroyed
          destroyed, \* number of times the destructor ran
          touched,   \* a thread used the object after it was destroyed
          sawEmpty,  \* per thread: needsFree() result it read
          bytes,     \* bytesAllocated of the device
          tmp,       \* per thread: value read from bytesAllocated
          children,  \* number of buffers linked into the shared device's ring of its buffers
          sched      \* history: the schedule (sequence of <<thread, action>>)
vars == <<pc, ring, lock, alive, destroyed, touched, sawEmpty, bytes, tmp, children, sched>>

Op(t) == Prog[t][pc[t][1]]
Done(t) == pc[t][1] > Len(Prog[t])
Phase(t) == pc[t][2]
Goto(t, i, ph) == pc' = [pc EXCEPT ![t] = <<i, ph>>]
NextOp(t) == Goto(t, pc[t][1] + 1, "start")
Log(t, a) == sched' = Append(sched, <<t, a>>)

Init == /\ pc = [t \in Threads |-> <<1, "start">>]
        /\ ring = InitRing /\ lock = "none" /\ alive = TRUE /\ destroyed = 0 /\ touched = FALSE
        /\ sawEmpty = [t \in Threads |-> FALSE]
        /\ bytes = 0 /\ tmp = [t \in Threads |-> 0]
        /\ children = 0
        /\ sched = <<>>

\* ---- drop: critical section (lock; unlink; unlock) ...
DropCS(t) ==
  /\ ~Done(t) /\ Op(t)[1] = "drop" /\ Phase(t) = "start" /\ lock = "none"
  /\ touched' = (touched \/ ~alive)          \* walks the ring of a destroyed object
  /\ ring' = ring \ {Op(t)[2]}
  /\ IF AtomicRelease
     THEN /\ IF ring' = {} /\ alive THEN alive' = FALSE /\ destroyed' = destroyed + 1
                                    ELSE UNCHANGED <<alive, destroyed>>
          /\ NextOp(t) /\ UNCHANGED sawEmpty
     ELSE /\ Goto(t, pc[t][1], "check") /\ UNCHANGED <<alive, destroyed, sawEmpty>>
  /\ Log(t, "dropCS")
  /\ UNCHANGED <<lock, bytes, tmp, children>>
\* ... then, outside the lock, needsFree() ...
DropCheck(t) ==
  /\ ~Done(t) /\ Op(t)[1] = "drop" /\ Phase(t) = "check"
  /\ touched' = (touched \/ ~alive)
  /\ sawEmpty' = [sawEmpty EXCEPT ![t] = (ring = {})]
  /\ Goto(t, pc[t][1], "delete")
  /\ Log(t, "dropCheck")
  /\ UNCHANGED <<ring, lock, alive, destroyed, bytes, tmp, children>>
\* ... then delete
DropDelete(t) ==
  /\ ~Done(t) /\ Op(t)[1] = "drop" /\ Phase(t) = "delete"
  /\ IF sawEmpty[t]
     THEN /\ destroyed' = destroyed + 1 /\ alive' = FALSE
          /\ touched' = (touched \/ ~alive)   \* destructor of an already destroyed object
     ELSE UNCHANGED <<destroyed, alive, touched>>
  /\ NextOp(t)
  /\ Log(t, "dropDelete")
  /\ UNCHANGED <<ring, lock, sawEmpty, bytes, tmp, children>>

\* ---- copy: addRef under the lock
CopyCS(t) ==
  /\ ~Done(t) /\ Op(t)[1] = "copy" /\ Phase(t) = "start" /\ lock = "none"
  /\ touched' = (touched \/ ~alive)
  /\ ring' = ring \cup {Op(t)[3]}
  /\ NextOp(t)
  /\ Log(t, "copyCS")
  /\ UNCHANGED <<lock, alive, destroyed, sawEmpty, bytes, tmp, children>>

\* ---- accounting: bytesAllocated +/-= n
\* malloc first links the new buffer into the device's ring of buffers (modeBuffer_t constructor ->
\* modeDevice_t::addMemoryRef -> ring_t::addRef: one critical section of the ring mutex); free unlinks it
\* (~modeBuffer_t -> removeMemoryRef).  The ring is shared by every thread that uses the device.
ChildCS(t) ==
  /\ ~Done(t) /\ Op(t)[1] \in {"malloc", "free"} /\ Phase(t) = "start" /\ lock = "none"
  /\ children' = children + (IF Op(t)[1] = "malloc" THEN 1 ELSE -1)
  /\ Goto(t, pc[t][1], "count")
  /\ Log(t, "childCS")
  /\ UNCHANGED <<ring, lock, alive, destroyed, touched, sawEmpty, bytes, tmp>>
CountRead(t) ==
  /\ ~Done(t) /\ Op(t)[1] \in {"malloc", "free"} /\ Phase(t) = "count"
  /\ IF AtomicRelease
     THEN /\ bytes' = bytes + (IF Op(t)[1] = "malloc" THEN Op(t)[2] ELSE -Op(t)[2])
          /\ NextOp(t) /\ UNCHANGED tmp
     ELSE /\ tmp' = [tmp EXCEPT ![t] = bytes] /\ Goto(t, pc[t][1], "write") /\ UNCHANGED bytes
  /\ Log(t, "countRead")
  /\ UNCHANGED <<ring, lock, alive, destroyed, touched, sawEmpty, children>>
CountWrite(t) ==
  /\ ~Done(t) /\ Op(t)[1] \in {"malloc", "free"} /\ Phase(t) = "write"
  /\ bytes' = tmp[t] + (IF Op(t)[1] = "malloc" THEN Op(t)[2] ELSE -Op(t)[2])
  /\ NextOp(t)
  /\ Log(t, "countWrite")
  /\ UNCHANGED <<ring, lock, alive, destroyed, touched, sawEmpty, tmp, children>>

Next == \E t \in Threads : DropCS(t) \/ DropCheck(t) \/ DropDelete(t) \/ CopyCS(t) \/ ChildCS(t) \/ CountRead(t) \/ CountWrite(t)
Spec == Init /\ [][Next]_vars

---------------------------------------------------------------------------
Quiescent == \A t \in Threads : Done(t)
\* net effect of the programs, independent of the schedule
NetBytes == LET RECURSIVE Sum(_, _)
                Sum(s, i) == IF i > Len(s) THEN 0
                             ELSE (IF s[i][1] = "malloc" THEN s[i][2] ELSE IF s[i][1] = "free" THEN -s[i][2] ELSE 0) + Sum(s, i + 1)
                RECURSIVE Tot(_)
                Tot(S) == IF S = {} THEN 0 ELSE LET t == CHOOSE x \in S : TRUE IN Sum(Prog[t], 1) + Tot(S \ {t})
            IN Tot(Threads)

NetChildren == LET RECURSIVE Cnt(_, _)
                   Cnt(q, i) == IF i > Len(q) THEN 0
                                ELSE (IF q[i][1] = "malloc" THEN 1 ELSE IF q[i][1] = "free" THEN -1 ELSE 0) + Cnt(q, i + 1)
                   RECURSIVE TotC(_)
                   TotC(S) == IF S = {} THEN 0 ELSE LET t == CHOOSE x \in S : TRUE IN Cnt(Prog[t], 1) + TotC(S \ {t})
               IN TotC(Threads)

NoDoubleFree      == destroyed <= 1
NoUseAfterFree    == ~touched
NoLeak            == (Quiescent /\ ring = {}) => destroyed = 1
NoLostReference   == (ring # {}) => alive           \* a linked handle never refers to a destroyed object
CounterExact      == Quiescent => bytes = NetBytes
NoLostChild       == Quiescent => children = NetChildren   \* every buffer created on the device is in its ring

View == <<pc, ring, lock, alive, destroyed, touched, sawEmpty, bytes, tmp, children>>
\* schedule generation: one line per complete schedule
EmitSchedule == Quiescent => PrintT(<<"B", ToJson([sched |-> sched, d |-> destroyed, b |-> bytes, a |-> alive, u |-> touched, ring |-> Cardinality(ring), net |-> NetBytes, ch |-> children, netch |-> NetChildren])>>)
=============================================================================
