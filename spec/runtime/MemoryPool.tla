----------------------------- MODULE MemoryPool -----------------------------
(* C03 / C04 -- the abstract memory pool.

   What the property fixes is WHAT a pool must guarantee, not WHERE it places things, so the
   abstract pool is nondeterministic in the placement: every action takes the new placement
   `P` (id -> byte offset), the new backing size and the reported counters as parameters, and
   the property is the conjunction of predicates (PoolProps) that must hold in every reachable
   state.  A correct allocator of any policy satisfies it; PoolAlgo.tla (the transcription of
   the real policy) is model-checked against the same predicates, and MemoryPoolTrace.tla
   binds the parameters to the values logged from the real occa::memoryPool.

   Contents: every group (a reserve() and the slices cut from it) owns a sequence of cells
   (one cell = Unit bytes; the replayer logs one checksum per cell); a reservation reads
   cells  rel/Unit .. rel/Unit + ceil(len/Unit) - 1  of its group.                        *)
EXTENDS PoolProps, TLC

VARIABLES live,      \* set of [id, grp, rel, len]      (placement-free part)
          place,     \* id -> byte offset in the backing buffer
          cells,     \* grp -> sequence of cell values (contents)
          psize, reserved, nres, align,   \* what the API reports
          unit       \* bytes per logged cell
pvars == <<live, place, cells, psize, reserved, nres, align, unit>>

Ids == {x.id : x \in live}
ById(i) == CHOOSE x \in live : x.id = i
Placed(L, P) == {[id |-> x.id, grp |-> x.grp, rel |-> x.rel, len |-> x.len, off |-> P[x.id]] : x \in L}
NCells(len, u) == (len + u - 1) \div u
\* what reservation x must read back, given the contents
Reads(x, C, u) == [i \in 1..NCells(x.len, u) |-> C[x.grp][(x.rel \div u) + i]]

PoolInit(al, sz, u) ==
  /\ live = {} /\ place = <<>> /\ cells = <<>>
  /\ psize = sz /\ reserved = 0 /\ nres = 0 /\ align = al /\ unit = u

\* ---- actions: the abstract effect on (live, cells); placement and counters are parameters
Bind(P, sz, rsv, nr, al) ==
  /\ place' = P /\ psize' = sz /\ reserved' = rsv /\ nres' = nr /\ align' = al /\ UNCHANGED unit

Reserve(n, id, w, P, sz, rsv, nr, al) ==
  /\ n >= 1 /\ id \notin Ids
  /\ live' = live \cup {[id |-> id, grp |-> id, rel |-> 0, len |-> n]}
  /\ cells' = [g \in (DOMAIN cells) \cup {id} |-> IF g = id THEN w ELSE cells[g]]
  /\ Bind(P, sz, rsv, nr, al)

SliceOK(r, o, n) == r \in Ids /\ o >= 0 /\ n >= 1 /\ o + n <= ById(r).len
Slice(r, o, n, id, P, sz, rsv, nr, al) ==
  /\ SliceOK(r, o, n) /\ id \notin Ids
  /\ live' = live \cup {[id |-> id, grp |-> ById(r).grp, rel |-> ById(r).rel + o, len |-> n]}
  /\ UNCHANGED cells
  /\ Bind(P, sz, rsv, nr, al)

Release(r, P, sz, rsv, nr, al) ==
  /\ r \in Ids
  /\ live' = live \ {ById(r)}
  /\ UNCHANGED cells
  /\ Bind(P, sz, rsv, nr, al)

Write(r, w, P, sz, rsv, nr, al) ==
  /\ r \in Ids
  /\ LET x == ById(r)  base == x.rel \div unit IN
       cells' = [cells EXCEPT ![x.grp] =
                   [i \in 1..Len(cells[x.grp]) |->
                      IF i > base /\ i <= base + Len(w) THEN w[i - base] ELSE cells[x.grp][i]]]
  /\ UNCHANGED live
  /\ Bind(P, sz, rsv, nr, al)

\* resize / shrinkToFit / setAlignment never change the abstract part
ResizeOK(b) == b >= UnionSize(Placed(live, place), align)
Resize(b, P, sz, rsv, nr, al) ==
  /\ ResizeOK(b) /\ sz >= b
  /\ UNCHANGED <<live, cells>> /\ Bind(P, sz, rsv, nr, al)
SetAlignment(a, P, sz, rsv, nr, al) ==
  /\ a >= 1 /\ al = a
  /\ UNCHANGED <<live, cells>> /\ Bind(P, sz, rsv, nr, al)
\* a refused request changes nothing
Refused == UNCHANGED pvars

\* ---- the property, as state predicates over the abstract state
R == Placed(live, place)
C03Disjoint == Disjoint(R)
C03Inside   == Inside(R, psize)
C03Rigid    == Rigid(R)
C04Reserved == reserved = UnionSize(R, align)
C04Count    == nres = Cardinality(live)
C04SizeGeReserved == psize >= reserved
C04ZeroWhenEmpty  == live = {} => reserved = 0
=============================================================================
