------------------------------- MODULE OJson -------------------------------
(* C25 -- occa::json as a nested dictionary: path writes, path reads, has, remove, set, +=.

   The state is one document `doc` (the C++ object the history operates on).  A value is
       [k  |-> "none" | "null" | "num" | "str" | "obj",
        s  |-> <<token>> for num/str, else <<>>,
        ks |-> keys of an object, in the order of KeySeq (= bytewise order, as std::map),
        c  |-> the members, parallel to ks]
   (one record shape for every kind, so that any two values can be compared, and so that the
   very same encoding can be logged by the trace driver and read back by OJsonTrace).

   The operators below ARE the nested-dictionary model the property refers to:
     * a path write creates the missing intermediate objects; writing THROUGH an existing
       non-object is an error that changes nothing;
     * a read of a missing path is the undefined value NoneV and changes nothing
       (reads are observations here: every read of every path is made after every step);
     * remove deletes one member if the whole path exists;
     * set(key, v) does not split the key (a key may contain '/');
     * a += b merges objects recursively, members of b win.
   One action per public call.  Deliberately NOT part of these histories: the non-const
   operator[] used as a read (it creates the path by design).

   Variant = "intended" is the model; Variant = "shallowMerge" is a wrong merge kept only to show
   that the merge invariants below are not vacuous (the model must reject it).               *)
EXTENDS Integers, Sequences, FiniteSets, TLC, Json, Randomization

CONSTANTS KeySeq,     \* all member names, in bytewise order  (e.g. <<"a", "a/b", "b">>)
          PathKeys,   \* the names usable as path components (no '/' inside)
          MaxPathLen, \* paths: 1..MaxPathLen components
          WriteVals,  \* values written by path writes / set
          MergeVals,  \* right-hand sides of +=  (objects)
          SetKeys,    \* names used by set()   (may contain '/')
          MaxDepth,   \* bound on the nesting depth of doc (state constraint)
          Variant,    \* "intended" | "shallowMerge"
          MaxHist

VARIABLES doc, hist
vars == <<doc, hist>>

E == <<>>
NoneV   == [k |-> "none", s |-> E, ks |-> E, c |-> E]
NullV   == [k |-> "null", s |-> E, ks |-> E, c |-> E]
NumV(t) == [k |-> "num",  s |-> <<t>>, ks |-> E, c |-> E]
StrV(t) == [k |-> "str",  s |-> <<t>>, ks |-> E, c |-> E]
ObjV(ks, c) == [k |-> "obj", s |-> E, ks |-> ks, c |-> c]
EmptyObj == ObjV(E, E)

KIdx(x) == CHOOSE i \in 1..Len(KeySeq) : KeySeq[i] = x
Range(f) == {f[i] : i \in 1..Len(f)}

\* ---- one level of dictionary ------------------------------------------------------
Has1(o, key) == o.k = "obj" /\ key \in Range(o.ks)
Get1(o, key) == IF Has1(o, key) THEN o.c[CHOOSE i \in 1..Len(o.ks) : o.ks[i] = key] ELSE NoneV
Put1(o, key, v) ==            \* o is an object
  IF key \in Range(o.ks)
  THEN ObjV(o.ks, [o.c EXCEPT ![CHOOSE i \in 1..Len(o.ks) : o.ks[i] = key] = v])
  ELSE LET n == Cardinality({i \in 1..Len(o.ks) : KIdx(o.ks[i]) < KIdx(key)})
       IN ObjV(SubSeq(o.ks, 1, n) \o <<key>> \o SubSeq(o.ks, n + 1, Len(o.ks)),
               SubSeq(o.c, 1, n) \o <<v>> \o SubSeq(o.c, n + 1, Len(o.c)))
Del1(o, key) ==
  IF key \notin Range(o.ks) THEN o
  ELSE LET i == CHOOSE i \in 1..Len(o.ks) : o.ks[i] = key
       IN ObjV(SubSeq(o.ks, 1, i - 1) \o SubSeq(o.ks, i + 1, Len(o.ks)),
               SubSeq(o.c, 1, i - 1) \o SubSeq(o.c, i + 1, Len(o.c)))

\* ---- paths --------------------------------------------------------------------------
Paths == UNION {[1..n -> PathKeys] : n \in 1..MaxPathLen}

RECURSIVE Lookup(_, _)
Lookup(v, p) == IF p = E THEN v
                ELSE IF Has1(v, Head(p)) THEN Lookup(Get1(v, Head(p)), Tail(p))
                ELSE NoneV
RECURSIVE HasP(_, _)                       \* json::has: every component must be a member
HasP(v, p) == IF p = E THEN TRUE
              ELSE Has1(v, Head(p)) /\ HasP(Get1(v, Head(p)), Tail(p))
SizeOf(v) == IF v.k = "obj" THEN Len(v.ks) ELSE 0     \* strings: size() is the length; not modelled (0 is not compared)

\* doc[p] = x
RECURSIVE SetP(_, _, _)
SetP(v, p, x) ==
  IF p = E THEN [ok |-> TRUE, v |-> x]
  ELSE IF v.k \notin {"none", "obj"} THEN [ok |-> FALSE, v |-> v]         \* "Path ... is not an object"
  ELSE LET o == IF v.k = "none" THEN EmptyObj ELSE v
           r == SetP(Get1(o, Head(p)), Tail(p), x)
       IN IF r.ok THEN [ok |-> TRUE, v |-> Put1(o, Head(p), r.v)] ELSE [ok |-> FALSE, v |-> v]

\* doc.remove(p)
RECURSIVE RemP(_, _)
RemP(v, p) == IF v.k # "obj" THEN v
              ELSE IF Len(p) = 1 THEN Del1(v, p[1])
              ELSE IF ~Has1(v, Head(p)) THEN v
              ELSE Put1(v, Head(p), RemP(Get1(v, Head(p)), Tail(p)))

\* a += b for objects (a may be undefined): recursive, b wins
RECURSIVE MergeV(_, _), MergeFrom(_, _, _)
MergeFrom(l, r, i) ==
  IF i > Len(r.ks) THEN l
  ELSE LET key == r.ks[i]
           rv  == r.c[i]
           lv  == Get1(l, key)
           nv  == IF Variant = "intended" /\ rv.k = "obj" /\ lv.k = "obj" THEN MergeV(lv, rv) ELSE rv
       IN MergeFrom(Put1(l, key, nv), r, i + 1)
MergeV(l, r) == MergeFrom(IF l.k = "obj" THEN l ELSE EmptyObj, r, 1)

RECURSIVE Depth(_)
MaxOf(S) == IF S = {} THEN 0 ELSE CHOOSE m \in S : \A x \in S : x <= m
Depth(v) == IF v.k # "obj" THEN 0 ELSE 1 + MaxOf({Depth(v.c[i]) : i \in 1..Len(v.c)})

\* ---- observations: every read of every path, in a fixed order -------------------------
RECURSIVE PathLevel(_)
KSeqP == SelectSeq(KeySeq, LAMBDA x : x \in PathKeys)
PathLevel(n) == IF n = 1 THEN [i \in 1..Len(KSeqP) |-> <<KSeqP[i]>>]
                ELSE LET prev == PathLevel(n - 1)
                         m == Len(KSeqP)
                     IN [i \in 1..(Len(prev) * m) |-> Append(prev[((i - 1) \div m) + 1], KSeqP[((i - 1) % m) + 1])]
RECURSIVE PathsUpTo(_)
PathsUpTo(n) == IF n = 1 THEN PathLevel(1) ELSE PathsUpTo(n - 1) \o PathLevel(n)
PathSeq == PathsUpTo(MaxPathLen)
\* compact form of a read: scalars by their token, objects in full
Enc(v) == CASE v.k = "none" -> "~" [] v.k = "null" -> "null" [] v.k \in {"num", "str"} -> v.s[1] [] OTHER -> v
Reads(d) == [i \in 1..Len(PathSeq) |->
               [v |-> Enc(Lookup(d, PathSeq[i])), h |-> IF HasP(d, PathSeq[i]) THEN 1 ELSE 0,
                z |-> SizeOf(Lookup(d, PathSeq[i]))]]

Step(a, p, key, x, ok, d) ==
  [a |-> a, p |-> p, key |-> key, v |-> x, ok |-> ok, doc |-> d, size |-> SizeOf(d), rd |-> Reads(d)]

\* ---- actions ------------------------------------------------------------------------
Init == doc = NoneV /\ hist = E

\* doc[p] = x
SetPath(p, x) ==
  LET r == SetP(doc, p, x) IN
  /\ doc' = r.v
  /\ hist' = Append(hist, Step("setPath", p, "", x, r.ok, doc'))

\* doc.remove(p)
Remove(p) ==
  /\ doc' = RemP(doc, p)
  /\ hist' = Append(hist, Step("remove", p, "", NoneV, TRUE, doc'))

\* t.set(key, x) where t is doc itself (p = <<>>) or an existing member reached by p
SetKey(p, key, x) ==
  /\ p = E \/ HasP(doc, p)
  /\ LET t == Lookup(doc, p)
         n == Put1(IF t.k = "obj" THEN t ELSE EmptyObj, key, x)
     IN doc' = SetP(doc, p, n).v
  /\ hist' = Append(hist, Step("set", p, key, x, TRUE, doc'))

\* doc += m   (p = <<>>)   or   doc[p] += m
Merge(p, m) ==
  LET t  == Lookup(doc, p)
      ok == t.k \in {"none", "obj"} /\ SetP(doc, p, EmptyObj).ok      \* same JSON types; path writable
      r  == SetP(doc, p, MergeV(t, m))
  IN /\ doc' = IF ok THEN r.v ELSE doc
     /\ hist' = Append(hist, Step("merge", p, "", m, ok, doc'))

Next == \/ \E p \in Paths, x \in WriteVals : SetPath(p, x)
        \/ \E p \in Paths : Remove(p)
        \/ \E p \in Paths \cup {E}, key \in SetKeys, x \in WriteVals : SetKey(p, key, x)
        \/ \E p \in Paths \cup {E}, m \in MergeVals : Merge(p, m)

Spec == Init /\ [][Next]_vars

\* ---- the model's own theorems (checked in every reachable document) ---------------------
RECURSIVE WellFormed(_)
WellFormed(v) ==
  /\ v.k \in {"null", "num", "str", "obj"}
  /\ Len(v.ks) = Len(v.c)
  /\ \A i \in 1..(Len(v.ks) - 1) : KIdx(v.ks[i]) < KIdx(v.ks[i + 1])
  /\ \A i \in 1..Len(v.c) : WellFormed(v.c[i])
TypeOK == doc = NoneV \/ WellFormed(doc)

IsPrefix(p, q) == Len(p) <= Len(q) /\ SubSeq(q, 1, Len(p)) = p
Related(p, q) == IsPrefix(p, q) \/ IsPrefix(q, p)

HasIffDefined == \A p \in Paths : HasP(doc, p) <=> Lookup(doc, p) # NoneV

\* a successful write is read back, creates exactly the intermediates, and touches nothing else
WriteThenRead ==
  \A p \in Paths, x \in WriteVals :
    LET r == SetP(doc, p, x) IN
      IF r.ok THEN /\ Lookup(r.v, p) = x
                   /\ \A q \in Paths : ~Related(p, q) => Lookup(r.v, q) = Lookup(doc, q)
                   /\ \A q \in Paths : IsPrefix(q, p) /\ q # p => Lookup(r.v, q).k = "obj"
      ELSE /\ r.v = doc
           /\ \E q \in Paths : IsPrefix(q, p) /\ q # p /\ Lookup(doc, q).k \in {"null", "num", "str"}
RemoveThenRead ==
  \A p \in Paths :
    LET d == RemP(doc, p) IN
      /\ Lookup(d, p) = NoneV
      /\ \A q \in Paths : ~Related(p, q) => Lookup(d, q) = Lookup(doc, q)
      /\ \A q \in Paths : IsPrefix(q, p) /\ q # p => Lookup(d, q).k = Lookup(doc, q).k
\* merge: whatever the right-hand side defines as a non-object wins; what it does not mention
\* (no prefix of the path is a non-object of the right-hand side) is kept
ScalarOnTheWay(m, q) == \E t \in Paths : IsPrefix(t, q) /\ Lookup(m, t).k \in {"null", "num", "str"}
MergeRightWins ==
  \A m \in MergeVals :
    LET d == MergeV(doc, m) IN
    \A q \in Paths :
      LET rq == Lookup(m, q) IN
        /\ rq.k \in {"null", "num", "str"} => Lookup(d, q) = rq
        /\ rq.k = "obj" => Lookup(d, q).k = "obj"
        /\ (rq = NoneV /\ ~ScalarOnTheWay(m, q)) => Lookup(d, q) = Lookup(doc, q)

View == doc
DepthBound == Depth(doc) <= MaxDepth
Emit == Len(hist) < MaxHist \/ (PrintT(<<"B", ToJson(hist)>>) /\ FALSE)
\* simulation runs: a behaviour is printed once, by a final stuttering step (with the constraint
\* above TLC would print every candidate successor of the last state, and stop at the first trace)
\* one random operation per step (enumerating every successor of every state is too slow here)
RandStep ==
  \E n \in RandomSubset(1, 1..6), p \in RandomSubset(1, Paths), pe \in RandomSubset(1, Paths \cup {E}),
     x \in RandomSubset(1, WriteVals), key \in RandomSubset(1, SetKeys), m \in RandomSubset(1, MergeVals) :
    IF n <= 2 THEN SetPath(p, x)
    ELSE IF n = 3 THEN Remove(p)
    ELSE IF n = 4 THEN SetKey(IF HasP(doc, pe) THEN pe ELSE E, key, x)
    ELSE Merge(pe, m)
SimNext == \/ Len(hist) < MaxHist /\ RandStep
           \/ Len(hist) = MaxHist /\ PrintT(<<"B", ToJson(hist)>>) /\ UNCHANGED vars
SimSpec == Init /\ [][SimNext]_vars
=============================================================================
