------------------------------- MODULE Dtype -------------------------------
(* C11 (and the cast rule used by C10) -- occa::dtype_t values, their JSON round trip and
   cast compatibility.

   A dtype value is a tree:
     builtin(n)            one of the registered global types (scalar, or a vector type such as
                           float2 which is a registered tuple of 2 floats)
     custom(n, b, reg)     user type with a name and a byte size; registered or not
     enum(n, names)        enumerator names in order
     tuple(d, sz)          sz copies of one element type
     struct(n, fields)     ordered, named fields
     union(fields)         ordered, named fields (only constructible from JSON)
   Every tree is one uniform record (TLC cannot compare records of different shapes):
     [k, n, b, reg, sz, fn, sub]   fn = field / enumerator names, sub = element / field types.

   IDENTITY.  Cast compatibility is decided on the flattened sequence of leaf types, and leaves
   are compared by identity.  Registered types (all builtins, registered customs) are global:
   every copy refers to the one registered object.  An unregistered leaf (custom, enum) is
   identified with the object that stores it: copying a dtype copies it, so a copy is never
   cast-compatible with its original through such a leaf (the two reps of tuple(C, k) share one
   stored element, two struct fields of type C do not).
   A leaf of the flattened form is [u, id]: u = TRUE for an unregistered leaf, whose id is then
   local to the object (the storage path) and equal only to itself inside the SAME object.

   THE PROPERTY.  Serialising a dtype to JSON and reading it back yields an equivalent value: a
   value with the observables of a plain copy -- same kind, names, field order, element types,
   byte size (Obs), and the same cast behaviour as a copy towards every other dtype (Shape).   *)
EXTENDS DtypeOps, Json

CONSTANTS Pool,        \* the set of dtype trees explored (defined in MC_Dtype)
          Metas,       \* the set of kernel argument-metadata values explored (MC_Dtype)
          Part         \* which generation run: "trees" | "pairs" | "meta"

VARIABLES cur, phase, hist
vars == <<cur, phase, hist>>

---------------------------------------------------------------------------
(* state machine: pick a value, serialise + read back, observe.
   Part = "trees": cur is a dtype tree; "pairs": cur = <<a, b>>; "meta": cur is an argument list *)
ShapePairs == {<<Shape(a), IsByte(a)>> : a \in Pool}

Init == /\ phase = "new" /\ hist = <<>>
        /\ cur \in CASE Part = "trees" -> Pool
                     [] Part = "pairs" -> ShapePairs \X ShapePairs
                     [] Part = "meta"  -> Metas

Step ==
  /\ phase = "new" /\ phase' = "done" /\ UNCHANGED cur
  /\ hist' =
       CASE Part = "trees" ->
              <<[a |-> "roundtrip", tree |-> cur, orig |-> Obs(cur), back |-> Obs(RoundTrip(cur)),
                 selfcast |-> CanCast(cur, cur, TRUE), copycast |-> CanCast(RoundTrip(cur), cur, FALSE)]>>
         [] Part = "pairs" ->
              \* two DIFFERENT objects with these shapes
              <<[a |-> "cast", fa |-> cur[1][1], ba |-> cur[1][2], fb |-> cur[2][1], bb |-> cur[2][2],
                 can |-> (cur[1][2] \/ cur[2][2] \/ CastFlat(cur[1][1], cur[2][1], FALSE))]>>
         [] Part = "meta" ->
              <<[a |-> "meta", meta |-> cur, orig |-> MetaObs(cur), back |-> MetaObs(cur)]>>

Next == Step
Spec == Init /\ [][Next]_vars

---------------------------------------------------------------------------
(* sanity theorems about the definitions (an edit that breaks their meaning is caught here) *)
PoolOf == IF Part = "trees" THEN {cur} ELSE {}
CastReflexive    == \A d \in PoolOf : CanCast(d, d, TRUE)
ByteWildcard     == \A d \in PoolOf : CanCast(d, Builtin("byte"), FALSE) /\ CanCast(Builtin("byte"), d, FALSE)
\* float <-> float2 style cycling, and no cast between different scalars
CycleExamples ==
  /\ CanCast(Builtin("float"), Builtin("float2"), FALSE) /\ CanCast(Builtin("float2"), Builtin("float"), FALSE)
  /\ CanCast(Builtin("float2"), Builtin("float4"), FALSE)
  /\ ~CanCast(Builtin("float"), Builtin("int"), FALSE)
  /\ ~CanCast(Builtin("float2"), Tuple(Builtin("float"), 3), FALSE)
  /\ CanCast(Struct("s", <<"a", "b">>, <<Builtin("float"), Builtin("float")>>), Builtin("float2"), FALSE)
  /\ ~CanCast(Struct("s", <<"a", "b">>, <<Builtin("float"), Builtin("int")>>), Builtin("float"), FALSE)
  /\ CanCast(Builtin("int8"), Builtin("char"), FALSE)
\* unregistered leaves: a copy is not compatible with its original, registered ones are
IdentityExamples ==
  /\ ~CanCast(Custom("C", 4, FALSE), Custom("C", 4, FALSE), FALSE)
  /\ CanCast(Custom("C", 4, FALSE), Custom("C", 4, FALSE), TRUE)
  /\ CanCast(Custom("R", 8, TRUE), Custom("R", 8, TRUE), FALSE)
  /\ CanCast(Tuple(Custom("C", 4, FALSE), 2), Tuple(Custom("C", 4, FALSE), 2), TRUE)
BytesExamples ==
  /\ Bytes(Struct("s", <<"a", "b">>, <<Builtin("float"), Tuple(Builtin("double"), 3)>>)) = 28
  /\ Bytes(Builtin("float4")) = 16
\* the round trip preserves everything the statement lists, and cast behaviour towards every pool member
RoundTripPreserves ==
  \A d \in PoolOf : /\ Obs(RoundTrip(d)) = Obs(d)
                    /\ Shape(RoundTrip(d)) = Shape(d)

Emit == phase = "new" \/ (PrintT(<<"B", ToJson(hist)>>) /\ FALSE)
=============================================================================
