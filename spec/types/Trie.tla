------------------------------- MODULE Trie -------------------------------
(* C28 -- occa::trie<TM>: a map from non-empty strings to values with "longest stored
   prefix" look-up, in two interchangeable representations (node tree / frozen arrays).

   State is the abstract dictionary plus the two representation flags the public API
   exposes (isFrozen, autoFreeze).  One action per public call.  The observation after a
   step is the answer to EVERY query in Queries; the property is that the answers depend
   on `stored` only -- never on `frozen`.                                                *)
EXTENDS Naturals, Sequences, FiniteSets, TLC, Json

CONSTANTS AlphaSeq,   \* characters, as a sequence (fixes the canonical query order)
          MaxKeyLen,  \* stored keys: length 1..MaxKeyLen
          MaxQueryLen,\* queries: length 0..MaxQueryLen
          Values,     \* values
          KeyFilter(_),  \* subset selector for keys that may be added (bounds branching)
          MaxHist     \* bound on the history (generation runs)

VARIABLES stored,     \* function: subset of Keys -> Values
          frozen,     \* representation in use (as the code maintains it)
          autoFreeze, \* public field
          hist        \* history variable: sequence of step records (generation / replay)

vars == <<stored, frozen, autoFreeze, hist>>

Alpha == {AlphaSeq[i] : i \in 1..Len(AlphaSeq)}
Strs(lo, hi) == UNION {[1..m -> Alpha] : m \in lo..hi}
AllKeys == Strs(1, MaxKeyLen)
Keys    == {k \in AllKeys : KeyFilter(k)}
Queries == Strs(0, MaxQueryLen)

IsPrefixOf(p, q) == Len(p) <= Len(q) /\ SubSeq(q, 1, Len(p)) = p

NoVal == 0
\* longest stored key that is a prefix of q, with its latest value
Longest(st, q) ==
  LET c == {k \in DOMAIN st : IsPrefixOf(k, q)} IN
  IF c = {} THEN [len |-> 0, val |-> NoVal]
  ELSE LET k == CHOOSE k \in c : \A k2 \in c : Len(k2) <= Len(k)
       IN [len |-> Len(k), val |-> st[k]]

\* canonical enumeration of the queries: by length, then in AlphaSeq order (the replayer
\* enumerates its queries the same way, so an observation is just a sequence of numbers)
RECURSIVE Level(_)
Level(l) == IF l = 0 THEN << <<>> >>
            ELSE LET prev == Level(l - 1)
                     n == Len(AlphaSeq)
                 IN [i \in 1..(Len(prev) * n) |->
                       Append(prev[((i - 1) \div n) + 1], AlphaSeq[((i - 1) % n) + 1])]
RECURSIVE LevelsUpTo(_)
LevelsUpTo(l) == IF l = 0 THEN Level(0) ELSE LevelsUpTo(l - 1) \o Level(l)
QuerySeq == LevelsUpTo(MaxQueryLen)
Code(r) == r.len * 100 + r.val
Obs(st) == [i \in 1..Len(QuerySeq) |-> Code(Longest(st, QuerySeq[i]))]
Has(st, q) == q \in DOMAIN st
Size(st) == Cardinality(DOMAIN st)

\* the history records only the calls; the predicted observations are attached when a behaviour is
\* printed (Annotate), so that generating a successor does not cost a full observation
Step(a, k, v, st) == [a |-> a, k |-> k, v |-> v]
ApplyStep(st, s) == CASE s.a = "add"    -> [x \in (DOMAIN st) \cup {s.k} |-> IF x = s.k THEN s.v ELSE st[x]]
                      [] s.a = "remove" -> [x \in (DOMAIN st) \ {s.k} |-> st[x]]
                      [] s.a = "clear"  -> <<>>
                      [] OTHER          -> st
RECURSIVE Ann(_, _, _)
Ann(h, i, st) == IF i > Len(h) THEN <<>>
                 ELSE LET st2 == ApplyStep(st, h[i]) IN
                      << [a |-> h[i].a, k |-> h[i].k, v |-> h[i].v, size |-> Size(st2), obs |-> Obs(st2)] >>
                      \o Ann(h, i + 1, st2)
Annotate(h) == Ann(h, 1, <<>>)

TypeOK == /\ DOMAIN stored \subseteq Keys
          /\ \A k \in DOMAIN stored : stored[k] \in Values
          /\ frozen \in BOOLEAN /\ autoFreeze \in BOOLEAN

Init == /\ stored = <<>>          \* empty function
        /\ frozen = FALSE
        /\ autoFreeze = TRUE
        /\ hist = <<>>

Extend(st, k, v) == [x \in (DOMAIN st) \cup {k} |-> IF x = k THEN v ELSE st[x]]
Restrict(st, k)  == [x \in (DOMAIN st) \ {k} |-> st[x]]

Add(k, v) ==
  /\ stored' = Extend(stored, k, v)
  /\ frozen' = IF k \in DOMAIN stored THEN frozen ELSE autoFreeze
  /\ UNCHANGED autoFreeze
  /\ hist' = Append(hist, Step("add", k, v, stored'))

Remove(k) ==
  /\ stored' = Restrict(stored, k)
  /\ frozen' = IF k \in DOMAIN stored THEN autoFreeze ELSE frozen
  /\ UNCHANGED autoFreeze
  /\ hist' = Append(hist, Step("remove", k, 0, stored'))

Freeze ==
  /\ frozen' = TRUE /\ UNCHANGED <<stored, autoFreeze>>
  /\ hist' = Append(hist, Step("freeze", <<>>, 0, stored))

Defrost ==
  /\ frozen' = FALSE /\ UNCHANGED <<stored, autoFreeze>>
  /\ hist' = Append(hist, Step("defrost", <<>>, 0, stored))

SetAuto(b) ==
  /\ autoFreeze # b
  /\ autoFreeze' = b /\ UNCHANGED <<stored, frozen>>
  /\ hist' = Append(hist, Step(IF b THEN "autoOn" ELSE "autoOff", <<>>, 0, stored))

Clear ==
  /\ stored' = <<>> /\ frozen' = FALSE /\ UNCHANGED autoFreeze
  /\ hist' = Append(hist, Step("clear", <<>>, 0, stored'))

Next == \/ \E k \in Keys, v \in Values : Add(k, v)
        \/ \E k \in Keys : Remove(k)
        \/ Freeze \/ Defrost \/ Clear
        \/ \E b \in BOOLEAN : SetAuto(b)

Spec == Init /\ [][Next]_vars

---------------------------------------------------------------------------
(* Properties of the abstract definition (sanity theorems: an edit of the spec that breaks
   the meaning of "longest stored prefix" is caught here).                               *)
LongestIsStoredPrefix ==
  \A q \in Queries :
    LET r == Longest(stored, q) IN
      /\ r.len = 0 => ~\E k \in DOMAIN stored : IsPrefixOf(k, q)
      /\ r.len > 0 => /\ SubSeq(q, 1, r.len) \in DOMAIN stored
                      /\ stored[SubSeq(q, 1, r.len)] = r.val
                      /\ \A k \in DOMAIN stored : IsPrefixOf(k, q) => Len(k) <= r.len
\* the answers are a function of `stored` only: two states that differ in the
\* representation flags give equal observations (trivially true of Obs; kept as the
\* statement of the property on the model)
GetIffStored == \A q \in Queries : (Longest(stored, q).len = Len(q) /\ Len(q) > 0) <=> Has(stored, q)

\* design-run view: hide the history
View == <<stored, frozen, autoFreeze>>

\* generation: print every behaviour of length MaxHist once, and cut there
Emit == Len(hist) < MaxHist \/ (PrintT(<<"B", ToJson(Annotate(hist))>>) /\ FALSE)
HistBound == Len(hist) <= MaxHist
\* simulation: exactly one printed behaviour per simulated trace (a CONSTRAINT in -simulate mode is
\* evaluated on every candidate successor of the last state and then ends the whole run in a deadlock)
SimNext == \/ (Len(hist) < MaxHist /\ Next)
           \/ (Len(hist) = MaxHist /\ PrintT(<<"B", ToJson(Annotate(hist))>>) /\ UNCHANGED vars)
SimSpec == Init /\ [][SimNext]_vars
QuerySeqOK == {QuerySeq[i] : i \in 1..Len(QuerySeq)} = Queries /\ Len(QuerySeq) = Cardinality(Queries)
=============================================================================
