------------------------------- MODULE CApi -------------------------------
(* C29 -- values and handles of the OCCA C API (occa/c/types.h, json.h, kernel.h).

   A C value is an occaType: a typed scalar (bool, int8 .. uint64, float, double), a string, null,
   or a handle.  JSON documents live behind occaJson handles: an OWNER handle (occaCreateJson,
   needsFree) owns a document; occaJsonObjectGet / occaJsonArrayGet hand out REFERENCE handles that
   designate a location inside a document (not a copy, by design); scalars that are returned as
   they were passed (defaults, null) are VALUE handles.

   Documents are trees [t, v, kids]: t in {"none","null","bool","num:<ctype>","string","obj","arr"},
   v the token for scalars, kids a sequence of [k, val] (k = key, or "" inside arrays).
   Tokens are abstract (MIN, M1, ZERO, ONE, MAX, ...); the harness concretises them per C type.

   One action per C call.  The property:
     * a scalar / string / null stored with ObjectSet / ArrayPush / ArrayInsert and read back through
       the handle obtained from ObjectGet / ArrayGet (occaJsonIs*, occaJsonGet*(.., same C type)) is
       the same value of the same C type; a default passed to ObjectGet comes back unchanged;
       the occaType constructors carry tag, size and value; scalars handed to a kernel arrive
       unchanged (Echo);
     * every handle stays usable until occaFree: owner handles until they are freed, reference
       handles as long as their owner lives and the location they designate has not been removed
       (ArrayPop / ArrayClear / ArrayInsert shift or destroy locations; ObjectSet over a container
       destroys what was below it).  ArrayPush and ObjectSet of other keys do NOT invalidate.
   The spec never uses a dead handle ("no use after free"); occaFree of an owner handle twice through
   the same struct is allowed and does nothing.                                                    *)
EXTENDS Naturals, Sequences, FiniteSets, TLC, Json

CONSTANTS Vals,        \* scalar values [t, v] that may be stored / passed
          Dflts,       \* scalar values used as the default of ObjectGet
          Keys,        \* object keys
          PathKeys,    \* PATH keys: sequences of plain keys, passed to the C API joined by '/' ("a/b/c")
          MaxHandles, MaxLen,   \* bounds: handles ever created, array length
          Ops,         \* enabled action names (subset; lets configs focus)
          EchoToks,    \* tokens for the kernel echo (empty: no echo)
          PushKeepsRefs,   \* TRUE: the intended behaviour (ArrayPush leaves element handles valid);
                           \* FALSE: the NAMED DEVIATION of the implementation (the elements live in a
                           \* std::vector, a push may move them: element handles of that array end)
          MaxHist

VARIABLES docs,        \* sequence of documents (index = root id); dead ones stay, flagged in `gone`
          gone,        \* set of freed roots
          handles,     \* sequence of [kind: "owner"|"ref"|"value", root, path, val, alive]
          hist
vars == <<docs, gone, handles, hist>>

Sc(t, v) == [t |-> t, v |-> v, kids |-> <<>>]
None == Sc("none", "")
Null == Sc("null", "")
IsContainer(x) == x.t \in {"obj", "arr"}
IdxStr == <<"0", "1", "2", "3", "4", "5">>      \* array positions as path elements

\* kids helpers
KeyPos(kids, k) == IF \E i \in 1..Len(kids) : kids[i].k = k
                   THEN CHOOSE i \in 1..Len(kids) : kids[i].k = k ELSE 0
PosOf(x, step) == IF x.t = "arr" THEN (CHOOSE i \in 1..Len(IdxStr) : IdxStr[i] = step) ELSE KeyPos(x.kids, step)

RECURSIVE At(_, _)
At(x, path) == IF path = <<>> THEN x
               ELSE LET i == PosOf(x, Head(path)) IN At(x.kids[i].val, Tail(path))
RECURSIVE Exists(_, _)
Exists(x, path) == \/ path = <<>>
                   \/ /\ IsContainer(x)
                      /\ IF x.t = "arr" THEN \E i \in 1..Len(x.kids) : IdxStr[i] = Head(path)
                                        ELSE KeyPos(x.kids, Head(path)) > 0
                      /\ Exists(x.kids[PosOf(x, Head(path))].val, Tail(path))
RECURSIVE PutAt(_, _, _)
PutAt(x, path, new) ==
  IF path = <<>> THEN new
  ELSE LET i == PosOf(x, Head(path)) IN
       [x EXCEPT !.kids[i].val = PutAt(x.kids[i].val, Tail(path), new)]

Pfx(p, q) == Len(p) <= Len(q) /\ SubSeq(q, 1, Len(p)) = p

Live(h) == h \in 1..Len(handles) /\ handles[h].alive
JsonHandle(h) == Live(h) /\ handles[h].kind \in {"owner", "ref"}
ValueOf(h) == IF handles[h].kind = "value" THEN handles[h].val ELSE At(docs[handles[h].root], handles[h].path)

(* A stored number is its mathematical VALUE together with its C type: [t, v] names the value "token v of
   type t" (MIN = least value of t, M1 = -1, ZERO, ONE, HALF = 2^(w-1) for an unsigned t of width w,
   MAX = greatest value of t; floats: MIN/MAX = -/+ largest finite, TINY = smallest normal, FRAC = 0.1).
   Reading it back must yield that value whatever type is asked for, as long as the value is representable
   in the type asked for; the text form of the enclosing document must show that value.  Representability
   is decided here, from the widths, so these reads are predictions of the spec.                       *)
IntWidth(t) == CASE t \in {"i8", "u8"} -> 8 [] t \in {"i16", "u16"} -> 16 [] t \in {"i32", "u32"} -> 32 [] t \in {"i64", "u64"} -> 64
IsSignedInt(t) == t \in {"i8", "i16", "i32", "i64"}
IsUnsignedInt(t) == t \in {"u8", "u16", "u32", "u64"}
IsFloat(t) == t \in {"f32", "f64"}
IsNumberType(t) == IsSignedInt(t) \/ IsUnsignedInt(t) \/ IsFloat(t)
\* is the value named by [t, v] representable (exactly) in int64 / uint64 / double ?
RepI64(t, v) ==
  CASE IsSignedInt(t)   -> TRUE
    [] IsUnsignedInt(t) -> v \in {"ZERO", "ONE"} \/ IntWidth(t) < 64          \* 2^63 and 2^64-1 are not
    [] IsFloat(t)       -> v \in {"ZERO", "ONE", "M1"}
    [] OTHER -> FALSE
RepU64(t, v) ==
  CASE IsSignedInt(t)   -> v \in {"ZERO", "ONE", "MAX"}                       \* negative values are not
    [] IsUnsignedInt(t) -> TRUE
    [] IsFloat(t)       -> v \in {"ZERO", "ONE"}
    [] OTHER -> FALSE
RepF64(t, v) ==
  CASE IsSignedInt(t)   -> v # "MAX" \/ IntWidth(t) - 1 <= 53                 \* 2^63 - 1 is not a double; -2^63 is
    [] IsUnsignedInt(t) -> v # "MAX" \/ IntWidth(t) <= 53                     \* 2^64 - 1 is not a double; 2^63 is
    [] IsFloat(t)       -> TRUE
    [] OTHER -> FALSE
ReadsOf(x) == IF IsNumberType(x.t) THEN [i64 |-> RepI64(x.t, x.v), u64 |-> RepU64(x.t, x.v), f64 |-> RepF64(x.t, x.v)]
              ELSE [i64 |-> FALSE, u64 |-> FALSE, f64 |-> FALSE]

\* what the C API reports about handle h (the predicted observation): tag, the value (token) read as the
\* stored type, which wider reads must yield the same value (rd), and the whole value tree at the handle
\* (val) -- what occaJsonDump of the handle must show
ObsOf(h) ==
  LET x == ValueOf(h) IN
  IF handles[h].kind = "value" THEN [h |-> h, tag |-> x.t, v |-> x.v, n |-> 0, rd |-> ReadsOf(None), val |-> x]
  ELSE [h |-> h, tag |-> "json:" \o x.t, v |-> x.v, n |-> Len(x.kids), rd |-> ReadsOf(x), val |-> x]
AllObs == LET L == {h \in 1..Len(handles) : handles[h].alive} IN
          [i \in 1..Len(handles) |-> IF i \in L THEN ObsOf(i) ELSE [h |-> i, tag |-> "dead", v |-> "", n |-> 0, rd |-> ReadsOf(None), val |-> None]]

Record(step) == hist' = Append(hist, step)

---------------------------------------------------------------------------
Init == docs = <<>> /\ gone = {} /\ handles = <<>> /\ hist = <<>>

Room == Len(handles) < MaxHandles

NewHandle(rec) == handles' = Append(handles, rec)
Owner(root) == [kind |-> "owner", root |-> root, path |-> <<>>, val |-> None, alive |-> TRUE]
Ref(root, path) == [kind |-> "ref", root |-> root, path |-> path, val |-> None, alive |-> TRUE]
Value(x) == [kind |-> "value", root |-> 0, path |-> <<>>, val |-> x, alive |-> TRUE]

\* occaCreateJson
Create ==
  /\ "Create" \in Ops /\ Room
  /\ docs' = Append(docs, None)
  /\ NewHandle(Owner(Len(docs) + 1))
  /\ UNCHANGED gone
  /\ hist' = Append(hist, [a |-> "create", h |-> 0, k |-> "", x |-> None, src |-> 0, i |-> 0,
                           obs |-> AllObs'])

\* values that can be stored: a scalar, or (a copy of) the document behind another json handle
Storable == Vals \cup {[t |-> "copyof", v |-> IdxStr[h], kids |-> <<>>] : h \in {g \in 1..Len(handles) : g <= Len(IdxStr) /\ JsonHandle(g)}}
SrcOf(x) == IF x.t = "copyof" THEN (CHOOSE h \in 1..Len(IdxStr) : IdxStr[h] = x.v) ELSE 0
Stored(x) == IF x.t = "copyof" THEN ValueOf(SrcOf(x)) ELSE x
Depth(x) == IF ~IsContainer(x) THEN 0
            ELSE IF \E i \in 1..Len(x.kids) : IsContainer(x.kids[i].val) THEN 2 ELSE 1

\* reference handles whose location is at or below `path` of `root` die, except (keep) the one exactly at path
KillBelow(root, path, keepExact) ==
  [i \in 1..Len(handles) |->
     IF handles[i].kind = "ref" /\ handles[i].root = root /\ Pfx(path, handles[i].path)
        /\ ~(keepExact /\ handles[i].path = path)
     THEN [handles[i] EXCEPT !.alive = FALSE] ELSE handles[i]]

\* occaJsonObjectSet(h, k, x)
ObjSet(h, k, x) ==
  /\ "ObjSet" \in Ops /\ JsonHandle(h)
  /\ LET cur == ValueOf(h)  root == handles[h].root  p == handles[h].path  new == Stored(x) IN
     /\ cur.t \in {"none", "obj"}
     /\ new.t # "none"                                   \* an undefined json is not a value to store
     /\ Len(p) + 1 + Depth(new) <= 2                     \* depth bound
     /\ LET pos == KeyPos(cur.kids, k)
            kids2 == IF pos = 0 THEN Append(cur.kids, [k |-> k, val |-> new])
                     ELSE [cur.kids EXCEPT ![pos].val = new]
        IN docs' = [docs EXCEPT ![root] = PutAt(docs[root], p, [t |-> "obj", v |-> "", kids |-> kids2])]
     \* what was below the replaced value is destroyed; a handle to the slot itself now sees the new value
     /\ handles' = KillBelow(root, p \o <<k>>, TRUE)
  /\ UNCHANGED gone
  /\ hist' = Append(hist, [a |-> "oset", h |-> h, k |-> k, x |-> Stored(x), src |-> SrcOf(x), i |-> 0, obs |-> AllObs'])

\* occaJsonObjectGet(h, k, default)
ObjGet(h, k, dflt) ==
  /\ "ObjGet" \in Ops /\ JsonHandle(h) /\ Room
  /\ LET cur == ValueOf(h) IN
     /\ cur.t = "obj"
     /\ LET pos == KeyPos(cur.kids, k) IN
        NewHandle(IF pos = 0 THEN Value(dflt)
                  ELSE IF cur.kids[pos].val.t = "null" THEN Value(Null)        \* a null entry comes back as occaNull
                  ELSE Ref(handles[h].root, handles[h].path \o <<k>>))
  /\ UNCHANGED <<docs, gone>>
  /\ hist' = Append(hist, [a |-> "oget", h |-> h, k |-> k, x |-> dflt, src |-> 0, i |-> 0, obs |-> AllObs'])

\* ---- path keys: occaJsonObjectSet / ObjectGet / ObjectHas treat a key containing '/' as a path into nested
\* objects (nested-dictionary semantics): set creates the intermediate objects; has and get agree; get of a
\* path that does not resolve (missing member, or a scalar on the way) returns the default, with its type
RECURSIVE PathStr(_)
PathStr(pk) == IF Len(pk) = 1 THEN pk[1] ELSE pk[1] \o "/" \o PathStr(Tail(pk))
KidsOf(x) == IF x.t = "obj" THEN x.kids ELSE <<>>
RECURSIVE SetPath(_, _, _)
SetPath(x, pk, new) ==
  IF pk = <<>> THEN new
  ELSE LET kids == KidsOf(x)
           pos == KeyPos(kids, Head(pk))
           nc == SetPath(IF pos = 0 THEN None ELSE kids[pos].val, Tail(pk), new)
       IN [t |-> "obj", v |-> "", kids |-> IF pos = 0 THEN Append(kids, [k |-> Head(pk), val |-> nc])
                                                  ELSE [kids EXCEPT ![pos].val = nc]]
\* the walk of a set only passes through objects (or creates them)
RECURSIVE Settable(_, _)
Settable(x, pk) == IF pk = <<>> THEN TRUE
                   ELSE /\ x.t \in {"none", "obj"}
                        /\ LET pos == KeyPos(KidsOf(x), Head(pk)) IN
                             IF pos = 0 THEN TRUE ELSE Settable(x.kids[pos].val, Tail(pk))
RECURSIVE Resolves(_, _)
Resolves(x, pk) == IF pk = <<>> THEN TRUE
                   ELSE IF x.t = "obj" /\ KeyPos(x.kids, Head(pk)) > 0
                        THEN Resolves(x.kids[KeyPos(x.kids, Head(pk))].val, Tail(pk))
                        ELSE FALSE

PathSet(h, pk, x) ==
  /\ "PathSet" \in Ops /\ JsonHandle(h)
  /\ LET cur == ValueOf(h)  root == handles[h].root  p == handles[h].path  new == Stored(x) IN
     /\ cur.t \in {"none", "obj"} /\ new.t # "none" /\ Settable(cur, pk)
     /\ Len(p) + Len(pk) + Depth(new) <= 3
     /\ docs' = [docs EXCEPT ![root] = PutAt(docs[root], p, SetPath(cur, pk, new))]
     /\ handles' = KillBelow(root, p \o pk, TRUE)
  /\ UNCHANGED gone
  /\ hist' = Append(hist, [a |-> "pset", h |-> h, k |-> PathStr(pk), x |-> Stored(x), src |-> SrcOf(x), i |-> 0, obs |-> AllObs'])

PathGet(h, pk, dflt) ==
  /\ "PathGet" \in Ops /\ JsonHandle(h) /\ Room
  /\ LET cur == ValueOf(h) IN
     /\ cur.t = "obj"
     /\ NewHandle(IF ~Resolves(cur, pk) THEN Value(dflt)
                  ELSE IF At(cur, pk).t = "null" THEN Value(Null)
                  ELSE Ref(handles[h].root, handles[h].path \o pk))
  /\ UNCHANGED <<docs, gone>>
  /\ hist' = Append(hist, [a |-> "pget", h |-> h, k |-> PathStr(pk), x |-> dflt, src |-> 0, i |-> 0, obs |-> AllObs'])

PathHas(h, pk) ==
  /\ "PathHas" \in Ops /\ JsonHandle(h)
  /\ ValueOf(h).t = "obj"
  /\ UNCHANGED <<docs, gone, handles>>
  /\ hist' = Append(hist, [a |-> "phas", h |-> h, k |-> PathStr(pk), x |-> None, src |-> 0, i |-> 0, obs |-> AllObs,
                           res |-> Resolves(ValueOf(h), pk)])

\* occaJsonArrayPush(h, x)
ArrPush(h, x) ==
  /\ "ArrPush" \in Ops /\ JsonHandle(h)
  /\ LET cur == ValueOf(h)  root == handles[h].root  p == handles[h].path  new == Stored(x) IN
     /\ cur.t \in {"none", "arr"} /\ Len(cur.kids) < MaxLen
     /\ new.t # "none"
     /\ Len(p) + 1 + Depth(new) <= 2
     /\ docs' = [docs EXCEPT ![root] = PutAt(docs[root], p, [t |-> "arr", v |-> "", kids |-> Append(cur.kids, [k |-> "", val |-> new])])]
  /\ UNCHANGED gone
  /\ handles' = IF PushKeepsRefs THEN handles            \* existing element handles stay valid
                ELSE [j \in 1..Len(handles) |->
                        IF handles[j].kind = "ref" /\ handles[j].root = handles[h].root
                           /\ Pfx(handles[h].path, handles[j].path) /\ handles[j].path # handles[h].path
                        THEN [handles[j] EXCEPT !.alive = FALSE] ELSE handles[j]]
  /\ hist' = Append(hist, [a |-> "apush", h |-> h, k |-> "", x |-> Stored(x), src |-> SrcOf(x), i |-> 0, obs |-> AllObs'])

\* occaJsonArrayGet(h, i)   (i 0-based)
ArrGet(h, i) ==
  /\ "ArrGet" \in Ops /\ JsonHandle(h) /\ Room
  /\ LET cur == ValueOf(h) IN
     /\ cur.t = "arr" /\ i < Len(cur.kids)
     /\ NewHandle(IF cur.kids[i + 1].val.t = "null" THEN Value(Null)
                  ELSE Ref(handles[h].root, handles[h].path \o <<IdxStr[i + 1]>>))
  /\ UNCHANGED <<docs, gone>>
  /\ hist' = Append(hist, [a |-> "aget", h |-> h, k |-> "", x |-> None, src |-> 0, i |-> i, obs |-> AllObs'])

\* occaJsonArrayInsert(h, i, x) / occaJsonArrayPop(h) / occaJsonArrayClear(h): locations move or vanish
ArrChange(h, op, i, x) ==
  /\ op \in Ops /\ JsonHandle(h)
  /\ LET cur == ValueOf(h)  root == handles[h].root  p == handles[h].path  new == Stored(x) IN
     /\ cur.t = "arr"
     /\ CASE op = "ArrPop"    -> Len(cur.kids) > 0 /\ i = 0 /\ x = Null
          [] op = "ArrClear"  -> i = 0 /\ x = Null
          [] op = "ArrInsert" -> i < Len(cur.kids) /\ Len(cur.kids) < MaxLen /\ new.t # "none" /\ Len(p) + 1 + Depth(new) <= 2
     /\ LET kids2 == CASE op = "ArrPop"    -> SubSeq(cur.kids, 1, Len(cur.kids) - 1)
                       [] op = "ArrClear"  -> <<>>
                       [] op = "ArrInsert" -> SubSeq(cur.kids, 1, i) \o <<[k |-> "", val |-> new]>> \o SubSeq(cur.kids, i + 1, Len(cur.kids))
        IN docs' = [docs EXCEPT ![root] = PutAt(docs[root], p, [t |-> "arr", v |-> "", kids |-> kids2])]
     /\ handles' = [j \in 1..Len(handles) |->
                      IF handles[j].kind = "ref" /\ handles[j].root = root /\ Pfx(p, handles[j].path) /\ handles[j].path # p
                      THEN [handles[j] EXCEPT !.alive = FALSE] ELSE handles[j]]
  /\ UNCHANGED gone
  /\ hist' = Append(hist, [a |-> CASE op = "ArrPop" -> "apop" [] op = "ArrClear" -> "aclear" [] op = "ArrInsert" -> "ainsert",
                           h |-> h, k |-> "", x |-> Stored(x), src |-> SrcOf(x), i |-> i, obs |-> AllObs'])

\* occaFree(&handle)
Free(h) ==
  /\ "Free" \in Ops /\ Live(h)
  /\ IF handles[h].kind = "owner"
     THEN /\ gone' = gone \cup {handles[h].root}
          /\ handles' = [j \in 1..Len(handles) |->
                           IF handles[j].kind # "value" /\ handles[j].root = handles[h].root
                           THEN [handles[j] EXCEPT !.alive = FALSE] ELSE handles[j]]
     ELSE /\ UNCHANGED gone
          /\ handles' = [handles EXCEPT ![h].alive = FALSE]
  /\ UNCHANGED docs
  /\ hist' = Append(hist, [a |-> "free", h |-> h, k |-> "", x |-> None, src |-> 0, i |-> 0, obs |-> AllObs'])

\* occaFree again through the same (already freed) handle struct: no effect
FreeAgain(h) ==
  /\ "FreeAgain" \in Ops /\ h \in 1..Len(handles) /\ ~handles[h].alive
  /\ handles[h].kind = "owner" \/ handles[h].root \notin gone \/ handles[h].kind = "value"
  /\ \E j \in 1..Len(hist) : hist[j].a = "free" /\ hist[j].h = h          \* it was freed through this struct
  /\ UNCHANGED <<docs, gone, handles>>
  /\ hist' = Append(hist, [a |-> "free", h |-> h, k |-> "", x |-> None, src |-> 0, i |-> 0, obs |-> AllObs])

\* the occaType constructors: tag, size and value of every scalar (incl. the "ambiguous" C types)
Construct(x) ==
  /\ "Construct" \in Ops /\ Room
  /\ NewHandle(Value(x))
  /\ UNCHANGED <<docs, gone>>
  /\ hist' = Append(hist, [a |-> "construct", h |-> 0, k |-> "", x |-> x, src |-> 0, i |-> 0, obs |-> AllObs'])

\* kernel-argument conversion: every numeric C type with token tok is passed to a kernel that writes
\* its parameters to memory; what arrives is what was passed
Echo(tok) ==
  /\ "Echo" \in Ops /\ tok \in EchoToks
  /\ UNCHANGED <<docs, gone, handles>>
  /\ hist' = Append(hist, [a |-> "echo", h |-> 0, k |-> tok, x |-> None, src |-> 0, i |-> 0, obs |-> AllObs])

Next ==
  \/ Create
  \/ \E h \in 1..Len(handles), k \in Keys, x \in Storable : ObjSet(h, k, x)
  \/ \E h \in 1..Len(handles), k \in Keys, d \in Dflts : ObjGet(h, k, d)
  \/ \E h \in 1..Len(handles), pk \in PathKeys, x \in Storable : PathSet(h, pk, x)
  \/ \E h \in 1..Len(handles), pk \in PathKeys, d \in Dflts : PathGet(h, pk, d)
  \/ \E h \in 1..Len(handles), pk \in PathKeys : PathHas(h, pk)
  \/ \E h \in 1..Len(handles), x \in Storable : ArrPush(h, x)
  \/ \E h \in 1..Len(handles), i \in 0..(MaxLen - 1) : ArrGet(h, i)
  \/ \E h \in 1..Len(handles) : ArrChange(h, "ArrPop", 0, Null) \/ ArrChange(h, "ArrClear", 0, Null)
  \/ \E h \in 1..Len(handles), i \in 0..(MaxLen - 1), x \in Storable : ArrChange(h, "ArrInsert", i, x)
  \/ \E h \in 1..Len(handles) : Free(h)
  \/ \E h \in 1..Len(handles) : FreeAgain(h)
  \/ \E x \in Vals : Construct(x)
  \/ \E tok \in EchoToks : Echo(tok)
Spec == Init /\ [][Next]_vars

---------------------------------------------------------------------------
(* invariants of the model *)
TypeOK == /\ Len(handles) <= MaxHandles
          /\ \A h \in 1..Len(handles) : handles[h].kind \in {"owner", "ref", "value"}
\* a live json handle always designates an existing location of a living document
LiveHandlesResolve ==
  \A h \in 1..Len(handles) :
    (handles[h].alive /\ handles[h].kind # "value") =>
       /\ handles[h].root \notin gone
       /\ Exists(docs[handles[h].root], handles[h].path)
\* store / load identity: right after a store, the location holds exactly the stored value: the mathematical
\* value AND its C type ([t, v], see ReadsOf); every later read (as the stored type, as a wider type in which
\* the value is representable, or as text) is a function of that pair only
StoreLoadIdentity ==
  hist # <<>> =>
    LET s == hist[Len(hist)] IN
    (s.a \in {"oset", "apush"}) =>
       LET c == ValueOf(s.h) IN
       IF s.a = "oset" THEN c.kids[KeyPos(c.kids, s.k)].val = s.x
       ELSE c.kids[Len(c.kids)].val = s.x
\* owner handles die only by Free; every document has exactly one owner handle
OneOwnerPerDoc ==
  \A r \in 1..Len(docs) : Cardinality({h \in 1..Len(handles) : handles[h].kind = "owner" /\ handles[h].root = r}) = 1
OwnerAliveIffNotGone ==
  \A h \in 1..Len(handles) : handles[h].kind = "owner" => (handles[h].alive <=> handles[h].root \notin gone)

\* generation shape for the all-scalars run: create; store x | construct x | echo; read back | free
ScalarScript ==
  /\ Len(hist) >= 1 => hist[1].a = "create"
  /\ Len(hist) >= 2 => hist[2].a \in {"oset", "apush", "construct", "echo"} /\ hist[2].src = 0
  /\ Len(hist) >= 3 => CASE hist[2].a = "oset"  -> hist[3].a = "oget" /\ hist[3].k = hist[2].k
                          [] hist[2].a = "apush" -> hist[3].a = "aget"
                          [] OTHER -> hist[3].a = "free" /\ hist[3].h = 1
\* has and get agree, and a path set is found again (nested-dictionary semantics)
PathSetIsFound ==
  hist # <<>> => LET s == hist[Len(hist)] IN
    s.a = "pset" => \E pk \in PathKeys : PathStr(pk) = s.k /\ Resolves(ValueOf(s.h), pk) /\ At(ValueOf(s.h), pk) = s.x
\* generation shape for path keys: create; path set; path set | get | has; path get | has
PathScript ==
  /\ Len(hist) >= 1 => hist[1].a = "create"
  /\ Len(hist) >= 2 => hist[2].a = "pset" /\ hist[2].src = 0
  /\ Len(hist) >= 3 => hist[3].a \in {"pset", "pget", "phas"}
  /\ Len(hist) >= 4 => hist[4].a \in {"pget", "phas"}
\* generation shape that re-observes the deviation: create; push; get element 0; push again (then read the element)
PushRefScript ==
  /\ Len(hist) >= 1 => hist[1].a = "create"
  /\ Len(hist) >= 2 => hist[2].a = "apush" /\ hist[2].src = 0
  /\ Len(hist) >= 3 => hist[3].a = "aget"
  /\ Len(hist) >= 4 => hist[4].a = "apush" /\ hist[4].h = 1 /\ hist[4].src = 0
View == <<docs, gone, handles>>
HistBound == Len(hist) <= MaxHist
HistBound5 == Len(hist) <= 5
HistBound6 == Len(hist) <= 6
Emit == Len(hist) < MaxHist \/ (PrintT(<<"B", ToJson(hist)>>) /\ FALSE)
\* simulation: one behaviour per random trace (a CONSTRAINT would be evaluated -- and print -- for every
\* candidate successor of the last state): stutter at MaxHist and print there
SimNext == \/ (Len(hist) < MaxHist /\ Next)
           \/ (Len(hist) = MaxHist /\ PrintT(<<"B", ToJson(hist)>>) /\ UNCHANGED vars)
SimSpec == Init /\ [][SimNext]_vars
=============================================================================
