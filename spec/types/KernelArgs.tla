------------------------------- MODULE KernelArgs -------------------------------
(* C10 -- validation of kernel arguments at launch, for a kernel that was just compiled (metadata
   from the parser) and for the same kernel loaded from the cache by another process (metadata
   read back from build.json).

   A signature is a sequence of parameters [id, ptr, const, dt] (dt: a DtypeOps tree; id names the
   OKL spelling, see MC_KernelArgs).  The element dtype of a parameter is the dtype of its DECLARED
   spelling (ElemOf in MC_KernelArgs: what occa::dtype::get<T>() is for that C type; a fixed array
   T a[n] is the tuple of n such elements) -- written down from the spelling, not from the parser.  An argument is [k, dt, id] with k = "mem" (an occa::memory
   whose element type is dt), "scalar" (a plain value) or "null" (occa::null).

   INTENDED decision (the three clauses of the statement, nothing else):
     raises  if  the number of arguments differs from the number of parameters,
             or  memory is passed for a non-pointer parameter,
             or  a non-memory value is passed for a pointer parameter,
             or  a memory's element type cannot be cast to the parameter's element type;
     runs    otherwise.
   occa::null is neither a memory object nor an ordinary value; the statement does not say how it is
   to be treated, so a list containing null is only required to get the SAME decision fresh and
   cached ("any").

   State machine: Compile(sig) -> RunAll (fresh) -> Reload -> RunAll (cached); one behaviour per
   signature; RunAll records the decision for every argument list up to MaxArgs.             *)
EXTENDS DtypeOps, Json, SequencesExt

CONSTANTS ParamTypes,     \* set of parameters [id, ptr, const, dt]
          ArgKinds,       \* set of arguments  [k, dt, id]
          ArrayParams,    \* fixed-array parameters  T a[n]  (each forms a one-parameter signature of its own)
          ArrayArgs,      \* arguments tried on the fixed-array signatures
          MaxParams, MaxArgs,
          InitWhenEmpty   \* TRANSCRIPTION switch: does the parser mark the metadata of a parameterless
                          \* kernel as initialised?  (FALSE = the code before the C10 repair)

VARIABLES sig, meta, phase, hist
vars == <<sig, meta, phase, hist>>

SeqsUpTo(S, n) == UNION {[1..m -> S] : m \in 0..n}
Sigs  == SeqsUpTo(ParamTypes, MaxParams) \cup {<<p>> : p \in ArrayParams}
Lists == SeqsUpTo(ArgKinds, MaxArgs)
\* the argument lists tried on a signature: the full cross product for the general signatures; for a
\* fixed-array signature every single argument of ArrayArgs, the empty list and one list that is too long
IsArraySig(s) == Len(s) = 1 /\ s[1] \in ArrayParams
ListsOf(s) == IF IsArraySig(s)
              THEN SeqsUpTo(ArrayArgs, 1) \cup {<<a, a>> : a \in {b \in ArrayArgs : b.k = "mem" /\ IsByte(b.dt)}}
              ELSE Lists

---------------------------------------------------------------------------
(* INTENDED *)
ArgFits(p, a) == IF p.ptr THEN a.k = "mem" /\ CanCast(a.dt, p.dt, FALSE)
                          ELSE a.k = "scalar"
HasNull(args) == \E i \in 1..Len(args) : args[i].k = "null"
Compatible(s, args) == Len(args) = Len(s) /\ \A i \in 1..Len(s) : ArgFits(s[i], args[i])
\* with null arguments: compatible if the other arguments fit and the count is right, in either reading
CompatibleIgnoringNull(s, args) ==
  Len(args) = Len(s) /\ \A i \in 1..Len(s) : args[i].k = "null" \/ ArgFits(s[i], args[i])
Intended(s, args) ==
  IF ~HasNull(args) THEN (IF Compatible(s, args) THEN "runs" ELSE "raises")
  ELSE IF ~CompatibleIgnoringNull(s, args) THEN "raises"     \* wrong count / another argument is wrong
  ELSE "any"

---------------------------------------------------------------------------
(* TRANSCRIBED FROM src/occa/internal/lang/parser.cpp: setSourceMetadata, kernelMetadata.cpp:
   fromJson/toJson, src/occa/internal/core/kernel.cpp: modeKernel_t::setupRun.  Not the oracle. *)
MetaFresh(s)  == [init |-> (Len(s) > 0 \/ InitWhenEmpty), args |-> [i \in 1..Len(s) |-> [ptr |-> s[i].ptr, dt |-> s[i].dt]]]
\* build.json round trip: the parser only produces builtin / tuple / struct-of-builtin dtypes, whose cast
\* behaviour survives the round trip (C11); fromJson always marks the metadata initialised
MetaCached(m) == [init |-> TRUE, args |-> m.args]
Decide(m, args) ==
  IF ~m.init THEN "runs"                                  \* no metadata: nothing is validated
  ELSE IF Len(args) # Len(m.args) THEN "raises"
  ELSE IF \A i \in 1..Len(args) :
            LET isPtr == args[i].k \in {"mem", "null"} IN
            /\ isPtr = m.args[i].ptr
            /\ (args[i].k = "mem" => CanCast(args[i].dt, m.args[i].dt, FALSE))
       THEN "runs" ELSE "raises"

Agrees(want, got) == want = "any" \/ want = got

---------------------------------------------------------------------------
Init == /\ sig \in Sigs /\ meta = [init |-> FALSE, args |-> <<>>] /\ phase = "source" /\ hist = <<>>

Compile == /\ phase = "source" /\ phase' = "fresh"
           /\ meta' = MetaFresh(sig)
           /\ hist' = Append(hist, [a |-> "compile", sig |-> sig])
           /\ UNCHANGED sig
ListSeq == SetToSeq(ListsOf(sig))
RunAll == /\ phase \in {"fresh", "cached"}
          /\ ~\E j \in 1..Len(hist) : hist[j].a = "run" /\ hist[j].how = phase
          /\ hist' = Append(hist, [a |-> "run", how |-> phase])
          /\ UNCHANGED <<sig, meta, phase>>
Reload == /\ phase = "fresh" /\ hist[Len(hist)].a = "run"
          /\ phase' = "cached" /\ meta' = MetaCached(meta)
          /\ hist' = Append(hist, [a |-> "reload"])
          /\ UNCHANGED sig
Next == Compile \/ RunAll \/ Reload
Spec == Init /\ [][Next]_vars

---------------------------------------------------------------------------
(* the property on the model *)
AcceptsExactlyCompatible ==
  phase \in {"fresh", "cached"} => \A args \in ListsOf(sig) : Agrees(Intended(sig, args), Decide(meta, args))
FreshEqualsCached ==
  \A args \in ListsOf(sig) : Decide(MetaFresh(sig), args) = Decide(MetaCached(MetaFresh(sig)), args)
\* sanity of the oracle: an empty list runs exactly the parameterless kernel; a list of the wrong length never runs
OracleSanity ==
  /\ Intended(sig, <<>>) = (IF Len(sig) = 0 THEN "runs" ELSE "raises")
  /\ \A args \in ListsOf(sig) : Len(args) # Len(sig) => Intended(sig, args) = "raises"

Done == phase = "cached" /\ hist[Len(hist)].a = "run"
\* the table of one signature: every list with the intended decision
Table == [s |-> [i \in 1..Len(sig) |-> sig[i].id],
          rows |-> LET L == ListSeq IN [i \in 1..Len(L) |-> [args |-> [j \in 1..Len(L[i]) |-> L[i][j].id], exp |-> Intended(sig, L[i])]]]
Emit == ~Done \/ (PrintT(<<"B", ToJson(Table)>>) /\ FALSE)
=============================================================================
