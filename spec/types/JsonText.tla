------------------------------ MODULE JsonText ------------------------------
(* C24 -- occa::json  dump / parse.

   A JSON value is a tree; the text is a sequence of character symbols.  Dump and Parse are
   recursive operators that follow json::dumpToString and json::load* clause by clause, over an
   abstract byte alphabet:  the constant Sym lists the content symbols IN BYTE ORDER (std::map
   orders object keys bytewise, and the harness instantiates the symbols with bytes in that
   order).  Symbols with a meaning for the text format:
       QUOTE "   BSLASH \   NL \n   TAB \t   CR \r   BS \b   FF \f   SLASH /   SP space
       n t u      the letters that also serve as escape letters
       LO HI ...  any other name: an opaque byte (instantiated at random by the harness)
   Numbers are atomic tokens (their text form is primitive::toString's and is bound by replay
   only); true/false/null are atomic tokens as well.  A token stands for ONE exact value of one
   primitive type; Parse(Dump(NumV(t))) = NumV(t) therefore demands that the parsed-back number
   has exactly that value (the replayer reports its bits; the token set contains, per floating
   type, values that need the maximal number of significant digits: 9 for float, 17 for double).

   Values (one uniform record shape so that any two values can be compared):
       [k |-> "none"|"null"|"num"|"str"|"arr"|"obj",
        s  |-> symbols of a string, or <<token>> of a number/boolean,
        c  |-> children (array elements, or object values in key order),
        ks |-> object keys, sorted bytewise, parallel to c]

   The document is built by public-API steps (SetRoot / ObjPut / ArrPush); the property is
   checked in every reachable state:  Parse(Dump(doc, i)) = doc for every indentation i.

   EscapeKeys = TRUE is the intended (and, since the repair, the implemented) dump;
   EscapeKeys = FALSE is the dump of the unrepaired code (object keys written verbatim), kept
   as a named deviation: the model must reject it.                                          *)
EXTENDS Integers, Sequences, FiniteSets, TLC, Json, Randomization

CONSTANTS Sym,        \* sequence of content symbols, in byte order
          NumToks,    \* set of number tokens (atomic)
          KeyPool,    \* set of keys (non-empty sequences over Sym) that steps may use
          LeafPool,   \* set of scalar values that steps may use
          Indents,    \* set of indentations (number of spaces) checked by the invariant
          MaxNodes,   \* bound on the number of nodes of the document
          EscapeKeys, \* TRUE: keys are escaped like strings (intended); FALSE: verbatim (base code)
          MaxHist

VARIABLES doc, hist
vars == <<doc, hist>>

SymSet == {Sym[i] : i \in 1..Len(Sym)}
Idx(x) == IF x \in SymSet THEN CHOOSE i \in 1..Len(Sym) : Sym[i] = x ELSE 0

\* ---------------------------------------------------------------- values
E == <<>>
NoneV    == [k |-> "none", s |-> E, c |-> E, ks |-> E]
NullV    == [k |-> "null", s |-> E, c |-> E, ks |-> E]
NumV(t)  == [k |-> "num",  s |-> <<t>>, c |-> E, ks |-> E]
StrV(s)  == [k |-> "str",  s |-> s, c |-> E, ks |-> E]
ArrV(c)  == [k |-> "arr",  s |-> E, c |-> c, ks |-> E]
ObjV(ks, c) == [k |-> "obj", s |-> E, c |-> c, ks |-> ks]
Literals == {"true", "false"}

\* bytewise lexicographic order on keys
RECURSIVE KeyLT(_, _)
KeyLT(a, b) == IF a = E THEN b # E
               ELSE IF b = E THEN FALSE
               ELSE IF Head(a) = Head(b) THEN KeyLT(Tail(a), Tail(b))
               ELSE Idx(Head(a)) < Idx(Head(b))

\* std::map::operator[] assignment: replace, or insert at the sorted position
ObjSet(o, key, v) ==
  IF \E i \in 1..Len(o.ks) : o.ks[i] = key
  THEN LET i == CHOOSE i \in 1..Len(o.ks) : o.ks[i] = key
       IN ObjV(o.ks, [o.c EXCEPT ![i] = v])
  ELSE LET n == Cardinality({i \in 1..Len(o.ks) : KeyLT(o.ks[i], key)})
       IN ObjV(SubSeq(o.ks, 1, n) \o <<key>> \o SubSeq(o.ks, n + 1, Len(o.ks)),
               SubSeq(o.c, 1, n) \o <<v>> \o SubSeq(o.c, n + 1, Len(o.c)))

RECURSIVE Nodes(_)
SumSeq(f) == LET RECURSIVE S(_)
                 S(i) == IF i = 0 THEN 0 ELSE f[i] + S(i - 1)
             IN S(Len(f))
Nodes(v) == 1 + SumSeq([i \in 1..Len(v.c) |-> Nodes(v.c[i])])

\* ---------------------------------------------------------------- dump  (json::dumpToString)
Spaces(n) == [i \in 1..n |-> "SP"]
EscTable == [QUOTE |-> <<"BSLASH", "QUOTE">>, BSLASH |-> <<"BSLASH", "BSLASH">>,
             BS |-> <<"BSLASH", "b">>, FF |-> <<"BSLASH", "f">>, NL |-> <<"BSLASH", "n">>,
             CR |-> <<"BSLASH", "r">>, TAB |-> <<"BSLASH", "t">>]
EscSym(x) == IF x \in DOMAIN EscTable THEN EscTable[x] ELSE <<x>>
RECURSIVE Escape(_)
Escape(s) == IF s = E THEN E ELSE EscSym(Head(s)) \o Escape(Tail(s))
DumpKey(key) == IF EscapeKeys THEN Escape(key) ELSE key

RECURSIVE DumpAt(_, _, _), DumpItems(_, _, _, _)
\* elements i..n of an array / object, each on its own line when ind > 0
DumpItems(v, ind, cur, i) ==
  LET n    == Len(v.c)
      new  == cur + ind
      head == Spaces(new) \o (IF v.k = "obj" THEN <<"QUOTE">> \o DumpKey(v.ks[i]) \o <<"QUOTE", ":", "SP">> ELSE E)
      body == DumpAt(v.c[i], ind, new)
      sep  == IF i < n THEN (IF ind > 0 THEN <<",", "NL">> ELSE <<",", "SP">>)
              ELSE (IF ind > 0 THEN <<"NL">> ELSE E)
  IN head \o body \o sep \o (IF i < n THEN DumpItems(v, ind, cur, i + 1) ELSE E)

DumpAt(v, ind, cur) ==
  CASE v.k = "null" -> <<"null">>
    [] v.k = "num"  -> v.s
    [] v.k = "str"  -> <<"QUOTE">> \o Escape(v.s) \o <<"QUOTE">>
    [] v.k = "arr"  -> IF v.c = E THEN <<"[", "]">>
                       ELSE <<"[">> \o (IF ind > 0 THEN <<"NL">> ELSE E) \o DumpItems(v, ind, cur, 1)
                            \o Spaces(cur) \o <<"]">>
    [] v.k = "obj"  -> IF v.c = E THEN <<"{", "}">>
                       ELSE <<"{">> \o (IF ind > 0 THEN <<"NL">> ELSE E) \o DumpItems(v, ind, cur, 1)
                            \o Spaces(cur) \o <<"}">>
    [] OTHER        -> E
Dump(v, ind) == DumpAt(v, ind, 0)

\* ---------------------------------------------------------------- parse  (json::load*)
Ws == {"SP", "TAB", "CR", "NL", "VT", "FF"}
KeyEnd == Ws \cup {":"}
Unesc == [b |-> "BS", f |-> "FF", n |-> "NL", r |-> "CR", t |-> "TAB"]
At(t, i) == IF i <= Len(t) THEN t[i] ELSE "EOF"
Res(v, i) == [ok |-> TRUE, v |-> v, i |-> i]
Fail == [ok |-> FALSE, v |-> NoneV, i |-> 0]

RECURSIVE SkipWs(_, _)
SkipWs(t, i) == IF At(t, i) \in Ws THEN SkipWs(t, i + 1) ELSE i

\* json::loadString, i = first character after the opening quote
RECURSIVE PStr(_, _, _)
PStr(t, i, acc) ==
  LET ch == At(t, i) IN
  IF ch = "EOF" THEN Fail                                  \* "Unclosed string"
  ELSE IF ch = "BSLASH" THEN
    LET e == At(t, i + 1) IN
    IF e = "EOF" THEN Fail
    ELSE IF e = "NL" THEN PStr(t, i + 2, acc)               \* escaped newline is dropped
    ELSE IF e \in DOMAIN Unesc THEN PStr(t, i + 2, Append(acc, Unesc[e]))
    ELSE IF e = "u" THEN Fail                               \* \uXXXX wants 4 hex digits; none in Sym
    ELSE PStr(t, i + 2, Append(acc, e))
  ELSE IF ch = "QUOTE" THEN Res(StrV(acc), i + 1)
  ELSE PStr(t, i + 1, Append(acc, ch))

\* unquoted object key: up to a key-end character
RECURSIVE PBare(_, _, _)
PBare(t, i, acc) == IF At(t, i) = "EOF" \/ At(t, i) \in KeyEnd THEN Res(StrV(acc), i)
                    ELSE PBare(t, i + 1, Append(acc, At(t, i)))

RECURSIVE PValue(_, _), PArr(_, _, _), PObj(_, _, _)
PValue(t, i) ==
  LET j == SkipWs(t, i)
      ch == At(t, j) IN
  IF ch \in NumToks \cup Literals THEN Res(NumV(ch), j + 1)
  ELSE IF ch = "null" THEN Res(NullV, j + 1)
  ELSE IF ch = "QUOTE" THEN PStr(t, j + 1, E)
  ELSE IF ch = "[" THEN PArr(t, j + 1, E)
  ELSE IF ch = "{" THEN PObj(t, j + 1, ObjV(E, E))
  ELSE Fail                                                 \* "Cannot load JSON" (or a comment)

PArr(t, i, acc) ==
  LET j == SkipWs(t, i) IN
  IF At(t, j) = "]" THEN Res(ArrV(acc), j + 1)
  ELSE IF At(t, j) = "EOF" THEN Fail                        \* "Array is missing closing ']'"
  ELSE LET r == PValue(t, j) IN
       IF ~r.ok THEN Fail
       ELSE LET m == SkipWs(t, r.i) IN
            IF At(t, m) = "," THEN PArr(t, m + 1, Append(acc, r.v))
            ELSE IF At(t, m) = "]" THEN Res(ArrV(Append(acc, r.v)), m + 1)
            ELSE Fail

PObj(t, i, o) ==
  LET j == SkipWs(t, i) IN
  IF At(t, j) \in {"}", "EOF"} THEN Res(o, j + 1)
  ELSE LET kr == IF At(t, j) = "QUOTE" THEN PStr(t, j + 1, E) ELSE PBare(t, j, E) IN
       IF ~kr.ok \/ kr.v.s = E THEN Fail                    \* "Key cannot be of size 0"
       ELSE LET m == SkipWs(t, kr.i) IN
            IF At(t, m) # ":" THEN Fail                     \* "Key must be followed by ':'"
            ELSE LET r == PValue(t, m + 1) IN
                 IF ~r.ok THEN Fail
                 ELSE LET o2 == ObjSet(o, kr.v.s, r.v)
                          q  == SkipWs(t, r.i) IN
                      IF At(t, q) = "," THEN PObj(t, q + 1, o2)
                      ELSE IF At(t, q) = "}" THEN Res(o2, q + 1)
                      ELSE Fail

Parse(t) == PValue(t, 1)

\* ---------------------------------------------------------------- the property
RoundTripOf(v) == \A i \in Indents : LET r == Parse(Dump(v, i)) IN r.ok /\ r.v = v
RoundTrip == doc.k # "none" => RoundTripOf(doc)
\* dump is a function of the value: canonical key order, whatever the order of insertion
SortedKeys(v) == /\ \A i \in 1..(Len(v.ks) - 1) : KeyLT(v.ks[i], v.ks[i + 1])
                 /\ Len(v.ks) = IF v.k = "obj" THEN Len(v.c) ELSE 0
RECURSIVE WellFormed(_)
WellFormed(v) == /\ v.k \in {"null", "num", "str", "arr", "obj"}
                 /\ SortedKeys(v)
                 /\ \A i \in 1..Len(v.c) : WellFormed(v.c[i])
TypeOK == doc.k = "none" \/ (WellFormed(doc) /\ Nodes(doc) <= MaxNodes)

\* ---------------------------------------------------------------- building the document
\* paths: sequences of child positions
RECURSIVE NodeAt(_, _), ReplaceAt(_, _, _), ContainerPaths(_)
NodeAt(v, p) == IF p = E THEN v ELSE NodeAt(v.c[Head(p)], Tail(p))
ReplaceAt(v, p, new) == IF p = E THEN new
                        ELSE [v EXCEPT !.c[Head(p)] = ReplaceAt(v.c[Head(p)], Tail(p), new)]
ContainerPaths(v) ==
  IF v.k \notin {"arr", "obj"} THEN {}
  ELSE {E} \cup UNION {{<<i>> \o p : p \in ContainerPaths(v.c[i])} : i \in 1..Len(v.c)}
\* the same path as the harness walks it: keys for objects, 0-based indices for arrays
RECURSIVE Walk(_, _)
Walk(v, p) == IF p = E THEN E
              ELSE <<IF v.k = "obj" THEN [key |-> v.ks[Head(p)], idx |-> 0 - 1]
                     ELSE [key |-> E, idx |-> Head(p) - 1]>> \o Walk(v.c[Head(p)], Tail(p))

Leafs == LeafPool \cup {ArrV(E), ObjV(E, E)}
Txt(v, i) == IF i \in Indents THEN Dump(v, i) ELSE E
Step(a, p, key, x, d) ==
  [a |-> a, p |-> p, key |-> key, v |-> x, doc |-> d, txt0 |-> Dump(d, 0), txt2 |-> Dump(d, 2)]

Init == doc = NoneV /\ hist = E

SetRoot(x) ==
  /\ doc.k = "none"
  /\ doc' = x
  /\ hist' = Append(hist, Step("root", E, E, x, doc'))

ObjPut(p, key, x) ==
  /\ NodeAt(doc, p).k = "obj"
  /\ doc' = ReplaceAt(doc, p, ObjSet(NodeAt(doc, p), key, x))
  /\ Nodes(doc') <= MaxNodes
  /\ hist' = Append(hist, Step("put", Walk(doc, p), key, x, doc'))

ArrPush(p, x) ==
  /\ NodeAt(doc, p).k = "arr"
  /\ doc' = ReplaceAt(doc, p, ArrV(Append(NodeAt(doc, p).c, x)))
  /\ Nodes(doc') <= MaxNodes
  /\ hist' = Append(hist, Step("push", Walk(doc, p), E, x, doc'))

Next == \/ \E x \in Leafs : SetRoot(x)
        \/ \E p \in ContainerPaths(doc), key \in KeyPool, x \in Leafs : ObjPut(p, key, x)
        \/ \E p \in ContainerPaths(doc), x \in Leafs : ArrPush(p, x)

\* random generation (simulation runs): one random container, key and leaf per step
\* A behaviour is printed once, by a final stuttering step.
Build == \/ \E x \in {ArrV(E), ObjV(E, E)} : SetRoot(x)      \* scalar roots: generators A and C
         \/ \E p \in RandomSubset(1, ContainerPaths(doc)), key \in RandomSubset(1, KeyPool), x \in RandomSubset(1, Leafs) :
              ObjPut(p, key, x) \/ ArrPush(p, x)
Finished == Len(hist) >= MaxHist \/ (doc.k # "none" /\ (doc.k \notin {"arr", "obj"} \/ Nodes(doc) >= MaxNodes))
NextRand == \/ ~Finished /\ Build
            \/ Finished /\ PrintT(<<"B", ToJson(hist)>>) /\ UNCHANGED vars

Spec == Init /\ [][Next]_vars
SpecRand == Init /\ [][NextRand]_vars

View == doc
\* a behaviour ends at MaxHist steps, or earlier when nothing can be added any more
Grown == doc.k # "none" /\ (doc.k \notin {"arr", "obj"} \/ Nodes(doc) >= MaxNodes)
Emit == (Len(hist) < MaxHist /\ ~Grown) \/ (PrintT(<<"B", ToJson(hist)>>) /\ FALSE)
=============================================================================
