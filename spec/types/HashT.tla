------------------------------- MODULE HashT -------------------------------
(* C27 -- occa::hash_t: a 256-bit value (int h[8]) with a lazily cached short string.

   The concrete hash function is left uninterpreted.  A hash value is represented by the
   set of generators whose XOR it is (the free GF(2) vector space over the byte strings that
   were hashed, plus INIT for the constants of a default constructed hash_t):
       hash(s)            = {s}          (hash("") = {INIT}: hashing no bytes leaves the
                                          initial constants untouched)
       a ^ b              = symmetric difference
       all-zero value     = {}
   Equal sets ARE equal hashes (the converse need not hold and is never demanded).

   Each register is one C++ hash_t object that lives through the behaviour; the state of an
   object is what hash.hpp declares: h, initialized, and the mutable cache (sh, h_string).
   Every action is one public call, transcribed from src/utils/hash.cpp.  The property:
   getString() returns the first 16 characters of getFullString() -- in EVERY cache state,
   in particular when h is all-zero while sh still holds its initial zeros, and after an
   assignment that replaced h but kept the cached text.

   Impl = "base"  : the cache exactly as in the unrepaired code (getString trusts sh even when
                    nothing was rendered yet; operator= resets sh but keeps h_string)
   Impl = "fixed" : getString also renders when h_string is empty; operator= empties h_string *)
EXTENDS Naturals, Sequences, FiniteSets, TLC, Json

CONSTANTS Regs,     \* sequence of register names (sequence: fixes the order of observations)
          Pool,     \* ids of byte strings; the id "empty" denotes the empty byte string
          Impl,     \* "base" | "fixed"
          MaxHist

VARIABLES regs,     \* register name -> [h, init, sh, hs]
          hist      \* history (generation / replay)

vars == <<regs, hist>>

RegSet == {Regs[i] : i \in 1..Len(Regs)}
Gens   == (Pool \ {"empty"}) \cup {"INIT"}
Gen(s) == IF s = "empty" THEN {"INIT"} ELSE {s}
XorV(a, b) == (a \ b) \cup (b \ a)
ZERO == {}

\* the cached text: none rendered yet, or the 16-character prefix of the full string of `of`
None     == [some |-> FALSE, of |-> ZERO]
Short(v) == [some |-> TRUE,  of |-> v]

\* hash_t::hash_t()
Fresh == [h |-> {"INIT"}, init |-> FALSE, sh |-> ZERO, hs |-> None]

\* hash_t::operator=   (copy constructor, clear(), ^= all go through it)
AssignTo(reg, h, init) ==
  [h |-> h, init |-> init, sh |-> ZERO,
   hs |-> IF Impl = "base" THEN reg.hs ELSE None]

\* hash_t::getString
MustRender(reg) == IF Impl = "base" THEN reg.h # reg.sh
                   ELSE (~reg.hs.some) \/ reg.h # reg.sh
AfterGet(reg)   == IF MustRender(reg) THEN [reg EXCEPT !.sh = reg.h, !.hs = Short(reg.h)] ELSE reg
Returned(reg)   == AfterGet(reg).hs

TypeOK == /\ DOMAIN regs = RegSet
          /\ \A r \in RegSet :
               /\ regs[r].h \subseteq Gens /\ regs[r].sh \subseteq Gens
               /\ regs[r].init \in BOOLEAN /\ regs[r].hs.some \in BOOLEAN
               /\ regs[r].hs.of \subseteq Gens

\* ---- the property on the cache machine ---------------------------------------------
\* whatever getString would return now is the short form of the CURRENT value
ShortFaithful == \A r \in RegSet : Returned(regs[r]) = Short(regs[r].h)
\* the representation invariant the repair establishes: a cached text belongs to sh
CacheCoherent == \A r \in RegSet : regs[r].hs.some => regs[r].hs.of = regs[r].sh

\* ---- history records ---------------------------------------------------------------
\* vals/inits: the value and `initialized` of EVERY register after the step (the replayer reads
\* getFullString/isInitialized of every object after every step); short = 1 iff the step is a
\* getString whose result must equal the 16-prefix of the full string of register r.
SetSeq(S) == LET RECURSIVE F(_)
                 F(T) == IF T = {} THEN <<>>
                         ELSE LET x == CHOOSE x \in T : TRUE IN <<x>> \o F(T \ {x})
             IN F(S)
Step(a, r, x, y, s, rg) ==
  [a |-> a, r |-> r, x |-> x, y |-> y, s |-> s,
   vals  |-> [i \in 1..Len(Regs) |-> SetSeq(rg[Regs[i]].h)],
   inits |-> [i \in 1..Len(Regs) |-> rg[Regs[i]].init]]

Init == /\ regs = [r \in RegSet |-> Fresh]
        /\ hist = <<>>

Upd(r, reg) == [regs EXCEPT ![r] = reg]

\* r = occa::hash(bytes s)      (three entry points: (ptr,len), std::string, const char*)
FromBytes(r, s) ==
  /\ regs' = Upd(r, AssignTo(regs[r], Gen(s), TRUE))
  /\ hist' = Append(hist, Step("fromBytes", r, "", "", s, regs'))

\* r = x
Assign(r, x) ==
  /\ regs' = Upd(r, AssignTo(regs[r], regs[x].h, regs[x].init))
  /\ hist' = Append(hist, Step("assign", r, x, "", "", regs'))

\* r = x ^ y      (operator^ builds a fresh object whose `initialized` is true)
Xor(r, x, y) ==
  /\ regs' = Upd(r, AssignTo(regs[r], XorV(regs[x].h, regs[y].h), TRUE))
  /\ hist' = Append(hist, Step("xor", r, x, y, "", regs'))

\* r ^= x
XorEq(r, x) ==
  /\ regs' = Upd(r, AssignTo(regs[r], XorV(regs[r].h, regs[x].h), TRUE))
  /\ hist' = Append(hist, Step("xorEq", r, x, "", "", regs'))

\* r = x ^ std::string(bytes s)   -- the templated operator^(const T&): "x ^ hash(t)"
XorBytes(r, x, s) ==
  /\ regs' = Upd(r, AssignTo(regs[r], XorV(regs[x].h, Gen(s)), TRUE))
  /\ hist' = Append(hist, Step("xorBytes", r, x, "", s, regs'))

\* r = hash_t::fromString(x.getFullString())
FromString(r, x) ==
  /\ regs' = Upd(r, AssignTo(regs[r], regs[x].h, TRUE))
  /\ hist' = Append(hist, Step("fromString", r, x, "", "", regs'))

\* r.clear()
Clear(r) ==
  /\ regs' = Upd(r, AssignTo(regs[r], Fresh.h, FALSE))
  /\ hist' = Append(hist, Step("clear", r, "", "", "", regs'))

\* r.getString()  /  (std::string) r  /  stream << r
GetString(r) ==
  /\ regs' = Upd(r, AfterGet(regs[r]))
  /\ hist' = Append(hist, Step("getString", r, "", "", "", regs'))

Next == \/ \E r \in RegSet, s \in Pool : FromBytes(r, s)
        \/ \E r \in RegSet, x \in RegSet : Assign(r, x)
        \/ \E r \in RegSet, x \in RegSet, y \in RegSet : Xor(r, x, y)
        \/ \E r \in RegSet, x \in RegSet : XorEq(r, x)
        \/ \E r \in RegSet, x \in RegSet, s \in Pool : XorBytes(r, x, s)
        \/ \E r \in RegSet, x \in RegSet : FromString(r, x)
        \/ \E r \in RegSet : Clear(r)
        \/ \E r \in RegSet : GetString(r)

Spec == Init /\ [][Next]_vars

\* design-run view: hide the history
View == regs
\* generation: print every behaviour of length MaxHist once, and cut there
\* the objects are interchangeable: histories whose first step targets another object than the
\* first are mirror images (used by the exhaustive generation runs only)
FirstOnFirst == Len(hist) = 0 \/ hist[1].r = Regs[1]
Emit == Len(hist) < MaxHist \/ (PrintT(<<"B", ToJson(hist)>>) /\ FALSE)
\* simulation runs: a behaviour is printed once, by a final stuttering step (with the constraint
\* above TLC would print every candidate successor of the last state, and stop at the first trace)
SimNext == \/ Len(hist) < MaxHist /\ Next
           \/ Len(hist) = MaxHist /\ PrintT(<<"B", ToJson(hist)>>) /\ UNCHANGED vars
SimSpec == Init /\ [][SimNext]_vars
=============================================================================
