------------------------------- MODULE Props -------------------------------
(* C26 -- property layering of occa::device and its kernel / memory / stream objects.

   Three property trees are visible through the public API:
     settings   occa::settings()           (global; also loaded from $OCCA_CONFIG)
     user       the json given to occa::device(json)
     extra      the json given to device.kernelProperties(extra) / memoryProperties(extra) /
                streamProperties(extra)  (what buildKernel / malloc / createStream pass on)
   Every tree may carry, next to its generic entries, mode sections:  "modes/<mode>/..." and
   "<object>/modes/<mode>/...".

   A tree is kept FLAT: a function from a prefix-free set of paths (sequences of keys) to scalar
   values.  An object is the set of leaves below a path; a scalar is the tree whose only path is
   <<>>.  (Empty objects are not represented -- they carry no entry.)

   State machine: one action per public call --
     Install(l, ..)   a group of  tree[path] = marker  assignments (one *layer*, see LayerAt)
     Create(m)        occa::device(user + {mode: m})
     Ask(m, o)        device.properties()  resp.  <o>Properties() and <o>Properties(extra)
   Each created device stores the tree the code composes at setup (operators marked TRANSCRIBED);
   the property is that what a device / object reports equals the INTENDED layering: generic
   entries, overridden by the entries for the device's own mode, global settings first, then the
   user's tree, then the per-call tree -- and nothing else (in particular nothing from another
   mode's section).                                                                        *)
EXTENDS Naturals, Sequences, FiniteSets, TLC, Json, SequencesExt

CONSTANTS ModeSeq,     \* the modes, as a sequence (script order of Create / Ask)
          ShapeFns(_), \* ShapeFns(pc): set of functions AllObj -> {"abs","s","oa","ob"}: what the Install at
                       \* script position pc may write per target ("abs": nothing, "s": x = marker,
                       \* "oa": x/a = marker, "ob": x/b = marker)
          MaxHist      \* bound used by generation configs (0 = no emission)

VARIABLES settings, user, extra,   \* the three trees
          devs,        \* devs[m]: the property tree composed at device setup (<<>> before Create)
          created,     \* set of modes whose device exists
          pc,          \* script position (generation order): 1..NL layers, then creates, then asks
          hist

vars == <<settings, user, extra, devs, created, pc, hist>>

Modes   == {ModeSeq[i] : i \in 1..Len(ModeSeq)}
Objects == {"kernel", "memory", "stream"}
AllObj  == Objects \cup {"device"}
TargetSeq == <<"device", "kernel", "memory", "stream">>

---------------------------------------------------------------------------
(* flat trees *)
Empty == <<>>
PfxOf(p, q) == Len(p) <= Len(q) /\ SubSeq(q, 1, Len(p)) = p
Conflict(p, q) == PfxOf(p, q) \/ PfxOf(q, p)
\* TLC keeps [x \in S |-> e] as an unevaluated closure; f @@ <<>> forces the explicit function
\* (without it nested merges are re-evaluated at every application)
Norm(f) == f @@ <<>>
Leaf(v) == Norm([q \in {<<>>} |-> v])
\* const operator[] : the subtree at p (Empty if absent or if the walk meets a scalar)
Sub(t, p) == LET D == {q \in DOMAIN t : PfxOf(p, q)}
             IN Norm([r \in {SubSeq(q, Len(p) + 1, Len(q)) : q \in D} |-> t[p \o r]])
Cut(t, p) == Norm([q \in {q \in DOMAIN t : ~PfxOf(p, q)} |-> t[q]])
\* operator + : recursive merge, the right operand wins (on equal paths and on kind conflicts)
Merge(A, B) == Norm([p \in DOMAIN B \cup {p \in DOMAIN A : \A q \in DOMAIN B : ~Conflict(p, q)}
                       |-> IF p \in DOMAIN B THEN B[p] ELSE A[p]])
Graft(p, sub) == Norm([q \in {p \o r : r \in DOMAIN sub} |-> sub[SubSeq(q, Len(p) + 1, Len(q))]])
\* t[p] = sub
Put(t, p, sub) == Merge(Cut(t, p), Graft(p, sub))
PrefixFree(t) == \A p, q \in DOMAIN t : p # q => ~PfxOf(p, q)

---------------------------------------------------------------------------
(* TRANSCRIBED FROM src/core/device.cpp: getModeSpecificProps, getObjectSpecificProps,
   initialObjectProps, device::setup, device::<object>Properties(additionalProps).
   These say what the code composes; they are never the oracle.                        *)
ModeSpecific(m, props) ==
  Cut(Merge(props, Sub(props, <<"modes", m>>)), <<"modes">>)

ObjectSpecific(m, o, props) ==
  Cut(Cut(Merge(Merge(Sub(props, <<o>>), Sub(props, <<o, "modes", m>>)),
                      Sub(props, <<"modes", m, o>>)),
                <<o, "modes">>),
         <<"modes">>)

InitialObject(m, o, st, props) ==
  Put(Merge(ObjectSpecific(m, o, st), ObjectSpecific(m, o, props)), <<"mode">>, Leaf(m))

DeviceSetup(m, st, props) ==
  LET d0 == Merge(ObjectSpecific(m, "device", st), ModeSpecific(m, props))
      d1 == Put(d0, <<"kernel">>, InitialObject(m, "kernel", st, props))
      d2 == Put(d1, <<"memory">>, InitialObject(m, "memory", st, props))
  IN Put(d2, <<"stream">>, InitialObject(m, "stream", st, props))

ComposedObj(dp, m, o, ex) == Merge(Sub(dp, <<o>>), ModeSpecific(m, ex))

---------------------------------------------------------------------------
(* INTENDED (the oracle), following the structure of the statement:
     within one tree   : its generic entries, overridden by its entries for the device's own mode
                         ("generic entries" of a section = everything except its "modes" subsection);
     between the trees : global settings, overridden by the user's tree, overridden by the per-call tree.
   "Overridden by" is the right-biased recursive merge.  The statement names two spellings of a mode
   section ("modes/<m>/<o>" and "<o>/modes/<m>") and does not order them: both orders are acceptable,
   so the oracle is a SET of acceptable trees.                                                     *)
Generic(t) == Cut(t, <<"modes">>)
\* effective content of one tree's section: generic part + the two mode forms f[1], f[2] in either order
EffSet(gen, f) == IF f[1] = Empty \/ f[2] = Empty THEN { Merge(Merge(gen, f[1]), f[2]) }   \* (order irrelevant)
                  ELSE { Merge(Merge(gen, f[1]), f[2]), Merge(Merge(gen, f[2]), f[1]) }
ObjForms(t, m, o) == << Sub(t, <<o, "modes", m>>), Sub(t, <<"modes", m, o>>) >>

IntendedObjSet(m, o, st, us, ex) ==
  LET effE == Merge(Generic(ex), Sub(ex, <<"modes", m>>))
  IN { Put(Merge(Merge(es, eu), effE), <<"mode">>, Leaf(m))
       : es \in EffSet(Generic(Sub(st, <<o>>)), ObjForms(st, m, o)),
         eu \in EffSet(Generic(Sub(us, <<o>>)), ObjForms(us, m, o)) }

\* device-level entries of the user's tree: everything but the object sections
DevPart(t) == Cut(Cut(Cut(t, <<"kernel">>), <<"memory">>), <<"stream">>)
IntendedDevOwnSet(m, st, us) ==
  LET effU == DevPart(Merge(Generic(us), Sub(us, <<"modes", m>>)))
  IN { Merge(es, effU) : es \in EffSet(Generic(Sub(st, <<"device">>)), ObjForms(st, m, "device")) }
\* the device's tree = its own entries plus one section per object (componentwise: the 2*4*4*4
\* acceptable combinations are never enumerated)
DevIsIntended(t, m, st, us) ==
  /\ DevPart(t) \in IntendedDevOwnSet(m, st, us)
  /\ \A o \in Objects : Sub(t, <<o>>) \in IntendedObjSet(m, o, st, us, Empty)

---------------------------------------------------------------------------
(* layers: where one Install writes.  Index order = the documented precedence, lowest first
   (settings generic < settings mode sections < user generic < user mode sections <
    per-call generic < per-call mode section).                                             *)
LayerNames == <<"Sg", "SomA", "SomB", "SmoA", "SmoB", "Ug", "UomA", "UomB", "UmoA", "UmoB", "Eg", "EmA", "EmB">>
NL == Len(LayerNames)
MA == ModeSeq[1]
MB == ModeSeq[2]
\* set of [t: tree name, p: path prefix, o: target] written by layer l
LayerAt(l) ==
  CASE l = 1  -> {[t |-> "settings", p |-> <<o>>, o |-> o] : o \in AllObj}
    [] l = 2  -> {[t |-> "settings", p |-> <<o, "modes", MA>>, o |-> o] : o \in AllObj}
    [] l = 3  -> {[t |-> "settings", p |-> <<o, "modes", MB>>, o |-> o] : o \in AllObj}
    [] l = 4  -> {[t |-> "settings", p |-> <<"modes", MA, o>>, o |-> o] : o \in AllObj}
    [] l = 5  -> {[t |-> "settings", p |-> <<"modes", MB, o>>, o |-> o] : o \in AllObj}
    [] l = 6  -> {[t |-> "user", p |-> <<o>>, o |-> o] : o \in Objects} \cup {[t |-> "user", p |-> <<>>, o |-> "device"]}
    [] l = 7  -> {[t |-> "user", p |-> <<o, "modes", MA>>, o |-> o] : o \in Objects}
    [] l = 8  -> {[t |-> "user", p |-> <<o, "modes", MB>>, o |-> o] : o \in Objects}
    [] l = 9  -> {[t |-> "user", p |-> <<"modes", MA, o>>, o |-> o] : o \in Objects} \cup {[t |-> "user", p |-> <<"modes", MA>>, o |-> "device"]}
    [] l = 10 -> {[t |-> "user", p |-> <<"modes", MB, o>>, o |-> o] : o \in Objects} \cup {[t |-> "user", p |-> <<"modes", MB>>, o |-> "device"]}
    [] l = 11 -> {[t |-> "extra", p |-> <<>>, o |-> "device"]}
    [] l = 12 -> {[t |-> "extra", p |-> <<"modes", MA>>, o |-> "device"]}
    [] l = 13 -> {[t |-> "extra", p |-> <<"modes", MB>>, o |-> "device"]}

KeyOf(sh) == CASE sh = "s" -> <<"x">> [] sh = "oa" -> <<"x", "a">> [] sh = "ob" -> <<"x", "b">>
Marker(l, o) == LayerNames[l] \o "-" \o o
\* the assignments of layer l under shape function shf, as a set of [t, p, v]
Assignments(l, shf) ==
  {[t |-> w.t, p |-> w.p \o KeyOf(shf[w.o]), v |-> Marker(l, w.o)] : w \in {w \in LayerAt(l) : shf[w.o] # "abs"}}

RECURSIVE ApplyAll(_, _, _)
ApplyAll(tree, name, as) ==
  IF \A a \in as : a.t # name THEN tree
  ELSE LET a == CHOOSE a \in as : a.t = name
       IN ApplyAll(Put(tree, a.p, Leaf(a.v)), name, as \ {a})   \* paths of one layer are disjoint: order irrelevant

TreeSeq(t) == SetToSeq({[p |-> q, v |-> t[q]] : q \in DOMAIN t})
TreesSeq(S) == LET s == SetToSeq(S) IN [i \in 1..Len(s) |-> TreeSeq(s[i])]

---------------------------------------------------------------------------
Init == /\ settings = Empty /\ user = Empty /\ extra = Empty
        /\ devs = [m \in Modes |-> Empty] /\ created = {}
        /\ pc = 1 /\ hist = <<>>

\* script: pc in 1..NL decides layer pc; NL+i creates ModeSeq[i]; then one Ask per (mode, target)
NM == Len(ModeSeq)
NT == Len(TargetSeq)
EndPc == NL + NM + NM * NT + 1

Install(shf) ==
  /\ pc <= NL
  /\ LET as == Assignments(pc, shf) IN
       /\ settings' = ApplyAll(settings, "settings", as)
       /\ user' = ApplyAll(user, "user", as)
       /\ extra' = ApplyAll(extra, "extra", as)
       /\ hist' = IF as = {} THEN hist
                  ELSE Append(hist, [a |-> "set", sets |-> SetToSeq(as)])
  /\ pc' = pc + 1
  /\ UNCHANGED <<devs, created>>

Create ==
  /\ pc > NL /\ pc <= NL + NM
  /\ LET m == ModeSeq[pc - NL] IN
       /\ devs' = [devs EXCEPT ![m] = DeviceSetup(m, settings, Put(user, <<"mode">>, Leaf(m)))]
       /\ created' = created \cup {m}
       /\ hist' = Append(hist, [a |-> "create", m |-> m])
  /\ pc' = pc + 1
  /\ UNCHANGED <<settings, user, extra>>

AskIdx == pc - NL - NM - 1     \* 0-based
Ask ==
  /\ pc > NL + NM /\ pc < EndPc
  /\ LET m == ModeSeq[(AskIdx \div NT) + 1]
         o == TargetSeq[(AskIdx % NT) + 1]
         um == Put(user, <<"mode">>, Leaf(m))
     IN hist' = Append(hist,
          IF o = "device"
          THEN [a |-> "ask", m |-> m, o |-> o, exp0 |-> TreesSeq(IntendedDevOwnSet(m, settings, um)), exp |-> <<>>]
          ELSE [a |-> "ask", m |-> m, o |-> o,
                exp0 |-> TreesSeq(IntendedObjSet(m, o, settings, um, Empty)),
                exp  |-> TreesSeq(IntendedObjSet(m, o, settings, um, extra))])
  /\ pc' = pc + 1
  /\ UNCHANGED <<settings, user, extra, devs, created>>

Next == (\E shf \in ShapeFns(pc) : Install(shf)) \/ Create \/ Ask
Spec == Init /\ [][Next]_vars

---------------------------------------------------------------------------
(* the property on the model: what the transcribed composition yields is an intended result *)
TypeOK == pc \in {NL + 1, NL + NM + 1} =>
          /\ PrefixFree(settings) /\ PrefixFree(user) /\ PrefixFree(extra)
          /\ \A m \in Modes : PrefixFree(devs[m])
UserOf(m) == Put(user, <<"mode">>, Leaf(m))
\* NB devices are created after all Installs of settings/user in the script, so `settings`
\* and `user` are still the trees the device was created from.
\* (evaluated once all devices exist; the Ask steps that follow change nothing)
Checking == pc = NL + NM + 1
DeviceIsIntended ==
  Checking => \A m \in created : DevIsIntended(devs[m], m, settings, UserOf(m))
ObjectsAreIntended ==
  Checking => \A m \in created : \A o \in Objects :
     \* (without per-call tree the object's properties are its section of the device tree,
     \*  which DeviceIsIntended covers)
     ComposedObj(devs[m], m, o, extra) \in IntendedObjSet(m, o, settings, UserOf(m), extra)
\* no value written under another mode's section is ever visible
OtherMode(m) == CHOOSE n \in Modes : n # m
OtherModeMarkers(m) ==
  LET tag == IF m = MA THEN {3, 5, 8, 10, 13} ELSE {2, 4, 7, 9, 12}
  IN {Marker(l, o) : l \in tag, o \in AllObj}
Values(t) == {t[p] : p \in DOMAIN t}
NoOtherModeEntry ==
  Checking => \A m \in created :
     /\ Values(devs[m]) \cap OtherModeMarkers(m) = {}
     /\ \A o \in Objects : Values(ComposedObj(devs[m], m, o, extra)) \cap OtherModeMarkers(m) = {}
\* sanity theorem on the oracle itself ("last writer wins"): for scalar-only layers the intended
\* value of key x is the marker of the highest applicable installed layer
ScalarLayersOnly == \A p \in DOMAIN settings \cup DOMAIN user \cup DOMAIN extra : p[Len(p)] = "x"
Installed(l, o) == \E w \in LayerAt(l) : w.o = o /\
   LET tr == IF w.t = "settings" THEN settings ELSE IF w.t = "user" THEN user ELSE extra
   IN (w.p \o <<"x">>) \in DOMAIN tr
ApplicableObj(m, o) == IF m = MA THEN {1, 2, 4, 6, 7, 9} ELSE {1, 3, 5, 6, 8, 10}
ApplicableExtra(m) == IF m = MA THEN {11, 12} ELSE {11, 13}
Rank(l) == CASE l \in {1} -> 1 [] l \in {2, 3, 4, 5} -> 2 [] l \in {6} -> 3 [] l \in {7, 8, 9, 10} -> 4
             [] l = 11 -> 5 [] l \in {12, 13} -> 6
LastWriterWins ==
  (pc = NL + 1 /\ ScalarLayersOnly) =>
  \A m \in Modes : \A o \in Objects :
    LET ins == {l \in ApplicableObj(m, o) : Installed(l, o)} \cup {l \in ApplicableExtra(m) : Installed(l, "device")}
    IN \A t \in IntendedObjSet(m, o, settings, UserOf(m), extra) :
         IF ins = {} THEN <<"x">> \notin DOMAIN t
         ELSE /\ <<"x">> \in DOMAIN t
              /\ \E l \in ins : /\ \A l2 \in ins : Rank(l2) <= Rank(l)
                                /\ t[<<"x">>] = Marker(l, IF l >= 11 THEN "device" ELSE o)

View == <<settings, user, extra, devs, created, pc>>
\* the design run stops after the creates (the asks do not change the state)
DesignBound == pc <= NL + NM + 1
Emit == pc < EndPc \/ (PrintT(<<"B", ToJson(hist)>>) /\ FALSE)
=============================================================================
