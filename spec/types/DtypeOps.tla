------------------------------- MODULE DtypeOps -------------------------------
(* Constant-level definitions shared by Dtype.tla (C11) and KernelArgs.tla (C10): dtype trees, byte
   size, flattened form with identities, the cast rule, the observables of a dtype object.
   See Dtype.tla for the explanation of the data model.                                        *)
EXTENDS Naturals, Sequences, FiniteSets, TLC

---------------------------------------------------------------------------
(* constructors *)
Mk(k, n, b, reg, sz, fn, sub) == [k |-> k, n |-> n, b |-> b, reg |-> reg, sz |-> sz, fn |-> fn, sub |-> sub]
Builtin(n)         == Mk("builtin", n, 0, TRUE, 0, <<>>, <<>>)
Custom(n, b, reg)  == Mk("custom", n, b, reg, 0, <<>>, <<>>)
Enum(n, names)     == Mk("enum", n, 0, FALSE, 0, names, <<>>)
Tuple(d, sz)       == Mk("tuple", "", 0, FALSE, sz, <<>>, <<d>>)
Struct(n, fn, sub) == Mk("struct", n, 0, FALSE, 0, fn, sub)
Union(fn, sub)     == Mk("union", "", 0, FALSE, 0, fn, sub)

(* the registered builtins used here: name -> [bytes, element, count] (count = 1: scalar) *)
BuiltinInfo(n) ==
  CASE n = "byte"   -> [b |-> 1, e |-> "byte",   c |-> 1]
    [] n = "char"   -> [b |-> 1, e |-> "char",   c |-> 1]
    [] n = "int8"   -> [b |-> 1, e |-> "char",   c |-> 1]     \* sized alias of char
    [] n = "short"  -> [b |-> 2, e |-> "short",  c |-> 1]
    [] n = "int"    -> [b |-> 4, e |-> "int",    c |-> 1]
    [] n = "int32"  -> [b |-> 4, e |-> "int",    c |-> 1]
    [] n = "long"   -> [b |-> 8, e |-> "long",   c |-> 1]
    [] n = "float"  -> [b |-> 4, e |-> "float",  c |-> 1]
    [] n = "double" -> [b |-> 8, e |-> "double", c |-> 1]
    [] n = "float2" -> [b |-> 8, e |-> "float",  c |-> 2]
    [] n = "float4" -> [b |-> 16, e |-> "float", c |-> 4]
    [] n = "int2"   -> [b |-> 8, e |-> "int",    c |-> 2]
    [] n = "int4"   -> [b |-> 16, e |-> "int",   c |-> 4]
    [] n = "double2" -> [b |-> 16, e |-> "double", c |-> 2]
    [] n = "long2"  -> [b |-> 16, e |-> "long",  c |-> 2]
    [] n = "long4"  -> [b |-> 32, e |-> "long",  c |-> 4]
    [] n = "short2" -> [b |-> 4, e |-> "short",  c |-> 2]
    [] n = "char4"  -> [b |-> 4, e |-> "char",   c |-> 4]
IsVector(d) == d.k = "builtin" /\ BuiltinInfo(d.n).c > 1
\* the name a builtin reports: aliases are the registered object they alias
BuiltinName(n) == IF BuiltinInfo(n).c = 1 THEN BuiltinInfo(n).e ELSE n

RECURSIVE Bytes(_)
SumBytes(s) == LET F[i \in 0..Len(s)] == IF i = 0 THEN 0 ELSE F[i - 1] + Bytes(s[i]) IN F[Len(s)]
Bytes(d) ==
  CASE d.k = "builtin" -> BuiltinInfo(d.n).b
    [] d.k = "custom"  -> d.b
    [] d.k = "enum"    -> 0                       \* (addEnumerator does not size the type)
    [] d.k = "tuple"   -> d.sz * Bytes(d.sub[1])
    [] d.k = "struct"  -> SumBytes(d.sub)
    [] d.k = "union"   -> SumBytes(d.sub)         \* as addField accumulates it

---------------------------------------------------------------------------
(* flattened form with identities *)
RegLeaf(id)  == [u |-> FALSE, id |-> id]
OwnLeaf(path) == [u |-> TRUE, id |-> path]
Rep(s, k) == LET F[i \in 0..k] == IF i = 0 THEN <<>> ELSE F[i - 1] \o s IN F[k]
RECURSIVE FlatAt(_, _)
CatFields(d, path) ==
  LET F[i \in 0..Len(d.sub)] == IF i = 0 THEN <<>> ELSE F[i - 1] \o FlatAt(d.sub[i], path \o "." \o d.fn[i])
  IN F[Len(d.sub)]
FlatAt(d, path) ==
  CASE d.k = "builtin" -> Rep(<<RegLeaf(BuiltinInfo(d.n).e)>>, BuiltinInfo(d.n).c)
    [] d.k = "custom"  -> IF d.reg THEN <<RegLeaf("reg:" \o d.n)>> ELSE <<OwnLeaf(path)>>
    [] d.k = "enum"    -> <<OwnLeaf(path)>>
    [] d.k = "tuple"   -> Rep(FlatAt(d.sub[1], path \o "[]"), d.sz)     \* one stored element, repeated
    [] d.k = "struct"  -> CatFields(d, path)
    [] d.k = "union"   -> CatFields(d, path)
Shape(d) == FlatAt(d, "")
IsByte(d) == d.k = "builtin" /\ d.n = "byte"

\* leaves of two flattened forms are the same type iff same id and, for object-local leaves, same object
SameLeaf(a, b, sameObj) == a.id = b.id /\ a.u = b.u /\ (a.u => sameObj)
\* vec repeats with period n (all inside one object)
Cyclic(vec, n) == /\ n > 0 /\ Len(vec) % n = 0
                  /\ \A i \in 1..Len(vec) : vec[i] = vec[((i - 1) % n) + 1]
\* the cast rule on flattened forms: the shorter one must tile the longer one
CastFlat(fa, fb, sameObj) ==
  LET na == Len(fa)  nb == Len(fb)  n == IF na < nb THEN na ELSE nb IN
  /\ (na < nb => Cyclic(fb, na))
  /\ (nb < na => Cyclic(fa, nb))
  /\ \A i \in 1..n : SameLeaf(fa[i], fb[i], sameObj)
\* canBeCastedTo between two dtype OBJECTS holding trees a and b
CanCast(a, b, sameObj) == IsByte(a) \/ IsByte(b) \/ CastFlat(Shape(a), Shape(b), sameObj)

---------------------------------------------------------------------------
(* observables of a dtype object (what the API reports) *)
KindOf(d) == IF IsVector(d) THEN "tuple" ELSE d.k       \* float2 reports itself as a tuple
RECURSIVE Obs(_)
ObsSeq(s) == [i \in 1..Len(s) |-> Obs(s[i])]
Obs(d) ==
  [k |-> KindOf(d),
   n |-> IF d.k = "builtin" THEN BuiltinName(d.n) ELSE d.n,
   bytes |-> Bytes(d),
   reg |-> d.reg,
   fn |-> d.fn,
   sub |-> IF d.k \in {"struct", "union"} THEN ObsSeq(d.sub) ELSE <<>>,
   flat |-> Shape(d)]

\* INTENDED round trip: the value read back is equivalent to the original, i.e. it is what a plain
\* copy is: same tree (same observables, same shape), in a new object.
RoundTrip(d) == d

---------------------------------------------------------------------------
(* kernel argument metadata: [name, args: sequence of [const, ptr, name, dtype]] *)
ArgObs(a) == [const |-> a.const, ptr |-> a.ptr, name |-> a.name, dtype |-> Obs(a.dtype)]
MetaObs(m) == [name |-> m.name, args |-> [i \in 1..Len(m.args) |-> ArgObs(m.args[i])]]

=============================================================================
