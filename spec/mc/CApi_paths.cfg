\* path keys ("a", "a/b", "a/b/c", "a/a"): create; path set; path set | get | has; path get | has --
\* nested objects are created by set, a path through a stored document, a path whose prefix is a scalar,
\* missing paths with defaults of four types
SPECIFICATION Spec
CONSTANTS
  Vals <- PathVals
  Dflts <- PathDflts
  Keys = {"a"}
  PathKeys <- PathKeysAll
  MaxHandles = 3
  MaxLen = 2
  Ops <- PathOps
  EchoToks <- NoToks
  PushKeepsRefs = FALSE
  MaxHist = 4
CONSTRAINT PathScript
CONSTRAINT Emit
INVARIANTS PathSetIsFound TypeOK LiveHandlesResolve OneOwnerPerDoc OwnerAliveIffNotGone
