\* totality (simulation): random strings of length 5..9 over the dangerous alphabet
SPECIFICATION Spec
CONSTANTS
  Pieces <- DangerPieces
  PieceSep <- SepNone
  MaxPieces = 9
  MinPieces = 5
  CheckKinds = FALSE
INVARIANTS TypeOK ExactlyOne RoundTrip PrintedIsLexable MunchOK
CONSTRAINT Emit
