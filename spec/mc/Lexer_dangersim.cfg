\* totality (simulation): random strings of length 6..9 over the dangerous alphabet
SPECIFICATION Spec
CONSTANTS
  Pieces <- DangerPieces
  PieceSep <- SepNone
  MaxPieces = 9
  MinPieces = 6
  CheckKinds = FALSE
INVARIANTS TypeOK ExactlyOne RoundTrip PrintedIsLexable MunchOK
CONSTRAINT Emit
