\* generation (C22, quick): every structure with up to 4 nodes / depth 4 over @outer, @inner,
\* plain for, if and at most ONE decoration (break, a @shared/@exclusive declaration
\* of each shape, an invalid loop header, a non-void return type) that breaks at most one rule
SPECIFICATION Spec
CONSTANTS
  MaxNodes = 4
  MaxDepth = 4
  Kinds = {"fo","fi","fp","if","br","sh","shs","shn","ex"}
  GoodH = {"lt"}
  BadH = {"noupd"}
  RetTypes = {"void","int"}
  MaxDecor = 1
  MaxBroken = 1
  DefaultHdr = "lt"
INVARIANTS TypeOK RuleSanity
CONSTRAINT Emit
