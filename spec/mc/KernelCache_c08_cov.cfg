\* vacuity run for C08 (TLC's -coverage cost model cannot be built for the nested script definitions, so the
\* state graph of this small configuration is dumped with action labels and the labels are counted):
\* OpenMP + string kernel (contains every action), a may be killed anywhere, then b builds
SPECIFICATION Spec
CONSTANTS
  Proc = {"a", "b"}
  ProcSeq <- MCSeq2
  Scripts <- MCScripts
  Crashers = {"a"}
  Late = {"b"}
  Sequential = TRUE
  Variants = {"OS"}
  VendorOutStaged = TRUE
  Collapsed = FALSE
  Emit = FALSE
VIEW View
INVARIANTS TypeOK NoPartialUnderFinalName NoBadUnderFinalName FollowUpSucceeds
