\* model + behaviour generation: every present/absent combination of the 13 layers (scalar entries);
\* no VIEW (every history is a distinct state anyway: one history per layer combination), the
\* invariants are evaluated while the devices are created, every complete behaviour is printed once
SPECIFICATION Spec
CONSTANTS
  ModeSeq <- MCModes
  ShapeFns <- UniformScalar
  MaxHist = 1
CONSTRAINT Emit
INVARIANTS TypeOK DeviceIsIntended ObjectsAreIntended NoOtherModeEntry LastWriterWins
