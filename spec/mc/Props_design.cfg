\* design run only (no emission): same space as Props_gen.cfg, cut after the creates
SPECIFICATION Spec
CONSTANTS
  ModeSeq <- MCModes
  ShapeFns <- UniformScalar
  MaxHist = 0
VIEW View
CONSTRAINT DesignBound
INVARIANTS TypeOK DeviceIsIntended ObjectsAreIntended NoOtherModeEntry LastWriterWins
