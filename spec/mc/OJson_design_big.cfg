\* design run (thorough): keys a, a\/b, b (a\/b only through set and +=), depth <= 2, one scalar
SPECIFICATION Spec
CONSTANTS
  KeySeq <- K3
  PathKeys = {"a", "b"}
  MaxPathLen = 2
  WriteVals <- WSmall
  MergeVals <- MSlash
  SetKeys = {"a", "a/b"}
  MaxDepth = 2
  Variant = "intended"
  MaxHist = 0
VIEW View
CONSTRAINT DepthBound
INVARIANTS TypeOK HasIffDefined WriteThenRead RemoveThenRead MergeRightWins
