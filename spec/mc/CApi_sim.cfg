\* simulation (SimSpec: one printed behaviour per random trace): histories of 10 calls, six values, up to 6 handles, arrays up to 4
SPECIFICATION SimSpec
CONSTANTS
  Vals <- SmallVals
  Dflts <- SomeDflts
  Keys = {"a", "b"}
  PathKeys <- PathKeysSim
  MaxHandles = 6
  MaxLen = 4
  Ops <- SimOps
  EchoToks <- NoToks
  PushKeepsRefs = FALSE
  MaxHist = 10
INVARIANTS PathSetIsFound TypeOK LiveHandlesResolve StoreLoadIdentity OneOwnerPerDoc OwnerAliveIffNotGone
