\* generation A1 (quick): root + one child; keys of one symbol, every string of length <= 2
SPECIFICATION Spec
CONSTANTS
  Sym <- MCSym
  NumToks <- DNums
  KeyPool <- A1Keys
  LeafPool <- ALeafs
  Indents = {0, 2}
  MaxNodes = 2
  EscapeKeys = TRUE
  MaxHist = 2
CONSTRAINT Emit
