\* design-level demonstration: the pointer-only swap (code before the repair) breaks RingMatchesRefs
SPECIFICATION Spec
CONSTANTS
  SlotSeq <- StdSlots
  KindOf <- StdKindOf
  MaxDev = 2
  MaxCells = 2
  BufBytes = 64
  CellBytes = 128
  LazyObs = FALSE
  MaxObj = 4
  MaxHist = 0
  SwapImpl = "pointers"
  Profiles <- DesignSmall
VIEW View
INVARIANTS RingMatchesRefs
