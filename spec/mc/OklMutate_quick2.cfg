\* generation (C16, quick, exhaustive): every truncation and every single-token deletion of all
\* eight seed kernels
SPECIFICATION Spec
CONSTANTS
  MaxNodes = 0
  MaxDepth = 1
  Kinds = {}
  GoodH = {"lt"}
  MaxDecor = 0
  DefaultHdr = "lt"
  Seeds <- MCSeeds
  SeedIdx = {1,2,3,4,5,6,7,8}
  Puncts = {}
  Words = {}
  Brackets = {}
  Ops = {"trunc","del"}
CONSTRAINT Emit
