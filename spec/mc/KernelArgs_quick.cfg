\* KernelArgs: signatures of <= 2 parameters over ParamsQuick, argument lists of <= 3 over ArgsQuick;
\* InitWhenEmpty = TRUE (the repaired code)
SPECIFICATION Spec
CONSTANTS
  ParamTypes <- ParamsQuick
  ArgKinds <- ArgsQuick
  MaxParams = 2
  MaxArgs = 3
  InitWhenEmpty = TRUE
CONSTRAINT Emit
INVARIANTS AcceptsExactlyCompatible FreshEqualsCached OracleSanity
