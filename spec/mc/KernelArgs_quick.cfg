\* KernelArgs: signatures of <= 2 parameters over ParamsQuick, argument lists of <= 3 over ArgsQuick;
\* InitWhenEmpty = TRUE (the repaired code)
\* plus one signature per fixed-array parameter  [const] [typedef'd] T a[n],  12 base spellings x n in {1,2,4}
SPECIFICATION Spec
CONSTANTS
  ParamTypes <- ParamsQuick
  ArgKinds <- ArgsQuick
  ArrayParams <- ArraysAll
  ArrayArgs <- ArrayArgsAll
  MaxParams = 2
  MaxArgs = 3
  InitWhenEmpty = TRUE
CONSTRAINT Emit
INVARIANTS AcceptsExactlyCompatible FreshEqualsCached OracleSanity
