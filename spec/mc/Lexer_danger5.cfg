\* totality: every string of length <= 5 over the dangerous alphabet
SPECIFICATION Spec
CONSTANTS
  Pieces <- DangerPieces
  PieceSep <- SepNone
  MaxPieces = 5
  MinPieces = 0
  CheckKinds = FALSE
INVARIANTS TypeOK ExactlyOne RoundTrip PrintedIsLexable MunchOK
CONSTRAINT Emit
