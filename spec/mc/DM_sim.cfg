\* simulation (tlc -simulate, SimSpec): random histories of length 15, at most 5 error steps each; one valid
\* and one invalid argument tuple drawn per call and handle; each finished history is printed once
SPECIFICATION SimSpec
CONSTANTS
  NViews = 6
  NStores = 4
  MaxBytes = 8
  HostInit <- Host8
  ESizes = {1, 2, 3, 4}
  NStamps = 24
  PatMod = 200
  Dom <- DomClass
  Dom2 <- Dom2Sim
  WrapAt = {0, 2}
  Progress = FALSE
  Mode = "sim"
  Prefixes <- NoPrefix
  Depth = 15
  MaxErr = 5
CHECK_DEADLOCK FALSE
