SPECIFICATION Spec
CONSTANTS
  Threads <- T3
  Prog <- ProgDrop3
  InitRing = {"h1","h2","h3"}
  AtomicRelease = TRUE
VIEW View
INVARIANTS NoDoubleFree NoUseAfterFree NoLeak NoLostReference CounterExact NoLostChild
CHECK_DEADLOCK FALSE
