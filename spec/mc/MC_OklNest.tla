---------------------------- MODULE MC_OklNest ----------------------------
EXTENDS OklNest
Op(c)  == [c |-> c, v |-> 0]
Lit(v) == [c |-> "lit", v |-> v]
L(cmp, left, upd, st) == [pos |-> "nest", ity |-> "int", cmp |-> cmp, left |-> left, upd |-> upd,
                          ci |-> Op("var"), cb |-> Op("var"), cs |-> Lit(st)]
Inc  == L("lt", TRUE, "preinc", 1)
IncE == L("le", TRUE, "postinc", 1)
Dec  == L("gt", TRUE, "predec", 1)
DecR == L("le", FALSE, "postdec", 1)       \* bound <= i; i--
Add2 == L("lt", TRUE, "addeq", 2)
Sub2 == L("ge", TRUE, "subeq", 2)
Nest(no, ls) == [loops |-> ls, nouter |-> no]
MCNests == { Nest(2, <<Inc, Dec, Add2, IncE>>), Nest(2, <<Sub2, IncE, Dec, Inc>>),
             Nest(3, <<Inc, DecR, Add2, Dec>>), Nest(1, <<Dec, Inc, Sub2, IncE>>),
             Nest(1, <<Add2, DecR>>), Nest(3, <<IncE, Inc, Dec, Inc, Sub2, Dec>>) }
MCPairsQuick == { <<0, 2>>, <<-1, 1>>, <<1, 0>> }
MCPairsThorough == { <<0, 2>>, <<-1, 1>>, <<1, 0>>, <<-2, 1>> }
=============================================================================
