\* generation A: root + one child, every string and key of length <= 2 over the 9 symbols
SPECIFICATION Spec
CONSTANTS
  Sym <- MCSym
  NumToks <- DNums
  KeyPool <- AKeys
  LeafPool <- ALeafs
  Indents = {0, 2}
  MaxNodes = 2
  EscapeKeys = TRUE
  MaxHist = 2
CONSTRAINT Emit
