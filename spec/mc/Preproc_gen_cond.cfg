\* generation, condition focus: units of <= 4 lines, one level, over the 22 base conditions, no macros
SPECIFICATION Spec
CONSTANTS
  PPMode = TRUE
  Lits <- PoolPP
  Conds <- CondPool
  Defs <- DefPool
  Texts <- TextPool
  Zero = 1
  One = 2
  Names <- NoIdx
  CondIdx <- BaseConds
  ElifIdx <- BaseConds
  DefIdx <- NoIdx
  TextIdx <- DirTexts
  MaxLines = 4
  MaxNest = 1
  MacroFocus = FALSE
CONSTRAINT Emit
