\* generation (quick): four ranges of 5-6 elements x tile settings (2,2) and (1,3): tile-dependent range calls
SPECIFICATION Spec
CONSTANTS
  Mode = "range"
  Ops <- OpsRangeTiled
  Contents <- ContentsTiny
  Tilings <- TilingsTiledR
  PredFns <- RPredsOne
  MapFns <- RMapsOne
  EachFns <- REachQuick
  Reductions <- RRedsOne
  Scalars <- ScalarsTwo
  Slices <- SlicesQuick
  OtherLens <- OtherLensQuick
  RangeArgs <- RangeArgsTiled
  Loops <- NoLoops
  TiledLoops <- NoLoops
  MaxLen = 10
  MaxAbs = 1000
  NB = 4
  MaxHist = 2
CONSTRAINT Emit
