\* design run (thorough): every document with <= 3 nodes; strings and keys of <= 1 symbol over 9 symbols + special pairs
SPECIFICATION Spec
CONSTANTS
  Sym <- MCSym
  NumToks <- DNums
  KeyPool <- DKeys
  LeafPool <- DLeafs
  Indents = {0, 2}
  MaxNodes = 3
  EscapeKeys = TRUE
  MaxHist = 0
VIEW View
INVARIANTS TypeOK RoundTrip
