\* generation (C22, thorough): directed families -- as quick, three branches of up to 3 loops
SPECIFICATION Spec
CONSTANTS
  Families = {"branch2","branch3","skip","place","order","pairdecl","pairnest"}
  MaxChain = 3
  MaxChain3 = 3
INVARIANT TypeOK
CONSTRAINT Emit
