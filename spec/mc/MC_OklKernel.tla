--------------------------- MODULE MC_OklKernel ---------------------------
(* Constant definitions for OklKernel (C20): argument vectors, and per coverage class the nest
   heads, statement menus and plans of the generator.  Two families:
     D*  small menus for the exhaustive design run (LaunchRun = SeqRun under all interleavings)
     G*  the menus of the kernels that are rendered and run against the real translators     *)
EXTENDS OklKernel, Randomization

\* ---- argument vectors ------------------------------------------------------------------
Vec(a, b, in, out, acc) == [a |-> a, b |-> b, in |-> in, out |-> out, acc |-> acc]
Zero12 == <<0, 0, 0, 0, 0, 0, 0, 0, 0, 0, 0, 0>>
MCArgVecs == <<
  Vec(2, 3,  <<3, 1, 4, 1, 5, 9, 2, 6, 5, 3, 5, 8>>,        Zero12, <<0, 0, 0>>),
  Vec(-1, 2, <<0, -2, 7, 3, -1, 4, 2, 2, 8, -3, 1, 6>>,     <<5, 5, 5, 5, 5, 5, 5, 5, 5, 5, 5, 5>>, <<1, -1, 4>>),
  Vec(0, -3, <<9, 8, 7, 6, 5, 4, 3, 2, 1, 0, -1, -2>>,      <<1, 2, 3, 4, 5, 6, 7, 8, 9, 10, 11, 12>>, <<0, 7, 0>>)
>>

\* ---- expressions -------------------------------------------------------------------------
C(v)   == Leaf("c", "", v)
A      == Leaf("arg", "a", 0)
B      == Leaf("arg", "b", 0)
OV     == Leaf("o", "", 0)
IV     == Leaf("i", "", 0)
In(s)  == Leaf("in", s, 0)
InK(v) == Leaf("in", "k", v)
Sh(s)  == Leaf("sh", s, 0)
EX     == Leaf("ex", "", 0)
TMP    == Leaf("tmp", "", 0)
BASE   == Leaf("base", "", 0)
Ops    == {"+", "-", "*"}
Bins(X, Y) == {Bin(op, x, y) : op \in Ops, x \in X, y \in Y}

NoStyle == [restrict |-> FALSE, rt |-> FALSE, maxin |-> FALSE, simd |-> FALSE, dim |-> FALSE,
            tile |-> FALSE, xbar |-> FALSE]
\* ---- loop headers ---------------------------------------------------------------------------
TH(n) == [init |-> 0, bound |-> n, cmp |-> "lt", left |-> TRUE, upd |-> "preinc", step |-> 1]
THs(ext) == [j \in 1..Len(ext) |-> TH(ext[j])]
\* comparison (as written), iterator on the left?, update -- the combinations whose direction agrees
UpUpds == {"preinc", "postinc", "addeq"}
DownUpds == {"predec", "postdec", "subeq"}
HShapes == {<<c[1], c[2], u>> : c \in {<<"lt", TRUE>>, <<"le", TRUE>>, <<"gt", FALSE>>, <<"ge", FALSE>>}, u \in UpUpds}
           \cup {<<c[1], c[2], u>> : c \in {<<"gt", TRUE>>, <<"ge", TRUE>>, <<"lt", FALSE>>, <<"le", FALSE>>}, u \in DownUpds}
\* the header of shape sh with the given step and initial value that runs n times; `slack` in 0..step-1
\* moves the bound inside the last stride (slack # 0: the range is not a multiple of the stride)
MkHdr(sh, step, init, slack, n) ==
  LET up   == sh[3] \in UpUpds
      incl == sh[1] \in {"le", "ge"}
      last == IF up THEN init + (n - 1) * step ELSE init - (n - 1) * step
      b    == IF up THEN (IF incl THEN last + slack ELSE last + step - slack)
              ELSE (IF incl THEN last - slack ELSE last - step + slack)
  IN [init |-> init, bound |-> b, cmp |-> sh[1], left |-> sh[2], upd |-> sh[3], step |-> step]
StepsOf(sh) == IF sh[3] \in {"addeq", "subeq"} THEN {1, 2, 3} ELSE {1}
AnyHdr(n) == LET sh == RandomElement(HShapes) st == RandomElement(StepsOf(sh)) IN
             MkHdr(sh, st, RandomElement({0, 0, 1, -2, 3}), RandomElement(0..(st - 1)), n)
\* half of the loops of a sampled head keep the plain header
SomeHdr(n) == IF RandomElement({TRUE, FALSE}) THEN TH(n) ELSE AnyHdr(n)

NHead(O, I, hasSh, hasEx, base, omap, style) ==
  [O |-> O, I |-> I, OH |-> THs(O), IH |-> THs(I), limit |-> Prod(O) * Prod(I), hasSh |-> hasSh, hasEx |-> hasEx, base |-> base,
   omap |-> omap, style |-> style, hasRow |-> FALSE, phases |-> <<>>]
WithRow(h) == [h EXCEPT !.hasRow = TRUE]
StV(op, e, cond, cell, n, via) == [op |-> op, e |-> e, cond |-> cond, cell |-> cell, n |-> n, via |-> via]
St(op, e, cond, cell, n) == StV(op, e, cond, cell, n, "direct")
Plain(ops, E) == {St(op, e, "none", "c0", 1) : op \in ops, e \in E}

\* plans: 1..nn nests, each 1..np phases of 1..ns statements
RECURSIVE SeqsUpTo(_, _)
SeqsUpTo(S, n) == IF n = 0 THEN {<<>>} ELSE LET P == SeqsUpTo(S, n - 1) IN P \cup {Append(p, x) : p \in {q \in P : Len(q) = n - 1}, x \in S}
NonEmptySeqs(S, n) == SeqsUpTo(S, n) \ {<<>>}
PlanSet(nn, np, ns) == NonEmptySeqs(NonEmptySeqs(1..ns, np), nn)

\* =========================================================================================
\* D: design menus (kept small: every kernel is run under every interleaving)
DBase == Bin("+", In("o"), A)
DHeads(c) ==
  CASE c = "basic"  -> {NHead(<<2>>, <<2>>, FALSE, FALSE, NoE, "row", NoStyle), NHead(<<1, 2>>, <<2, 1>>, FALSE, FALSE, NoE, "col", NoStyle),
                        NHead(<<1>>, <<3>>, FALSE, FALSE, NoE, "rev", NoStyle)}
    [] c = "excl"   -> {NHead(<<2>>, <<2>>, FALSE, TRUE, NoE, "row", NoStyle), NHead(<<1>>, <<3>>, FALSE, TRUE, DBase, "rev", NoStyle)}
    [] c = "shared" -> {NHead(<<2>>, <<2>>, TRUE, FALSE, NoE, "row", NoStyle), NHead(<<1>>, <<3>>, TRUE, FALSE, NoE, "row", NoStyle)}
    [] c = "atomic" -> {WithRow(NHead(<<2>>, <<2>>, FALSE, FALSE, NoE, "row", NoStyle)), NHead(<<1>>, <<3>>, FALSE, FALSE, NoE, "row", NoStyle)}
    [] c = "mixed"  -> {NHead(<<1>>, <<3>>, TRUE, TRUE, DBase, "row", NoStyle), NHead(<<2>>, <<2>>, TRUE, TRUE, NoE, "col", NoStyle)}
    [] c = "tile"   -> {[NHead(<<2>>, <<2>>, FALSE, FALSE, NoE, "row", [NoStyle EXCEPT !.tile = TRUE]) EXCEPT !.limit = 3]}
DMenu(c) ==
  CASE c = "basic"  -> {St("out", Bin("+", In("lin"), A), "none", "c0", 1), St("outadd", Bin("*", In("rot"), IV), "none", "c0", 1),
                        St("out", In("i"), "sum", "c0", 1), St("outadd", OV, "none", "c0", 2)}
    [] c = "excl"   -> {St("exset", In("lin"), "none", "c0", 1), St("exadd", EX, "none", "c0", 1), St("out", Bin("+", EX, IV), "none", "c0", 1),
                        St("exadd", C(2), "ieven", "c0", 2)}
    [] c = "shared" -> {St("sh", In("lin"), "none", "c0", 1), St("sh", Bin("+", Sh("own"), C(1)), "none", "c0", 1),
                        St("out", Sh("rot"), "none", "c0", 1), St("out", Bin("-", Sh("rev"), Sh("own")), "none", "c0", 1),
                        St("out", In("i"), "none", "c0", 1)}
    [] c = "atomic" -> {St("atomic", In("lin"), "none", cell, 1) : cell \in {"c0", "o", "i"}}
                       \cup {St("atomsub", IV, "ieven", "c0", 2), St("atominc", C(1), "none", "i", 1), St("out", In("lin"), "none", "c0", 1),
                             StV("atomic", In("i"), "none", "c0", 1, "ptr"), StV("atomdec", C(1), "none", "i", 1, "row"),
                             StV("atomsub", IV, "none", "o", 1, "ref"), St("atomblk", IV, "none", "i", 1)}
    [] c = "mixed"  -> {St("sh", In("lin"), "none", "c0", 1), St("exset", Sh("own"), "none", "c0", 1),
                        St("atomic", Bin("+", Sh("rev"), EX), "none", "o", 1), St("let", Sh("zero"), "none", "c0", 1),
                        St("outadd", Call(TMP, EX), "sum", "c0", 1)}
    [] c = "tile"   -> {St("out", In("lin"), "none", "c0", 1), St("outadd", IV, "ieven", "c0", 1), St("atomic", IV, "none", "c0", 1)}
DPlans(c) ==
  CASE c = "basic"  -> {<< <<1>> >>, << <<2>> >>, << <<1, 1>> >>, << <<1>>, <<1>> >>}
    [] c = "excl"   -> {<< <<2, 1>> >>, << <<1, 1, 1>> >>, << <<3>> >>}
    [] c = "shared" -> {<< <<1, 1>> >>, << <<1, 1, 1>> >>, << <<2, 1>> >>, << <<1, 2>> >>}
    [] c = "atomic" -> {<< <<2>> >>, << <<1, 1>> >>, << <<1>>, <<1>> >>}
    [] c = "mixed"  -> {<< <<2, 2>> >>, << <<2, 1, 1>> >>}
    [] c = "tile"   -> {<< <<2>> >>, << <<1>>, <<1>> >>}
DNoBar(c) == IF c \in {"shared", "mixed"} THEN BOOLEAN ELSE {FALSE}
DWraps(c) == IF c = "shared" THEN {"none", "ifo"} ELSE IF c = "atomic" THEN {"none", "ifa"} ELSE {"none"}

\* =========================================================================================
\* G: generation menus
Shapes1 == {<<1>>, <<2>>, <<3>>}
ShapesO == Shapes1 \cup {<<2, 2>>, <<1, 3>>, <<3, 1>>}
ShapesI == Shapes1 \cup {<<2, 2>>, <<1, 2>>, <<2, 1>>, <<4>>}
Maps == {"row", "rev", "col"}
GBases == {NoE, Bin("+", In("o"), A), Bin("*", OV, B), InK(7)}

LeavesBasic == {C(3), C(-2), A, B, OV, IV, In("lin"), In("i"), In("o"), In("rot"), InK(5)}
EBasic  == LeavesBasic \cup Bins(LeavesBasic, LeavesBasic)
EDeep   == {Bin("-", Bin("*", In("lin"), A), In("o")), Bin("*", Bin("+", IV, C(1)), Bin("-", B, In("rot"))),
            Call(In("lin"), IV), Call(Bin("+", A, OV), In("i")), Bin("+", Call(B, C(2)), In("rot"))}
ECtl    == {TMP, Bin("+", TMP, In("lin")), Bin("*", TMP, TMP), Call(TMP, IV)} \cup EDeep
EEx     == {EX, Bin("+", EX, IV), Bin("*", EX, In("lin")), Bin("-", A, EX), Call(EX, B)}
EShOwn  == {Sh("own"), Bin("+", Sh("own"), C(1)), Bin("*", Sh("own"), In("i"))}
EShOth  == {Sh("rot"), Sh("rev"), Sh("zero"), Bin("+", Sh("rot"), In("lin")), Bin("-", Sh("rev"), Sh("own")),
            Bin("*", Sh("zero"), Sh("rot")), Call(Sh("rev"), IV)}
EBaseU  == {BASE, Bin("+", BASE, In("lin")), Bin("*", BASE, IV)}
ESmall  == {C(3), A, IV, In("lin"), In("rot"), Bin("+", In("lin"), OV), Bin("*", In("i"), B), Bin("-", A, IV)}
Conds   == {"ieven", "ilow", "olast", "sum", "inpos"}
Cells   == {"c0", "o", "i"}

Cnd(ops, E)  == {St(op, e, c, "c0", 1) : op \in ops, e \in E, c \in Conds}
Rep(ops, E)  == {St(op, e, "none", "c0", n) : op \in ops, e \in E, n \in {2, 3}}
Vias == {"direct", "ptr", "ref", "row"}
AtomV(E, V)  == {StV(op, e, c, cell, n, v) : op \in {"atomic", "atomsub"}, e \in E, c \in {"none", "ieven", "sum"}, cell \in Cells, n \in {1, 2}, v \in V}
                \cup {StV(op, C(1), c, cell, 1, v) : op \in {"atominc", "atomdec"}, c \in {"none", "sum"}, cell \in Cells, v \in V}
Atom(E)      == AtomV(E, Vias)

StyleSet(fs) == {[f \in DOMAIN NoStyle |-> IF f = "tile" THEN FALSE ELSE (f \in on)] : on \in SUBSET fs}
\* the heads of a class are a product of component sets (kept as a record so that a simulation can
\* sample component-wise instead of building the product)
HP(Os, Is, shs, exs, bases, maps, styles, limits, rows) ==
  [Os |-> Os, Is |-> Is, shs |-> shs, exs |-> exs, bases |-> bases, maps |-> maps, styles |-> styles, limits |-> limits, rows |-> rows]
HeadParams(c) ==
  CASE c = "basic"  -> HP(ShapesO, ShapesI, {FALSE}, {FALSE}, {NoE}, Maps, {NoStyle}, {0}, {FALSE})
    [] c = "control"-> HP(ShapesO, ShapesI, {FALSE}, {FALSE}, GBases, Maps, {NoStyle}, {0}, {FALSE})
    [] c = "excl"   -> HP(ShapesO, ShapesI, {FALSE}, {TRUE}, GBases, Maps, {NoStyle}, {0}, {FALSE})
    [] c = "shared" -> HP(ShapesO, ShapesI, {TRUE}, {FALSE}, {NoE}, Maps, {NoStyle}, {0}, {FALSE})
    [] c = "atomic" -> HP(ShapesO, ShapesI, {FALSE}, {FALSE}, {NoE}, Maps, {NoStyle}, {0}, BOOLEAN)
    [] c = "mixed"  -> HP(ShapesO, ShapesI, {TRUE}, {TRUE}, GBases, Maps, {NoStyle}, {0}, BOOLEAN)
    [] c = "annot"  -> HP(ShapesO, ShapesI, BOOLEAN, BOOLEAN, {NoE, Bin("+", In("o"), A)}, {"row", "col"},
                          StyleSet({"restrict", "rt", "maxin", "simd", "xbar", "dim"}), {0}, BOOLEAN)
    [] c = "atomblock" -> HP({<<2>>, <<3>>, <<2, 2>>, <<3, 1>>}, ShapesI, {FALSE}, {FALSE}, {NoE}, Maps, {NoStyle}, {0}, {FALSE})
    [] c = "atomalias" -> HP({<<2>>, <<3>>, <<2, 2>>, <<3, 1>>}, ShapesI, {FALSE}, {FALSE}, {NoE}, Maps, {NoStyle}, {0}, {TRUE})
    [] c = "shflow" -> HP(ShapesO, ShapesI \ {<<1>>}, {TRUE}, {FALSE}, {NoE}, Maps, {NoStyle}, {0}, {FALSE})
    [] c = "tile"   -> HP(Shapes1, Shapes1 \cup {<<4>>}, {FALSE}, {FALSE}, {NoE}, Maps,
                          {[st EXCEPT !.tile = TRUE] : st \in StyleSet({"restrict", "rt"})}, 0..3, {FALSE})
\* limit = all iterations minus `less` (only @tile nests may leave iterations out)
MkHead(O, I, hs, he, bs, m, st, less, row) ==
  [NHead(O, I, hs, he, bs, IF st.dim THEN "row" ELSE m, st) EXCEPT !.limit = IF @ - less >= 1 THEN @ - less ELSE @, !.hasRow = row]
\* (GHeads: plain headers; the sampled heads of a simulation get headers from HShapes)
WithHdrs(h) == IF h.style.tile THEN h
               ELSE [h EXCEPT !.OH = [j \in 1..Len(h.O) |-> SomeHdr(h.O[j])], !.IH = [j \in 1..Len(h.I) |-> SomeHdr(h.I[j])]]
GHeads(c) == LET p == HeadParams(c) IN
  {MkHead(O, I, hs, he, bs, m, st, l, rw) : O \in p.Os, I \in p.Is, hs \in p.shs, he \in p.exs, bs \in p.bases,
                                            m \in p.maps, st \in p.styles, l \in p.limits, rw \in p.rows}

GMenu(c) ==
  CASE c = "basic"  -> Plain({"out", "outadd"}, EBasic)
    [] c = "control"-> Plain({"out", "outadd", "let"}, ESmall \cup ECtl \cup EBaseU) \cup Cnd({"out", "outadd"}, ESmall \cup ECtl)
                       \cup Rep({"outadd"}, ESmall \cup ECtl)
    [] c = "excl"   -> Plain({"exset", "exadd", "out", "outadd"}, ESmall \cup EEx \cup EBaseU)
                       \cup Cnd({"exadd", "out"}, EEx \cup ESmall) \cup Rep({"exadd"}, EEx \cup ESmall)
    [] c = "shared" -> Plain({"sh"}, ESmall \cup EShOwn) \cup Plain({"out", "outadd"}, EShOwn \cup EShOth \cup {In("lin"), IV})
                       \cup Cnd({"out"}, EShOth)
    [] c = "atomic" -> Atom(ESmall) \cup Plain({"out"}, ESmall)
    [] c \in {"mixed", "annot"} ->
                       Plain({"sh"}, ESmall \cup EShOwn \cup EEx) \cup Plain({"exset", "exadd"}, ESmall \cup EShOwn \cup EShOth \cup EEx \cup EBaseU)
                       \cup Plain({"out", "outadd", "let"}, ESmall \cup EShOwn \cup EShOth \cup EEx \cup ECtl \cup EBaseU)
                       \cup Cnd({"out", "exadd"}, EShOth \cup EEx \cup ECtl) \cup Rep({"exadd", "outadd"}, EShOth \cup EEx)
                       \cup Atom({IV, In("lin"), EX, Sh("rot"), Sh("own"), TMP, BASE})
    [] c = "atomblock" -> {St(op, e, cd, cell, n) : op \in {"atomblk", "atomblk", "atomset"}, e \in {IV, In("lin"), A, C(2)},
                                                     cd \in {"none", "sum"}, cell \in Cells, n \in {1, 2}}
                          \cup Plain({"out"}, {In("lin")})
    [] c = "atomalias" -> AtomV({IV, In("lin"), A, C(2)}, {"ptr", "ref", "row"}) \cup Plain({"out"}, {In("lin"), IV})
    [] c = "shflow" -> Plain({"sh"}, {In("lin"), Bin("+", In("rot"), IV), Bin("*", Sh("own"), C(2))})
                       \cup Plain({"out", "outadd"}, EShOth) \cup {St("atomic", Sh("rot"), "none", "o", 1)}
    [] c = "tile"   -> Plain({"out", "outadd", "let"}, ESmall \cup ECtl) \cup Cnd({"out"}, ESmall) \cup Atom({IV, In("lin")})

GPlans(c) ==
  CASE c \in {"basic", "control", "atomic"} -> PlanSet(2, 2, 2) \cup PlanSet(1, 3, 2)
    [] c \in {"excl", "shared"}   -> {p \in PlanSet(1, 3, 2) \cup PlanSet(1, 2, 3) \cup PlanSet(2, 3, 2) : \E j \in 1..Len(p) : Len(p[j]) >= 2}
                                     \cup {<< <<1, 1, 1, 1>> >>}
    [] c \in {"mixed", "annot"}   -> {p \in PlanSet(1, 3, 3) \cup PlanSet(2, 2, 3) : \E j \in 1..Len(p) : Len(p[j]) >= 2}
    [] c \in {"atomalias", "atomblock"} -> PlanSet(2, 2, 2)
    [] c = "shflow"               -> {p \in PlanSet(2, 3, 2) : \A j \in 1..Len(p) : Len(p[j]) >= 2}
    [] c = "tile"                 -> PlanSet(2, 1, 3)
GNoBar(c) == IF c \in {"shared", "mixed", "annot", "shflow"} THEN BOOLEAN ELSE {FALSE}
GWraps(c) == IF c \in {"shared", "mixed", "control", "atomic", "excl", "shflow", "atomalias", "atomblock"} THEN {"none", "block", "ifo", "ifa"} ELSE {"none"}

\* simulation: every evaluation of the generator's choice sets sees a fresh random sample of the menus
\* (TLC's simulator enumerates all successors of a state before it picks one)
Sample(n, S) == IF Cardinality(S) <= n THEN S ELSE RandomSubset(n, S)
SHeads(c) == LET p == HeadParams(c) IN
  {h \in {WithHdrs(MkHead(RandomElement(p.Os), RandomElement(p.Is), RandomElement(p.shs), RandomElement(p.exs), RandomElement(p.bases),
                 RandomElement(p.maps), RandomElement(p.styles), RandomElement(p.limits), RandomElement(p.rows))) : j \in 1..8} : HeadOK(h)}
StmtOps == {"out", "outadd", "sh", "exset", "exadd", "atomic", "atomsub", "atominc", "atomdec", "atomblk", "atomset", "let"}
\* (sampled per kind of statement and per kind of storage read, so that the rarer combinations --
\*  a read of sh or ex needs an earlier write -- are offered at every step; the partition of the
\*  menus is a constant, evaluated once)
GenClasses == {"basic", "control", "excl", "shared", "atomic", "mixed", "annot", "tile", "shflow", "atomalias", "atomblock"}
MenuParts == [c \in GenClasses |-> LET M == GMenu(c) IN
               [op \in StmtOps |-> << {s \in M : s.op = op /\ "sh" \in Kinds(s.e)},
                                      {s \in M : s.op = op /\ "ex" \in Kinds(s.e) /\ "sh" \notin Kinds(s.e)},
                                      {s \in M : s.op = op /\ "sh" \notin Kinds(s.e) /\ "ex" \notin Kinds(s.e)} >>]]
SMenu(c)  == UNION {Sample(4, MenuParts[c][op][1]) \cup Sample(3, MenuParts[c][op][2]) \cup Sample(4, MenuParts[c][op][3]) : op \in StmtOps}
\* the same number of plans for every class, so that a simulation visits the classes equally often
SPlans(c) == Sample(24, GPlans(c))

AllClasses == GenClasses

\* =========================================================================================
\* H: the header class, enumerated completely (breadth-first, no sampling): one tiny kernel per
\* header shape x loop position x variant; the loop under test has n iterations, the other loops are plain
HVar(sh, v) ==   \* variant v of shape sh: <<step, init, slack, n, run-time bound?>>
  IF sh[3] \in {"addeq", "subeq"}
    THEN CASE v = 1 -> <<2, 1, 1, 3, FALSE>> [] v = 2 -> <<3, -2, 2, 2, TRUE>> [] v = 3 -> <<2, 0, 0, 3, TRUE>> [] v = 4 -> <<3, 3, 1, 3, FALSE>>
    ELSE CASE v = 1 -> <<1, 1, 0, 3, FALSE>> [] v = 2 -> <<1, -2, 0, 2, TRUE>> [] v = 3 -> <<1, 0, 0, 3, TRUE>> [] v = 4 -> <<1, 3, 0, 2, FALSE>>
HHead(sh, pos, v) ==
  LET q == HVar(sh, v)
      h == MkHdr(sh, q[1], q[2], q[3], q[4])
      st == [NoStyle EXCEPT !.rt = q[5]]
  IN IF pos = "outer"
       THEN [NHead(<<q[4]>>, <<2>>, FALSE, FALSE, NoE, "row", st) EXCEPT !.OH = <<h>>]
     ELSE IF pos = "inner"
       THEN [NHead(<<2>>, <<q[4]>>, FALSE, FALSE, NoE, "row", st) EXCEPT !.IH = <<h>>]
     ELSE IF pos = "outer2"
       THEN [NHead(<<2, q[4]>>, <<2>>, FALSE, FALSE, NoE, "row", st) EXCEPT !.OH = <<TH(2), h>>]
     ELSE [NHead(<<1>>, <<2, q[4]>>, FALSE, FALSE, NoE, "row", st) EXCEPT !.IH = <<TH(2), h>>]
\* empty ranges (an @outer loop that runs zero times), bound at run time
HEmpty == {[NHead(<<0>>, <<2>>, FALSE, FALSE, NoE, "row", [NoStyle EXCEPT !.rt = TRUE]) EXCEPT !.OH = <<MkHdr(sh, st, 1, 0, 0)>>] :
             sh \in {<<"lt", TRUE, "preinc">>, <<"le", TRUE, "addeq">>, <<"ge", TRUE, "subeq">>, <<"gt", FALSE, "postinc">>}, st \in {1, 2}}
HHeadsOf(vs, poss) == {HHead(sh, pos, v) : sh \in HShapes, pos \in poss, v \in vs}
HHeadsQ(c) == {h \in HHeadsOf({1, 2}, {"outer", "inner"}) \cup HEmpty : HeadOK(h)}
HHeadsT(c) == {h \in HHeadsOf({1, 2, 3, 4}, {"outer", "inner", "outer2", "inner2"}) \cup HEmpty : HeadOK(h)}
HMenu(c)  == {St("outadd", Bin("+", In("lin"), Bin("*", OV, IV)), "none", "c0", 1)}
HPlans(c) == {<< <<1>> >>}
HWraps(c) == {"none"}
HNoBar(c) == {FALSE}
HClasses == {"headers"}
DesignClasses == {"basic", "excl", "shared", "atomic", "mixed", "tile"}
NoRelax == {}
RelaxRaw == {"sh-others-across-barrier"}
RelaxWar == {"sh-write-after-readers"}
RelaxEx  == {"ex-after-set"}
DWrapsQ(c) == {"none"}
\* quick tier: one head per class and the first few statements of the D menus
DHeadsQ(c) ==
  CASE c \in {"shared", "excl"} -> {h \in DHeads(c) : h.O = <<1>>}
    [] c \in {"basic", "atomic"} -> {h \in DHeads(c) : h.O = <<2>>}
    [] OTHER -> DHeads(c)
DClassesQ == {"basic", "excl", "shared", "atomic", "tile"}
DPlansQ(c) ==
  CASE c = "shared" -> {<< <<1, 1>> >>, << <<1, 1, 1>> >>}
    [] c = "mixed"  -> {<< <<2, 1, 1>> >>}
    [] c = "excl"   -> {<< <<2, 1>> >>}
    [] c = "basic"  -> {<< <<2>> >>, << <<1>>, <<1>> >>}
    [] c = "atomic" -> {<< <<2>> >>, << <<1>>, <<1>> >>}
    [] OTHER        -> DPlans(c)
=============================================================================
