\* design run on the composition of the code as found (a violation is expected): for every pair of the 12 inputs, all
\* value combinations of the pair, two builds per behaviour, both devices
SPECIFICATION Spec
CONSTANTS
  FocusGroups <- PairGroups
  Modes <- BothModes
  MaxWeight = 2
  RouteWeight = 0
  MaxBuilds = 2
  KeyVariant = "xor"
VIEW View
INVARIANTS TypeOK RunsOwnConfig SameEntry KeySeparates
