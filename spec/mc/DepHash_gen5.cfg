\* generation (thorough): every history of 5 (3 values) edit/build steps over 2 headers that ends in a build
SPECIFICATION Spec
CONSTANTS
  HSeq <- H2
  Root <- RootBoth
  Vals <- V3
  InitVal <- Init2
  MaxEdits = 9
  MaxBuilds = 9
  Variant = "chained"
  Fuel = 50
  MaxHist = 5
CONSTRAINT Emit
