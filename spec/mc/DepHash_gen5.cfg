\* generation (thorough): every history of 5 (2 values) edit/build steps over 2 headers that ends in a build
SPECIFICATION Spec
CONSTANTS
  HSeq <- H2
  Root <- RootBoth
  Vals <- V2
  InitVal <- Init2
  MaxEdits = 9
  MaxBuilds = 9
  Variant = "chained"
  Fuel = 50
  Styles <- QuotedOnly
  MaxHist = 5
CONSTRAINT Emit
