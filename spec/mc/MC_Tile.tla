------------------------------ MODULE MC_Tile ------------------------------
(* Constant definitions for the Tile runs: tiled kernel families. *)
EXTENDS Tile

Op(c)  == [c |-> c, v |-> 0]
Lit(v) == [c |-> "lit", v |-> v]
TS(c, p, q) == [c |-> c, p |-> p, q |-> q]        \* tile-size expression over literals
TLit(n) == TS("lit", n, 0)
StepOf(u, d) == IF u \in StepUpds THEN d ELSE Lit(1)
\* s = <<cmp, left, upd>>
TShape(lay, chk, ts, s, ci, cb, cs) ==
  [lay |-> lay, chk |-> chk, ts |-> ts, pos |-> "tile", ity |-> "int", nm |-> "i",
   cmp |-> s[1], left |-> s[2], upd |-> s[3], ci |-> ci, cb |-> cb, cs |-> StepOf(s[3], cs)]

IsAlignedShape(c, l, u) == ((l /\ c \in {"lt", "le"}) \/ (~l /\ c \in {"gt", "ge"})) = Up(u)
AlignedShapes == {s \in Cmps \X BOOLEAN \X Upds : IsAlignedShape(s[1], s[2], s[3])}
QuickShapes == { <<"lt", TRUE, "preinc">>, <<"le", TRUE, "addeq">>, <<"gt", TRUE, "predec">>,
                 <<"ge", TRUE, "subeq">>, <<"gt", FALSE, "postinc">>, <<"le", FALSE, "subeq">>,
                 <<"lt", TRUE, "addeq">>, <<"gt", TRUE, "subeq">> }
V == Op("var")
\* the same shape with another iterator name (the launch-bound inference reads the printed count)
Named(k, nm) == [k EXCEPT !.nm = nm]

DesignArgs   == -3..8
DesignArgsQuick == -2..5
QuickArgs    == {-2, 0, 1, 5}
ThoroughArgs == {-3, -2, 0, 1, 2, 4, 7}

\* design: every aligned header shape, tile sizes 1..4, both check settings, run-time operands
DesignTileKernels ==
  {TShape("oi", chk, TLit(n), s, V, V, V) : chk \in BOOLEAN, n \in 1..4, s \in AlignedShapes}

\* tile sizes written as expressions (all evaluate at compile time)
TileExprs == { TS("mul", 2, 2), TS("shl", 1, 1), TS("add", 1, 2), TS("paren", 1, 1), TS("sub", 5, 2), TS("band", 7, 3) }

QuickTileKernels ==
  {TShape("oi", chk, TLit(n), s, V, V, sd) : chk \in BOOLEAN, n \in {2, 3}, s \in QuickShapes, sd \in {Lit(2), V}}
  \cup {TShape(lay, TRUE, TLit(2), s, V, V, Lit(3)) : lay \in {"o", "plain", "ii", "oo", "2d"},
          s \in { <<"lt", TRUE, "preinc">>, <<"ge", TRUE, "subeq">>, <<"le", FALSE, "subeq">>, <<"lt", TRUE, "addeq">> }}
  \cup {TShape("oi", TRUE, te, s, V, V, Lit(2)) : te \in TileExprs,
          s \in { <<"lt", TRUE, "postinc">>, <<"gt", TRUE, "subeq">> }}
  \cup {TShape("plain", TRUE, te, s, V, V, Lit(2)) : te \in TileExprs,
          s \in { <<"le", TRUE, "addeq">>, <<"gt", TRUE, "predec">> }}
  \cup {Named(TShape(lay, TRUE, TLit(3), <<"lt", TRUE, "preinc">>, V, V, Lit(1)), "i2") : lay \in {"oi", "plain"}}
  \cup {TShape("oi", TRUE, TLit(2), s, Op(c), V, Lit(2)) : c \in {"add", "tern"}, s \in { <<"lt", TRUE, "addeq">>, <<"ge", TRUE, "postdec">> }}
  \cup {TShape("oi", TRUE, TLit(2), s, V, Op(c), Lit(2)) : c \in {"add", "shl", "band"}, s \in { <<"lt", TRUE, "addeq">>, <<"ge", TRUE, "postdec">> }}

ThoroughTileKernels ==
  {TShape(lay, chk, TLit(n), s, V, V, sd) : lay \in {"oi", "plain"}, chk \in BOOLEAN, n \in {1, 2, 3, 4}, s \in AlignedShapes, sd \in {Lit(2), Lit(3), V}}
  \cup {TShape(lay, chk, TLit(n), s, V, V, Lit(2)) : lay \in {"o", "ii", "oo", "2d"}, chk \in BOOLEAN, n \in {2, 3}, s \in AlignedShapes}
  \cup {TShape(lay, TRUE, te, s, V, V, Lit(2)) : lay \in {"oi", "plain"}, te \in TileExprs, s \in QuickShapes}
  \cup {Named(TShape(lay, chk, TLit(3), s, V, V, Lit(2)), "i2") : lay \in {"oi", "plain", "ii"}, chk \in BOOLEAN, s \in QuickShapes}
  \cup {TShape("oi", TRUE, TLit(2), s, Op(c), V, Lit(2)) : c \in Classes \ {"lit", "var"}, s \in QuickShapes}
  \cup {TShape("oi", TRUE, TLit(2), s, V, Op(c), Lit(2)) : c \in Classes \ {"lit", "var"}, s \in QuickShapes}
=============================================================================
