\* generation B (quick): every way to build a document of <= 3 nodes from tiny pools
SPECIFICATION Spec
CONSTANTS
  Sym <- MCSym
  NumToks <- DNums
  KeyPool <- BKeys
  LeafPool <- BLeafs
  Indents = {0, 2}
  MaxNodes = 3
  EscapeKeys = TRUE
  MaxHist = 3
CONSTRAINT Emit
