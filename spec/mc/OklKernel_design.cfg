\* exhaustive design run: every kernel of the D menus (classes basic, excl, shared, atomic, mixed, tile),
\* built by the generator and then executed under EVERY interleaving of the launch model
SPECIFICATION Spec
CONSTANTS
  Classes <- DesignClasses
  Heads <- DHeads
  Menu <- DMenu
  Plans <- DPlans
  Wraps <- DWraps
  NoBarChoices <- DNoBar
  ArgVecs <- MCArgVecs
  CheckArgs = {2}
  Mode = "design"
  BarrierRule = "scheme"
  AtomicIndivisible = TRUE
  RelaxRules <- NoRelax
INVARIANTS LaunchIsSeq NoBadAccess RunsToEnd
