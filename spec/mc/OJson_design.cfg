\* design run (quick): every document of depth <= 2 over the keys a, b; paths of <= 2 components
SPECIFICATION Spec
CONSTANTS
  KeySeq <- K2
  PathKeys = {"a", "b"}
  MaxPathLen = 2
  WriteVals <- WThree
  MergeVals <- MQ2
  SetKeys = {"a"}
  MaxDepth = 2
  Variant = "intended"
  MaxHist = 0
VIEW View
CONSTRAINT DepthBound
INVARIANTS TypeOK HasIffDefined WriteThenRead RemoveThenRead MergeRightWins
