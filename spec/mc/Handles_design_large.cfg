\* design run (thorough): 5-6 handle variables, <= 4 backend objects, all histories
SPECIFICATION Spec
CONSTANTS
  SlotSeq <- StdSlots
  KindOf <- StdKindOf
  MaxDev = 2
  MaxCells = 2
  BufBytes = 64
  CellBytes = 128
  LazyObs = FALSE
  MaxObj = 4
  MaxHist = 0
  SwapImpl = "rings"
  Profiles <- DesignLarge
VIEW View
INVARIANTS TypeOK MaxAboveAcct RingMatchesRefs DestroyedAtMostOnce DeadIsUnreferenced ParentAlive NoOrphans QuiescentNoLeak AcctOnlyLive
PROPERTIES NoEarlyDeath DeathIsFinal
