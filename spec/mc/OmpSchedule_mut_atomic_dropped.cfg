\* MUTANT placement: #pragma omp atomic dropped. Expected: OmpIsSeq violated
SPECIFICATION OmpSpec
CONSTANTS
  Classes = {"atomic"}
  Heads <- OHeads
  Menu <- DMenu
  Plans <- OPlans
  Wraps <- OWraps
  NoBarChoices <- ONoBar
  ArgVecs <- MCArgVecs
  CheckArgs = {2}
  Mode = "design"
  BarrierRule = "scheme"
  AtomicIndivisible = FALSE
  RelaxRules <- NoRelax
  NT = 2
  ShPlacement = "private"
  ExPlacement = "private"
INVARIANTS OmpIsSeq OmpNoBadAccess OmpRunsToEnd
