\* generation (thorough): all histories of 4 calls
SPECIFICATION Spec
CONSTANTS
  Cell = 128
  Sizes = {48}
  MaxCells = 2
  MaxBufs = 4
  MaxPools = 1
  MaxHist = 4
  HostPtrImpl = "counted"
