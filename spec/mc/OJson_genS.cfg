\* generation (quick): histories of 3 operations with members whose name contains a slash (set and +=)
SPECIFICATION Spec
CONSTANTS
  KeySeq <- K3
  PathKeys = {"a", "b"}
  MaxPathLen = 1
  WriteVals <- WSmall
  MergeVals <- MSl
  SetKeys = {"a/b"}
  MaxDepth = 9
  Variant = "intended"
  MaxHist = 3
CONSTRAINT Emit
