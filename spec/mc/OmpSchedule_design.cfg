\* design run (thorough): every kernel of the D menus under every distribution of the outermost @outer iterations over 3 threads and every interleaving
SPECIFICATION OmpSpec
CONSTANTS
  Classes <- DesignClasses
  Heads <- OHeads
  Menu <- DMenu
  Plans <- OPlans
  Wraps <- OWraps
  NoBarChoices <- ONoBar
  ArgVecs <- MCArgVecs
  CheckArgs = {2}
  Mode = "design"
  BarrierRule = "scheme"
  AtomicIndivisible = TRUE
  RelaxRules <- NoRelax
  NT = 3
  ShPlacement = "private"
  ExPlacement = "private"
INVARIANTS OmpIsSeq OmpNoBadAccess OmpRunsToEnd
