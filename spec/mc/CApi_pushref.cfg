\* the intended behaviour of ArrayPush (element handles stay valid), script-shaped: create; push; get 0; push; read
SPECIFICATION Spec
CONSTANTS
  Vals <- TinyVals
  Dflts <- SomeDflts
  Keys = {"a"}
  PathKeys <- NoPaths
  MaxHandles = 3
  MaxLen = 2
  Ops <- AllOps
  EchoToks <- NoToks
  PushKeepsRefs = TRUE
  MaxHist = 4
CONSTRAINT PushRefScript
CONSTRAINT Emit
INVARIANTS TypeOK LiveHandlesResolve StoreLoadIdentity OneOwnerPerDoc OwnerAliveIffNotGone
