\* design run: all actions, tiny values, histories of up to 5 calls (history hidden)
SPECIFICATION Spec
CONSTANTS
  Vals <- TinyVals
  Dflts <- SomeDflts
  Keys = {"a", "b"}
  PathKeys <- NoPaths
  MaxHandles = 3
  MaxLen = 2
  Ops <- AllOps
  EchoToks <- NoToks
  PushKeepsRefs = FALSE
  MaxHist = 0
VIEW View
CONSTRAINT HistBound5
INVARIANTS TypeOK LiveHandlesResolve StoreLoadIdentity OneOwnerPerDoc OwnerAliveIffNotGone
