\* vacuity run for C09 (see KernelCache_c08_cov.cfg): a and b build concurrently, then c; collapsed script
SPECIFICATION Spec
CONSTANTS
  Proc = {"a", "b", "c"}
  ProcSeq <- MCSeq3
  Scripts <- MCScripts
  Crashers = {}
  Late = {"c"}
  Sequential = FALSE
  Variants = {"OS"}
  VendorOutStaged = TRUE
  Collapsed = TRUE
  Emit = FALSE
VIEW View
INVARIANTS TypeOK NoPartialUnderFinalName NoBadUnderFinalName EveryProcessSucceeds AllAgree LaterBuildReuses
