\* directed generation (thorough): every history of <= 7 steps (2 headers, 3 values) on which the
\* fold of the code as found does not terminate
SPECIFICATION Spec
CONSTANTS
  HSeq <- H2
  Root <- RootBoth
  Vals <- V3
  InitVal <- Init2
  MaxEdits = 99
  MaxBuilds = 99
  Variant = "found"
  Fuel = 50
  Styles <- QuotedOnly
  MaxHist = 7
CONSTRAINT EmitDiverged
