\* MUTANT of the generator: ex may be read before it is assigned. Expected: NoBadAccess violated
SPECIFICATION Spec
CONSTANTS
  Classes = {"excl"}
  Heads <- DHeads
  Menu <- DMenu
  Plans <- DPlans
  Wraps <- DWraps
  NoBarChoices <- DNoBar
  ArgVecs <- MCArgVecs
  CheckArgs = {2}
  Mode = "design"
  BarrierRule = "scheme"
  AtomicIndivisible = TRUE
  RelaxRules <- RelaxEx
INVARIANTS LaunchIsSeq NoBadAccess RunsToEnd
