\* generation B: every way to build a document of <= 4 nodes from tiny pools
SPECIFICATION Spec
CONSTANTS
  Sym <- MCSym
  NumToks <- DNums
  KeyPool <- BKeys
  LeafPool <- BLeafs
  Indents = {0, 2}
  MaxNodes = 4
  EscapeKeys = TRUE
  MaxHist = 4
CONSTRAINT Emit
