\* generation (build tier): random histories of builds over one buildable property group
SPECIFICATION Spec
CONSTANTS
  FocusGroups <- BuildGroups
  Modes <- BothModes
  MaxWeight = 3
  RouteWeight = 0
  MaxBuilds = 10
  KeyVariant = "ideal"
VIEW GenView
CONSTRAINT Emit
