\* behaviour generation (shape coverage, quick): each scripted prefix of ShapePrefixes builds buffer / slice /
\* slice-of-slice / cast / clone / wrapped views (PrefixShapes, 8-byte int16 buffer) or views whose byte size
\* is not a multiple of their dtype size (PrefixOdd, 7-byte buffer); then EVERY single call with every argument
\* tuple of the full domain from that state (offsets {-1,0,1} for device-to-device copies)
SPECIFICATION Spec
CONSTANTS
  NViews = 7
  NStores = 4
  MaxBytes = 8
  HostInit <- Host8
  ESizes = {1, 2, 4}
  NStamps = 24
  PatMod = 200
  Dom <- DomFull
  Dom2 <- Dom2Min
  WrapAt = {0, 2}
  Progress = FALSE
  Mode = "all"
  Prefixes <- ShapePrefixes
  Depth = 1
  MaxErr <- NoErrBound
CONSTRAINT Emit
