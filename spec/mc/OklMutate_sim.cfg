\* generation (C16, simulation): random (base kernel, position, operator) over all eight seeds and
\* all valid structures with up to 5 nodes (declarations, uses, if/else, plain loops with
\* break/continue, several header variants), punctuator AND word replacements
SPECIFICATION Spec
CONSTANTS
  MaxNodes = 5
  MaxDepth = 4
  Kinds = {"fo","fi","fp","wh","if","el","bl","st","us","br","co","sh","sh2","ex","exa","toi","tii","to"}
  GoodH = {"lt","le","gt","add","rev"}
  MaxDecor = 3
  DefaultHdr = "lt"
  Seeds <- MCSeeds
  SeedIdx = {1,2,3,4,5,6,7,8}
  Puncts <- MCPuncts
  Words <- MCWords
  Brackets <- MCBrackets
  Ops = {"del","dup","swap","glue","rep","trunc","unb"}
CONSTRAINT Emit
