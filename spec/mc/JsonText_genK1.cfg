\* generation K1 (thorough): 16 symbols (all escapes and escape letters); keys of one symbol, every string of length <= 2
SPECIFICATION Spec
CONSTANTS
  Sym <- MCSymAll
  NumToks <- DNums
  KeyPool <- K1Keys
  LeafPool <- K1Leafs
  Indents = {0, 2}
  MaxNodes = 2
  EscapeKeys = TRUE
  MaxHist = 2
CONSTRAINT Emit
