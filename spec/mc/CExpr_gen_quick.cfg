\* behaviour generation (quick): every expression of depth <= 1 over the core pool (17 literals: each
\* type at its boundaries), all 22 operators; conditions of && || from CondCore
SPECIFICATION Spec
CONSTANTS
  PPMode = FALSE
  Lits <- PoolCxx
  UnOps <- AllUn
  BinOps <- AllBin
  LogOps <- AllLog
  LitIdx <- CoreIdx
  CondIdx <- CondCore
  UseTern = FALSE
  RootOp = FALSE
  MaxDepth = 1
CONSTRAINT Emit
