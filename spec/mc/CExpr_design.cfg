\* design run: machine = definition (Agreement), totality (deadlock check on, SpecT), static typing,
\* partition of the leaves into evaluated / skipped; every expression of depth <= 1 over 8 literals of
\* all kinds, every operator
SPECIFICATION SpecT
CONSTANTS
  PPMode = FALSE
  Lits <- PoolCxx
  LitIdx <- DesignIdx
  CondIdx <- CondCore
  UnOps <- AllUn
  BinOps <- AllBin
  LogOps <- AllLog
  UseTern = TRUE
  RootOp = FALSE
  MaxDepth = 1
INVARIANTS TypeOK Agreement StaticType Partition Built
