\* round trip (simulation): random sequences of three or four token classes
SPECIFICATION Spec
CONSTANTS
  Pieces <- TokenPieces
  PieceSep <- SepBlank
  MaxPieces = 4
  MinPieces = 3
  CheckKinds = TRUE
INVARIANTS TypeOK ExactlyOne RoundTrip PrintedIsLexable SeparationSuffices MunchOK
CONSTRAINT Emit
