---------------------------- MODULE MC_DimIndex ----------------------------
(* Constant definitions for the DimIndex runs. *)
EXTENDS DimIndex

K(n, D, o, cls, dcls) == [n |-> n, D |-> D, o |-> o, cls |-> cls, dcls |-> dcls]
Vars(n) == [j \in 1..n |-> "var"]
Base(n) == CASE n = 1 -> <<3>> [] n = 2 -> <<2, 3>> [] n = 3 -> <<3, 2, 3>> [] n = 4 -> <<2, 3, 2, 3>>
Id(n) == [j \in 1..n |-> j]
\* dims fitted to the classes: a position holding a {0,1}-only class gets dimension 2, any other
\* operator class dimension 3 (odd multiples make captured tails visible), plain variables the base
DFor(n, cls) == [j \in 1..n |-> IF cls[j] \in BoolOnly THEN 2 ELSE IF cls[j] = "var" THEN Base(n)[j] ELSE 3]
OneAt(n, j, c) == [i \in 1..n |-> IF i = j THEN c ELSE "var"]
AllOf(n, c) == [i \in 1..n |-> c]
NonVar == IdxClasses \ {"var"}
DimNonVar == DimClasses \ {"var"}

\* design (1): bijection for every dimension vector and every permutation
BijKernels ==
  UNION {{K(n, D, o, Vars(n), Vars(n)) : D \in [1..n -> 1..3], o \in Perms(n)} : n \in 1..3}
  \cup {K(4, D, o, Vars(4), Vars(4)) : D \in [1..4 -> 2..3], o \in Perms(4)}
\* design (2): arguments stay whole, every class in every position (dims 1: one tuple per kernel)
Ones(n) == [j \in 1..n |-> 1]
WholeKernels ==
  {K(2, Ones(2), o, cls, dcls) : o \in Perms(2), cls \in [1..2 -> IdxClasses], dcls \in {Vars(2), <<"add", "tern">>, <<"band", "shr">>, <<"dmod", "div">>}}
  \cup {K(2, Ones(2), o, Vars(2), dcls) : o \in Perms(2), dcls \in [1..2 -> DimClasses]}
  \cup {K(3, Ones(3), o, cls, Vars(3)) : o \in Perms(3), cls \in [1..3 -> {"var", "add", "div", "mod", "shr", "band", "tern", "lor", "paren"}]}
  \cup {K(4, Ones(4), o, cls, Vars(4)) : o \in {Id(4), <<4, 3, 2, 1>>, <<2, 4, 1, 3>>}, cls \in [1..4 -> {"var", "sub", "bor", "tern"}]}

\* generation
OrderKernels == UNION {{K(n, Base(n), o, Vars(n), Vars(n)) : o \in Perms(n)} : n \in 1..4}
ClassKernels(n, orders) ==
  {K(n, DFor(n, OneAt(n, j, c)), o, OneAt(n, j, c), Vars(n)) : j \in 1..n, c \in NonVar, o \in orders}
  \cup {K(n, DFor(n, AllOf(n, c)), o, AllOf(n, c), Vars(n)) : c \in NonVar, o \in orders}
\* dimension arguments: every dimension class in every position, under orders that put every position
\* first, in the middle and last
DimClassKernels ==
  {K(2, <<3, 3>>, o, Vars(2), OneAt(2, j, c)) : o \in Perms(2), j \in 1..2, c \in DimNonVar}
  \cup {K(3, <<3, 3, 3>>, o, Vars(3), OneAt(3, j, c)) : o \in {Id(3), <<2, 3, 1>>}, j \in 1..3, c \in {"add", "shr", "band", "tern", "dmod", "div"}}
  \cup {K(3, <<3, 3, 3>>, <<2, 3, 1>>, <<"band", "var", "mod">>, <<"var", c, "var">>) : c \in {"add", "tern", "bxor"}}
\* orders of arity 3 in which position 3, 2, 1 respectively is the LAST one (the inner operand of the product)
LastEach3 == {Id(3), <<3, 1, 2>>, <<2, 3, 1>>}

QuickDimKernels ==
  OrderKernels \cup ClassKernels(2, Perms(2)) \cup ClassKernels(3, LastEach3) \cup DimClassKernels
ThoroughDimKernels ==
  OrderKernels \cup ClassKernels(2, Perms(2)) \cup ClassKernels(3, Perms(3))
  \cup ClassKernels(4, {Id(4), <<4, 3, 2, 1>>, <<2, 4, 1, 3>>, <<3, 1, 4, 2>>}) \cup DimClassKernels
=============================================================================
