\* exhaustive design run (thorough tier): buffers <= 2 bytes, 2 handle slots, 2 device stores, a 2-byte host array,
\* dtype sizes 1 and 2, one data value (contents matter to ErrorLeavesMemoryUnchanged only)
SPECIFICATION Spec
CONSTANTS
  NViews = 2
  NStores = 2
  MaxBytes = 2
  HostInit <- Host2
  ESizes = {1, 2}
  NStamps = 1
  PatMod = 1
  Dom <- DomTiny
  Dom2 <- Dom2Tiny
  WrapAt = {0, 2}
  Progress = FALSE
  Mode = "all"
  Prefixes <- NoPrefix
  Depth = 0
  MaxErr <- NoErrBound
VIEW View
INVARIANTS TypeOK ViewInsideBuffer NoOrphanStore
PROPERTIES ErrorLeavesMemoryUnchanged SliceAliasesParent CloneDoesNot CopiesKeepViews
