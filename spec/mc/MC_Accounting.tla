-------------------------- MODULE MC_Accounting --------------------------
EXTENDS Accounting
P(a, x, n) == [a |-> a, x |-> x, n |-> n]
NoPrefix == << <<>> >>
\* pool histories whose backing size depends on the alignment: reservations that are not multiples of it, a released
\* middle reservation, a re-alignment before any reservation
PoolPrefixes == <<
  <<P("newPool", 1, 0), P("reserve", 1, 100), P("reserve", 1, 40), P("reserve", 1, 300), P("release", 1, 2)>>,
  <<P("newPool", 1, 0), P("reserve", 1, 100), P("reserve", 1, 300)>>,
  <<P("newPool", 1, 0), P("reserve", 1, 40), P("align", 1, 512)>>,
  <<P("newPool", 1, 0), P("align", 1, 32), P("reserve", 1, 100), P("reserve", 1, 40)>> >>
SimPrefixes == << <<>>, <<P("newPool", 1, 0), P("reserve", 1, 100)>>, <<P("newPool", 1, 0), P("reserve", 1, 100), P("reserve", 1, 40), P("reserve", 1, 300), P("release", 1, 2)>> >>
=========================================================================
