\* behaviour generation (thorough): every history of length 4 over the six FilterSmall keys
SPECIFICATION Spec
CONSTANTS
  AlphaSeq <- MCAlpha
  MaxKeyLen = 3
  MaxQueryLen = 4
  Values = {1, 2}
  KeyFilter <- FilterSmall
  MaxHist = 4
CONSTRAINT Emit
