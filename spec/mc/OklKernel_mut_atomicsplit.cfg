\* MUTANT of the scheme: @atomic dropped (load and store are separate steps). Expected: LaunchIsSeq violated
SPECIFICATION Spec
CONSTANTS
  Classes = {"atomic"}
  Heads <- DHeads
  Menu <- DMenu
  Plans <- DPlans
  Wraps <- DWraps
  NoBarChoices <- DNoBar
  ArgVecs <- MCArgVecs
  CheckArgs = {2}
  Mode = "design"
  BarrierRule = "scheme"
  AtomicIndivisible = FALSE
  RelaxRules <- NoRelax
INVARIANTS LaunchIsSeq NoBadAccess RunsToEnd
