\* simulation: random histories of 8 steps (quick) over 3 headers (h1 -> h2, h1 -> h3, h2 -> h3 possible)
SPECIFICATION Spec
CONSTANTS
  HSeq <- H3
  Root <- RootBoth
  Vals <- V3
  InitVal <- Init3
  MaxEdits = 99
  MaxBuilds = 99
  Variant = "chained"
  Fuel = 50
  Styles <- AllStyles
  MaxHist = 8
CONSTRAINT Emit
