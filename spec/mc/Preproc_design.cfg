\* design run of the directive machine: every unit of <= 5 lines, nesting <= 2, over {1, 0, defined(A), 1/0},
\* #define A 1, #undef A, #ifdef/#ifndef A, one text line
SPECIFICATION Spec
CONSTANTS
  PPMode = TRUE
  Lits <- PoolPP
  Conds <- CondPool
  Defs <- DefPool
  Texts <- TextPool
  Zero = 1
  One = 2
  Names <- DirNames
  CondIdx <- DirConds
  ElifIdx <- DirConds
  DefIdx <- DirDefs
  TextIdx <- DirTexts
  MaxLines = 5
  MaxNest = 2
  MacroFocus = FALSE
INVARIANTS StackOK OneGroup EvalIffC
PROPERTY TakenMonotone
