\* design (1): the documented index is a bijection onto 0..prod(D)-1: arity 1..3 with every D in 1..3,
\* arity 4 with every D in 2..3, all 33 permutations
SPECIFICATION DSpec
CONSTANTS
  DimKernels <- BijKernels
  WrapArgs = TRUE
INVARIANTS DTypeOK BijectionOK CellsAreARange
CHECK_DEADLOCK FALSE
