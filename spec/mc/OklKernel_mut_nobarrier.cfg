\* MUTANT of the scheme: no barrier between @inner nests. Expected: LaunchIsSeq / NoBadAccess violated
SPECIFICATION Spec
CONSTANTS
  Classes = {"shared"}
  Heads <- DHeads
  Menu <- DMenu
  Plans <- DPlans
  Wraps <- DWraps
  NoBarChoices <- DNoBar
  ArgVecs <- MCArgVecs
  CheckArgs = {2}
  Mode = "design"
  BarrierRule = "never"
  AtomicIndivisible = TRUE
  RelaxRules <- NoRelax
INVARIANTS LaunchIsSeq NoBadAccess RunsToEnd
