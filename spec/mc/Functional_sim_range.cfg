\* simulation (thorough): random histories of 4 calls on one range
SPECIFICATION SimSpec
CONSTANTS
  Mode = "range"
  Ops <- OpsRange
  Contents <- ContentsTiny
  Tilings <- TilingsThorough
  PredFns <- RPredsQuick
  MapFns <- RMapsQuick
  EachFns <- REachQuick
  Reductions <- RRedsQuick
  Scalars <- ScalarsTwo
  Slices <- SlicesQuick
  OtherLens <- OtherLensQuick
  RangeArgs <- RangeArgsAll
  Loops <- NoLoops
  TiledLoops <- NoLoops
  MaxLen = 10
  MaxAbs = 1000
  NB = 4
  MaxHist = 5
CHECK_DEADLOCK FALSE
