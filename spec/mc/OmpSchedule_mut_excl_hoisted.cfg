\* MUTANT placement: the @exclusive array is declared outside the parallel loop. Expected: violation
SPECIFICATION OmpSpec
CONSTANTS
  Classes = {"excl"}
  Heads <- OHeads
  Menu <- DMenu
  Plans <- OPlans
  Wraps <- OWraps
  NoBarChoices <- ONoBar
  ArgVecs <- MCArgVecs
  CheckArgs = {2}
  Mode = "design"
  BarrierRule = "scheme"
  AtomicIndivisible = TRUE
  RelaxRules <- NoRelax
  NT = 2
  ShPlacement = "private"
  ExPlacement = "hoisted"
INVARIANTS OmpIsSeq OmpNoBadAccess OmpRunsToEnd
