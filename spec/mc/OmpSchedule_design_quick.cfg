\* design run (quick): 2 threads, classes basic/excl/shared/atomic
SPECIFICATION OmpSpec
CONSTANTS
  Classes <- OClassesQuick
  Heads <- OHeadsQ
  Menu <- DMenu
  Plans <- OPlansQ
  Wraps <- OWraps
  NoBarChoices <- ONoBar
  ArgVecs <- MCArgVecs
  CheckArgs = {2}
  Mode = "design"
  BarrierRule = "scheme"
  AtomicIndivisible = TRUE
  RelaxRules <- NoRelax
  NT = 2
  ShPlacement = "private"
  ExPlacement = "private"
INVARIANTS OmpIsSeq OmpNoBadAccess OmpRunsToEnd
