\* nests of 2..6 OKL loops: tuples of the cross product (sequential order)
SPECIFICATION NSpec
CONSTANTS
  NestKernels <- MCNests
  PairVals <- MCPairsThorough
  ArgVals = {0}
  StepVals = {1}
  Fuel = 6
  OneQ = TRUE
  MaxAbs = 8
INVARIANTS NestCountOK
CONSTRAINT NEmit
CHECK_DEADLOCK FALSE
