\* generation (quick): tile-independent calls (all reductions, min, max, dot, slice, concat): every sequence over {-2,0,1,3} up to length 3 and five longer ones, then ONE call
SPECIFICATION Spec
CONSTANTS
  Mode = "array"
  Ops <- OpsUntiled
  Contents <- ContentsQuick
  Tilings <- TilingsNone
  PredFns <- PredsCore
  MapFns <- MapsCore
  EachFns <- EachQuick
  Reductions <- RedsAll
  Scalars <- ScalarsTwo
  Slices <- SlicesQuick
  OtherLens <- OtherLensQuick
  RangeArgs <- RangeArgsQuick
  Loops <- NoLoops
  TiledLoops <- NoLoops
  MaxLen = 10
  MaxAbs = 1000
  NB = 4
  MaxHist = 2
CONSTRAINT Emit
