\* design run (quick, part 2): 1 pool (<= 1536 bytes) with <= 2 live reservations of 40/100/300 bytes, alignments 32/128/512, no buffers, all histories
SPECIFICATION Spec
CONSTANTS
  ResSizes = {40, 100, 300}
  Aligns = {32, 128, 512}
  ResizeTo = {0, 200, 512}
  MaxPoolBytes = 1536
  Sizes = {16}
  MaxLiveRes = 2
  MaxBufs = 0
  MaxPools = 1
  MaxHist = 0
  HostPtrImpl = "counted"
  Prefixes <- NoPrefix
VIEW View
INVARIANTS TypeOK Conservation HighWater AllReleased PoolSane
