\* generation (C16, thorough, exhaustive): every mutation (all operators, punctuator and word
\* replacements) of all five seeds and of every valid structure with up to 3 nodes over
\* @outer/@inner/plain for/if/@shared/@exclusive/use
SPECIFICATION Spec
CONSTANTS
  MaxNodes = 3
  MaxDepth = 3
  Kinds = {"fo","fi","fp","if","us","sh","ex"}
  GoodH = {"lt"}
  MaxDecor = 1
  DefaultHdr = "lt"
  Seeds <- MCSeeds
  SeedIdx = {1,2,3,4,5}
  Puncts <- MCPuncts
  Words <- MCWords
  Brackets <- MCBrackets
  Ops = {"del","dup","swap","glue","rep","trunc","unb"}
CONSTRAINT Emit
