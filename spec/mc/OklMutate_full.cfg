\* generation (C16, thorough, exhaustive): every mutation (all operators, punctuator and word
\* replacements) of all eight seeds and of the minimal valid structure fo{fi}
SPECIFICATION Spec
CONSTANTS
  MaxNodes = 2
  MaxDepth = 2
  Kinds = {"fo","fi"}
  GoodH = {"lt"}
  MaxDecor = 0
  DefaultHdr = "lt"
  Seeds <- MCSeeds
  SeedIdx = {1,2,3,4,5,6,7,8}
  Puncts <- MCPuncts
  Words <- MCWords
  Brackets <- MCBrackets
  Ops = {"del","dup","swap","glue","rep","trunc","unb"}
CONSTRAINT Emit
