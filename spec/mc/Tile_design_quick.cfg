\* design run: every aligned header shape x tile size 1..4 x check on/off, init/bound -3..8, steps 1..3:
\* the tiled machine (block width T*S) executes exactly the original iterations
SPECIFICATION TSpec
CONSTANTS
  TileKernels <- DesignTileKernels
  StepAware = TRUE
  ArgVals <- DesignArgsQuick
  StepVals = {1, 2, 3}
  Fuel = 14
  OneQ = FALSE
  MaxAbs = 10
INVARIANTS TTypeOK TBounded TileCovers TileSound
CHECK_DEADLOCK FALSE
