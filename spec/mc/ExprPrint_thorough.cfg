SPECIFICATION Spec
CONSTANTS
  Trees <- ThoroughTrees
  EnvInit <- MCEnv
  EnvOrder <- MCEnvOrder
INVARIANTS OnlyParensAdded PrintParseIsId SpacingSuffices SameValue
CONSTRAINT Emit
