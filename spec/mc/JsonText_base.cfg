\* sensitivity run: the dump of the unrepaired code (keys verbatim) must violate RoundTrip
SPECIFICATION Spec
CONSTANTS
  Sym <- MCSym
  NumToks <- DNums
  KeyPool <- QKeys
  LeafPool <- QLeafs
  Indents = {0, 2}
  MaxNodes = 3
  EscapeKeys = FALSE
  MaxHist = 0
VIEW View
INVARIANTS TypeOK RoundTrip
