\* C09 design run (quick tier): a and b build concurrently (every interleaving), then c builds; full script; Serial+string and OpenMP+file
SPECIFICATION Spec
CONSTANTS
  Proc = {"a", "b", "c"}
  ProcSeq <- MCSeq3
  Scripts <- MCScripts
  Crashers = {}
  Late = {"c"}
  Sequential = FALSE
  Variants = {"SS", "OF"}
  VendorOutStaged = TRUE
  Collapsed = FALSE
  Emit = FALSE
VIEW View
INVARIANTS TypeOK NoPartialUnderFinalName NoBadUnderFinalName EveryProcessSucceeds AllAgree LaterBuildReuses
