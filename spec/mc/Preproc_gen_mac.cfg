\* generation, macro focus: up to two definitions (increasing) followed by one text line, all 17 definitions x 20 text lines
SPECIFICATION Spec
CONSTANTS
  PPMode = TRUE
  Lits <- PoolPP
  Conds <- CondPool
  Defs <- DefPool
  Texts <- TextPool
  Zero = 1
  One = 2
  Names <- NoIdx
  CondIdx <- NoIdx
  ElifIdx <- NoIdx
  DefIdx <- AllDefs
  TextIdx <- AllTexts
  MaxLines = 3
  MaxNest = 1
  MacroFocus = TRUE
CONSTRAINT Emit
