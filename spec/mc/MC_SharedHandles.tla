------------------------- MODULE MC_SharedHandles -------------------------
EXTENDS SharedHandles
\* scenario 1: two threads each drop one of the two handles of the object
T2 == {"t1", "t2"}
ProgDropDrop == [t \in T2 |-> IF t = "t1" THEN << <<"drop", "h1">> >> ELSE << <<"drop", "h2">> >>]
\* scenario 2: t1 copies its handle and drops both, t2 drops its own; plus accounting traffic
ProgMixed == [t \in T2 |-> IF t = "t1" THEN << <<"malloc", 2>>, <<"copy", "h1", "h3">>, <<"drop", "h3">>, <<"drop", "h1">> >>
                                      ELSE << <<"malloc", 3>>, <<"drop", "h2">>, <<"free", 3>> >>]
\* scenario 3: three threads, one drop each
T3 == {"t1", "t2", "t3"}
ProgDrop3 == [t \in T3 |-> << <<"drop", IF t = "t1" THEN "h1" ELSE IF t = "t2" THEN "h2" ELSE "h3">> >>]
===========================================================================
