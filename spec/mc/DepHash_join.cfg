\* directed generation (quick and thorough): the "join" family (see JoinShape) -- the kernel includes h1
\* only; h2, h3 join through edits of h1 / h2, are edited, leave and rejoin; 4 builds per history
SPECIFICATION Spec
CONSTANTS
  HSeq <- H3
  Root <- RootOne
  Vals <- V2
  InitVal <- Init3
  MaxEdits = 99
  MaxBuilds = 99
  Variant = "chained"
  Fuel = 50
  Styles <- JoinStyles
  MaxHist = 0
CONSTRAINT EmitJoin
