\* defective composition (header group hashed from the raw build properties; a violation is expected): every property on its own through every route (flat, modes/<mode>,
\* generic + override, other mode, device default, device modes/<mode>, device default + override), both values
SPECIFICATION Spec
CONSTANTS
  FocusGroups <- SingleGroups
  Modes <- BothModes
  MaxWeight = 1
  RouteWeight = 1
  MaxBuilds = 2
  KeyVariant = "rawhdr"
VIEW View
INVARIANTS TypeOK RunsOwnConfig SameEntry KeySeparates
