\* round trip (quick): every token class alone and every ordered pair of token classes, separated by a blank
SPECIFICATION Spec
CONSTANTS
  Pieces <- TokenPieces
  PieceSep <- SepBlank
  MaxPieces = 2
  MinPieces = 1
  CheckKinds = TRUE
INVARIANTS TypeOK ExactlyOne RoundTrip PrintedIsLexable SeparationSuffices MunchOK
CONSTRAINT Emit
