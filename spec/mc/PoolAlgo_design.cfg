\* exhaustive design run of the transcribed pool algorithm
SPECIFICATION Spec
CONSTANTS
  Align0 = 2
  Aligns = {2, 3}
  MaxReq = 3
  MaxLive = 4
  MaxOps = 5
  WithWrites = FALSE
VIEW View
INVARIANTS C03Disjoint C03Inside C03Rigid C03Contents C04Reserved C04SizeGeReserved C04ZeroWhenEmpty SizeAligned C04ResizeBelowRefused
CHECK_DEADLOCK FALSE
ACTION_CONSTRAINT EmitEdge
