\* design run: the repaired cache machine, 2 objects, 3 byte strings, unbounded depth
SPECIFICATION Spec
CONSTANTS
  Regs <- MCRegs2
  Pool <- MCPool3
  Impl = "fixed"
  MaxHist = 0
VIEW View
INVARIANTS TypeOK ShortFaithful CacheCoherent
