\* simulation: random histories of length 12 over 3 objects and 5 byte strings
SPECIFICATION SimSpec
CONSTANTS
  Regs <- MCRegs3
  Pool <- MCPool5
  Impl = "fixed"
  MaxHist = 12
