\* generation K2 (thorough): 16 symbols; every key of length <= 2, two strings
SPECIFICATION Spec
CONSTANTS
  Sym <- MCSymAll
  NumToks <- DNums
  KeyPool <- K2Keys
  LeafPool <- K2Leafs
  Indents = {0, 2}
  MaxNodes = 2
  EscapeKeys = TRUE
  MaxHist = 2
CONSTRAINT Emit
