---------------------------- MODULE MC_Dtype ----------------------------
EXTENDS Dtype
B(n) == Builtin(n)
C == Custom("C", 4, FALSE)       \* unregistered user type
R == Custom("R", 8, TRUE)        \* registered user type
E == Enum("E", <<"p", "q">>)

LeavesSmall == {B("byte"), B("int"), B("float"), B("float2"), C, R, E}
LeavesFull  == LeavesSmall \cup {B("double"), B("int8"), B("int4"), B("long"), Custom("D", 4, FALSE)}

NameSeqs(w) == IF w = 1 THEN {<<"a">>} ELSE {<<"a", "b">>, <<"b", "a">>}
\* a union can only be made from JSON text (there is no constructor), so what is below it has already
\* been read from JSON once: registered user types and types carrying an own name (enums, named
\* structs) are not placed below unions -- their handling is what the round-trip check itself examines
RECURSIVE Clean(_)
Clean(d) == \/ d.k = "builtin"
            \/ (d.k = "custom" /\ ~d.reg)
            \/ (d.k \in {"tuple", "struct", "union"} /\ d.n = "" /\ \A i \in 1..Len(d.sub) : Clean(d.sub[i]))
NoRegBelow(d) == \A i \in 1..Len(d.sub) : Clean(d.sub[i])
Composites(Ch, sizes) ==
       {Tuple(d, s) : d \in Ch, s \in sizes}
  \cup {Struct("S", <<"a">>, <<d>>) : d \in Ch}
  \cup {Struct("", fn, <<d1, d2>>) : fn \in NameSeqs(2), d1 \in Ch, d2 \in Ch}
  \cup {u \in ({Union(<<"a">>, <<d>>) : d \in Ch} \cup {Union(fn, <<d1, d2>>) : fn \in NameSeqs(2), d1 \in Ch, d2 \in Ch}) : NoRegBelow(u)}

\* quick: all composites of depth 1 over 7 leaves, depth 2 over 3 leaves + 4 depth-1 values
Sub1Small == {Tuple(B("float"), 2), Tuple(C, 2), Struct("", <<"a", "b">>, <<B("int"), B("float")>>), Union(<<"a">>, <<B("int")>>)}
PoolQuick == LeavesSmall \cup Composites(LeavesSmall, {2, 3})
             \cup Composites({B("int"), B("float"), C} \cup Sub1Small, {2})
\* thorough: 12 leaves; depth 2 over 5 leaves + 8 depth-1 values
Sub1Full == Sub1Small \cup {Tuple(R, 3), Struct("S", <<"a">>, <<E>>), Struct("", <<"b", "a">>, <<B("float2"), C>>),
                            Union(<<"a", "b">>, <<B("float"), B("float")>>)}
PoolFull == LeavesFull \cup Composites(LeavesFull, {2, 3})
            \cup Composites({B("int"), B("float"), B("float2"), C, R} \cup Sub1Full, {2, 3})

\* kernel argument metadata: 0..2 arguments over a few dtypes x const x ptr
ArgTypes == {B("int"), B("float2"), Struct("", <<"a", "b">>, <<B("int"), B("float")>>), E, Tuple(B("double"), 3)}
Args(nm) == {[const |-> c, ptr |-> p, name |-> nm, dtype |-> d] : c \in BOOLEAN, p \in BOOLEAN, d \in ArgTypes}
MetasAll == {[name |-> "k0", args |-> <<>>]}
            \cup {[name |-> "k1", args |-> <<a>>] : a \in Args("x")}
            \cup {[name |-> "k2", args |-> <<a, b>>] : a \in Args("x"), b \in Args("y")}
=========================================================================
