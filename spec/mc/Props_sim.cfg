\* simulation: random shape (absent / scalar / nested a / nested b) per layer AND per target
SPECIFICATION Spec
CONSTANTS
  ModeSeq <- MCModes
  ShapeFns <- PerObjectSample
  MaxHist = 1
CONSTRAINT Emit
INVARIANTS TypeOK DeviceIsIntended ObjectsAreIntended NoOtherModeEntry
