\* C09 design run: a, b, c build concurrently (every interleaving), then d builds; collapsed script, Serial + string kernel
SPECIFICATION Spec
CONSTANTS
  Proc = {"a", "b", "c", "d"}
  ProcSeq <- MCSeq4
  Scripts <- MCScripts
  Crashers = {}
  Late = {"d"}
  Sequential = FALSE
  Variants = {"SS"}
  VendorOutStaged = TRUE
  Collapsed = TRUE
  Emit = FALSE
VIEW View
INVARIANTS TypeOK NoPartialUnderFinalName NoBadUnderFinalName EveryProcessSucceeds AllAgree LaterBuildReuses
