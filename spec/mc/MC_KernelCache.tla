--------------------------- MODULE MC_KernelCache ---------------------------
(* constant definitions that a .cfg cannot express, for the KernelCache runs (C08, C09) *)
EXTENDS KernelCache, KernelScript
MCSeq1 == <<"a">>
MCSeq2 == <<"a", "b">>
MCSeq3 == <<"a", "b", "c">>
MCSeq4 == <<"a", "b", "c", "d">>
MCScripts == [v \in {"SS", "SF", "OS", "OF"} |-> Script(v)]

(* Schedule generation for C09: the family  a^x b^* a^*  -- a runs x of its file-system steps, is then
   held while b runs its whole build, and resumes; finally the late process c builds.  One behaviour
   per x.  These are the schedules that are imposed on real processes (a is stopped with SIGSTOP right
   after the call of its x-th step, b runs to completion, a is continued). *)
SchedAction ==
  /\ (Len(hist') > Len(hist) /\ hist'[Len(hist')].p = "a") => st["b"] # "run"
  /\ (st'["a"] # st["a"]) => st["b"] # "run"
  /\ (st["b"] = "idle" /\ st'["b"] = "run") => (st["a"] = "run" /\ Len(hist) > 0)
Brief(h) == <<h.p, h.e, h.f, h.t, h.r>>
EmitSched == AllTerminated =>
               PrintT(<<"B", ToJson([variant |-> variant,
                                     st |-> st, val |-> val, nspawn |-> nspawn,
                                     hist |-> [i \in 1..Len(hist) |-> Brief(hist[i])]])>>)
=============================================================================
