\* simulation: random units of <= 12 lines, nesting <= 3, over the whole menus
SPECIFICATION Spec
CONSTANTS
  PPMode = TRUE
  Lits <- PoolPP
  Conds <- CondPool
  Defs <- DefPool
  Texts <- TextPool
  Zero = 1
  One = 2
  Names <- AllNames
  CondIdx <- AllConds
  ElifIdx <- AllConds
  DefIdx <- AllDefs
  TextIdx <- AllTexts
  MaxLines = 12
  MaxNest = 3
  MacroFocus = FALSE
CONSTRAINT Emit
