SPECIFICATION TSpec
CONSTANTS
  TileKernels <- QuickTileKernels
  StepAware = TRUE
  ArgVals <- QuickArgs
  StepVals = {1, 2, 3}
  Fuel = 9
  OneQ = TRUE
  MaxAbs = 8
INVARIANTS TileCovers
CONSTRAINT TEmit
CHECK_DEADLOCK FALSE
