\* MUTANT placement: the @shared array is declared outside the parallel loop (one array for all threads). Expected: violation
SPECIFICATION OmpSpec
CONSTANTS
  Classes = {"shared"}
  Heads <- OHeads
  Menu <- DMenu
  Plans <- OPlans
  Wraps <- OWraps
  NoBarChoices <- ONoBar
  ArgVecs <- MCArgVecs
  CheckArgs = {2}
  Mode = "design"
  BarrierRule = "scheme"
  AtomicIndivisible = TRUE
  RelaxRules <- NoRelax
  NT = 2
  ShPlacement = "hoisted"
  ExPlacement = "private"
INVARIANTS OmpIsSeq OmpNoBadAccess OmpRunsToEnd
