\* simulation: random histories of length 12 over all 14 keys, one printed behaviour per trace
SPECIFICATION SimSpec
CONSTANTS
  AlphaSeq <- MCAlpha
  MaxKeyLen = 3
  MaxQueryLen = 4
  Values = {1, 2}
  KeyFilter <- FilterAll
  MaxHist = 12
CHECK_DEADLOCK FALSE
