\* simulation: random histories of length 12 over all 14 keys
SPECIFICATION Spec
CONSTANTS
  AlphaSeq <- MCAlpha
  MaxKeyLen = 3
  MaxQueryLen = 4
  Values = {1, 2}
  KeyFilter <- FilterAll
  MaxHist = 12
CONSTRAINT Emit
