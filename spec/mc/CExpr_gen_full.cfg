\* behaviour generation (thorough): every expression of depth <= 1 over the whole pool (58 literals)
SPECIFICATION Spec
CONSTANTS
  PPMode = FALSE
  Lits <- PoolCxx
  UnOps <- AllUn
  BinOps <- AllBin
  LogOps <- AllLog
  LitIdx <- AllIdx
  CondIdx <- CondAll
  UseTern = FALSE
  RootOp = FALSE
  MaxDepth = 1
CONSTRAINT Emit
