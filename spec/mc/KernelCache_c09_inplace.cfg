\* model self-test: with the in-place output a concurrent reader MUST be able to fail
SPECIFICATION Spec
CONSTANTS
  Proc = {"a", "b"}
  ProcSeq <- MCSeq2
  Scripts <- MCScripts
  Crashers = {}
  Late = {}
  Sequential = FALSE
  Variants = {"SS"}
  VendorOutStaged = FALSE
  Collapsed = TRUE
  Emit = FALSE
VIEW View
INVARIANTS EveryProcessSucceeds
