\* behaviour generation (thorough): EVERY history of length <= 2 in which only the last call may leave the
\* state unchanged -- buffers <= 4 bytes, a 4-byte host array, dtype sizes 1/2/4, the full argument
\* domain -2..L+2 + HUGE/NEGHUGE for single-handle calls, offset classes for device-to-device copies
SPECIFICATION Spec
CONSTANTS
  NViews = 3
  NStores = 3
  MaxBytes = 4
  HostInit <- Host4
  ESizes = {1, 2, 4}
  NStamps = 24
  PatMod = 200
  Dom <- DomFull
  Dom2 <- Dom2Class
  WrapAt = {0, 2}
  Progress = TRUE
  Mode = "all"
  Prefixes <- NoPrefix
  Depth = 2
  MaxErr <- NoErrBound
CONSTRAINT Emit
