\* generation (C22, thorough): break/continue -- every structure with up to 4 nodes / depth 4 over
\* @outer, @inner, plain for, while, bare block with ONE break or continue,
\* breaking at most one rule group
SPECIFICATION Spec
CONSTANTS
  MaxNodes = 4
  MaxDepth = 4
  Kinds = {"fo","fi","fp","wh","bl","br","co"}
  GoodH = {"lt"}
  BadH = {}
  RetTypes = {"void"}
  MaxDecor = 1
  MaxBroken = 1
  DefaultHdr = "lt"
CONSTRAINT Emit
