\* evaluates the ASSUMEs of MC_BV on the whole sample (thorough tier)
INIT Init
NEXT Next
CONSTANT Full = TRUE
