\* generation (C22, quick): directed families -- two branches of up to 3 loops (siblings, if/else),
\* three branches of up to 2 loops, break/continue below up to 2 wrappers, declaration places,
\* loop orders of up to 4 loops; exhaustive, nothing filtered
SPECIFICATION Spec
CONSTANTS
  Families = {"branch2","branch3","skip","place","order","pairdecl","pairnest"}
  MaxChain = 3
  MaxChain3 = 2
INVARIANT TypeOK
CONSTRAINT Emit
