\* generation (thorough): tile-independent calls on every sequence over {-2,-1,0,1,3} up to length 3, over {0,2} up to length 5, ten longer ones
SPECIFICATION Spec
CONSTANTS
  Mode = "array"
  Ops <- OpsUntiled
  Contents <- ContentsThorough
  Tilings <- TilingsNone
  PredFns <- PredsCore
  MapFns <- MapsCore
  EachFns <- EachQuick
  Reductions <- RedsAll
  Scalars <- ScalarsTwo
  Slices <- SlicesQuick
  OtherLens <- OtherLensQuick
  RangeArgs <- RangeArgsQuick
  Loops <- NoLoops
  TiledLoops <- NoLoops
  MaxLen = 18
  MaxAbs = 1000
  NB = 4
  MaxHist = 2
CONSTRAINT Emit
