\* the deviation found in tile.cpp (block width T instead of T*S) on the model: still sound, and
\* complete for stride 1 only (TileCovers would be violated: see notes/log/C18.md)
SPECIFICATION TSpec
CONSTANTS
  TileKernels <- DesignTileKernels
  StepAware = FALSE
  ArgVals <- QuickArgs
  StepVals = {1, 2, 3}
  Fuel = 14
  OneQ = FALSE
  MaxAbs = 10
INVARIANTS TileSound WidthIgnoringStepLoses
CHECK_DEADLOCK FALSE
