\* generation (thorough): every continuation of length 3 of the pool prefixes
SPECIFICATION Spec
CONSTANTS
  ResSizes = {40, 100, 300}
  Aligns = {32, 128, 512}
  ResizeTo = {0, 200, 512, 1024}
  MaxPoolBytes = 2048
  Sizes = {48}
  MaxLiveRes = 4
  MaxBufs = 1
  MaxPools = 1
  MaxHist = 3
  HostPtrImpl = "counted"
  Prefixes <- PoolPrefixes
CONSTRAINT PrefixOK
