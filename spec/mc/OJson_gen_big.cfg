\* generation (thorough): every history of 2 operations; paths of <= 3 components, all right-hand sides
SPECIFICATION Spec
CONSTANTS
  KeySeq <- K3
  PathKeys = {"a", "b"}
  MaxPathLen = 3
  WriteVals <- WAll
  MergeVals <- MAll
  SetKeys = {"a", "a/b", "b"}
  MaxDepth = 9
  Variant = "intended"
  MaxHist = 2
CONSTRAINT Emit
