\* design run on the name-tagged XOR fold (the repair first planned): 2 headers (h1 may include h2), 3 values, <= 5 edits and <= 4 builds
SPECIFICATION Spec
CONSTANTS
  HSeq <- H2
  Root <- RootBoth
  Vals <- V3
  InitVal <- Init2
  MaxEdits = 5
  MaxBuilds = 4
  Variant = "tagged"
  Fuel = 50
  Styles <- QuotedOnly
  MaxHist = 0
VIEW View
INVARIANTS TypeOK NoStaleRun ResolveTerminates
