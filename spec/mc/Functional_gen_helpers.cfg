\* generation: helper methods (indexOf, lastIndexOf, includes, reverse, clamp, shiftLeft, shiftRight) on six arrays x two tile settings
SPECIFICATION Spec
CONSTANTS
  Mode = "array"
  Ops <- OpsHelpers
  Contents <- ContentsTiny
  Tilings <- TilingsTwo
  PredFns <- PredsCore
  MapFns <- MapsCore
  EachFns <- EachQuick
  Reductions <- RedsState
  Scalars <- ScalarsQuick
  Slices <- SlicesQuick
  OtherLens <- OtherLensQuick
  RangeArgs <- RangeArgsQuick
  Loops <- NoLoops
  TiledLoops <- NoLoops
  MaxLen = 10
  MaxAbs = 1000
  NB = 4
  MaxHist = 2
CONSTRAINT Emit
