--------------------------- MODULE MC_KernelKey ---------------------------
EXTENDS KernelKey
\* design run: any two of the twelve inputs vary together
AllGroup == {AllProps}
\* the groups whose members share a JSON type (the collisions of the found code live here), and
\* every input together with okl (which the found code does not hash at all)
KindGroups == {StrProps, ArrProps \cup ObjProps \cup {"source", "okl"}}
\* groups that can really be built (thorough tier): members accept a common value, or are
\* observable on the kernel's output
BuildGroups == { {"includes", "headers"},
                 {"compiler_flags", "compiler_linker_flags", "compiler_shared_flags"},
                 {"defines", "source"}, {"okl", "includes"}, {"compiler", "compiler_env_script"},
                 {"defines", "headers"}, {"compiler", "compiler_flags"}, {"okl", "source"} }
\* quick design run: every pair of inputs (all nine value combinations of the two)
PairGroups == {g \in SUBSET AllProps : Cardinality(g) = 2}
\* every routed property on its own
SingleGroups == {{p} : p \in AllProps \ {"source"}}
BothModes == {"Serial", "OpenMP"}
=============================================================================
