\* generation (C22, quick): @tile loops -- every structure with up to 2 nodes over the seven
\* @tile(4[, @outer|@inner[, @outer|@inner]]) forms, @outer, @inner and if, with at most one
\* decoration (break, a @shared/@exclusive declaration), breaking at most one rule group.
\* The rules are evaluated on the expansion of each @tile node into its two loops.
SPECIFICATION Spec
CONSTANTS
  MaxNodes = 2
  MaxDepth = 2
  Kinds = {"fo","fi","if","toi","too","tii","tio","to","ti","tp","br","sh","ex"}
  GoodH = {"lt"}
  BadH = {}
  RetTypes = {"void"}
  MaxDecor = 1
  MaxBroken = 1
  DefaultHdr = "lt"
INVARIANTS TypeOK RuleSanity
CONSTRAINT Emit
