---------------------------- MODULE MC_DepHash ----------------------------
EXTENDS DepHash
H2 == <<"h1", "h2">>
H3 == <<"h1", "h2", "h3">>
RootOne == {"h1"}
RootBoth == {"h1", "h2"}
Init2 == [h \in {"h1", "h2"} |-> IF h = "h1" THEN 1 ELSE 2]
Init3 == [h \in {"h1", "h2", "h3"} |-> IF h = "h1" THEN 1 ELSE IF h = "h2" THEN 2 ELSE 1]
QuotedOnly == {"quoted"}
JoinStyles == {"angle", "mixed"}
GenStyles == {"quoted"}
AllStyles == {"quoted", "angle", "mixed", "mixed2"}
V3 == 1..3
V2 == 1..2
=============================================================================
