---------------------------- MODULE MC_JsonText ----------------------------
EXTENDS JsonText
\* content symbols in byte order: \t \n " (#..-) / \ n u (v..0xff)
MCSym == <<"TAB", "NL", "QUOTE", "LO", "SLASH", "BSLASH", "n", "u", "HI">>
\* + NUL (thorough tier: a raw NUL byte in the text is a recorded finding)
MCSymNul == <<"NUL">> \o MCSym
Strs(S, lo, hi) == UNION {[1..m -> S] : m \in lo..hi}
S9 == {MCSym[i] : i \in 1..Len(MCSym)}
S10 == {MCSymNul[i] : i \in 1..Len(MCSymNul)}
Special == {<<"QUOTE", "BSLASH">>, <<"BSLASH", "QUOTE">>, <<"BSLASH", "n">>, <<"BSLASH", "u">>,
            <<"BSLASH", "BSLASH">>, <<"BSLASH", "NL">>, <<"QUOTE", "QUOTE">>, <<"NL", "TAB">>}
StrVs(T) == {StrV(s) : s \in T}
NumVs(T) == {NumV(t) : t \in T}

\* ---- design run: every document of at most 3 nodes over these pools
DNums    == {"#a"}
DKeys    == Strs(S9, 1, 1) \cup {<<"QUOTE", "BSLASH">>, <<"BSLASH", "n">>}
DLeafs   == {NullV} \cup NumVs({"true", "#a"}) \cup StrVs(Strs(S9, 0, 1) \cup Special)
\* ---- design run, quick tier: the same with the symbols that matter for the format only
QKeys    == {<<"QUOTE">>, <<"BSLASH">>, <<"LO">>, <<"BSLASH", "n">>}
QLeafs   == {NullV, NumV("true")}
            \cup StrVs({<<>>, <<"QUOTE">>, <<"BSLASH">>, <<"NL">>, <<"BSLASH", "n">>})
\* ---- generation A (strings): root + one child, every string / key of length <= 2
AKeys    == Strs(S9, 1, 2)
ALeafs   == StrVs(Strs(S9, 0, 2))
\*      quick tier: (A1) keys of one symbol x every string of <= 2 symbols; (A2) every key of <= 2 symbols x 2 strings
A1Keys   == Strs(S9, 1, 1)
A2Leafs  == StrVs({<<>>, <<"QUOTE", "BSLASH">>})
\* ---- generation B (shapes): up to 4 nodes, tiny pools
BKeys    == {<<"LO">>, <<"QUOTE">>, <<"BSLASH", "n">>}
BLeafs   == {NullV, NumV("true"), NumV("#a"), StrV(<<>>), StrV(<<"QUOTE", "BSLASH">>)}
\* ---- generation C (numbers): every number token as root, array element and member
CNums    == {"false", "true"} \cup {"#" \o t : t \in
             {"u8:0", "u8:max", "i8:min", "i8:-1", "i8:max", "u16:max", "i16:min", "i16:max",
              "u32:0", "u32:max", "u32:big", "i32:min", "i32:-1", "i32:0", "i32:1", "i32:max",
              "u64:0", "u64:max", "u64:big", "i64:min", "i64:-1", "i64:max", "i64:big",
              "f32:0", "f32:-0", "f32:1", "f32:0.1", "f32:max", "f32:lowest", "f32:min", "f32:denorm", "f32:third", "f32:r1", "f32:r2",
              "f64:0", "f64:-0", "f64:1", "f64:0.1", "f64:max", "f64:lowest", "f64:min", "f64:denorm", "f64:third", "f64:1e22", "f64:pi", "f64:r1", "f64:r2", "f64:big-int",
              \* values that need the maximal number of significant digits to be read back exactly
              \* (9 for float, 17 for double; chosen per seed from different binades and signs), the
              \* neighbours of "nice" values, and seeded random bit patterns
              "f32:d9a", "f32:d9b", "f32:d9c", "f32:d9d", "f32:d9e", "f32:d9f", "f32:d9g", "f32:d9h",
              "f32:1+", "f32:1-", "f32:0.1+", "f32:0.1-", "f32:max-", "f32:min+", "f32:r3", "f32:r4", "f32:r5", "f32:r6",
              "f64:d17a", "f64:d17b", "f64:d17c", "f64:d17d", "f64:d17e", "f64:d17f", "f64:d17g", "f64:d17h",
              "f64:1+", "f64:1-", "f64:0.1+", "f64:0.1-", "f64:max-", "f64:min+", "f64:r3", "f64:r4", "f64:r5", "f64:r6"}}
CKeys    == {<<"LO">>, <<"QUOTE", "n">>}
CLeafs   == NumVs(CNums)
\* ---- simulation (thorough): bigger documents, medium pools
SKeys    == Strs(S9, 1, 1) \cup Special \cup {<<"LO", "HI", "LO">>, <<"n", "u", "n">>}
SLeafs   == {NullV} \cup NumVs({"true", "false", "#i32:-1", "#u64:max", "#f64:0.1", "#f32:third", "#i64:min",
                                  "#f32:d9a", "#f32:d9e", "#f64:d17b", "#f64:d17g", "#f32:r3", "#f64:r3"})
            \cup StrVs(Strs(S9, 0, 1) \cup Special \cup {<<"LO", "HI", "SLASH", "u">>})
\* ---- every symbol the format treats specially (thorough): \b \t \n \f \r " / \ and the escape letters b f n r t u
MCSymAll == <<"BS", "TAB", "NL", "FF", "CR", "QUOTE", "LO", "SLASH", "BSLASH", "b", "f", "n", "r", "t", "u", "HI">>
S16 == {MCSymAll[i] : i \in 1..Len(MCSymAll)}
K1Keys   == Strs(S16, 1, 1)
K1Leafs  == StrVs(Strs(S16, 0, 2))
K2Keys   == Strs(S16, 1, 2)
K2Leafs  == StrVs({<<>>, <<"BSLASH", "r">>})
\* ---- NUL byte (known finding): the smallest documents containing it
ZKeys    == {<<"NUL">>, <<"LO", "NUL", "HI">>}
ZLeafs   == StrVs({<<"NUL">>, <<"LO", "NUL", "HI">>, <<>>})
ZNums    == {}
=============================================================================
