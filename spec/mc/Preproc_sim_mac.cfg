\* simulation, macro focus: a random increasing subset of the definitions followed by one text line
SPECIFICATION Spec
CONSTANTS
  PPMode = TRUE
  Lits <- PoolPP
  Conds <- CondPool
  Defs <- DefPool
  Texts <- TextPool
  Zero = 1
  One = 2
  Names <- NoIdx
  CondIdx <- NoIdx
  ElifIdx <- NoIdx
  DefIdx <- AllDefs
  TextIdx <- AllTexts
  MaxLines = 14
  MaxNest = 1
  MacroFocus = TRUE
CONSTRAINT Emit
