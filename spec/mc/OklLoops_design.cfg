\* design run: all 48 header shapes (4 comparisons x 2 operand orders x 6 updates), init/bound in -3..6,
\* steps 1..3: the sequential machine = SeqIters, and the transcribed Count/IterOf scheme covers it
SPECIFICATION Spec
CONSTANTS
  Kernels <- DesignKernels
  ArgVals <- DesignArgs
  StepVals = {1, 2, 3}
  Fuel = 12
  OneQ = FALSE
  MaxAbs = 8
INVARIANTS TypeOK FuelOK MachineIsSeqIters SeqNoRepeat SchemeCovers SchemeCount ContraryIsEmpty
CHECK_DEADLOCK FALSE
