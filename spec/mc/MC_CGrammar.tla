---------------------------- MODULE MC_CGrammar ----------------------------
(* Programs of the CGrammar runs: bodies of  void k(int &a, int &b)  with a = 5, b = 3.        *)
EXTENDS CGrammar

A == Id(<<"a">>)  Bv == Id(<<"b">>)  X == Id(<<"x">>)  Y == Id(<<"y">>)  I == Id(<<"i">>)  S == Id(<<"s">>)  Cc == Id(<<"c">>)
Num(d, v) == Lit("prim", <<d>>, <<d>>, v, <<>>)
N0 == Num("0", 0)  N1 == Num("1", 1)  N2 == Num("2", 2)  N3 == Num("3", 3)  N5 == Num("5", 5)  N9 == Num("9", 9)
MCEnv == (<<"a">> :> 5) @@ (<<"b">> :> 3)
MCVarOrder == << <<"a">>, <<"b">> >>
INT == <<"i","n","t">>  CINT == <<"c","o","n","s","t","SP","i","n","t">>  CHAR == <<"c","h","a","r">>
CCHAR == <<"c","o","n","s","t","SP","c","h","a","r">>
Op(s) == s
E(t) == Parenthesize(t)

Conds == { E(Bin(<<">">>, A, N0)), E(Bin(<<"=","=">>, A, Bv)), Bv, E(Bin(<<"&","&">>, Bin(<<">">>, A, N2), Bin(<<"<">>, Bv, N9))), E(Un(<<"!">>, A)) }
Cond3 == { E(Bin(<<">">>, A, N0)), E(Bin(<<"=","=">>, A, Bv)), E(Un(<<"!">>, A)) }
S1 == SExpr(E(Bin(<<"=">>, A, Bin(<<"-">>, A, N1))))
S2 == SExpr(E(Bin(<<"+","=">>, Bv, A)))
S3 == SExpr(E(Un(<<"+","+">>, Bv)))
S4 == SExpr(E(Bin(<<"=">>, Bv, Bin(<<"+">>, Bin(<<"*">>, Bv, N2), N1))))
S5 == SExpr(E(Post(<<"-","-">>, A)))
S6 == SExpr(E(Bin(<<"=">>, Bv, Tern(A, N1, N2))))
Simple == {S1, S2, S3, S4}
Dec == E(Bin(<<"=">>, A, Bin(<<"-">>, A, N1)))
Apos == E(Bin(<<">">>, A, N0))

IfProgs ==
  {<<SIf(c, <<s>>, <<>>, <<>>), S3>> : c \in Conds, s \in Simple}
  \cup {<<SIf(c, <<s>>, <<>>, <<<<t>>>>)>> : c \in Cond3, s \in Simple, t \in Simple}
  \cup {<<SIf(c, <<s, S3>>, <<>>, <<<<S4, s>>>>)>> : c \in Cond3, s \in {S1, S2}}
  \* else-if chains
  \cup {<<SIf(c, <<S1>>, <<[c |-> d, body |-> <<S2>>]>>, <<>>)>> : c \in Cond3, d \in Cond3}
  \cup {<<SIf(c, <<S1>>, <<[c |-> d, body |-> <<S2>>]>>, <<<<S3>>>>)>> : c \in Cond3, d \in Cond3}
  \cup {<<SIf(c, <<S1>>, <<[c |-> d, body |-> <<S2>>], [c |-> Bv, body |-> <<S4, S3>>]>>, <<<<S3>>>>)>> : c \in Cond3, d \in Cond3}
  \* the dangling else, in every association
  \cup {<<SIf(c, <<SIf(d, <<S1>>, <<>>, <<>>)>>, <<>>, <<<<S2>>>>)>> : c \in Cond3, d \in Cond3}
  \cup {<<SIf(c, <<SIf(d, <<S1>>, <<>>, <<<<S2>>>>)>>, <<>>, <<>>)>> : c \in Cond3, d \in Cond3}
  \cup {<<SIf(c, <<SIf(d, <<S1>>, <<>>, <<<<S2>>>>)>>, <<>>, <<<<S3>>>>)>> : c \in Cond3, d \in Cond3}
  \cup {<<SIf(c, <<S1>>, <<>>, <<<<SIf(d, <<S2>>, <<>>, <<>>)>>>>)>> : c \in Cond3, d \in Cond3}
  \cup {<<SIf(c, <<S1>>, <<>>, <<<<SIf(d, <<S2>>, <<>>, <<<<S3>>>>)>>>>)>> : c \in Cond3, d \in Cond3}
  \cup {<<SIf(c, <<SWhile(Apos, <<SIf(d, <<Dec2>>, <<>>, <<>>)>>)>>, <<>>, <<<<S3>>>>)>> : c \in Cond3, d \in {Bv}, Dec2 \in {S1}}
  \cup {<<SIf(c, <<SIf(d, <<SIf(Bv, <<S1>>, <<>>, <<>>)>>, <<>>, <<<<S2>>>>)>>, <<>>, <<>>)>> : c \in Cond3, d \in Cond3}

LoopProgs ==
  {<<SWhile(Apos, <<S1, s>>)>> : s \in Simple} \cup {<<SWhile(Apos, <<S1>>), S3>>, <<SWhile(Apos, <<S5>>)>>}
  \cup {<<SWhile(Apos, <<S1, SIf(c, <<SBreak>>, <<>>, <<>>), S3>>)>> : c \in Cond3}
  \cup {<<SWhile(Apos, <<S1, SIf(c, <<SContinue>>, <<>>, <<>>), S3>>)>> : c \in Cond3}
  \cup {<<SWhile(Apos, <<S1, SIf(c, <<SBreak>>, <<>>, <<<<SContinue>>>>), S3>>)>> : c \in Cond3}
  \cup {<<SDo(<<S1, s>>, Apos)>> : s \in Simple} \cup {<<SDo(<<S1>>, Apos), S3>>, <<SDo(<<S5>>, E(Bin(<<">">>, A, N2)))>>}
  \cup {<<SDo(<<S1, SIf(c, <<SContinue>>, <<>>, <<>>), S3>>, Apos)>> : c \in Cond3}
  \cup {<<SDo(<<SIf(c, <<S1>>, <<>>, <<<<S5, S3>>>>)>>, Apos)>> : c \in Cond3}
  \cup {<<SFor(SDecl(INT, <<Var(<<"i">>, N0)>>), E(Bin(<<"<">>, I, A)), E(Un(<<"+","+">>, I)), <<s>>)>> : s \in {S2, S3, S4, SExpr(E(Bin(<<"+","=">>, Bv, I)))}}
  \cup {<<SFor(SDecl(INT, <<Var(<<"i">>, N0), Var(<<"x">>, N2)>>), E(Bin(<<"<">>, I, N3)), E(Bin(COMMA, Post(<<"+","+">>, I), Bin(<<"+","=">>, X, N1))), <<SExpr(E(Bin(<<"+","=">>, Bv, X)))>>)>>}
  \cup {<<SFor(SExpr(E(Bin(<<"=">>, Bv, N0))), Apos, Dec, <<S3>>)>>, <<SFor(SEmpty, Apos, NoExpr, <<S1, S3>>)>>,
        <<SFor(SEmpty, NoExpr, NoExpr, <<S1, SIf(E(Un(<<"!">>, A)), <<SBreak>>, <<>>, <<>>)>>)>>,
        <<SFor(SEmpty, Apos, Dec, <<>>)>>, <<SFor(SEmpty, Apos, Dec, <<SEmpty>>)>>}
  \cup {<<SFor(SDecl(INT, <<Var(<<"i">>, N0)>>), E(Bin(<<"<">>, I, N3)), E(Un(<<"+","+">>, I)),
              <<SFor(SDecl(INT, <<Var(<<"x">>, N0)>>), E(Bin(<<"<">>, X, N2)), E(Un(<<"+","+">>, X)), <<s>>)>>)>> : s \in {S3, S2}}
  \cup {<<SWhile(Apos, <<SWhile(E(Bin(<<"<">>, Bv, N9)), <<S3>>), S1>>)>>, <<SWhile(Apos, <<SDo(<<S3>>, E(Bin(<<"<">>, Bv, N5))), S1>>)>>}

SwitchProgs ==
  {<<SSwitch(c, <<SCase(N5), s, SBreak, SCase(N3), S3, SDefault, S4>>)>> : c \in {A, Bv, E(Bin(<<"+">>, A, Bv))}, s \in {S1, S2}}
  \cup {<<SSwitch(c, <<SCase(N3), S3, SCase(N5), S2, SBreak, SDefault, S4, SBreak>>), S3>> : c \in {A, Bv}}
  \cup {<<SSwitch(A, <<SDefault, S3>>)>>, <<SSwitch(A, <<SCase(N1), S3>>), S4>>, <<SSwitch(A, <<>>)>>}
  \cup {<<SWhile(Apos, <<S1, SSwitch(A, <<SCase(N2), SBreak, SCase(N3), SContinue, SDefault, S3>>), S2>>)>>}
  \cup {<<SSwitch(A, <<SCase(N5), SBlock(<<SDecl(INT, <<Var(<<"x">>, N2)>>), SExpr(E(Bin(<<"=">>, Bv, X)))>>), SBreak, SDefault, S3>>)>>}

CharA == Lit("char", <<"SQ","a","SQ">>, <<"a">>, 97, <<>>)
CharQ == Lit("char", <<"SQ","BS","SQ","SQ">>, <<"SQ">>, 39, <<>>)
CharN == Lit("char", <<"SQ","BS","n","SQ">>, <<"BS","n">>, 10, <<>>)
StrQ  == Lit("str", <<"DQ","a","BS","DQ","b","DQ">>, <<"a","DQ","b">>, 0, <<97, 34, 98>>)
StrQ1 == Lit("str", <<"DQ","BS","DQ","a","DQ">>, <<"DQ","a">>, 0, <<34, 97>>)
StrN  == Lit("str", <<"DQ","a","BS","n","DQ">>, <<"a","BS","n">>, 0, <<97, 10>>)
DeclProgs ==
  {<<SDecl(INT, <<Var(<<"x">>, E(Bin(<<"+">>, A, N1))), Var(<<"y">>, E(Bin(<<"*">>, X, N2)))>>), SExpr(E(Bin(<<"=">>, Bv, Y)))>>,
   <<SDecl(INT, <<Var(<<"x">>, NoExpr)>>), SExpr(E(Bin(<<"=">>, X, A))), SExpr(E(Bin(<<"=">>, Bv, Bin(<<"+">>, X, N1))))>>,
   <<SDecl(CINT, <<Var(<<"x">>, N3)>>), SExpr(E(Bin(<<"=">>, A, X)))>>,
   <<SDecl(INT, <<Var(<<"x">>, E(Tern(A, N1, N2)))>>), SExpr(E(Bin(<<"=">>, Bv, X)))>>,
   <<SDecl(INT, <<Var(<<"x">>, E(Bin(<<"=">>, A, N2)))>>), SExpr(E(Bin(<<"+","=">>, Bv, X)))>>,
   <<SDecl(INT, <<Var(<<"x">>, E(Cast(INT, Bin(<<"/">>, A, N2))))>>), SExpr(E(Bin(<<"=">>, Bv, X)))>>,
   <<SDecl(INT, <<Var(<<"x">>, E(Bin(<<"/">>, Cast(INT, A), N2)))>>), SExpr(E(Bin(<<"=">>, Bv, X)))>>,
   <<SDecl(INT, <<Var(<<"x">>, E(Un(<<"-">>, Un(<<"-">>, A))))>>), SExpr(E(Bin(<<"=">>, Bv, X)))>>,
   <<SDecl(INT, <<Var(<<"x">>, E(Bin(<<"-">>, A, Paren(Un(<<"-">>, Bv)))))>>), SExpr(E(Bin(<<"=">>, Bv, X)))>>,
   <<SDecl(INT, <<Var(<<"x">>, E(SizeofE(A)))>>), SExpr(E(Bin(<<"=">>, Bv, X)))>>,
   <<SBlock(<<SDecl(INT, <<Var(<<"x">>, N2)>>), SExpr(E(Bin(<<"=">>, A, X)))>>), SEmpty, SBlock(<<>>), S3>>,
   <<SBlock(<<SBlock(<<S1>>), S2>>)>>,
   <<SIf(Apos, <<S3, SReturn>>, <<>>, <<>>), S4>>, <<SWhile(Apos, <<S1, SIf(Bv, <<SReturn>>, <<>>, <<>>)>>), S4>>}
  \cup {<<SDecl(CHAR, <<Var(<<"c">>, l)>>), SExpr(E(Bin(<<"=">>, Bv, Cc)))>> : l \in {CharA, CharQ, CharN}}
  \cup {<<SDecl(CCHAR, <<Var(<<"*","s">>, l)>>), SExpr(E(Bin(<<"=">>, Bv, Index(S, N1))))>> : l \in {StrQ, StrN}}
  \cup {<<SDecl(CCHAR, <<Var(<<"*","s">>, l)>>), SExpr(E(Bin(<<"=">>, Bv, Index(S, N0))))>> : l \in {StrQ1}}

\* declared types with a width: the initial value is converted (a * 60 = 300), 64-bit arithmetic (values through g++ only)
N60 == Lit("prim", <<"6","0">>, <<"6","0">>, 60, <<>>)
Big  == Lit("prim", <<"1","0","0","0","0","0">>, <<"1","0","0","0","0","0">>, 100000, <<>>)
DeclTypes == ArithTypes \ {T_CCHAR}
TypedDeclProgs ==
  {<<SDecl(ty, <<Var(<<"x">>, E(Bin(<<"*">>, A, N60)))>>), SExpr(E(Bin(<<"=">>, Bv, X)))>> : ty \in DeclTypes}
  \cup {<<SDecl(ty, <<Var(<<"x">>, A), Var(<<"y">>, E(Bin(<<"+">>, X, N1)))>>), SExpr(E(Bin(<<"=">>, Bv, Y)))>> : ty \in DeclTypes}
  \cup {<<SDecl(ty, <<Var(<<"x">>, Big)>>), SExpr(E(Bin(<<"=">>, Bv, Bin(<<">">>, Bin(<<"*">>, X, Big), N0))))>> : ty \in DeclTypes}
  \cup {<<SDecl(ty, <<Var(<<"x">>, E(Cast(ty, Bin(<<"*">>, A, N60))))>>), SExpr(E(Bin(<<"=">>, Bv, X)))>> : ty \in DeclTypes \ {T_CINT, T_CLONG, T_CHAR}}
QuickPrograms == IfProgs \cup LoopProgs \cup SwitchProgs \cup DeclProgs \cup TypedDeclProgs
\* thorough: every if-program nested as the body of a loop, and loops inside both branches of an if
ThoroughPrograms == QuickPrograms
  \cup {<<SWhile(Apos, p \o <<S1>>)>> : p \in IfProgs}
  \cup {<<SIf(Bv, p, <<>>, <<q>>)>> : p \in {<<SWhile(Apos, <<S1>>)>>, <<SDo(<<S1>>, Apos)>>, <<SFor(SEmpty, Apos, Dec, <<S3>>)>>}, q \in LoopProgs}
BothStyles == {"braces", "minimal"}
=============================================================================
