SPECIFICATION DSpec
CONSTANTS
  DimKernels <- QuickDimKernels
  WrapArgs = TRUE
INVARIANTS WholeOK ArgsInRange MeantIsLin Sensitive
CONSTRAINT DEmit
CHECK_DEADLOCK FALSE
