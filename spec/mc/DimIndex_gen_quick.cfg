SPECIFICATION DSpec
CONSTANTS
  DimKernels <- QuickDimKernels
  WrapArgs = TRUE
INVARIANTS BijectionOK WholeOK
CONSTRAINT DEmit
CHECK_DEADLOCK FALSE
