\* behaviour generation (thorough): every aligned shape x every operand class x both positions, long iterators
SPECIFICATION Spec
CONSTANTS
  Kernels <- ThoroughKernels
  ArgVals <- ThoroughArgs
  StepVals = {1, 2, 3}
  Fuel = 9
  OneQ = FALSE
  MaxAbs = 10
INVARIANTS MachineIsSeqIters SchemeCovers
CONSTRAINT Emit
CHECK_DEADLOCK FALSE
