\* thorough design run: all configurations with <= 3 of the six string-valued properties set, and <= 3 of the six others
SPECIFICATION Spec
CONSTANTS
  FocusGroups <- KindGroups
  Modes <- BothModes
  MaxWeight = 3
  RouteWeight = 0
  MaxBuilds = 2
  KeyVariant = "tagged"
VIEW View
INVARIANTS RunsOwnConfig SameEntry KeySeparates
