\* thorough design run: every configuration of the six string-valued properties, and of the six others
SPECIFICATION Spec
CONSTANTS
  FocusGroups <- KindGroups
  Modes <- BothModes
  MaxWeight = 6
  MaxBuilds = 2
  KeyVariant = "tagged"
VIEW View
INVARIANTS RunsOwnConfig SameEntry KeySeparates
