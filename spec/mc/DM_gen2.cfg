\* behaviour generation (quick): EVERY history of length <= 2 in which only the last call may leave the
\* state unchanged -- buffers <= 4 bytes, a 4-byte host array, dtype sizes 1/2 (4 in the thorough tier), argument classes
\* {NEGHUGE,-2,-1,0,1,L,L+1,HUGE} for single-handle calls, offsets {-1,0,1} for device-to-device copies
SPECIFICATION Spec
CONSTANTS
  NViews = 3
  NStores = 3
  MaxBytes = 4
  HostInit <- Host4
  ESizes = {1, 2}
  NStamps = 24
  PatMod = 200
  Dom <- DomTinyTok
  Dom2 <- Dom2Min
  WrapAt = {0, 2}
  Progress = TRUE
  Mode = "all"
  Prefixes <- NoPrefix
  Depth = 2
  MaxErr <- NoErrBound
CONSTRAINT Emit
