\* Dtype: part "trees" over PoolFull; every value is printed with the spec's prediction; the sanity
\* theorems of the definitions and the round-trip property are checked in every state
SPECIFICATION Spec
CONSTANTS
  Pool <- PoolFull
  Metas <- MetasAll
  Part = "trees"
CONSTRAINT Emit
INVARIANTS CastReflexive ByteWildcard CycleExamples IdentityExamples BytesExamples RoundTripPreserves
