\* sensitivity run: a non-recursive merge must violate MergeRightWins
SPECIFICATION Spec
CONSTANTS
  KeySeq <- K2
  PathKeys = {"a", "b"}
  MaxPathLen = 2
  WriteVals <- WThree
  MergeVals <- MQ2
  SetKeys = {"a"}
  MaxDepth = 2
  Variant = "shallowMerge"
  MaxHist = 0
VIEW View
CONSTRAINT DepthBound
INVARIANTS TypeOK HasIffDefined WriteThenRead RemoveThenRead MergeRightWins
