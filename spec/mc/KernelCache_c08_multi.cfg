\* C08: a is killed, b builds on the leftovers and is killed too, c follows up; full script
SPECIFICATION Spec
CONSTANTS
  Proc = {"a", "b", "c"}
  ProcSeq <- MCSeq3
  Scripts <- MCScripts
  Crashers = {"a", "b"}
  Late = {"c"}
  Sequential = TRUE
  Variants = {"SS", "SF", "OS", "OF"}
  VendorOutStaged = TRUE
  Collapsed = FALSE
  Emit = FALSE
VIEW View
INVARIANTS TypeOK NoPartialUnderFinalName NoBadUnderFinalName FollowUpSucceeds
