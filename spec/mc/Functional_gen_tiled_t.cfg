\* generation (thorough): tile-dependent calls on arrays of every length 0..9 x eleven tile settings
SPECIFICATION Spec
CONSTANTS
  Mode = "array"
  Ops <- OpsTiled
  Contents <- ContentsLensT
  Tilings <- TilingsThorough
  PredFns <- PredsQuick
  MapFns <- MapsQuick
  EachFns <- EachQuick
  Reductions <- RedsState
  Scalars <- ScalarsTwo
  Slices <- SlicesQuick
  OtherLens <- OtherLensQuick
  RangeArgs <- RangeArgsQuick
  Loops <- NoLoops
  TiledLoops <- NoLoops
  MaxLen = 10
  MaxAbs = 1000
  NB = 4
  MaxHist = 2
CONSTRAINT Emit
