SPECIFICATION Spec
CONSTANTS
  Trees <- QuickTrees
  EnvInit <- MCEnv
  EnvOrder <- MCEnvOrder
INVARIANTS OnlyParensAdded PrintParseIsId SpacingSuffices SameValue
CONSTRAINT Emit
