\* simulation: random expressions of depth <= 3 over the whole pool, all operators including ?:
SPECIFICATION Spec
CONSTANTS
  PPMode = FALSE
  Lits <- PoolCxx
  UnOps <- AllUn
  BinOps <- AllBin
  LogOps <- AllLog
  LitIdx <- AllIdx
  CondIdx <- CondAll
  UseTern = TRUE
  RootOp = TRUE
  MaxDepth = 3
CONSTRAINT Emit
