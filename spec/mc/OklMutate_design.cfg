\* design run (C16): the minimal valid structure and the @tile seed, every operator with a reduced
\* punctuator set; checks that every mutation changes the text by the intended amount
SPECIFICATION Spec
CONSTANTS
  MaxNodes = 2
  MaxDepth = 2
  Kinds = {"fo","fi"}
  GoodH = {"lt"}
  MaxDecor = 0
  DefaultHdr = "lt"
  Seeds <- MCSeeds
  SeedIdx = {1}
  Puncts = {"(", "}", ";", "@"}
  Words = {"for"}
  Brackets = {"(", "}"}
  Ops = {"del","dup","swap","glue","rep","trunc","unb"}
INVARIANTS TypeOK MutationSanity
