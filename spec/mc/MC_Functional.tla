--------------------------- MODULE MC_Functional ---------------------------
(* constants of the C23 runs (a .cfg cannot express sequences or records) *)
EXTENDS FunctionalMachine

F(f, k) == [f |-> f, k |-> k]
\* hi = TRUE: reduce(type, localInit = init, fn); FALSE: reduce(type, fn)
R(rt, f, k, t2, init) == [rt |-> rt, f |-> f, k |-> k, t2 |-> t2, hi |-> (init # NoInit), init |-> init]

\* ---- array contents
SmallVals == {-2, 0, 1, 3}
Long5 == { <<3, -2, 1, 0>>, <<0, 0, 1, 0, 0>>, <<1, 1, 1, 1, 1>>, <<-2, 3, 0, 1, -2>>, <<3, 1, 0, -2, 3>> }
ContentsQuick == BoundedSeq(SmallVals, 3) \cup Long5                    \* 85 + 5, lengths 0..5
ContentsTiny  == { <<>>, <<1>>, <<0, 3>>, <<3, 0, -2>>, <<1, 1, 0, 1>>, <<-2, 3, 0, 1, -2>> }
Long9 == { <<2, -1, 0, 3, 1, -2, 0, 3, 1>>, <<0, 0, 0, 0, 0, 0, 1, 0, 0>>, <<1, 2, 3, 1, 2, 3, 1>>,
           <<-1, -1, -1, -1, -1, -1>>, <<3, 2, 1, 0, -1, -2, 3, 2>> }
ContentsThorough == BoundedSeq({-2, -1, 0, 1, 3}, 3) \cup BoundedSeq({0, 2}, 5) \cup Long5 \cup Long9
\* one or two arrays of every length (tile-dependent calls care about the length, not the values)
ContentsLens  == { <<>>, <<1>>, <<-2>>, <<0, 3>>, <<1, 1>>, <<3, 0, -2>>, <<1, 0, 1>>, <<1, 1, 0, 1>>, <<3, -2, 1, 0>>,
                   <<-2, 3, 0, 1, -2>>, <<1, 1, 1, 1, 1>> }
ContentsLensT == ContentsLens \cup { <<0, 1, 0, 1, 3, -2>>, <<1, 2, 3, 1, 2, 3, 1>>, <<3, 2, 1, 0, -1, -2, 3, 2>>,
                                     <<2, -1, 0, 3, 1, -2, 0, 3, 1>>, <<1, 1, 1, 1, 1, 1, 1, 1, 1>> }
ContentsDesign == BoundedSeq({-1, 0, 2}, 2) \cup { <<2, -1, 0>>, <<0, 2, 2>>, <<2, -1, 0, 2>>, <<0, 0, 2, -1, 2>> }

\* ---- setTileSize arguments (0 = leave unset)
TilingsQuick == { <<0, 0>>, <<2, 2>>, <<1, 3>>, <<3, 2>> }
TilingsFive  == { <<0, 0>>, <<2, 1>>, <<2, 2>>, <<1, 3>>, <<3, 2>> }
TilingsNone  == { <<0, 0>> }
TilingsTiledR == { <<2, 2>>, <<1, 3>> }
TilingsTwo   == { <<0, 0>>, <<2, 2>> }
TilingsThorough == { <<0, 0>>, <<1, 1>>, <<2, 1>>, <<2, 2>>, <<1, 3>>, <<3, 2>>, <<2, 3>>, <<4, 1>>, <<3, 3>>, <<8, 2>>, <<1, 9>> }
TilingsDesign == { <<0, 0>>, <<2, 1>>, <<1, 2>>, <<2, 2>>, <<3, 2>>, <<2, 3>> }

\* ---- lambdas
PredsQuick == { F("PA1", 0), F("PA1", 1), F("PA1", -2), F("PA1", 4), F("PA2", 1), F("PA2", -1), F("PA3", 1), F("PA3", 0) }
PredsTiled == { F("PA1", 0), F("PA1", 1), F("PA1", 4), F("PA2", 1), F("PA2", -1), F("PA3", 1) }
PredsPair  == { F("PA1", 1), F("PA2", 1) }
PredsOne   == { F("PA2", 1) }
PredsCore  == { F("PA1", 1), F("PA2", 1), F("PA2", -1) }
MapsQuick  == { F("MA1", 1), F("MA2", 2), F("MA2", -1), F("MA3", 2), F("MD2", 3) }
MapsTiled  == { F("MA2", 2), F("MA2", -1), F("MA3", 2) }
MapsCore   == { F("MA2", 2), F("MD2", 3) }
MapsDesign == { F("MA1", 0), F("MA2", -1), F("MA3", 2) }
EachQuick  == { F("FE", 2) }
RedsAll == { R("sum", "RS1", 0, "int", NoInit), R("sum", "RS1", 0, "long", NoInit), R("sum", "RS1", 0, "double", NoInit),
             R("sum", "RS2", 2, "int", NoInit), R("sum", "RS3", 0, "int", NoInit),
             R("multiply", "RM1", 0, "int", NoInit),
             R("bitOr", "RO1", 0, "int", NoInit), R("bitAnd", "RA1", 0, "int", NoInit), R("bitXor", "RX1", 0, "int", NoInit),
             R("boolOr", "RBO", 2, "bool", NoInit), R("boolOr", "RBO", 5, "bool", NoInit), R("boolAnd", "RBA", 0, "bool", NoInit),
             R("min", "RMIN", 0, "int", NoInit), R("max", "RMAX", 0, "int", NoInit), R("max", "RMAX", 0, "long", NoInit),
             R("min", "RMNC", 2, "int", 1000), R("max", "RMXC", -1, "int", -1000) }
RedsState == { R("sum", "RS1", 0, "int", NoInit), R("max", "RMAX", 0, "long", NoInit), R("boolOr", "RBO", 5, "bool", NoInit),
               R("min", "RMIN", 0, "int", NoInit) }
ScalarsQuick == {-2, 0, 1, 2}
ScalarsTwo == {0, 1}
ScalarsOne == {1}
ScalarsDesign == {-1, 2}
SlicesQuick == { <<0, -1>>, <<1, -1>>, <<0, 0>>, <<1, 1>>, <<0, 2>>, <<2, 1>>, <<1, 3>> }
SlicesPair == { <<1, -1>>, <<0, 0>>, <<0, 2>> }
OtherLensOne == {6}
OtherLensQuick == {1, 3, 6}

OpsCore == { "new", "tile", "every", "some", "findIndex", "map", "mapToSelf", "mapToOther", "forEach", "reduce",
             "min", "max", "dot", "fill", "slice", "concat" }
OpsTiled   == { "new", "every", "some", "findIndex", "map", "mapToSelf", "mapToOther", "forEach", "fill" }
OpsUntiled == { "new", "reduce", "min", "max", "dot", "slice", "concat" }
OpsHelpers == { "new", "indexOf", "lastIndexOf", "includes", "reverse", "clamp", "shiftLeft", "shiftRight" }
OpsState == { "new", "tile", "findIndex", "map", "mapToSelf", "reduce", "min", "fill", "slice", "concat", "every" }
OpsAllArray == OpsCore \cup OpsHelpers

\* ---- ranges: <<ctor, a, b, c>>
RangeArgsQuick ==
  { <<1, 0, 4, 0>>, <<1, 0, 0, 0>>, <<1, 0, -3, 0>>,
    <<2, 2, 5, 0>>, <<2, 3, 3, 0>>, <<2, 4, 1, 0>>, <<2, -2, 2, 0>>,
    <<3, 0, 5, 2>>, <<3, 0, 6, 3>>, <<3, 1, 6, 2>>, <<3, 5, 0, -1>>, <<3, 5, -2, -2>>, <<3, 4, -1, -3>>,
    <<3, 0, -4, -2>>, <<3, 0, -5, -1>>, <<3, 2, 2, 1>>, <<3, 2, 2, -1>>, <<3, 1, 4, -1>>, <<3, 4, 1, 1>>,
    <<3, 1, 4, 0>>, <<3, -3, 3, 4>>, <<3, 3, -3, -4>>, <<3, 1, 2, 5>>, <<3, 2, 1, -5>> }
\* four long-enough ranges for the tiled run
RangeArgsTiled == { <<1, 0, 5, 0>>, <<3, 6, 0, -1>>, <<3, 1, 9, 2>>, <<3, 0, -7, -2>> }
RangeArgsAll == { <<3, a, b, c>> : a \in -2..3, b \in -3..4, c \in -3..3 } \cup { <<2, a, b, 0>> : a \in -2..3, b \in -3..4 }
                  \cup { <<1, 0, b, 0>> : b \in -3..5 }
RPredsOne == { F("RP1", 1), F("RP1", -9), F("RP1", 9) }
RPredsQuick == { F("RP1", 1), F("RP1", -9), F("RP2", 3), F("RP2", 1) }
RMapsOne == { F("RM1", 1) }
RMapsQuick  == { F("RM1", 1), F("RMD", 3) }
REachQuick  == { F("RFE", 2) }
RRedsOne == { R("sum", "RS1", 0, "int", NoInit), R("min", "RMIN", 0, "int", NoInit) }
RRedsQuick  == { R("sum", "RS1", 0, "int", NoInit), R("multiply", "RM1", 0, "int", NoInit),
                 R("min", "RMIN", 0, "int", NoInit), R("max", "RMAX", 0, "int", NoInit),
                 R("boolOr", "RBO", 3, "bool", NoInit), R("bitXor", "RX1", 0, "int", NoInit) }
OpsRangeQuick == { "range", "tile", "r.every", "r.some", "r.findIndex", "r.map", "r.mapTo", "r.reduce" }
OpsRangeTiled == { "range", "r.every", "r.map", "r.forEach", "r.toArray" }
OpsRange == { "range", "tile", "r.every", "r.some", "r.findIndex", "r.map", "r.mapTo", "r.toArray", "r.forEach", "r.reduce" }

\* ---- forLoop iterations
\* (uniform records: unused fields are 0 / <<>>)
Dim(n) == [k |-> "dim", n |-> n, s |-> 0, e |-> 0, st |-> 0, v |-> <<>>, t |-> 0]
Rg(s, e, st) == [k |-> "range", n |-> 0, s |-> s, e |-> e, st |-> st, v |-> <<>>, t |-> 0]
Ar(v) == [k |-> "array", n |-> 0, s |-> 0, e |-> 0, st |-> 0, v |-> v, t |-> 0]
Tiled(it, t) == [it EXCEPT !.t = t]
SeqsOf(S, lo, hi) == UNION {[1..m -> S] : m \in lo..hi}
\* iteration classes (each class is a different generated loop header): dim / start-0 range; start # 0, step +1;
\* step -1; |step| > 1 of both signs (start 0 and not); index array; plus empty and one-element instances
ItersAll == { Dim(3), Dim(0), Rg(1, 4, 1), Rg(4, 0, -1), Rg(0, 5, 2), Rg(5, -1, -2), Rg(2, 2, 1), Rg(0, -3, -1),
              Ar(<<2, 0, 2>>), Ar(<<3>>), Ar(<<>>) }
ItersPair == { Dim(2), Rg(3, 0, -1), Ar(<<1, 1>>) }
ItersPair4 == ItersPair \cup { Rg(1, 6, 2) }
NoLoops == {}
ItersTwo == { Dim(2), Rg(3, 0, -1) }
LoopsQuick == { << <<a>>, <<>> >> : a \in ItersAll }
              \cup { << <<a, b>>, <<>> >> : a \in ItersTwo, b \in ItersTwo }
              \cup { << <<a>>, <<b>> >> : a \in ItersTwo, b \in ItersTwo }
              \cup { << <<Ar(<<1, 1>>), Dim(2)>>, <<>> >>, << <<Rg(3, 0, -1), Ar(<<1, 1>>)>>, <<>> >>,
                     << <<Ar(<<1, 1>>)>>, <<Rg(3, 0, -1)>> >>, << <<Dim(2)>>, <<Ar(<<1, 1>>)>> >> }
              \cup { << <<Dim(2), Rg(3, 0, -1), Ar(<<1, 1>>)>>, <<>> >>,
                     << <<Rg(1, 6, 2)>>, <<Dim(2), Ar(<<1, 1>>)>> >>,
                     << <<Dim(2), Rg(2, 0, -1), Ar(<<0, 1>>)>>, <<Rg(0, 3, 2), Dim(1), Rg(1, -1, -1)>> >> }
TileItersQuick == { Tiled(Dim(5), 2), Tiled(Rg(1, 6, 1), 3), Tiled(Rg(0, 7, 2), 2), Tiled(Rg(6, 0, -1), 4),
                    Tiled(Rg(7, 0, -3), 2), Tiled(Ar(<<4, 0, 4, 2, 1>>), 2), Tiled(Dim(0), 2) }
TileItersAll == TileItersQuick \cup { Tiled(Dim(4), 4), Tiled(Rg(1, 8, 3), 3) }
TileItersPair == { Tiled(Dim(3), 2), Tiled(Rg(5, 0, -2), 2) }
TileItersPair3 == TileItersPair \cup { Tiled(Ar(<<2, 0, 2>>), 2) }
TiledLoopsQuick == SeqsOf(TileItersQuick, 1, 1) \cup SeqsOf(TileItersPair, 2, 2)
                   \cup { <<Tiled(Ar(<<2, 0, 2>>), 2), Tiled(Dim(3), 2)>>, <<Tiled(Dim(3), 2), Tiled(Ar(<<2, 0, 2>>), 2)>> }
                   \cup { <<Tiled(Dim(3), 2), Tiled(Rg(1, 5, 2), 2), Tiled(Ar(<<2, 0>>), 1)>> }
\* thorough (every distinct loop shape is a JIT kernel that includes <occa.hpp>: keep it to ~300)
LoopsThorough == LoopsQuick \cup { <<o, i>> : o \in SeqsOf(ItersPair4, 1, 2), i \in SeqsOf(ItersPair4, 0, 1) }
                 \cup { << <<a>>, <<b>> >> : a \in ItersAll, b \in ItersPair }
                 \cup { << <<a, b>>, <<>> >> : a \in ItersPair, b \in ItersAll }
TiledLoopsThorough == TiledLoopsQuick \cup { <<a, b>> : a \in TileItersAll, b \in TileItersPair }
                      \cup SeqsOf(TileItersPair, 3, 3)
\* simulation: random loops of every arity up to 3 + 3
LoopsSim == { <<o, i>> : o \in SeqsOf(ItersPair4 \cup {Rg(0, 2, 1)}, 1, 3), i \in SeqsOf(ItersPair4 \cup {Rg(0, 2, 1)}, 0, 3) }
=============================================================================
