\* generation (C22, thorough, simulation): random structures with up to 8 nodes / depth 5 over
\* all node kinds and all header variants, up to 4 decorations, at most 2 rule groups broken
SPECIFICATION Spec
CONSTANTS
  MaxNodes = 8
  MaxDepth = 5
  Kinds = {"fo","fi","fp","wh","if","el","bl","st","us","br","co","sh","sh2","shs","shn","ex","exa","toi","too","tii","tio","to","ti","tp"}
  GoodH = {"lt","ltc","le","gt","ge","post","add","sub","rev"}
  BadH = {"noinit","nodecl","float","two","noval","nocheck","ne","cmpexpr","cmpother","noupd","mul","updother"}
  RetTypes = {"void","int"}
  MaxDecor = 4
  MaxBroken = 2
  DefaultHdr = "lt"
CONSTRAINT Emit
