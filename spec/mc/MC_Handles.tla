---------------------------- MODULE MC_Handles ----------------------------
EXTENDS Handles
\* handle variables are named by the first letter of their class
StdKindOf(s) == IF s \in {"d1", "d2", "d3"} THEN "device"
                ELSE IF s \in {"m1", "m2", "m3", "m4"} THEN "memory"
                ELSE IF s \in {"p1", "p2", "p3"} THEN "pool"
                ELSE IF s \in {"k1", "k2", "k3"} THEN "kernel"
                ELSE IF s \in {"s1", "s2", "s3"} THEN "stream"
                ELSE "tag"
StdSlots == <<"d1", "d2", "m1", "m2", "m3", "p1", "p2", "k1", "k2", "s1", "s2", "t1", "t2">>
NoPre == <<>>
P(a, s, t) == [a |-> a, s |-> s, t |-> t, n |-> 0]

\* design runs: pairs of kinds, all histories (bounded by MaxObj)
DesignSmall == <<
  [use |-> {"d1", "d2", "m1", "m2"},        pre |-> NoPre],   \* devices + memory (buffers, views)
  [use |-> {"d1", "p1", "m1", "m2"},        pre |-> NoPre],   \* pool + reservations
  [use |-> {"d1", "k1", "k2", "s1"},        pre |-> NoPre],   \* kernels + streams (hidden currentStream handle)
  [use |-> {"d1", "t1", "t2", "s1"},        pre |-> NoPre] >> \* stream tags
DesignTiny == <<
  [use |-> {"d1", "m1", "m2"},  pre |-> NoPre],
  [use |-> {"d1", "p1", "m1"},  pre |-> NoPre],
  [use |-> {"d1", "k1", "s1"},  pre |-> NoPre],
  [use |-> {"d1", "d2", "t1"},  pre |-> NoPre] >>
DesignLarge == <<
  [use |-> {"d1", "d2", "m1", "m2", "m3"},  pre |-> NoPre],
  [use |-> {"d1", "p1", "p2", "m1", "m2"},  pre |-> NoPre],
  [use |-> {"d1", "d2", "k1", "s1", "s2"},  pre |-> NoPre],
  [use |-> {"d1", "m1", "p1", "k1", "s1", "t1"}, pre |-> NoPre] >>   \* composition: every kind at once

\* generation: fixed prefixes that put the interesting objects in place, then every continuation
NewD1 == P("newDevice", "d1", "")
GenProfiles == <<
  [use |-> {"d1", "m1", "m2", "m3"}, pre |-> <<NewD1, P("malloc", "m1", "d1"), P("copy", "m2", "m1")>>],
  [use |-> {"d1", "m1", "m2", "m3"}, pre |-> <<NewD1, P("malloc", "m1", "d1"), P("malloc", "m2", "d1")>>],
  [use |-> {"d1", "m1", "m2", "m3"}, pre |-> <<NewD1, P("malloc", "m1", "d1"), P("slice", "m2", "m1")>>],
  [use |-> {"d1", "d2", "m1", "m2"}, pre |-> <<NewD1, P("copy", "d2", "d1"), P("malloc", "m1", "d1")>>],
  [use |-> {"d1", "d2", "m1", "m2"}, pre |-> <<NewD1, P("newDevice", "d2", ""), P("malloc", "m1", "d1"), P("malloc", "m2", "d2")>>],
  [use |-> {"d1", "p1", "p2", "m1"}, pre |-> <<NewD1, P("newPool", "p1", "d1"), P("reserve", "m1", "p1")>>],
  [use |-> {"d1", "p1", "p2", "m1"}, pre |-> <<NewD1, P("newPool", "p1", "d1"), P("newPool", "p2", "d1"), P("reserve", "m1", "p1")>>],
  [use |-> {"d1", "p1", "m1", "m2"}, pre |-> <<NewD1, P("newPool", "p1", "d1"), P("reserve", "m1", "p1"), P("reserve", "m2", "p1")>>],
  [use |-> {"d1", "p1", "m1", "m2"}, pre |-> <<NewD1, P("newPool", "p1", "d1"), P("reserve", "m1", "p1"), P("slice", "m2", "m1")>>],
  [use |-> {"d1", "k1", "k2", "s1"}, pre |-> <<NewD1, P("buildKernel", "k1", "d1"), P("getStream", "s1", "d1")>>],
  [use |-> {"d1", "d2", "s1", "s2"}, pre |-> <<NewD1, P("newDevice", "d2", ""), P("createStream", "s1", "d1")>>],
  [use |-> {"d1", "t1", "t2", "k1"}, pre |-> <<NewD1, P("tagStream", "t1", "d1"), P("buildKernel", "k1", "d1")>>],
  [use |-> {"d1", "m1", "p1", "m2"}, pre |-> <<NewD1, P("malloc", "m1", "d1"), P("newPool", "p1", "d1"), P("reserve", "m2", "p1")>> ] >>

\* the quick tier uses every second prefix
GenQuick == <<GenProfiles[1], GenProfiles[2], GenProfiles[5], GenProfiles[6], GenProfiles[9], GenProfiles[10], GenProfiles[13]>>

\* the thorough tier extends three of the prefixes by every continuation of length 3
GenDeep == <<GenProfiles[1], GenProfiles[8], GenProfiles[13]>>

\* simulation: long random histories over larger variable sets
SimProfiles == <<
  [use |-> {"d1", "d2", "m1", "m2", "m3"},        pre |-> <<NewD1>>],
  [use |-> {"d1", "p1", "p2", "m1", "m2", "m3"},  pre |-> <<NewD1, P("newPool", "p1", "d1")>>],
  [use |-> {"d1", "d2", "k1", "k2", "s1", "s2", "t1"}, pre |-> <<NewD1>>],
  [use |-> {"d1", "m1", "m2", "p1", "k1", "s1", "t1"}, pre |-> <<NewD1>>],
  [use |-> {"d1", "d2", "m1", "m2", "p1", "p2", "k1", "s1", "s2", "t1"}, pre |-> NoPre] >>
=========================================================================
