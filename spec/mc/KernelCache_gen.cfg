\* behaviour generation: one process, no kill; prints the event history of a complete build (one behaviour per variant)
SPECIFICATION Spec
CONSTANTS
  Proc = {"a"}
  ProcSeq <- MCSeq1
  Scripts <- MCScripts
  Crashers = {}
  Late = {}
  Sequential = TRUE
  Variants = {"SS", "SF", "OS", "OF"}
  VendorOutStaged = TRUE
  Collapsed = FALSE
  Emit = TRUE

INVARIANTS EmitOK
