\* C08 design run: a is killed before any of its file-system calls (or runs to completion), then b builds the same kernel; full script, all four variants
SPECIFICATION Spec
CONSTANTS
  Proc = {"a", "b"}
  ProcSeq <- MCSeq2
  Scripts <- MCScripts
  Crashers = {"a"}
  Late = {"b"}
  Sequential = TRUE
  Variants = {"SS", "SF", "OS", "OF"}
  VendorOutStaged = TRUE
  Collapsed = FALSE
  Emit = FALSE
VIEW View
INVARIANTS TypeOK NoPartialUnderFinalName NoBadUnderFinalName FollowUpSucceeds
