\* generation Z: the smallest documents with a NUL byte in a string / key
SPECIFICATION Spec
CONSTANTS
  Sym <- MCSymNul
  NumToks <- ZNums
  KeyPool <- ZKeys
  LeafPool <- ZLeafs
  Indents = {0, 2}
  MaxNodes = 2
  EscapeKeys = TRUE
  MaxHist = 2
CONSTRAINT Emit
