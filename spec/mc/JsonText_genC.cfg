\* generation C: every number token as root, as array element and as object member
SPECIFICATION Spec
CONSTANTS
  Sym <- MCSym
  NumToks <- CNums
  KeyPool <- CKeys
  LeafPool <- CLeafs
  Indents = {0, 2}
  MaxNodes = 2
  EscapeKeys = TRUE
  MaxHist = 2
CONSTRAINT Emit
