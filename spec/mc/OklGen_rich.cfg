\* generation (C22, thorough): declarations and their uses -- every structure with up to 4 nodes /
\* depth 4 over @outer, @inner, if, else, 1-d and 2-d @shared arrays, @exclusive scalars and
\* arrays and statements that use them, with up to TWO such leaves, breaking at most one rule group
SPECIFICATION Spec
CONSTANTS
  MaxNodes = 4
  MaxDepth = 4
  Kinds = {"fo","fi","if","el","us","sh","sh2","ex","exa"}
  GoodH = {"lt"}
  BadH = {}
  RetTypes = {"void"}
  MaxDecor = 2
  MaxBroken = 1
  DefaultHdr = "lt"
CONSTRAINT Emit
