\* generation (C22, thorough): every structure with up to 4 nodes / depth 4 over ALL node kinds
\* (while, else, bare blocks, neutral statements, uses of @shared/@exclusive, continue, 2-d
\* @shared, @exclusive arrays) with up to TWO decorations, breaking at most one rule group
SPECIFICATION Spec
CONSTANTS
  MaxNodes = 4
  MaxDepth = 4
  Kinds = {"fo","fi","fp","wh","if","el","bl","st","us","br","co","sh","sh2","shs","shn","ex","exa"}
  GoodH = {"lt","sub"}
  BadH = {"float"}
  RetTypes = {"void","float"}
  MaxDecor = 2
  MaxBroken = 1
  DefaultHdr = "lt"
CONSTRAINT Emit
