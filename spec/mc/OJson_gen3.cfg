\* generation (quick): every history of 3 operations over a reduced operation set (one path component)
SPECIFICATION Spec
CONSTANTS
  KeySeq <- K2
  PathKeys = {"a", "b"}
  MaxPathLen = 1
  WriteVals <- WTwo
  MergeVals <- MOne
  SetKeys = {"a"}
  MaxDepth = 9
  Variant = "intended"
  MaxHist = 3
CONSTRAINT Emit
