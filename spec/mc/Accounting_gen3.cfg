\* generation (quick): all histories of 3 calls
SPECIFICATION Spec
CONSTANTS
  Cell = 128
  Sizes = {48}
  MaxCells = 2
  MaxBufs = 3
  MaxPools = 1
  MaxHist = 3
  HostPtrImpl = "counted"
