\* generation (quick): all histories of 3 calls
SPECIFICATION Spec
CONSTANTS
  ResSizes = {40, 100, 300}
  Aligns = {32, 128, 512}
  ResizeTo = {0, 200, 512, 1024}
  MaxPoolBytes = 2048
  Sizes = {48}
  MaxLiveRes = 3
  MaxBufs = 3
  MaxPools = 1
  MaxHist = 3
  HostPtrImpl = "counted"
  Prefixes <- NoPrefix
CONSTRAINT PrefixOK
