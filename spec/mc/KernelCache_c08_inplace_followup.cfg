\* model self-test: with the in-place output the follow-up build MUST be able to fail
SPECIFICATION Spec
CONSTANTS
  Proc = {"a", "b"}
  ProcSeq <- MCSeq2
  Scripts <- MCScripts
  Crashers = {"a"}
  Late = {"b"}
  Sequential = TRUE
  Variants = {"SS"}
  VendorOutStaged = FALSE
  Collapsed = FALSE
  Emit = FALSE
VIEW View
INVARIANTS FollowUpSucceeds
