\* generation (quick): forLoops of LoopsQuick (every iteration class alone, all pairs outer-outer and outer-inner of four classes, 3 and 3+3 nests) and TiledLoopsQuick
SPECIFICATION Spec
CONSTANTS
  Mode = "loop"
  Ops <- OpsRange
  Contents <- ContentsTiny
  Tilings <- TilingsTwo
  PredFns <- RPredsQuick
  MapFns <- RMapsQuick
  EachFns <- REachQuick
  Reductions <- RRedsQuick
  Scalars <- ScalarsTwo
  Slices <- SlicesQuick
  OtherLens <- OtherLensQuick
  RangeArgs <- RangeArgsQuick
  Loops <- LoopsQuick
  TiledLoops <- TiledLoopsQuick
  MaxLen = 10
  MaxAbs = 1000
  NB = 4
  MaxHist = 1
CONSTRAINT Emit
