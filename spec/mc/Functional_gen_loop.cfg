\* generation (quick): forLoops of LoopsQuick (every iteration class alone incl. empty ones, all pairs outer-outer and outer-inner of {dim, negative-step range} plus index-array pairs, a 3-nest, a 1+2 nest and a 3+3 nest) and TiledLoopsQuick
SPECIFICATION Spec
CONSTANTS
  Mode = "loop"
  Ops <- OpsRange
  Contents <- ContentsTiny
  Tilings <- TilingsTwo
  PredFns <- RPredsQuick
  MapFns <- RMapsQuick
  EachFns <- REachQuick
  Reductions <- RRedsQuick
  Scalars <- ScalarsTwo
  Slices <- SlicesQuick
  OtherLens <- OtherLensQuick
  RangeArgs <- RangeArgsQuick
  Loops <- LoopsQuick
  TiledLoops <- TiledLoopsQuick
  MaxLen = 10
  MaxAbs = 1000
  NB = 4
  MaxHist = 1
CONSTRAINT Emit
