\* behaviour generation, class "headers" (quick): every header shape x loop position x variant, enumerated
\* completely (breadth-first, no -simulate)
SPECIFICATION Spec
CONSTANTS
  Classes <- HClasses
  Heads <- HHeadsQ
  Menu <- HMenu
  Plans <- HPlans
  Wraps <- HWraps
  NoBarChoices <- HNoBar
  ArgVecs <- MCArgVecs
  CheckArgs = {}
  Mode = "emit"
  BarrierRule = "scheme"
  AtomicIndivisible = TRUE
  RelaxRules <- NoRelax
CONSTRAINT Emit
