\* design run: every string of length <= 3 over the 23-symbol design alphabet, lexed, printed, lexed again
SPECIFICATION Spec
CONSTANTS
  Pieces <- DesignPieces
  PieceSep <- SepNone
  MaxPieces = 3
  MinPieces = 0
  CheckKinds = FALSE
INVARIANTS TypeOK ExactlyOne RoundTrip PrintedIsLexable MunchOK
