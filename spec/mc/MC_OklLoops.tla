---------------------------- MODULE MC_OklLoops ----------------------------
(* Constant definitions for the OklLoops runs: the kernel families. *)
EXTENDS OklLoops

Op(c)  == [c |-> c, v |-> 0]
Lit(v) == [c |-> "lit", v |-> v]
Shape(pos, ity, cmp, left, upd, ci, cb, cs) ==
  [pos |-> pos, ity |-> ity, cmp |-> cmp, left |-> left, upd |-> upd, ci |-> ci, cb |-> cb, cs |-> cs]
StepOf(u, d) == IF u \in StepUpds THEN d ELSE Lit(1)
IsAlignedShape(c, l, u) ==
  ((l /\ c \in {"lt", "le"}) \/ (~l /\ c \in {"gt", "ge"})) = Up(u)

\* design run: every header shape (aligned and contrary), all operands plain run-time variables
DesignKernels ==
  {Shape("outer", "int", c, l, u, Op("var"), Op("var"), StepOf(u, Op("var"))) :
     c \in Cmps, l \in BOOLEAN, u \in Upds}

\* F1: every header shape in both positions, plain operands (variables, and a literal step)
PlainKernels(poss, itys) ==
  {Shape(p, t, c, l, u, Op("var"), Op("var"), StepOf(u, sd)) :
     p \in poss, t \in itys, c \in Cmps, l \in BOOLEAN, u \in Upds, sd \in {Op("var")}}

\* F2: one operand at a time takes an operator class, on the aligned shapes `shapes` (triples)
ClassKernels(poss, shapes, classes) ==
  LET V == Op("var") IN
  {Shape(p, "int", s[1], s[2], s[3], Op(cl), V, StepOf(s[3], Lit(2))) : p \in poss, s \in shapes, cl \in classes}
  \cup
  {Shape(p, "int", s[1], s[2], s[3], V, Op(cl), StepOf(s[3], Lit(2))) : p \in poss, s \in shapes, cl \in classes}
  \cup
  {Shape(p, "int", s[1], s[2], s[3], V, V, Op(cl)) : p \in poss, s \in {x \in shapes : x[3] \in StepUpds}, cl \in classes}

\* F3: literal bounds (compile-time counts: launch bounds, reqd_work_group_size)
LitKernels(poss) ==
  {Shape(p, "int", s[1], s[2], s[3], Lit(s[4]), Lit(s[5]), StepOf(s[3], Lit(s[6]))) : p \in poss,
     s \in { <<"lt", TRUE, "preinc", 0, 3, 1>>, <<"le", TRUE, "addeq", -2, 3, 2>>, <<"gt", TRUE, "postdec", 4, 1, 1>>,
             <<"ge", TRUE, "subeq", 5, 0, 3>>, <<"gt", FALSE, "postinc", 1, 4, 1>>, <<"le", FALSE, "subeq", 3, -1, 2>> }}
  \cup
  {Shape(p, "int", s[1], s[2], s[3], Lit(s[4]), Op("var"), StepOf(s[3], Lit(2))) : p \in poss,
     s \in { <<"lt", TRUE, "preinc", 0>>, <<"le", TRUE, "addeq", -2>>, <<"gt", TRUE, "predec", 3>>, <<"ge", FALSE, "addeq", 1>> }}
  \cup
  {Shape(p, "int", s[1], s[2], s[3], Op("var"), Lit(s[4]), StepOf(s[3], Lit(2))) : p \in poss,
     s \in { <<"lt", TRUE, "postinc", 3>>, <<"ge", TRUE, "subeq", -1>>, <<"lt", FALSE, "predec", 0>> }}

\* value sets (a .cfg cannot contain negative numbers)
DesignArgs   == -3..6
QuickArgs    == {-2, 0, 1, 3}
ThoroughArgs == {-3, -2, 0, 1, 3, 5}

AllClasses == Classes \ {"lit", "var"}
QuickShapes == { <<"lt", TRUE, "preinc">>, <<"le", TRUE, "addeq">>, <<"gt", TRUE, "predec">>,
                 <<"ge", TRUE, "subeq">>, <<"ge", FALSE, "postinc">> }
InnerShapes == QuickShapes \cup { <<"lt", FALSE, "subeq">>, <<"gt", TRUE, "postdec">>, <<"le", TRUE, "postinc">> }
AlignedShapes == {s \in Cmps \X BOOLEAN \X Upds : IsAlignedShape(s[1], s[2], s[3])}

QuickKernels ==
  PlainKernels({"outer", "inner"}, {"int"}) \cup ClassKernels({"outer"}, QuickShapes, AllClasses)
  \cup ClassKernels({"inner"}, { <<"lt", TRUE, "preinc">>, <<"ge", TRUE, "subeq">> }, {"add", "band", "tern", "shl"})
  \cup LitKernels({"outer", "inner"})
ThoroughKernels ==
  PlainKernels({"outer", "inner"}, {"int", "long"}) \cup ClassKernels({"outer"}, AlignedShapes, AllClasses)
  \cup ClassKernels({"inner"}, InnerShapes, AllClasses) \cup LitKernels({"outer", "inner"})
=============================================================================
