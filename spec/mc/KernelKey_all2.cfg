\* thorough design run on the repaired composition: all configurations with at most 2 of the 12 inputs
\* set, two builds per behaviour, both devices
SPECIFICATION Spec
CONSTANTS
  FocusGroups <- AllGroup
  Modes <- BothModes
  MaxWeight = 2
  RouteWeight = 0
  MaxBuilds = 2
  KeyVariant = "tagged"
VIEW View
INVARIANTS TypeOK RunsOwnConfig SameEntry KeySeparates
