---------------------------- MODULE MC_OJson ----------------------------
EXTENDS OJson
K2 == <<"a", "b">>
K3 == <<"a", "a/b", "b">>
V1 == NumV("1")
V2 == NumV("2")
VS == StrV("s")
O(ks, c) == ObjV(ks, c)
WAll == {V1, VS, NullV, EmptyObj}
M1 == O(<<"a">>, <<V1>>)                                     \* {a: 1}
M2 == O(<<"a">>, <<O(<<"b">>, <<V2>>)>>)                     \* {a: {b: 2}}
M3 == O(<<"a", "b">>, <<O(<<"a">>, <<VS>>), NullV>>)         \* {a: {a: "s"}, b: null}
M4 == O(<<"a", "b">>, <<O(<<"a">>, <<V2>>), O(<<"b">>, <<O(<<"a">>, <<V1>>)>>)>>)   \* {a: {a: 2}, b: {b: {a: 1}}}
M5 == O(<<"a/b">>, <<O(<<"a">>, <<V2>>)>>)                   \* {"a/b": {a: 2}}   (key with a slash, set()-style)
M6 == O(<<"a", "a/b">>, <<EmptyObj, V1>>)                    \* {a: {}, "a/b": 1}
M7 == O(<<"a/b">>, <<O(<<"b">>, <<V1>>)>>)                   \* {"a/b": {b: 1}}
\* a path component with an escaped slash: written "a\/b" in a path, it names the member a\/b
KE == <<"a", "a\\/b">>
PE == {"a", "a\\/b"}
MQ == {M1, M2, M3}
MQ2 == {M2, M3}
WThree == {V1, VS, EmptyObj}
MAll == {M1, M2, M3, M4, M5, M6, M7}
MSl == {M5, M7}
MSlash == {M1, M5}
MOne == {M2}
ME == {M1}
WSmall == {V1, EmptyObj}
WTwo == {VS, V1}
=========================================================================
