SPECIFICATION SSpec
CONSTANTS
  Programs <- QuickPrograms
  Styles <- BothStyles
  VarOrder <- MCVarOrder
  EnvInit <- MCEnv
INVARIANTS PrintParseIsIdS SameMeaning
CONSTRAINT EmitS
