\* model self-test: the named deviation (compilerVendor writes output in place) MUST violate NoPartialUnderFinalName
SPECIFICATION Spec
CONSTANTS
  Proc = {"a", "b"}
  ProcSeq <- MCSeq2
  Scripts <- MCScripts
  Crashers = {"a"}
  Late = {"b"}
  Sequential = TRUE
  Variants = {"SS"}
  VendorOutStaged = FALSE
  Collapsed = FALSE
  Emit = FALSE
VIEW View
INVARIANTS NoPartialUnderFinalName
