\* MUTANT of the generator: sh may be rewritten while another iteration may still read it. Expected: violation
SPECIFICATION Spec
CONSTANTS
  Classes = {"shared"}
  Heads <- DHeads
  Menu <- DMenu
  Plans <- DPlans
  Wraps <- DWraps
  NoBarChoices <- DNoBar
  ArgVecs <- MCArgVecs
  CheckArgs = {2}
  Mode = "design"
  BarrierRule = "scheme"
  AtomicIndivisible = TRUE
  RelaxRules <- RelaxWar
INVARIANTS LaunchIsSeq NoBadAccess RunsToEnd
