\* design run, arrays: every reachable (contents, tile settings) with |element| <= 2, length <= 5;
\* in each state the tiling scheme, the block-reduction scheme (NB = 4 blocks) agree with the definition
SPECIFICATION Spec
CONSTANTS
  Mode = "array"
  Ops <- OpsAllArray
  Contents <- ContentsDesign
  Tilings <- TilingsDesign
  PredFns <- PredsOne
  MapFns <- MapsDesign
  EachFns <- EachQuick
  Reductions <- RedsAll
  Scalars <- ScalarsDesign
  Slices <- SlicesQuick
  OtherLens <- OtherLensOne
  RangeArgs <- RangeArgsQuick
  Loops <- NoLoops
  TiledLoops <- NoLoops
  MaxLen = 5
  MaxAbs = 2
  NB = 4
  MaxHist = 0
VIEW View
CONSTRAINT Bounded
INVARIANTS TypeOK SchemeOK
