\* design run (C22, quick): every structure with up to 3 nodes over the node kinds of the quick
\* generation plus while/else/uses/two @tile forms, at most 2 decorations, no pruning by broken rules; checks the
\* sanity theorems of the rule definitions and of the renderer on each of them
SPECIFICATION Spec
CONSTANTS
  MaxNodes = 3
  MaxDepth = 3
  Kinds = {"fo","fi","fp","wh","if","el","us","br","co","sh","shs","shn","ex","toi","tio"}
  GoodH = {"lt"}
  BadH = {"noupd"}
  RetTypes = {"void","int"}
  MaxDecor = 2
  MaxBroken = 11
  DefaultHdr = "lt"
INVARIANTS TypeOK RuleSanity
