\* exhaustive design run: all 14 keys over {a,b} up to length 3, 2 values, every query up to length 4
SPECIFICATION Spec
CONSTANTS
  AlphaSeq <- MCAlpha
  MaxKeyLen = 2
  MaxQueryLen = 3
  Values = {1, 2}
  KeyFilter <- FilterAll
  MaxHist = 0
VIEW View
INVARIANTS TypeOK LongestIsStoredPrefix GetIffStored QuerySeqOK
