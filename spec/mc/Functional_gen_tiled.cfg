\* generation (quick): tile-dependent calls (every, some, findIndex, map, mapTo, forEach, fill): arrays of every length 0..5 (ContentsLens) x every tile setting, then ONE call
SPECIFICATION Spec
CONSTANTS
  Mode = "array"
  Ops <- OpsTiled
  Contents <- ContentsLens
  Tilings <- TilingsQuick
  PredFns <- PredsTiled
  MapFns <- MapsTiled
  EachFns <- EachQuick
  Reductions <- RedsState
  Scalars <- ScalarsTwo
  Slices <- SlicesQuick
  OtherLens <- OtherLensQuick
  RangeArgs <- RangeArgsQuick
  Loops <- NoLoops
  TiledLoops <- NoLoops
  MaxLen = 10
  MaxAbs = 1000
  NB = 4
  MaxHist = 2
CONSTRAINT Emit
