\* totality: every string of length <= 4 over the dangerous alphabet
SPECIFICATION Spec
CONSTANTS
  Pieces <- DangerPieces
  PieceSep <- SepNone
  MaxPieces = 4
  MinPieces = 0
  CheckKinds = FALSE
INVARIANTS TypeOK ExactlyOne RoundTrip PrintedIsLexable MunchOK
CONSTRAINT Emit
