\* simulation: random operation sequences of length 12, larger requests, writes through slices
SPECIFICATION SimSpec
CONSTANTS
  Align0 = 4
  Aligns = {2, 3, 4, 8}
  MaxReq = 6
  MaxLive = 6
  MaxOps = 12
  WithWrites = TRUE
CHECK_DEADLOCK FALSE
