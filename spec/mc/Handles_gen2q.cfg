\* generation (quick, 7 of the 13 prefixes): every continuation of length 2 of each prefix
SPECIFICATION Spec
CONSTANTS
  SlotSeq <- StdSlots
  KindOf <- StdKindOf
  MaxDev = 2
  MaxCells = 2
  BufBytes = 64
  CellBytes = 128
  LazyObs = FALSE
  MaxObj = 14
  MaxHist = 2
  SwapImpl = "rings"
  Profiles <- GenQuick
CONSTRAINT PrefixOK
