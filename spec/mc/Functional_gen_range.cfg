\* generation (quick): 24 ranges (all three constructors, steps of both signs, empty and one-element ranges) with default tiling, then ONE call (one lambda per call kind)
SPECIFICATION Spec
CONSTANTS
  Mode = "range"
  Ops <- OpsRangeQuick
  Contents <- ContentsTiny
  Tilings <- TilingsNone
  PredFns <- RPredsOne
  MapFns <- RMapsOne
  EachFns <- REachQuick
  Reductions <- RRedsOne
  Scalars <- ScalarsTwo
  Slices <- SlicesQuick
  OtherLens <- OtherLensQuick
  RangeArgs <- RangeArgsQuick
  Loops <- NoLoops
  TiledLoops <- NoLoops
  MaxLen = 10
  MaxAbs = 1000
  NB = 4
  MaxHist = 2
CONSTRAINT Emit
