\* behaviour generation (quick): every history of length 3, 2 objects, byte strings {empty, s1}
SPECIFICATION Spec
CONSTANTS
  Regs <- MCRegs2
  Pool <- MCPool2
  Impl = "fixed"
  MaxHist = 3
CONSTRAINT FirstOnFirst
CONSTRAINT Emit
