\* C09 schedule generation (see SchedAction in MC_KernelCache): a is held after x steps while b builds, then a
\* resumes, then c builds; one behaviour per x; the C09 invariants are checked on these behaviours too
SPECIFICATION Spec
CONSTANTS
  Proc = {"a", "b", "c"}
  ProcSeq <- MCSeq3
  Scripts <- MCScripts
  Crashers = {}
  Late = {"c"}
  Sequential = FALSE
  Variants = {"SS", "SF", "OS", "OF"}
  VendorOutStaged = TRUE
  Collapsed = FALSE
  Emit = TRUE
ACTION_CONSTRAINT SchedAction
INVARIANTS EmitSched NoPartialUnderFinalName NoBadUnderFinalName EveryProcessSucceeds AllAgree LaterBuildReuses
