\* generation (quick): histories of 2 operations over the path components a and a\\/b (escaped slash)
SPECIFICATION Spec
CONSTANTS
  KeySeq <- KE
  PathKeys <- PE
  MaxPathLen = 2
  WriteVals <- WSmall
  MergeVals <- ME
  SetKeys = {"a"}
  MaxDepth = 9
  Variant = "intended"
  MaxHist = 2
CONSTRAINT Emit
