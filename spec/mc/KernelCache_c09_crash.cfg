\* C08+C09: a and b build concurrently and either may be killed, then c builds; collapsed script
SPECIFICATION Spec
CONSTANTS
  Proc = {"a", "b", "c"}
  ProcSeq <- MCSeq3
  Scripts <- MCScripts
  Crashers = {"a", "b"}
  Late = {"c"}
  Sequential = FALSE
  Variants = {"SS", "SF", "OS", "OF"}
  VendorOutStaged = TRUE
  Collapsed = TRUE
  Emit = FALSE
VIEW View
INVARIANTS TypeOK NoPartialUnderFinalName NoBadUnderFinalName FollowUpSucceeds
