\* design-level demonstration: un-counting skipped for use_host_pointer allocations (code before the repair)
SPECIFICATION Spec
CONSTANTS
  ResSizes = {40, 100, 300}
  Aligns = {32, 128, 512}
  ResizeTo = {0, 200, 512, 1024}
  MaxPoolBytes = 2048
  Sizes = {16}
  MaxLiveRes = 1
  MaxBufs = 2
  MaxPools = 1
  MaxHist = 0
  HostPtrImpl = "leaky"
  Prefixes <- NoPrefix
VIEW View
INVARIANTS Conservation
