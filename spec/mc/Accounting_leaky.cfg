\* design-level demonstration: un-counting skipped for use_host_pointer allocations (code before the repair)
SPECIFICATION Spec
CONSTANTS
  Cell = 128
  Sizes = {16}
  MaxCells = 1
  MaxBufs = 2
  MaxPools = 1
  MaxHist = 0
  HostPtrImpl = "leaky"
VIEW View
INVARIANTS Conservation
