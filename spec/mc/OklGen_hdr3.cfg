\* generation (C22, thorough): loop headers -- every nest of up to 3 @outer/@inner loops where up to two
\* loops carry any of the 9 valid or 12 invalid header variants (at most one rule broken)
SPECIFICATION Spec
CONSTANTS
  MaxNodes = 3
  MaxDepth = 3
  Kinds = {"fo","fi"}
  GoodH = {"lt","ltc","le","gt","ge","post","add","sub","rev"}
  BadH = {"noinit","nodecl","float","two","noval","nocheck","ne","cmpexpr","cmpother","noupd","mul","updother"}
  RetTypes = {"void"}
  MaxDecor = 2
  MaxBroken = 1
  DefaultHdr = "lt"
INVARIANTS TypeOK RuleSanity
CONSTRAINT Emit
