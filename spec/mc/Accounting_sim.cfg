\* simulation: random histories of 14 calls (after nothing / a pool with one / with three reservations, the middle one released)
SPECIFICATION Spec
CONSTANTS
  ResSizes = {40, 100, 300}
  Aligns = {32, 128, 512}
  ResizeTo = {0, 200, 512, 1024}
  MaxPoolBytes = 2048
  Sizes = {16, 48}
  MaxLiveRes = 4
  MaxBufs = 6
  MaxPools = 2
  MaxHist = 14
  HostPtrImpl = "counted"
  Prefixes <- SimPrefixes
CONSTRAINT PrefixOK
