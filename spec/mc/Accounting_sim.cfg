\* simulation: random histories of 14 calls
SPECIFICATION Spec
CONSTANTS
  Cell = 128
  Sizes = {16, 48}
  MaxCells = 3
  MaxBufs = 8
  MaxPools = 2
  MaxHist = 14
  HostPtrImpl = "counted"
