\* simulation: random histories of 10 operations; paths of <= 3 components
SPECIFICATION SimSpec
CONSTANTS
  KeySeq <- K3
  PathKeys = {"a", "b"}
  MaxPathLen = 3
  WriteVals <- WAll
  MergeVals <- MAll
  SetKeys = {"a", "a/b", "b"}
  MaxDepth = 9
  Variant = "intended"
  MaxHist = 10
