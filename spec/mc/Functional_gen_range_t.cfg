\* generation (thorough): every range(start,end,step) with start in -2..3, end in -3..4, step in -3..3 and the shorter constructors x two tile settings, then ONE call
SPECIFICATION Spec
CONSTANTS
  Mode = "range"
  Ops <- OpsRange
  Contents <- ContentsTiny
  Tilings <- TilingsTwo
  PredFns <- RPredsQuick
  MapFns <- RMapsQuick
  EachFns <- REachQuick
  Reductions <- RRedsQuick
  Scalars <- ScalarsTwo
  Slices <- SlicesQuick
  OtherLens <- OtherLensQuick
  RangeArgs <- RangeArgsAll
  Loops <- NoLoops
  TiledLoops <- NoLoops
  MaxLen = 10
  MaxAbs = 1000
  NB = 4
  MaxHist = 2
CONSTRAINT Emit
