---------------------------- MODULE MC_Preproc ----------------------------
(* Constants of the C13 runs: literal pool for #if arithmetic, condition pool (true/false,
   defined, literals above INT_MAX, hex with the top bit, guarded division by zero, ?: with a
   poisoned arm, a poisoned condition for the places C never evaluates), macro definitions
   (object-like, function-like, variadic, recursive) and text lines that invoke them.      *)
EXTENDS Preproc

I(radix, digs, u) == [k |-> "int", neg |-> FALSE, radix |-> radix, digs |-> digs, u |-> u, l |-> 0]
D(digs)  == I(10, digs, FALSE)
Ng(lit)  == [lit EXCEPT !.neg = TRUE]
F8 == <<15, 15, 15, 15, 15, 15, 15, 15>>
PoolPP == <<
  D(<<0>>), D(<<1>>), D(<<2>>), D(<<3, 0, 0, 0, 0, 0, 0, 0, 0, 0>>), I(16, F8, FALSE), I(10, <<0>>, TRUE),   \* 1-6
  D(<<2, 1, 4, 7, 4, 8, 3, 6, 4, 7>>), D(<<3, 1>>), Ng(D(<<1>>)),                                              \* 7-9
  I(16, <<8, 0, 0, 0, 0, 0, 0, 0, 0, 0, 0, 0, 0, 0, 0, 0>>, FALSE),                                            \* 10
  D(<<9, 2, 2, 3, 3, 7, 2, 0, 3, 6, 8, 5, 4, 7, 7, 5, 8, 0, 7>>), I(10, <<1>>, TRUE),                          \* 11-12
  D(<<4, 2, 9, 4, 9, 6, 7, 2, 9, 5>>), D(<<3>>),                                                               \* 13-14
  \* unsuffixed NON-DECIMAL literals in [2^31, 2^32): unsigned int in phase 7, but intmax_t in #if
  I(16, <<8, 0, 0, 0, 0, 0, 0, 0>>, FALSE), I(16, <<8, 0, 0, 0, 0, 0, 0, 1>>, FALSE),                          \* 15-16
  I(8, <<0, 3, 7, 7, 7, 7, 7, 7, 7, 7, 7, 7>>, FALSE), I(8, <<0, 2, 0, 0, 0, 0, 0, 0, 0, 0, 0, 0>>, FALSE),    \* 17-18
  I(16, F8 \o F8, FALSE), Ng(D(<<7>>)),                                                                        \* 19-20
  I(2, <<1>> \o [i \in 1..31 |-> 0], FALSE) >>                                                                 \* 21

L(i)   == Node("lit", "", i)
Dn(m)  == Node("def", m, 0)        \* defined(M)
Db(m)  == Node("defb", m, 0)       \* defined M
Id(m)  == Node("idn", m, 0)
Bn(op) == Node("bin", op, 0)
Lg(op) == Node("log", op, 0)
Un(op) == Node("un", op, 0)
Tn     == Node("tern", "", 0)
C(pre) == [pre |-> pre]
DivZ   == <<Bn("/"), L(2), L(1)>>                                      \* 1 / 0
\* signedness-sensitive uses of a literal h: compared with -1 in every direction, divided into a negative
\* number, negated / complemented and compared with 0, negated and shifted right, minus a larger literal.
\* (h is intmax_t in #if unless it has a u suffix or does not fit; -1 is L(9), -7 is L(20), 0 is L(1))
SignFamily(h) == <<
  C(<<Bn(">"), L(h), L(9)>>), C(<<Bn(">="), L(h), L(9)>>), C(<<Bn("<"), L(9), L(h)>>), C(<<Bn("<="), L(9), L(h)>>),
  C(<<Bn("=="), L(h), L(9)>>), C(<<Bn("<"), L(h), L(9)>>),
  C(<<Bn("=="), Bn("%"), L(20), L(h), L(20)>>), C(<<Bn("=="), Bn("/"), L(20), L(h), L(1)>>),
  C(<<Bn("<"), Un("-"), L(h), L(1)>>), C(<<Bn("<"), Un("~"), L(h), L(1)>>),
  C(<<Bn("<"), Bn(">>"), Un("-"), L(h), L(2), L(1)>>), C(<<Bn("<"), Bn("-"), L(h), L(16), L(1)>>) >>
CondPool == <<
  C(<<L(2)>>), C(<<L(1)>>), C(<<Dn("A")>>), C(<<Un("!"), Dn("A")>>), C(<<Db("B")>>),                    \*  1- 5
  C(<<Bn(">"), Id("A"), L(1)>>), C(<<Bn(">"), L(4), L(1)>>), C(<<Bn(">"), L(5), L(1)>>),                 \*  6- 8
  C(<<Bn("<"), L(9), L(6)>>), C(<<Lg("&&"), L(1)>> \o DivZ), C(<<Lg("||"), L(2)>> \o DivZ),              \*  9-11
  C(<<Tn, L(2), L(3)>> \o DivZ), C(DivZ), C(<<Bn(">"), Bn("+"), L(7), L(2), L(1)>>),                     \* 12-14
  C(<<Bn("=="), Un("~"), L(6), L(5)>>), C(<<Bn("=="), Id("A"), L(2)>>),                                  \* 15-16
  C(<<Lg("&&"), Dn("A"), Bn("=="), Id("A"), L(3)>>), C(<<Bn(">"), Bn("<<"), L(2), L(8), L(1)>>),         \* 17-18
  C(<<Bn(">"), Id("N"), L(1)>>), C(<<Tn, L(1)>> \o DivZ \o <<L(2)>>),                                    \* 19-20
  C(<<Lg("||"), Dn("Q"), Un("!"), Dn("A")>>), C(<<Bn(">"), L(13), L(1)>>) >>                             \* 21-22
   \o SignFamily(15) \o SignFamily(16) \o SignFamily(5) \o SignFamily(17) \o SignFamily(18) \o SignFamily(21)
   \o SignFamily(10) \o SignFamily(19) \o SignFamily(13)

Obj(name, body, lit) == [name |-> name, def |-> Def(FALSE, <<>>, FALSE, body), lit |-> lit]
Fun(name, ps, va, body) == [name |-> name, def |-> Def(TRUE, ps, va, body), lit |-> 0]
DefPool == <<
  Obj("A", <<"1">>, 2), Obj("A", <<"2">>, 3), Obj("B", <<"A", "+", "2">>, 0),                           \* 1-3
  Fun("F", <<"x">>, FALSE, <<"x", "+", "x">>),                                                           \* 4
  Fun("G", <<"x", "y">>, FALSE, <<"F", "(", "y", ")", "-", "x">>),                                       \* 5
  Fun("V", <<>>, TRUE, <<"f", "(", "__VA_ARGS__", ")">>),                                                \* 6
  Fun("W", <<"a">>, TRUE, <<"a", "+", "V", "(", "__VA_ARGS__", ")">>),                                   \* 7
  Obj("R", <<"R", "+", "1">>, 0), Fun("ID", <<"x">>, FALSE, <<"x">>),                                    \* 8-9
  Obj("N", <<"3000000000">>, 4), Obj("P", <<"Q">>, 0), Obj("Q", <<"P">>, 0),                             \* 10-12
  Fun("H", <<"x">>, FALSE, <<"(", "x", ")", "*", "K", "(", "x", ")">>),                                  \* 13
  Fun("K", <<"y">>, FALSE, <<"H", "(", "y", ")">>), Obj("E", <<>>, 0),                                   \* 14-15
  Fun("M2", <<"a", "b">>, FALSE, <<"a", "*", "b", "+", "a">>),                                           \* 16
  Fun("C2", <<"x">>, FALSE, <<"ID", "(", "x", ")", "+", "ID", "(", "x", ")">>) >>                        \* 17

TextPool == <<
  <<"A", ";">>, <<"B", "*", "A", ";">>, <<"F", "(", "A", ")", ";">>,                                     \* 1-3
  <<"G", "(", "1", ",", "B", ")", ";">>, <<"V", "(", "1", ",", "2", ")", ";">>,                          \* 4-5
  <<"W", "(", "A", ",", "2", ",", "3", ")", ";">>, <<"R", ";">>,                                         \* 6-7
  <<"ID", "(", "ID", "(", "A", ")", ")", ";">>, <<"F", "(", "F", "(", "2", ")", ")", ";">>,              \* 8-9
  <<"x", "F", "y", ";">>, <<"P", "+", "Q", ";">>, <<"H", "(", "1", ")", ";">>,                           \* 10-12
  <<"F", "(", "(", "1", ",", "2", ")", ")", ";">>, <<"ID", "(", "F", ")", "(", "3", ")", ";">>,          \* 13-14
  <<"G", "(", "F", "(", "1", ")", ",", "ID", "(", "2", ")", ")", ";">>,                                  \* 15
  <<"M2", "(", "V", "(", "1", ",", "2", ")", ",", "E", "3", ")", ";">>,                                  \* 16
  <<"V", "(", "A", ")", ";">>, <<"z", ";">>, <<"C2", "(", "R", ")", ";">>,                               \* 17-19
  <<"ID", "(", "V", "(", "B", ",", "F", "(", "1", ")", ")", ")", ";">> >>                                \* 20

ASSUME PrintT(<<"P", ToJson([lits |-> PoolPP, conds |-> CondPool, defs |-> DefPool, texts |-> TextPool])>>)

AllConds == 1..Len(CondPool)
BaseConds == 1..22
SignConds == 23..Len(CondPool)
AllDefs  == 1..Len(DefPool)
AllTexts == 1..Len(TextPool)
AllNames == {"A", "B", "F", "Q"}
\* directive-machine focus: true, false, defined, poison; one macro; one text line
DirConds == {1, 2, 3, 13}
DirDefs  == {1}
DirTexts == {1}
DirNames == {"A"}
\* condition focus
NoIdx    == {}
\* macro focus: no conditionals
MacTexts == AllTexts

\* sanity theorems of MacroExpand on the pools (evaluated once): every text line under
\* the table of ALL definitions (A as 1) either expands to a finished line or is rejected
FullTable == [n \in {DefPool[i].name : i \in AllDefs \ {2}} |->
                DefPool[CHOOSE i \in AllDefs \ {2} : DefPool[i].name = n].def]
ASSUME \A t \in AllTexts : Finished(Expand(Toks(TextPool[t]), FullTable), FullTable)
ASSUME \A t \in AllTexts : NoMacros(TextPool[t])
===========================================================================
