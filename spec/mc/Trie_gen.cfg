\* behaviour generation (quick): every history of length MaxHist over the six FilterSmall keys
SPECIFICATION Spec
CONSTANTS
  AlphaSeq <- MCAlpha
  MaxKeyLen = 3
  MaxQueryLen = 4
  Values = {1, 2}
  KeyFilter <- FilterSmall
  MaxHist = 3
CONSTRAINT Emit
