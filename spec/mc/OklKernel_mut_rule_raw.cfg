\* MUTANT of the generator: sh[other] may be read without a barrier after the writes. Expected: violation
SPECIFICATION Spec
CONSTANTS
  Classes = {"shared"}
  Heads <- DHeads
  Menu <- DMenu
  Plans <- DPlans
  Wraps <- DWraps
  NoBarChoices <- DNoBar
  ArgVecs <- MCArgVecs
  CheckArgs = {2}
  Mode = "design"
  BarrierRule = "scheme"
  AtomicIndivisible = TRUE
  RelaxRules <- RelaxRaw
INVARIANTS LaunchIsSeq NoBadAccess RunsToEnd
