\* evaluates the ASSUMEs of MC_BV (sanity theorems of the byte-limb arithmetic), sub-sample
INIT Init
NEXT Next
CONSTANT Full = FALSE
