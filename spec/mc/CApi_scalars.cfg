\* every scalar / string / null: constructor, object set+get, array push+get, kernel echo (script-shaped)
SPECIFICATION Spec
CONSTANTS
  Vals <- AllScalars
  Dflts <- SomeDflts
  Keys = {"a"}
  PathKeys <- NoPaths
  MaxHandles = 3
  MaxLen = 2
  Ops <- ScalarOps
  EchoToks <- AllToks
  PushKeepsRefs = FALSE
  MaxHist = 3
CONSTRAINT ScalarScript
CONSTRAINT Emit
INVARIANTS TypeOK LiveHandlesResolve StoreLoadIdentity OneOwnerPerDoc OwnerAliveIffNotGone
