--------------------------- MODULE MC_OmpSchedule ---------------------------
(* Constant definitions for OmpSchedule (C21): the D menus of MC_OklKernel with nest heads that
   have 2-4 iterations of the outermost @outer loop (the loop OpenMP distributes).             *)
EXTENDS OmpSchedule, MC_OklKernel

OHeads(c) ==
  CASE c = "basic"  -> {NHead(<<3>>, <<2>>, FALSE, FALSE, NoE, "row", NoStyle), NHead(<<2, 2>>, <<2>>, FALSE, FALSE, NoE, "col", NoStyle)}
    [] c = "excl"   -> {NHead(<<3>>, <<2>>, FALSE, TRUE, DBase, "rev", NoStyle), NHead(<<2, 2>>, <<2>>, FALSE, TRUE, NoE, "row", NoStyle)}
    [] c = "shared" -> {NHead(<<3>>, <<2>>, TRUE, FALSE, NoE, "row", NoStyle), NHead(<<2, 2>>, <<2>>, TRUE, FALSE, NoE, "row", NoStyle)}
    [] c = "atomic" -> {WithRow(NHead(<<3>>, <<2>>, FALSE, FALSE, NoE, "row", NoStyle)), NHead(<<4>>, <<1>>, FALSE, FALSE, NoE, "row", NoStyle)}
    [] c = "mixed"  -> {NHead(<<3>>, <<2>>, TRUE, TRUE, DBase, "row", NoStyle)}
    [] c = "tile"   -> {[NHead(<<3>>, <<2>>, FALSE, FALSE, NoE, "row", [NoStyle EXCEPT !.tile = TRUE]) EXCEPT !.limit = 5]}
OPlans(c) ==
  CASE c = "basic"  -> {<< <<1>> >>, << <<2>> >>, << <<1>>, <<1>> >>}
    [] c = "excl"   -> {<< <<2, 1>> >>, << <<1, 1, 1>> >>}
    [] c = "shared" -> {<< <<1, 1>> >>, << <<1, 1, 1>> >>}
    [] c = "atomic" -> {<< <<2>> >>, << <<1, 1>> >>, << <<1>>, <<1>> >>}
    [] c = "mixed"  -> {<< <<2, 1, 1>> >>}
    [] c = "tile"   -> {<< <<2>> >>}
ONoBar(c) == {FALSE}        \* @nobarrier means nothing to the OpenMP translation
OWraps(c) == IF c = "shared" THEN {"none", "ifo"} ELSE {"none"}
OHeadsQ(c) == {h \in OHeads(c) : h.O = <<3>>}
OPlansQ(c) ==
  CASE c = "basic"  -> {<< <<2>> >>, << <<1>>, <<1>> >>}
    [] c = "excl"   -> {<< <<2, 1>> >>}
    [] c = "shared" -> {<< <<1, 1>> >>}
    [] c = "atomic" -> {<< <<2>> >>, << <<1>>, <<1>> >>}
    [] OTHER        -> OPlans(c)
OClassesQuick == {"basic", "excl", "shared", "atomic"}
=============================================================================
