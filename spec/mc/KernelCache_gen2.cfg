\* behaviour generation: a builds, then b builds from the warm cache (the reuse path)
SPECIFICATION Spec
CONSTANTS
  Proc = {"a", "b"}
  ProcSeq <- MCSeq2
  Scripts <- MCScripts
  Crashers = {}
  Late = {"b"}
  Sequential = TRUE
  Variants = {"SS", "SF", "OS", "OF"}
  VendorOutStaged = TRUE
  Collapsed = FALSE
  Emit = TRUE

INVARIANTS EmitOK
