\* design run (quick, part 1): <= 3 buffers of 2 sizes, no pool, all histories
SPECIFICATION Spec
CONSTANTS
  ResSizes = {40, 300}
  Aligns = {32, 128, 512}
  ResizeTo = {0, 200, 512}
  MaxPoolBytes = 1024
  Sizes = {16, 48}
  MaxLiveRes = 2
  MaxBufs = 3
  MaxPools = 0
  MaxHist = 0
  HostPtrImpl = "counted"
  Prefixes <- NoPrefix
VIEW View
INVARIANTS TypeOK Conservation HighWater AllReleased PoolSane
