\* KernelArgs: signatures of <= 2 parameters over ParamsFull, argument lists of <= 3 over ArgsFull;
\* InitWhenEmpty = TRUE (the repaired code)
\* plus one signature per fixed-array parameter  [const] [typedef'd] T a[n],  12 base spellings x n in {1,2,4}, and per pointer form T *a
SPECIFICATION Spec
CONSTANTS
  ParamTypes <- ParamsFull
  ArgKinds <- ArgsFull
  ArrayParams <- ArraysAndPointers
  ArrayArgs <- ArrayArgsAll
  MaxParams = 2
  MaxArgs = 3
  InitWhenEmpty = TRUE
CONSTRAINT Emit
INVARIANTS AcceptsExactlyCompatible FreshEqualsCached OracleSanity
