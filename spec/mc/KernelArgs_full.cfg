\* KernelArgs: signatures of <= 2 parameters over ParamsFull, argument lists of <= 3 over ArgsFull;
\* InitWhenEmpty = TRUE (the repaired code)
SPECIFICATION Spec
CONSTANTS
  ParamTypes <- ParamsFull
  ArgKinds <- ArgsFull
  MaxParams = 2
  MaxArgs = 3
  InitWhenEmpty = TRUE
CONSTRAINT Emit
INVARIANTS AcceptsExactlyCompatible FreshEqualsCached OracleSanity
