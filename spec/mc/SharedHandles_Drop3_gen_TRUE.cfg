\* schedule generation: every complete schedule (the history variable is part of the state), with the
\* outcome the model predicts at quiescence
SPECIFICATION Spec
CONSTANTS
  Threads <- T3
  Prog <- ProgDrop3
  InitRing = {"h1","h2","h3"}
  AtomicRelease = TRUE
INVARIANTS EmitSchedule
CHECK_DEADLOCK FALSE
