\* KernelArgs: signatures of <= 2 parameters over ParamsQuick, argument lists of <= 2 over ArgsQuick;
\* InitWhenEmpty = FALSE (the code before the C10 repair: AcceptsExactlyCompatible and FreshEqualsCached are violated for the parameterless kernel)
SPECIFICATION Spec
CONSTANTS
  ParamTypes <- ParamsQuick
  ArgKinds <- ArgsQuick
  ArrayParams <- NoArrays
  ArrayArgs <- ArrayArgsAll
  MaxParams = 2
  MaxArgs = 2
  InitWhenEmpty = FALSE
CONSTRAINT Emit
INVARIANTS AcceptsExactlyCompatible FreshEqualsCached OracleSanity
