\* generation (quick): every history of up to 4 edit/build steps over 2 headers with 2 values that ends in a build
SPECIFICATION Spec
CONSTANTS
  HSeq <- H2
  Root <- RootBoth
  Vals <- V2
  InitVal <- Init2
  MaxEdits = 9
  MaxBuilds = 9
  Variant = "chained"
  Fuel = 50
  Styles <- GenStyles
  MaxHist = 4
CONSTRAINT Emit
