\* design run (C22, thorough): every structure with up to 3 nodes over ALL node kinds, no pruning;
\* checks the sanity theorems of the rule definitions and the renderer on each of them
SPECIFICATION Spec
CONSTANTS
  MaxNodes = 3
  MaxDepth = 3
  Kinds = {"fo","fi","fp","wh","if","el","bl","st","us","br","co","sh","sh2","shs","shn","ex","exa","toi","too","tii","tio","to","ti","tp"}
  GoodH = {"lt","sub"}
  BadH = {"noupd"}
  RetTypes = {"void","int"}
  MaxDecor = 3
  MaxBroken = 11
  DefaultHdr = "lt"
INVARIANTS TypeOK RuleSanity
