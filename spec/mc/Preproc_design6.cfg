\* design run (thorough): as Preproc_design.cfg with units of <= 6 lines
SPECIFICATION Spec
CONSTANTS
  PPMode = TRUE
  Lits <- PoolPP
  Conds <- CondPool
  Defs <- DefPool
  Texts <- TextPool
  Zero = 1
  One = 2
  Names <- DirNames
  CondIdx <- DirConds
  ElifIdx <- DirConds
  DefIdx <- DirDefs
  TextIdx <- DirTexts
  MaxLines = 6
  MaxNest = 2
  MacroFocus = FALSE
INVARIANTS StackOK OneGroup EvalIffC
PROPERTY TakenMonotone
