---------------------------- MODULE MC_Props ----------------------------
EXTENDS Props, Randomization
MCModes == <<"Serial", "OpenMP">>
\* every target gets the same shape in one Install
Uniform(shs) == {[o \in AllObj |-> sh] : sh \in shs}
UniformScalar(p) == Uniform({"abs", "s"})
UniformNested(p) == Uniform({"abs", "s", "oa", "ob"})
\* every target its own shape: 256 functions; simulation draws 4 of them afresh at every step
\* (the dependence on p keeps TLC from caching the draw as a constant)
PerObject == [AllObj -> {"abs", "s", "oa", "ob"}]
PerObjectSample(p) == IF p >= 1 THEN RandomSubset(4, PerObject) ELSE {}
=========================================================================
