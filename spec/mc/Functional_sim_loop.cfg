\* simulation (thorough): random forLoops with up to 3 outer and 3 inner iterations
SPECIFICATION SimSpec
CONSTANTS
  Mode = "loop"
  Ops <- OpsRange
  Contents <- ContentsTiny
  Tilings <- TilingsTwo
  PredFns <- RPredsQuick
  MapFns <- RMapsQuick
  EachFns <- REachQuick
  Reductions <- RRedsQuick
  Scalars <- ScalarsTwo
  Slices <- SlicesQuick
  OtherLens <- OtherLensQuick
  RangeArgs <- RangeArgsQuick
  Loops <- LoopsSim
  TiledLoops <- NoLoops
  MaxLen = 10
  MaxAbs = 1000
  NB = 4
  MaxHist = 1
CHECK_DEADLOCK FALSE
