\* design run (quick): every document with <= 3 nodes over the format-relevant symbols
SPECIFICATION Spec
CONSTANTS
  Sym <- MCSym
  NumToks <- DNums
  KeyPool <- QKeys
  LeafPool <- QLeafs
  Indents = {0, 2}
  MaxNodes = 3
  EscapeKeys = TRUE
  MaxHist = 0
VIEW View
INVARIANTS TypeOK RoundTrip
