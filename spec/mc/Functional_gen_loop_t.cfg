\* generation (thorough): LoopsThorough / TiledLoopsThorough
SPECIFICATION Spec
CONSTANTS
  Mode = "loop"
  Ops <- OpsRange
  Contents <- ContentsTiny
  Tilings <- TilingsTwo
  PredFns <- RPredsQuick
  MapFns <- RMapsQuick
  EachFns <- REachQuick
  Reductions <- RRedsQuick
  Scalars <- ScalarsTwo
  Slices <- SlicesQuick
  OtherLens <- OtherLensQuick
  RangeArgs <- RangeArgsQuick
  Loops <- LoopsThorough
  TiledLoops <- TiledLoopsThorough
  MaxLen = 10
  MaxAbs = 1000
  NB = 4
  MaxHist = 1
CONSTRAINT Emit
