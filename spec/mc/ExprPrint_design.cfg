SPECIFICATION Spec
CONSTANTS
  Trees <- DesignTrees
  EnvInit <- MCEnv
  EnvOrder <- MCEnvOrder
INVARIANTS OnlyParensAdded PrintParseIsId SpacingSuffices SameValue
