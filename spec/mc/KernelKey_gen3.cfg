\* generation (thorough, key tier): every configuration with at most 3 inputs set, one build each
SPECIFICATION Spec
CONSTANTS
  FocusGroups <- AllGroup
  Modes <- BothModes
  MaxWeight = 3
  RouteWeight = 2
  MaxBuilds = 1
  KeyVariant = "ideal"
VIEW GenView
CONSTRAINT Emit
