---------------------------- MODULE MC_OklMutate ----------------------------
(* C16 -- constants of the mutation runs that a .cfg cannot express: the hand-written seed
   kernels (token sequences; every one is a valid kernel that all seven translators must
   accept unmutated) and the replacement vocabularies.                               *)
EXTENDS OklMutate

\* seed 1 (tile): 46 tokens
Seed1 == <<"@kernel", "void", "k", "(", "const", "int", "N", ",", "float", "*", "a", ")",
  "{", "for", "(", "int", "i", "=", "0", ";", "i", "<", "N", ";", "++", "i", ";", "@tile",
  "(", "16", ",", "@outer", ",", "@inner", ")", ")", "{", "a", "[", "i", "]", "=", "i", ";",
  "}", "}">>

\* seed 2 (dim): 77 tokens
Seed2 == <<"@kernel", "void", "k", "(", "const", "int", "N", ",", "@dim", "(", "N", ",",
  "4", ")", "@dimOrder", "(", "1", ",", "0", ")", "float", "*", "a", ")", "{", "for", "(",
  "int", "o", "=", "0", ";", "o", "<", "N", ";", "++", "o", ";", "@outer", "(", "0", ")",
  ")", "{", "for", "(", "int", "i", "=", "0", ";", "i", "<", "4", ";", "++", "i", ";",
  "@inner", "(", "0", ")", ")", "{", "a", "(", "o", ",", "i", ")", "=", "1.0f", ";", "}",
  "}", "}">>

\* seed 3 (shared): 120 tokens
Seed3 == <<"@kernel", "void", "k", "(", "const", "int", "N", ",", "@restrict", "float", "*",
  "a", ",", "const", "float", "*", "b", ")", "{", "@max_inner_dims", "(", "4", ")", "for",
  "(", "int", "o", "=", "0", ";", "o", "<", "N", ";", "++", "o", ";", "@outer", ")", "{",
  "@shared", "float", "s", "[", "4", "]", ";", "@exclusive", "int", "x", ";", "for", "(",
  "int", "i", "=", "0", ";", "i", "<", "4", ";", "++", "i", ";", "@inner", ")", "{", "x",
  "=", "i", ";", "s", "[", "i", "]", "=", "b", "[", "o", "*", "4", "+", "i", "]", ";", "}",
  "@barrier", ";", "for", "(", "int", "i", "=", "0", ";", "i", "<", "4", ";", "++", "i",
  ";", "@inner", ")", "{", "@atomic", "a", "[", "o", "]", "+=", "s", "[", "x", "]", ";",
  "}", "}", "}">>

\* seed 4 (cpp): 142 tokens
Seed4 == <<"#define", "M", "4", "\n", "typedef", "struct", "{", "float", "x", ";", "int",
  "y", ";", "}", "P", ";", "float", "f", "(", "const", "float", "x", ")", "{", "return",
  "x", "*", "2.0f", "+", "M", ";", "}", "@kernel", "void", "k", "(", "const", "int", "N",
  ",", "float", "*", "a", ",", "const", "P", "*", "p", ")", "{", "for", "(", "int", "o",
  "=", "0", ";", "o", "<", "N", ";", "o", "+=", "M", ";", "@outer", ")", "{", "for", "(",
  "int", "i", "=", "o", ";", "i", "<", "o", "+", "M", ";", "++", "i", ";", "@inner", ")",
  "{", "if", "(", "i", "<", "N", "&&", "p", "[", "i", "]", ".", "y", "!=", "0", ")", "{",
  "a", "[", "i", "]", "=", "f", "(", "p", "[", "i", "]", ".", "x", ")", ";", "}", "else",
  "{", "a", "[", "i", "]", "=", "(", "i", "%", "2", "==", "0", ")", "?", "1.0f", ":",
  "-1.0f", ";", "}", "}", "}", "}">>

\* seed 5 (flow): 128 tokens
Seed5 == <<"@kernel", "void", "k", "(", "const", "int", "N", ",", "int", "*", "a", ")", "{",
  "for", "(", "int", "o", "=", "0", ";", "o", "<", "N", ";", "++", "o", ";", "@outer", ")",
  "{", "for", "(", "int", "i", "=", "0", ";", "i", "<", "4", ";", "++", "i", ";", "@inner",
  ")", "{", "int", "j", "=", "0", ";", "while", "(", "j", "<", "3", ")", "{", "if", "(",
  "j", "==", "1", ")", "{", "break", ";", "}", "++", "j", ";", "}", "for", "(", "int", "m",
  "=", "0", ";", "m", "<", "2", ";", "++", "m", ")", "{", "if", "(", "m", ")", "continue",
  ";", "switch", "(", "i", ")", "{", "case", "0", ":", "a", "[", "o", "]", "=", "'a'", ";",
  "break", ";", "default", ":", "a", "[", "o", "]", "=", "sizeof", "(", "i", ")", ";", "}",
  "}", "}", "}", "}">>

\* seed 6 (variadic): 167 tokens
Seed6 == <<"#define", "FIRST(", "x", ",", "...", ")", "x", "\n", "#define", "PICK(", "a",
  ",", "b", ",", "...", ")", "b", "\n", "#define", "FWD(", "...", ")", "PICK(",
  "__VA_ARGS__", ")", "\n", "#define", "ADD(", "a", ",", "b", ")", "(", "(", "a", ")", "+",
  "(", "b", ")", ")", "\n", "#define", "TWICE(", "f", ",", "v", ")", "f(", "f(", "v", ",",
  "1", ")", ",", "1", ")", "\n", "@kernel", "void", "k", "(", "const", "int", "N", ",",
  "float", "*", "a", ")", "{", "for", "(", "int", "o", "=", "0", ";", "o", "<", "N", ";",
  "++", "o", ";", "@outer", ")", "{", "for", "(", "int", "i", "=", "0", ";", "i", "<", "4",
  ";", "++", "i", ";", "@inner", ")", "{", "a", "[", "FIRST(", "i", ")", "]", "=", "PICK(",
  "1", ",", "2", ")", ";", "a", "[", "FIRST(", "i", ",", "o", ")", "]", "=", "PICK(", "1",
  ",", "2", ",", "3", ")", "+", "FWD(", "4", ",", "5", ",", "6", ")", ";", "a", "[", "o",
  "]", "=", "ADD(", "FIRST(", "1", ",", "2", ",", "3", ")", ",", "TWICE(", "ADD", ",", "i",
  ")", ")", ";", "}", "}", "}">>

\* seed 7 (cond): 152 tokens
Seed7 == <<"#define", "A", "1", "\n", "#define", "B", "A", "\n", "#define", "C", "(", "B",
  "+", "1", ")", "\n", "#if", "C", ">", "1", "\n", "#define", "D", "4", "\n", "#elif", "C",
  "==", "1", "\n", "#define", "D", "2", "\n", "#else", "\n", "#define", "D", "1", "\n",
  "#endif", "\n", "#undef", "A", "\n", "#define", "A", "2", "\n", "#ifdef", "D", "\n",
  "#ifndef", "E", "\n", "#define", "E", "D", "\n", "#endif", "\n", "#endif", "\n", "#if",
  "defined", "(", "E", ")", "&&", "!", "defined", "(", "F", ")", "\n", "#define", "F(", "x",
  ")", "(", "x", "*", "E", ")", "\n", "#endif", "\n", "@kernel", "void", "k", "(", "const",
  "int", "N", ",", "float", "*", "a", ")", "{", "for", "(", "int", "o", "=", "0", ";", "o",
  "<", "N", ";", "++", "o", ";", "@outer", ")", "{", "for", "(", "int", "i", "=", "0", ";",
  "i", "<", "E", ";", "++", "i", ";", "@inner", ")", "{", "a", "[", "i", "]", "=", "A", "+",
  "B", "+", "C", "+", "F(", "o", ")", ";", "}", "}", "}">>

MCSeeds == <<Seed1, Seed2, Seed3, Seed4, Seed5, Seed6, Seed7>>

\* punctuators: every bracket, separators, the attribute marker, operators of each arity,
\* the preprocessor marker, quote characters (unterminated literal), a newline
MCPuncts == {"(", ")", "{", "}", "[", "]", ";", ",", ":", "@", "=", "<", "+", "++", "*", "&",
             ".", "?", "->", "#", "\"", "'", "\\", "\n"}
\* words: keywords, attributes, numbers (7 is out of range as a loop index), an identifier, a type
MCWords == {"for", "if", "else", "while", "return", "int", "const", "struct", "void",
            "@outer", "@inner", "@shared", "@exclusive", "@kernel", "@tile", "@dim", "@barrier",
            "@atomic", "0", "7", "x", "#define", "#if"}
MCBrackets == {"(", ")", "{", "}", "[", "]"}
=============================================================================
