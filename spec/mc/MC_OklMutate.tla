---------------------------- MODULE MC_OklMutate ----------------------------
(* C16 -- constants of the mutation runs that a .cfg cannot express: the hand-written seed
   kernels (token sequences; every one is a valid kernel that all seven translators must
   accept unmutated) and the replacement vocabularies.                               *)
EXTENDS OklMutate

\* seed 1 (tile): 46 tokens
Seed1 == <<"@kernel", "void", "k", "(", "const", "int", "N", ",", "float", "*", "a", ")",
  "{", "for", "(", "int", "i", "=", "0", ";", "i", "<", "N", ";", "++", "i", ";", "@tile",
  "(", "16", ",", "@outer", ",", "@inner", ")", ")", "{", "a", "[", "i", "]", "=", "i", ";",
  "}", "}">>

\* seed 2 (dim): 77 tokens
Seed2 == <<"@kernel", "void", "k", "(", "const", "int", "N", ",", "@dim", "(", "N", ",",
  "4", ")", "@dimOrder", "(", "1", ",", "0", ")", "float", "*", "a", ")", "{", "for", "(",
  "int", "o", "=", "0", ";", "o", "<", "N", ";", "++", "o", ";", "@outer", "(", "0", ")",
  ")", "{", "for", "(", "int", "i", "=", "0", ";", "i", "<", "4", ";", "++", "i", ";",
  "@inner", "(", "0", ")", ")", "{", "a", "(", "o", ",", "i", ")", "=", "1.0f", ";", "}",
  "}", "}">>

\* seed 3 (shared): 120 tokens
Seed3 == <<"@kernel", "void", "k", "(", "const", "int", "N", ",", "@restrict", "float", "*",
  "a", ",", "const", "float", "*", "b", ")", "{", "@max_inner_dims", "(", "4", ")", "for",
  "(", "int", "o", "=", "0", ";", "o", "<", "N", ";", "++", "o", ";", "@outer", ")", "{",
  "@shared", "float", "s", "[", "4", "]", ";", "@exclusive", "int", "x", ";", "for", "(",
  "int", "i", "=", "0", ";", "i", "<", "4", ";", "++", "i", ";", "@inner", ")", "{", "x",
  "=", "i", ";", "s", "[", "i", "]", "=", "b", "[", "o", "*", "4", "+", "i", "]", ";", "}",
  "@barrier", ";", "for", "(", "int", "i", "=", "0", ";", "i", "<", "4", ";", "++", "i",
  ";", "@inner", ")", "{", "@atomic", "a", "[", "o", "]", "+=", "s", "[", "x", "]", ";",
  "}", "}", "}">>

\* seed 4 (cpp): 142 tokens
Seed4 == <<"#define", "M", "4", "\n", "typedef", "struct", "{", "float", "x", ";", "int",
  "y", ";", "}", "P", ";", "float", "f", "(", "const", "float", "x", ")", "{", "return",
  "x", "*", "2.0f", "+", "M", ";", "}", "@kernel", "void", "k", "(", "const", "int", "N",
  ",", "float", "*", "a", ",", "const", "P", "*", "p", ")", "{", "for", "(", "int", "o",
  "=", "0", ";", "o", "<", "N", ";", "o", "+=", "M", ";", "@outer", ")", "{", "for", "(",
  "int", "i", "=", "o", ";", "i", "<", "o", "+", "M", ";", "++", "i", ";", "@inner", ")",
  "{", "if", "(", "i", "<", "N", "&&", "p", "[", "i", "]", ".", "y", "!=", "0", ")", "{",
  "a", "[", "i", "]", "=", "f", "(", "p", "[", "i", "]", ".", "x", ")", ";", "}", "else",
  "{", "a", "[", "i", "]", "=", "(", "i", "%", "2", "==", "0", ")", "?", "1.0f", ":",
  "-1.0f", ";", "}", "}", "}", "}">>

\* seed 5 (flow): 128 tokens
Seed5 == <<"@kernel", "void", "k", "(", "const", "int", "N", ",", "int", "*", "a", ")", "{",
  "for", "(", "int", "o", "=", "0", ";", "o", "<", "N", ";", "++", "o", ";", "@outer", ")",
  "{", "for", "(", "int", "i", "=", "0", ";", "i", "<", "4", ";", "++", "i", ";", "@inner",
  ")", "{", "int", "j", "=", "0", ";", "while", "(", "j", "<", "3", ")", "{", "if", "(",
  "j", "==", "1", ")", "{", "break", ";", "}", "++", "j", ";", "}", "for", "(", "int", "m",
  "=", "0", ";", "m", "<", "2", ";", "++", "m", ")", "{", "if", "(", "m", ")", "continue",
  ";", "switch", "(", "i", ")", "{", "case", "0", ":", "a", "[", "o", "]", "=", "'a'", ";",
  "break", ";", "default", ":", "a", "[", "o", "]", "=", "sizeof", "(", "i", ")", ";", "}",
  "}", "}", "}", "}">>

MCSeeds == <<Seed1, Seed2, Seed3, Seed4, Seed5>>

\* punctuators: every bracket, separators, the attribute marker, operators of each arity,
\* the preprocessor marker, quote characters (unterminated literal), a newline
MCPuncts == {"(", ")", "{", "}", "[", "]", ";", ",", ":", "@", "=", "<", "+", "++", "*", "&",
             ".", "?", "->", "#", "\"", "'", "\\", "\n"}
\* words: keywords, attributes, numbers (7 is out of range as a loop index), an identifier, a type
MCWords == {"for", "if", "else", "while", "return", "int", "const", "struct", "void",
            "@outer", "@inner", "@shared", "@exclusive", "@kernel", "@tile", "@dim", "@barrier",
            "@atomic", "0", "7", "x", "#define", "#if"}
MCBrackets == {"(", ")", "{", "}", "[", "]"}
=============================================================================
