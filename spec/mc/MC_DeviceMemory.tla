------------------------- MODULE MC_DeviceMemory -------------------------
EXTENDS DeviceMemory
\* argument domains (L = number of elements of the view the call is made on)
DomFull(L)  == (-2..(L + 2)) \cup {HUGE, NEGHUGE}
DomClass(L) == {NEGHUGE, -2, -1, 0, 1, L - 1, L, L + 1, HUGE}
DomNear(L)  == -1..(L + 1)
DomTiny(L)  == {-1, 0, 1, L, L + 1}
DomTinyTok(L) == {NEGHUGE, -2, -1, 0, 1, L, L + 1, HUGE}
Dom2Class(L) == {-1, 0, 1, L - 1, L, L + 1, HUGE}
Dom2Near(L)  == -1..(L + 1)
Dom2Tiny(L)  == {-1, 0, 1, L}
Dom2None(L)  == {}
Dom2Sim(L)   == {-1, 0, 1, L - 1, L}
Dom2Min(L)   == {-1, 0, 1}

Host0 == <<>>
Host1 == <<1>>
Host2 == <<1, 1>>
Host4 == <<201, 202, 203, 204>>
Host8 == <<201, 202, 203, 204, 205, 206, 207, 208>>
NoPrefix == {<<>>}
NoErrBound == -1

P(a, v, w, x, y, z, e, f) == [a |-> a, v |-> v, w |-> w, x |-> x, y |-> y, z |-> z, e |-> e, f |-> f]
\* shape prefix: slot 1 = 8-byte buffer with data (int16), 2 = slice [2,8) of it, 3 = slice of the
\* slice [4,8), 4 = cast of 2 to 4-byte elements, 5 = clone of 3, 6 = wrapped host array
PrefixShapes == <<
  P("Malloc", 0, 0, 4, 0, 0, 2, 1),
  P("Slice",  1, 0, 1, -1, 0, 1, 0),
  P("Slice",  2, 0, 1, 2, 0, 1, 0),
  P("Cast",   2, 0, 0, 0, 0, 4, 0),
  P("Clone",  3, 0, 0, 0, 0, 1, 0),
  P("Wrap",   0, 0, 1, 3, 0, 2, 0) >>
\* a second family: byte buffer of 7 bytes, views with a size that is not a multiple of the dtype size
\* (slot 2 = [2,7) bytes, 3 = the same as int16, 4 = slice [2,4) of 3, 5 = the whole buffer as int32, 6 = 4 as int32)
PrefixOdd == <<
  P("Malloc", 0, 0, 7, 0, 0, 1, 1),
  P("Offset", 1, 0, 2, -1, 0, 1, 0),
  P("Cast",   2, 0, 0, 0, 0, 2, 0),
  P("Slice",  3, 0, 1, 1, 0, 1, 0),
  P("Cast",   1, 0, 0, 0, 0, 4, 0),
  P("Cast",   4, 0, 0, 0, 0, 4, 0) >>    \* a 2-byte view with a 4-byte dtype: length 0 but not empty
ShapePrefixes == {PrefixShapes, PrefixOdd}
=========================================================================
