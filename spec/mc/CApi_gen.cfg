\* behaviour generation (quick): every history of 4 calls, tiny values
SPECIFICATION Spec
CONSTANTS
  Vals <- TinyVals
  Dflts <- SomeDflts
  Keys = {"a", "b"}
  PathKeys <- NoPaths
  MaxHandles = 3
  MaxLen = 2
  Ops <- AllOps
  EchoToks <- NoToks
  PushKeepsRefs = FALSE
  MaxHist = 4
CONSTRAINT Emit
