\* schedule generation: every complete schedule (the history variable is part of the state), with the
\* outcome the model predicts at quiescence
SPECIFICATION Spec
CONSTANTS
  Threads <- T2
  Prog <- ProgDropDrop
  InitRing = {"h1","h2"}
  AtomicRelease = TRUE
INVARIANTS EmitSchedule
CHECK_DEADLOCK FALSE
