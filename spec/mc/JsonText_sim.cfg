\* simulation: random documents of up to 9 nodes
SPECIFICATION SpecRand
CONSTANTS
  Sym <- MCSym
  NumToks <- CNums
  KeyPool <- SKeys
  LeafPool <- SLeafs
  Indents = {0, 2}
  MaxNodes = 9
  EscapeKeys = TRUE
  MaxHist = 9
