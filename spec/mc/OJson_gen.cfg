\* generation (quick): every history of 2 operations; paths of <= 2 components
SPECIFICATION Spec
CONSTANTS
  KeySeq <- K3
  PathKeys = {"a", "b"}
  MaxPathLen = 2
  WriteVals <- WThree
  MergeVals <- MQ
  SetKeys = {"a", "a/b"}
  MaxDepth = 9
  Variant = "intended"
  MaxHist = 2
CONSTRAINT Emit
