\* sensitivity run: the cache machine of the unrepaired code must violate ShortFaithful
SPECIFICATION Spec
CONSTANTS
  Regs <- MCRegs2
  Pool <- MCPool3
  Impl = "base"
  MaxHist = 0
VIEW View
INVARIANTS TypeOK ShortFaithful
