SPECIFICATION TSpec
CONSTANTS
  TileKernels <- ThoroughTileKernels
  StepAware = TRUE
  ArgVals <- ThoroughArgs
  StepVals = {1, 2, 3}
  Fuel = 12
  OneQ = FALSE
  MaxAbs = 10
INVARIANTS TileCovers
CONSTRAINT TEmit
CHECK_DEADLOCK FALSE
