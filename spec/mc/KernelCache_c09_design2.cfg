\* C09 design run: a and b build concurrently (every interleaving of their file-system calls), then c builds; full script
SPECIFICATION Spec
CONSTANTS
  Proc = {"a", "b", "c"}
  ProcSeq <- MCSeq3
  Scripts <- MCScripts
  Crashers = {}
  Late = {"c"}
  Sequential = FALSE
  Variants = {"SS", "SF", "OS", "OF"}
  VendorOutStaged = TRUE
  Collapsed = FALSE
  Emit = FALSE
VIEW View
INVARIANTS TypeOK NoPartialUnderFinalName NoBadUnderFinalName EveryProcessSucceeds AllAgree LaterBuildReuses
