\* generation A2 (quick): root + one child; every key of length <= 2, two strings
SPECIFICATION Spec
CONSTANTS
  Sym <- MCSym
  NumToks <- DNums
  KeyPool <- AKeys
  LeafPool <- A2Leafs
  Indents = {0, 2}
  MaxNodes = 2
  EscapeKeys = TRUE
  MaxHist = 2
CONSTRAINT Emit
