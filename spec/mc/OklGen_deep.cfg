\* generation (C22, thorough): loop nesting -- every structure with up to 5 nodes / depth 5 over
\* @outer, @inner, if (no decorations) that breaks at most one rule group
SPECIFICATION Spec
CONSTANTS
  MaxNodes = 5
  MaxDepth = 5
  Kinds = {"fo","fi","if"}
  GoodH = {"lt"}
  BadH = {}
  RetTypes = {"void"}
  MaxDecor = 0
  MaxBroken = 1
  DefaultHdr = "lt"
CONSTRAINT Emit
