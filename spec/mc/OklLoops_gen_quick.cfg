\* behaviour generation (quick): QuickKernels x run-time values
SPECIFICATION Spec
CONSTANTS
  Kernels <- QuickKernels
  ArgVals <- QuickArgs
  StepVals = {1, 2, 3}
  Fuel = 7
  OneQ = TRUE
  MaxAbs = 8
INVARIANTS MachineIsSeqIters SchemeCovers
CONSTRAINT Emit
CHECK_DEADLOCK FALSE
