----------------------------- MODULE MC_CExpr -----------------------------
(* Constants of the C14 runs: the literal pool (every C++ integer type at its boundaries,
   every radix and suffix, bool, small dyadic floating literals) and the operator sets.    *)
EXTENDS CExpr

I(radix, digs, u, l) == [k |-> "int", neg |-> FALSE, radix |-> radix, digs |-> digs, u |-> u, l |-> l]
D(digs)  == I(10, digs, FALSE, 0)
X(digs)  == I(16, digs, FALSE, 0)
N(lit)   == [lit EXCEPT !.neg = TRUE]
F(m, e, f) == [k |-> "flt", neg |-> FALSE, m |-> m, e |-> e, f |-> f]
B(b)     == [k |-> "bool", b |-> b]
F8  == <<15, 15, 15, 15, 15, 15, 15, 15>>
F16 == F8 \o F8
Z7  == <<0, 0, 0, 0, 0, 0, 0>>
IMAX  == <<2, 1, 4, 7, 4, 8, 3, 6, 4, 7>>
IMAX1 == <<2, 1, 4, 7, 4, 8, 3, 6, 4, 8>>
UMAX  == <<4, 2, 9, 4, 9, 6, 7, 2, 9, 5>>
UMAX1 == <<4, 2, 9, 4, 9, 6, 7, 2, 9, 6>>
LMAX  == <<9, 2, 2, 3, 3, 7, 2, 0, 3, 6, 8, 5, 4, 7, 7, 5, 8, 0, 7>>

PoolCxx == <<
  D(<<0>>), D(<<1>>), D(<<2>>), D(<<3>>), D(<<3, 1>>), D(<<3, 2>>), D(<<6, 3>>), D(<<6, 4>>),           \*  1- 8
  D(IMAX), D(IMAX1), D(<<3, 0, 0, 0, 0, 0, 0, 0, 0, 0>>), D(UMAX), D(UMAX1), D(LMAX),                   \*  9-14
  X(<<7>> \o Tail(F8)), X(<<8>> \o Z7), X(F8), X(<<1, 0>> \o Z7),                                        \* 15-18
  X(<<7>> \o Tail(F16)), X(<<8>> \o Z7 \o <<0>> \o Z7), X(F16),                                          \* 19-21
  I(10, <<0>>, TRUE, 0), I(10, <<1>>, TRUE, 0), I(10, UMAX, TRUE, 0), I(10, UMAX1, TRUE, 0),             \* 22-25
  I(10, <<1>>, FALSE, 1), I(10, IMAX1, FALSE, 1), I(10, <<1>>, TRUE, 1), I(10, <<1>>, FALSE, 2),         \* 26-29
  I(16, <<8>> \o Z7, FALSE, 1), I(16, F16, FALSE, 1),                                                    \* 30-31
  I(8, <<0, 1, 0>>, FALSE, 0), I(8, <<0, 3, 7, 7, 7, 7, 7, 7, 7, 7, 7, 7>>, FALSE, 0),                   \* 32-33
  I(2, <<1, 0, 1>>, FALSE, 0),                                                                           \* 34
  N(D(<<1>>)), N(D(<<2>>)), N(D(IMAX)), N(D(IMAX1)), N(I(10, <<1>>, FALSE, 1)), N(D(LMAX)),              \* 35-40
  N(I(10, <<1>>, TRUE, 0)),                                                                              \* 41
  B(TRUE), B(FALSE),                                                                                     \* 42-43
  F(0, 0, FALSE), F(1, 0, FALSE), F(3, 1, FALSE), F(1, 1, TRUE), F(1, 0, TRUE), F(2, 0, TRUE),           \* 44-49
  N(F(3, 1, FALSE)), F(3, 0, FALSE), N(F(1, 1, TRUE)), F(100, 0, FALSE),                                 \* 50-53
  D(<<5>>), N(D(<<7>>)), D(<<7>>), I(10, <<2>>, TRUE, 0), I(10, <<4, 0>>, FALSE, 1) >>                   \* 54-58

\* the pool, printed once per run so that the replayer's texts are rendered from the very same records
ASSUME PrintT(<<"P", ToJson(PoolCxx)>>)

AllIdx   == 1..Len(PoolCxx)
\* quick tier core pool: one or two representatives per type / boundary
CoreIdx  == {1, 2, 6, 9, 10, 11, 14, 17, 21, 23, 26, 35, 38, 42, 46, 48, 55}
\* thorough tier: every literal of the pool
TernCond == {1, 2}
CondCore == {1, 2, 35, 22, 46, 42}
CondAll  == {1, 2, 35, 22, 23, 26, 44, 46, 47, 42, 43, 21}
DesignIdx == {1, 10, 17, 23, 35, 38, 43, 46, 48}
TinyIdx == {10, 17, 35, 46}
IntIdx   == {i \in AllIdx : PoolCxx[i].k = "int"}

AllUn  == {"+", "-", "~", "!"}
AllBin == {"+", "-", "*", "/", "%", "<<", ">>", "&", "|", "^", "<", "<=", ">", ">=", "==", "!="}
AllLog == {"&&", "||"}
NoOps  == {}
DivOnly == {"/"}
ZeroOne == {1, 2}
===========================================================================
