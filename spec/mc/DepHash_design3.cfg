\* thorough design run: 3 headers (h1 -> h2, h1 -> h3, h2 -> h3 possible), 2 values
SPECIFICATION Spec
CONSTANTS
  HSeq <- H3
  Root <- RootBoth
  Vals <- V2
  InitVal <- Init3
  MaxEdits = 4
  MaxBuilds = 4
  Variant = "chained"
  Fuel = 50
  Styles <- QuotedOnly
  MaxHist = 0
VIEW View
INVARIANTS TypeOK NoStaleRun ResolveTerminates
