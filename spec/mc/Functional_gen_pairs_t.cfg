\* generation (thorough): six arrays x five tile settings, every pair of state-relevant calls
SPECIFICATION Spec
CONSTANTS
  Mode = "array"
  Ops <- OpsState
  Contents <- ContentsTiny
  Tilings <- TilingsFive
  PredFns <- PredsPair
  MapFns <- MapsCore
  EachFns <- EachQuick
  Reductions <- RedsState
  Scalars <- ScalarsOne
  Slices <- SlicesPair
  OtherLens <- OtherLensQuick
  RangeArgs <- RangeArgsQuick
  Loops <- NoLoops
  TiledLoops <- NoLoops
  MaxLen = 10
  MaxAbs = 1000
  NB = 4
  MaxHist = 3
CONSTRAINT Emit
