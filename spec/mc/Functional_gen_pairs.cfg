\* generation (quick): six arrays x two tile settings, then every PAIR of state-relevant calls (tile, mapTo self, fill, slice, concat, reductions with accumulators of different width, every, findIndex, map)
SPECIFICATION Spec
CONSTANTS
  Mode = "array"
  Ops <- OpsState
  Contents <- ContentsTiny
  Tilings <- TilingsTwo
  PredFns <- PredsPair
  MapFns <- MapsCore
  EachFns <- EachQuick
  Reductions <- RedsState
  Scalars <- ScalarsOne
  Slices <- SlicesPair
  OtherLens <- OtherLensQuick
  RangeArgs <- RangeArgsQuick
  Loops <- NoLoops
  TiledLoops <- NoLoops
  MaxLen = 10
  MaxAbs = 1000
  NB = 4
  MaxHist = 3
CONSTRAINT Emit
