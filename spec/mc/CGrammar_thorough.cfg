SPECIFICATION SSpec
CONSTANTS
  Programs <- ThoroughPrograms
  Styles <- BothStyles
  VarOrder <- MCVarOrder
  EnvInit <- MCEnv
INVARIANTS PrintParseIsIdS SameMeaning
CONSTRAINT EmitS
