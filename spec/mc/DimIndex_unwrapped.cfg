\* the deviation found in dim.cpp (index arguments not wrapped) on the model: whole exactly when every
\* left operand of the generated "+" binds at least as tightly as "+"
SPECIFICATION DSpec
CONSTANTS
  DimKernels <- WholeKernels
  WrapArgs = FALSE
INVARIANTS UnwrappedWholeIff PrintParseSane
CHECK_DEADLOCK FALSE
