\* design run on the repaired fold: 2 headers (h1 may include h2), 3 values, <= 3 edits and <= 3 builds (quick)
SPECIFICATION Spec
CONSTANTS
  HSeq <- H2
  Root <- RootBoth
  Vals <- V3
  InitVal <- Init2
  MaxEdits = 3
  MaxBuilds = 3
  Variant = "chained"
  Fuel = 50
  Styles <- QuotedOnly
  MaxHist = 0
VIEW View
INVARIANTS TypeOK NoStaleRun ResolveTerminates
