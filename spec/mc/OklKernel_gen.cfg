\* behaviour generation: the generator builds kernels of every coverage class from the G menus; every
\* complete kernel is printed once with the outputs SeqRun predicts for each argument vector
\* (run with -simulate: seeded random walks through the generator)
SPECIFICATION Spec
CONSTANTS
  Classes <- AllClasses
  Heads <- SHeads
  Menu <- SMenu
  Plans <- SPlans
  Wraps <- GWraps
  NoBarChoices <- GNoBar
  ArgVecs <- MCArgVecs
  CheckArgs = {}
  Mode = "emit"
  BarrierRule = "scheme"
  AtomicIndivisible = TRUE
  RelaxRules <- NoRelax
CONSTRAINT Emit
