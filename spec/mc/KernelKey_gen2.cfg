\* generation (quick, key tier): every configuration with at most 2 inputs set, one build each
SPECIFICATION Spec
CONSTANTS
  FocusGroups <- AllGroup
  Modes <- BothModes
  MaxWeight = 2
  RouteWeight = 1
  MaxBuilds = 1
  KeyVariant = "ideal"
VIEW GenView
CONSTRAINT Emit
