\* design (2): printing the rewritten index and parsing it as C keeps every argument whole
SPECIFICATION DSpec
CONSTANTS
  DimKernels <- WholeKernels
  WrapArgs = TRUE
INVARIANTS WholeOK PrintParseSane
CHECK_DEADLOCK FALSE
