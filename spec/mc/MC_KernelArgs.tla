---------------------------- MODULE MC_KernelArgs ----------------------------
EXTENDS KernelArgs
B(n) == Builtin(n)
P(id, ptr, const, dt) == [id |-> id, ptr |-> ptr, const |-> const, dt |-> dt]
A(id, k, dt) == [id |-> id, k |-> k, dt |-> dt]
S2 == Struct("", <<"x", "y">>, <<B("float"), B("float")>>)
\* (vector types such as float2 are not declared in Serial-mode kernel sources, so they appear as memory
\*  element types only; memory element types must be registered dtypes)
\* parameter ids are OKL spellings (see checks/c10.py PARAM_DECL)
ParamsQuick == { P("float*", TRUE, FALSE, B("float")), P("const int*", TRUE, TRUE, B("int")),
                 P("S2*", TRUE, FALSE, S2),                      \* struct S2 { float x; float y; } declared in the source
                 P("int", FALSE, FALSE, B("int")),
                 P("const double", FALSE, TRUE, B("double")) }
ParamsFull == ParamsQuick \cup
               { P("double*", TRUE, FALSE, B("double")), P("T2*", TRUE, FALSE, S2),   \* typedef struct { float x, y; } T2
                 P("char*", TRUE, FALSE, B("char")), P("long*", TRUE, FALSE, B("long")),
                 P("real_t*", TRUE, FALSE, B("float")),           \* typedef float real_t
                 P("float[4]", TRUE, FALSE, Tuple(B("float"), 4)), \* fixed array parameter
                 P("float", FALSE, FALSE, B("float")) }
ArgsQuick == { A("mem:byte", "mem", B("byte")), A("mem:float", "mem", B("float")), A("mem:int", "mem", B("int")),
               A("mem:S2", "mem", S2), A("scalar:int", "scalar", B("int")), A("null", "null", B("byte")) }
ArgsFull == ArgsQuick \cup
             { A("mem:double", "mem", B("double")), A("mem:float2", "mem", B("float2")),
               A("mem:C", "mem", Custom("C", 4, TRUE)), A("mem:char", "mem", B("char")),
               A("scalar:float", "scalar", B("float")), A("scalar:double", "scalar", B("double")) }

\* ---- fixed-array parameters  T a[n] ---------------------------------------------------------------
\* every scalar base spelling the type loader distinguishes; its element dtype is what
\* occa::dtype::get<T>() gives for that C type (src/dtype/builtins.cpp): signedness is not distinguished,
\* long and long long are both "long"
Bases == {"char", "unsigned char", "short", "unsigned short", "int", "unsigned int", "long", "unsigned long",
          "long long", "unsigned long long", "float", "double"}
ElemOf(base) == CASE base \in {"char", "unsigned char"} -> "char"
                  [] base \in {"short", "unsigned short"} -> "short"
                  [] base \in {"int", "unsigned int"} -> "int"
                  [] base \in {"long", "unsigned long", "long long", "unsigned long long"} -> "long"
                  [] base = "float" -> "float"
                  [] base = "double" -> "double"
NStr(n) == CASE n = 1 -> "1" [] n = 2 -> "2" [] n = 4 -> "4"
\* id:  ["const "]["td:"]<base>"["<n>"]"     (td: the base goes through  typedef <base> td_t;)
ArrId(c, td, base, n) == (IF c THEN "const " ELSE "") \o (IF td THEN "td:" ELSE "") \o base \o "[" \o NStr(n) \o "]"
ArraysOver(bases, sizes) ==
  {P(ArrId(c, td, b, n), TRUE, c, Tuple(B(ElemOf(b)), n)) : c \in BOOLEAN, td \in BOOLEAN, b \in bases, n \in sizes}
ArraysAll == ArraysOver(Bases, {1, 2, 4})
\* the pointer forms  [const] [typedef'd] T *a  of the same spellings (thorough)
PtrId(c, td, base) == (IF c THEN "const " ELSE "") \o (IF td THEN "td:" ELSE "") \o base \o "*"
PointersAll == {P(PtrId(c, td, b), TRUE, c, B(ElemOf(b))) : c \in BOOLEAN, td \in BOOLEAN, b \in Bases}
ArraysAndPointers == ArraysAll \cup PointersAll
\* memories: the matching scalar types, the int-vs-long confusable ones, vector types of the same total
\* size, the byte wildcard; plus a scalar and null (kind clauses)
ArrayArgsAll == { A("mem:byte", "mem", B("byte")), A("mem:char", "mem", B("char")), A("mem:short", "mem", B("short")),
                  A("mem:int", "mem", B("int")), A("mem:long", "mem", B("long")), A("mem:float", "mem", B("float")),
                  A("mem:double", "mem", B("double")), A("mem:int2", "mem", B("int2")), A("mem:int4", "mem", B("int4")),
                  A("mem:long2", "mem", B("long2")), A("mem:long4", "mem", B("long4")), A("mem:float2", "mem", B("float2")),
                  A("mem:float4", "mem", B("float4")), A("mem:double2", "mem", B("double2")), A("mem:short2", "mem", B("short2")),
                  A("mem:char4", "mem", B("char4")), A("scalar:int", "scalar", B("int")), A("null", "null", B("byte")) }
NoArrays == {}
=========================================================================
