---------------------------- MODULE MC_KernelArgs ----------------------------
EXTENDS KernelArgs
B(n) == Builtin(n)
P(id, ptr, const, dt) == [id |-> id, ptr |-> ptr, const |-> const, dt |-> dt]
A(id, k, dt) == [id |-> id, k |-> k, dt |-> dt]
S2 == Struct("", <<"x", "y">>, <<B("float"), B("float")>>)
\* (vector types such as float2 are not declared in Serial-mode kernel sources, so they appear as memory
\*  element types only; memory element types must be registered dtypes)
\* parameter ids are OKL spellings (see checks/c10.py PARAM_DECL)
ParamsQuick == { P("float*", TRUE, FALSE, B("float")), P("const int*", TRUE, TRUE, B("int")),
                 P("S2*", TRUE, FALSE, S2),                      \* struct S2 { float x; float y; } declared in the source
                 P("int", FALSE, FALSE, B("int")),
                 P("const double", FALSE, TRUE, B("double")) }
ParamsFull == ParamsQuick \cup
               { P("double*", TRUE, FALSE, B("double")), P("T2*", TRUE, FALSE, S2),   \* typedef struct { float x, y; } T2
                 P("char*", TRUE, FALSE, B("char")), P("long*", TRUE, FALSE, B("long")),
                 P("real_t*", TRUE, FALSE, B("float")),           \* typedef float real_t
                 P("float[4]", TRUE, FALSE, Tuple(B("float"), 4)), \* fixed array parameter
                 P("float", FALSE, FALSE, B("float")) }
ArgsQuick == { A("mem:byte", "mem", B("byte")), A("mem:float", "mem", B("float")), A("mem:int", "mem", B("int")),
               A("mem:S2", "mem", S2), A("scalar:int", "scalar", B("int")), A("null", "null", B("byte")) }
ArgsFull == ArgsQuick \cup
             { A("mem:double", "mem", B("double")), A("mem:float2", "mem", B("float2")),
               A("mem:C", "mem", Custom("C", 4, TRUE)), A("mem:char", "mem", B("char")),
               A("scalar:float", "scalar", B("float")), A("scalar:double", "scalar", B("double")) }
=========================================================================
