\* behaviour generation (thorough): every history of length 3, 2 objects, byte strings {empty, s1, s2}
SPECIFICATION Spec
CONSTANTS
  Regs <- MCRegs2
  Pool <- MCPool3
  Impl = "fixed"
  MaxHist = 3
CONSTRAINT FirstOnFirst
CONSTRAINT Emit
