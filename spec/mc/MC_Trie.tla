---------------------------- MODULE MC_Trie ----------------------------
EXTENDS Trie
MCAlpha == <<"a", "b">>
FilterAll(k) == TRUE
\* six keys chosen to contain chains (a < ab < abb), siblings (aba/abb) and a second root (b, ba)
FilterSmall(k) == k \in {<<"a">>, <<"a","b">>, <<"a","b","b">>, <<"a","b","a">>, <<"b">>, <<"b","a">>}
=========================================================================
