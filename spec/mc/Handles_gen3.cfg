\* generation (thorough): every continuation of length 3 of three prefixes (handle copies of one view; two reservations of a pool; buffer + pool)
SPECIFICATION Spec
CONSTANTS
  SlotSeq <- StdSlots
  KindOf <- StdKindOf
  MaxDev = 2
  MaxCells = 2
  BufBytes = 64
  CellBytes = 128
  LazyObs = FALSE
  MaxObj = 14
  MaxHist = 3
  SwapImpl = "rings"
  Profiles <- GenDeep
CONSTRAINT PrefixOK
