\* generation (C16, quick, exhaustive): EVERY mutation (all operators, all 24 punctuators, all
\* 6 brackets, every position) of the minimal valid structure  fo{fi}  and of the @tile seed
SPECIFICATION Spec
CONSTANTS
  MaxNodes = 2
  MaxDepth = 2
  Kinds = {"fo","fi"}
  GoodH = {"lt"}
  MaxDecor = 0
  DefaultHdr = "lt"
  Seeds <- MCSeeds
  SeedIdx = {1}
  Puncts <- MCPuncts
  Words = {}
  Brackets <- MCBrackets
  Ops = {"del","dup","swap","glue","rep","trunc","unb"}
CONSTRAINT Emit
