\* design run, ranges: every range(start, end, step) with start in -2..3, end in -3..4, step in -3..3 (0 -> 1),
\* the two- and one-argument constructors; closed-form length, index->value, loop header, tiling and
\* block reduction agree with the sequential loop
SPECIFICATION Spec
CONSTANTS
  Mode = "range"
  Ops <- OpsRange
  Contents <- ContentsTiny
  Tilings <- TilingsDesign
  PredFns <- RPredsQuick
  MapFns <- RMapsQuick
  EachFns <- REachQuick
  Reductions <- RRedsQuick
  Scalars <- ScalarsTwo
  Slices <- SlicesQuick
  OtherLens <- OtherLensQuick
  RangeArgs <- RangeArgsAll
  Loops <- NoLoops
  TiledLoops <- NoLoops
  MaxLen = 5
  MaxAbs = 100
  NB = 4
  MaxHist = 0
VIEW View
INVARIANTS TypeOK SchemeOK
