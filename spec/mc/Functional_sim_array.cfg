\* simulation (thorough): random histories of 6 calls on one array (all calls, all lambdas, eleven tile settings)
SPECIFICATION SimSpec
CONSTANTS
  Mode = "array"
  Ops <- OpsAllArray
  Contents <- ContentsThorough
  Tilings <- TilingsThorough
  PredFns <- PredsQuick
  MapFns <- MapsQuick
  EachFns <- EachQuick
  Reductions <- RedsAll
  Scalars <- ScalarsQuick
  Slices <- SlicesQuick
  OtherLens <- OtherLensQuick
  RangeArgs <- RangeArgsQuick
  Loops <- NoLoops
  TiledLoops <- NoLoops
  MaxLen = 18
  MaxAbs = 1000
  NB = 4
  MaxHist = 7
CHECK_DEADLOCK FALSE
