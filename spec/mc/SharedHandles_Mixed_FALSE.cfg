SPECIFICATION Spec
CONSTANTS
  Threads <- T2
  Prog <- ProgMixed
  InitRing = {"h1","h2"}
  AtomicRelease = FALSE
VIEW View
INVARIANTS NoDoubleFree NoUseAfterFree NoLeak NoLostReference CounterExact NoLostChild
CHECK_DEADLOCK FALSE
