\* generation, signedness focus: `#if c / text [/ #else / text] / #endif` for every condition of the SignFamily of every
\* boundary literal (unsuffixed hex / octal / binary at 2^31, 2^31+1, 2^32-1; 2^63, 2^64-1; decimal 2^32-1)
SPECIFICATION Spec
CONSTANTS
  PPMode = TRUE
  Lits <- PoolPP
  Conds <- CondPool
  Defs <- DefPool
  Texts <- TextPool
  Zero = 1
  One = 2
  Names <- NoIdx
  CondIdx <- SignConds
  ElifIdx <- DirConds
  DefIdx <- NoIdx
  TextIdx <- DirTexts
  MaxLines = 4
  MaxNest = 1
  MacroFocus = FALSE
CONSTRAINT Emit
