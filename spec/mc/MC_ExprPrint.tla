---------------------------- MODULE MC_ExprPrint ----------------------------
(* Tree sets of the ExprPrint runs.  Variables a b c d (environment 5 3 2 7), p q are names
   without a value (pointer-like operands, structure only), f is int f(int x, int y) = 10x+y.  *)
EXTENDS ExprPrint

A == Id(<<"a">>)  Bv == Id(<<"b">>)  Cv == Id(<<"c">>)  D == Id(<<"d">>)  Pn == Id(<<"p">>)  Fn == Id(<<"f">>)
MCEnv == (<<"a">> :> 5) @@ (<<"b">> :> 3) @@ (<<"c">> :> 2) @@ (<<"d">> :> 7)
MCEnvOrder == << <<"a">>, <<"b">>, <<"c">>, <<"d">> >>
N1 == Lit("prim", <<"1">>, <<"1">>, 1, <<>>)
N2 == Lit("prim", <<"2">>, <<"2">>, 2, <<>>)

PrimLits == {
  Lit("prim", <<"1">>, <<"1">>, 1, <<>>),
  Lit("prim", <<"2">>, <<"2">>, 2, <<>>),
  Lit("prim", <<"3">>, <<"3">>, 3, <<>>),
  Lit("prim", <<"0">>, <<"0">>, 0, <<>>),
  Lit("prim", <<"7">>, <<"7">>, 7, <<>>),
  Lit("prim", <<"1","0">>, <<"1","0">>, 10, <<>>),
  Lit("prim", <<"0","1","7">>, <<"0","1","7">>, 15, <<>>),
  Lit("prim", <<"0","x","1","0">>, <<"0","x","1","0">>, 16, <<>>),
  Lit("prim", <<"0","X","1","f">>, <<"0","X","1","f">>, 31, <<>>),
  Lit("prim", <<"0","b","1","0","1">>, <<"0","b","1","0","1">>, 5, <<>>),
  Lit("prim", <<"1","u">>, <<"1","u">>, 1, <<>>),
  Lit("prim", <<"2","U">>, <<"2","U">>, 2, <<>>),
  Lit("prim", <<"3","l">>, <<"3","l">>, 3, <<>>),
  Lit("prim", <<"4","L">>, <<"4","L">>, 4, <<>>),
  Lit("prim", <<"5","l","l">>, <<"5","l","l">>, 5, <<>>),
  Lit("prim", <<"6","L","L">>, <<"6","L","L">>, 6, <<>>),
  Lit("prim", <<"7","u","l">>, <<"7","u","l">>, 7, <<>>),
  Lit("prim", <<"8","U","L">>, <<"8","U","L">>, 8, <<>>),
  Lit("prim", <<"9","u","l","l">>, <<"9","u","l","l">>, 9, <<>>),
  Lit("prim", <<"1","0","U","L","L">>, <<"1","0","U","L","L">>, 10, <<>>),
  Lit("prim", <<"1","1","l","u">>, <<"1","1","l","u">>, 11, <<>>),
  Lit("prim", <<"1","2","l","l","u">>, <<"1","2","l","l","u">>, 12, <<>>),
  Lit("prim", <<"0","x","7","f","u">>, <<"0","x","7","f","u">>, 127, <<>>),
  Lit("prim", <<"t","r","u","e">>, <<"t","r","u","e">>, 1, <<>>),
  Lit("prim", <<"f","a","l","s","e">>, <<"f","a","l","s","e">>, 0, <<>>) }
CharLits == {
  Lit("char", <<"SQ","a","SQ">>, <<"a">>, 97, <<>>),
  Lit("char", <<"SQ","0","SQ">>, <<"0">>, 48, <<>>),
  Lit("char", <<"SQ","BS","n","SQ">>, <<"BS","n">>, 10, <<>>),
  Lit("char", <<"SQ","BS","t","SQ">>, <<"BS","t">>, 9, <<>>),
  Lit("char", <<"SQ","BS","0","SQ">>, <<"BS","0">>, 0, <<>>),
  Lit("char", <<"SQ","BS","BS","SQ">>, <<"BS","BS">>, 92, <<>>),
  Lit("char", <<"SQ","BS","SQ","SQ">>, <<"SQ">>, 39, <<>>),
  Lit("char", <<"SQ","DQ","SQ">>, <<"DQ">>, 34, <<>>),
  Lit("char", <<"SQ","BS","DQ","SQ">>, <<"BS","DQ">>, 34, <<>>),
  Lit("char", <<"SQ","BS","a","SQ">>, <<"BS","a">>, 7, <<>>) }
StrLits == {
  Lit("str", <<"DQ","a","b","c","DQ">>, <<"a","b","c">>, 1, <<97,98,99>>),
  Lit("str", <<"DQ","DQ">>, <<>>, 1, <<>>),
  Lit("str", <<"DQ","a","BS","DQ","b","DQ">>, <<"a","DQ","b">>, 1, <<97,34,98>>),
  Lit("str", <<"DQ","BS","DQ","a","b","DQ">>, <<"DQ","a","b">>, 1, <<34,97,98>>),
  Lit("str", <<"DQ","a","b","BS","DQ","DQ">>, <<"a","b","DQ">>, 1, <<97,98,34>>),
  Lit("str", <<"DQ","BS","DQ","DQ">>, <<"DQ">>, 1, <<34>>),
  Lit("str", <<"DQ","BS","BS","DQ">>, <<"BS","BS">>, 1, <<92>>),
  Lit("str", <<"DQ","a","BS","BS","DQ">>, <<"a","BS","BS">>, 1, <<97,92>>),
  Lit("str", <<"DQ","BS","BS","BS","DQ","DQ">>, <<"BS","BS","DQ">>, 1, <<92,34>>),
  Lit("str", <<"DQ","SQ","DQ">>, <<"SQ">>, 1, <<39>>),
  Lit("str", <<"DQ","BS","SQ","DQ">>, <<"BS","SQ">>, 1, <<39>>),
  Lit("str", <<"DQ","a","BS","n","b","DQ">>, <<"a","BS","n","b">>, 1, <<97,10,98>>),
  Lit("str", <<"DQ","a","SP","b","DQ">>, <<"a","SP","b">>, 1, <<97,32,98>>),
  Lit("str", <<"DQ","/","/","DQ">>, <<"/","/">>, 1, <<47,47>>),
  Lit("str", <<"DQ","/","*","DQ">>, <<"/","*">>, 1, <<47,42>>),
  Lit("str", <<"DQ","?",":","DQ">>, <<"?",":">>, 1, <<63,58>>) }

\* prefixed, raw and suffixed literals (val of a string literal = size of one element)
WideAB  == Lit("str", <<"L","DQ","a","b","DQ">>, <<"a","b">>, 4, <<97, 98>>)
U8X     == Lit("str", <<"u","8","DQ","x","DQ">>, <<"x">>, 1, <<120>>)
RawNL   == Lit("str", <<"R","DQ","(","a","BS","n","b",")","DQ">>, <<"a","BS","n","b">>, 1, <<97, 92, 110, 98>>)
RawQ    == Lit("str", <<"R","DQ","x","(","a","DQ","b",")","x","DQ">>, <<"a","DQ","b">>, 1, <<97, 34, 98>>)
WideCh  == Lit("char", <<"L","SQ","a","SQ">>, <<"a">>, 97, <<>>)
PrefixedLits == {WideAB, U8X, RawNL, RawQ}

ValueOps  == LeftAssocOps                      \* 18 binary operators with a value
AllBinOps == LeftAssocOps \cup AssignOps \cup {COMMA}
SignOps   == {<<"+">>, <<"-">>, <<"!">>, <<"~">>}
\* cast target types: every arithmetic type spelling OCCA's parser accepts, plus two pointer types (structure only).
\* The check compares types by a normalised spelling (long == long int), so OCCA's own spelling is not an issue.
TypesUsed == ArithTypes \ {T_CHAR, T_CCHAR, T_CLONG}
N60 == Lit("prim", <<"6","0">>, <<"6","0">>, 60, <<>>)
Big  == Lit("prim", <<"1","0","0","0","0","0">>, <<"1","0","0","0","0","0">>, 100000, <<>>)
BigU == Lit("prim", <<"1","0","0","0","0","0","u">>, <<"1","0","0","0","0","0","u">>, 100000, <<>>)
\* narrowing changes the value (a * 60 = 300, -300); 64-bit results (beyond Eval: compared through g++ only)
WidthCasts == {Cast(ty, Bin(<<"*">>, A, N60)) : ty \in TypesUsed} \cup {Cast(ty, Un(<<"-">>, Bin(<<"*">>, A, N60))) : ty \in TypesUsed}
              \cup {Bin(<<"+">>, Cast(ty, Bin(<<"*">>, A, N60)), Bv) : ty \in TypesUsed}
              \cup {Bin(<<"*">>, Cast(ty, Big), BigU) : ty \in TypesUsed} \cup {Bin(<<"*">>, Cast(ty, Bin(<<"*">>, A, Big)), Big) : ty \in TypesUsed}
              \cup {Cast(ty, Bin(<<"*">>, Big, Big)) : ty \in TypesUsed}
              \cup {Cast(ty, Pn) : ty \in PointerTypes} \cup {Un(<<"*">>, Cast(T_INTP, Pn)), Cast(T_LL, Cast(T_UCHAR, Bin(<<"*">>, A, N60)))}

\* G1: every ordered pair of binary operators, in both nestings (precedence and associativity)
BinBin == {Bin(o1, Bin(o2, A, Bv), Cv) : o1 \in AllBinOps, o2 \in AllBinOps}
          \cup {Bin(o1, A, Bin(o2, Bv, Cv)) : o1 \in AllBinOps, o2 \in AllBinOps}
\* the same with literal operands, so that values differ between the two nestings
BinBinNum == {Bin(o1, Bin(o2, D, N2), Bv) : o1 \in ValueOps, o2 \in ValueOps}
             \cup {Bin(o1, D, Bin(o2, Bv, N2)) : o1 \in ValueOps, o2 \in ValueOps}
\* G2: chains of prefix / postfix operators (the lexical pitfalls - -x, + +x, - --x, & &x, x++ ...)
UnUn   == {Un(o1, Un(o2, A)) : o1 \in PrefixOps, o2 \in PrefixOps}
          \cup {Un(o1, Un(o2, N1)) : o1 \in SignOps, o2 \in SignOps}
          \cup {Un(o1, Un(o2, Un(o3, A))) : o1 \in {<<"-">>, <<"+">>}, o2 \in {<<"-">>, <<"+">>, <<"-","-">>}, o3 \in {<<"-">>, <<"+">>}}
UnPost == {Un(o, Post(p, A)) : o \in PrefixOps, p \in IncDec} \cup {Post(p, Un(o, A)) : o \in PrefixOps, p \in IncDec}
          \cup {Post(p, Post(q, A)) : p \in IncDec, q \in IncDec}
\* G3: prefix operator against binary operator, all three positions
UnBin  == {Un(o, Bin(b, A, Cv)) : o \in PrefixOps, b \in AllBinOps}
          \cup {Bin(b, Un(o, A), Cv) : o \in PrefixOps, b \in AllBinOps}
          \cup {Bin(b, A, Un(o, Cv)) : o \in PrefixOps, b \in AllBinOps}
          \cup {Bin(b, Post(p, A), Cv) : p \in IncDec, b \in AllBinOps}
          \cup {Bin(b, Cv, Post(p, A)) : p \in IncDec, b \in AllBinOps}
\* G4: the conditional operator in every position
Inner  == {Bin(o, Bv, Cv) : o \in AllBinOps} \cup {Tern(A, Bv, Cv), Un(<<"-">>, Bv), Un(<<"!">>, Bv)}
Terns  == {Tern(x, A, D) : x \in Inner} \cup {Tern(A, x, D) : x \in Inner} \cup {Tern(D, A, x) : x \in Inner}
          \cup {Bin(o, Tern(A, Bv, Cv), D) : o \in AllBinOps} \cup {Bin(o, D, Tern(A, Bv, Cv)) : o \in AllBinOps}
          \cup {Un(o, Tern(A, Bv, Cv)) : o \in SignOps}
\* G5: literal spellings
Lits   == {Bin(<<"+">>, A, l) : l \in PrimLits \cup CharLits} \cup {Un(<<"-">>, l) : l \in PrimLits}
          \cup PrimLits \cup CharLits \cup StrLits
          \cup {Index(s, N1) : s \in StrLits} \cup {Index(s, Lit("prim", <<"0">>, <<"0">>, 0, <<>>)) : s \in StrLits}
          \cup {SizeofE(s) : s \in StrLits \cup PrefixedLits}
          \cup PrefixedLits \cup {WideCh, Bin(<<"+">>, A, WideCh)} \cup {Index(s, N1) : s \in PrefixedLits \ {U8X}}
          \cup {Bin(<<"=","=">>, c1, c2) : c1 \in CharLits, c2 \in {Lit("char", <<"SQ","BS","SQ","SQ">>, <<"SQ">>, 39, <<>>)}}
\* G6: calls, subscripts, casts, sizeof, member access, explicit parentheses
Args   == {A, Bin(<<"+">>, A, Bv), Bin(COMMA, A, Bv), Tern(A, Bv, Cv), Bin(<<"=">>, A, Bv), Un(<<"-">>, A), Post(<<"+","+">>, A)}
Misc   == {Call(Fn, <<x, y>>) : x \in Args, y \in Args}
          \cup {Call(Fn, <<>>), Call(Fn, <<A>>), Call(Fn, <<A, Bv, Cv>>)}
          \cup {Index(Pn, x) : x \in Args} \cup {Index(Index(Pn, A), Bv), Index(Call(Fn, <<A, Bv>>), Cv), Index(Un(<<"*">>, Pn), A)}
          \cup {Bin(o, Call(Fn, <<A, Bv>>), Cv) : o \in ValueOps}
          \cup {Cast(ty, x) : ty \in TypesUsed, x \in Args \cup {Bin(<<"*">>, A, Bv), Cast(<<"i","n","t">>, A)}}
          \cup {Bin(o, Cast(ty, A), Bv) : o \in ValueOps, ty \in TypesUsed}
          \cup WidthCasts
          \cup {SizeofE(x) : x \in {A, Bin(<<"+">>, A, Bv), Un(<<"-">>, A)}}
          \cup {Bin(o, SizeofE(A), Bv) : o \in {<<"+">>, <<"*">>, <<"<">>}}
          \cup {Bin(m, Pn, Id(<<"x">>)) : m \in MemberOps} \cup {Bin(<<".">>, Bin(<<"-",">">>, Pn, Id(<<"x">>)), Id(<<"y">>))}
          \cup {Un(o, Bin(<<".">>, Pn, Id(<<"x">>))) : o \in PrefixOps} \cup {Post(p, Bin(<<"-",">">>, Pn, Id(<<"x">>))) : p \in IncDec}
          \cup {Paren(x) : x \in Args} \cup {Paren(Paren(A)), Bin(<<"*">>, Paren(A), Paren(Bin(<<"*">>, Bv, Cv)))}

QuickTrees == BinBin \cup BinBinNum \cup UnUn \cup UnPost \cup UnBin \cup Terns \cup Lits \cup Misc
\* depth 3: a binary operator over two binary sub-trees / over unary sub-trees (thorough)
CoreOps == {<<"*">>, <<"+">>, <<"-">>, <<"<","<">>, <<"<">>, <<"=","=">>, <<"&">>, <<"|">>, <<"&","&">>, <<"|","|">>, <<"=">>, <<"+","=">>, COMMA}
Deep == {Bin(o1, Bin(o2, A, Bv), Bin(o3, Cv, D)) : o1 \in CoreOps, o2 \in CoreOps, o3 \in CoreOps}
        \cup {Tern(Bin(o1, A, Bv), Bin(o2, Bv, Cv), Bin(o3, Cv, D)) : o1 \in CoreOps, o2 \in CoreOps, o3 \in CoreOps}
        \cup {Bin(o1, Un(u, Bin(o2, A, Bv)), Cv) : o1 \in CoreOps, o2 \in CoreOps, u \in PrefixOps}
ThoroughTrees == QuickTrees \cup Deep
DesignTrees == UnUn \cup UnPost \cup Terns \cup Misc \cup {Bin(o1, Bin(o2, A, Bv), Cv) : o1 \in CoreOps, o2 \in CoreOps}
               \cup {Bin(o1, A, Bin(o2, Bv, Cv)) : o1 \in CoreOps, o2 \in CoreOps}
=============================================================================
