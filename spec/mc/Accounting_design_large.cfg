\* design run (thorough): <= 3 buffers, 1 pool of <= 2 cells
SPECIFICATION Spec
CONSTANTS
  Cell = 128
  Sizes = {16, 48}
  MaxCells = 2
  MaxBufs = 3
  MaxPools = 1
  MaxHist = 0
  HostPtrImpl = "counted"
VIEW View
INVARIANTS TypeOK Conservation HighWater AllReleased
