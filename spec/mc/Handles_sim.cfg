\* simulation: random histories of 12 calls after the prefix
SPECIFICATION Spec
CONSTANTS
  SlotSeq <- StdSlots
  KindOf <- StdKindOf
  MaxDev = 2
  MaxCells = 2
  BufBytes = 64
  CellBytes = 128
  LazyObs = TRUE
  MaxObj = 24
  MaxHist = 12
  SwapImpl = "rings"
  Profiles <- SimProfiles
CONSTRAINT PrefixOK
