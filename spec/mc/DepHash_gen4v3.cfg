\* generation (thorough): every history of up to 4 edit/build steps over 2 headers with 3 values that ends in a build
SPECIFICATION Spec
CONSTANTS
  HSeq <- H2
  Root <- RootBoth
  Vals <- V3
  InitVal <- Init2
  MaxEdits = 9
  MaxBuilds = 9
  Variant = "chained"
  Fuel = 50
  Styles <- QuotedOnly
  MaxHist = 4
CONSTRAINT Emit
