SPECIFICATION DSpec
CONSTANTS
  DimKernels <- ThoroughDimKernels
  WrapArgs = TRUE
INVARIANTS BijectionOK WholeOK
CONSTRAINT DEmit
CHECK_DEADLOCK FALSE
