SPECIFICATION DSpec
CONSTANTS
  DimKernels <- ThoroughDimKernels
  WrapArgs = TRUE
INVARIANTS WholeOK ArgsInRange MeantIsLin Sensitive
CONSTRAINT DEmit
CHECK_DEADLOCK FALSE
