\* design run: <= 2 buffers of 2 sizes, 1 pool of <= 2 cells, all histories
SPECIFICATION Spec
CONSTANTS
  Cell = 128
  Sizes = {16, 48}
  MaxCells = 2
  MaxBufs = 2
  MaxPools = 1
  MaxHist = 0
  HostPtrImpl = "counted"
VIEW View
INVARIANTS TypeOK Conservation HighWater AllReleased
