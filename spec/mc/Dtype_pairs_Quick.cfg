\* Dtype: part "pairs" over PoolQuick; every value is printed with the spec's prediction; the sanity
\* theorems of the definitions and the round-trip property are checked in every state
SPECIFICATION Spec
CONSTANTS
  Pool <- PoolQuick
  Metas <- MetasAll
  Part = "pairs"
CONSTRAINT Emit
INVARIANTS CastReflexive ByteWildcard CycleExamples IdentityExamples BytesExamples RoundTripPreserves
