\* behaviour generation (quick): c ? a : b for c in {0, 1}, a, b over the core pool
SPECIFICATION Spec
CONSTANTS
  PPMode = FALSE
  Lits <- PoolCxx
  UnOps <- NoOps
  BinOps <- NoOps
  LogOps <- NoOps
  LitIdx <- CoreIdx
  CondIdx <- TernCond
  UseTern = TRUE
  RootOp = FALSE
  MaxDepth = 1
CONSTRAINT Emit
