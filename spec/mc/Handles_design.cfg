\* design run (thorough): four pairs of kinds x 4 handle variables, <= 5 backend objects, all histories
SPECIFICATION Spec
CONSTANTS
  SlotSeq <- StdSlots
  KindOf <- StdKindOf
  MaxDev = 2
  MaxCells = 2
  BufBytes = 64
  CellBytes = 128
  LazyObs = FALSE
  MaxObj = 5
  MaxHist = 0
  SwapImpl = "rings"
  Profiles <- DesignSmall
VIEW View
INVARIANTS TypeOK MaxAboveAcct RingMatchesRefs DestroyedAtMostOnce DeadIsUnreferenced ParentAlive NoOrphans QuiescentNoLeak AcctOnlyLive
PROPERTIES NoEarlyDeath DeathIsFinal
