---------------------------- MODULE MC_CApi ----------------------------
EXTENDS CApi
IntTypes == {"i8", "u8", "i16", "u16", "i32", "u32", "i64", "u64"}
Signed   == {"i8", "i16", "i32", "i64"}
\* every C scalar type with its extreme and ordinary tokens; the "ambiguous" C types (char .. ulong) are
\* constructors of the same tags and are exercised by the harness under the tag they must produce
AllScalars ==
       {Sc(t, v) : t \in IntTypes, v \in {"MIN", "ZERO", "ONE", "MAX"}}
  \cup {Sc(t, "M1") : t \in Signed}
  \cup {Sc(t, "HALF") : t \in IntTypes \ Signed}          \* 2^(w-1): the least value of the upper half
  \cup {Sc(t, v) : t \in {"f32", "f64"}, v \in {"MIN", "M1", "ZERO", "ONE", "MAX", "TINY", "FRAC"}}
  \cup {Sc("bool", v) : v \in {"ZERO", "ONE"}}
  \cup {Sc("string", v) : v \in {"EMPTY", "S", "ESC"}}
  \cup {Null}
SmallVals == {Sc("i8", "MIN"), Sc("u64", "MAX"), Sc("u32", "MAX"), Sc("u16", "HALF"), Sc("i64", "MIN"), Sc("f32", "FRAC"),
              Sc("string", "S"), Sc("bool", "ONE"), Null}
TinyVals  == {Sc("u32", "MAX"), Sc("string", "S"), Null}
SomeDflts == {Sc("i32", "M1"), Sc("string", "ESC")}
AllOps == {"Create", "ObjSet", "ObjGet", "ArrPush", "ArrGet", "ArrPop", "ArrClear", "ArrInsert", "Free", "FreeAgain"}
ScalarOps == {"Create", "ObjSet", "ObjGet", "ArrPush", "ArrGet", "Construct", "Echo", "Free"}
AllToks == {"MIN", "M1", "ZERO", "ONE", "MAX"}
NoToks == {}
NoPaths == {}
PathKeysAll == {<<"a">>, <<"a", "b">>, <<"a", "b", "c">>, <<"a", "a">>}
PathKeysSim == {<<"a", "b">>, <<"b", "a">>, <<"a", "b", "a">>}
PathOps == {"Create", "PathSet", "PathGet", "PathHas"}
SimOps == AllOps \cup {"PathSet", "PathGet", "PathHas"}
PathVals == {Sc("i64", "MIN"), Sc("string", "S")}
PathDflts == {Sc("u32", "MAX"), Sc("f64", "FRAC"), Sc("string", "ESC"), Null}
=========================================================================
