------------------------------ MODULE MC_BV ------------------------------
(* Sanity theorems of lib/BV.tla, evaluated by TLC as ASSUMEs on a sample of 64-bit vectors
   (all boundary patterns used by the C14/C13 literal pools).  An edit of BV that breaks an
   operator is caught here before it can corrupt a prediction.                           *)
EXTENDS BV, TLC
CONSTANT Full      \* TRUE: the whole sample (thorough tier); FALSE: a sub-sample (quick tier)
VARIABLE x
Init == x = 0
Next == UNCHANGED x

N == 8
SFull == { Zeros(N), OfNat(1, N), OfNat(2, N), OfNat(3, N), OfNat(255, N), OfNat(256, N), OfNat(65535, N),
       OfNat(2147483647, N), <<0, 0, 0, 128, 0, 0, 0, 0>>, <<255, 255, 255, 255, 0, 0, 0, 0>>,
       <<0, 94, 208, 178, 0, 0, 0, 0>>,            \* 3000000000
       <<0, 0, 0, 0, 1, 0, 0, 0>>, <<255, 255, 255, 255, 255, 255, 255, 127>>,
       <<0, 0, 0, 0, 0, 0, 0, 128>>, Ones(N), <<1, 0, 0, 0, 0, 0, 0, 128>>,
       <<21, 205, 91, 7, 0, 0, 0, 0>>,             \* 123456789
       <<21, 129, 233, 125, 244, 16, 34, 17>> }    \* 1234567890123456789
SQuick == { Zeros(N), OfNat(3, N), OfNat(65535, N), <<0, 0, 0, 128, 0, 0, 0, 0>>, <<0, 94, 208, 178, 0, 0, 0, 0>>,
            <<255, 255, 255, 255, 255, 255, 255, 127>>, <<0, 0, 0, 0, 0, 0, 0, 128>>, Ones(N),
            <<21, 129, 233, 125, 244, 16, 34, 17>> }
S == IF Full THEN SFull ELSE SQuick
K == IF Full THEN 0..63 ELSE {0, 1, 7, 8, 9, 31, 32, 33, 63}
P2(k) == Shl(OfNat(1, N), k)

ASSUME \A a \in S : IsBV(a, N)
ASSUME \A a \in S : Add(a, Neg(a)) = Zeros(N) /\ Neg(Neg(a)) = a /\ Not(a) = Xor(a, Ones(N))
ASSUME \A a \in S, b \in S : /\ Sub(Add(a, b), b) = a
                             /\ Add(a, b) = Add(b, a) /\ Mul(a, b) = Mul(b, a)
                             /\ Xor(a, b) = Sub(Or(a, b), And(a, b))
                             /\ And(a, Not(a)) = Zeros(N)
                             /\ (ULt(a, b) <=> CarryOut(a, Not(b), 1) = 0)
                             /\ (ULt(a, b) \/ ULt(b, a) \/ a = b) /\ ~(ULt(a, b) /\ ULt(b, a))
                             /\ (SLt(a, b) <=> TopBit(Sub(SExt(a, N + 1), SExt(b, N + 1))) = 1)
                             /\ Resize(MulWide(a, b), N, 0) = Mul(a, b)
ASSUME \A a \in S, b \in S \ {Zeros(N)} :
         LET d == UDivMod(a, b) IN Add(Mul(d.q, b), d.r) = a /\ ULt(d.r, b)
                                   /\ IsZero(Resize(Shr(MulWide(d.q, b), 64), N, 0))
ASSUME \A a \in S, k \in K : /\ Shl(a, k) = Mul(a, P2(k))
                                 /\ Shr(a, k) = UDiv(a, P2(k))
                                 /\ Sar(a, k) = Resize(Shr(SExt(a, 2 * N), k), N, 0)
\* known answers
ASSUME Mul(Ones(N), Ones(N)) = OfNat(1, N)
ASSUME Mul(<<0, 94, 208, 178, 0, 0, 0, 0>>, OfNat(3, N)) = <<0, 26, 113, 24, 2, 0, 0, 0>>   \* 9000000000
ASSUME UDiv(<<21, 129, 233, 125, 244, 16, 34, 17>>, <<21, 205, 91, 7, 0, 0, 0, 0>>) = <<1, 228, 11, 84, 2, 0, 0, 0>> \* 10000000001
ASSUME URem(<<21, 129, 233, 125, 244, 16, 34, 17>>, <<21, 205, 91, 7, 0, 0, 0, 0>>) = Zeros(N)
ASSUME BitLen(Zeros(N)) = 0 /\ BitLen(OfNat(1, N)) = 1 /\ BitLen(Ones(N)) = 64 /\ BitLen(OfNat(256, N)) = 9
ASSUME Tz(OfNat(1, N)) = 0 /\ Tz(OfNat(256, N)) = 8 /\ Tz(<<0, 0, 0, 0, 0, 0, 0, 128>>) = 63
=========================================================================
