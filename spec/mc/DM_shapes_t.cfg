\* behaviour generation (shape coverage, thorough): as DM_shapes.cfg with the offset classes
\* {-1,0,1,L-1,L,L+1,HUGE} for device-to-device copies
SPECIFICATION Spec
CONSTANTS
  NViews = 7
  NStores = 4
  MaxBytes = 8
  HostInit <- Host8
  ESizes = {1, 2, 3, 4}
  NStamps = 24
  PatMod = 200
  Dom <- DomFull
  Dom2 <- Dom2Class
  WrapAt = {0, 2}
  Progress = FALSE
  Mode = "all"
  Prefixes <- ShapePrefixes
  Depth = 1
  MaxErr <- NoErrBound
CONSTRAINT Emit
