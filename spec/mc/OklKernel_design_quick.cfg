\* design run, quick tier: the D menus with the shorter plans
SPECIFICATION Spec
CONSTANTS
  Classes <- DesignClasses
  Heads <- DHeads
  Menu <- DMenu
  Plans <- DPlansQ
  Wraps <- DWraps
  NoBarChoices <- DNoBar
  ArgVecs <- MCArgVecs
  CheckArgs = {2}
  Mode = "design"
  BarrierRule = "scheme"
  AtomicIndivisible = TRUE
  RelaxRules <- NoRelax
INVARIANTS LaunchIsSeq NoBadAccess RunsToEnd
