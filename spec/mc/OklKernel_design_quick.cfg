\* design run, quick tier: the D menus with the shorter plans
SPECIFICATION Spec
CONSTANTS
  Classes <- DClassesQ
  Heads <- DHeadsQ
  Menu <- DMenu
  Plans <- DPlansQ
  Wraps <- DWrapsQ
  NoBarChoices <- DNoBar
  ArgVecs <- MCArgVecs
  CheckArgs = {2}
  Mode = "design"
  BarrierRule = "scheme"
  AtomicIndivisible = TRUE
  RelaxRules <- NoRelax
INVARIANTS LaunchIsSeq NoBadAccess RunsToEnd
