\* behaviour generation: guarded division -- every tree of depth <= 2 over {0, 1} with / && || (operands that
\* C++ does not evaluate contain a division by zero: an implementation that evaluates them traps)
SPECIFICATION Spec
CONSTANTS
  PPMode = FALSE
  Lits <- PoolCxx
  UnOps <- NoOps
  BinOps <- DivOnly
  LogOps <- AllLog
  LitIdx <- ZeroOne
  CondIdx <- ZeroOne
  UseTern = FALSE
  RootOp = TRUE
  MaxDepth = 2
CONSTRAINT Emit
