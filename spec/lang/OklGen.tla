------------------------------- MODULE OklGen -------------------------------
(* C22 -- generator of kernel structures: a kernel is built node by node in preorder
   (one action per appended node) and finished; every finished structure inside the bounds
   is emitted once with the set of rules it breaks (computed by OklRules) and its OKL text.
   The replayer runs the seven translators on the text; the prediction is
        translator succeeds  <=>  Broken = {}                                           *)
EXTENDS OklRules, Json

CONSTANTS MaxNodes,      \* nodes per kernel
          MaxDepth,      \* nesting depth
          Kinds,         \* node kinds in use
          GoodH,         \* valid header variants in use  (subset of GoodHdrs)
          BadH,          \* invalid header variants in use (subset of BadHdrs)
          RetTypes,      \* return types in use
          MaxDecor,      \* at most this many decorations: leaves, non-default headers, non-void
          MaxBroken,     \* emit only structures that break at most this many rule groups
          DefaultHdr     \* the header that is not counted as a decoration

VARIABLES ns, ret, phase
vars == <<ns, ret, phase>>

IsDecor(n) == n.k \in Leaves \/ (n.k \in Okl /\ n.h # DefaultHdr)
Decor(s, r) == Cardinality({i \in 1..Len(s) : IsDecor(s[i])}) + (IF r = "void" THEN 0 ELSE 1)

HdrChoices(k) == IF k \in Okl THEN GoodH \cup BadH ELSE IF k \in Tiles THEN {"lt"} ELSE {"-"}

Init == /\ ns = <<>>
        /\ ret \in RetTypes
        /\ phase = "build"

\* incremental form of WellFormed (TypeOK checks that the two agree)
CanAppend(k, d) ==
  /\ IF ns = <<>> THEN d = 1
     ELSE LET l == ns[Len(ns)] IN d <= l.d + 1 /\ (d = l.d + 1 => l.k \in Containers)
  /\ k = "el" => LET p == PrevSiblingAtEnd(ns, d) IN p # 0 /\ ns[p].k = "if"
  /\ k \in Skips => \E j \in 1..Len(ns) : ns[j].k \in Loops /\ ns[j].d < d
                                         /\ \A m \in (j + 1)..Len(ns) : ns[m].d > ns[j].d

AddNode(k, d, h) ==
  /\ phase = "build"
  /\ Len(ns) < MaxNodes
  /\ CanAppend(k, d)
  /\ LET s == Append(ns, [k |-> k, d |-> d, h |-> h]) IN
       /\ Decor(s, ret) <= MaxDecor
       \* prune: rules that can never be repaired by appending nodes
       /\ Cardinality(Groups(Broken(s, ret) \cap Monotone)) <= MaxBroken
       /\ ns' = s
  /\ UNCHANGED <<ret, phase>>

Finish ==
  /\ phase = "build"
  /\ Generated(ns)
  /\ phase' = "done"
  /\ UNCHANGED <<ns, ret>>

Next == \/ \E k \in Kinds, d \in 1..MaxDepth : \E h \in HdrChoices(k) : AddNode(k, d, h)
        \/ Finish

Spec == Init /\ [][Next]_vars

-----------------------------------------------------------------------------
TypeOK == /\ phase \in {"build", "done"}
          /\ ret \in RetTypes
          /\ WellFormed(ns)
          /\ Len(ns) <= MaxNodes

\* sanity theorems about the rule definitions (checked on every reachable structure)
RuleSanity ==
  LET e == Expand(ns) IN
  \* a valid kernel has both kinds of loops, every @inner below an @outer, nothing below an
  \* @inner is an @outer (on the expansion of @tile loops)
  /\ Valid(ns, ret) => /\ \E i \in Idx(e) : e[i].k = "fo"
                       /\ \E i \in Idx(e) : e[i].k = "fi"
                       /\ \A i \in Idx(e) : e[i].k = "fi" => HasAnc(e, i, "fo")
                       /\ \A i \in Idx(e) : e[i].k = "fo" => ~HasAnc(e, i, "fi")
                       /\ \A i \in Idx(e) : e[i].k \in Decls => RightPlace(e, i)
  \* every inner-most OKL loop of a valid kernel is an @inner loop
  /\ Valid(ns, ret) => \A i \in Idx(e) : OklLeaf(e, i) => e[i].k = "fi"
  \* the expansion is a well-formed structure without @tile nodes, one node longer per tile
  /\ WellFormed(e) /\ \A i \in Idx(e) : e[i].k \notin Tiles
  /\ Len(e) = Len(ns) + Cardinality({i \in Idx(ns) : ns[i].k \in Tiles})
  \* brackets of the rendering are balanced
  /\ phase = "done" =>
     LET t == Tokens(ns, ret)
         open  == Cardinality({i \in 1..Len(t) : t[i] = "{"})
         close == Cardinality({i \in 1..Len(t) : t[i] = "}"})
     IN open = close

Record == [shape  |-> Shape(ns), ret |-> ret,
           broken |-> SetToSeq(Broken(ns, ret)),
           nodes  |-> Len(ns),
           src    |-> Join(Tokens(ns, ret))]

Emit == \/ phase = "build"
        \/ /\ Cardinality(Groups(Broken(ns, ret))) <= MaxBroken => PrintT(<<"B", ToJson(Record)>>)
           /\ FALSE

\* design run: the same graph without printing
NoEmit == phase = "build"
=============================================================================
