--------------------------- MODULE OperatorTable ---------------------------
(* The operator table of the library under test.  It is NOT written by hand: at check time
   the check dumps occa::lang::getOperators() of the freshly built library
   (harness/lexer_replay --optable) and writes the module OperatorTableGen, which defines
       GeneratedOpTable == { <<"!">>, <<"+","+">>, ..., <<"s","i","z","e","o","f">>, ... }
   into a scratch directory that is put on TLC's library path (-DTLA-Library).  So the lexer
   specification can never get out of step with operator.cpp: adding or removing an operator
   changes OpTable, and with it the token classes that are enumerated and the maximal-munch
   predictions.  (A literal set is used rather than reading the dump with IOUtils because TLC
   re-reads the file on every evaluation.)                                                  *)
EXTENDS Naturals, Sequences, OperatorTableGen

OpTable == GeneratedOpTable

(* What the C/C++ grammar requires to be in the table (hand written; ASSUMEd to be a subset of
   OpTable by Lexer.tla, so that dropping an operator from operator.cpp is noticed).          *)
CPunctuators ==
  { <<"{">>, <<"}">>, <<"[">>, <<"]">>, <<"(">>, <<")">>, <<";">>, <<":">>, <<".",".",".">>,
    <<"?">>, <<":",":">>, <<".">>, <<".","*">>, <<"-",">">>, <<"-",">","*">>, <<"~">>, <<"!">>,
    <<"+">>, <<"-">>, <<"*">>, <<"/">>, <<"%">>, <<"^">>, <<"&">>, <<"|">>, <<"=">>,
    <<"+","=">>, <<"-","=">>, <<"*","=">>, <<"/","=">>, <<"%","=">>, <<"^","=">>, <<"&","=">>,
    <<"|","=">>, <<"=","=">>, <<"!","=">>, <<"<">>, <<">">>, <<"<","=">>, <<">","=">>,
    <<"&","&">>, <<"|","|">>, <<"<","<">>, <<">",">">>, <<"<","<","=">>, <<">",">","=">>,
    <<"+","+">>, <<"-","-">>, <<",">>, <<"#">>, <<"#","#">> }
=============================================================================
