------------------------------- MODULE Lexer -------------------------------
(* C12 -- reference semantics of the C/OKL lexical grammar (C++11 level) as a state machine,
   used as generator and oracle for occa::lang::tokenizer_t.

   A behaviour is:  compose an input (piece by piece)  ->  lex it token by token (phase 1)
   ->  print the tokens as the *intended* printer does, separated by blanks  ->  lex the
   printed text again (phase 2).  One action per token class; the guards are written
   independently of each other and the invariant ExactlyOne states that the machine is total
   and deterministic.  RoundTrip states the property on the model: re-reading the printed
   tokens gives the same kinds and values.  Operators are split by longest match over the
   operator table of the library under test (OperatorTable.tla, generated at check time).

   Characters are strings: most stand for themselves, the ones that are awkward inside a TLA+
   string literal are named:  DQ = ", SQ = ', BS = \, NL = newline, SP = blank, TAB = tab and
   OTH = "any byte that belongs to no class" (the harness instantiates OTH with seeded random
   bytes, including bytes >= 0x80).

   The machine is *strict*: input that is not a sequence of well-formed C++11 tokens (stray
   backslash, unterminated literal or block comment, malformed number, line splice, literal
   suffix without '_') ends in mode "error" with a reason.  For such input the property only
   demands that the tokenizer terminates without a memory error; no token prediction is made. *)
EXTENDS Naturals, Sequences, FiniteSets, TLC, Json, OperatorTable

CONSTANTS Pieces,     \* set of records [sp |-> Seq(Char), ks |-> Seq(kind)]: what an input is composed of
          PieceSep,   \* separator between two pieces (<<"SP">> for token sequences, <<>> for raw strings)
          MaxPieces,  \* bound on the number of pieces
          MinPieces,  \* inputs with fewer pieces are not lexed (generation runs)
          CheckKinds  \* TRUE: the pieces are tokens and phase 1 must return exactly their kinds

VARIABLES input,   \* the text being lexed (phase 1: composed; phase 2: printed tokens)
          expect,  \* kinds of the pieces the input was composed of
          npieces,
          mode,    \* "compose" | "run" | "done" | "error"
          why,     \* reason of an error
          phase,   \* 1 | 2
          pos,     \* next unread position
          out,     \* tokens of the current phase
          first,   \* tokens of phase 1
          text1    \* the input of phase 1
vars == <<input, expect, npieces, mode, why, phase, pos, out, first, text1>>

---------------------------------------------------------------------------
(* character classes *)
Lower == {"a","b","c","d","e","f","g","h","i","j","k","l","m","n","o","p","q","r","s","t","u","v","w","x","y","z"}
Upper == {"A","B","C","D","E","F","G","H","I","J","K","L","M","N","O","P","Q","R","S","T","U","V","W","X","Y","Z"}
Digit == {"0","1","2","3","4","5","6","7","8","9"}
OctDigit == {"0","1","2","3","4","5","6","7"}
HexDigit == Digit \cup {"a","b","c","d","e","f","A","B","C","D","E","F"}
BinDigit == {"0","1"}
IdStart == Lower \cup Upper \cup {"_"}
IdChar  == IdStart \cup Digit
Blank   == {"SP", "TAB"}
NotDChar == {"SP", "TAB", "(", ")", "BS", "NL", "OTH"}   \* not allowed in a raw-string delimiter

At(s, i) == IF i >= 1 /\ i <= Len(s) THEN s[i] ELSE "EOF"
Range(s) == {s[i] : i \in 1..Len(s)}
StartsWith(s, i, p) == i + Len(p) - 1 <= Len(s) /\ SubSeq(s, i, i + Len(p) - 1) = p

RECURSIVE RunEnd(_, _, _)      \* first index >= i whose character is not in S
RunEnd(s, i, S) == IF i <= Len(s) /\ s[i] \in S THEN RunEnd(s, i + 1, S) ELSE i
RECURSIVE RunEndNot(_, _, _)   \* first index >= i whose character is in S (or Len+1)
RunEndNot(s, i, S) == IF i <= Len(s) /\ s[i] \notin S THEN RunEndNot(s, i + 1, S) ELSE i
RECURSIVE FindSeq(_, _, _)     \* first index >= i where p occurs in s, 0 if none
FindSeq(s, i, p) == IF i + Len(p) - 1 > Len(s) THEN 0
                    ELSE IF SubSeq(s, i, i + Len(p) - 1) = p THEN i ELSE FindSeq(s, i + 1, p)

---------------------------------------------------------------------------
(* operators: longest match over the table *)
ASSUME CPunctuators \subseteq OpTable
MaxOpLen == CHOOSE n \in {Len(o) : o \in OpTable} : \A o \in OpTable : Len(o) <= n
RECURSIVE LongestOpFrom(_, _, _)   \* the largest k <= n such that the k characters at i are an operator; 0 if none
LongestOpFrom(s, i, n) == IF n = 0 THEN 0
                          ELSE IF i + n - 1 <= Len(s) /\ SubSeq(s, i, i + n - 1) \in OpTable THEN n
                          ELSE LongestOpFrom(s, i, n - 1)
LongestOp(s, i) == LongestOpFrom(s, i, MaxOpLen)
LineCmtStart == <<"/", "/">>
BlockCmtStart == <<"/", "*">>
BlockCmtEnd == <<"*", "/">>

---------------------------------------------------------------------------
(* numbers: a pp-number is taken by maximal munch and must then be a well-formed literal *)
RECURSIVE PPEnd(_, _)
PPEnd(s, i) ==
  IF i > Len(s) THEN i
  ELSE IF s[i] \in {"e", "E", "p", "P"} /\ At(s, i + 1) \in {"+", "-"} THEN PPEnd(s, i + 2)
  ELSE IF s[i] \in IdChar \cup {"."} THEN PPEnd(s, i + 1)
  ELSE i
IsNumStart(s, i) == At(s, i) \in Digit \/ (At(s, i) = "." /\ At(s, i + 1) \in Digit)

IntSuffixes ==
  { <<>>, <<"u">>, <<"U">>, <<"l">>, <<"L">>, <<"l","l">>, <<"L","L">>,
    <<"u","l">>, <<"u","L">>, <<"U","l">>, <<"U","L">>, <<"l","u">>, <<"l","U">>, <<"L","u">>, <<"L","U">>,
    <<"u","l","l">>, <<"u","L","L">>, <<"U","l","l">>, <<"U","L","L">>,
    <<"l","l","u">>, <<"l","l","U">>, <<"L","L","u">>, <<"L","L","U">> }
FloatSuffixes == { <<>>, <<"f">>, <<"F">>, <<"l">>, <<"L">> }
AllIn(w, lo, hi, S) == \A k \in lo..hi : w[k] \in S

\* "i" integer literal, "f" float, "d" double / long double, "x" not a literal
NumClass(w) ==
  LET n == Len(w) IN
  IF n >= 2 /\ w[1] = "0" /\ w[2] \in {"x", "X"} THEN
    LET j == RunEnd(w, 3, HexDigit) IN IF j > 3 /\ SubSeq(w, j, n) \in IntSuffixes THEN "i" ELSE "x"
  ELSE IF n >= 2 /\ w[1] = "0" /\ w[2] \in {"b", "B"} THEN
    LET j == RunEnd(w, 3, BinDigit) IN IF j > 3 /\ SubSeq(w, j, n) \in IntSuffixes THEN "i" ELSE "x"
  ELSE
    LET j1 == RunEnd(w, 1, Digit) IN       \* end of the integer part
    IF j1 > 1 /\ SubSeq(w, j1, n) \in IntSuffixes THEN
      (IF w[1] # "0" \/ AllIn(w, 1, j1 - 1, OctDigit) THEN "i" ELSE "x")
    ELSE
      LET hasDot == At(w, j1) = "."
          j2 == IF hasDot THEN RunEnd(w, j1 + 1, Digit) ELSE j1
          mant == (j1 - 1) + (IF hasDot THEN j2 - (j1 + 1) ELSE 0)
          hasExp == At(w, j2) \in {"e", "E"}
          j3 == IF hasExp THEN (IF At(w, j2 + 1) \in {"+", "-"} THEN j2 + 2 ELSE j2 + 1) ELSE j2
          j4 == IF hasExp THEN RunEnd(w, j3, Digit) ELSE j2
          suf == SubSeq(w, j4, n)
      IN IF mant > 0 /\ (hasDot \/ hasExp) /\ (hasExp => j4 > j3) /\ suf \in FloatSuffixes
         THEN (IF suf \in {<<"f">>, <<"F">>} THEN "f" ELSE "d") ELSE "x"

---------------------------------------------------------------------------
(* character and string literals *)
StrPrefixes  == { <<"u","8">>, <<"u">>, <<"U">>, <<"L">>, <<"R">>,
                  <<"u","8","R">>, <<"u","R">>, <<"U","R">>, <<"L","R">> }
CharPrefixes == { <<"u">>, <<"U">>, <<"L">> }
IsRaw(enc) == "R" \in Range(enc)

RECURSIVE StrEnd(_, _, _)   \* index of the closing quote q, 0 if the literal is not closed on its line
StrEnd(s, i, q) ==
  IF i > Len(s) THEN 0
  ELSE IF s[i] = q THEN i
  ELSE IF s[i] = "NL" THEN 0
  ELSE IF s[i] = "BS" THEN (IF At(s, i + 1) \in {"EOF", "NL"} THEN 0 ELSE StrEnd(s, i + 2, q))
  ELSE StrEnd(s, i + 1, q)

\* the token value keeps escape sequences as written, except that the escaped delimiter is the delimiter
RECURSIVE Unq(_, _)
Unq(c, q) ==
  IF c = <<>> THEN <<>>
  ELSE IF c[1] = "BS" /\ Len(c) >= 2
       THEN (IF c[2] = q THEN <<q>> ELSE <<"BS", c[2]>>) \o Unq(SubSeq(c, 3, Len(c)), q)
       ELSE <<c[1]>> \o Unq(Tail(c), q)
\* intended printer: EVERY delimiter character inside the value is escaped (also the first one)
RECURSIVE Esc(_, _)
Esc(v, q) ==
  IF v = <<>> THEN <<>>
  ELSE IF v[1] = "BS" /\ Len(v) >= 2 THEN <<"BS", v[2]>> \o Esc(SubSeq(v, 3, Len(v)), q)
  ELSE IF v[1] = q THEN <<"BS", q>> \o Esc(Tail(v), q)
  ELSE <<v[1]>> \o Esc(Tail(v), q)

\* user-defined suffix: an identifier starting with '_' directly after the closing quote.
\* 0 = a letter follows directly (a C++11 literal suffix without '_'): outside the model
UdfEnd(s, i) == IF At(s, i) = "_" THEN RunEnd(s, i, IdChar) ELSE IF At(s, i) \in IdStart THEN 0 ELSE i

\* a delimiter for printing a raw string: the shortest x..x such that )x..x" does not occur in the value
RECURSIVE PickDelimFrom(_, _)
PickDelimFrom(v, d) == IF FindSeq(v, 1, <<")">> \o d \o <<"DQ">>) = 0 THEN d ELSE PickDelimFrom(v, Append(d, "x"))

---------------------------------------------------------------------------
(* comments *)
RECURSIVE LineCmtEnd(_, _)   \* index of the terminating NL (or Len+1); 0 if a line splice occurs
LineCmtEnd(s, i) ==
  IF i > Len(s) \/ s[i] = "NL" THEN i
  ELSE IF s[i] = "BS" /\ At(s, i + 1) = "NL" THEN 0
  ELSE LineCmtEnd(s, i + 1)

---------------------------------------------------------------------------
(* tokens and the intended printer *)
Tok(k, v) == [k |-> k, v |-> v]
Lit(k, enc, v, udf) == [k |-> k, v |-> v, enc |-> enc, udf |-> udf]
IsLineCmt(t) == t.k = "cmt" /\ Len(t.v) >= 2 /\ t.v[2] = "/"

Spell(t) ==
  CASE t.k = "nl" -> <<"NL">>
    [] t.k = "str" /\ IsRaw(t.enc) ->
         LET d == PickDelimFrom(t.v, <<>>)
         IN t.enc \o <<"DQ">> \o d \o <<"(">> \o t.v \o <<")">> \o d \o <<"DQ">> \o t.udf
    [] t.k = "str" /\ ~IsRaw(t.enc) -> t.enc \o <<"DQ">> \o Esc(t.v, "DQ") \o <<"DQ">> \o t.udf
    [] t.k = "chr" -> t.enc \o <<"SQ">> \o Esc(t.v, "SQ") \o <<"SQ">> \o t.udf
    [] OTHER -> t.v
\* tokens are separated by one blank; a line comment is ended by the newline token that follows it
Sep(a, b) == IF IsLineCmt(a) THEN <<>> ELSE <<"SP">>
RECURSIVE JoinSp(_)
JoinSp(ts) == IF ts = <<>> THEN <<>>
              ELSE IF Len(ts) = 1 THEN Spell(ts[1])
              ELSE Spell(ts[1]) \o Sep(ts[1], ts[2]) \o JoinSp(Tail(ts))

---------------------------------------------------------------------------
(* guards: which token class starts at position i.  Written independently; ExactlyOne below
   says that they partition every position of every input.                                 *)
GEof(s, i)   == i > Len(s)
GBlank(s, i) == At(s, i) \in Blank
GNl(s, i)    == At(s, i) = "NL"
GWord(s, i)  == At(s, i) \in IdStart
GNum(s, i)   == IsNumStart(s, i)
GStr(s, i)   == At(s, i) = "DQ"
GChr(s, i)   == At(s, i) = "SQ"
GLcmt(s, i)  == StartsWith(s, i, LineCmtStart)
GBcmt(s, i)  == StartsWith(s, i, BlockCmtStart)
GOp(s, i)    == /\ At(s, i) \notin IdStart
                /\ ~IsNumStart(s, i)
                /\ ~StartsWith(s, i, LineCmtStart) /\ ~StartsWith(s, i, BlockCmtStart)
                /\ LongestOp(s, i) > 0
GStray(s, i) == At(s, i) = "BS"
GUnk(s, i)   == At(s, i) = "OTH"
B2N(b) == IF b THEN 1 ELSE 0
NumEnabled(s, i) == B2N(GEof(s, i)) + B2N(GBlank(s, i)) + B2N(GNl(s, i)) + B2N(GWord(s, i)) + B2N(GNum(s, i))
                    + B2N(GStr(s, i)) + B2N(GChr(s, i)) + B2N(GLcmt(s, i)) + B2N(GBcmt(s, i)) + B2N(GOp(s, i))
                    + B2N(GStray(s, i)) + B2N(GUnk(s, i))

---------------------------------------------------------------------------
Init == /\ input = <<>> /\ expect = <<>> /\ npieces = 0
        /\ mode = "compose" /\ why = "" /\ phase = 1 /\ pos = 1
        /\ out = <<>> /\ first = <<>> /\ text1 = <<>>

Extend(p) ==
  /\ mode = "compose" /\ npieces < MaxPieces
  /\ input' = (IF npieces = 0 THEN <<>> ELSE input \o PieceSep) \o p.sp
  /\ expect' = expect \o p.ks
  /\ npieces' = npieces + 1
  /\ UNCHANGED <<mode, why, phase, pos, out, first, text1>>

Start ==
  /\ mode = "compose" /\ npieces >= MinPieces
  /\ mode' = "run" /\ text1' = input
  /\ UNCHANGED <<input, expect, npieces, why, phase, pos, out, first>>

Running == mode = "run"
Keep == UNCHANGED <<input, expect, npieces, phase, first, text1>>
Emit1(tok, j) == /\ Assert(j > pos, "a token must consume input")
                 /\ out' = Append(out, tok) /\ pos' = j /\ Keep /\ UNCHANGED <<mode, why>>
Fail(r) == mode' = "error" /\ why' = r /\ Keep /\ UNCHANGED <<pos, out>>

SkipBlank == Running /\ GBlank(input, pos) /\ pos' = pos + 1 /\ Keep /\ UNCHANGED <<out, mode, why>>
LexNewline == Running /\ GNl(input, pos) /\ Emit1(Tok("nl", <<>>), pos + 1)

\* q = index of the opening quote, enc = the encoding prefix already read
StringFrom(q, enc) ==
  IF IsRaw(enc) THEN
    LET k == RunEndNot(input, q + 1, NotDChar \cup {"EOF"}) IN
    IF At(input, k) # "(" \/ k - (q + 1) > 16 THEN Fail("bad-raw-delimiter")
    ELSE LET term == <<")">> \o SubSeq(input, q + 1, k - 1) \o <<"DQ">>
             m == FindSeq(input, k + 1, term)
         IN IF m = 0 THEN Fail("unterminated-raw-string")
            ELSE LET e == m + Len(term) - 1
                     u == UdfEnd(input, e + 1)
                 IN IF u = 0 THEN Fail("literal-suffix")
                    ELSE Emit1(Lit("str", enc, SubSeq(input, k + 1, m - 1), SubSeq(input, e + 1, u - 1)), u)
  ELSE
    LET e == StrEnd(input, q + 1, "DQ") IN
    IF e = 0 THEN Fail("unterminated-string")
    ELSE LET u == UdfEnd(input, e + 1) IN
         IF u = 0 THEN Fail("literal-suffix")
         ELSE Emit1(Lit("str", enc, Unq(SubSeq(input, q + 1, e - 1), "DQ"), SubSeq(input, e + 1, u - 1)), u)

CharFrom(q, enc) ==
  LET e == StrEnd(input, q + 1, "SQ") IN
  IF e = 0 THEN Fail("unterminated-char")
  ELSE IF e = q + 1 THEN Fail("empty-char")
  ELSE LET u == UdfEnd(input, e + 1) IN
       IF u = 0 THEN Fail("literal-suffix")
       ELSE Emit1(Lit("chr", enc, Unq(SubSeq(input, q + 1, e - 1), "SQ"), SubSeq(input, e + 1, u - 1)), u)

WordEnd == RunEnd(input, pos, IdChar)
Word == SubSeq(input, pos, WordEnd - 1)
BoolWords == { <<"t","r","u","e">>, <<"f","a","l","s","e">> }
IsStrPrefix  == At(input, WordEnd) = "DQ" /\ Word \in StrPrefixes
IsCharPrefix == At(input, WordEnd) = "SQ" /\ Word \in CharPrefixes

LexPrefixedString == Running /\ GWord(input, pos) /\ IsStrPrefix /\ StringFrom(WordEnd, Word)
LexPrefixedChar   == Running /\ GWord(input, pos) /\ IsCharPrefix /\ CharFrom(WordEnd, Word)
LexWordOp == /\ Running /\ GWord(input, pos) /\ ~IsStrPrefix /\ ~IsCharPrefix /\ Word \in OpTable
             /\ LET n == LongestOp(input, pos) IN Emit1(Tok("op", SubSeq(input, pos, pos + n - 1)), pos + n)
LexBool   == /\ Running /\ GWord(input, pos) /\ ~IsStrPrefix /\ ~IsCharPrefix /\ Word \notin OpTable /\ Word \in BoolWords
             /\ Emit1([k |-> "prim", v |-> Word, c |-> "b"], WordEnd)
LexIdent  == /\ Running /\ GWord(input, pos) /\ ~IsStrPrefix /\ ~IsCharPrefix /\ Word \notin OpTable /\ Word \notin BoolWords
             /\ Emit1(Tok("id", Word), WordEnd)

LexNumber ==
  /\ Running /\ GNum(input, pos)
  /\ LET j == PPEnd(input, pos)
         w == SubSeq(input, pos, j - 1)
         c == NumClass(w)
     IN IF At(input, j) = "SQ" /\ At(input, j + 1) \in IdChar THEN Fail("digit-separator")
        ELSE IF c = "x" THEN Fail("bad-number")
        ELSE Emit1([k |-> "prim", v |-> w, c |-> c], j)

LexString == Running /\ GStr(input, pos) /\ StringFrom(pos, <<>>)
LexChar   == Running /\ GChr(input, pos) /\ CharFrom(pos, <<>>)

LexLineComment ==
  /\ Running /\ GLcmt(input, pos)
  /\ LET e == LineCmtEnd(input, pos) IN
     IF e = 0 THEN Fail("line-splice") ELSE Emit1(Tok("cmt", SubSeq(input, pos, e - 1)), e)

LexBlockComment ==
  /\ Running /\ GBcmt(input, pos)
  /\ LET m == FindSeq(input, pos + 2, BlockCmtEnd) IN
     IF m = 0 THEN Fail("unterminated-comment") ELSE Emit1(Tok("cmt", SubSeq(input, pos, m + 1)), m + 2)

LexOp == /\ Running /\ GOp(input, pos)
         /\ LET n == LongestOp(input, pos) IN
            /\ Assert(\A o \in OpTable : StartsWith(input, pos, o) => Len(o) <= n, "maximal munch")
            /\ Emit1(Tok("op", SubSeq(input, pos, pos + n - 1)), pos + n)

LexUnknown == Running /\ GUnk(input, pos) /\ Emit1(Tok("unk", <<input[pos]>>), pos + 1)
StrayBackslash == Running /\ GStray(input, pos) /\ Fail("stray-backslash")

\* end of the text: after phase 1 print the tokens and lex the printed text; after phase 2 stop
Reprint == /\ Running /\ GEof(input, pos) /\ phase = 1
           /\ phase' = 2 /\ first' = out /\ input' = JoinSp(out) /\ pos' = 1 /\ out' = <<>>
           /\ UNCHANGED <<expect, npieces, mode, why, text1>>
Finish  == /\ Running /\ GEof(input, pos) /\ phase = 2
           /\ mode' = "done" /\ Keep /\ UNCHANGED <<pos, out, why>>

Lex == \/ SkipBlank \/ LexNewline \/ LexPrefixedString \/ LexPrefixedChar \/ LexWordOp \/ LexBool
       \/ LexIdent \/ LexNumber \/ LexString \/ LexChar \/ LexLineComment \/ LexBlockComment
       \/ LexOp \/ LexUnknown \/ StrayBackslash \/ Reprint \/ Finish
Next == (mode = "compose" /\ \E p \in Pieces : Extend(p)) \/ Start \/ Lex
Spec == Init /\ [][Next]_vars

---------------------------------------------------------------------------
(* properties *)
TypeOK == /\ mode \in {"compose", "run", "done", "error"} /\ phase \in {1, 2}
          /\ pos \in 1..(Len(input) + 1) /\ npieces \in 0..MaxPieces

\* totality and determinism: exactly one token class applies at every position of every input
ExactlyOne == Running => NumEnabled(input, pos) = 1

\* the property on the model: re-reading the printed tokens gives the same kinds and values
RoundTrip == mode = "done" => out = first
\* printing well-formed tokens never produces text the lexer rejects
PrintedIsLexable == phase = 2 => mode # "error"
\* a sequence of tokens separated by blanks is read back token for token
Kinds(ts) == [i \in 1..Len(ts) |-> ts[i].k]
SeparationSuffices == (CheckKinds /\ mode # "compose") => (mode # "error" /\ (phase = 2 => Kinds(first) = expect))
\* operator tokens are table entries (that each is the LONGEST entry at its position is asserted in LexOp
\* against the set-based definition, independently of the recursive LongestOpFrom)
MunchOK == \A i \in 1..Len(out) : out[i].k = "op" => out[i].v \in OpTable

\* every lexing step consumes input or ends the run (also asserted in Emit1, which is what the
\* configurations rely on: as a PROPERTY TLC would check it with the liveness machinery)
Progress == [][(mode = "run" /\ mode' = "run" /\ phase' = phase) => pos' > pos]_vars

\* generation: one line per finished behaviour
Result == [t |-> text1, ok |-> mode = "done", why |-> why, toks |-> first, p |-> IF phase = 2 THEN input ELSE <<>>]
Emit == mode \in {"compose", "run"} \/ PrintT(<<"B", ToJson(Result)>>)
=============================================================================
