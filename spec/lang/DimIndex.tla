------------------------------ MODULE DimIndex ------------------------------
(* C19 -- @dim(D1,...,Dn) @dimOrder(o1,...,on):  x(a1,...,an)  ->  x[ linear index ].

   Documented index (docs/guide/okl/attributes.md: `@dim(X,Y): xy(1,2) -> xy[1 + (2 * X)]`,
   `@dim(2,3) @dimOrder(1,0): yx(1,2) -> yx[2 + (1 * 3)]`): mixed radix, o1 names the fastest index
       Lin = a[o1] + D[o1] * (a[o2] + D[o2] * ( ... a[on]))
   Two claims are modelled:
   (1) for in-range indices Lin is a bijection onto 0..D1*...*Dn-1  (Bijection);
   (2) "every index and dimension argument is evaluated as a complete expression": the rewrite
       builds an expression TREE out of the argument trees; the translator then PRINTS it, and a C
       compiler PARSES the text.  Arguments stay whole iff parsing the printed text gives the
       tree back (ArgsWhole).  The printer emits parentheses only where the tree has a
       parenthesis node, so whoever builds the tree has to wrap operands (Build below;
       TRANSCRIBED FROM src/occa/internal/lang/builtins/attributes/dim.cpp applyCodeTransformations). *)
EXTENDS Integers, Sequences, FiniteSets, TLC, Json

CONSTANTS DimKernels,   \* kernel shapes explored (MC_DimIndex)
          WrapArgs      \* TRUE: Build wraps every index argument (intended); FALSE: as first found in dim.cpp

VARIABLES dk,           \* the kernel shape [n, D, o, cls, dcls]
          dpc,          \* "enum" | "done"
          todo,         \* in-range index tuples not yet accessed
          acc           \* history: sequence of [a |-> tuple, cell |-> linear index]

dvars == <<dk, dpc, todo, acc>>

-----------------------------------------------------------------------------
(* (1) the index *)
Perms(n) == {f \in [1..n -> 1..n] : \A i, j \in 1..n : i # j => f[i] # f[j]}
RECURSIVE LinFrom(_, _, _, _), Prod(_, _)
\* a[o[j]] + D[o[j]] * (rest)
LinFrom(D, o, a, j) == IF j = Len(o) THEN a[o[j]] ELSE a[o[j]] + D[o[j]] * LinFrom(D, o, a, j + 1)
Lin(D, o, a) == LinFrom(D, o, a, 1)
Prod(D, j) == IF j > Len(D) THEN 1 ELSE D[j] * Prod(D, j + 1)
Tuples(D) == {a \in [1..Len(D) -> 0..3] : \A j \in 1..Len(D) : a[j] < D[j]}

Bijection(D, o) ==
  /\ {Lin(D, o, a) : a \in Tuples(D)} = 0..(Prod(D, 1) - 1)
  /\ \A a, b \in Tuples(D) : a # b => Lin(D, o, a) # Lin(D, o, b)

-----------------------------------------------------------------------------
(* (2) expression trees, printing, C parsing.
   Classes of argument expressions (top operator); each is an identity on the loop variable v for the
   run-time constants z = 0, u = 1, m = 7 the harness passes, so the VALUE of every argument is v and
   only its SHAPE differs.  Prec: larger binds tighter (C operator precedence).                *)
Atom(nm)      == [t |-> "atom", nm |-> nm]
Bin(op, l, r) == [t |-> "bin", op |-> op, l |-> l, r |-> r]
Tern(c, x, y) == [t |-> "tern", c |-> c, x |-> x, y |-> y]
Neg(e)        == [t |-> "neg", e |-> e]
Par(e)        == [t |-> "par", e |-> e]

BinOps == {"*", "/", "%", "+", "-", "<<", ">>", "<", "==", "&", "^", "|", "&&", "||"}
Prec(op) == CASE op \in {"*", "/", "%"} -> 10 [] op \in {"+", "-"} -> 9 [] op \in {"<<", ">>"} -> 8
              [] op = "<" -> 7 [] op = "==" -> 6 [] op = "&" -> 5 [] op = "^" -> 4 [] op = "|" -> 3
              [] op = "&&" -> 2 [] op = "||" -> 1

(* Argument classes: at least one representative per C precedence level, for index arguments (IdxTree) and
   for dimension arguments (DimTree).  The operands are chosen so that a WRONG grouping changes the value
   -- invariant Sensitive checks exactly that on the kernels that are executed.  Run-time constants:
   z = 0, u = 1, w = 2, t = 3, m = 7 (passed as kernel arguments, so nothing is folded).
     level            index argument over v                       dimension argument over d
     multiplicative   mul  v * u                                  mul  d * u
                      div  (v * w + u) / w        (= v)           div  (d * w + u) / w
                      mod  (v + t) % w            (NOT v)         dmod d % m
     additive         add  (v - u) + u                            add  (d - u) + u
                      sub  (v + u) - u                            sub  (d + u) - u
     shift            shr  (v * w + u) >> u       (= v)           shr  (d * w + u) >> u
     relational       lt   z < v                  (v in {0,1})
     equality         eq   v == u                 (v in {0,1})
     bitwise and      band v & v                                  band d & m
     bitwise xor      bxor (v ^ w) ^ w                            bxor d ^ z
     bitwise or       bor  v & w | v & u          (= v below 4)   bor  d | z
     logical and/or   land v && u,  lor  v || z   (v in {0,1})
     conditional      tern u ? v : z   (condition TRUE, so a captured tail is dropped)   tern u ? d : z
     unary / primary  neg -n<v>, call idf(v), cast (int) v, paren (v + z)               call, cast, paren
   The comma operator cannot head an argument (it would separate arguments) unless parenthesised,
   which is the class paren.                                                                      *)
IdxClasses == {"var", "add", "sub", "mul", "div", "mod", "shr", "lt", "eq", "band", "bor", "bxor",
               "tern", "lor", "land", "neg", "call", "cast", "paren"}
DimClasses == {"var", "add", "sub", "mul", "div", "dmod", "shr", "band", "bor", "bxor", "tern", "call", "cast", "paren"}
ArgClasses == IdxClasses
A(nm) == Atom(nm)
Odd(v) == Par(Bin("+", Bin("*", A(v), A("w")), A("u")))        \* (v * w + u)
IdxTree(c, v) ==
  CASE c = "var"   -> A(v)
    [] c = "add"   -> Bin("+", Par(Bin("-", A(v), A("u"))), A("u"))
    [] c = "sub"   -> Bin("-", Par(Bin("+", A(v), A("u"))), A("u"))
    [] c = "mul"   -> Bin("*", A(v), A("u"))
    [] c = "div"   -> Bin("/", Odd(v), A("w"))
    [] c = "mod"   -> Bin("%", Par(Bin("+", A(v), A("t"))), A("w"))
    [] c = "shr"   -> Bin(">>", Odd(v), A("u"))
    [] c = "lt"    -> Bin("<", A("z"), A(v))
    [] c = "eq"    -> Bin("==", A(v), A("u"))
    [] c = "band"  -> Bin("&", A(v), A(v))
    [] c = "bor"   -> Bin("|", Bin("&", A(v), A("w")), Bin("&", A(v), A("u")))
    [] c = "bxor"  -> Bin("^", Par(Bin("^", A(v), A("w"))), A("w"))
    [] c = "tern"  -> Tern(A("u"), A(v), A("z"))
    [] c = "lor"   -> Bin("||", A(v), A("z"))
    [] c = "land"  -> Bin("&&", A(v), A("u"))
    [] c = "neg"   -> Neg(A("n" \o v))                    \* n<v> is declared as -v
    [] c = "call"  -> A("idf(" \o v \o ")")
    [] c = "cast"  -> A("(int) " \o v)
    [] c = "paren" -> Par(Bin("+", A(v), A("z")))
DimTree(c, d) ==
  CASE c = "var"   -> A(d)
    [] c = "add"   -> Bin("+", Par(Bin("-", A(d), A("u"))), A("u"))
    [] c = "sub"   -> Bin("-", Par(Bin("+", A(d), A("u"))), A("u"))
    [] c = "mul"   -> Bin("*", A(d), A("u"))
    [] c = "div"   -> Bin("/", Odd(d), A("w"))
    [] c = "dmod"  -> Bin("%", A(d), A("m"))
    [] c = "shr"   -> Bin(">>", Odd(d), A("u"))
    [] c = "band"  -> Bin("&", A(d), A("m"))
    [] c = "bor"   -> Bin("|", A(d), A("z"))
    [] c = "bxor"  -> Bin("^", A(d), A("z"))
    [] c = "tern"  -> Tern(A("u"), A(d), A("z"))
    [] c = "call"  -> A("idf(" \o d \o ")")
    [] c = "cast"  -> A("(int) " \o d)
    [] c = "paren" -> Par(Bin("+", A(d), A("z")))
\* classes that need the variable in {0,1} to stay in range (the position gets dimension 2)
BoolOnly == {"lor", "land", "lt", "eq"}

RECURSIVE PrintC(_), Strip(_)
PrintC(e) ==
  CASE e.t = "atom" -> <<e.nm>>
    [] e.t = "bin"  -> PrintC(e.l) \o <<e.op>> \o PrintC(e.r)
    [] e.t = "tern" -> PrintC(e.c) \o <<"?">> \o PrintC(e.x) \o <<":">> \o PrintC(e.y)
    [] e.t = "neg"  -> <<"neg">> \o PrintC(e.e)
    [] e.t = "par"  -> <<"(">> \o PrintC(e.e) \o <<")">>
Strip(e) ==
  CASE e.t = "atom" -> e
    [] e.t = "bin"  -> Bin(e.op, Strip(e.l), Strip(e.r))
    [] e.t = "tern" -> Tern(Strip(e.c), Strip(e.x), Strip(e.y))
    [] e.t = "neg"  -> Neg(Strip(e.e))
    [] e.t = "par"  -> Strip(e.e)

\* precedence-climbing parser of the C expression grammar restricted to the tokens above.
\* Each operator returns [e |-> tree, p |-> next position].
RECURSIVE ParseExpr(_, _, _), ParseRest(_, _, _, _), ParsePrimary(_, _)
ParsePrimary(ts, p) ==
  IF ts[p] = "(" THEN LET r == ParseExpr(ts, p + 1, 0) IN [e |-> Par(r.e), p |-> r.p + 1]   \* skips ")"
  ELSE IF ts[p] = "neg" THEN LET r == ParsePrimary(ts, p + 1) IN [e |-> Neg(r.e), p |-> r.p]
  ELSE [e |-> Atom(ts[p]), p |-> p + 1]
ParseRest(ts, lhs, p, minPrec) ==
  IF p > Len(ts) THEN [e |-> lhs, p |-> p]
  ELSE IF ts[p] \in BinOps /\ Prec(ts[p]) >= minPrec THEN
         LET r == ParseExpr(ts, p + 1, Prec(ts[p]) + 1)          \* left associative
         IN ParseRest(ts, Bin(ts[p], lhs, r.e), r.p, minPrec)
  ELSE IF ts[p] = "?" /\ minPrec <= 0 THEN
         LET x == ParseExpr(ts, p + 1, 0)                        \* up to ":"
             y == ParseExpr(ts, x.p + 1, 0)                      \* right associative
         IN [e |-> Tern(lhs, x.e, y.e), p |-> y.p]
  ELSE [e |-> lhs, p |-> p]
ParseExpr(ts, p, minPrec) == LET l == ParsePrimary(ts, p) IN ParseRest(ts, l.e, l.p, minPrec)
ParseC(ts) == ParseExpr(ts, 1, 0).e

\* ---- C values of trees --------------------------------------------------------------------
VarName(j) == <<"i1", "i2", "i3", "i4">>[j]
DimName(j) == <<"d1", "d2", "d3", "d4">>[j]
RECURSIVE BAnd(_, _), BOr(_, _), BXor(_, _), Pow2(_)
BAnd(p, q) == IF p = 0 \/ q = 0 THEN 0 ELSE (p % 2) * (q % 2) + 2 * BAnd(p \div 2, q \div 2)
BOr(p, q)  == IF p = 0 THEN q ELSE IF q = 0 THEN p
              ELSE (IF (p % 2) + (q % 2) > 0 THEN 1 ELSE 0) + 2 * BOr(p \div 2, q \div 2)
BXor(p, q) == IF p = 0 THEN q ELSE IF q = 0 THEN p
              ELSE (((p % 2) + (q % 2)) % 2) + 2 * BXor(p \div 2, q \div 2)
Pow2(n)    == IF n <= 0 THEN 1 ELSE 2 * Pow2(n - 1)
CDiv(p, q) == IF p >= 0 THEN p \div q ELSE -((-p) \div q)
Bool(b)    == IF b THEN 1 ELSE 0
\* value of a name for dimensions D and index tuple a (z u w t m are the run-time constants)
NameVal(nm, D, a) ==
  CASE nm = "z" -> 0 [] nm = "u" -> 1 [] nm = "w" -> 2 [] nm = "t" -> 3 [] nm = "m" -> 7
    [] \E j \in 1..Len(D) : nm \in {VarName(j), "idf(" \o VarName(j) \o ")", "(int) " \o VarName(j)} ->
         a[CHOOSE j \in 1..Len(D) : nm \in {VarName(j), "idf(" \o VarName(j) \o ")", "(int) " \o VarName(j)}]
    [] \E j \in 1..Len(D) : nm = "n" \o VarName(j) -> -a[CHOOSE j \in 1..Len(D) : nm = "n" \o VarName(j)]
    [] \E j \in 1..Len(D) : nm \in {DimName(j), "idf(" \o DimName(j) \o ")", "(int) " \o DimName(j)} ->
         D[CHOOSE j \in 1..Len(D) : nm \in {DimName(j), "idf(" \o DimName(j) \o ")", "(int) " \o DimName(j)}]
RECURSIVE Eval(_, _, _)
Eval(e, D, a) ==
  CASE e.t = "atom" -> NameVal(e.nm, D, a)
    [] e.t = "par"  -> Eval(e.e, D, a)
    [] e.t = "neg"  -> -Eval(e.e, D, a)
    [] e.t = "tern" -> IF Eval(e.c, D, a) # 0 THEN Eval(e.x, D, a) ELSE Eval(e.y, D, a)
    [] e.t = "bin"  ->
         LET p == Eval(e.l, D, a)  q == Eval(e.r, D, a) IN
         CASE e.op = "*" -> p * q [] e.op = "+" -> p + q [] e.op = "-" -> p - q
           [] e.op = "/" -> IF q = 0 THEN 0 ELSE CDiv(p, q)
           [] e.op = "%" -> IF q = 0 THEN 0 ELSE p - q * CDiv(p, q)
           [] e.op = "<<" -> p * Pow2(q) [] e.op = ">>" -> p \div Pow2(q)
           [] e.op = "<" -> Bool(p < q) [] e.op = "==" -> Bool(p = q)
           [] e.op = "&" -> IF p < 0 \/ q < 0 THEN -1 ELSE BAnd(p, q)
           [] e.op = "|" -> IF p < 0 \/ q < 0 THEN -1 ELSE BOr(p, q)
           [] e.op = "^" -> IF p < 0 \/ q < 0 THEN -1 ELSE BXor(p, q)
           [] e.op = "&&" -> Bool(p # 0 /\ q # 0) [] e.op = "||" -> Bool(p # 0 \/ q # 0)

\* wrapInParentheses: operator nodes get a parenthesis node, everything else is left alone
Wrap(e) == IF e.t \in {"bin", "tern", "neg"} THEN Par(e) ELSE e

\* dim::applyCodeTransformations: index = arg[o_n]; for i = n-1 .. 1:
\*     index = ARG(arg[o_i]) + ( (dim[o_i]) * (index) )        ARG = Wrap when WrapArgs
\* `omit` names ONE wrap that is left out (<<"none", 0>> for the code as it is): used to ask what a
\* missing pair of parentheses at that site would do.
RECURSIVE BuildFrom(_, _, _, _, _)
BuildFrom(args, dims, o, j, omit) ==
  IF j = Len(o) THEN args[o[j]]
  ELSE LET W(kind, e) == IF omit = <<kind, j>> THEN e ELSE Wrap(e)
       IN Bin("+", IF WrapArgs THEN W("arg", args[o[j]]) ELSE args[o[j]],
                   Par(Bin("*", W("dim", dims[o[j]]), W("idx", BuildFrom(args, dims, o, j + 1, omit)))))
Build(args, dims, o) == BuildFrom(args, dims, o, 1, <<"none", 0>>)
Sites(n) == {<<kind, j>> : kind \in {"arg", "dim", "idx"}, j \in 1..(n - 1)}
\* what the rewrite MEANS: the same tree with every argument wrapped
RECURSIVE MeantFrom(_, _, _, _)
MeantFrom(args, dims, o, j) ==
  IF j = Len(o) THEN args[o[j]]
  ELSE Bin("+", Par(args[o[j]]), Par(Bin("*", Par(dims[o[j]]), Par(MeantFrom(args, dims, o, j + 1)))))
ArgsWhole(args, dims, o) == Strip(ParseC(PrintC(Build(args, dims, o)))) = Strip(MeantFrom(args, dims, o, 1))

ArgTrees(kk) == [j \in 1..kk.n |-> IdxTree(kk.cls[j], VarName(j))]
DimTrees(kk) == [j \in 1..kk.n |-> DimTree(kk.dcls[j], DimName(j))]

-----------------------------------------------------------------------------
(* The machine: pick a kernel shape, access every in-range tuple once (any order). *)
\* what the access MEANS numerically: the documented index of the argument VALUES under the dimension VALUES
Vals(kk, a) == [j \in 1..kk.n |-> Eval(ArgTrees(kk)[j], kk.D, a)]
DimVals(kk) == [j \in 1..kk.n |-> Eval(DimTrees(kk)[j], kk.D, [i \in 1..kk.n |-> 0])]
Cell(kk, a) == Lin(DimVals(kk), kk.o, Vals(kk, a))

DInit == /\ dk \in DimKernels
         /\ dpc = "enum"
         /\ todo = Tuples(dk.D)
         /\ acc = <<>>

\* canonical order (smallest linear index first) keeps the state graph a chain
Access == /\ dpc = "enum" /\ todo # {}
          /\ LET a == CHOOSE t \in todo : \A s \in todo : Lin(dk.D, dk.o, t) <= Lin(dk.D, dk.o, s)
             IN /\ acc' = Append(acc, [a |-> a, cell |-> Cell(dk, a)])
                /\ todo' = todo \ {a}
          /\ UNCHANGED <<dk, dpc>>
Finish == /\ dpc = "enum" /\ todo = {}
          /\ dpc' = "done"
          /\ UNCHANGED <<dk, todo, acc>>
DNext == Access \/ Finish
DSpec == DInit /\ [][DNext]_dvars

-----------------------------------------------------------------------------
DTypeOK == dpc \in {"enum", "done"} /\ dk \in DimKernels
\* (1) on the model
BijectionOK == dpc = "done" => Bijection(dk.D, dk.o)
CellsAreARange == dpc = "done" => {acc[j].cell : j \in 1..Len(acc)} = 0..(Prod(dk.D, 1) - 1)
\* (2) on the model
WholeOK == dpc = "done" => ArgsWhole(ArgTrees(dk), DimTrees(dk), dk.o)
\* the printer/parser pair is sane: parsing the print of a fully parenthesised tree is the identity
PrintParseSane == dpc = "done" => LET t == MeantFrom(ArgTrees(dk), DimTrees(dk), dk.o, 1) IN ParseC(PrintC(t)) = t
\* the deviation that was found (WrapArgs = FALSE): whole exactly when every argument that is a LEFT
\* operand of the generated "+" binds at least as tightly as "+"
TopPrec(e) == CASE e.t = "bin" -> Prec(e.op) [] e.t = "tern" -> 0 [] OTHER -> 11
UnwrappedWholeIff ==
  (dpc = "done" /\ ~WrapArgs) => (ArgsWhole(ArgTrees(dk), DimTrees(dk), dk.o)
                  <=> \A j \in 1..(dk.n - 1) : TopPrec(ArgTrees(dk)[dk.o[j]]) >= 9)

\* the argument values stay inside the dimensions (so the meant cell is a legal one)
ArgsInRange == dpc = "done" => \A a \in Tuples(dk.D) : \A j \in 1..dk.n :
                                  Vals(dk, a)[j] >= 0 /\ Vals(dk, a)[j] < DimVals(dk)[j]
\* the meant tree evaluates to the documented index of the values
MeantIsLin == dpc = "done" => \A a \in Tuples(dk.D) :
                Eval(MeantFrom(ArgTrees(dk), DimTrees(dk), dk.o, 1), dk.D, a) = Cell(dk, a)
\* NON-VACUITY OF THE OPERANDS: leave out any single pair of parentheses the rewrite adds; if the printed
\* text then parses to a different tree, some in-range access must read a different cell -- i.e. every
\* wrong grouping the printer could produce for this kernel is VISIBLE to the replay.
\* x * (v * u) printed bare is (x * v) * u: another tree, the same value (short of overflow)
HarmlessSite(site) == site[1] = "idx" /\ site[2] = dk.n - 1 /\ dk.cls[dk.o[dk.n]] = "mul"
Sensitive ==
  dpc = "done" =>
    \A site \in Sites(dk.n) :
      LET p == ParseC(PrintC(BuildFrom(ArgTrees(dk), DimTrees(dk), dk.o, 1, site)))
      IN (Strip(p) # Strip(MeantFrom(ArgTrees(dk), DimTrees(dk), dk.o, 1)) /\ ~HarmlessSite(site))
           => \E a \in Tuples(dk.D) : Eval(p, dk.D, a) # Cell(dk, a)

\* args / dims: the argument expressions as token sequences ("neg" = unary minus), rendered verbatim by the harness
DCase == [k |-> dk, exp |-> acc, cells |-> Prod(dk.D, 1),
          args |-> [j \in 1..dk.n |-> PrintC(ArgTrees(dk)[j])], dims |-> [j \in 1..dk.n |-> PrintC(DimTrees(dk)[j])]]
DEmit == dpc = "done" => PrintT(<<"B", ToJson(DCase)>>)
=============================================================================
