------------------------------ MODULE DimIndex ------------------------------
(* C19 -- @dim(D1,...,Dn) @dimOrder(o1,...,on):  x(a1,...,an)  ->  x[ linear index ].

   Documented index (docs/guide/okl/attributes.md: `@dim(X,Y): xy(1,2) -> xy[1 + (2 * X)]`,
   `@dim(2,3) @dimOrder(1,0): yx(1,2) -> yx[2 + (1 * 3)]`): mixed radix, o1 names the fastest index
       Lin = a[o1] + D[o1] * (a[o2] + D[o2] * ( ... a[on]))
   Two claims are modelled:
   (1) for in-range indices Lin is a bijection onto 0..D1*...*Dn-1  (Bijection);
   (2) "every index and dimension argument is evaluated as a complete expression": the rewrite
       builds an expression TREE out of the argument trees; the translator then PRINTS it, and a C
       compiler PARSES the text.  Arguments stay whole iff parsing the printed text gives the
       tree back (ArgsWhole).  The printer emits parentheses only where the tree has a
       parenthesis node, so whoever builds the tree has to wrap operands (Build below;
       TRANSCRIBED FROM src/occa/internal/lang/builtins/attributes/dim.cpp applyCodeTransformations). *)
EXTENDS Integers, Sequences, FiniteSets, TLC, Json

CONSTANTS DimKernels,   \* kernel shapes explored (MC_DimIndex)
          WrapArgs      \* TRUE: Build wraps every index argument (intended); FALSE: as first found in dim.cpp

VARIABLES dk,           \* the kernel shape [n, D, o, cls, dcls]
          dpc,          \* "enum" | "done"
          todo,         \* in-range index tuples not yet accessed
          acc           \* history: sequence of [a |-> tuple, cell |-> linear index]

dvars == <<dk, dpc, todo, acc>>

-----------------------------------------------------------------------------
(* (1) the index *)
Perms(n) == {f \in [1..n -> 1..n] : \A i, j \in 1..n : i # j => f[i] # f[j]}
RECURSIVE LinFrom(_, _, _, _), Prod(_, _)
\* a[o[j]] + D[o[j]] * (rest)
LinFrom(D, o, a, j) == IF j = Len(o) THEN a[o[j]] ELSE a[o[j]] + D[o[j]] * LinFrom(D, o, a, j + 1)
Lin(D, o, a) == LinFrom(D, o, a, 1)
Prod(D, j) == IF j > Len(D) THEN 1 ELSE D[j] * Prod(D, j + 1)
Tuples(D) == {a \in [1..Len(D) -> 0..3] : \A j \in 1..Len(D) : a[j] < D[j]}

Bijection(D, o) ==
  /\ {Lin(D, o, a) : a \in Tuples(D)} = 0..(Prod(D, 1) - 1)
  /\ \A a, b \in Tuples(D) : a # b => Lin(D, o, a) # Lin(D, o, b)

-----------------------------------------------------------------------------
(* (2) expression trees, printing, C parsing.
   Classes of argument expressions (top operator); each is an identity on the loop variable v for the
   run-time constants z = 0, u = 1, m = 7 the harness passes, so the VALUE of every argument is v and
   only its SHAPE differs.  Prec: larger binds tighter (C operator precedence).                *)
Atom(nm)      == [t |-> "atom", nm |-> nm]
Bin(op, l, r) == [t |-> "bin", op |-> op, l |-> l, r |-> r]
Tern(c, x, y) == [t |-> "tern", c |-> c, x |-> x, y |-> y]
Neg(e)        == [t |-> "neg", e |-> e]
Par(e)        == [t |-> "par", e |-> e]

BinOps == {"*", "/", "+", "-", "<<", ">>", "<", "==", "&", "^", "|", "&&", "||"}
Prec(op) == CASE op \in {"*", "/"} -> 10 [] op \in {"+", "-"} -> 9 [] op \in {"<<", ">>"} -> 8
              [] op = "<" -> 7 [] op = "==" -> 6 [] op = "&" -> 5 [] op = "^" -> 4 [] op = "|" -> 3
              [] op = "&&" -> 2 [] op = "||" -> 1

ArgClasses == {"var", "add", "sub", "mul", "div", "shr", "band", "bor", "bxor", "tern", "lor", "land", "neg", "call", "cast", "paren"}
\* the tree of an argument of class c over the variable named v
ArgTree(c, v) ==
  CASE c = "var"   -> Atom(v)
    [] c = "add"   -> Bin("+", Atom(v), Atom("z"))
    [] c = "sub"   -> Bin("-", Atom(v), Atom("z"))
    [] c = "mul"   -> Bin("*", Atom(v), Atom("u"))
    [] c = "div"   -> Bin("/", Atom(v), Atom("u"))
    [] c = "shr"   -> Bin(">>", Atom(v), Atom("z"))
    [] c = "band"  -> Bin("&", Atom(v), Atom("m"))
    [] c = "bor"   -> Bin("|", Atom(v), Atom("z"))
    [] c = "bxor"  -> Bin("^", Atom(v), Atom("z"))
    [] c = "tern"  -> Tern(Atom("z"), Atom("z"), Atom(v))
    [] c = "lor"   -> Bin("||", Atom(v), Atom("z"))          \* value v only for v in {0,1}
    [] c = "land"  -> Bin("&&", Atom(v), Atom("u"))          \* value v only for v in {0,1}
    [] c = "neg"   -> Neg(Atom("n" \o v))                    \* n<v> is declared as -v
    [] c = "call"  -> Atom("idf(" \o v \o ")")
    [] c = "cast"  -> Atom("(int) " \o v)
    [] c = "paren" -> Par(Bin("+", Atom(v), Atom("z")))
\* classes whose value is the variable only on {0,1}
BoolOnly == {"lor", "land"}

RECURSIVE PrintC(_), Strip(_)
PrintC(e) ==
  CASE e.t = "atom" -> <<e.nm>>
    [] e.t = "bin"  -> PrintC(e.l) \o <<e.op>> \o PrintC(e.r)
    [] e.t = "tern" -> PrintC(e.c) \o <<"?">> \o PrintC(e.x) \o <<":">> \o PrintC(e.y)
    [] e.t = "neg"  -> <<"neg">> \o PrintC(e.e)
    [] e.t = "par"  -> <<"(">> \o PrintC(e.e) \o <<")">>
Strip(e) ==
  CASE e.t = "atom" -> e
    [] e.t = "bin"  -> Bin(e.op, Strip(e.l), Strip(e.r))
    [] e.t = "tern" -> Tern(Strip(e.c), Strip(e.x), Strip(e.y))
    [] e.t = "neg"  -> Neg(Strip(e.e))
    [] e.t = "par"  -> Strip(e.e)

\* precedence-climbing parser of the C expression grammar restricted to the tokens above.
\* Each operator returns [e |-> tree, p |-> next position].
RECURSIVE ParseExpr(_, _, _), ParseRest(_, _, _, _), ParsePrimary(_, _)
ParsePrimary(ts, p) ==
  IF ts[p] = "(" THEN LET r == ParseExpr(ts, p + 1, 0) IN [e |-> Par(r.e), p |-> r.p + 1]   \* skips ")"
  ELSE IF ts[p] = "neg" THEN LET r == ParsePrimary(ts, p + 1) IN [e |-> Neg(r.e), p |-> r.p]
  ELSE [e |-> Atom(ts[p]), p |-> p + 1]
ParseRest(ts, lhs, p, minPrec) ==
  IF p > Len(ts) THEN [e |-> lhs, p |-> p]
  ELSE IF ts[p] \in BinOps /\ Prec(ts[p]) >= minPrec THEN
         LET r == ParseExpr(ts, p + 1, Prec(ts[p]) + 1)          \* left associative
         IN ParseRest(ts, Bin(ts[p], lhs, r.e), r.p, minPrec)
  ELSE IF ts[p] = "?" /\ minPrec <= 0 THEN
         LET x == ParseExpr(ts, p + 1, 0)                        \* up to ":"
             y == ParseExpr(ts, x.p + 1, 0)                      \* right associative
         IN [e |-> Tern(lhs, x.e, y.e), p |-> y.p]
  ELSE [e |-> lhs, p |-> p]
ParseExpr(ts, p, minPrec) == LET l == ParsePrimary(ts, p) IN ParseRest(ts, l.e, l.p, minPrec)
ParseC(ts) == ParseExpr(ts, 1, 0).e

\* wrapInParentheses: operator nodes get a parenthesis node, everything else is left alone
Wrap(e) == IF e.t \in {"bin", "tern", "neg"} THEN Par(e) ELSE e

\* dim::applyCodeTransformations: index = arg[o_n]; for i = n-1 .. 1:
\*     index = ARG(arg[o_i]) + ( (dim[o_i]) * (index) )        ARG = Wrap when WrapArgs
RECURSIVE BuildFrom(_, _, _, _)
BuildFrom(args, dims, o, j) ==
  IF j = Len(o) THEN args[o[j]]
  ELSE Bin("+", IF WrapArgs THEN Wrap(args[o[j]]) ELSE args[o[j]],
                Par(Bin("*", Wrap(dims[o[j]]), Wrap(BuildFrom(args, dims, o, j + 1)))))
Build(args, dims, o) == BuildFrom(args, dims, o, 1)
\* what the rewrite MEANS: the same tree with every argument wrapped
RECURSIVE MeantFrom(_, _, _, _)
MeantFrom(args, dims, o, j) ==
  IF j = Len(o) THEN args[o[j]]
  ELSE Bin("+", Par(args[o[j]]), Par(Bin("*", Par(dims[o[j]]), Par(MeantFrom(args, dims, o, j + 1)))))
ArgsWhole(args, dims, o) == Strip(ParseC(PrintC(Build(args, dims, o)))) = Strip(MeantFrom(args, dims, o, 1))

VarName(j) == <<"i1", "i2", "i3", "i4">>[j]
DimName(j) == <<"d1", "d2", "d3", "d4">>[j]
ArgTrees(kk) == [j \in 1..kk.n |-> ArgTree(kk.cls[j], VarName(j))]
DimTrees(kk) == [j \in 1..kk.n |-> ArgTree(kk.dcls[j], DimName(j))]

-----------------------------------------------------------------------------
(* The machine: pick a kernel shape, access every in-range tuple once (any order). *)
DInit == /\ dk \in DimKernels
         /\ dpc = "enum"
         /\ todo = Tuples(dk.D)
         /\ acc = <<>>

\* canonical order (smallest linear index first) keeps the state graph a chain
Access == /\ dpc = "enum" /\ todo # {}
          /\ LET a == CHOOSE t \in todo : \A s \in todo : Lin(dk.D, dk.o, t) <= Lin(dk.D, dk.o, s)
             IN /\ acc' = Append(acc, [a |-> a, cell |-> Lin(dk.D, dk.o, a)])
                /\ todo' = todo \ {a}
          /\ UNCHANGED <<dk, dpc>>
Finish == /\ dpc = "enum" /\ todo = {}
          /\ dpc' = "done"
          /\ UNCHANGED <<dk, todo, acc>>
DNext == Access \/ Finish
DSpec == DInit /\ [][DNext]_dvars

-----------------------------------------------------------------------------
DTypeOK == dpc \in {"enum", "done"} /\ dk \in DimKernels
\* (1) on the model
BijectionOK == dpc = "done" => Bijection(dk.D, dk.o)
CellsAreARange == dpc = "done" => {acc[j].cell : j \in 1..Len(acc)} = 0..(Prod(dk.D, 1) - 1)
\* (2) on the model
WholeOK == dpc = "done" => ArgsWhole(ArgTrees(dk), DimTrees(dk), dk.o)
\* the printer/parser pair is sane: parsing the print of a fully parenthesised tree is the identity
PrintParseSane == dpc = "done" => LET t == MeantFrom(ArgTrees(dk), DimTrees(dk), dk.o, 1) IN ParseC(PrintC(t)) = t
\* the deviation that was found (WrapArgs = FALSE): whole exactly when every argument that is a LEFT
\* operand of the generated "+" binds at least as tightly as "+"
TopPrec(e) == CASE e.t = "bin" -> Prec(e.op) [] e.t = "tern" -> 0 [] OTHER -> 11
UnwrappedWholeIff ==
  (dpc = "done" /\ ~WrapArgs) => (ArgsWhole(ArgTrees(dk), DimTrees(dk), dk.o)
                  <=> \A j \in 1..(dk.n - 1) : TopPrec(ArgTrees(dk)[dk.o[j]]) >= 9)

DCase == [k |-> dk, exp |-> acc, cells |-> Prod(dk.D, 1)]
DEmit == dpc = "done" => PrintT(<<"B", ToJson(DCase)>>)
=============================================================================
