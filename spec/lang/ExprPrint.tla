----------------------------- MODULE ExprPrint -----------------------------
(* C15 -- printing a parsed expression preserves its structure and its meaning.

   Reference semantics, all as TLA+ operators over expression trees:
     Parenthesize(t)  the abstract tree with explicit Paren nodes exactly where the C++
                      precedence/associativity rules (Level, declarative) require them;
     Tokens(p)        the token sequence a printer emits for a tree: parentheses ONLY where a
                      Paren node exists (this is how OCCA's exprNode::print works);
     Render(p)        the same as text with the intended spacing: two operator tokens that
                      would fuse into a different token under maximal munch are kept apart;
     ParseC(toks)     a precedence-climbing parser of the C++ expression grammar (algorithmic,
                      written independently of Level);
     Eval(t, env)     C integer semantics with side effects, short circuit, "undef" for
                      undefined behaviour.
   A behaviour is  pick a tree -> parenthesize -> print -> parse -> evaluate.  TLC checks
     ParseC(Tokens(p)) = p      (print then parse is the identity on trees a parser can produce)
     Strip(p) = t               (only parentheses were added)
     Eval(Strip(ParseC(..)))  = Eval(t)   (same values)
     NoFusion(Render(p))        (the spacing rule is sufficient)
   and emits <tree, text, value> for the replayer, which runs the text through
   OCCA parse -> print -> parse and compares trees; g++ evaluates the printed texts.         *)
EXTENDS ExprTrees

CONSTANTS Trees,      \* the abstract trees (no Paren nodes) of this run
          EnvOrder    \* the variable names as a sequence (order of the values in the output)

VARIABLES tree, stage, ptree, toks, text, parsed, result
vars == <<tree, stage, ptree, toks, text, parsed, result>>

---------------------------------------------------------------------------
Init == /\ tree \in Trees /\ stage = "picked"
        /\ ptree = <<>> /\ toks = <<>> /\ text = <<>> /\ parsed = <<>> /\ result = <<>>
AddParens == /\ stage = "picked" /\ stage' = "parenthesized" /\ ptree' = Parenthesize(tree)
             /\ UNCHANGED <<tree, toks, text, parsed, result>>
PrintIt ==   /\ stage = "parenthesized" /\ stage' = "printed" /\ toks' = Tokens(ptree) /\ text' = Render(ptree)
             /\ UNCHANGED <<tree, ptree, parsed, result>>
Parse ==     /\ stage = "printed" /\ stage' = "parsed" /\ parsed' = ParseC(toks)
             /\ UNCHANGED <<tree, ptree, toks, text, result>>
Evaluate ==  /\ stage = "parsed" /\ stage' = "done" /\ result' = Value(tree)
             /\ UNCHANGED <<tree, ptree, toks, text, parsed>>
Next == AddParens \/ PrintIt \/ Parse \/ Evaluate
Spec == Init /\ [][Next]_vars

---------------------------------------------------------------------------
(* properties *)
OnlyParensAdded   == stage # "picked" => Strip(ptree) = Strip(tree)
PrintParseIsId    == stage \in {"parsed", "done"} => parsed = ptree
\* the spacing rule is sufficient: no two tokens that are written side by side fuse under maximal munch
SpacingSuffices   == stage # "picked" => \A pr \in GluedPairs(ptree) : ~Fuses(pr[1], pr[2])
SameValue         == stage = "done" => Value(Strip(parsed)) = Value(Strip(tree))

\* wt: g++ accepts the text and its value is defined by the language (no unsequenced side effects);
\* v may still be Undef (outside the small-int semantics of Eval): then only g++ original-vs-printed is compared
Out == [tree |-> ptree, text |-> text, v |-> result.v, wt |-> (~Racy(tree) /\ WellTyped(tree, DOMAIN EnvInit)), env |-> [k \in 1..Len(EnvOrder) |-> result.env[EnvOrder[k]]]]
Emit == stage # "done" \/ PrintT(<<"B", ToJson(Out)>>)
=============================================================================
