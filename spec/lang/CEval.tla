-------------------------------- MODULE CEval --------------------------------
(* Value semantics of C/C++ constant expressions over literals (shared by C14's evaluation
   machine CExpr.tla and by the #if conditions of C13's Preproc.tla): operators on typed
   values, static typing, and the denotational definition EvalRec of the value of an
   expression together with the set of leaves that C evaluates.

   An expression is a PREORDER sequence of nodes [k, op, i]:
        k = "lit"  : the (optionally negated) literal  Lits[i]
        k = "un"   : unary  + - ~ !            followed by 1 operand
        k = "bin"  : + - * / % << >> & | ^ < <= > >= == !=   followed by 2 operands
        k = "log"  : && ||                      followed by 2 operands
        k = "tern" : ?:                         followed by 3 operands
   Results:  a typed value (CTypes),  Undef (undefined behaviour / not a constant
   expression in C++17: signed overflow, division by zero, bad shift),  Inexact (floating
   result outside the exactly representable fragment),  or "illformed" (static: floating
   operand of % << >> & | ^ ~, literal too large).                                         *)
EXTENDS Integers, Sequences, FiniteSets, TLC, CTypes

CONSTANT Lits        \* sequence of literal records (CTypes: "int"; here also "bool", "flt")

NoVal == [t |-> "none", v |-> <<>>]
Node(kk, op, i) == [k |-> kk, op |-> op, i |-> i]

\* ---------------------------------------------------------------- literals
LitBase(l) ==
  IF l.k = "bool" THEN (IF PPMode THEN [t |-> "long", v |-> OfNat(IF l.b THEN 1 ELSE 0, 8)]
                        ELSE [t |-> "bool", v |-> OfNat(IF l.b THEN 1 ELSE 0, 8)])
  ELSE IF l.k = "flt" THEN MkF(IF l.f THEN "float" ELSE "double", FALSE, OfNat(l.m, 16), l.e)
  ELSE LET t == IntLitType(l)
       IN IF t = "illformed" THEN [t |-> "illformed", v |-> <<>>]
          ELSE IntV(t, Resize(DigitsValue(l.radix, l.digs), 8, 0))

\* ---------------------------------------------------------------- operators on values
Strict(x, y, r) == IF x.t = "undef" \/ y.t = "undef" THEN Undef
                   ELSE IF x.t = "inexact" \/ y.t = "inexact" THEN Inexact ELSE r

FltCmpLt(a, b) ==       \* a < b on floating values
  LET e  == IF a.e > b.e THEN a.e ELSE b.e
      ma == Shl(ZExt(a.m, 16), e - a.e)
      mb == Shl(ZExt(b.m, 16), e - b.e)
  IN IF a.neg # b.neg THEN a.neg /\ ~(IsZero(ma) /\ IsZero(mb))
     ELSE IF a.neg THEN ULt(mb, ma) ELSE ULt(ma, mb)

FltAdd(t, a, b) ==
  LET e  == IF a.e > b.e THEN a.e ELSE b.e
      ma == Shl(ZExt(a.m, 16), e - a.e)
      mb == Shl(ZExt(b.m, 16), e - b.e)
  IN IF a.neg = b.neg THEN MkF(t, a.neg, Add(ma, mb), e)
     ELSE IF ULt(ma, mb) THEN MkF(t, b.neg, Sub(mb, ma), e)
     ELSE MkF(t, a.neg, Sub(ma, mb), e)
FltNeg(x) == [t |-> x.t, v |-> [neg |-> (~x.v.neg /\ ~IsZero(x.v.m)), m |-> x.v.m, e |-> x.v.e]]
FltDiv(t, a, b) ==
  IF IsZero(b.m) THEN Undef
  ELSE LET n == Shl(ZExt(a.m, 16), b.e + MaxE)
           d == Shl(ZExt(b.m, 16), a.e)
           qr == UDivMod(n, d)
       IN IF IsZero(qr.r) THEN MkF(t, a.neg # b.neg, qr.q, MaxE) ELSE Inexact

\* signed overflow tests work on the exact result: 32-bit operands are exact in 64 bits,
\* 64-bit ones use the sign rule (add/sub) or the full 128-bit product
IntArith(op, t, x, y) ==      \* x, y canonical vectors of type t
  LET sg == Signed(t)
      w8 == Bytes(t) = 8
      neg(a) == sg /\ TopBit(a) = 1
      mag(a) == IF neg(a) THEN Neg(a) ELSE a
  IN CASE op = "+" ->
            LET r == Add(x, y)
                ovf == IF w8 THEN TopBit(x) = TopBit(y) /\ TopBit(r) # TopBit(x) ELSE Canon(t, r) # r
            IN IF sg /\ ovf THEN Undef ELSE IntV(t, r)
       [] op = "-" ->
            LET r == Sub(x, y)
                ovf == IF w8 THEN TopBit(x) # TopBit(y) /\ TopBit(r) # TopBit(x) ELSE Canon(t, r) # r
            IN IF sg /\ ovf THEN Undef ELSE IntV(t, r)
       [] op = "*" ->
            LET r == Mul(x, y)
                wide == MulWide(mag(x), mag(y))
                bl == BitLen(wide)
                ovf == IF w8 THEN bl > 64 \/ (bl = 64 /\ ~(neg(x) # neg(y) /\ Tz(wide) = 63))
                       ELSE Canon(t, r) # r
            IN IF sg /\ ovf THEN Undef ELSE IntV(t, r)
       [] op \in {"/", "%"} ->
            IF IsZero(y) THEN Undef
            ELSE IF sg /\ x = MinOf(t) /\ y = Ones(8) THEN Undef
            ELSE LET qr == UDivMod(mag(x), mag(y))
                 IN IF op = "/" THEN IntV(t, IF neg(x) # neg(y) THEN Neg(qr.q) ELSE qr.q)
                    ELSE IntV(t, IF neg(x) THEN Neg(qr.r) ELSE qr.r)
       [] op = "&" -> IntV(t, And(x, y))
       [] op = "|" -> IntV(t, Or(x, y))
       [] op = "^" -> IntV(t, Xor(x, y))

ShiftOp(op, a, b) ==
  LET t  == Promote(a.t)
      x  == Conv(a, t).v
      c  == Conv(b, Promote(b.t))
      W  == 8 * Bytes(t)
  IN IF IsNegI(c) \/ ~ULt(c.v, OfNat(W, 8)) THEN Undef            \* negative or >= width
     ELSE LET n == c.v[1]
          IN IF op = ">>" THEN IntV(t, IF Signed(t) THEN Sar(x, n) ELSE Shr(x, n))
                 \* (>> of a negative value: arithmetic, as g++ and C++20 define it)
             ELSE IF ~Signed(t) THEN IntV(t, Shl(x, n))
             ELSE IF TopBit(x) = 1 THEN Undef                       \* negative << n
             ELSE LET r == Shl(ZExt(x, 16), n)
                  IN \* C++14/17: defined iff x*2^n fits the corresponding UNSIGNED type;
                     \* C (#if): iff it fits the signed type
                     IF BitLen(r) > (IF PPMode THEN W - 1 ELSE W) THEN Undef
                     ELSE IntV(t, Resize(r, 8, 0))

CmpOp(op, t, x, y) ==     \* x, y converted to the common type t
  LET lt(p, q) == IF IsFltT(t) THEN FltCmpLt(p.v, q.v)
                  ELSE IF Signed(t) THEN SLt(p.v, q.v) ELSE ULt(p.v, q.v)
      eq == IF IsFltT(t) THEN ~lt(x, y) /\ ~lt(y, x) ELSE x.v = y.v
  IN BoolV(CASE op = "<" -> lt(x, y) [] op = ">" -> lt(y, x)
             [] op = "<=" -> ~lt(y, x) [] op = ">=" -> ~lt(x, y)
             [] op = "==" -> eq [] op = "!=" -> ~eq)

CmpOps   == {"<", "<=", ">", ">=", "==", "!="}
ShiftOps == {"<<", ">>"}
IntOnly  == {"%", "&", "|", "^"}

BinOp(op, a, b) ==
  IF ~IsVal(a) \/ ~IsVal(b) THEN Strict(a, b, Undef)
  ELSE IF op \in ShiftOps THEN ShiftOp(op, a, b)
  ELSE LET t == UAC(a.t, b.t)
           x == Conv(a, t)
           y == Conv(b, t)
       IN IF ~IsVal(x) \/ ~IsVal(y) THEN Strict(x, y, Undef)
          ELSE IF op \in CmpOps THEN CmpOp(op, t, x, y)
          ELSE IF IsFltT(t) THEN
                 CASE op = "+" -> FltAdd(t, x.v, y.v)
                   [] op = "-" -> FltAdd(t, x.v, FltNeg(y).v)
                   [] op = "*" -> MkF(t, x.v.neg # y.v.neg, MulWide(x.v.m, y.v.m), x.v.e + y.v.e)
                   [] op = "/" -> FltDiv(t, x.v, y.v)
          ELSE IntArith(op, t, x.v, y.v)

UnOp(op, a) ==
  IF ~IsVal(a) THEN a
  ELSE IF op = "!" THEN BoolV(~ToBool(a))
  ELSE LET t == Promote(a.t)
           x == Conv(a, t)
       IN CASE op = "+" -> x
            [] op = "-" -> IF IsFltT(t) THEN FltNeg(x)
                           ELSE IF Signed(t) /\ x.v = MinOf(t) THEN Undef
                           ELSE IntV(t, Neg(x.v))
            [] op = "~" -> IntV(t, Not(x.v))

\* value and type of every literal of the pool, computed once (constant-level tables)
LitValue0(i) ==
  LET l == Lits[i]
      b == LitBase(l)
  IN IF l.k # "bool" /\ l.neg THEN UnOp("-", b) ELSE b
LitTy0(i) ==
  LET l == Lits[i]
      b == LitBase(l)
  IN IF ~IsVal(b) THEN "illformed" ELSE IF l.k # "bool" /\ l.neg THEN Promote(b.t) ELSE b.t
LitValTab == [i \in 1..Len(Lits) |-> LitValue0(i)]
LitTyTab  == [i \in 1..Len(Lits) |-> LitTy0(i)]
LitValue(i) == LitValTab[i]
LitTy(i)    == LitTyTab[i]

\* ---------------------------------------------------------------- static structure and typing
Arity(n) == CASE n.k = "lit" -> 0 [] n.k = "un" -> 1 [] n.k = "tern" -> 3 [] OTHER -> 2
RECURSIVE End(_, _)
\* index just after the sub-expression that starts at p
End(e, p) ==
  LET RECURSIVE Skip(_, _)
      Skip(q, n) == IF n = 0 THEN q ELSE Skip(End(e, q), n - 1)
  IN Skip(p + 1, Arity(e[p]))
Leaves(e, p, q) == {j \in p..(q - 1) : e[j].k = "lit"}
WellFormed(e) == Len(e) > 0 /\ End(e, 1) = Len(e) + 1

TyUn(op, t) ==
  IF t = "illformed" THEN t
  ELSE IF op = "!" THEN BoolT
  ELSE IF op = "~" /\ IsFltT(t) THEN "illformed" ELSE Promote(t)
TyBin(op, a, b) ==
  IF a = "illformed" \/ b = "illformed" THEN "illformed"
  ELSE IF op \in CmpOps THEN BoolT
  ELSE IF op \in ShiftOps THEN (IF IsFltT(a) \/ IsFltT(b) THEN "illformed" ELSE Promote(a))
  ELSE IF op \in IntOnly /\ (IsFltT(a) \/ IsFltT(b)) THEN "illformed"
  ELSE UAC(a, b)
TyTern(a, b) == IF a = "illformed" \/ b = "illformed" THEN "illformed"
                ELSE IF a = b THEN a ELSE UAC(a, b)
RECURSIVE TypeAt(_, _)
TypeAt(e, p) ==
  LET n == e[p]
  IN CASE n.k = "lit"  -> LitTy(n.i)
       [] n.k = "un"   -> TyUn(n.op, TypeAt(e, p + 1))
       [] n.k = "bin"  -> TyBin(n.op, TypeAt(e, p + 1), TypeAt(e, End(e, p + 1)))
       [] n.k = "log"  -> IF "illformed" \in {TypeAt(e, p + 1), TypeAt(e, End(e, p + 1))}
                          THEN "illformed" ELSE BoolT
       [] n.k = "tern" -> IF TypeAt(e, p + 1) = "illformed" THEN "illformed"
                          ELSE TyTern(TypeAt(e, End(e, p + 1)), TypeAt(e, End(e, End(e, p + 1))))

\* ---------------------------------------------------------------- the definition (denotational)
\* EvalRec(e, p) = [x |-> value | Undef | Inexact, ev |-> leaves evaluated, nx |-> End(e, p)]
RECURSIVE EvalRec(_, _)
EvalRec(e, p) ==
  LET n == e[p]
  IN CASE n.k = "lit" -> [x |-> LitValue(n.i), ev |-> {p}, nx |-> p + 1]
       [] n.k = "un"  -> LET a == EvalRec(e, p + 1)
                         IN [x |-> UnOp(n.op, a.x), ev |-> a.ev, nx |-> a.nx]
       [] n.k = "bin" -> LET a == EvalRec(e, p + 1)
                             b == EvalRec(e, a.nx)
                         IN [x |-> IF IsVal(a.x) THEN BinOp(n.op, a.x, b.x) ELSE a.x,
                             ev |-> a.ev \cup b.ev, nx |-> b.nx]
       [] n.k = "log" -> LET a == EvalRec(e, p + 1)
                             decided == IsVal(a.x) /\ (ToBool(a.x) = (n.op = "||"))
                             b == EvalRec(e, a.nx)
                         IN IF ~IsVal(a.x) THEN [x |-> a.x, ev |-> a.ev, nx |-> End(e, a.nx)]
                            ELSE IF decided THEN [x |-> BoolV(n.op = "||"), ev |-> a.ev, nx |-> End(e, a.nx)]
                            ELSE [x |-> IF IsVal(b.x) THEN BoolV(ToBool(b.x)) ELSE b.x,
                                  ev |-> a.ev \cup b.ev, nx |-> b.nx]
       [] n.k = "tern" ->
            LET c  == EvalRec(e, p + 1)
                p2 == c.nx
                p3 == End(e, p2)
                ty == TyTern(TypeAt(e, p2), TypeAt(e, p3))
                ch == IF ToBool(c.x) THEN EvalRec(e, p2) ELSE EvalRec(e, p3)
            IN IF ~IsVal(c.x) THEN [x |-> c.x, ev |-> c.ev, nx |-> End(e, p3)]
               ELSE [x |-> Conv(ch.x, ty), ev |-> c.ev \cup ch.ev, nx |-> End(e, p3)]

\* the result record that is printed / compared
Result(e, x, evs, sks) ==
  [pre |-> e,
   st  |-> IF IsVal(x) THEN "ok" ELSE x.t,
   t   |-> IF IsVal(x) THEN x.t ELSE "",
   v   |-> IF IsVal(x) /\ ~IsFltT(x.t) THEN x.v ELSE <<>>,
   f   |-> IF IsVal(x) /\ IsFltT(x.t) THEN [neg |-> x.v.neg, m |-> x.v.m, e |-> x.v.e]
           ELSE [neg |-> FALSE, m |-> <<>>, e |-> 0],
   ev  |-> IF IsVal(x) THEN evs ELSE <<>>, sk |-> IF IsVal(x) THEN sks ELSE <<>>]
SetToSeq(S) ==       \* ascending
  LET RECURSIVE F(_, _)
      F(T, acc_) == IF T = {} THEN acc_
                    ELSE LET m == CHOOSE m \in T : \A o \in T : m <= o IN F(T \ {m}, Append(acc_, m))
  IN F(S, <<>>)
Denote(e) ==
  IF TypeAt(e, 1) = "illformed"
  THEN [pre |-> e, st |-> "illformed", t |-> "", v |-> <<>>, f |-> [neg |-> FALSE, m |-> <<>>, e |-> 0],
        ev |-> <<>>, sk |-> <<>>]
  ELSE LET r == EvalRec(e, 1)
       IN Result(e, r.x, SetToSeq(r.ev),
                 IF IsVal(r.x) THEN SetToSeq(Leaves(e, 1, Len(e) + 1) \ r.ev) ELSE <<>>)

=============================================================================
