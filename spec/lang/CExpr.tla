-------------------------------- MODULE CExpr --------------------------------
(* C14 (and the #if conditions of C13) -- reference semantics of C/C++ constant expressions
   over literals, as an executable specification.

   An expression is a PREORDER sequence of nodes [k, op, i]:
        k = "lit"  : the (optionally negated) literal  Lits[i]
        k = "un"   : unary  + - ~ !            followed by 1 operand
        k = "bin"  : + - * / % << >> & | ^ < <= > >= == !=   followed by 2 operands
        k = "log"  : && ||                      followed by 2 operands
        k = "tern" : ?:                         followed by 3 operands
   The state machine first BUILDS an expression (Gen* actions, one node per step, bounded
   by MaxDepth) and then EVALUATES it the way the abstract machine of C does: post-order,
   left to right, one node per step, with an explicit SkipOperand step for every operand
   that C does not evaluate (right side of a decided && / ||, the arm of ?: not chosen).
   Independently, EvalRec gives the denotational definition; TLC checks that the machine
   and the definition agree on value, type and on WHICH leaves were evaluated.

   The value semantics (operators, typing, EvalRec/Denote) are in CEval.tla.                *)
EXTENDS Integers, Sequences, FiniteSets, TLC, Json, CEval

CONSTANTS LitIdx,      \* indices of Lits usable as a leaf
          CondIdx,     \* indices usable as the leaf condition of ?: and left operand of && ||
          UnOps, BinOps, LogOps, UseTern,
          MaxDepth,    \* operator nesting depth of generated expressions
          RootOp       \* TRUE: the root of a generated expression is an operator (simulation runs)

VARIABLES pre,      \* the expression built so far (preorder)
          holes,    \* stack of open operand positions: [d |-> remaining depth, c |-> condition position]
          st,       \* "gen" | "eval" | "done"
          pc,       \* next node to look at
          k,        \* continuation stack
          acc,      \* value just computed, or NoVal
          skipNext, \* the operand at pc must be skipped
          ev, sk,   \* leaf positions evaluated / skipped so far
          nv,       \* history: the value computed at each node (NoVal where none was computed)
          res       \* final result record

vars == <<pre, holes, st, pc, k, acc, skipNext, ev, sk, nv, res>>

\* ---------------------------------------------------------------- the machine
Init == /\ pre = <<>> /\ holes = <<[d |-> MaxDepth, c |-> FALSE]>>
        /\ st = "gen" /\ pc = 1 /\ k = <<>> /\ acc = NoVal /\ skipNext = FALSE
        /\ ev = {} /\ sk = {} /\ nv = <<>> /\ res = [st |-> "none"]

Top(s) == s[Len(s)]
Pop(s) == SubSeq(s, 1, Len(s) - 1)
Hole(d, c) == [d |-> d, c |-> c]
EvalVars == <<pc, k, acc, skipNext, ev, sk, nv, res>>

\* holes are pushed in reverse so that the top of the stack is the leftmost operand
GenLit(i) ==
  /\ st = "gen" /\ holes # <<>> /\ ~(RootOp /\ pre = <<>>)
  /\ i \in (IF Top(holes).c THEN CondIdx ELSE LitIdx)
  /\ pre' = Append(pre, Node("lit", "", i))
  /\ holes' = Pop(holes)
  /\ UNCHANGED <<st, EvalVars>>
GenUn(op) ==
  /\ st = "gen" /\ holes # <<>> /\ Top(holes).d > 0 /\ ~Top(holes).c
  /\ pre' = Append(pre, Node("un", op, 0))
  /\ holes' = Append(Pop(holes), Hole(Top(holes).d - 1, FALSE))
  /\ UNCHANGED <<st, EvalVars>>
GenBin(op) ==
  /\ st = "gen" /\ holes # <<>> /\ Top(holes).d > 0 /\ ~Top(holes).c
  /\ LET d == Top(holes).d - 1
     IN /\ pre' = Append(pre, Node(IF op \in LogOps THEN "log" ELSE "bin", op, 0))
        /\ holes' = Pop(holes) \o <<Hole(d, FALSE), Hole(d, op \in LogOps /\ d = 0)>>
  /\ UNCHANGED <<st, EvalVars>>
GenTern ==
  /\ UseTern
  /\ st = "gen" /\ holes # <<>> /\ Top(holes).d > 0 /\ ~Top(holes).c
  /\ LET d == Top(holes).d - 1
     IN /\ pre' = Append(pre, Node("tern", "", 0))
        /\ holes' = Pop(holes) \o <<Hole(d, FALSE), Hole(d, FALSE), Hole(d, d = 0)>>
  /\ UNCHANGED <<st, EvalVars>>

Finish(r) == /\ st' = "done" /\ res' = r
             /\ UNCHANGED <<pre, holes, pc, k, acc, skipNext, ev, sk, nv>>

\* generation complete: static check, then start evaluating
Start ==
  /\ st = "gen" /\ holes = <<>>
  /\ IF TypeAt(pre, 1) = "illformed"
     THEN Finish(Denote(pre))
     ELSE /\ st' = "eval" /\ nv' = [j \in 1..Len(pre) |-> NoVal]
          /\ UNCHANGED <<pre, holes, pc, k, acc, skipNext, ev, sk, res>>

Cont(c, at, op, x) == [c |-> c, at |-> at, op |-> op, x |-> x]
Running == st = "eval" /\ ~skipNext
AtNode(kk) == Running /\ acc = NoVal /\ pc <= Len(pre) /\ pre[pc].k = kk
Reducing(c) == Running /\ acc # NoVal /\ IsVal(acc) /\ k # <<>> /\ Top(k).c = c
Step(pc_, k_, acc_, skip_, ev_, sk_, nv_) ==
  /\ pc' = pc_ /\ k' = k_ /\ acc' = acc_ /\ skipNext' = skip_ /\ ev' = ev_ /\ sk' = sk_ /\ nv' = nv_
  /\ UNCHANGED <<pre, holes, st, res>>
\* node `at` is complete with value x
Computed(at, x) == [nv EXCEPT ![at] = x]
Replace(c) == Append(Pop(k), c)

EvalLit  == AtNode("lit") /\ LET x == LitValue(pre[pc].i)
                             IN Step(pc + 1, k, x, FALSE, ev \cup {pc}, sk, Computed(pc, x))
Enter(kk, c) == AtNode(kk) /\ Step(pc + 1, Append(k, Cont(c, pc, pre[pc].op, NoVal)), NoVal, FALSE, ev, sk, nv)
EnterUn  == Enter("un", "un")
EnterBin == Enter("bin", "binL")
EnterLog == Enter("log", "logL")
EnterTern ==
  /\ AtNode("tern")
  /\ LET p2 == End(pre, pc + 1)
         ty == TyTern(TypeAt(pre, p2), TypeAt(pre, End(pre, p2)))
     IN Step(pc + 1, Append(k, Cont("ternC", pc, ty, NoVal)), NoVal, FALSE, ev, sk, nv)

Complete(x, skip) == Step(pc, Pop(k), x, skip, ev, sk, Computed(Top(k).at, x))
ApplyUn  == Reducing("un")   /\ Complete(UnOp(Top(k).op, acc), FALSE)
HoldLeft == Reducing("binL") /\ Step(pc, Replace(Cont("binR", Top(k).at, Top(k).op, acc)), NoVal, FALSE, ev, sk, nv)
ApplyBin == Reducing("binR") /\ Complete(BinOp(Top(k).op, Top(k).x, acc), FALSE)
\* left operand of && / || known: either the result is decided and the right operand is
\* skipped, or the right operand is evaluated and converted to bool
DecideLog ==
  /\ Reducing("logL")
  /\ IF ToBool(acc) = (Top(k).op = "||")
     THEN Complete(BoolV(Top(k).op = "||"), TRUE)
     ELSE Step(pc, Replace(Cont("logR", Top(k).at, Top(k).op, NoVal)), NoVal, FALSE, ev, sk, nv)
ApplyLog == Reducing("logR") /\ Complete(BoolV(ToBool(acc)), FALSE)
\* condition of ?: known: evaluate the chosen arm, skip the other one
DecideTern ==
  /\ Reducing("ternC")
  /\ IF ToBool(acc)
     THEN Step(pc, Replace(Cont("ternT", Top(k).at, Top(k).op, NoVal)), NoVal, FALSE, ev, sk, nv)
     ELSE Step(pc, Replace(Cont("ternE", Top(k).at, Top(k).op, NoVal)), NoVal, TRUE, ev, sk, nv)
ChoseThen == Reducing("ternT") /\ Complete(Conv(acc, Top(k).op), TRUE)
ChoseElse == Reducing("ternE") /\ Complete(Conv(acc, Top(k).op), FALSE)

\* the operand that starts at pc is NOT evaluated
SkipOperand ==
  /\ st = "eval" /\ skipNext
  /\ LET q == End(pre, pc)
     IN Step(q, k, acc, FALSE, ev, sk \cup Leaves(pre, pc, q), nv)

\* undefined / inexact: the evaluation stops there
Abort == /\ st = "eval" /\ acc # NoVal /\ ~IsVal(acc) /\ ~skipNext
         /\ Finish(Result(pre, acc, SetToSeq(ev), <<>>))
Done  == /\ Running /\ acc # NoVal /\ IsVal(acc) /\ k = <<>>
         /\ Finish(Result(pre, acc, SetToSeq(ev), SetToSeq(sk)))

Gen  == \/ \E i \in LitIdx \cup CondIdx : GenLit(i)
        \/ \E op \in UnOps : GenUn(op)
        \/ \E op \in BinOps \cup LogOps : GenBin(op)
        \/ GenTern
Eval == \/ EvalLit \/ EnterUn \/ EnterBin \/ EnterLog \/ EnterTern
        \/ ApplyUn \/ HoldLeft \/ ApplyBin \/ DecideLog \/ ApplyLog
        \/ DecideTern \/ ChoseThen \/ ChoseElse \/ SkipOperand \/ Abort \/ Done
Next == Gen \/ Start \/ Eval
Spec == Init /\ [][Next]_vars

\* ---------------------------------------------------------------- properties checked by TLC
TypeOK ==
  /\ st \in {"gen", "eval", "done"}
  /\ pc \in 1..(Len(pre) + 1)
  /\ skipNext \in BOOLEAN
  /\ ev \cap sk = {}
\* totality: the machine never gets stuck before it is done.  Checked as absence of
\* deadlock; `done` stutters so that it is not reported.
Stutter == st = "done" /\ UNCHANGED vars
SpecT == Init /\ [][Next \/ Stutter]_vars
\* the machine computes what the definition says, evaluates exactly the leaves the
\* definition evaluates, and skips (SkipOperand) exactly the other ones
Agreement == st = "done" => res = Denote(pre)
\* the value has the statically determined type
StaticType == (st = "done" /\ res.st = "ok") => res.t = TypeAt(pre, 1)
\* every leaf is either evaluated or skipped, never both, when the expression has a value;
\* a node has a recorded value iff all ... its leaves were evaluated or it decided early
Partition == (st = "done" /\ res.st = "ok") =>
               LET E == {res.ev[j] : j \in 1..Len(res.ev)}
                   S == {res.sk[j] : j \in 1..Len(res.sk)}
               IN /\ E \cup S = Leaves(pre, 1, Len(pre) + 1) /\ E \cap S = {}
                  /\ \A j \in 1..Len(pre) : pre[j].k = "lit" => ((nv[j] # NoVal) <=> j \in E)
                  /\ nv[1] # NoVal /\ nv[1].t = res.t
Built == st # "gen" => WellFormed(pre)

\* what is printed for the replayer: the result plus the value of every evaluated node
NodeRec(x) == [st |-> IF IsVal(x) THEN "ok" ELSE x.t,
               t  |-> IF IsVal(x) THEN x.t ELSE "",
               v  |-> IF IsVal(x) /\ ~IsFltT(x.t) THEN x.v ELSE <<>>,
               f  |-> IF IsVal(x) /\ IsFltT(x.t) THEN [neg |-> x.v.neg, m |-> x.v.m, e |-> x.v.e]
                      ELSE [neg |-> FALSE, m |-> <<>>, e |-> 0]]
Out == [res |-> res, nv |-> [j \in 1..Len(nv) |-> NodeRec(nv[j])]]
\* generation: print every finished expression once, and cut there
Emit == st # "done" \/ (PrintT(<<"B", ToJson(Out)>>) /\ FALSE)
=============================================================================
