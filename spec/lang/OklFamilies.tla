----------------------------- MODULE OklFamilies -----------------------------
(* C22 -- directed families of kernel structures: for every rule whose smallest distinguishing
   witnesses are larger than the node bound of the exhaustive quick enumeration (OklGen), the
   witnesses are enumerated here directly, exhaustively within small per-branch bounds.  The
   oracle is the same as everywhere: Broken(ns, ret) of OklRules.

   Families (each element is one initial state; nothing is filtered by how many rules break):
     "branch2"  one outer-most @outer with TWO branches, each a chain of 1..MaxChain loops over
                {@outer, @inner}, as siblings and as the two arms of an if/else: every pair of
                (outer count, inner count, order) -- equal depth with a different split, different
                depth, equal split
     "branch3"  the same with THREE branches of up to MaxChain3 loops: siblings, and if/else plus
                a following sibling
     "skip"     break / continue below 0..2 nested wrappers out of {if, plain for, while, block}
                inside an @inner loop, and inside an @outer loop next to its @inner loop
     "place"    a @shared / @exclusive declaration at every place of  fo{ fi{} fi{} } : before the
                kernel's @outer, directly in the @outer before / between / after the @inner
                loops, below an if in the @outer, in the @inner, below an if in the @inner, after
                the @outer; plus non-array and non-constant-size @shared at the right place
     "order"    chains of 2..4 loops over {@outer, @inner} below the kernel (every order)
     "pairdecl" two declarations per kernel: every ordered pair of the six declaration shapes, each
                at its valid place or at an invalid one
     "pairnest" two @outer nests per kernel, one of them breaking a rule, in both orders          *)
EXTENDS OklRules, Json

CONSTANTS Families,     \* families in use
          MaxChain,     \* loops per branch, two branches
          MaxChain3     \* loops per branch, three branches

VARIABLES ns, fam
vars == <<ns, fam>>

Chains(m) == UNION {[1..l -> {"fo", "fi"}] : l \in 1..m}
Node(k, d) == [k |-> k, d |-> d, h |-> IF k \in Okl THEN "lt" ELSE "-"]
\* a chain of loops, each nested in the previous one, starting at depth d
Chain(c, d) == [i \in 1..Len(c) |-> Node(c[i], d + i - 1)]
\* wrappers w[1] { w[2] { ... leaf } } starting at depth d
Wrapped(w, leaf, d) == [i \in 1..(Len(w) + 1) |-> IF i <= Len(w) THEN Node(w[i], d + i - 1)
                                                    ELSE Node(leaf, d + Len(w))]

Branch2 ==
  {<<Node("fo", 1)>> \o Chain(a, 2) \o Chain(b, 2) : a \in Chains(MaxChain), b \in Chains(MaxChain)}
  \cup
  {<<Node("fo", 1), Node("if", 2)>> \o Chain(a, 3) \o <<Node("el", 2)>> \o Chain(b, 3) :
      a \in Chains(MaxChain), b \in Chains(MaxChain)}
Branch3 ==
  {<<Node("fo", 1)>> \o Chain(a, 2) \o Chain(b, 2) \o Chain(c, 2) :
      a \in Chains(MaxChain3), b \in Chains(MaxChain3), c \in Chains(MaxChain3)}
  \cup
  {<<Node("fo", 1), Node("if", 2)>> \o Chain(a, 3) \o <<Node("el", 2)>> \o Chain(b, 3) \o Chain(c, 2) :
      a \in Chains(MaxChain3), b \in Chains(MaxChain3), c \in Chains(MaxChain3)}

Wrappers == UNION {[1..l -> {"if", "fp", "wh", "bl"}] : l \in 0..2}
Skip ==
  {<<Node("fo", 1), Node("fi", 2)>> \o Wrapped(w, s, 3) : w \in Wrappers, s \in Skips}
  \cup
  {<<Node("fo", 1)>> \o Wrapped(w, s, 2) \o <<Node("fi", 2)>> : w \in Wrappers, s \in Skips}

PlaceDecls == {"sh", "ex"}
Place ==
  UNION {
    { <<Node(x, 1), Node("fo", 1), Node("fi", 2), Node("fi", 2)>>,                 \* before the @outer
      <<Node("fo", 1), Node(x, 2), Node("fi", 2), Node("fi", 2)>>,                 \* right place
      <<Node("fo", 1), Node("fi", 2), Node(x, 2), Node("fi", 2)>>,                 \* between the @inner loops
      <<Node("fo", 1), Node("fi", 2), Node("fi", 2), Node(x, 2)>>,                 \* after the @inner loops
      <<Node("fo", 1), Node("if", 2), Node(x, 3), Node("fi", 2), Node("fi", 2)>>,  \* below an if in the @outer
      <<Node("fo", 1), Node("fi", 2), Node(x, 3), Node("fi", 2)>>,                 \* in the @inner
      <<Node("fo", 1), Node("fi", 2), Node("if", 3), Node(x, 4), Node("fi", 2)>>,  \* below an if in the @inner
      <<Node("fo", 1), Node("fi", 2), Node("fi", 3), Node(x, 4)>>,                 \* in a nested @inner
      <<Node("fo", 1), Node("fi", 2), Node("fi", 2), Node(x, 1)>> }                \* after the @outer
    : x \in PlaceDecls }
  \cup {<<Node("fo", 1), Node("fi", 2), Node(x, 2), Node("fi", 2)>> : x \in {"shs", "shn", "sh2", "exa"}}

Order == {Chain(c, 1) : c \in {c \in Chains(4) : Len(c) >= 2}}

\* TWO constructs of the same kind in one kernel, in both orders, so that a verdict that is
\* overwritten instead of accumulated is caught for every rule:
\*  - two declarations in  fo{ .. fi{ .. } .. } : every ordered pair over the six declaration shapes,
\*    each at a valid place (in the @outer before the @inner) or an invalid one (in the @inner,
\*    before the @outer loop)
\*  - two @outer nests, the first or the second broken: no @inner, invalid header, break directly
\*    in the @inner, @outer inside @inner, non-matching branches
DeclShapes == {"sh", "sh2", "shs", "shn", "ex", "exa"}
DeclAt(x, where) == CASE where = "top"   -> Node(x, 1)     \* before the @outer loop
                      [] where = "outer" -> Node(x, 2)     \* right place
                      [] where = "inner" -> Node(x, 3)     \* inside the @inner loop
PairDecl ==
  {   (IF wa = "top" THEN <<DeclAt(a, wa)>> ELSE <<>>) \o (IF wb = "top" THEN <<DeclAt(b, wb)>> ELSE <<>>)
   \o <<Node("fo", 1)>>
   \o (IF wa = "outer" THEN <<DeclAt(a, wa)>> ELSE <<>>) \o (IF wb = "outer" THEN <<DeclAt(b, wb)>> ELSE <<>>)
   \o <<Node("fi", 2)>>
   \o (IF wa = "inner" THEN <<DeclAt(a, wa)>> ELSE <<>>) \o (IF wb = "inner" THEN <<DeclAt(b, wb)>> ELSE <<>>)
   : a \in DeclShapes, b \in DeclShapes, wa \in {"top", "outer", "inner"}, wb \in {"top", "outer", "inner"}}
  \cup
  \* the second declaration first (same place): the other traversal order
  {<<Node("fo", 1), DeclAt(b, "outer"), DeclAt(a, "outer"), Node("fi", 2)>> : a \in DeclShapes, b \in DeclShapes}
GoodNest == <<Node("fo", 1), Node("fi", 2)>>
BadNests == {<<Node("fo", 1)>>,
             <<[k |-> "fo", d |-> 1, h |-> "noupd"], Node("fi", 2)>>,
             <<Node("fo", 1), [k |-> "fi", d |-> 2, h |-> "ne"]>>,
             <<Node("fo", 1), Node("fi", 2), Node("br", 3)>>,
             <<Node("fo", 1), Node("fi", 2), Node("fo", 3)>>,
             <<Node("fo", 1), Node("fi", 2), Node("fi", 2), Node("fi", 3)>>,
             <<Node("fo", 1), Node("fi", 2), Node("shs", 3)>>,
             <<Node("fo", 1), Node("shn", 2), Node("fi", 2)>>}
PairNest == {b \o GoodNest : b \in BadNests} \cup {GoodNest \o b : b \in BadNests}
            \cup {GoodNest \o GoodNest}

Family(f) == CASE f = "branch2" -> Branch2
               [] f = "branch3" -> Branch3
               [] f = "skip"    -> Skip
               [] f = "place"   -> Place
               [] f = "order"   -> Order
               [] f = "pairdecl" -> PairDecl
               [] f = "pairnest" -> PairNest

\* (structures outside the generated space of OklRules -- more than three nested @outer / @inner --
\* are dropped)
Init == \E f \in Families : fam = f /\ ns \in {x \in Family(f) : WellFormed(x) /\ Generated(x)}
Next == FALSE /\ UNCHANGED vars
Spec == Init /\ [][Next]_vars

\* every generated structure is a well-formed structure that the general generator could have
\* produced, too (it only is too large for its quick bounds)
TypeOK == WellFormed(ns) /\ Generated(ns)

Record == [shape  |-> Shape(ns), ret |-> "void", fam |-> fam,
           broken |-> SetToSeq(Broken(ns, "void")),
           nodes  |-> Len(ns),
           src    |-> Join(Tokens(ns, "void"))]
Emit == PrintT(<<"B", ToJson(Record)>>) /\ FALSE
=============================================================================
