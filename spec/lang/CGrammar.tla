----------------------------- MODULE CGrammar -----------------------------
(* C15 -- statements and declarations: printing a parsed function body preserves its
   structure and its meaning.

   A program is a sequence of statements (the body of  void k(int &a, int &b)).  Statement
   trees follow the shape OCCA's parser builds: bodies are statement lists (a braced and an
   unbraced body are the same tree), "else if" chains are elif lists.
     RenderS(body, style)  source text in one of two styles: "braces" (every body braced) and
                           "minimal" (single-statement bodies unbraced, braces only where the
                           grammar needs them: dangling else, else-body that is an if,
                           declarations);
     TokensS / ParseS      abstract token stream (expressions and declarations are atoms) and a
                           recursive-descent statement parser with the nearest-if rule;
     Exec(body, env)       reference semantics (C int semantics from ExprTrees, loops with fuel,
                           break / continue / return, switch with fall-through).
   A behaviour is  pick a program and a style -> print -> parse -> execute.  TLC checks
   ParseS(TokensS(p, style)) = p  (so the minimal style really is unambiguous) and emits
   <tree, text, final environment>; the replayer runs the text through OCCA parse -> print ->
   parse and compares trees; g++ runs the original and the printed function.                 *)
EXTENDS ExprTrees

CONSTANTS Programs,   \* set of statement sequences
          Styles,     \* subset of {"braces", "minimal"}
          VarOrder    \* names whose final values are reported (sequence)

VARIABLES prog, style, stage, stoks, stext, sparsed, final
svars == <<prog, style, stage, stoks, stext, sparsed, final>>

---------------------------------------------------------------------------
(* statement trees; e = expression tree (ExprTrees, explicit Paren nodes), NoExpr = absent *)
NoExpr == [n |-> "none"]
SExpr(e)                 == [s |-> "expr", e |-> e]
SDecl(ty, vars)          == [s |-> "decl", ty |-> ty, vars |-> vars]      \* vars: seq of [name, init]
SIf(c, th, elifs, el)    == [s |-> "if", c |-> c, th |-> th, elifs |-> elifs, el |-> el]   \* el: <<>> = no else, else <<body>>
SWhile(c, body)          == [s |-> "while", c |-> c, body |-> body]
SDo(body, c)             == [s |-> "do", c |-> c, body |-> body]
SFor(i, c, u, body)      == [s |-> "for", i |-> i, c |-> c, u |-> u, body |-> body]  \* i: statement (expr/decl/empty); c, u: expression or NoExpr
SSwitch(c, body)         == [s |-> "switch", c |-> c, body |-> body]
SCase(v)                 == [s |-> "case", v |-> v]
SDefault                 == [s |-> "default"]
SBlock(body)             == [s |-> "block", body |-> body]
SReturn                  == [s |-> "return"]
SBreak                   == [s |-> "break"]
SContinue                == [s |-> "continue"]
SEmpty                   == [s |-> "empty"]
Var(name, init)          == [name |-> name, init |-> init]

---------------------------------------------------------------------------
(* text *)
Kw(w) == w
IF_ == <<"i","f">>  ELSE_ == <<"e","l","s","e">>  WHILE_ == <<"w","h","i","l","e">>  DO_ == <<"d","o">>
FOR_ == <<"f","o","r">>  SWITCH_ == <<"s","w","i","t","c","h">>  CASE_ == <<"c","a","s","e">>
DEFAULT_ == <<"d","e","f","a","u","l","t">>  RETURN_ == <<"r","e","t","u","r","n">>
BREAK_ == <<"b","r","e","a","k">>  CONTINUE_ == <<"c","o","n","t","i","n","u","e">>
SPC == <<"SP">>
RE(e) == IF e = NoExpr THEN <<>> ELSE Render(e)

RECURSIVE RS(_, _), RBody(_, _), RList(_, _), RVars(_, _)
RVars(vs, k) == IF k > Len(vs) THEN <<>>
                ELSE (IF k > 1 THEN <<",", "SP">> ELSE <<>>) \o vs[k].name
                     \o (IF vs[k].init = NoExpr THEN <<>> ELSE <<"SP", "=", "SP">> \o Render(vs[k].init)) \o RVars(vs, k + 1)
RList(body, st) == IF body = <<>> THEN <<>> ELSE RS(body[1], st) \o SPC \o RList(Tail(body), st)
\* does an unbraced rendering of this single statement end in an if without else (dangling-else hazard)?
RECURSIVE OpenIf(_)
OpenIf(x) == CASE x.s = "if" -> IF x.el = <<>> THEN TRUE
                                 ELSE Len(x.el[1]) = 1 /\ OpenIf(x.el[1][1])
               [] x.s \in {"while", "for"} -> Len(x.body) = 1 /\ OpenIf(x.body[1])
               [] OTHER -> FALSE
\* a body may be written without braces iff it is exactly one statement that is not a declaration
Bare(body) == Len(body) = 1 /\ body[1].s \notin {"decl", "case", "default"}
RBraced(body, st) == <<"{", "SP">> \o RList(body, st) \o <<"}">>
\* before "else": an unbraced body must not end in an open if
RBody(body, st) == IF st = "minimal" /\ Bare(body) THEN RS(body[1], st) ELSE RBraced(body, st)
RThen(body, st, elseFollows) ==
  IF st = "minimal" /\ Bare(body) /\ ~(elseFollows /\ OpenIf(body[1])) THEN RS(body[1], st) ELSE RBraced(body, st)
\* an else-body that is a single if would read as "else if": brace it
RElse(body, st) == IF st = "minimal" /\ Bare(body) /\ body[1].s # "if" THEN RS(body[1], st) ELSE RBraced(body, st)
RECURSIVE RElifs(_, _, _, _)
RElifs(elifs, k, st, elseFollows) ==
  IF k > Len(elifs) THEN <<>>
  ELSE SPC \o ELSE_ \o SPC \o IF_ \o <<"SP", "(">> \o Render(elifs[k].c) \o <<")", "SP">>
       \o RThen(elifs[k].body, st, elseFollows \/ k < Len(elifs)) \o RElifs(elifs, k + 1, st, elseFollows)
RS(x, st) ==
  CASE x.s = "expr" -> Render(x.e) \o <<";">>
    [] x.s = "decl" -> x.ty \o SPC \o RVars(x.vars, 1) \o <<";">>
    [] x.s = "empty" -> <<";">>
    [] x.s = "return" -> RETURN_ \o <<";">>
    [] x.s = "break" -> BREAK_ \o <<";">>
    [] x.s = "continue" -> CONTINUE_ \o <<";">>
    [] x.s = "block" -> RBraced(x.body, st)
    [] x.s = "if" -> IF_ \o <<"SP", "(">> \o Render(x.c) \o <<")", "SP">>
                     \o RThen(x.th, st, x.elifs # <<>> \/ x.el # <<>>)
                     \o RElifs(x.elifs, 1, st, x.el # <<>>)
                     \o (IF x.el = <<>> THEN <<>> ELSE SPC \o ELSE_ \o SPC \o RElse(x.el[1], st))
    [] x.s = "while" -> WHILE_ \o <<"SP", "(">> \o Render(x.c) \o <<")", "SP">> \o RBody(x.body, st)
    [] x.s = "do" -> DO_ \o SPC \o RBody(x.body, st) \o SPC \o WHILE_ \o <<"SP", "(">> \o Render(x.c) \o <<")", ";">>
    [] x.s = "for" -> FOR_ \o <<"SP", "(">> \o RS(x.i, st) \o SPC \o RE(x.c) \o <<";", "SP">> \o RE(x.u) \o <<")", "SP">> \o RBody(x.body, st)
    [] x.s = "switch" -> SWITCH_ \o <<"SP", "(">> \o Render(x.c) \o <<")", "SP">> \o RBraced(x.body, st)
    [] x.s = "case" -> CASE_ \o SPC \o Render(x.v) \o <<":">>
    [] x.s = "default" -> DEFAULT_ \o <<":">>
RenderS(body, st) == RList(body, st)

---------------------------------------------------------------------------
(* abstract token stream: keywords and punctuation; expressions and declarations are atoms *)
K(w) == [k |-> "kw", w |-> w]
AE(e) == [k |-> "E", e |-> e]
AD(d) == [k |-> "D", d |-> d]
RECURSIVE TS(_, _), TList(_, _), TElifs(_, _, _, _)
TList(body, st) == IF body = <<>> THEN <<>> ELSE TS(body[1], st) \o TList(Tail(body), st)
TBraced(body, st) == <<K("{")>> \o TList(body, st) \o <<K("}")>>
TBody(body, st) == IF st = "minimal" /\ Bare(body) THEN TS(body[1], st) ELSE TBraced(body, st)
TThen(body, st, elseFollows) ==
  IF st = "minimal" /\ Bare(body) /\ ~(elseFollows /\ OpenIf(body[1])) THEN TS(body[1], st) ELSE TBraced(body, st)
TElse(body, st) == IF st = "minimal" /\ Bare(body) /\ body[1].s # "if" THEN TS(body[1], st) ELSE TBraced(body, st)
TElifs(elifs, k, st, elseFollows) ==
  IF k > Len(elifs) THEN <<>>
  ELSE <<K("else"), K("if"), K("("), AE(elifs[k].c), K(")")>> \o TThen(elifs[k].body, st, elseFollows \/ k < Len(elifs))
       \o TElifs(elifs, k + 1, st, elseFollows)
TOptE(e) == IF e = NoExpr THEN <<>> ELSE <<AE(e)>>
TS(x, st) ==
  CASE x.s = "expr" -> <<AE(x.e), K(";")>>
    [] x.s = "decl" -> <<AD(x), K(";")>>
    [] x.s = "empty" -> <<K(";")>>
    [] x.s \in {"return", "break", "continue"} -> <<K(x.s), K(";")>>
    [] x.s = "block" -> TBraced(x.body, st)
    [] x.s = "if" -> <<K("if"), K("("), AE(x.c), K(")")>> \o TThen(x.th, st, x.elifs # <<>> \/ x.el # <<>>)
                     \o TElifs(x.elifs, 1, st, x.el # <<>>)
                     \o (IF x.el = <<>> THEN <<>> ELSE <<K("else")>> \o TElse(x.el[1], st))
    [] x.s = "while" -> <<K("while"), K("("), AE(x.c), K(")")>> \o TBody(x.body, st)
    [] x.s = "do" -> <<K("do")>> \o TBody(x.body, st) \o <<K("while"), K("("), AE(x.c), K(")"), K(";")>>
    [] x.s = "for" -> <<K("for"), K("(")>> \o TS(x.i, st) \o TOptE(x.c) \o <<K(";")>> \o TOptE(x.u) \o <<K(")")>> \o TBody(x.body, st)
    [] x.s = "switch" -> <<K("switch"), K("("), AE(x.c), K(")")>> \o TBraced(x.body, st)
    [] x.s = "case" -> <<K("case"), AE(x.v), K(":")>>
    [] x.s = "default" -> <<K("default"), K(":")>>
TokensS(body, st) == TList(body, st)

(* recursive-descent statement parser; returns [t, i] *)
TkS(ts, i) == IF i <= Len(ts) THEN ts[i] ELSE [k |-> "eof", w |-> "eof"]
IsK(t, w) == t.k = "kw" /\ t.w = w
RECURSIVE PStmt(_, _), PSeq(_, _, _), PBodyS(_, _), PElifChain(_, _, _, _, _)
\* statements up to (not including) a closing brace or the end
PSeq(ts, i, acc) == IF i > Len(ts) \/ IsK(TkS(ts, i), "}") THEN [t |-> acc, i |-> i]
                    ELSE LET r == PStmt(ts, i) IN PSeq(ts, r.i, Append(acc, r.t))
\* a body: a braced list, or one statement
PBodyS(ts, i) == IF IsK(TkS(ts, i), "{") THEN LET r == PSeq(ts, i + 1, <<>>) IN [t |-> r.t, i |-> r.i + 1]
                 ELSE LET r == PStmt(ts, i) IN [t |-> <<r.t>>, i |-> r.i]
POptE(ts, i, stop) == IF IsK(TkS(ts, i), stop) THEN [t |-> NoExpr, i |-> i + 1] ELSE [t |-> TkS(ts, i).e, i |-> i + 2]
PElifChain(ts, i, c, th, elifs) ==      \* i is after the then/elif body
  IF IsK(TkS(ts, i), "else") /\ IsK(TkS(ts, i + 1), "if")
  THEN LET b == PBodyS(ts, i + 5) IN PElifChain(ts, b.i, c, th, Append(elifs, [c |-> TkS(ts, i + 3).e, body |-> b.t]))
  ELSE IF IsK(TkS(ts, i), "else")
  THEN LET b == PBodyS(ts, i + 1) IN [t |-> SIf(c, th, elifs, <<b.t>>), i |-> b.i]
  ELSE [t |-> SIf(c, th, elifs, <<>>), i |-> i]
PStmt(ts, i) ==
  LET k == TkS(ts, i) IN
  CASE k.k = "E" -> [t |-> SExpr(k.e), i |-> i + 2]
    [] k.k = "D" -> [t |-> k.d, i |-> i + 2]
    [] IsK(k, ";") -> [t |-> SEmpty, i |-> i + 1]
    [] IsK(k, "return") -> [t |-> SReturn, i |-> i + 2]
    [] IsK(k, "break") -> [t |-> SBreak, i |-> i + 2]
    [] IsK(k, "continue") -> [t |-> SContinue, i |-> i + 2]
    [] IsK(k, "{") -> LET r == PSeq(ts, i + 1, <<>>) IN [t |-> SBlock(r.t), i |-> r.i + 1]
    [] IsK(k, "if") -> LET b == PBodyS(ts, i + 4) IN PElifChain(ts, b.i, TkS(ts, i + 2).e, b.t, <<>>)
    [] IsK(k, "while") -> LET b == PBodyS(ts, i + 4) IN [t |-> SWhile(TkS(ts, i + 2).e, b.t), i |-> b.i]
    [] IsK(k, "do") -> LET b == PBodyS(ts, i + 1) IN [t |-> SDo(b.t, TkS(ts, b.i + 2).e), i |-> b.i + 5]
    [] IsK(k, "for") -> LET ini == PStmt(ts, i + 2)
                            c == POptE(ts, ini.i, ";")
                            u == POptE(ts, c.i, ")")
                            b == PBodyS(ts, u.i)
                        IN [t |-> SFor(ini.t, c.t, u.t, b.t), i |-> b.i]
    [] IsK(k, "switch") -> LET b == PBodyS(ts, i + 4) IN [t |-> SSwitch(TkS(ts, i + 2).e, b.t), i |-> b.i]
    [] IsK(k, "case") -> [t |-> SCase(TkS(ts, i + 1).e), i |-> i + 3]
    [] IsK(k, "default") -> [t |-> SDefault, i |-> i + 2]
ParseS(ts) == PSeq(ts, 1, <<>>).t

---------------------------------------------------------------------------
(* Exec: reference semantics.  State = [env, sig, fuel]; sig in {"go","break","continue","return","undef"} *)
St(env, sig, fuel) == [env |-> env, sig |-> sig, fuel |-> fuel]
EvalIn(e, env) == IF Racy(e) \/ ~WellTyped(e, DOMAIN env) THEN R(Undef, env) ELSE Eval(e, env)
Declare(env, name, v) == [x \in DOMAIN env \cup {name} |-> IF x = name THEN v ELSE env[x]]

RECURSIVE Exec(_, _), ExecList(_, _), Loop(_, _, _, _, _), DeclVars(_, _, _, _), SwitchFrom(_, _, _)
ExecList(body, st) == IF body = <<>> \/ st.sig # "go" THEN st ELSE ExecList(Tail(body), Exec(body[1], st))
DeclVars(vs, k, ty, st) ==
  IF k > Len(vs) \/ st.sig # "go" THEN st
  ELSE IF vs[k].init = NoExpr THEN DeclVars(vs, k + 1, ty, St(Declare(st.env, vs[k].name, 0), "go", st.fuel))  \* reported only if assigned later
  ELSE LET r == EvalIn(vs[k].init, st.env) IN
       IF r.v = Undef THEN St(st.env, "undef", st.fuel)
       ELSE LET v == IF vs[k].name[1] = "*" THEN r.v ELSE Chk(ConvertTo(ty, r.v)) IN   \* the declared type converts the value
            IF v = Undef THEN St(st.env, "undef", st.fuel)
            ELSE DeclVars(vs, k + 1, ty, St(Declare(r.env, vs[k].name, v), "go", st.fuel))
\* kind: "while" (test first), "do" (body first).  upd = NoExpr or the for-update
Loop(kind, c, upd, body, st) ==
  IF st.sig # "go" THEN st
  ELSE IF st.fuel = 0 THEN St(st.env, "undef", 0)
  ELSE LET t == IF kind = "do" \/ c = NoExpr THEN R(1, st.env) ELSE EvalIn(c, st.env) IN
       IF t.v = Undef THEN St(st.env, "undef", st.fuel)
       ELSE IF t.v = 0 THEN St(t.env, "go", st.fuel)
       ELSE LET b == ExecList(body, St(t.env, "go", st.fuel - 1)) IN
            IF b.sig = "break" THEN St(b.env, "go", b.fuel)
            ELSE IF b.sig \in {"return", "undef"} THEN b
            ELSE LET u == IF upd = NoExpr THEN R(0, b.env) ELSE EvalIn(upd, b.env) IN
                 IF u.v = Undef THEN St(b.env, "undef", b.fuel)
                 ELSE IF kind = "do"
                      THEN LET t2 == EvalIn(c, u.env) IN
                           IF t2.v = Undef THEN St(u.env, "undef", b.fuel)
                           ELSE IF t2.v = 0 THEN St(t2.env, "go", b.fuel)
                           ELSE Loop(kind, c, upd, body, St(t2.env, "go", b.fuel))
                      ELSE Loop(kind, c, upd, body, St(u.env, "go", b.fuel))
\* switch: start executing after the matching case label (or default), fall through, stop at break
SwitchFrom(body, k, st) == ExecList(SubSeq(body, k, Len(body)), st)
Exec(x, st) ==
  IF st.sig # "go" THEN st ELSE
  CASE x.s = "expr" -> LET r == EvalIn(x.e, st.env) IN IF r.v = Undef THEN St(st.env, "undef", st.fuel) ELSE St(r.env, "go", st.fuel)
    [] x.s = "decl" -> DeclVars(x.vars, 1, x.ty, st)
    [] x.s \in {"empty", "case", "default"} -> st
    [] x.s = "return" -> St(st.env, "return", st.fuel)
    [] x.s = "break" -> St(st.env, "break", st.fuel)
    [] x.s = "continue" -> St(st.env, "continue", st.fuel)
    [] x.s = "block" -> ExecList(x.body, st)
    [] x.s = "if" ->
         LET c == EvalIn(x.c, st.env) IN
         IF c.v = Undef THEN St(st.env, "undef", st.fuel)
         ELSE IF c.v # 0 THEN ExecList(x.th, St(c.env, "go", st.fuel))
         ELSE IF x.elifs # <<>> THEN Exec(SIf(x.elifs[1].c, x.elifs[1].body, Tail(x.elifs), x.el), St(c.env, "go", st.fuel))
         ELSE IF x.el # <<>> THEN ExecList(x.el[1], St(c.env, "go", st.fuel))
         ELSE St(c.env, "go", st.fuel)
    [] x.s = "while" -> Loop("while", x.c, NoExpr, x.body, st)
    [] x.s = "do" -> Loop("do", x.c, NoExpr, x.body, st)
    [] x.s = "for" -> LET i == Exec(x.i, st) IN Loop("while", x.c, x.u, x.body, i)
    [] x.s = "switch" ->
         LET c == EvalIn(x.c, st.env) IN
         IF c.v = Undef THEN St(st.env, "undef", st.fuel)
         ELSE LET hits == {k \in 1..Len(x.body) : x.body[k].s = "case" /\ EvalIn(x.body[k].v, c.env).v = c.v}
                  defs == {k \in 1..Len(x.body) : x.body[k].s = "default"}
                  start == IF hits # {} THEN CHOOSE k \in hits : \A j \in hits : k <= j
                           ELSE IF defs # {} THEN CHOOSE k \in defs : TRUE ELSE 0
              IN IF start = 0 THEN St(c.env, "go", st.fuel)
                 ELSE LET b == SwitchFrom(x.body, start, St(c.env, "go", st.fuel)) IN
                      IF b.sig = "break" THEN St(b.env, "go", b.fuel) ELSE b
\* "continue" inside a loop body ends the body: ExecList stops on any non-"go" signal and Loop treats
\* "continue" like normal completion (it only tests for break/return/undef)
Run(body) == ExecList(body, St(EnvInit, "go", 40))

---------------------------------------------------------------------------
SInit == /\ prog \in Programs /\ style \in Styles /\ stage = "picked"
         /\ stoks = <<>> /\ stext = <<>> /\ sparsed = <<>> /\ final = <<>>
SPrint == /\ stage = "picked" /\ stage' = "printed" /\ stoks' = TokensS(prog, style) /\ stext' = RenderS(prog, style)
          /\ UNCHANGED <<prog, style, sparsed, final>>
SParse == /\ stage = "printed" /\ stage' = "parsed" /\ sparsed' = ParseS(stoks)
          /\ UNCHANGED <<prog, style, stoks, stext, final>>
SExec ==  /\ stage = "parsed" /\ stage' = "done" /\ final' = Run(prog)
          /\ UNCHANGED <<prog, style, stoks, stext, sparsed>>
SNext == SPrint \/ SParse \/ SExec
SSpec == SInit /\ [][SNext]_svars

\* the printed program parses back to the program, in either style (the minimal style is unambiguous)
PrintParseIsIdS == stage \in {"parsed", "done"} => sparsed = prog
\* same meaning: executing what was parsed gives what executing the program gives
SameMeaning == stage = "done" => Run(sparsed) = final

Val(env, name) == IF name \in DOMAIN env THEN env[name] ELSE Undef
OutS == [tree |-> prog, style |-> style, text |-> stext, sig |-> final.sig,
         env |-> [k \in 1..Len(VarOrder) |-> Val(final.env, VarOrder[k])]]
EmitS == stage # "done" \/ PrintT(<<"B", ToJson(OutS)>>)
=============================================================================
