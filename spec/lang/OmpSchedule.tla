----------------------------- MODULE OmpSchedule -----------------------------
(* C21 -- the OpenMP reading of an OKL kernel (extends OklKernel: same IR, same generator, same
   SeqRun).  The OpenMP translation puts `#pragma omp parallel for` on the OUTERMOST @outer loop
   of every nest and nothing else, so:
     * the iterations of the outermost @outer loop are handed to NT threads in ANY assignment,
       chunking and order (this covers static, dynamic and guided schedules with any chunk);
     * one thread executes its iteration sequentially: the inner @outer loop, the @inner nests and
       their iterations in program order;
     * @shared arrays, @exclusive arrays, the exclusive index and locals are declared inside the
       parallel loop body, hence private to the executing thread and fresh per @outer iteration;
     * an @atomic update is `#pragma omp atomic`: indivisible.
   Threads interleave at statement granularity.  The property `OmpIsSeq`: whatever the
   distribution and interleaving, the arrays end as SeqRun says.  The placement rules are
   constants so that their mutants can be checked to violate the property:
     ShPlacement = "hoisted"   one sh array for all threads (declared outside the parallel loop)
     ExPlacement = "hoisted"   one ex array for all threads
     AtomicIndivisible = FALSE the pragma is dropped (load and store are separate steps)       *)
EXTENDS OklKernel

CONSTANTS NT,           \* number of OpenMP threads
          ShPlacement,  \* "private" | "hoisted"
          ExPlacement   \* "private" | "hoisted"

VARIABLE pend           \* outermost @outer iterations of the current nest not yet handed out
ovars == <<vars, pend>>

OmpThreads == 1..NT
Idle == [o |-> -1, last |-> -1, ph |-> 0, i |-> 0, st |-> 0, sub |-> 0]
O2(nest) == IF Len(nest.O) = 1 THEN 1 ELSE nest.O[2]       \* iterations of the inner @outer loop
ShSlot(t) == IF ShPlacement = "private" THEN t ELSE 1
ExSlot(t) == IF ExPlacement = "private" THEN t ELSE 1

OmpInit == Init /\ pend = {}

\* first statement position at or after (o, ph, i, st) of the thread's chunk, or Idle at its end.
\* Positions of phases that have no statements left are skipped; the storage of a new @outer
\* iteration is handled by the caller (field `fresh`).
RECURSIVE Norm(_, _)
Norm(p, nest) ==
  IF p.o > p.last THEN Idle            \* (an empty inner @outer loop)
  ELSE IF p.ph > Len(nest.phases) THEN
       IF p.o < p.last THEN Norm([p EXCEPT !.o = @ + 1, !.ph = 1, !.i = 0, !.st = 1, !.sub = 0], nest)
       ELSE Idle
  ELSE IF p.i >= IT(nest) THEN Norm([p EXCEPT !.ph = @ + 1, !.i = 0, !.st = 1, !.sub = 0], nest)
  ELSE IF p.st > Len(nest.phases[p.ph].stmts) THEN Norm([p EXCEPT !.i = @ + 1, !.st = 1, !.sub = 0], nest)
  ELSE p

FreshOmp(nest) ==
  /\ shm'  = [t \in OmpThreads |-> Fresh(IT(nest))]
  /\ exv'  = [t \in OmpThreads |-> Fresh(IT(nest))]
  /\ tmpv' = [t \in OmpThreads |-> UNDEF]
  /\ pc'   = [t \in OmpThreads |-> Idle]
  /\ reg'  = [t \in OmpThreads |-> 0]
  /\ pend' = 0..(nest.O[1] - 1)

OmpLaunch(a) ==
  /\ stage = "built" /\ Mode = "design"
  /\ a \in CheckArgs
  /\ stage' = "run" /\ av' = a /\ nix' = 1
  /\ mem' = [out |-> ArgVecs[a].out, acc |-> ArgVecs[a].acc, bad |-> FALSE]
  /\ FreshOmp(kern.nests[1])
  /\ UNCHANGED genvars

\* thread t takes any pending iteration o1 of the outermost @outer loop
Grab(t, o1) ==
  LET nest == RunNest
      p0 == Norm([o |-> o1 * O2(nest), last |-> o1 * O2(nest) + O2(nest) - 1, ph |-> 1, i |-> 0, st |-> 1, sub |-> 0], nest)
  IN
  /\ stage = "run" /\ pc[t] = Idle /\ o1 \in pend
  /\ pend' = pend \ {o1}
  /\ pc' = [pc EXCEPT ![t] = p0]
  \* the declarations inside the loop body: fresh storage for this iteration (when private)
  /\ shm' = IF ShPlacement = "private" THEN [shm EXCEPT ![t] = Fresh(IT(nest))] ELSE shm
  /\ exv' = IF ExPlacement = "private" THEN [exv EXCEPT ![t] = Fresh(IT(nest))] ELSE exv
  /\ tmpv' = [tmpv EXCEPT ![t] = UNDEF]
  /\ UNCHANGED <<stage, genvars, av, nix, mem, reg>>

OView(t) == [out |-> mem.out, acc |-> mem.acc, sh |-> shm[ShSlot(t)], ex |-> exv[ExSlot(t)], tmp |-> tmpv[t], bad |-> mem.bad]

\* move thread t behind its current statement; entering a new inner iteration resets the local,
\* entering a new @outer iteration of the chunk gives fresh sh / ex (when private)
MoveOn(t, S, done) ==
  LET nest == RunNest
      p  == pc[t]
      q  == IF done THEN Norm([p EXCEPT !.st = @ + 1, !.sub = 0], nest) ELSE [p EXCEPT !.sub = @ + 1]
      newIter  == q # Idle /\ (q.o # p.o \/ q.ph # p.ph \/ q.i # p.i)
      newOuter == q # Idle /\ q.o # p.o
  IN
  /\ pc' = [pc EXCEPT ![t] = q]
  /\ mem' = [out |-> S.out, acc |-> S.acc, bad |-> S.bad]
  /\ shm' = IF newOuter /\ ShPlacement = "private" THEN [shm EXCEPT ![t] = Fresh(IT(nest))]
            ELSE [shm EXCEPT ![ShSlot(t)] = S.sh]
  /\ exv' = IF newOuter /\ ExPlacement = "private" THEN [exv EXCEPT ![t] = Fresh(IT(nest))]
            ELSE [exv EXCEPT ![ExSlot(t)] = S.ex]
  /\ tmpv' = [tmpv EXCEPT ![t] = IF newIter \/ q = Idle THEN UNDEF ELSE S.tmp]

OmpStmt(t) ==
  LET nest == RunNest
      p   == pc[t]
      ph  == nest.phases[p.ph]
      s   == ph.stmts[p.st]
      S   == OView(t)
      arg == ArgVecs[av]
  IN
  /\ stage = "run" /\ p # Idle
  /\ IF ~Guard(s, ph, nest, arg, p.o, p.i, S)
       THEN MoveOn(t, S, TRUE) /\ UNCHANGED reg
     ELSE IF s.op \in AtomicOps /\ AtomicIndivisible
       THEN MoveOn(t, Apply(s, nest, arg, p.o, p.i, S), p.sub + 1 >= s.n) /\ UNCHANGED reg
     ELSE IF s.op \in AtomicOps
       THEN LET env == Env(nest, arg, p.o, p.i, S)
                a   == AccCell(s, env) + 1
            IN IF p.sub % 2 = 0
                 THEN /\ reg' = [reg EXCEPT ![t] = mem.acc[a]]
                      /\ MoveOn(t, S, FALSE)
                 ELSE /\ MoveOn(t, [S EXCEPT !.acc[a] = reg[t] + AtomDelta(s, Eval(s.e, env))], p.sub + 1 >= 2 * s.n)
                      /\ UNCHANGED reg
     ELSE MoveOn(t, Repeat(s.n, s, nest, arg, p.o, p.i, S), TRUE) /\ UNCHANGED reg
  /\ UNCHANGED <<stage, genvars, av, nix, pend>>

\* the implicit barrier at the end of the parallel loop, then the next nest
OmpNestDone == pend = {} /\ \A t \in OmpThreads : pc[t] = Idle
OmpNextNest ==
  /\ stage = "run" /\ OmpNestDone
  /\ IF nix < Len(kern.nests)
       THEN /\ nix' = nix + 1 /\ FreshOmp(kern.nests[nix + 1])
            /\ UNCHANGED <<stage, genvars, av, mem>>
       ELSE /\ stage' = "done"
            /\ UNCHANGED <<genvars, runvars, pend>>

DoGrab    == \E t \in OmpThreads : \E o1 \in pend : Grab(t, o1)
DoOmpStmt == \E t \in OmpThreads : OmpStmt(t)
OmpStep == DoGrab \/ DoOmpStmt
OBegin == DoBegin /\ UNCHANGED pend
OAdd == DoAdd /\ UNCHANGED pend
ONextPhase == DoNextPhase /\ UNCHANGED pend
OFinish == Finish /\ UNCHANGED pend
DoOmpLaunch == \E a \in CheckArgs : OmpLaunch(a)

OmpNext == OBegin \/ OAdd \/ ONextPhase \/ OFinish \/ DoOmpLaunch \/ DoGrab \/ DoOmpStmt \/ OmpNextNest

OmpSpec == OmpInit /\ [][OmpNext]_ovars

-----------------------------------------------------------------------------
\* every distribution of the @outer iterations over the threads and every interleaving gives the
\* sequential result
OmpIsSeq ==
  stage = "done" =>
    LET want == SeqRun(kern, ArgVecs[av]) IN mem.out = want.out /\ mem.acc = want.acc
OmpNoBadAccess == stage \in {"run", "done"} => ~mem.bad
OmpRunsToEnd == stage = "run" => (ENABLED OmpStep \/ ENABLED OmpNextNest)
=============================================================================
