----------------------------- MODULE OklHeaders -----------------------------
(* Shared definitions of C17/C18: operand classes, OKL loop headers, the sequential loop as the
   reference semantics (SeqIters), and the launch scheme transcribed from oklForStatement.cpp.
   No variables: OklLoops.tla and Tile.tla put their machines on top of this.                  *)
EXTENDS Integers, Sequences, FiniteSets, TLC, Json

CONSTANTS ArgVals,     \* values of the run-time arguments p of INIT and BOUND operands
          StepVals,    \* values of the run-time argument p of the step operand
          Fuel,        \* sequential iterations considered; longer (or non-terminating) loops are cut
          MaxAbs,      \* operands evaluate inside -MaxAbs..MaxAbs (the recording window of the harness)
          OneQ         \* TRUE: try one value of the second argument q per operator class (quick tier)

-----------------------------------------------------------------------------
(* Operands.  desc = [c |-> class, v |-> literal value (class "lit" only)].
   Ev gives the C value of the operand for arguments (p, q); WellDef excludes what is undefined
   or implementation-defined in C (shifting negatives, dividing by zero, & | on negatives are
   defined but kept non-negative so that the model needs no two's complement).              *)
Classes == {"lit", "var", "add", "sub", "mul", "neg", "shl", "band", "bor", "tern", "call", "paren", "cast", "div"}
Unary   == {"lit", "var", "neg", "call", "cast"}

RECURSIVE BAnd(_, _), BOr(_, _), Pow2(_)
BAnd(x, y) == IF x = 0 \/ y = 0 THEN 0 ELSE (x % 2) * (y % 2) + 2 * BAnd(x \div 2, y \div 2)
BOr(x, y)  == IF x = 0 THEN y ELSE IF y = 0 THEN x
              ELSE (IF (x % 2) + (y % 2) > 0 THEN 1 ELSE 0) + 2 * BOr(x \div 2, y \div 2)
Pow2(n)    == IF n = 0 THEN 1 ELSE 2 * Pow2(n - 1)
\* C integer division truncates toward zero
CDiv(x, y) == IF x >= 0 THEN x \div y ELSE -((-x) \div y)

WellDef(d, p, q) ==
  CASE d.c = "shl"  -> p >= 0 /\ q >= 0 /\ q <= 3
    [] d.c = "band" -> p >= 0 /\ q >= 0
    [] d.c = "bor"  -> p >= 0 /\ q >= 0
    [] d.c = "div"  -> q > 0
    [] OTHER        -> TRUE

Ev(d, p, q) ==
  CASE d.c = "lit"   -> d.v
    [] d.c = "var"   -> p
    [] d.c = "add"   -> p + q
    [] d.c = "sub"   -> p - q
    [] d.c = "mul"   -> p * q
    [] d.c = "neg"   -> -p
    [] d.c = "shl"   -> p * Pow2(q)
    [] d.c = "band"  -> BAnd(p, q)
    [] d.c = "bor"   -> BOr(p, q)
    [] d.c = "tern"  -> IF p > q THEN p ELSE q
    [] d.c = "call"  -> p
    [] d.c = "paren" -> p + q
    [] d.c = "cast"  -> p
    [] d.c = "div"   -> CDiv(p, q)

\* second-argument values tried per class (run-time values, small on purpose)
QVals2(d) ==
  CASE d.c \in Unary  -> {0}
    [] d.c = "add"    -> {-1, 2}
    [] d.c = "sub"    -> {-1, 1}
    [] d.c = "paren"  -> {-1, 2}
    [] d.c = "mul"    -> {1, 2}
    [] d.c = "shl"    -> {0, 1}
    [] d.c = "band"   -> {3, 6}
    [] d.c = "bor"    -> {0, 1}
    [] d.c = "tern"   -> {0, 2}
    [] d.c = "div"    -> {1, 2}
QVals(d) == IF OneQ THEN {CHOOSE q \in QVals2(d) : \A r \in QVals2(d) : q >= r} ELSE QVals2(d)
PVals(d, isStep) == IF d.c = "lit" THEN {0} ELSE IF isStep THEN StepVals ELSE ArgVals

-----------------------------------------------------------------------------
(* Headers *)
Cmps == {"lt", "le", "gt", "ge"}
Upds == {"preinc", "postinc", "predec", "postdec", "addeq", "subeq"}
StepUpds == {"addeq", "subeq"}
Up(u) == u \in {"preinc", "postinc", "addeq"}

Hdr(kk, aa) ==
  [init  |-> Ev(kk.ci, aa.ip, aa.iq),
   bound |-> Ev(kk.cb, aa.bp, aa.bq),
   step  |-> IF kk.upd \in StepUpds THEN Ev(kk.cs, aa.sp, aa.sq) ELSE 1,
   cmp |-> kk.cmp, left |-> kk.left, upd |-> kk.upd]

\* the loop condition for iterator value i, exactly as C evaluates it
Holds(h, i) ==
  LET x == IF h.left THEN i ELSE h.bound
      y == IF h.left THEN h.bound ELSE i
  IN CASE h.cmp = "lt" -> x < y
       [] h.cmp = "le" -> x <= y
       [] h.cmp = "gt" -> x > y
       [] h.cmp = "ge" -> x >= y
Advance(h, i) == IF Up(h.upd) THEN i + h.step ELSE i - h.step

\* the sequential loop as an operator; "cut" when it does not finish within the fuel
RECURSIVE SeqFrom(_, _, _)
SeqFrom(h, i, fuel) ==
  IF ~Holds(h, i) THEN [its |-> <<>>, cut |-> FALSE]
  ELSE IF fuel = 0 THEN [its |-> <<>>, cut |-> TRUE]
  ELSE LET r == SeqFrom(h, Advance(h, i), fuel - 1)
       IN [its |-> <<i>> \o r.its, cut |-> r.cut]
Terminates(h) == ~SeqFrom(h, h.init, Fuel).cut
SeqIters(h)   == SeqFrom(h, h.init, Fuel).its

\* the comparison points the same way as the update ("i below the bound" with an increasing i)
IterBelow(h) == (h.left /\ h.cmp \in {"lt", "le"}) \/ (~h.left /\ h.cmp \in {"gt", "ge"})
Aligned(h)   == IterBelow(h) = Up(h.upd)

-----------------------------------------------------------------------------
(* The launch scheme.  TRANSCRIBED FROM src/occa/internal/lang/modes/oklForStatement.cpp:
   getIterationCount (direction taken from the update operator only; +1 when the comparison is
   inclusive; ceil by (n + s - 1) / s with C division) and makeDeclarationValue.             *)
Inclusive(h) == h.cmp \in {"le", "ge"}
Count(h) ==
  LET n0 == IF Up(h.upd) THEN h.bound - h.init ELSE h.init - h.bound
      n1 == IF Inclusive(h) THEN 1 + n0 ELSE n0
  IN IF h.upd \in StepUpds THEN CDiv(n1 + h.step - 1, h.step) ELSE n1
IterOf(h, idx) == IF Up(h.upd) THEN h.init + h.step * idx ELSE h.init - h.step * idx
\* the run time launches nothing when a dimension is zero (kernel::run / isNoop); a negative
\* count is NOT a legal dimension -- the intended scheme treats it as zero
LaunchVisits(h) == LET n == Count(h) IN [j \in 1..(IF n > 0 THEN n ELSE 0) |-> IterOf(h, j - 1)]

SeqToSet(s) == {s[j] : j \in 1..Len(s)}
NoRepeat(s) == Cardinality(SeqToSet(s)) = Len(s)
SameVisits(s, t) == Len(s) = Len(t) /\ SeqToSet(s) = SeqToSet(t) /\ NoRepeat(s) /\ NoRepeat(t)

-----------------------------------------------------------------------------
(* Argument values explored for a kernel shape *)
Runs(kk) ==
  {aa \in [ip : PVals(kk.ci, FALSE), iq : QVals(kk.ci),
           bp : PVals(kk.cb, FALSE), bq : QVals(kk.cb),
           sp : PVals(kk.cs, TRUE),  sq : QVals(kk.cs)] :
      /\ WellDef(kk.ci, aa.ip, aa.iq) /\ WellDef(kk.cb, aa.bp, aa.bq) /\ WellDef(kk.cs, aa.sp, aa.sq)
      /\ LET h == Hdr(kk, aa) IN
           /\ h.step >= 1 /\ h.step <= 4
           /\ h.init >= -MaxAbs /\ h.init <= MaxAbs /\ h.bound >= -MaxAbs /\ h.bound <= MaxAbs
           /\ Terminates(h)}

=============================================================================
