------------------------------ MODULE OklNest ------------------------------
(* C17, nests: several @outer and @inner loops around one body.  Sequentially the body runs for
   the cross product of the loops' SeqIters (OKL loop bounds do not depend on other iterators); the
   launcher backends map loop j to a grid/block dimension (x, y, z from the innermost loop of each
   kind outwards), so a mix-up of group and local indices, or of dimensions, shows as wrong tuples.
   One action: Run evaluates the nest; the history is the list of visited tuples in sequential order. *)
EXTENDS OklHeaders

CONSTANTS NestKernels,   \* set of [loops |-> <<shape, ...>> (outermost first), nouter |-> number of @outer loops]
          PairVals       \* <<lo, hi>> values tried for every loop (run-time arguments): an increasing loop
                         \* starts at lo and is bounded by hi, a decreasing one starts at hi, bounded by lo

VARIABLES nk, na, npc, tuples
nvars == <<nk, na, npc, tuples>>

LoopArgs(sh, p) == IF Up(sh.upd) THEN [ip |-> p[1], iq |-> 0, bp |-> p[2], bq |-> 0, sp |-> 0, sq |-> 0]
                                  ELSE [ip |-> p[2], iq |-> 0, bp |-> p[1], bq |-> 0, sp |-> 0, sq |-> 0]
HdrOf(kk, aa, j) == Hdr(kk.loops[j], LoopArgs(kk.loops[j], aa[j]))

\* cross product in nest order (outermost loop slowest)
RECURSIVE Cross(_, _, _)
Cross(kk, aa, j) ==
  IF j > Len(kk.loops) THEN << <<>> >>
  ELSE LET its == SeqIters(HdrOf(kk, aa, j))
           rest == Cross(kk, aa, j + 1)
       IN [t \in 1..(Len(its) * Len(rest)) |->
             <<its[((t - 1) \div Len(rest)) + 1]>> \o rest[((t - 1) % Len(rest)) + 1]]

\* loops beyond the fourth share the arguments of the loop four places out (bounds the number of runs)
NestRuns(kk) == {aa \in [1..Len(kk.loops) -> PairVals] :
                   /\ \A j \in 1..Len(kk.loops) : LET h == HdrOf(kk, aa, j) IN Aligned(h) /\ Terminates(h)
                   /\ \A j \in 5..Len(kk.loops) : aa[j] = aa[j - 4]}

NInit == /\ nk \in NestKernels /\ na \in NestRuns(nk) /\ npc = "ready" /\ tuples = <<>>
Run == /\ npc = "ready"
       /\ tuples' = Cross(nk, na, 1)
       /\ npc' = "done"
       /\ UNCHANGED <<nk, na>>
NNext == Run
NSpec == NInit /\ [][NNext]_nvars

\* every tuple once; as many as the product of the counts the launcher computes (aligned loops)
RECURSIVE CountProd(_, _, _)
CountProd(kk, aa, j) == IF j > Len(kk.loops) THEN 1
                        ELSE (LET n == Count(HdrOf(kk, aa, j)) IN IF n > 0 THEN n ELSE 0) * CountProd(kk, aa, j + 1)
NestCountOK == npc = "done" => /\ Len(tuples) = CountProd(nk, na, 1)
                               /\ NoRepeat(tuples)
NCase == [k |-> nk, a |-> na, exp |-> tuples]
NEmit == npc = "done" => PrintT(<<"B", ToJson(NCase)>>)
=============================================================================
