------------------------- MODULE FunctionalMachine -------------------------
(* C23 -- the objects of occa/functional and occa/loops as a state machine, one action per
   public call.  State = what the API lets a caller observe of ONE object:
     an array   : its contents and its tile settings (setTileSize keeps only positive values);
     a range    : start/end/step (its element sequence is derived);
     a forLoop  : transient (one call chain = one action).
   Every step appends to `hist` the call, its arguments and the observation the definition
   (module Functional) predicts; the replayer executes the calls on a Serial and an OpenMP
   device and the check compares.  Results never depend on the tile settings or on earlier
   calls other than through the contents -- that is the property.

   The design run (VIEW without hist) additionally checks, in every reachable state, that the
   schemes of the implementation (Functional, part 2) agree with the definition:
   SchemeOK.                                                                               *)
EXTENDS Functional, TLC, Json

CONSTANTS Mode,        \* "array" | "range" | "loop": which kind of object this run creates
          Ops,         \* names of the calls enabled in this run (bounds the number of JIT kernels)
          Contents,    \* initial array contents (set of sequences)
          Tilings,     \* <<tileSize, tileIterations>> pairs for setTileSize (<= 0: leave unset)
          PredFns, MapFns, EachFns, Reductions,      \* lambda instances (records)
          Scalars,     \* arguments of fill / indexOf / includes / clamp ...
          Slices,      \* <<offset, count>> candidates
          OtherLens,   \* lengths of the separate output array of mapTo
          RangeArgs,   \* <<ctor, a, b, c>> candidates for occa::range
          Loops,       \* forLoops: pairs <<outer iterations, inner iterations>> (1..3 outer, 0..3 inner)
          TiledLoops,  \* tiled forLoops: sequences of 1..3 iterations with a tile size t
          MaxLen,      \* bound on array length (concat)
          MaxAbs,      \* design run: bound on |element| (state constraint)
          NB,          \* number of blocks of the reduction scheme in the design run (code: 128)
          MaxHist

VARIABLES kind,        \* "none" | "array" | "range"
          vals,        \* array contents / range element sequence
          tile,        \* <<ts, ti>> held by the object; 0 = never set
          rng,         \* [start, end, step] of a range
          hist
vars == <<kind, vals, tile, rng, hist>>

NoRng == [start |-> 0, end |-> 0, step |-> 1]
Step(a, args, exp) == [a |-> a, args |-> args, exp |-> exp]
Say(a, args, exp) == hist' = Append(hist, Step(a, args, exp))

Init == /\ kind = "none" /\ vals = <<>> /\ tile = <<0, 0>> /\ rng = NoRng
        /\ hist = <<>>

-----------------------------------------------------------------------------
(* arrays *)
SetTileOf(old, t) == << IF t[1] > 0 THEN t[1] ELSE old[1], IF t[2] > 0 THEN t[2] ELSE old[2] >>

NewArray(s, t) ==
  /\ Mode = "array" /\ kind = "none"
  /\ kind' = "array" /\ vals' = s /\ tile' = SetTileOf(<<0, 0>>, t)
  /\ Say("new", [vals |-> s, ts |-> t[1], ti |-> t[2]], Len(s))
  /\ UNCHANGED rng

IsArr == kind = "array"
Obs(a, args, exp) == /\ a \in Ops /\ Say(a, args, exp) /\ UNCHANGED <<kind, vals, tile, rng>>

SetTile(t)     == IsArr /\ tile' = SetTileOf(tile, t)
                  /\ "tile" \in Ops /\ Say("tile", [ts |-> t[1], ti |-> t[2]], 0)
                  /\ UNCHANGED <<kind, vals, rng>>
AEvery(fn)     == IsArr /\ fn.f \in {"PA1", "PA2", "PA3"} /\ Obs("every", fn, B(Every(fn, vals)))
ASome(fn)      == IsArr /\ fn.f \in {"PA1", "PA2", "PA3"} /\ Obs("some", fn, B(Some(fn, vals)))
AFindIndex(fn) == IsArr /\ fn.f \in {"PA1", "PA2", "PA3"} /\ Obs("findIndex", fn, FindIndex(fn, vals))
AMap(fn)       == IsArr /\ fn.f \in {"MA1", "MA2", "MA3", "MD2"} /\ Obs("map", fn, Map(fn, vals))
AForEach(fn)   == IsArr /\ Obs("forEach", fn, ForEachOut(fn, vals))
\* mapTo(*this, fn): the array is overwritten with the mapped values (all three lambda arities
\* read only their own element or, MA3, element 0 which is written with its final value first in
\* no particular order -- so MA3 is not used in place)
AMapToSelf(fn) == IsArr /\ fn.f \in {"MA1", "MA2"}
                  /\ vals' = MapTo(fn, vals)
                  /\ "mapToSelf" \in Ops /\ Say("mapToSelf", fn, vals')
                  /\ UNCHANGED <<kind, tile, rng>>
\* mapTo(other, fn): `other` (olen entries, on the same device) receives exactly the mapped values
AMapToOther(fn, olen) ==
                  IsArr /\ fn.f \in {"MA1", "MA2", "MA3"}
                  /\ (fn.f = "MA3" => olen >= Len(vals))       \* see notes/log/C23.md (no overflow on a broken tree)
                  /\ Obs("mapToOther", [f |-> fn.f, k |-> fn.k, olen |-> olen], MapTo(fn, vals))
AReduce(r)     == IsArr /\ (NeedsElement(r) => Len(vals) > 0)
                  /\ Obs("reduce", r, Reduce(r, vals))
AMin           == IsArr /\ Len(vals) > 0 /\ Obs("min", [x |-> 0], ArrMin(vals))
AMax           == IsArr /\ Len(vals) > 0 /\ Obs("max", [x |-> 0], ArrMax(vals))
\* dotProduct(other), other = the reversed array (same length)
ADot           == IsArr /\ Obs("dot", [w |-> Rev(vals)], Dot(vals, Rev(vals)))
AIndexOf(x)    == IsArr /\ Obs("indexOf", [x |-> x], IndexOf(vals, x))
ALastIndexOf(x) == IsArr /\ Obs("lastIndexOf", [x |-> x], LastIndexOf(vals, x))
AIncludes(x)   == IsArr /\ Obs("includes", [x |-> x], B(Includes(vals, x)))
AReverse       == IsArr /\ Obs("reverse", [x |-> 0], Rev(vals))
AClamp(lo, hi) == IsArr /\ lo <= hi /\ Obs("clamp", [lo |-> lo, hi |-> hi], Clamp(vals, lo, hi))
AShiftLeft(o, e)  == IsArr /\ o >= 0 /\ Obs("shiftLeft", [o |-> o, e |-> e], ShiftLeft(vals, o, e))
AShiftRight(o, e) == IsArr /\ o >= 0 /\ Obs("shiftRight", [o |-> o, e |-> e], ShiftRight(vals, o, e))
AFill(x)       == IsArr /\ vals' = Fill(vals, x)
                  /\ "fill" \in Ops /\ Say("fill", [x |-> x], vals')
                  /\ UNCHANGED <<kind, tile, rng>>
\* a = a.slice(off, cnt): a new array object over part of the memory; tile settings are not inherited
ASlice(off, cnt) == IsArr /\ off >= 0 /\ off <= Len(vals)
                  /\ (cnt = -1 \/ (cnt >= 0 /\ off + cnt <= Len(vals)))
                  /\ vals' = Slice(vals, off, cnt) /\ tile' = <<0, 0>>
                  /\ "slice" \in Ops /\ Say("slice", [off |-> off, cnt |-> cnt], vals')
                  /\ UNCHANGED <<kind, rng>>
\* a = a.concat(a.reverse-free copy): concatenation with itself; new object
AConcat        == IsArr /\ 2 * Len(vals) <= MaxLen /\ Len(vals) > 0
                  /\ vals' = Concat(vals, vals) /\ tile' = <<0, 0>>
                  /\ "concat" \in Ops /\ Say("concat", [x |-> 0], vals')
                  /\ UNCHANGED <<kind, rng>>

ArrayNext ==
  \/ \E t \in Tilings : SetTile(t)
  \/ \E fn \in PredFns : AEvery(fn) \/ ASome(fn) \/ AFindIndex(fn)
  \/ \E fn \in MapFns : AMap(fn) \/ AMapToSelf(fn) \/ \E ol \in OtherLens : AMapToOther(fn, ol)
  \/ \E fn \in EachFns : AForEach(fn)
  \/ \E r \in Reductions : AReduce(r)
  \/ AMin \/ AMax \/ ADot \/ AReverse \/ AConcat
  \/ \E x \in Scalars : AIndexOf(x) \/ ALastIndexOf(x) \/ AIncludes(x) \/ AFill(x)
  \/ \E lo \in Scalars, hi \in Scalars : AClamp(lo, hi)
  \/ \E o \in Scalars, e \in Scalars : AShiftLeft(o, e) \/ AShiftRight(o, e)
  \/ \E sl \in Slices : ASlice(sl[1], sl[2])

-----------------------------------------------------------------------------
(* ranges *)
NewRange(ra, t) ==
  /\ Mode = "range" /\ kind = "none"
  /\ LET r == RangeOf(ra[1], ra[2], ra[3], ra[4]) IN
       /\ kind' = "range" /\ rng' = r /\ vals' = RangeSeq(r.start, r.end, r.step)
       /\ tile' = SetTileOf(<<0, 0>>, t)
       /\ Say("range", [ctor |-> ra[1], a |-> ra[2], b |-> ra[3], c |-> ra[4], ts |-> t[1], ti |-> t[2]],
              Len(vals'))
IsRng == kind = "range"
REvery(fn)     == IsRng /\ fn.f \in {"RP1", "RP2"} /\ Obs("r.every", fn, B(Every(fn, vals)))
RSome(fn)      == IsRng /\ fn.f \in {"RP1", "RP2"} /\ Obs("r.some", fn, B(Some(fn, vals)))
RFindIndex(fn) == IsRng /\ fn.f \in {"RP1", "RP2"} /\ Obs("r.findIndex", fn, FindIndex(fn, vals))
RMap(fn)       == IsRng /\ fn.f \in {"RM1", "RMD"} /\ Obs("r.map", fn, Map(fn, vals))
RMapTo(fn, ol) == IsRng /\ fn.f \in {"RM1"} /\ Obs("r.mapTo", [f |-> fn.f, k |-> fn.k, olen |-> ol], Map(fn, vals))
RToArray       == IsRng /\ Obs("r.toArray", [x |-> 0], vals)
\* forEach over a range: out[v - lo] += 100 + v * k; the observation lists <<v, out[v - lo]>> for the
\* values of the range, in range order
RForEach(fn)   == IsRng /\ Obs("r.forEach", fn, [j \in 1..Len(vals) |-> <<vals[j], EachF(fn, vals[j])>>])
RReduce(r)     == IsRng /\ r.f \in {"RS1", "RM1", "RMIN", "RMAX", "RBO", "RO1", "RX1"}
                  /\ (NeedsElement(r) => Len(vals) > 0)
                  /\ Obs("r.reduce", r, Reduce(r, vals))
RSetTile(t)    == IsRng /\ tile' = SetTileOf(tile, t)
                  /\ "tile" \in Ops /\ Say("tile", [ts |-> t[1], ti |-> t[2]], 0)
                  /\ UNCHANGED <<kind, vals, rng>>
RangeNext ==
  \/ \E t \in Tilings : RSetTile(t)
  \/ \E fn \in PredFns : REvery(fn) \/ RSome(fn) \/ RFindIndex(fn)
  \/ \E fn \in MapFns : RMap(fn) \/ \E ol \in OtherLens : RMapTo(fn, ol)
  \/ \E fn \in EachFns : RForEach(fn)
  \/ \E r \in Reductions : RReduce(r)
  \/ RToArray

-----------------------------------------------------------------------------
(* forLoop: forLoop(device).outer(...)[.inner(...)].run(body)  or  forLoop(device).tile(...).run(body)
   is one call chain on a transient object, hence one action.  The body adds 1 (atomically) to a
   counter cell per index tuple; the observation is the sequence of index tuples of the nested
   sequential loops (the check compares it as a bag: order is not part of the property).      *)
Loop(o, i) ==
  /\ Mode = "loop" /\ Len(o) \in 1..3 /\ Len(i) \in 0..3
  /\ Say("loop", [outer |-> o, inner |-> i, tiled |-> 0], TupleSeq(o \o i))
  /\ UNCHANGED <<kind, vals, tile, rng>>
TLoop(o) ==
  /\ Mode = "loop" /\ Len(o) \in 1..3
  /\ Say("loop", [outer |-> o, inner |-> <<>>, tiled |-> 1], TupleSeq(o))
  /\ UNCHANGED <<kind, vals, tile, rng>>
LoopNext ==
  \/ \E l \in Loops : Loop(l[1], l[2])
  \/ \E o \in TiledLoops : TLoop(o)

-----------------------------------------------------------------------------
Next == \/ \E s \in Contents, t \in Tilings : NewArray(s, t)
        \/ \E ra \in RangeArgs, t \in Tilings : NewRange(ra, t)
        \/ ArrayNext \/ RangeNext \/ LoopNext
Spec == Init /\ [][Next]_vars

-----------------------------------------------------------------------------
(* design-level checks (evaluated in every reachable state of the design run) *)
TypeOK == /\ kind \in {"none", "array", "range"}
          /\ tile[1] >= 0 /\ tile[2] >= 0
          /\ kind = "range" => vals = RangeSeq(rng.start, rng.end, rng.step)

\* tile parameters as the kernels see them (0 = unset behaves as -1)
TS == IF tile[1] = 0 THEN -1 ELSE tile[1]
TI == IF tile[2] = 0 THEN -1 ELSE tile[2]
\* the tiled map kernels apply the body to every index exactly once, whatever the settings
TilingSchemeOK == kind \in {"array", "range"} => ExactlyOnce(TiledVisits(Len(vals), TS, TI), Len(vals))
\* the block reduction computes the sequential fold for every reduction of the catalogue
ReduceSchemeOK == kind \in {"array", "range"} =>
                    \A r \in Reductions :
                      ((NeedsElement(r) => Len(vals) > 0) /\ (kind = "range" => r.f \notin {"RS2", "RS3", "RMNC", "RMXC", "RA1", "RBA"}))
                        => BlockReduce(r, vals, NB) = Reduce(r, vals)
\* range: closed-form length and index -> value agree with the loop
RangeSchemeOK == kind = "range" =>
                    /\ LengthImpl(rng.start, rng.end, rng.step) = Len(vals)
                    /\ \A j \in 1..Len(vals) : RangeValueImpl(rng.start, rng.step, j - 1) = vals[j]
                    /\ LoopHeaderVisits(rng.start, rng.end, rng.step) = vals
SchemeOK == TilingSchemeOK /\ ReduceSchemeOK /\ RangeSchemeOK
\* what tile.cpp generates today for the map kernels skips elements as soon as TI > 1:
\* kept as a documented NON-theorem (checked to be violated in notes/log/C23.md)
TilingAsCodedOK == kind \in {"array", "range"} => ExactlyOnce(TiledVisitsAsCoded(Len(vals), TS, TI), Len(vals))

Bounded == \A j \in 1..Len(vals) : Abs(vals[j]) <= MaxAbs
View == <<kind, vals, tile, rng>>
Emit == Len(hist) < MaxHist \/ (PrintT(<<"B", ToJson(hist)>>) /\ FALSE)
\* simulation (tlc -simulate): a CONSTRAINT would be evaluated on every candidate successor of the last
\* state; instead the behaviour prints itself once in a stuttering step when it is complete
SimNext == \/ (Len(hist) < MaxHist /\ Next)
           \/ (Len(hist) = MaxHist /\ PrintT(<<"B", ToJson(hist)>>) /\ UNCHANGED vars)
SimSpec == Init /\ [][SimNext]_vars
=============================================================================
