------------------------------- MODULE Preproc -------------------------------
(* C13 -- conditional inclusion and macro definition of the C preprocessor (C11 6.10.1,
   6.10.3.5; C++ [cpp.cond], [cpp.scope]) as a state machine that BUILDS a translation unit
   line by line and processes each line as it is added:

        #if c | #ifdef M | #ifndef M | #elif c | #else | #endif | #define ... | #undef M | text

   State: the stack of open if-sections, the macro table, the output lines, and the
   history (`lines`, `evald`: which conditions were evaluated, with their values).
   There are separate actions for a condition that C EVALUATES and one that C SKIPS
   (#if inside a skipped group; #elif after a taken group or in a dead section): skipped
   conditions may be arbitrary token soup for C, here they may be "poisoned" (1/0) -- an
   implementation that evaluates them crashes or reports an error.

   Conditions are CEval expressions (PPMode: intmax_t / uintmax_t arithmetic) whose leaves
   may also be  defined(M) / defined M  and identifiers (macro names; an identifier that is
   not a macro is 0).  Text lines are expanded with MacroExpand.                           *)
EXTENDS Integers, Sequences, FiniteSets, TLC, Json, CEval, MacroExpand

CONSTANTS Conds,      \* sequence of [pre |-> preorder nodes]; leaf kinds lit / def / defb / idn (name in op)
          Defs,       \* sequence of [name, def (MacroExpand!Def), lit]: lit # 0: object-like macro whose body is Lits[lit]
          Texts,      \* sequence of token-spelling sequences
          Names,      \* macro names usable in #ifdef / #ifndef / #undef
          CondIdx, ElifIdx, DefIdx, TextIdx,   \* the menus actually used by a run (conditions of #if / of #elif)
          Zero, One,  \* indices in Lits of the literals 0 and 1
          MaxLines, MaxNest,
          MacroFocus  \* TRUE: generate only units `increasing #defines, then one text line` (macro runs)

VARIABLES lines,     \* history: the translation unit built so far
          stack,     \* open if-sections, innermost last
          macros,    \* macro table (function from defined names to definitions)
          lits,      \* for object-like literal macros: name -> index in Lits (used by conditions)
          out,       \* output: sequence of [n |-> line number, toks |-> spellings]
          evald,     \* history: [n |-> line number, v |-> BOOLEAN] of every condition evaluated
          fin        \* translation unit complete

vars == <<lines, stack, macros, lits, out, evald, fin>>

TopF == stack[Len(stack)]
Active == IF stack = <<>> THEN TRUE ELSE TopF.active
Frame(active, taken, els, kept, live) ==
  [active |-> active, taken |-> taken, els |-> els, kept |-> kept, live |-> live]
Line(kk, c, d, m, t) == [k |-> kk, c |-> c, d |-> d, m |-> m, t |-> t]
N == Len(lines) + 1                                   \* number of the line being added
\* a line may be added only if the unit can still be closed within MaxLines
Room(depthAfter) == ~fin /\ N + depthAfter <= MaxLines

\* ---------------------------------------------------------------- conditions
\* replace defined(M), defined M and identifiers by literals, given the macro table
Resolve(pre) ==
  [j \in 1..Len(pre) |->
     LET n == pre[j]
     IN IF n.k \in {"def", "defb"} THEN Node("lit", "", IF n.op \in DOMAIN macros THEN One ELSE Zero)
        ELSE IF n.k = "idn" THEN Node("lit", "", IF n.op \in DOMAIN lits THEN lits[n.op] ELSE Zero)
        ELSE n]
\* an identifier leaf is meaningful only if it is undefined or an object-like literal macro
Resolvable(pre) == \A j \in 1..Len(pre) : pre[j].k = "idn" => (pre[j].op \in DOMAIN macros => pre[j].op \in DOMAIN lits)
CondVal(c) == EvalRec(Resolve(Conds[c].pre), 1).x
\* C evaluates the condition here: it must have a value (otherwise the unit is not valid C)
Evaluable(c) == Resolvable(Conds[c].pre) /\ IsVal(CondVal(c))

\* ---------------------------------------------------------------- actions
EmptyF == [x \in {} |-> 0]
Init == /\ lines = <<>> /\ stack = <<>> /\ macros = EmptyF /\ lits = EmptyF /\ out = <<>> /\ evald = <<>>
        /\ fin = FALSE

Push(f) == stack' = Append(stack, f)
SetTop(f) == stack' = [stack EXCEPT ![Len(stack)] = f]
AddLine(l) == lines' = Append(lines, l)
Same(v) == UNCHANGED v

\* #if whose condition C evaluates
IfEval(c) ==
  /\ Room(Len(stack) + 1) /\ Len(stack) < MaxNest /\ Active /\ Evaluable(c)
  /\ LET v == ToBool(CondVal(c))
     IN /\ Push(Frame(v, v, FALSE, IF v THEN 1 ELSE 0, TRUE))
        /\ evald' = Append(evald, [n |-> N, v |-> v])
  /\ AddLine(Line("if", c, 0, "", 0)) /\ UNCHANGED <<macros, lits, out, fin>>
\* #if inside a skipped group: only the nesting is tracked, the condition is NOT evaluated
IfSkip(c) ==
  /\ Room(Len(stack) + 1) /\ Len(stack) < MaxNest /\ ~Active
  /\ Push(Frame(FALSE, TRUE, FALSE, 0, FALSE))
  /\ AddLine(Line("if", c, 0, "", 0)) /\ UNCHANGED <<macros, lits, out, evald, fin>>
Ifdef(m, neg) ==
  /\ Room(Len(stack) + 1) /\ Len(stack) < MaxNest
  /\ IF Active
     THEN LET v == (m \in DOMAIN macros) # neg
          IN /\ Push(Frame(v, v, FALSE, IF v THEN 1 ELSE 0, TRUE))
             /\ evald' = Append(evald, [n |-> N, v |-> v])
     ELSE /\ Push(Frame(FALSE, TRUE, FALSE, 0, FALSE))
          /\ UNCHANGED evald
  /\ AddLine(Line(IF neg THEN "ifndef" ELSE "ifdef", 0, 0, m, 0)) /\ UNCHANGED <<macros, lits, out, fin>>
\* #elif whose condition C evaluates: the section is live and no group was taken yet
ElifEval(c) ==
  /\ Room(Len(stack)) /\ stack # <<>> /\ ~TopF.els /\ TopF.live /\ ~TopF.taken /\ Evaluable(c)
  /\ LET v == ToBool(CondVal(c))
     IN /\ SetTop(Frame(v, v, FALSE, TopF.kept + (IF v THEN 1 ELSE 0), TRUE))
        /\ evald' = Append(evald, [n |-> N, v |-> v])
  /\ AddLine(Line("elif", c, 0, "", 0)) /\ UNCHANGED <<macros, lits, out, fin>>
\* #elif after a taken group, or in a section that is skipped as a whole: NOT evaluated
ElifSkip(c) ==
  /\ Room(Len(stack)) /\ stack # <<>> /\ ~TopF.els /\ (~TopF.live \/ TopF.taken)
  /\ SetTop(Frame(FALSE, TopF.taken, FALSE, TopF.kept, TopF.live))
  /\ AddLine(Line("elif", c, 0, "", 0)) /\ UNCHANGED <<macros, lits, out, evald, fin>>
Else ==
  /\ Room(Len(stack)) /\ stack # <<>> /\ ~TopF.els
  /\ LET v == TopF.live /\ ~TopF.taken
     IN SetTop(Frame(v, TRUE, TRUE, TopF.kept + (IF v THEN 1 ELSE 0), TopF.live))
  /\ AddLine(Line("else", 0, 0, "", 0)) /\ UNCHANGED <<macros, lits, out, evald, fin>>
Endif ==
  /\ ~fin /\ stack # <<>>
  /\ stack' = SubSeq(stack, 1, Len(stack) - 1)
  /\ AddLine(Line("endif", 0, 0, "", 0)) /\ UNCHANGED <<macros, lits, out, evald, fin>>

Restrict(f, S) == [x \in S |-> f[x]]
Define(d) ==
  /\ Room(Len(stack))
  /\ MacroFocus => \A j \in 1..Len(lines) : lines[j].k = "define" /\ lines[j].d < d
  /\ LET D == Defs[d]
     IN IF Active
        THEN /\ (D.name \in DOMAIN macros => macros[D.name] = D.def)     \* no incompatible redefinition
             /\ macros' = [x \in DOMAIN macros \cup {D.name} |-> IF x = D.name THEN D.def ELSE macros[x]]
             /\ lits' = IF D.lit # 0
                        THEN [x \in DOMAIN lits \cup {D.name} |-> IF x = D.name THEN D.lit ELSE lits[x]]
                        ELSE Restrict(lits, DOMAIN lits \ {D.name})
        ELSE UNCHANGED <<macros, lits>>
  /\ AddLine(Line("define", 0, d, "", 0)) /\ UNCHANGED <<stack, out, evald, fin>>
UndefLine(m) ==
  /\ Room(Len(stack))
  /\ IF Active THEN /\ macros' = Restrict(macros, DOMAIN macros \ {m})
                    /\ lits' = Restrict(lits, DOMAIN lits \ {m})
     ELSE UNCHANGED <<macros, lits>>
  /\ AddLine(Line("undef", 0, 0, m, 0)) /\ UNCHANGED <<stack, out, evald, fin>>
\* a line of text: tagged with its line number so that kept lines are identifiable
Tag(n) == "L" \o ToString(n)
Text(t) ==
  /\ Room(Len(stack))
  /\ MacroFocus => \A j \in 1..Len(lines) : lines[j].k = "define"
  /\ IF Active
     THEN LET e == Expand(Toks(Texts[t]), macros)
          IN /\ \A i \in 1..Len(e) : e[i].s # ERR
             /\ out' = Append(out, [n |-> N, toks |-> <<Tag(N)>> \o Plain(e), used |-> UsedBy(e)])
     ELSE UNCHANGED out
  /\ AddLine(Line("text", 0, 0, "", t)) /\ UNCHANGED <<stack, macros, lits, evald, fin>>
Finish ==
  /\ ~fin /\ stack = <<>> /\ lines # <<>>
  /\ MacroFocus => lines[Len(lines)].k = "text"
  /\ fin' = TRUE /\ UNCHANGED <<lines, stack, macros, lits, out, evald>>

Next == \/ \E c \in CondIdx : IfEval(c) \/ IfSkip(c)
        \/ \E c \in ElifIdx : ElifEval(c) \/ ElifSkip(c)
        \/ \E m \in Names : Ifdef(m, FALSE) \/ Ifdef(m, TRUE) \/ UndefLine(m)
        \/ Else \/ Endif \/ Finish
        \/ \E d \in DefIdx : Define(d)
        \/ \E t \in TextIdx : Text(t)
Stutter == fin /\ UNCHANGED vars
Spec == Init /\ [][Next \/ Stutter]_vars

\* ---------------------------------------------------------------- properties checked by TLC
\* well-formed stack: an inner section is live iff the enclosing group is kept; a kept group
\* belongs to a live section that is marked taken
StackOK ==
  /\ Len(stack) <= MaxNest
  /\ \A i \in 1..Len(stack) :
       /\ stack[i].live = (i = 1 \/ stack[i - 1].active)
       /\ stack[i].active => (stack[i].live /\ stack[i].taken)
       /\ ~stack[i].live => stack[i].taken
\* at most one group of every #if ... #endif is kept
OneGroup == \A i \in 1..Len(stack) : stack[i].kept <= 1 /\ (stack[i].kept = 1) = (stack[i].live /\ stack[i].taken)
\* `taken` (OCCA: finishedIf) never goes back, #endif pops exactly its own frame
TakenMonotone ==
  [][\A i \in 1..Len(stack) : i <= Len(stack') =>
        /\ (stack[i].taken => stack'[i].taken)
        /\ (i < Len(stack) => stack'[i] = stack[i])]_vars
\* a condition is evaluated iff C evaluates it, and a text line is kept iff C keeps it --
\* independent formulation: re-derive both, from the finished unit alone (structural walk over
\* the lines with a stack of [on, had, live], reading a condition's recorded value only where
\* the walk itself says it is evaluated), and compare with what the machine recorded
ValueAt(n) == LET S == {i \in 1..Len(evald) : evald[i].n = n}
              IN IF S = {} THEN FALSE ELSE evald[CHOOSE i \in S : TRUE].v
RECURSIVE Walk(_, _, _)
Walk(j, fr, acc) ==
  IF j > Len(lines) THEN acc
  ELSE LET l == lines[j]
           on == fr = <<>> \/ fr[Len(fr)].on
           top == fr[Len(fr)]
           pop == SubSeq(fr, 1, Len(fr) - 1)
       IN CASE l.k \in {"if", "ifdef", "ifndef"} ->
                 LET v == on /\ ValueAt(j)
                 IN Walk(j + 1, Append(fr, [on |-> v, had |-> v, live |-> on]),
                         IF on THEN [acc EXCEPT !.ev = @ \cup {j}] ELSE acc)
            [] l.k = "elif" ->
                 LET e == top.live /\ ~top.had
                     v == e /\ ValueAt(j)
                 IN Walk(j + 1, Append(pop, [on |-> v, had |-> top.had \/ v, live |-> top.live]),
                         IF e THEN [acc EXCEPT !.ev = @ \cup {j}] ELSE acc)
            [] l.k = "else" ->
                 Walk(j + 1, Append(pop, [on |-> top.live /\ ~top.had, had |-> TRUE, live |-> top.live]), acc)
            [] l.k = "endif" -> Walk(j + 1, pop, acc)
            [] l.k = "text" -> Walk(j + 1, fr, IF on THEN [acc EXCEPT !.kept = @ \cup {j}] ELSE acc)
            [] OTHER -> Walk(j + 1, fr, acc)
EvalIffC ==
  fin => LET w == Walk(1, <<>>, [ev |-> {}, kept |-> {}])
         IN /\ w.ev = {evald[i].n : i \in 1..Len(evald)}
            /\ w.kept = {out[i].n : i \in 1..Len(out)}
            /\ Len(evald) = Cardinality(w.ev)

\* ---------------------------------------------------------------- generation
View == <<stack, macros, lits, fin, Len(lines)>>
OutRec == [lines |-> lines, out |-> out, ev |-> evald]
Emit == ~fin \/ (PrintT(<<"B", ToJson(OutRec)>>) /\ FALSE)
=============================================================================
