------------------------------ MODULE OklRules ------------------------------
(* C22 / C16 -- the structural rules of OKL kernels, as a constant-level module.

   A kernel is abstracted to its STRUCTURE: a return type and a forest of statements,
   encoded as the preorder sequence `ns` of node records [k, d, h]:
     k  node kind        containers: "fo" for @outer, "fi" for @inner, "fp" plain for,
                                     "wh" while, "if", "el" else, "bl" bare block
                         leaves:     "st" neutral statement, "br" break, "co" continue,
                                     "sh"  @shared array with constant size
                                     "sh2" @shared 2-d array with constant sizes
                                     "shs" @shared scalar            (breaks NonArrayShared)
                                     "shn" @shared array of size N   (breaks NonConstShared)
                                     "ex"  @exclusive scalar, "exa" @exclusive array
                                     "us"  statement that uses the nearest enclosing-scope
                                           @shared/@exclusive variable (only inside @inner)
     d  depth >= 1 (children of the kernel body have depth 1)
                         @tile loops (containers): "toi" "too" "tii" "tio" "to" "ti" "tp", see Tiles
     h  loop-header variant for "fo"/"fi" (GoodHdrs \cup BadHdrs), "lt" for @tile loops,
        "-" otherwise
   The rules are evaluated on Expand(ns), where every @tile node is replaced by the two nested
   loops it stands for.

   One predicate per rule of the property statement (C22); Broken(ns, ret) is the set of the
   names of the rules a kernel breaks and Valid == Broken = {}.  The rules are written from
   the OKL rules as the property states them, not transcribed from okl.cpp.

   Tokens(ns, ret) is the concrete OKL text of a structure as a sequence of token spellings
   (the renderer is part of the specification, so that C16's mutation operators can be
   defined over token positions in the spec as well).                                      *)
EXTENDS Naturals, Sequences, FiniteSets, TLC, SequencesExt

\* @tile loops: one for statement that the translators split into a block loop and an element
\* loop; the two attribute arguments say what each of them is (missing = plain loop)
Tiles      == {"toi",   \* @tile(4, @outer, @inner)
               "too",   \* @tile(4, @outer, @outer)
               "tii",   \* @tile(4, @inner, @inner)
               "tio",   \* @tile(4, @inner, @outer)   (an @outer inside an @inner)
               "to",    \* @tile(4, @outer)
               "ti",    \* @tile(4, @inner)
               "tp"}    \* @tile(4)
Containers == {"fo", "fi", "fp", "wh", "if", "el", "bl"} \cup Tiles
Loops      == {"fo", "fi", "fp", "wh"} \cup Tiles
Okl        == {"fo", "fi"}
SharedDecl == {"sh", "sh2", "shs", "shn"}
ExclDecl   == {"ex", "exa"}
Decls      == SharedDecl \cup ExclDecl
Skips      == {"br", "co"}
Leaves     == {"st", "us"} \cup Skips \cup Decls
AllKinds   == Containers \cup Leaves

\* loop headers: the intended form is
\*    for (<int type> v = <init>; v <cmp> <bound> | <bound> <cmp> v; ++v | --v | v++ | v-- | v += s | v -= s)
GoodHdrs == {"lt", "ltc", "le", "gt", "ge", "post", "add", "sub", "rev"}
BadHdrs  == {"noinit",   \* for (v = 0; ...)            init is not a declaration
             "nodecl",   \* for ( ; v < 4; ++v)         empty init
             "float",    \* for (float v = 0; ...)      iterator is not an integer
             "two",      \* for (int v = 0, w = 0; ...) two iterators
             "noval",    \* for (int v; ...)            iterator not initialised
             "nocheck",  \* for (int v = 0; ; ++v)      no comparison
             "ne",       \* v != 4                      comparison is not < <= > >=
             "cmpexpr",  \* v + 4                       not a comparison
             "cmpother", \* w < 4                       comparison does not involve the iterator
             "noupd",    \* for (int v = 0; v < 4; )    no update
             "mul",      \* v *= 2                      update is not ++ -- += -=
             "updother"} \* ++w                         update of something else
Hdrs == GoodHdrs \cup BadHdrs

MaxOf(S) == CHOOSE x \in S : \A y \in S : y <= x
MinOf(S) == CHOOSE x \in S : \A y \in S : x <= y

-----------------------------------------------------------------------------
(* Tree structure of a preorder sequence with depths *)
IsAnc(ns, j, i) == j < i /\ \A m \in (j + 1)..i : ns[m].d > ns[j].d
Anc(ns, i)  == {j \in 1..(i - 1) : IsAnc(ns, j, i)}
Desc(ns, j) == {i \in (j + 1)..Len(ns) : IsAnc(ns, j, i)}
AncSelf(ns, i) == Anc(ns, i) \cup {i}
Parent(ns, i) == IF Anc(ns, i) = {} THEN 0 ELSE MaxOf(Anc(ns, i))
\* the sibling immediately before position Len(ns)+1 at depth d (0 if there is none)
PrevSiblingAtEnd(ns, d) ==
  LET c == {j \in 1..Len(ns) : ns[j].d = d /\ \A m \in (j + 1)..Len(ns) : ns[m].d > d}
  IN IF c = {} THEN 0 ELSE MaxOf(c)
PrevSibling(ns, i) == PrevSiblingAtEnd(SubSeq(ns, 1, i - 1), ns[i].d)

WellFormed(ns) ==
  /\ \A i \in 1..Len(ns) :
       /\ ns[i].k \in AllKinds /\ ns[i].d >= 1
       /\ ns[i].h \in (IF ns[i].k \in Okl THEN Hdrs ELSE IF ns[i].k \in Tiles THEN {"lt"} ELSE {"-"})
       /\ i = 1 => ns[i].d = 1
       /\ i > 1 => /\ ns[i].d <= ns[i - 1].d + 1
                   /\ ns[i].d = ns[i - 1].d + 1 => ns[i - 1].k \in Containers
       \* else only directly after an if
       /\ ns[i].k = "el" => (PrevSibling(ns, i) # 0 /\ ns[PrevSibling(ns, i)].k = "if")
       \* break/continue only where C allows them (inside some loop); whether that loop is an
       \* OKL loop is the rule below
       /\ ns[i].k \in Skips => \E j \in Anc(ns, i) : ns[j].k \in Loops

-----------------------------------------------------------------------------
(* The rules.  Each operator is TRUE when the rule is BROKEN. *)
HasAnc(ns, i, kind) == \E j \in Anc(ns, i) : ns[j].k = kind
Idx(ns) == 1..Len(ns)

NoOuter(ns) == ~\E i \in Idx(ns) : ns[i].k = "fo"
\* no @inner loop at all, or an outer-most @outer nest (= one launched kernel) without one
NoInner(ns) ==
  \/ ~\E i \in Idx(ns) : ns[i].k = "fi"
  \/ \E o \in Idx(ns) : /\ ns[o].k = "fo"
                        /\ ~\E j \in Anc(ns, o) : ns[j].k \in Okl
                        /\ ~\E i \in Desc(ns, o) : ns[i].k = "fi"
InnerOutsideOuter(ns) == \E i \in Idx(ns) : ns[i].k = "fi" /\ ~HasAnc(ns, i, "fo")
OuterInsideInner(ns)  == \E i \in Idx(ns) : ns[i].k = "fo" /\ HasAnc(ns, i, "fi")

\* nesting across branches: inside one outer-most OKL loop every inner-most OKL loop is
\* reached through the same number of @outer and the same number of @inner loops
OklLeaf(ns, i) == ns[i].k \in Okl /\ ~\E j \in Desc(ns, i) : ns[j].k \in Okl
Top(ns, i) == MinOf({j \in AncSelf(ns, i) : ns[j].k \in Okl})
Count(ns, i, kind) == Cardinality({j \in AncSelf(ns, i) : ns[j].k = kind})
Sig(ns, i) == <<Count(ns, i, "fo"), Count(ns, i, "fi")>>
Mismatch(ns) ==
  \E a, b \in {i \in Idx(ns) : OklLeaf(ns, i)} :
     Top(ns, a) = Top(ns, b) /\ Sig(ns, a) # Sig(ns, b)

NonVoid(ret) == ret # "void"

\* break/continue whose target (nearest enclosing loop) is an OKL loop
EnclLoop(ns, i) == LET ls == {j \in Anc(ns, i) : ns[j].k \in Loops}
                   IN IF ls = {} THEN 0 ELSE MaxOf(ls)
SkipInOkl(ns) == \E i \in Idx(ns) : /\ ns[i].k \in Skips
                                    /\ EnclLoop(ns, i) # 0
                                    /\ ns[EnclLoop(ns, i)].k \in Okl

BadHeader(ns) == \E i \in Idx(ns) : ns[i].k \in Okl /\ ns[i].h \in BadHdrs

\* @shared / @exclusive are declared between the @outer and the @inner loops
RightPlace(ns, i) == HasAnc(ns, i, "fo") /\ ~HasAnc(ns, i, "fi")
WrongPlace(ns) == \E i \in Idx(ns) : ns[i].k \in Decls /\ ~RightPlace(ns, i)
NonArrayShared(ns) == \E i \in Idx(ns) : ns[i].k = "shs"
NonConstShared(ns) == \E i \in Idx(ns) : ns[i].k = "shn"

RuleNames == {"NoOuter", "NoInner", "InnerOutsideOuter", "OuterInsideInner", "Mismatch",
              "NonVoid", "SkipInOkl", "BadHeader", "WrongPlace", "NonArrayShared",
              "NonConstShared"}
Breaks(ns, ret, r) ==
  CASE r = "NoOuter" -> NoOuter(ns)
    [] r = "NoInner" -> NoInner(ns)
    [] r = "InnerOutsideOuter" -> InnerOutsideOuter(ns)
    [] r = "OuterInsideInner" -> OuterInsideInner(ns)
    [] r = "Mismatch" -> Mismatch(ns)
    [] r = "NonVoid" -> NonVoid(ret)
    [] r = "SkipInOkl" -> SkipInOkl(ns)
    [] r = "BadHeader" -> BadHeader(ns)
    [] r = "WrongPlace" -> WrongPlace(ns)
    [] r = "NonArrayShared" -> NonArrayShared(ns)
    [] r = "NonConstShared" -> NonConstShared(ns)
\* @tile nodes stand for two nested loops: the expansion replaces node i of a tile kind by
\* <<first loop at its depth, second loop one deeper>> and pushes everything below one level down
TileFirst(k)  == CASE k \in {"toi", "too", "to"} -> "fo" [] k \in {"tii", "tio", "ti"} -> "fi" [] OTHER -> "fp"
TileSecond(k) == CASE k \in {"too", "tio"} -> "fo" [] k \in {"toi", "tii"} -> "fi" [] OTHER -> "fp"
TileShift(ns, i) == Cardinality({j \in Anc(ns, i) : ns[j].k \in Tiles})
Expand(ns) ==
  FlattenSeq([i \in 1..Len(ns) |->
     LET sh == TileShift(ns, i) n == ns[i] IN
     IF n.k \in Tiles
     THEN <<[k |-> TileFirst(n.k),  d |-> n.d + sh,     h |-> IF TileFirst(n.k)  \in Okl THEN n.h ELSE "-"],
            [k |-> TileSecond(n.k), d |-> n.d + sh + 1, h |-> IF TileSecond(n.k) \in Okl THEN n.h ELSE "-"]>>
     ELSE <<[n EXCEPT !.d = n.d + sh]>>])
\* position in Expand(ns) of (the first loop of) node i
EPos(ns, i) == i + Cardinality({j \in 1..(i - 1) : ns[j].k \in Tiles})

Broken(ns, ret) == LET e == Expand(ns) IN {r \in RuleNames : Breaks(e, ret, r)}
Valid(ns, ret)  == Broken(ns, ret) = {}

\* For BOUNDING the enumeration only (never for the oracle): the three rules about the presence
\* of loops overlap by definition (a kernel without @outer has no @inner or has an @inner outside
\* an @outer), so they count as one group when a generator limits how many rules a structure
\* may break.
RuleGroup(r) == IF r \in {"NoOuter", "NoInner", "InnerOutsideOuter"} THEN "LoopPresence" ELSE r
Groups(rs) == {RuleGroup(r) : r \in rs}

\* rules that, once broken by a prefix of the preorder sequence, stay broken whatever is
\* appended (used only to prune the enumeration early; never as the oracle)
Monotone == {"InnerOutsideOuter", "OuterInsideInner", "NonVoid", "SkipInOkl", "BadHeader",
             "WrongPlace", "NonArrayShared", "NonConstShared"}

\* "us" statements must have something to use and be inside an @inner loop (a use outside
\* @inner is rejected by the translators but is not one of the rules of the statement, so
\* such structures are not generated)
VisibleDecl(ns, i) ==
  {j \in 1..(i - 1) : ns[j].k \in Decls /\ Parent(ns, j) \in (Anc(ns, i) \cup {0})}
UsesOK(ns) == LET e == Expand(ns) IN
              \A i \in Idx(ns) : ns[i].k = "us" =>
                 /\ HasAnc(e, EPos(ns, i), "fi")
                 /\ \E j \in VisibleDecl(ns, i) : Parent(ns, j) # 0 /\ RightPlace(e, EPos(ns, j))
\* Not generated, because the statement is silent on them:
\*  - more than three nested @outer or three nested @inner loops (OKL has three launch dimensions);
\*  - a @tile loop whose block loop is @outer below an @inner loop: the translators "float" such a
\*    block loop up through single-statement parents to the enclosing @outer (2-d tiling by nested
\*    @tile), so whether it ends up inside the @inner depends on that transformation.
DimsOK(ns) == LET e == Expand(ns) IN
              \A i \in Idx(e) : e[i].k \in Okl => (Count(e, i, "fo") <= 3 /\ Count(e, i, "fi") <= 3)
TileFloatFree(ns) == LET e == Expand(ns) IN
                     \A i \in Idx(ns) : ns[i].k \in {"toi", "too", "to"} => ~HasAnc(e, EPos(ns, i), "fi")
\* break/continue directly inside a @tile loop one of whose two loops is plain is not generated:
\* whether "directly in an OKL loop" refers to the written loop or to the loop it becomes is not
\* settled by the statement
TileSkipFree(ns) == \A i \in Idx(ns) : ns[i].k \in Skips =>
                      LET l == EnclLoop(ns, i) IN ~(l # 0 /\ ns[l].k \in {"to", "ti", "tp"})
Generated(ns) == UsesOK(ns) /\ TileSkipFree(ns) /\ DimsOK(ns) /\ TileFloatFree(ns)

-----------------------------------------------------------------------------
(* Rendering to OKL token spellings *)
Var(i)  == "v" \o ToString(i)
Decl(i) == "s" \o ToString(i)
Attr(k) == IF k = "fo" THEN "@outer" ELSE "@inner"

\* <init> ; <check> ; <update>  for iterator v and loop kind k; the bound of an @outer loop
\* is the run-time argument N except in variant "ltc", the bound of an @inner loop is constant
HdrTokens(h, v, k) ==
  LET B == IF k = "fo" /\ h # "ltc" THEN "N" ELSE "4" IN
  CASE h = "lt"   -> <<"int", v, "=", "0", ";", v, "<", B, ";", "++", v>>
    [] h = "ltc"  -> <<"int", v, "=", "0", ";", v, "<", "4", ";", "++", v>>
    [] h = "le"   -> <<"int", v, "=", "0", ";", v, "<=", B, ";", "++", v>>
    [] h = "gt"   -> <<"int", v, "=", B, ";", v, ">", "0", ";", "--", v>>
    [] h = "ge"   -> <<"int", v, "=", B, ";", v, ">=", "1", ";", v, "--">>
    [] h = "post" -> <<"int", v, "=", "0", ";", v, "<", B, ";", v, "++">>
    [] h = "add"  -> <<"int", v, "=", "0", ";", v, "<", B, ";", v, "+=", "2">>
    [] h = "sub"  -> <<"int", v, "=", B, ";", v, ">", "0", ";", v, "-=", "2">>
    [] h = "rev"  -> <<"int", v, "=", "0", ";", B, ">", v, ";", "++", v>>
    [] h = "noinit"   -> <<v, "=", "0", ";", v, "<", B, ";", "++", v>>
    [] h = "nodecl"   -> <<";", v, "<", B, ";", "++", v>>
    [] h = "float"    -> <<"float", v, "=", "0", ";", v, "<", B, ";", "++", v>>
    [] h = "two"      -> <<"int", v, "=", "0", ",", "w", "=", "0", ";", v, "<", B, ";", "++", v>>
    [] h = "noval"    -> <<"int", v, ";", v, "<", B, ";", "++", v>>
    [] h = "nocheck"  -> <<"int", v, "=", "0", ";", ";", "++", v>>
    [] h = "ne"       -> <<"int", v, "=", "0", ";", v, "!=", B, ";", "++", v>>
    [] h = "cmpexpr"  -> <<"int", v, "=", "0", ";", v, "+", B, ";", "++", v>>
    [] h = "cmpother" -> <<"int", v, "=", "0", ";", "w", "<", B, ";", "++", v>>
    [] h = "noupd"    -> <<"int", v, "=", "0", ";", v, "<", B, ";">>
    [] h = "mul"      -> <<"int", v, "=", "0", ";", v, "<", B, ";", v, "*=", "2">>
    [] h = "updother" -> <<"int", v, "=", "0", ";", v, "<", B, ";", "++", "w">>

\* what a "us" statement refers to: the latest visible declaration
UseTokens(ns, i) ==
  LET c == {j \in VisibleDecl(ns, i) : Parent(ns, j) # 0} IN
  IF c = {} THEN <<"a", "[", "0", "]", "=", "1", ";">>
  ELSE LET j == MaxOf(c) IN
       IF ns[j].k \in {"sh", "shn", "exa"} THEN <<Decl(j), "[", "0", "]", "=", "1", ";">>
       ELSE IF ns[j].k = "sh2" THEN <<Decl(j), "[", "0", "]", "[", "1", "]", "=", "1", ";">>
       ELSE <<Decl(j), "=", "1", ";">>

Open(ns, i) ==
  LET k == ns[i].k IN
  CASE k \in Okl -> <<"for", "(">> \o HdrTokens(ns[i].h, Var(i), k) \o <<";", Attr(k), ")", "{">>
    [] k = "fp"  -> <<"for", "(", "int", Var(i), "=", "0", ";", Var(i), "<", "2", ";", "++", Var(i), ")", "{">>
    [] k \in Tiles ->
         <<"for", "(", "int", Var(i), "=", "0", ";", Var(i), "<",
           (IF TileFirst(k) = "fo" THEN "N" ELSE "8"), ";", "++", Var(i), ";", "@tile", "(", "4">>
         \o (CASE k = "toi" -> <<",", "@outer", ",", "@inner">>
               [] k = "too" -> <<",", "@outer", ",", "@outer">>
               [] k = "tii" -> <<",", "@inner", ",", "@inner">>
               [] k = "tio" -> <<",", "@inner", ",", "@outer">>
               [] k = "to"  -> <<",", "@outer">>
               [] k = "ti"  -> <<",", "@inner">>
               [] k = "tp"  -> <<>>)
         \o <<")", ")", "{">>
    [] k = "wh"  -> <<"while", "(", "N", ">", "1", ")", "{">>
    [] k = "if"  -> <<"if", "(", "N", ">", "1", ")", "{">>
    [] k = "el"  -> <<"else", "{">>
    [] k = "bl"  -> <<"{">>
    [] k = "st"  -> <<"a", "[", "0", "]", "=", "1", ";">>
    [] k = "us"  -> UseTokens(ns, i)
    [] k = "br"  -> <<"break", ";">>
    [] k = "co"  -> <<"continue", ";">>
    [] k = "sh"  -> <<"@shared", "float", Decl(i), "[", "4", "]", ";">>
    [] k = "sh2" -> <<"@shared", "float", Decl(i), "[", "4", "]", "[", "2", "]", ";">>
    [] k = "shs" -> <<"@shared", "float", Decl(i), ";">>
    [] k = "shn" -> <<"@shared", "float", Decl(i), "[", "N", "]", ";">>
    [] k = "ex"  -> <<"@exclusive", "int", Decl(i), ";">>
    [] k = "exa" -> <<"@exclusive", "int", Decl(i), "[", "2", "]", ";">>

\* number of containers whose subtree ends with node i
Closers(ns, i) ==
  LET nd == IF i = Len(ns) THEN 0 ELSE ns[i + 1].d   \* depth of what follows (0 = end)
  IN Cardinality({j \in AncSelf(ns, i) : ns[j].k \in Containers /\ ns[j].d >= nd})
Braces(n) == [x \in 1..n |-> "}"]

BodyTokens(ns) == FlattenSeq([i \in 1..Len(ns) |-> Open(ns, i) \o Braces(Closers(ns, i))])
Tokens(ns, ret) ==
  <<"@kernel", ret, "k", "(", "const", "int", "N", ",", "float", "*", "a", ")", "{">>
  \o BodyTokens(ns) \o <<"}">>

RECURSIVE Join(_)
Join(toks) == IF Len(toks) = 0 THEN ""
              ELSE IF Len(toks) = 1 THEN toks[1]
              ELSE toks[1] \o " " \o Join(Tail(toks))

\* compact, readable name of a structure, e.g. "fo1.lt fi2.lt br3" (kind, depth, header)
RECURSIVE Shape(_)
Shape(ns) == IF Len(ns) = 0 THEN ""
             ELSE ns[1].k \o ToString(ns[1].d)
                  \o (IF ns[1].h = "-" THEN "" ELSE "." \o ns[1].h)
                  \o (IF Len(ns) = 1 THEN "" ELSE " " \o Shape(Tail(ns)))
=============================================================================
