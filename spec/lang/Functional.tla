----------------------------- MODULE Functional -----------------------------
(* C23 -- reference ("sequential std::") semantics of occa::array<T>, occa::range and
   occa::forLoop, as plain operators over short integer sequences.

   Part 1 is the DEFINITION the implementation is compared with (the oracle of the replay):
     a functional array is a finite sequence; map/every/some/findIndex/forEach/reduce/min/max/
     slice/concat/fill/dot/indexOf/... are what the sequential loop over that sequence computes;
     a range is the sequence produced by  for (v = start; step > 0 ? v < end : v > end; v += step);
     a forLoop runs its body once per element of the product of its iteration sequences.
   Part 2 transcribes the SCHEMES the implementation uses to compute them (closed form of
     range::length with C division, the tiled index space of the map kernels, the 128-block
     two-level reduction, the forLoop header of a range iteration) with the INTENDED meaning
     of @tile; TLC checks scheme = definition on small constants (module FunctionalMachine /
     MC_Functional), which is the design-level statement of C23.

   Indices are reported 0-based (as the C++ API does); sequences are 1-based TLA+ sequences.
   Only integers (and integer-valued floats, which behave as integers) are modelled.        *)
EXTENDS Integers, Sequences, FiniteSets, SequencesExt, Functions, Folds, Bitwise

Abs(x) == IF x < 0 THEN -x ELSE x
\* C++ integer division (truncation towards zero); TLA+ \div floors
CDiv(a, b) == LET q == Abs(a) \div Abs(b) IN IF (a < 0) # (b < 0) THEN -q ELSE q
B(b) == IF b THEN 1 ELSE 0
Min2(a, b) == IF a < b THEN a ELSE b
Max2(a, b) == IF a > b THEN a ELSE b
Low3(v) == v % 8          \* v & 7 in two's complement (TLA+ % is non-negative for a positive modulus)

-----------------------------------------------------------------------------
(* The lambda catalogue.  A lambda is a record [f |-> name, k |-> run-time scalar]; the
   replayer has exactly one C++ lambda per name and passes k through the occa::scope.
   v = element value, i = 0-based index, s = the whole array (the `values` pointer).      *)

\* predicates (every / some / findIndex)
Pred(fn, v, i, s) ==
  CASE fn.f = "PA1" -> v >= fn.k                 \* [](const int &v)
    [] fn.f = "PA2" -> (v - i) < fn.k            \* [](const int &v, const int i)
    [] fn.f = "PA3" -> s[i + 1] = fn.k           \* [](const int &v, const int i, const int *vs)
    [] fn.f = "RP1" -> v >= fn.k                 \* range: [](const int v)
    [] fn.f = "RP2" -> v = fn.k                  \* range: [](const int v)

\* element transformations (map / mapTo)
MapF(fn, v, i, s) ==
  CASE fn.f = "MA1" -> 2 * v + fn.k              \* (v)        -> int
    [] fn.f = "MA2" -> v * fn.k + i              \* (v, i)     -> int
    [] fn.f = "MA3" -> s[1] * fn.k + v - i       \* (v, i, vs) -> int
    [] fn.f = "MD2" -> v * fn.k + i              \* (v, i)     -> double (integer valued)
    [] fn.f = "RM1" -> 2 * v + fn.k              \* range (v)  -> int
    [] fn.f = "RMD" -> v * fn.k                  \* range (v)  -> double (integer valued)

\* forEach bodies: out[slot] += 100 + v * k ; slot = i for arrays, v - lo for ranges
EachF(fn, v) == 100 + v * fn.k

\* reduction step  acc' = fn(acc, v, i, s)  -- `r` is a reduction descriptor
\*   [rt |-> reductionType, f |-> lambda, k |-> scalar, t2 |-> accumulator type,
\*    hi |-> explicit localInit given?, init |-> that localInit (NoInit when absent)]
RedStep(r, acc, v, i, s) ==
  CASE r.f = "RS1"  -> acc + v                    \* sum       (acc, v)
    [] r.f = "RS2"  -> acc + v * r.k + i          \* sum       (acc, v, i)   custom
    [] r.f = "RS3"  -> acc + s[i + 1] * s[1]      \* sum       (acc, v, i, vs) custom
    [] r.f = "RM1"  -> acc * v                    \* multiply
    [] r.f = "RO1"  -> Low3(acc) | Low3(v)        \* bitOr     acc | (v & 7)
    [] r.f = "RA1"  -> Low3(acc) & Low3(v)        \* bitAnd    acc & (v & 7)
    [] r.f = "RX1"  -> Low3(acc) ^^ Low3(v)       \* bitXor    acc ^ (v & 7)
    [] r.f = "RBO"  -> B(acc # 0 \/ v >= r.k)     \* boolOr    acc || (v >= k)
    [] r.f = "RBA"  -> B(acc # 0 /\ v # 0)        \* boolAnd   acc && v
    [] r.f = "RMIN" -> Min2(acc, v)               \* min
    [] r.f = "RMAX" -> Max2(acc, v)               \* max
    [] r.f = "RMNC" -> Min2(acc, v * r.k + i)     \* min, custom, explicit localInit
    [] r.f = "RMXC" -> Max2(acc, v * r.k - i)     \* max, custom, explicit localInit

\* The identity the sequential fold starts from.  For bitAnd/boolAnd/min/max the library starts
\* every accumulator from the first element; the catalogue only contains lambdas for which
\* "identity" and "first element" give the same answer, so the definition does not depend on
\* that convention (and they need a first element: Len(s) > 0).
NoInit == -999999
RedInit(r, s) ==
  IF r.hi THEN r.init
  ELSE CASE r.rt = "sum" -> 0 [] r.rt = "multiply" -> 1
         [] r.rt = "bitOr" -> 0 [] r.rt = "bitXor" -> 0 [] r.rt = "boolOr" -> 0
         [] r.rt = "bitAnd" -> 7                 \* identity of & on the 3-bit domain of RA1
         [] r.rt = "boolAnd" -> 1
         [] r.rt \in {"min", "max"} -> s[1]
NeedsElement(r) == ~r.hi /\ r.rt \in {"bitAnd", "boolAnd", "min", "max"}

-----------------------------------------------------------------------------
(* Part 1: the definition *)

Map(fn, s)       == [j \in 1..Len(s) |-> MapF(fn, s[j], j - 1, s)]
MapTo(fn, s)     == Map(fn, s)                   \* same values, written to a given array
Every(fn, s)     == \A j \in 1..Len(s) : Pred(fn, s[j], j - 1, s)
Some(fn, s)      == \E j \in 1..Len(s) : Pred(fn, s[j], j - 1, s)
\* first matching index, -1 if none  (std::find_if)
FindIndex(fn, s) == LET M == {j \in 1..Len(s) : Pred(fn, s[j], j - 1, s)}
                    IN IF M = {} THEN -1 ELSE (CHOOSE j \in M : \A j2 \in M : j <= j2) - 1
ForEachOut(fn, s) == [j \in 1..Len(s) |-> EachF(fn, s[j])]
\* left fold with the 0-based index available to the lambda
Reduce(r, s)     == FoldLeftDomain(LAMBDA acc, j : RedStep(r, acc, s[j], j - 1, s), RedInit(r, s), s)
ArrMin(s)        == CHOOSE x \in ToSet(s) : \A y \in ToSet(s) : x <= y
ArrMax(s)        == CHOOSE x \in ToSet(s) : \A y \in ToSet(s) : x >= y
\* slice(offset, count): count = -1 means "to the end"
Slice(s, off, cnt) == IF cnt = -1 THEN SubSeq(s, off + 1, Len(s)) ELSE SubSeq(s, off + 1, off + cnt)
Concat(s, t)     == s \o t
Fill(s, v)       == [j \in 1..Len(s) |-> v]
Dot(s, t)        == FoldLeftDomain(LAMBDA acc, j : acc + s[j] * t[j], 0, s)
Sum(s)           == FoldLeft(LAMBDA acc, x : acc + x, 0, s)
IndexOf(s, x)    == LET M == {j \in 1..Len(s) : s[j] = x}
                    IN IF M = {} THEN -1 ELSE (CHOOSE j \in M : \A j2 \in M : j <= j2) - 1
LastIndexOf(s, x) == LET M == {j \in 1..Len(s) : s[j] = x}
                     IN IF M = {} THEN -1 ELSE (CHOOSE j \in M : \A j2 \in M : j >= j2) - 1
Includes(s, x)   == \E j \in 1..Len(s) : s[j] = x
Rev(s)           == Reverse(s)
Clamp(s, lo, hi) == [j \in 1..Len(s) |-> Max2(lo, Min2(hi, s[j]))]
ShiftLeft(s, o, e)  == [j \in 1..Len(s) |-> IF j + o <= Len(s) THEN s[j + o] ELSE e]
ShiftRight(s, o, e) == [j \in 1..Len(s) |-> IF j - o >= 1 THEN s[j - o] ELSE e]

\* occa::range(start, end, step): the values of the sequential loop.  `fuel` bounds the
\* recursion; every range used has fewer than Fuel elements.
Fuel == 64
RECURSIVE RangeFrom(_, _, _, _)
RangeFrom(v, end, step, fuel) ==
  IF fuel = 0 \/ step = 0 \/ (step > 0 /\ v >= end) \/ (step < 0 /\ v <= end) THEN <<>>
  ELSE <<v>> \o RangeFrom(v + step, end, step, fuel - 1)
RangeSeq(start, end, step) == RangeFrom(start, end, step, Fuel)
Length(start, end, step)   == Len(RangeSeq(start, end, step))
\* the three constructors: range(end), range(start, end), range(start, end, step) (step 0 -> 1)
RangeOf(ctor, a, b, c) ==
  CASE ctor = 1 -> [start |-> 0, end |-> b, step |-> IF b >= 0 THEN 1 ELSE -1]
    [] ctor = 2 -> [start |-> a, end |-> b, step |-> IF b >= a THEN 1 ELSE -1]
    [] ctor = 3 -> [start |-> a, end |-> b, step |-> IF c # 0 THEN c ELSE 1]

(* forLoop.  An iteration is
     [k |-> "dim",   n |-> N]                       outer(N)         == range(N)
     [k |-> "range", s |-> start, e |-> end, st |-> step]
     [k |-> "array", v |-> <<...>>]                 an occa::array<int> of indices
   optionally with t |-> tile size (outer loops built with forLoop::tile).
   The body runs once per element of the product of the iteration sequences, in any order:
   the observation is the bag of index tuples.                                            *)
IterSeq(it) == CASE it.k = "dim"   -> RangeSeq(0, it.n, IF it.n >= 0 THEN 1 ELSE -1)
                 [] it.k = "range" -> RangeSeq(it.s, it.e, it.st)
                 [] it.k = "array" -> it.v
RECURSIVE TupleSeq(_)
\* all index tuples, as a sequence (lexicographic in loop order); its bag is the specification
TupleSeq(its) ==
  IF its = <<>> THEN << <<>> >>
  ELSE LET rest == TupleSeq(Tail(its))
           hd   == IterSeq(Head(its))
       IN FlattenSeq([a \in 1..Len(hd) |-> [b \in 1..Len(rest) |-> <<hd[a]>> \o rest[b]]])
ForLoopTuples(its) == ToSet(TupleSeq(its))
\* count of runs per tuple (an index array may repeat a value)
ForLoopCount(its, t) == Cardinality({j \in 1..Len(TupleSeq(its)) : TupleSeq(its)[j] = t})
\* the observation: the sorted list of <<tuple, count>> is produced by the check from this
ForLoopBag(its) == LET ts == TupleSeq(its) IN
                   {<<t, Cardinality({j \in 1..Len(ts) : ts[j] = t})>> : t \in ToSet(ts)}

-----------------------------------------------------------------------------
(* Part 2: the schemes of the implementation, with the intended meaning of their parts *)

\* range::length() closed form (range.cpp), C division
LengthImpl(start, end, step) ==
  IF (start < end /\ step <= 0) \/ (start > end /\ step >= 0) THEN 0
  ELSE IF step > 0 THEN CDiv(end - start + step - 1, step)
       ELSE CDiv(end - start + step + 1, step)
\* element INDEX -> value, as the range kernels compute it
RangeValueImpl(start, step, idx) == start + step * idx

\* typelessArray::getMapArrayScope: the clamped tile parameters
SafeTileSize(len, ts)      == Max2(1, Min2(Max2(1, ts), len))        \* with the length-0 repair
SafeTileIters(len, ts, ti) == LET sts == SafeTileSize(len, ts)
                              IN Min2(Max2(1, ti), CDiv(len + sts - 1, sts))
\* buildCpuMapTiledForLoops:  for (tileIndex = 0; tileIndex < len; tileIndex += TI; @tile(TS*TI))
\*                              for (i = tileIndex; i < tileIndex + TI; ++i) if (i < len) body(i)
\* @tile(T) on a loop with step c is INTENDED to split its iterations into blocks of T
\* iterations: block starts 0, T*c, 2*T*c ...; inside a block tileIndex = b, b+c, ... (T values);
\* check=false: no guard against `tileIndex < len` inside the block.
\* The result is the sequence of element indices the body is applied to.
TiledVisits(len, ts, ti) ==
  LET TS == SafeTileSize(len, ts)
      TI == SafeTileIters(len, ts, ti)
      T  == TS * TI                                   \* tile size in iterations of the tiled loop
      blockStep == T * TI
      nBlocks == IF len = 0 THEN 0 ELSE CDiv(len + blockStep - 1, blockStep)
      visit(b, u, w) == b * blockStep + u * TI + w    \* block b, iteration u of the block, i-loop w
  IN SelectSeq(
       FlattenSeq([b \in 1..nBlocks |->
         FlattenSeq([u \in 1..T |-> [w \in 1..TI |-> visit(b - 1, u - 1, w - 1)]])]),
       LAMBDA i : i < len)
\* ... and with @tile as tile.cpp transcribes it today (the in-block bound ignores the step):
\* a block covers  tileIndex in [b, b + T)  stepping by TI
TiledVisitsAsCoded(len, ts, ti) ==
  LET TS == SafeTileSize(len, ts)
      TI == SafeTileIters(len, ts, ti)
      T  == TS * TI
      blockStep == T * TI
      nBlocks == IF len = 0 THEN 0 ELSE CDiv(len + blockStep - 1, blockStep)
      perBlock == CDiv(T + TI - 1, TI)
  IN SelectSeq(
       FlattenSeq([b \in 1..nBlocks |->
         FlattenSeq([u \in 1..perBlock |-> [w \in 1..TI |-> (b - 1) * blockStep + (u - 1) * TI + (w - 1)]])]),
       LAMBDA i : i < len)
ExactlyOnce(visits, len) == /\ Len(visits) = len
                            /\ ToSet(visits) = 0..(len - 1)

\* typelessCpuReduce + finishReturnMemoryReduction: NB blocks (128 in the code) of
\* ceil(len / NB) consecutive elements, each folded from the initial value; the NB partial
\* results are folded on the host with the built-in operator of the reduction type, starting
\* from the first partial result.
LocalOp(rt, a, b) ==
  CASE rt = "sum" -> a + b [] rt = "multiply" -> a * b
    [] rt = "bitOr" -> Low3(a) | Low3(b) [] rt = "bitAnd" -> Low3(a) & Low3(b)
    [] rt = "bitXor" -> Low3(a) ^^ Low3(b)
    [] rt = "boolOr" -> B(a # 0 \/ b # 0) [] rt = "boolAnd" -> B(a # 0 /\ b # 0)
    [] rt = "min" -> Min2(a, b) [] rt = "max" -> Max2(a, b)
BlockReduce(r, s, NB) ==
  LET len == Len(s)
      bs  == CDiv(len + NB - 1, NB)
      lo(b) == (b - 1) * bs                 \* 0-based start of block b
      hi(b) == Min2(len, lo(b) + bs)        \* 0-based end (exclusive)
      RECURSIVE local(_, _, _)
      local(acc, i, e) == IF i >= e THEN acc ELSE local(RedStep(r, acc, s[i + 1], i, s), i + 1, e)
      part == [b \in 1..NB |-> local(RedInit(r, s), lo(b), hi(b))]
  IN FoldLeft(LAMBDA a, x : LocalOp(r.rt, a, x), part[1], Tail(part))

\* iteration::buildRangeForLoop: `for (i = start; i < end; i += step)` for step > 0 and
\* `for (i = start; i > end; i -= |step|)` for step < 0 (with the repair; the code subtracted
\* the negative step itself)
LoopHeaderVisits(start, end, step) ==
  LET RECURSIVE up(_, _), down(_, _)
      up(v, f)   == IF f = 0 \/ ~(v < end) THEN <<>> ELSE <<v>> \o up(v + step, f - 1)
      down(v, f) == IF f = 0 \/ ~(v > end) THEN <<>> ELSE <<v>> \o down(v - Abs(step), f - 1)
  IN IF step > 0 THEN up(start, Fuel) ELSE down(start, Fuel)
=============================================================================
