------------------------------ MODULE OklLoops ------------------------------
(* C17 -- OKL @outer/@inner loop headers: the sequential loop as reference semantics, and the
   launch-size / index-mapping scheme of the launcher backends.

   A loop header is
       for (T it = INIT;  it CMP BOUND | BOUND CMP it;  ++it | it++ | --it | it-- | it += S | it -= S)
   INIT, BOUND and S are *operands*: expressions of some operator class over run-time kernel
   arguments (p, q) or a literal.  A kernel shape fixes everything except the argument values.

   Reference semantics ("the original sequential loop"): the machine Test/Body below, and the
   same thing as the recursive operator SeqIters.  Serial and OpenMP keep the loop; the five
   launcher backends (CUDA, HIP, OpenCL, Metal, DPC++) replace it by
       dims  = Count(h)            -- oklForStatement::getIterationCount
       it    = IterOf(h, index)    -- oklForStatement::makeDeclarationValue, index in 0..dims-1
   The property: every backend executes the body for exactly the values of SeqIters(h), each once
   (for every header whose sequential loop terminates without overflow).                     *)
EXTENDS OklHeaders      \* operands, headers, SeqIters, Count/IterOf, Runs

CONSTANTS Kernels      \* set of kernel shapes explored (defined in MC_OklLoops)

VARIABLES k,           \* the kernel shape
          a,           \* the run-time argument values
          pc,          \* "test" | "body" | "done"
          it,          \* the iterator
          visits       \* history: iterator values for which the body was executed, in order

vars == <<k, a, pc, it, visits>>

-----------------------------------------------------------------------------
(* The machine: pick a kernel shape and argument values, then run the sequential loop. *)
H == Hdr(k, a)

Init == /\ k \in Kernels
        /\ a \in Runs(k)
        /\ pc = "test"
        /\ it = Hdr(k, a).init
        /\ visits = <<>>

Test == /\ pc = "test"
        /\ pc' = IF Holds(H, it) THEN "body" ELSE "done"
        /\ UNCHANGED <<k, a, it, visits>>

Body == /\ pc = "body"
        /\ visits' = Append(visits, it)
        /\ it' = Advance(H, it)
        /\ pc' = "test"
        /\ UNCHANGED <<k, a>>

Next == Test \/ Body
Spec == Init /\ [][Next]_vars

-----------------------------------------------------------------------------
TypeOK == /\ k \in Kernels /\ pc \in {"test", "body", "done"}
          /\ it \in Int /\ visits \in Seq(Int)
FuelOK == Len(visits) <= Fuel

\* the machine and the operator are the same loop
MachineIsSeqIters == pc = "done" => visits = SeqIters(H)
\* a terminating loop with a non-zero step never repeats a value
SeqNoRepeat == pc = "done" => NoRepeat(visits)
\* THE SCHEME: for aligned headers the launch model visits exactly the sequential values
SchemeCovers == (pc = "done" /\ Aligned(H)) => SameVisits(LaunchVisits(H), visits)
\* and the count is the number of iterations, or non-positive exactly when the loop is empty
SchemeCount == (pc = "done" /\ Aligned(H)) =>
                 IF visits = <<>> THEN Count(H) <= 0 ELSE Count(H) = Len(visits)
\* a terminating header whose comparison opposes its update runs zero times (either the first
\* test fails or the loop runs away); the transcribed Count does not know that: see ContraryGap
ContraryIsEmpty == (pc = "done" /\ ~Aligned(H)) => visits = <<>>
ContraryGap == (pc = "done" /\ ~Aligned(H) /\ Count(H) > 0)   \* reachable: documents the deviation

\* generation: one record per finished run
Case == [k |-> k, a |-> a, h |-> H, exp |-> visits, aligned |-> Aligned(H),
         cnt |-> Count(H)]
Emit == pc = "done" => PrintT(<<"B", ToJson(Case)>>)
=============================================================================
