------------------------------ MODULE OklMutate ------------------------------
(* C16 -- the near-valid neighbourhood of valid OKL kernels, as a specification.

   A base kernel is either a VALID structure built node by node (OklRules) and rendered to
   its token sequence, or one of the hand-written seed kernels of the MC module (token
   sequences that exercise attributes with arguments: @tile, @dim, @dimOrder, @barrier,
   @atomic, @restrict, @max_inner_dims, macros, functions, structs).  A mutation (chosen by the
   actions PickOp, PickPos, PickArg) applies one operator at one token position:

       del    delete token p                         dup    duplicate token p
       swap   exchange tokens p and p+1              glue   spell tokens p and p+1 as one word
       rep    replace token p by spelling q, for every q in Puncts (punctuators) and, when
              Words is not empty, every q in Words (keywords / attributes / identifiers)
       trunc  cut the text before token p            unb    insert bracket b before token p

   The prediction for every mutant and every translator is only
        terminates /\ (succeeds \/ reports errors \/ throws occa::exception)
   -- no crash, no hang, no sanitizer report; it is checked by the replayer under ASan/UBSan
   with a watchdog.  The unmutated base kernels are emitted too (op "none") and must be
   accepted by all translators, which shows that the neighbourhood is centred on valid
   kernels.                                                                               *)
EXTENDS OklRules, Json

CONSTANTS MaxNodes, MaxDepth, Kinds, GoodH,   \* valid base structures (as in OklGen)
          MaxDecor, DefaultHdr,
          Seeds,        \* sequence of token sequences (hand-written valid kernels)
          SeedIdx,      \* indices of Seeds in use
          Puncts,       \* replacement spellings: punctuators
          Words,        \* replacement spellings: words (may be empty)
          Brackets,     \* brackets inserted by "unb"
          Ops           \* mutation operators in use

VARIABLES ns, base, toks, phase, mut
vars == <<ns, base, toks, phase, mut>>

IsDecor(n) == n.k \in Leaves \/ (n.k \in Okl /\ n.h # DefaultHdr)
Decor(s) == Cardinality({i \in 1..Len(s) : IsDecor(s[i])})
NoMut == [op |-> "none", pos |-> 0, arg |-> ""]

Init == /\ ns = <<>> /\ base = "" /\ toks = <<>> /\ mut = NoMut
        /\ phase = "build"

CanAppend(k, d) ==
  /\ IF ns = <<>> THEN d = 1
     ELSE LET l == ns[Len(ns)] IN d <= l.d + 1 /\ (d = l.d + 1 => l.k \in Containers)
  /\ k = "el" => LET p == PrevSiblingAtEnd(ns, d) IN p # 0 /\ ns[p].k = "if"
  /\ k \in Skips => \E j \in 1..Len(ns) : ns[j].k \in Loops /\ ns[j].d < d
                                         /\ \A m \in (j + 1)..Len(ns) : ns[m].d > ns[j].d

AddNode(k, d, h) ==
  /\ phase = "build" /\ base = ""
  /\ Len(ns) < MaxNodes
  /\ CanAppend(k, d)
  /\ LET s == Append(ns, [k |-> k, d |-> d, h |-> h]) IN
       /\ Decor(s) <= MaxDecor
       /\ Broken(s, "void") \cap Monotone = {}       \* can still become valid
       /\ ns' = s
  /\ UNCHANGED <<base, toks, phase, mut>>

\* a finished VALID structure becomes a base kernel
FinishValid ==
  /\ phase = "build" /\ ns # <<>>
  /\ Generated(ns) /\ Valid(ns, "void")
  /\ base' = Shape(ns)
  /\ toks' = Tokens(ns, "void")
  /\ phase' = "base"
  /\ UNCHANGED <<ns, mut>>

PickSeed(i) ==
  /\ phase = "build" /\ ns = <<>>
  /\ base' = "seed" \o ToString(i)
  /\ toks' = Seeds[i]
  /\ phase' = "base"
  /\ UNCHANGED <<ns, mut>>

-----------------------------------------------------------------------------
(* the mutation operators over a token sequence t *)
Del(t, p)     == SubSeq(t, 1, p - 1) \o SubSeq(t, p + 1, Len(t))
Dup(t, p)     == SubSeq(t, 1, p) \o SubSeq(t, p, Len(t))
Swap(t, p)    == [t EXCEPT ![p] = t[p + 1], ![p + 1] = t[p]]
Glue(t, p)    == SubSeq(t, 1, p - 1) \o <<t[p] \o t[p + 1]>> \o SubSeq(t, p + 2, Len(t))
Rep(t, p, q)  == [t EXCEPT ![p] = q]
Trunc(t, p)   == SubSeq(t, 1, p - 1)
Unb(t, p, b)  == SubSeq(t, 1, p - 1) \o <<b>> \o SubSeq(t, p, Len(t))

Apply(t, m) ==
  CASE m.op = "del"   -> Del(t, m.pos)
    [] m.op = "dup"   -> Dup(t, m.pos)
    [] m.op = "swap"  -> Swap(t, m.pos)
    [] m.op = "glue"  -> Glue(t, m.pos)
    [] m.op = "rep"   -> Rep(t, m.pos, m.arg)
    [] m.op = "trunc" -> Trunc(t, m.pos)
    [] m.op = "unb"   -> Unb(t, m.pos, m.arg)
    [] m.op = "none"  -> t

\* A mutation is chosen in three small steps (operator, position, argument) so that random
\* simulation draws the operator uniformly and never has to build the whole neighbourhood.
Positions(t, op) ==
  CASE op \in {"del", "dup", "trunc", "rep"} -> 1..Len(t)
    [] op = "swap" -> {p \in 1..(Len(t) - 1) : t[p] # t[p + 1]}
    [] op = "glue" -> 1..(Len(t) - 1)
    [] op = "unb"  -> 1..(Len(t) + 1)
Args(t, op, p) ==
  CASE op = "rep" -> {q \in Puncts \cup Words : q # t[p]}
    [] op = "unb" -> Brackets
    [] OTHER      -> {""}

PickOp(op) ==
  /\ phase = "base"
  /\ mut' = [op |-> op, pos |-> 0, arg |-> ""]
  /\ phase' = "op"
  /\ UNCHANGED <<ns, base, toks>>
PickPos(p) ==
  /\ phase = "op"
  /\ mut' = [mut EXCEPT !.pos = p]
  /\ phase' = "pos"
  /\ UNCHANGED <<ns, base, toks>>
PickArg(a) ==
  /\ phase = "pos"
  /\ mut' = [mut EXCEPT !.arg = a]
  /\ phase' = "mut"
  /\ UNCHANGED <<ns, base, toks>>

Next == \/ \E k \in Kinds, d \in 1..MaxDepth :
            \E h \in (IF k \in Okl THEN GoodH ELSE IF k \in Tiles THEN {"lt"} ELSE {"-"}) : AddNode(k, d, h)
        \/ FinishValid
        \/ \E i \in SeedIdx : PickSeed(i)
        \/ \E op \in Ops : PickOp(op)
        \/ phase = "op"  /\ \E p \in Positions(toks, mut.op) : PickPos(p)
        \/ phase = "pos" /\ \E a \in Args(toks, mut.op, mut.pos) : PickArg(a)

Spec == Init /\ [][Next]_vars

-----------------------------------------------------------------------------
TypeOK == /\ phase \in {"build", "base", "op", "pos", "mut"}
          /\ WellFormed(ns)
          /\ phase = "build" => (toks = <<>> /\ mut = NoMut)
          /\ phase = "base" => (toks # <<>> /\ mut = NoMut)
          /\ phase \in {"op", "pos", "mut"} => mut.op \in Ops
          /\ phase \in {"pos", "mut"} => mut.pos \in Positions(toks, mut.op)
          /\ phase = "mut" => mut.arg \in Args(toks, mut.op, mut.pos)

\* every operator changes the text, and by the intended amount
MutationSanity ==
  phase = "mut" =>
    LET t == toks  u == Apply(toks, mut) IN
    /\ u # t
    /\ mut.op \in {"del", "glue"} => Len(u) = Len(t) - 1
    /\ mut.op \in {"dup", "unb"}  => Len(u) = Len(t) + 1
    /\ mut.op \in {"swap", "rep"} => Len(u) = Len(t)
    /\ mut.op = "trunc" => (Len(u) = mut.pos - 1 /\ u = SubSeq(t, 1, Len(u)))

Record == [base |-> base, op |-> mut.op, pos |-> mut.pos, arg |-> mut.arg,
           len |-> Len(toks), src |-> Join(Apply(toks, mut))]

\* emit every base kernel (unmutated) and every mutant, once; cut behind mutants
Emit == \/ phase \in {"build", "op", "pos"}
        \/ phase = "base" /\ PrintT(<<"B", ToJson(Record)>>)
        \/ /\ phase = "mut"
           /\ PrintT(<<"B", ToJson(Record)>>)
           /\ FALSE
=============================================================================
