-------------------------------- MODULE Tile --------------------------------
(* C18 -- @tile(T, ...): a loop
       for (x = INIT; x CMP BOUND | BOUND CMP x; x ++/--/+=S/-=S)  BODY
   is rewritten (src/occa/internal/lang/builtins/attributes/tile.cpp) into
       for (xt = INIT; xt CMP BOUND; xt +=/-= T*S)                 -- block loop
         for (x = xt; x < | > xt +/- W; x ++/--/+=S/-=S)           -- inner loop, W = width of a block
           if (x CMP BOUND)                                        -- only when check=true (default)
             BODY
   The property: the body runs for exactly the values the original loop takes, each once, when
   check is true; with check=false whenever the original iteration count is a multiple of T.

   The reference is OklHeaders!SeqIters of the ORIGINAL header.  The tiling itself is modelled as the
   nested machine below (one action per loop part).  The width W of a block is T*S: a block holds T
   iterations of stride S.  The unrepaired code used W = T (TileWidthIgnoresStep), which loses
   iterations for every S > 1; StepAware selects which of the two the model runs.             *)
EXTENDS OklHeaders

CONSTANTS TileKernels,   \* set of tiled kernel shapes (MC_Tile)
          StepAware      \* TRUE: inner bound xt +/- T*S (intended); FALSE: xt +/- T (as first found in tile.cpp)

VARIABLES tk,        \* the tiled kernel shape: a loop shape (as in OklLoops) + [ts, chk, lay]
          ta,        \* run-time argument values
          tpc,       \* "btest" | "itest" | "guard" | "body" | "done"
          xt, x,     \* block iterator, iterator
          tvisits    \* history of executed bodies

tvars == <<tk, ta, tpc, xt, x, tvisits>>

\* tile size: a compile-time expression  [c |-> class, p |-> literal, q |-> literal]
TileSize(ts) == Ev([c |-> ts.c, v |-> ts.p], ts.p, ts.q)

TH == Hdr(tk, ta)              \* the ORIGINAL header
T  == TileSize(tk.ts)
W  == IF StepAware THEN T * TH.step ELSE T

\* block loop: same init, same test, stride T*S                      (tile::setupBlockForStatement)
BlockHolds(v) == Holds(TH, v)
BlockAdvance(v) == IF Up(TH.upd) THEN v + T * TH.step ELSE v - T * TH.step
\* inner loop: from xt while strictly inside the block               (tile::setupInnerForStatement)
\* <= and >= become < and >; the operand order of the original test is kept
InnerHolds(v) == IF Up(TH.upd) THEN v < xt + W ELSE v > xt - W
\* guard                                                             (tile::setupCheckStatement)
GuardHolds(v) == ~tk.chk \/ Holds(TH, v)

TileRuns(kk) == {aa \in Runs(kk) :
                   LET h == Hdr(kk, aa) IN
                     /\ Aligned(h)
                     /\ (kk.chk \/ Len(SeqIters(h)) % TileSize(kk.ts) = 0)}

TInit == /\ tk \in TileKernels
         /\ ta \in TileRuns(tk)
         /\ tpc = "btest"
         /\ xt = Hdr(tk, ta).init
         /\ x = Hdr(tk, ta).init
         /\ tvisits = <<>>

BlockTest == /\ tpc = "btest"
             /\ IF BlockHolds(xt) THEN tpc' = "itest" /\ x' = xt
                                  ELSE tpc' = "done" /\ x' = x
             /\ UNCHANGED <<tk, ta, xt, tvisits>>

InnerTest == /\ tpc = "itest"
             /\ IF InnerHolds(x) THEN tpc' = "guard" /\ xt' = xt
                                 ELSE tpc' = "btest" /\ xt' = BlockAdvance(xt)
             /\ UNCHANGED <<tk, ta, x, tvisits>>

Guard == /\ tpc = "guard"
         /\ tvisits' = IF GuardHolds(x) THEN Append(tvisits, x) ELSE tvisits
         /\ x' = Advance(TH, x)
         /\ tpc' = "itest"
         /\ UNCHANGED <<tk, ta, xt>>

TNext == BlockTest \/ InnerTest \/ Guard
TSpec == TInit /\ [][TNext]_tvars

-----------------------------------------------------------------------------
TTypeOK == /\ tk \in TileKernels /\ tpc \in {"btest", "itest", "guard", "done"}
           /\ tvisits \in Seq(Int)
TBounded == Len(tvisits) <= Fuel * 4
\* THE PROPERTY on the model: the tiled machine executes exactly the original iterations, in order
TileCovers == tpc = "done" => tvisits = SeqIters(TH)
\* weaker form used when the step-unaware width is modelled: nothing foreign, nothing twice
TileSound  == tpc = "done" => /\ NoRepeat(tvisits)
                              /\ SeqToSet(tvisits) \subseteq SeqToSet(SeqIters(TH))
\* the deviation that was found: with W = T the tiling is complete only for stride 1
WidthIgnoringStepLoses == (tpc = "done" /\ ~StepAware /\ TH.step = 1) => tvisits = SeqIters(TH)

TCase == [k |-> tk, a |-> ta, h |-> TH, t |-> T, exp |-> SeqIters(TH), tiled |-> tvisits]
TEmit == tpc = "done" => PrintT(<<"B", ToJson(TCase)>>)
=============================================================================
