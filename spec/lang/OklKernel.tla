----------------------------- MODULE OklKernel -----------------------------
(* C20 -- a small OKL kernel IR with (a) its SEQUENTIAL READING `SeqRun` (the meaning of the
   kernel: loops run one iteration after another, @shared arrays belong to one @outer
   iteration, @exclusive variables to one @inner index of one @outer iteration, @atomic
   updates are ordinary updates) and (b) the LAUNCH MODEL every GPU-style backend documents
   (`LaunchRun`: one kernel launch per outer nest, blocks x threads, ANY interleaving of the
   threads' statements, a barrier only where the translation scheme puts one).

   A kernel is built by a generator state machine (stage "build") whose guards are the rules
   that make the iterations independent *by construction*; the run machine (stage "run")
   then executes the built kernel under every interleaving and the invariant `LaunchIsSeq`
   states that the result is the sequential reading.  So TLC validates the generator and the
   barrier/shared/exclusive scheme; the same generator (stage "built" + Emit) produces the
   kernels, argument values and predicted outputs that are run against the real translators.

   IR.  kernel = [nests : Seq(nest)]
        nest   = [O, I        : extents (iteration counts) of the 1-2 @outer and 1-2 @inner loops,
                  OH, IH      : their headers [init, bound, cmp, left, upd, step]: `for (int v = init;
                                v cmp bound | bound cmp v; ++v | v++ | --v | v-- | v += step | v -= step)`.
                                The sequential loop visits Iters(h); the k-th visited value stands for
                                the normalised index k that the statements use (o, i); HeadOK demands
                                Len(Iters(h)) = extent, so SeqRun iterates exactly the header's values,
                  limit       : only linear iterations < limit do anything (@tile check guard),
                  hasSh,hasEx : `@shared int sh[IT]`, `@exclusive int ex` between the levels,
                  hasRow      : `int *row = acc + o % 2` between the levels (an alias of the argument acc),
                  base        : `const int base = E(o)` between the levels (or NoE),
                  omap        : the injective map (o,i) -> cell of `out` used by this nest,
                  style       : semantically neutral rendering choices (annotations),
                  phases      : Seq([stmts : Seq(stmt), nobar : BOOLEAN, wrap])]  one @inner nest each;
                                wrap = "none" | "block" (`{ for .. @inner }`) | "ifo" | "ifa": the @inner
                                nest sits in `if (U) { .. }` with U uniform over the @outer iteration
        stmt   = [op, e, cond, cell, n]:
                  out     out[Inj(o,i)]  = e          outadd  out[Inj(o,i)] += e
                  sh      sh[i] = e                    exset   ex  = e      exadd  ex += e
                  atomic  @atomic acc[cell] += e       let     const int tmp = e
                  atomsub @atomic acc[cell] -= e       atominc @atomic acc[cell]++   atomdec @atomic --acc[cell]
                  atomblk @atomic { acc[cell] += e; acc[(cell + 1) % 3] += e + 1; }  (one indivisible block)
                  atomset @atomic acc[cell] = acc[cell] + e;                         (a non-basic @atomic expression)
                  via (atomic statements only): how the updated cell of acc is named --
                    "direct" acc[c]             "ptr"  `int *p = acc + c;` inside the @inner body, `*p`
                    "ref"    `int &r = acc[c];` inside the @inner body, `r`
                    "row"    `int *row = acc + o % 2;` between the levels (nest.hasRow), `row[k]`
                  (an alias changes nothing in the meaning; several iterations DO hit the same cell)
                  cond # "none": `if (Cond(o,i)) S`;   n > 1: `for (t < n) S`
        expr   = [k, s, v, l, r] trees over constants, the scalar arguments a and b, the
                 linear iterators o and i, in[..] (never written), sh[..], ex, tmp, base,
                 + - * and the helper function hf.                                           *)
EXTENDS Integers, Sequences, FiniteSets, TLC, Json

CONSTANTS
  Classes,          \* set of coverage-class names the generator may pick
  Heads(_),         \* class -> set of nest heads (nest records with phases = <<>>)
  Menu(_),          \* class -> set of candidate statements (the rules below filter them)
  Plans(_),         \* class -> set of plans: <<  << stmts in phase 1, .. >> per nest  >>
  NoBarChoices(_),  \* class -> subset of BOOLEAN: may an @inner loop carry @nobarrier
  Wraps(_),         \* class -> set of wrappers an @inner nest may be put in
  ArgVecs,          \* sequence of argument records [a, b, in, out, acc]
  CheckArgs,        \* set of indices into ArgVecs the run machine is started with
  Mode,             \* "design": build, then run under all interleavings; "emit": build, print
  BarrierRule,      \* "scheme" (as the translators place them) | "never" (mutant)
  AtomicIndivisible,\* TRUE (as translated) | FALSE (mutant: load and store are two steps)
  RelaxRules        \* set of generator rules switched off (mutants of the GENERATOR), {} normally

NOUT == 12
NIN  == 12
NACC == 3
UNDEF == 1000003     \* content of storage nobody wrote yet; never read by a generated kernel

Prod(s) == IF Len(s) = 1 THEN s[1] ELSE s[1] * s[2]
OT(nest) == Prod(nest.O)
IT(nest) == Prod(nest.I)

-----------------------------------------------------------------------------
(* Loop headers: the values the sequential C loop visits *)
CmpHolds(c, x, y) == CASE c = "lt" -> x < y [] c = "le" -> x <= y [] c = "gt" -> x > y [] c = "ge" -> x >= y
HdrCond(h, v) == IF h.left THEN CmpHolds(h.cmp, v, h.bound) ELSE CmpHolds(h.cmp, h.bound, v)
HdrUp(h) == h.upd \in {"preinc", "postinc", "addeq"}
HdrNext(h, v) == IF HdrUp(h) THEN v + h.step ELSE v - h.step
RECURSIVE HdrIters(_, _, _)
HdrIters(h, v, fuel) == IF fuel = 0 \/ ~HdrCond(h, v) THEN <<>> ELSE <<v>> \o HdrIters(h, HdrNext(h, v), fuel - 1)
Iters(h) == HdrIters(h, h.init, 13)
\* the header is well formed and its loop runs exactly n times (and stops by its own condition)
HdrOK(h, n) ==
  /\ h.cmp \in {"lt", "le", "gt", "ge"} /\ h.left \in BOOLEAN
  /\ h.upd \in {"preinc", "postinc", "predec", "postdec", "addeq", "subeq"}
  /\ h.step \in 1..3 /\ (h.upd \notin {"addeq", "subeq"} => h.step = 1)
  /\ n <= 12 /\ Len(Iters(h)) = n
HdrsOK(hs, ext) == Len(hs) = Len(ext) /\ \A j \in 1..Len(ext) : HdrOK(hs[j], ext[j])
TrivialHdr(h, n) == h = [init |-> 0, bound |-> n, cmp |-> "lt", left |-> TRUE, upd |-> "preinc", step |-> 1]

-----------------------------------------------------------------------------
(* Expressions *)
NoE == [k |-> "none"]     \* "no expression" (a nest without `base`, the children of a leaf)
Leaf(k, s, v) == [k |-> k, s |-> s, v |-> v, l |-> NoE, r |-> NoE]
Bin(op, x, y) == [k |-> "bin", s |-> op, v |-> 0, l |-> x, r |-> y]
Call(x, y)    == [k |-> "call", s |-> "hf", v |-> 0, l |-> x, r |-> y]
HF(x, y) == 2 * x - y + 1       \* the helper function of every rendered file

RECURSIVE Leaves(_)
Leaves(e) == IF e.k \in {"bin", "call"} THEN Leaves(e.l) \cup Leaves(e.r) ELSE {<<e.k, e.s>>}
Kinds(e) == {x[1] : x \in Leaves(e)}

Lin(env)  == env.o * env.IT + env.i
InIdx(s, v, env) ==
  CASE s = "lin" -> Lin(env)
    [] s = "i"   -> env.i
    [] s = "o"   -> env.o
    [] s = "rot" -> (Lin(env) + 1) % (env.OT * env.IT)
    [] s = "k"   -> v
ShIdx(s, env) ==
  CASE s = "own"  -> env.i
    [] s = "rot"  -> (env.i + 1) % env.IT
    [] s = "rev"  -> env.IT - 1 - env.i
    [] s = "zero" -> 0

RECURSIVE Eval(_, _)
Eval(e, env) ==
  CASE e.k = "c"    -> e.v
    [] e.k = "arg"  -> IF e.s = "a" THEN env.arg.a ELSE env.arg.b
    [] e.k = "o"    -> env.o
    [] e.k = "i"    -> env.i
    [] e.k = "in"   -> env.arg.in[InIdx(e.s, e.v, env) + 1]
    [] e.k = "sh"   -> env.sh[ShIdx(e.s, env) + 1]
    [] e.k = "ex"   -> env.ex
    [] e.k = "tmp"  -> env.tmp
    [] e.k = "base" -> env.base
    [] e.k = "bin"  -> LET x == Eval(e.l, env)
                           y == Eval(e.r, env)
                       IN (CASE e.s = "+" -> x + y [] e.s = "-" -> x - y [] e.s = "*" -> x * y)
    [] e.k = "call" -> HF(Eval(e.l, env), Eval(e.r, env))

\* every location the expression reads holds a value and lies inside its array
RECURSIVE ReadsFine(_, _)
ReadsFine(e, env) ==
  CASE e.k = "in"   -> InIdx(e.s, e.v, env) \in 0..(NIN - 1)
    [] e.k = "sh"   -> /\ ShIdx(e.s, env) \in 0..(env.IT - 1)
                       /\ env.sh[ShIdx(e.s, env) + 1] # UNDEF
    [] e.k = "ex"   -> env.ex # UNDEF
    [] e.k = "tmp"  -> env.tmp # UNDEF
    [] e.k = "base" -> env.base # UNDEF
    [] e.k \in {"bin", "call"} -> ReadsFine(e.l, env) /\ ReadsFine(e.r, env)
    [] OTHER -> TRUE

Cond(c, env) ==
  CASE c = "none"  -> TRUE
    [] c = "ieven" -> env.i % 2 = 0
    [] c = "ilow"  -> env.i < 1
    [] c = "olast" -> env.o = env.OT - 1
    [] c = "sum"   -> (env.o + env.i) % 2 = 1
    [] c = "inpos" -> env.arg.in[Lin(env) + 1] > 2

\* the cell of `out` that iteration (o,i) of the nest owns: a bijection onto 0..OT*IT-1
Inj(omap, env) ==
  CASE omap = "row" -> Lin(env)
    [] omap = "rev" -> env.OT * env.IT - 1 - Lin(env)
    [] omap = "col" -> env.i * env.OT + env.o
AccCell(s, env) ==
  IF s.via = "row"
    THEN (env.o % 2) + (CASE s.cell = "c0" -> 0 [] s.cell = "i" -> env.i % 2 [] s.cell = "o" -> 1)
    ELSE CASE s.cell = "c0" -> 0
           [] s.cell = "o"  -> env.o % NACC
           [] s.cell = "i"  -> env.i % NACC

-----------------------------------------------------------------------------
(* One statement, executed by iteration (o,i) on
     S = [out, acc : global arrays, sh : the @shared array of this @outer iteration,
          ex : the @exclusive values of this @outer iteration (one per inner index),
          tmp : the local of this inner iteration, bad : an undefined/out-of-array access]    *)
BaseOf(nest, arg, o) ==
  IF nest.base = NoE THEN UNDEF
  ELSE Eval(nest.base, [o |-> o, i |-> 0, OT |-> OT(nest), IT |-> IT(nest), arg |-> arg,
                        sh |-> <<>>, ex |-> UNDEF, tmp |-> UNDEF, base |-> UNDEF])

Env(nest, arg, o, i, S) ==
  [o |-> o, i |-> i, OT |-> OT(nest), IT |-> IT(nest), arg |-> arg,
   sh |-> S.sh, ex |-> S.ex[i + 1], tmp |-> S.tmp, base |-> BaseOf(nest, arg, o)]

Active(nest, o, i) == o * IT(nest) + i < nest.limit
\* is the @inner nest of phase ph executed in @outer iteration o (uniform over the inner iterations)
PhaseOn(ph, arg, o) ==
  CASE ph.wrap \in {"none", "block"} -> TRUE
    [] ph.wrap = "ifo" -> o % 2 = 0
    [] ph.wrap = "ifa" -> arg.a > 0
\* atomblk: `@atomic { acc[c] += e; acc[(c + 1) % NACC] += e + 1; }` -- one indivisible block of two updates;
\* atomset: `@atomic acc[c] = acc[c] + e;` -- a non-basic @atomic expression (a critical region in OpenMP)
AtomicOps == {"atomic", "atomsub", "atominc", "atomdec", "atomblk", "atomset"}
AtomDelta(s, v) == CASE s.op \in {"atomic", "atomblk", "atomset"} -> v [] s.op = "atomsub" -> 0 - v [] s.op = "atominc" -> 1 [] s.op = "atomdec" -> 0 - 1

\* one application of the basic operation (condition and repetition are handled by the callers)
Apply(s, nest, arg, o, i, S) ==
  LET env == Env(nest, arg, o, i, S) IN
  IF ~ReadsFine(s.e, env) THEN [S EXCEPT !.bad = TRUE]
  ELSE
    LET v == Eval(s.e, env)
        c == Inj(nest.omap, env) + 1
        a == AccCell(s, env) + 1
    IN CASE s.op = "out"    -> IF c \in 1..NOUT THEN [S EXCEPT !.out[c] = v] ELSE [S EXCEPT !.bad = TRUE]
         [] s.op = "outadd" -> IF c \in 1..NOUT THEN [S EXCEPT !.out[c] = @ + v] ELSE [S EXCEPT !.bad = TRUE]
         [] s.op = "sh"     -> [S EXCEPT !.sh[i + 1] = v]
         [] s.op = "exset"  -> [S EXCEPT !.ex[i + 1] = v]
         [] s.op = "exadd"  -> IF S.ex[i + 1] = UNDEF THEN [S EXCEPT !.bad = TRUE]
                               ELSE [S EXCEPT !.ex[i + 1] = @ + v]
         [] s.op = "atomblk" -> LET a2 == (a % NACC) + 1 IN      \* both updates in one indivisible step
                                [S EXCEPT !.acc = [[@ EXCEPT ![a] = @ + v] EXCEPT ![a2] = @ + v + 1]]
         [] s.op \in AtomicOps -> [S EXCEPT !.acc[a] = @ + AtomDelta(s, v)]
         [] s.op = "let"    -> [S EXCEPT !.tmp = v]

RECURSIVE Repeat(_, _, _, _, _, _, _)
Repeat(k, s, nest, arg, o, i, S) ==
  IF k = 0 THEN S ELSE Repeat(k - 1, s, nest, arg, o, i, Apply(s, nest, arg, o, i, S))

Guard(s, ph, nest, arg, o, i, S) ==
  Active(nest, o, i) /\ PhaseOn(ph, arg, o) /\ Cond(s.cond, Env(nest, arg, o, i, S))

ExecStmt(s, ph, nest, arg, o, i, S) ==
  IF Guard(s, ph, nest, arg, o, i, S) THEN Repeat(s.n, s, nest, arg, o, i, S) ELSE S

-----------------------------------------------------------------------------
(* SeqRun: the sequential reading.  Nests in order; @outer iterations in order, each with a
   fresh @shared array and fresh @exclusive values; phases (= @inner nests) in order; @inner
   iterations in order, each with a fresh local; statements in order.                      *)
Fresh(n) == [j \in 1..n |-> UNDEF]

RECURSIVE SeqStmts(_, _, _, _, _, _, _)
SeqStmts(ph, k, nest, arg, o, i, S) ==
  IF k > Len(ph.stmts) THEN S
  ELSE SeqStmts(ph, k + 1, nest, arg, o, i, ExecStmt(ph.stmts[k], ph, nest, arg, o, i, S))

RECURSIVE SeqInner(_, _, _, _, _, _)
SeqInner(ph, nest, arg, o, i, S) ==
  IF i = IT(nest) THEN S
  ELSE SeqInner(ph, nest, arg, o, i + 1,
                SeqStmts(ph, 1, nest, arg, o, i, [S EXCEPT !.tmp = UNDEF]))

RECURSIVE SeqPhases(_, _, _, _, _)
SeqPhases(p, nest, arg, o, S) ==
  IF p > Len(nest.phases) THEN S
  ELSE SeqPhases(p + 1, nest, arg, o, SeqInner(nest.phases[p], nest, arg, o, 0, S))

RECURSIVE SeqOuter(_, _, _, _)
SeqOuter(nest, arg, o, S) ==
  IF o = OT(nest) THEN S
  ELSE SeqOuter(nest, arg, o + 1,
                SeqPhases(1, nest, arg, o, [S EXCEPT !.sh = Fresh(IT(nest)), !.ex = Fresh(IT(nest))]))

RECURSIVE SeqNests(_, _, _, _)
SeqNests(k, n, arg, S) ==
  IF n > Len(k.nests) THEN S ELSE SeqNests(k, n + 1, arg, SeqOuter(k.nests[n], arg, 0, S))

Start(arg) == [out |-> arg.out, acc |-> arg.acc, sh |-> <<>>, ex |-> <<>>, tmp |-> UNDEF, bad |-> FALSE]
SeqRun(k, arg) == LET S == SeqNests(k, 1, arg, Start(arg)) IN [out |-> S.out, acc |-> S.acc, ok |-> ~S.bad]

-----------------------------------------------------------------------------
(* The rules of the generator.  `nest` is the nest under construction, its last phase is
   the one being filled.  A phase "touches others" when it reads a cell of sh that another
   inner iteration writes.                                                                  *)
StmtsOf(ph) == {ph.stmts[j] : j \in 1..Len(ph.stmts)}
ShLeaves(s) == {x \in Leaves(s.e) : x[1] = "sh"}
RefsSh(ph)  == \E s \in StmtsOf(ph) : s.op = "sh" \/ ShLeaves(s) # {}
WritesSh(ph) == \E s \in StmtsOf(ph) : s.op = "sh"
ReadsOthers(ph) == \E s \in StmtsOf(ph) : \E x \in ShLeaves(s) : x[2] # "own"

\* where the translation scheme puts a barrier: after an @inner nest that mentions a @shared
\* variable, is followed by another @inner nest and is not marked @nobarrier.  The generator
\* counts on these barriers (SchemeBar); the run machine has them unless mutated (BarAfter).
SchemeBar(nest, b) ==
  /\ b < Len(nest.phases)
  /\ ~nest.phases[b].nobar
  /\ RefsSh(nest.phases[b])
BarAfter(nest, b) == BarrierRule = "scheme" /\ SchemeBar(nest, b)
\* a barrier that every inner iteration passes between phase q and phase r: the barrier behind a
\* conditionally executed @inner nest only counts for the accesses of that nest itself
Uncond(ph) == ph.wrap \in {"none", "block"}
BarBetween(nest, q, r) == \E b \in q..(r - 1) : SchemeBar(nest, b) /\ (Uncond(nest.phases[b]) \/ b = q)

Rule(name, ok) == name \in RelaxRules \/ ok

StmtShapeOK(s) ==
  /\ s.op \in {"out", "outadd", "sh", "exset", "exadd", "let"} \cup AtomicOps
  /\ s.cond # "none" => s.op \in {"out", "outadd", "exadd"} \cup AtomicOps
  /\ s.n >= 1
  /\ s.n > 1 => s.op \in {"outadd", "exadd"} \cup AtomicOps
  /\ s.via \in {"direct", "ptr", "ref", "row"}
  /\ s.via # "direct" => s.op \in AtomicOps \ {"atomblk", "atomset"}

\* may statement s be appended to the last phase of nest?
Allowed(s, nest) ==
  LET r    == Len(nest.phases)
      cur  == nest.phases[r]
      prev == UNION {StmtsOf(nest.phases[q]) : q \in 1..(r - 1)}
      \* statements every inner iteration has executed before s: unconditional earlier phases, and this phase
      sure == UNION {StmtsOf(nest.phases[q]) : q \in {x \in 1..(r - 1) : Uncond(nest.phases[x])}}
      here == StmtsOf(cur)
      ks   == Kinds(s.e)
      others == {x \in ShLeaves(s) : x[2] # "own"}
  IN
  /\ StmtShapeOK(s)
  /\ "base" \in ks => nest.base # NoE
  /\ ("sh" \in ks \/ s.op = "sh") => nest.hasSh
  /\ ("ex" \in ks \/ s.op \in {"exset", "exadd"}) => nest.hasEx
  /\ s.via = "row" => nest.hasRow
  /\ nest.style.tile => (ks \cap {"sh", "ex", "base"} = {} /\ s.op \notin {"sh", "exset", "exadd"})
  /\ <<"in", "rot">> \in Leaves(s.e) => OT(nest) > 0          \* (its index is taken modulo OT * IT)
  \* a local is read only after its declaration in the same @inner body
  /\ "tmp" \in ks => \E t \in here : t.op = "let"
  /\ s.op = "let" => ~\E t \in here : t.op = "let"
  \* ex is read / updated only after the same inner index assigned it unconditionally
  /\ Rule("ex-after-set", ("ex" \in ks \/ s.op = "exadd") => \E t \in sure \cup here : t.op = "exset")
  \* own cell of sh: the same inner index wrote it before
  /\ Rule("sh-own-after-set", <<"sh", "own">> \in Leaves(s.e) => \E t \in sure \cup here : t.op = "sh")
  \* other cells of sh: all of sh was written in an earlier phase, with a barrier in between,
  \* and nobody writes sh in this phase
  /\ Rule("sh-others-across-barrier",
          others # {} =>
            /\ \E q \in 1..(r - 1) : WritesSh(nest.phases[q]) /\ Uncond(nest.phases[q])
            /\ \A q \in 1..(r - 1) : WritesSh(nest.phases[q]) => BarBetween(nest, q, r)
            /\ ~WritesSh(cur))
  \* writing sh: no earlier phase may still be reading other cells, nobody reads others here
  /\ Rule("sh-write-after-readers",
          s.op = "sh" =>
            /\ \A q \in 1..(r - 1) : ReadsOthers(nest.phases[q]) => BarBetween(nest, q, r)
            /\ ~ReadsOthers(cur))

\* (IF, not \/: inside an action TLC evaluates both sides of a disjunction)
BaseOK(e) == IF e = NoE THEN TRUE
             ELSE \A x \in Leaves(e) : x[1] \in {"c", "arg", "o"} \/ (x[1] = "in" /\ x[2] \in {"o", "k"})

HeadOK(h) ==
  /\ Len(h.O) \in 1..2 /\ Len(h.I) \in 1..2
  /\ HdrsOK(h.OH, h.O) /\ HdrsOK(h.IH, h.I)
  /\ \A j \in 1..Len(h.I) : h.I[j] >= 1                       \* only an @outer loop may be empty
  /\ OT(h) * IT(h) <= NOUT /\ OT(h) * IT(h) <= NIN
  /\ h.limit \in (IF OT(h) = 0 THEN {0} ELSE 1..(OT(h) * IT(h)))
  /\ OT(h) = 0 => (~h.style.dim /\ ~h.style.tile)
  /\ h.omap \in {"row", "rev", "col"}
  /\ BaseOK(h.base)
  /\ h.phases = <<>>
  /\ h.limit < OT(h) * IT(h) => h.style.tile
  /\ h.style.tile => (Len(h.O) = 1 /\ Len(h.I) = 1 /\ ~h.hasSh /\ ~h.hasEx /\ ~h.hasRow /\ h.base = NoE
                       /\ TrivialHdr(h.OH[1], h.O[1]) /\ TrivialHdr(h.IH[1], h.I[1]))
  /\ h.style.dim => h.omap = "row"

-----------------------------------------------------------------------------
(* The machine.  stage "build": the generator; "built": a complete kernel (emitted in Mode
   "emit"); "run": LaunchRun on argument vector `av`; "done".                               *)
VARIABLES stage, cls, plan, kern,   \* generator
          av, nix,                  \* run: argument vector index, current nest (= kernel launch)
          mem,                      \* [out, acc, bad]
          shm, exv, tmpv,           \* per block: sh array; per block: ex per thread; per thread: local
          pc, reg                   \* per thread: [ph, st, sub]; register of a split atomic
vars == <<stage, cls, plan, kern, av, nix, mem, shm, exv, tmpv, pc, reg>>
runvars == <<av, nix, mem, shm, exv, tmpv, pc, reg>>
genvars == <<cls, plan, kern>>

NoRun == /\ av = 0 /\ nix = 0 /\ mem = <<>> /\ shm = <<>> /\ exv = <<>> /\ tmpv = <<>>
         /\ pc = <<>> /\ reg = <<>>

Init ==
  /\ stage = "build"
  /\ cls \in Classes
  /\ plan \in Plans(cls)
  /\ kern = [nests |-> <<>>]
  /\ NoRun

\* position of the generator inside the plan
CurNest  == Len(kern.nests)
NestPlan == plan[CurNest]
LastNest == kern.nests[CurNest]
CurPhase == Len(LastNest.phases)
PhaseFull == CurNest > 0 /\ CurPhase > 0 /\ Len(LastNest.phases[CurPhase].stmts) = NestPlan[CurPhase]
NestFull  == CurNest > 0 /\ CurPhase = Len(NestPlan) /\ PhaseFull

NewPhase(w) == [stmts |-> <<>>, nobar |-> FALSE, wrap |-> w]
BeginNest(h, w) ==
  /\ stage = "build"
  /\ CurNest = 0 \/ NestFull
  /\ CurNest < Len(plan)
  /\ HeadOK(h)
  /\ h.style.tile => (Len(plan[CurNest + 1]) = 1 /\ w = "none")
  /\ kern' = [nests |-> Append(kern.nests, [h EXCEPT !.phases = << NewPhase(w) >>])]
  /\ UNCHANGED <<stage, cls, plan, runvars>>

AddStmt(s) ==
  /\ stage = "build"
  /\ CurNest > 0 /\ CurPhase > 0 /\ ~PhaseFull
  /\ Allowed(s, LastNest)
  /\ kern' = [kern EXCEPT !.nests[CurNest].phases[CurPhase].stmts = Append(@, s)]
  /\ UNCHANGED <<stage, cls, plan, runvars>>

\* close the phase (choosing whether its @inner loop carries @nobarrier) and open the next
NextPhase(nb, w) ==
  /\ stage = "build"
  /\ PhaseFull /\ CurPhase < Len(NestPlan)
  /\ kern' = [kern EXCEPT !.nests[CurNest].phases =
                Append([@ EXCEPT ![CurPhase].nobar = nb], NewPhase(w))]
  /\ UNCHANGED <<stage, cls, plan, runvars>>

Finish ==
  /\ stage = "build"
  /\ NestFull /\ CurNest = Len(plan)
  /\ stage' = "built"
  /\ UNCHANGED <<genvars, runvars>>

-----------------------------------------------------------------------------
(* LaunchRun.  One launch per nest; inside a launch every (block o, thread i) is a process.  *)
Blocks(nest)  == 0..(OT(nest) - 1)
Threads(nest) == 0..(IT(nest) - 1)
RunNest == kern.nests[nix]

FreshLaunch(nest) ==
  /\ shm'  = [o \in Blocks(nest) |-> Fresh(IT(nest))]
  /\ exv'  = [o \in Blocks(nest) |-> Fresh(IT(nest))]
  /\ tmpv' = [o \in Blocks(nest) |-> Fresh(IT(nest))]
  /\ pc'   = [o \in Blocks(nest) |-> [i \in Threads(nest) |-> [ph |-> 1, st |-> 1, sub |-> 0]]]
  /\ reg'  = [o \in Blocks(nest) |-> [i \in Threads(nest) |-> 0]]

Launch(a) ==
  /\ stage = "built" /\ Mode = "design"
  /\ a \in CheckArgs
  /\ stage' = "run" /\ av' = a /\ nix' = 1
  /\ mem' = [out |-> ArgVecs[a].out, acc |-> ArgVecs[a].acc, bad |-> FALSE]
  /\ FreshLaunch(kern.nests[1])
  /\ UNCHANGED genvars

AtPhaseEnd(o, i) == pc[o][i].st > Len(RunNest.phases[pc[o][i].ph].stmts)
ThreadDone(o, i) == pc[o][i].ph = Len(RunNest.phases) /\ AtPhaseEnd(o, i)

\* the view of thread (o,i) on the storage, and how a statement's effect is written back
View(o, i) == [out |-> mem.out, acc |-> mem.acc, sh |-> shm[o], ex |-> exv[o], tmp |-> tmpv[o][i + 1], bad |-> mem.bad]
WriteBack(o, i, S) ==
  /\ mem'  = [out |-> S.out, acc |-> S.acc, bad |-> S.bad]
  /\ shm'  = [shm EXCEPT ![o] = S.sh]
  /\ exv'  = [exv EXCEPT ![o] = S.ex]
  /\ tmpv' = [tmpv EXCEPT ![o][i + 1] = S.tmp]

Advance(o, i, s, nsub) ==     \* after one sub-step of statement s that has nsub sub-steps
  IF pc[o][i].sub + 1 >= nsub
    THEN pc' = [pc EXCEPT ![o][i].st = @ + 1, ![o][i].sub = 0]
    ELSE pc' = [pc EXCEPT ![o][i].sub = @ + 1]

StepStmt(o, i) ==
  LET p  == pc[o][i]
      ph == RunNest.phases[p.ph]
      s  == ph.stmts[p.st]
      S  == View(o, i)
      arg == ArgVecs[av]
  IN
  /\ ~AtPhaseEnd(o, i)
  /\ IF ~Guard(s, ph, RunNest, arg, o, i, S)
       THEN /\ pc' = [pc EXCEPT ![o][i].st = @ + 1, ![o][i].sub = 0]
            /\ UNCHANGED <<mem, shm, exv, tmpv, reg>>
     ELSE IF s.op \in AtomicOps /\ AtomicIndivisible
       THEN \* n indivisible updates, one per step
            /\ WriteBack(o, i, Apply(s, RunNest, arg, o, i, S))
            /\ Advance(o, i, s, s.n)
            /\ UNCHANGED reg
     ELSE IF s.op \in AtomicOps
       THEN \* mutant: plain `acc[c] += e`: load, then store
            LET env == Env(RunNest, arg, o, i, S)
                a   == AccCell(s, env) + 1
            IN IF p.sub % 2 = 0
                 THEN /\ reg' = [reg EXCEPT ![o][i] = mem.acc[a]]
                      /\ Advance(o, i, s, 2 * s.n)
                      /\ UNCHANGED <<mem, shm, exv, tmpv>>
                 ELSE /\ mem' = [mem EXCEPT !.acc[a] = reg[o][i] + AtomDelta(s, Eval(s.e, env))]
                      /\ Advance(o, i, s, 2 * s.n)
                      /\ UNCHANGED <<shm, exv, tmpv, reg>>
     ELSE \* every other statement touches only storage owned by this iteration
            /\ WriteBack(o, i, Repeat(s.n, s, RunNest, arg, o, i, S))
            /\ pc' = [pc EXCEPT ![o][i].st = @ + 1, ![o][i].sub = 0]
            /\ UNCHANGED reg
  /\ UNCHANGED <<stage, genvars, av, nix>>

\* leaving a phase: through the barrier if the scheme put one there, freely otherwise
StepPhase(o, i) ==
  LET p == pc[o][i].ph IN
  /\ AtPhaseEnd(o, i) /\ p < Len(RunNest.phases)
  /\ (BarAfter(RunNest, p) /\ PhaseOn(RunNest.phases[p], ArgVecs[av], o)) =>
       \A j \in Threads(RunNest) : pc[o][j].ph > p \/ (pc[o][j].ph = p /\ AtPhaseEnd(o, j))
  /\ pc' = [pc EXCEPT ![o][i] = [ph |-> p + 1, st |-> 1, sub |-> 0]]
  /\ tmpv' = [tmpv EXCEPT ![o][i + 1] = UNDEF]
  /\ UNCHANGED <<stage, genvars, av, nix, mem, shm, exv, reg>>

NestDone == \A o \in Blocks(RunNest), i \in Threads(RunNest) : ThreadDone(o, i)

NextLaunch ==
  /\ stage = "run" /\ NestDone
  /\ IF nix < Len(kern.nests)
       THEN /\ nix' = nix + 1 /\ FreshLaunch(kern.nests[nix + 1])
            /\ UNCHANGED <<stage, genvars, av, mem>>
       ELSE /\ stage' = "done"
            /\ UNCHANGED <<genvars, runvars>>

\* (every action is a named disjunct of Next so that TLC's coverage reports them one by one; the guards
\*  are repeated in front of the quantifiers so that the choice sets are only built where needed)
DoStmt  == stage = "run" /\ \E o \in Blocks(RunNest), i \in Threads(RunNest) : StepStmt(o, i)
DoPhase == stage = "run" /\ \E o \in Blocks(RunNest), i \in Threads(RunNest) : StepPhase(o, i)
Step == DoStmt \/ DoPhase

DoBegin == /\ stage = "build" /\ (CurNest = 0 \/ NestFull) /\ CurNest < Len(plan)
           /\ \E h \in Heads(cls), w \in Wraps(cls) : BeginNest(h, w)
DoAdd   == /\ stage = "build" /\ CurNest > 0 /\ CurPhase > 0 /\ ~PhaseFull
           /\ \E s \in Menu(cls) : AddStmt(s)
DoNextPhase == /\ stage = "build" /\ PhaseFull /\ CurPhase < Len(NestPlan)
               /\ \E nb \in NoBarChoices(cls), w \in Wraps(cls) : NextPhase(nb, w)
Build == DoBegin \/ DoAdd \/ DoNextPhase \/ Finish
DoLaunch == \E a \in CheckArgs : Launch(a)

Next == DoBegin \/ DoAdd \/ DoNextPhase \/ Finish \/ DoLaunch \/ DoStmt \/ DoPhase \/ NextLaunch

Spec == Init /\ [][Next]_vars

-----------------------------------------------------------------------------
(* Properties *)
\* the launch model computes the sequential reading, whatever the interleaving
LaunchIsSeq ==
  stage = "done" =>
    LET want == SeqRun(kern, ArgVecs[av]) IN mem.out = want.out /\ mem.acc = want.acc
\* no generated kernel reads storage nobody wrote, or leaves its arrays
NoBadAccess == stage \in {"run", "done"} => ~mem.bad
\* the run machine cannot get stuck before the end (every barrier opens)
RunsToEnd == stage = "run" => (ENABLED Step \/ ENABLED NextLaunch)

\* generation: print every complete kernel once with the predicted outputs, and cut there
Runs(k) == [a \in 1..Len(ArgVecs) |-> SeqRun(k, ArgVecs[a])]
Emit == stage # "built" \/ Mode # "emit" \/
        (PrintT(<<"B", ToJson([cls |-> cls, k |-> kern, runs |-> Runs(kern)])>>) /\ FALSE)
=============================================================================
