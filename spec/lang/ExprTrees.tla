----------------------------- MODULE ExprTrees -----------------------------
(* Expression trees and their reference semantics (no state): the C++ precedence table,
   Parenthesize, Tokens/Render (a printer that adds no parentheses, with the intended spacing),
   ParseC (precedence climbing) and Eval (C int semantics).  Used by ExprPrint.tla (C15,
   expressions) and CGrammar.tla (C15, statements and declarations).                        *)
EXTENDS Integers, Sequences, FiniteSets, TLC, Json, OperatorTable

CONSTANTS EnvInit     \* initial environment: function  variable name -> value

---------------------------------------------------------------------------
(* trees *)
Id(name)        == [n |-> "id", v |-> name]                      \* name: sequence of characters
Un(o, x)        == [n |-> "un", op |-> o, x |-> x]               \* prefix operator
Post(o, x)      == [n |-> "post", op |-> o, x |-> x]
Bin(o, l, r)    == [n |-> "bin", op |-> o, l |-> l, r |-> r]
Tern(c, t, f)   == [n |-> "tern", c |-> c, t |-> t, f |-> f]
Paren(x)        == [n |-> "paren", x |-> x]
Call(f, args)   == [n |-> "call", f |-> f, args |-> args]        \* args: sequence of trees
Index(a, i)     == [n |-> "index", a |-> a, i |-> i]
Cast(ty, x)     == [n |-> "cast", ty |-> ty, x |-> x]            \* ty: sequence of characters
SizeofE(x)      == [n |-> "sizeof", x |-> x]
\* literal leaf: k in {"prim","char","str"}, sp = spelling, tv = token value (delimiter unescaped),
\* val = integer value (prim, char) / size of one element (str), codes = character codes (str)
Lit(k, sp, tv, val, codes) == [n |-> "lit", k |-> k, sp |-> sp, tv |-> tv, val |-> val, codes |-> codes]

---------------------------------------------------------------------------
(* operators and the C++ precedence table (bigger binds tighter) *)
MulOps   == {<<"*">>, <<"/">>, <<"%">>}
AddOps   == {<<"+">>, <<"-">>}
ShiftOps == {<<"<","<">>, <<">",">">>}
RelOps   == {<<"<">>, <<"<","=">>, <<">">>, <<">","=">>}
EqOps    == {<<"=","=">>, <<"!","=">>}
AssignOps == {<<"=">>, <<"+","=">>, <<"-","=">>, <<"*","=">>, <<"/","=">>, <<"%","=">>, <<"&","=">>, <<"|","=">>,
              <<"^","=">>, <<"<","<","=">>, <<">",">","=">>}
COMMA == <<",">>
PrefixOps == {<<"+">>, <<"-">>, <<"!">>, <<"~">>, <<"+","+">>, <<"-","-">>, <<"*">>, <<"&">>}
IncDec == {<<"+","+">>, <<"-","-">>}
MemberOps == {<<".">>, <<"-",">">>}

BinPrec(o) ==
  CASE o \in MulOps -> 13 [] o \in AddOps -> 12 [] o \in ShiftOps -> 11 [] o \in RelOps -> 10
    [] o \in EqOps -> 9 [] o = <<"&">> -> 8 [] o = <<"^">> -> 7 [] o = <<"|">> -> 6
    [] o = <<"&","&">> -> 5 [] o = <<"|","|">> -> 4 [] o \in AssignOps -> 2 [] o = COMMA -> 1
    [] o \in MemberOps -> 15
LeftAssocOps == MulOps \cup AddOps \cup ShiftOps \cup RelOps \cup EqOps
                \cup {<<"&">>, <<"^">>, <<"|">>, <<"&","&">>, <<"|","|">>}
ASSUME (LeftAssocOps \cup AssignOps \cup PrefixOps \cup MemberOps \cup {COMMA, <<"?">>, <<":">>}) \subseteq OpTable

\* grammar level of a tree: primary 16, postfix 15, unary 14, binary its precedence,
\* conditional 3, assignment 2, comma 1
Level(t) ==
  CASE t.n \in {"id", "lit", "paren"} -> 16
    [] t.n \in {"post", "call", "index"} -> 15
    [] t.n \in {"un", "cast", "sizeof"} -> 14
    [] t.n = "tern" -> 3
    [] t.n = "bin" -> BinPrec(t.op)

---------------------------------------------------------------------------
(* Parenthesize: parentheses exactly where the grammar needs them (declarative form) *)
RECURSIVE P(_)
Wrap(c, min) == IF Level(c) >= min THEN P(c) ELSE Paren(P(c))
P(t) ==
  CASE t.n \in {"id", "lit"} -> t
    [] t.n = "paren" -> Paren(P(t.x))
    [] t.n = "un"    -> Un(t.op, Wrap(t.x, 14))
    [] t.n = "cast"  -> Cast(t.ty, Wrap(t.x, 14))
    [] t.n = "sizeof" -> SizeofE(P(t.x))                       \* sizeof( expression )
    [] t.n = "post"  -> Post(t.op, Wrap(t.x, 15))
    [] t.n = "call"  -> Call(Wrap(t.f, 15), [k \in 1..Len(t.args) |-> Wrap(t.args[k], 2)])
    [] t.n = "index" -> Index(Wrap(t.a, 15), P(t.i))
    [] t.n = "tern"  -> Tern(Wrap(t.c, 4), P(t.t), Wrap(t.f, 3))     \* an assignment as third operand is parenthesized:
                                                                       \* a ? b : c = d groups differently in C and in C++
    [] t.n = "bin" /\ t.op \in LeftAssocOps -> Bin(t.op, Wrap(t.l, BinPrec(t.op)), Wrap(t.r, BinPrec(t.op) + 1))
    [] t.n = "bin" /\ t.op \in AssignOps -> Bin(t.op, Wrap(t.l, 4), Wrap(t.r, 2))
    [] t.n = "bin" /\ t.op = COMMA -> Bin(t.op, Wrap(t.l, 1), Wrap(t.r, 2))
    [] t.n = "bin" /\ t.op \in MemberOps -> Bin(t.op, Wrap(t.l, 15), t.r)
Parenthesize(t) == P(t)

RECURSIVE Strip(_)   \* remove every Paren node
Strip(t) ==
  CASE t.n \in {"id", "lit"} -> t
    [] t.n = "paren" -> Strip(t.x)
    [] t.n = "un" -> Un(t.op, Strip(t.x))
    [] t.n = "cast" -> Cast(t.ty, Strip(t.x))
    [] t.n = "sizeof" -> SizeofE(Strip(t.x))
    [] t.n = "post" -> Post(t.op, Strip(t.x))
    [] t.n = "call" -> Call(Strip(t.f), [k \in 1..Len(t.args) |-> Strip(t.args[k])])
    [] t.n = "index" -> Index(Strip(t.a), Strip(t.i))
    [] t.n = "tern" -> Tern(Strip(t.c), Strip(t.t), Strip(t.f))
    [] t.n = "bin" -> Bin(t.op, Strip(t.l), Strip(t.r))

---------------------------------------------------------------------------
(* Tokens: what a printer that never adds parentheses emits *)
TId(sp)   == [k |-> "id", sp |-> sp]
TOp(sp)   == [k |-> "op", sp |-> sp]
TType(sp) == [k |-> "type", sp |-> sp]
TLit(l)   == [k |-> "lit", sp |-> l.sp, lit |-> l]
LP == <<"(">>  RP == <<")">>  LB == <<"[">>  RB == <<"]">>
SIZEOF == <<"s","i","z","e","o","f">>

RECURSIVE Tokens(_), ArgTokens(_, _)
ArgTokens(args, k) == IF k > Len(args) THEN <<>>
                      ELSE (IF k > 1 THEN <<TOp(COMMA)>> ELSE <<>>) \o Tokens(args[k]) \o ArgTokens(args, k + 1)
Tokens(t) ==
  CASE t.n = "id" -> <<TId(t.v)>>
    [] t.n = "lit" -> <<TLit(t)>>
    [] t.n = "paren" -> <<TOp(LP)>> \o Tokens(t.x) \o <<TOp(RP)>>
    [] t.n = "un" -> <<TOp(t.op)>> \o Tokens(t.x)
    [] t.n = "post" -> Tokens(t.x) \o <<TOp(t.op)>>
    [] t.n = "cast" -> <<TOp(LP), TType(t.ty), TOp(RP)>> \o Tokens(t.x)
    [] t.n = "sizeof" -> <<TOp(SIZEOF), TOp(LP)>> \o Tokens(t.x) \o <<TOp(RP)>>
    [] t.n = "call" -> Tokens(t.f) \o <<TOp(LP)>> \o ArgTokens(t.args, 1) \o <<TOp(RP)>>
    [] t.n = "index" -> Tokens(t.a) \o <<TOp(LB)>> \o Tokens(t.i) \o <<TOp(RB)>>
    [] t.n = "tern" -> Tokens(t.c) \o <<TOp(<<"?">>)>> \o Tokens(t.t) \o <<TOp(<<":">>)>> \o Tokens(t.f)
    [] t.n = "bin" -> Tokens(t.l) \o <<TOp(t.op)>> \o Tokens(t.r)

---------------------------------------------------------------------------
(* Render: text with the intended spacing *)
StartsWithOp(s, o) == Len(o) <= Len(s) /\ SubSeq(s, 1, Len(o)) = o
\* maximal munch at the start of s: the longest table operator that is a prefix of s (0 if none)
MunchLen(s) == LET ls == {Len(o) : o \in {o \in OpTable : StartsWithOp(s, o)}}
               IN IF ls = {} THEN 0 ELSE CHOOSE x \in ls : \A y \in ls : y <= x
\* two symbol-operator tokens written without a blank are read back as the same two tokens
IsSymOp(t) == t.k = "op" /\ t.sp[1] \notin {"s"}     \* sizeof is the only word operator used here
Fuses(a, b) == IsSymOp(a) /\ IsSymOp(b) /\ MunchLen(a.sp \o b.sp) # Len(a.sp)
Gap(a, b) == IF Fuses(a, b) THEN <<"SP">> ELSE <<>>
First(ts) == ts[1]
Last(ts)  == ts[Len(ts)]

RECURSIVE Render(_), RenderArgs(_, _)
RenderArgs(args, k) == IF k > Len(args) THEN <<>>
                       ELSE (IF k > 1 THEN <<",", "SP">> ELSE <<>>) \o Render(args[k]) \o RenderArgs(args, k + 1)
Render(t) ==
  CASE t.n = "id" -> t.v
    [] t.n = "lit" -> t.sp
    [] t.n = "paren" -> LP \o Render(t.x) \o RP
    [] t.n = "un" -> t.op \o Gap(TOp(t.op), First(Tokens(t.x))) \o Render(t.x)
    [] t.n = "post" -> Render(t.x) \o Gap(Last(Tokens(t.x)), TOp(t.op)) \o t.op
    [] t.n = "cast" -> LP \o t.ty \o RP \o <<"SP">> \o Render(t.x)
    [] t.n = "sizeof" -> SIZEOF \o LP \o Render(t.x) \o RP
    [] t.n = "call" -> Render(t.f) \o LP \o RenderArgs(t.args, 1) \o RP
    [] t.n = "index" -> Render(t.a) \o LB \o Render(t.i) \o RB
    [] t.n = "tern" -> Render(t.c) \o <<"SP", "?", "SP">> \o Render(t.t) \o <<"SP", ":", "SP">> \o Render(t.f)
    [] t.n = "bin" /\ t.op = COMMA -> Render(t.l) \o <<",", "SP">> \o Render(t.r)
    [] t.n = "bin" /\ t.op \in MemberOps -> Render(t.l) \o t.op \o Render(t.r)
    [] t.n = "bin" -> Render(t.l) \o <<"SP">> \o t.op \o <<"SP">> \o Render(t.r)

\* the token pairs that Render always writes directly next to each other (no Gap decision)
RECURSIVE GluedPairs(_)
ArgPairs(args) == UNION {GluedPairs(args[k]) : k \in 1..Len(args)}
                  \cup {<<Last(Tokens(args[k])), TOp(COMMA)>> : k \in 1..(Len(args) - 1)}
GluedPairs(t) ==
  CASE t.n \in {"id", "lit"} -> {}
    [] t.n = "paren" -> {<<TOp(LP), First(Tokens(t.x))>>, <<Last(Tokens(t.x)), TOp(RP)>>} \cup GluedPairs(t.x)
    [] t.n = "sizeof" -> {<<TOp(LP), First(Tokens(t.x))>>, <<Last(Tokens(t.x)), TOp(RP)>>} \cup GluedPairs(t.x)
    [] t.n \in {"un", "post", "cast"} -> GluedPairs(t.x)
    [] t.n = "call" -> {<<Last(Tokens(t.f)), TOp(LP)>>} \cup GluedPairs(t.f) \cup ArgPairs(t.args)
                       \cup (IF Len(t.args) = 0 THEN {<<TOp(LP), TOp(RP)>>}
                             ELSE {<<TOp(LP), First(Tokens(t.args[1]))>>, <<Last(Tokens(t.args[Len(t.args)])), TOp(RP)>>})
    [] t.n = "index" -> {<<Last(Tokens(t.a)), TOp(LB)>>, <<TOp(LB), First(Tokens(t.i))>>, <<Last(Tokens(t.i)), TOp(RB)>>}
                        \cup GluedPairs(t.a) \cup GluedPairs(t.i)
    [] t.n = "tern" -> GluedPairs(t.c) \cup GluedPairs(t.t) \cup GluedPairs(t.f)
    [] t.n = "bin" /\ t.op \in MemberOps -> {<<Last(Tokens(t.l)), TOp(t.op)>>} \cup GluedPairs(t.l)
    [] t.n = "bin" -> GluedPairs(t.l) \cup GluedPairs(t.r)

---------------------------------------------------------------------------
(* ParseC: precedence climbing over the token sequence; every function returns [t, i] =
   the tree and the index of the first token not consumed                                   *)
Tk(ts, i) == IF i <= Len(ts) THEN ts[i] ELSE [k |-> "eof", sp |-> <<>>]
IsOpTok(t, sp) == t.k = "op" /\ t.sp = sp
IsBinTok(t) == t.k = "op" /\ t.sp \in LeftAssocOps

RECURSIVE PExpr(_, _), PExprLoop(_, _, _), PAssign(_, _), PBinary(_, _, _), PBinLoop(_, _, _, _),
          PUnary(_, _), PPostfix(_, _, _), PArgs(_, _, _)

PPrimary(ts, i) ==
  LET k == Tk(ts, i) IN
  CASE k.k = "id" -> [t |-> Id(k.sp), i |-> i + 1]
    [] k.k = "lit" -> [t |-> k.lit, i |-> i + 1]
    [] IsOpTok(k, LP) -> LET r == PExpr(ts, i + 1) IN [t |-> Paren(r.t), i |-> r.i + 1]   \* skips ")"

PArgs(ts, i, acc) ==      \* i is after "(" or after ","
  IF IsOpTok(Tk(ts, i), RP) THEN [args |-> acc, i |-> i + 1]
  ELSE LET a == PAssign(ts, i) IN
       IF IsOpTok(Tk(ts, a.i), COMMA) THEN PArgs(ts, a.i + 1, Append(acc, a.t))
       ELSE [args |-> Append(acc, a.t), i |-> a.i + 1]                                      \* skips ")"

PPostfix(ts, i, base) ==
  LET k == Tk(ts, i) IN
  IF k.k = "op" /\ k.sp \in IncDec THEN PPostfix(ts, i + 1, Post(k.sp, base))
  ELSE IF IsOpTok(k, LP) THEN LET a == PArgs(ts, i + 1, <<>>) IN PPostfix(ts, a.i, Call(base, a.args))
  ELSE IF IsOpTok(k, LB) THEN LET r == PExpr(ts, i + 1) IN PPostfix(ts, r.i + 1, Index(base, r.t))
  ELSE IF k.k = "op" /\ k.sp \in MemberOps THEN PPostfix(ts, i + 2, Bin(k.sp, base, Id(Tk(ts, i + 1).sp)))
  ELSE [t |-> base, i |-> i]

PUnary(ts, i) ==
  LET k == Tk(ts, i) IN
  IF k.k = "op" /\ k.sp \in PrefixOps THEN LET r == PUnary(ts, i + 1) IN [t |-> Un(k.sp, r.t), i |-> r.i]
  ELSE IF IsOpTok(k, SIZEOF) /\ IsOpTok(Tk(ts, i + 1), LP)
       THEN LET r == PExpr(ts, i + 2) IN [t |-> SizeofE(r.t), i |-> r.i + 1]
  ELSE IF IsOpTok(k, LP) /\ Tk(ts, i + 1).k = "type" /\ IsOpTok(Tk(ts, i + 2), RP)
       THEN LET r == PUnary(ts, i + 3) IN [t |-> Cast(Tk(ts, i + 1).sp, r.t), i |-> r.i]
  ELSE LET p == PPrimary(ts, i) IN PPostfix(ts, p.i, p.t)

PBinLoop(ts, lhs, i, min) ==
  LET k == Tk(ts, i) IN
  IF IsBinTok(k) /\ BinPrec(k.sp) >= min
  THEN LET r == PBinary(ts, i + 1, BinPrec(k.sp) + 1) IN PBinLoop(ts, Bin(k.sp, lhs, r.t), r.i, min)
  ELSE [t |-> lhs, i |-> i]
PBinary(ts, i, min) == LET u == PUnary(ts, i) IN PBinLoop(ts, u.t, u.i, min)

PAssign(ts, i) ==
  LET l == PBinary(ts, i, 4)
      k == Tk(ts, l.i)
  IN IF IsOpTok(k, <<"?">>)
     THEN LET m == PExpr(ts, l.i + 1)          \* the middle operand is a full expression
              e == PAssign(ts, m.i + 1)        \* skips ":"; the third is an assignment-expression
          IN [t |-> Tern(l.t, m.t, e.t), i |-> e.i]
     ELSE IF k.k = "op" /\ k.sp \in AssignOps
     THEN LET r == PAssign(ts, l.i + 1) IN [t |-> Bin(k.sp, l.t, r.t), i |-> r.i]
     ELSE l

PExprLoop(ts, lhs, i) ==
  IF IsOpTok(Tk(ts, i), COMMA) THEN LET r == PAssign(ts, i + 1) IN PExprLoop(ts, Bin(COMMA, lhs, r.t), r.i)
  ELSE [t |-> lhs, i |-> i]
PExpr(ts, i) == LET a == PAssign(ts, i) IN PExprLoop(ts, a.t, a.i)

ParseC(ts) == LET r == PExpr(ts, 1) IN IF r.i = Len(ts) + 1 THEN r.t ELSE [n |-> "error", at |-> r.i]

---------------------------------------------------------------------------
(* Eval: C int semantics on small values; "undef" = undefined / not representable here *)
Undef == -999999     \* an integer outside the Small range (TLC cannot compare an integer with a string)
Small(v) == v > -30000 /\ v < 30000
TruncDiv(a, b) == IF (a >= 0) = (b > 0) THEN (IF a >= 0 THEN a \div b ELSE (-a) \div (-b)) ELSE -((IF a >= 0 THEN a ELSE -a) \div (IF b > 0 THEN b ELSE -b))
TruncMod(a, b) == a - b * TruncDiv(a, b)
W == 65536
ToU(v) == IF v >= 0 THEN v ELSE v + W
FromU(u) == IF u >= W \div 2 THEN u - W ELSE u
RECURSIVE BitOp(_, _, _, _)
BitOp(f, x, y, n) == IF n = 0 THEN 0
                     ELSE LET bx == x % 2  by == y % 2
                              b == CASE f = "and" -> bx * by [] f = "or" -> IF bx + by > 0 THEN 1 ELSE 0 [] f = "xor" -> (bx + by) % 2
                          IN b + 2 * BitOp(f, x \div 2, y \div 2, n - 1)
Bits(f, a, b) == FromU(BitOp(f, ToU(a), ToU(b), 16))
Pow2(k) == IF k = 0 THEN 1 ELSE IF k = 1 THEN 2 ELSE IF k = 2 THEN 4 ELSE IF k = 3 THEN 8 ELSE IF k = 4 THEN 16
           ELSE IF k = 5 THEN 32 ELSE IF k = 6 THEN 64 ELSE IF k = 7 THEN 128 ELSE 256
B(b) == IF b THEN 1 ELSE 0

Arith(o, a, b) ==
  CASE o = <<"+">> -> a + b [] o = <<"-">> -> a - b [] o = <<"*">> -> a * b
    [] o = <<"/">> -> IF b = 0 THEN Undef ELSE TruncDiv(a, b)
    [] o = <<"%">> -> IF b = 0 THEN Undef ELSE TruncMod(a, b)
    [] o = <<"<","<">> -> IF b < 0 \/ b > 8 \/ a < 0 THEN Undef ELSE a * Pow2(b)
    [] o = <<">",">">> -> IF b < 0 \/ b > 8 THEN Undef ELSE a \div Pow2(b)
    [] o = <<"<">> -> B(a < b) [] o = <<"<","=">> -> B(a <= b) [] o = <<">">> -> B(a > b) [] o = <<">","=">> -> B(a >= b)
    [] o = <<"=","=">> -> B(a = b) [] o = <<"!","=">> -> B(a # b)
    [] o = <<"&">> -> Bits("and", a, b) [] o = <<"|">> -> Bits("or", a, b) [] o = <<"^">> -> Bits("xor", a, b)
BaseOp(o) == IF o = <<"=">> THEN o ELSE SubSeq(o, 1, Len(o) - 1)      \* "+=" -> "+"
Chk(v) == IF v = Undef THEN Undef ELSE IF Small(v) THEN v ELSE Undef
R(v, e) == [v |-> v, env |-> e]
Set(e, name, v) == [e EXCEPT ![name] = v]
IsVarIn(t, e) == t.n = "id" /\ t.v \in DOMAIN e

---------------------------------------------------------------------------
(* cast / declaration target types (spellings) and what a conversion to them does to a small int.
   Results of unsigned and 64-bit types are only defined here while they stay non-negative and
   small; wider effects are left to the g++ original-versus-printed comparison of the check.   *)
T_INT == <<"i","n","t">>
T_CINT == <<"c","o","n","s","t","SP","i","n","t">>
T_LONG == <<"l","o","n","g">>
T_LONGINT == <<"l","o","n","g","SP","i","n","t">>
T_CLONG == <<"c","o","n","s","t","SP","l","o","n","g">>
T_LL == <<"l","o","n","g","SP","l","o","n","g">>
T_UINT == <<"u","n","s","i","g","n","e","d","SP","i","n","t">>
T_ULONG == <<"l","o","n","g","SP","u","n","s","i","g","n","e","d","SP","i","n","t">>
T_ULL == <<"u","n","s","i","g","n","e","d","SP","l","o","n","g","SP","l","o","n","g">>
T_SHORT == <<"s","h","o","r","t">>
T_USHORT == <<"u","n","s","i","g","n","e","d","SP","s","h","o","r","t">>
T_UCHAR == <<"u","n","s","i","g","n","e","d","SP","c","h","a","r">>
T_SCHAR == <<"s","i","g","n","e","d","SP","c","h","a","r">>
T_CHAR == <<"c","h","a","r">>
T_CCHAR == <<"c","o","n","s","t","SP","c","h","a","r">>
T_INTP == <<"i","n","t","SP","*">>
T_CCHARP == <<"c","o","n","s","t","SP","c","h","a","r","SP","*">>
Wrap8U  == {T_UCHAR}
Wrap8S  == {T_SCHAR, T_CHAR, T_CCHAR}
Wrap16U == {T_USHORT}
Wrap16S == {T_SHORT}
NonNegTypes == {T_UINT, T_ULONG, T_ULL}
SameTypes == {T_INT, T_CINT, T_LONG, T_LONGINT, T_CLONG, T_LL}
ArithTypes == Wrap8U \cup Wrap8S \cup Wrap16U \cup Wrap16S \cup NonNegTypes \cup SameTypes
PointerTypes == {T_INTP, T_CCHARP}
ConvertTo(ty, v) ==
  CASE ty \in Wrap8U  -> v % 256
    [] ty \in Wrap8S  -> ((v + 128) % 256) - 128
    [] ty \in Wrap16U -> v % 65536
    [] ty \in Wrap16S -> ((v + 32768) % 65536) - 32768
    [] ty \in NonNegTypes -> IF v < 0 THEN Undef ELSE v
    [] ty \in SameTypes -> v
    [] OTHER -> Undef

RECURSIVE Eval(_, _)
Eval(t, e) ==
  CASE t.n = "id" -> IF IsVarIn(t, e) THEN R(e[t.v], e) ELSE R(Undef, e)
    [] t.n = "lit" -> R(IF t.k = "str" THEN Undef ELSE Chk(t.val), e)     \* literals beyond the small range have no value here
    [] t.n = "paren" -> Eval(t.x, e)
    [] t.n = "cast" -> LET x == Eval(t.x, e) IN IF x.v = Undef THEN R(Undef, e) ELSE R(Chk(ConvertTo(t.ty, x.v)), x.env)
    [] t.n = "sizeof" -> R(IF t.x.n = "lit" /\ t.x.k = "str" THEN t.x.val * (Len(t.x.codes) + 1) ELSE 4, e)   \* operand not evaluated
    [] t.n = "index" ->
         LET i == Eval(t.i, e) IN
         IF t.a.n = "lit" /\ t.a.k = "str" /\ i.v # Undef /\ i.v >= 0 /\ i.v <= Len(t.a.codes)
         THEN R(IF i.v = Len(t.a.codes) THEN 0 ELSE t.a.codes[i.v + 1], i.env) ELSE R(Undef, e)
    [] t.n = "call" ->      \* int f(int x, int y) { return 10 * x + y; }
         IF Len(t.args) # 2 THEN R(Undef, e)
         ELSE LET a == Eval(t.args[1], e)  b == Eval(t.args[2], a.env) IN
              IF a.v = Undef \/ b.v = Undef THEN R(Undef, e) ELSE R(Chk(10 * a.v + b.v), b.env)
    [] t.n = "un" ->
         IF t.op \in IncDec THEN
           (IF ~IsVarIn(t.x, e) THEN R(Undef, e)
            ELSE LET nv == IF t.op = <<"+","+">> THEN e[t.x.v] + 1 ELSE e[t.x.v] - 1 IN R(Chk(nv), Set(e, t.x.v, nv)))
         ELSE IF t.op \in {<<"*">>, <<"&">>} THEN R(Undef, e)
         ELSE LET x == Eval(t.x, e) IN
              IF x.v = Undef THEN R(Undef, e)
              ELSE R(CASE t.op = <<"+">> -> x.v [] t.op = <<"-">> -> -x.v [] t.op = <<"!">> -> B(x.v = 0)
                       [] t.op = <<"~">> -> -x.v - 1, x.env)
    [] t.n = "post" ->
         IF ~IsVarIn(t.x, e) THEN R(Undef, e)
         ELSE LET nv == IF t.op = <<"+","+">> THEN e[t.x.v] + 1 ELSE e[t.x.v] - 1 IN R(IF Small(nv) THEN e[t.x.v] ELSE Undef, Set(e, t.x.v, nv))
    [] t.n = "tern" ->
         LET c == Eval(t.c, e) IN
         IF c.v = Undef THEN R(Undef, e) ELSE IF c.v # 0 THEN Eval(t.t, c.env) ELSE Eval(t.f, c.env)
    [] t.n = "bin" /\ t.op = <<"&","&">> ->
         LET l == Eval(t.l, e) IN
         IF l.v = Undef THEN R(Undef, e) ELSE IF l.v = 0 THEN R(0, l.env)
         ELSE LET r == Eval(t.r, l.env) IN IF r.v = Undef THEN R(Undef, e) ELSE R(B(r.v # 0), r.env)
    [] t.n = "bin" /\ t.op = <<"|","|">> ->
         LET l == Eval(t.l, e) IN
         IF l.v = Undef THEN R(Undef, e) ELSE IF l.v # 0 THEN R(1, l.env)
         ELSE LET r == Eval(t.r, l.env) IN IF r.v = Undef THEN R(Undef, e) ELSE R(B(r.v # 0), r.env)
    [] t.n = "bin" /\ t.op = COMMA ->
         LET l == Eval(t.l, e) IN IF l.v = Undef THEN R(Undef, e) ELSE Eval(t.r, l.env)
    [] t.n = "bin" /\ t.op \in AssignOps ->
         LET tgt == IF t.l.n = "paren" THEN t.l.x ELSE t.l IN
         IF ~IsVarIn(tgt, e) THEN R(Undef, e)
         ELSE LET r == Eval(t.r, e) IN
              IF r.v = Undef THEN R(Undef, e)
              ELSE LET nv == IF t.op = <<"=">> THEN r.v ELSE Arith(BaseOp(t.op), r.env[tgt.v], r.v) IN
                   IF Chk(nv) = Undef THEN R(Undef, e) ELSE R(nv, Set(r.env, tgt.v, nv))
    [] t.n = "bin" /\ t.op \in MemberOps -> R(Undef, e)
    [] t.n = "bin" ->
         LET l == Eval(t.l, e)  r == Eval(t.r, l.env) IN
         IF l.v = Undef \/ r.v = Undef THEN R(Undef, e) ELSE R(Chk(Arith(t.op, l.v, r.v)), r.env)

\* unsequenced side effects make the C++ value undefined: a variable modified in one operand of an
\* unsequenced operator must not be read or modified in the other
RECURSIVE Mods(_), Reads(_), Racy(_)
UnionSeq(f, s) == UNION {f[k] : k \in 1..Len(s)}
Mods(t) ==
  CASE t.n \in {"id", "lit", "sizeof"} -> {}
    [] t.n \in {"paren", "cast"} -> Mods(t.x)
    [] t.n \in {"un", "post"} -> (IF t.op \in IncDec /\ t.x.n = "id" THEN {t.x.v} ELSE {}) \cup Mods(t.x)
    [] t.n = "call" -> UNION {Mods(t.args[k]) : k \in 1..Len(t.args)}
    [] t.n = "index" -> Mods(t.a) \cup Mods(t.i)
    [] t.n = "tern" -> Mods(t.c) \cup Mods(t.t) \cup Mods(t.f)
    [] t.n = "bin" -> (IF t.op \in AssignOps /\ t.l.n = "id" THEN {t.l.v} ELSE {}) \cup Mods(t.l) \cup Mods(t.r)
Reads(t) ==
  CASE t.n = "id" -> {t.v}
    [] t.n \in {"lit", "sizeof"} -> {}
    [] t.n \in {"paren", "cast", "un", "post"} -> Reads(t.x)
    [] t.n = "call" -> UNION {Reads(t.args[k]) : k \in 1..Len(t.args)}
    [] t.n = "index" -> Reads(t.a) \cup Reads(t.i)
    [] t.n = "tern" -> Reads(t.c) \cup Reads(t.t) \cup Reads(t.f)
    [] t.n = "bin" -> Reads(t.l) \cup Reads(t.r)
Clash(a, b) == (Mods(a) \cap (Reads(b) \cup Mods(b))) # {} \/ (Mods(b) \cap (Reads(a) \cup Mods(a))) # {}
Racy(t) ==
  CASE t.n \in {"id", "lit", "sizeof"} -> FALSE
    [] t.n \in {"paren", "cast", "un", "post"} -> Racy(t.x)
    [] t.n = "call" -> (\E k \in 1..Len(t.args) : Racy(t.args[k]))
                       \/ (\E j, k \in 1..Len(t.args) : j < k /\ Clash(t.args[j], t.args[k]))
    [] t.n = "index" -> Racy(t.a) \/ Racy(t.i) \/ Clash(t.a, t.i)
    [] t.n = "tern" -> Racy(t.c) \/ Racy(t.t) \/ Racy(t.f)
    [] t.n = "bin" /\ t.op \in {<<"&","&">>, <<"|","|">>, COMMA} -> Racy(t.l) \/ Racy(t.r)
    [] t.n = "bin" /\ t.op \in AssignOps -> Racy(t.l) \/ Racy(t.r) \/ (t.l.n = "id" /\ t.l.v \in Mods(t.r)) \/ t.l.n # "id"
    [] t.n = "bin" -> Racy(t.l) \/ Racy(t.r) \/ Clash(t.l, t.r)

\* what a C++ compiler accepts with int variables `names` and int f(int, int): unevaluated operands
\* (right of && / ||, the arm of ?: that is not taken, the operand of sizeof) must compile as well
RECURSIVE WellTyped(_, _)
IsName(t, names) == t.n = "id" /\ t.v \in names
WellTyped(t, names) ==
  CASE t.n = "id" -> t.v \in names
    [] t.n = "lit" -> t.k # "str"
    [] t.n = "paren" -> WellTyped(t.x, names)
    [] t.n = "cast" -> t.ty \in ArithTypes /\ WellTyped(t.x, names)
    [] t.n = "sizeof" -> (t.x.n = "lit" /\ t.x.k = "str") \/ WellTyped(t.x, names)
    [] t.n = "index" -> t.a.n = "lit" /\ t.a.k = "str" /\ WellTyped(t.i, names)
    [] t.n = "call" -> t.f = Id(<<"f">>) /\ Len(t.args) = 2 /\ \A k \in 1..Len(t.args) : WellTyped(t.args[k], names)
    [] t.n = "un" -> IF t.op \in IncDec THEN IsName(t.x, names)
                     ELSE t.op \notin {<<"*">>, <<"&">>} /\ WellTyped(t.x, names)
    [] t.n = "post" -> IsName(t.x, names)
    [] t.n = "tern" -> WellTyped(t.c, names) /\ WellTyped(t.t, names) /\ WellTyped(t.f, names)
    [] t.n = "bin" /\ t.op \in MemberOps -> FALSE
    [] t.n = "bin" /\ t.op \in AssignOps -> IsName(IF t.l.n = "paren" THEN t.l.x ELSE t.l, names) /\ WellTyped(t.r, names)
    [] t.n = "bin" -> WellTyped(t.l, names) /\ WellTyped(t.r, names)

Value(t) == IF Racy(t) \/ ~WellTyped(t, DOMAIN EnvInit) THEN R(Undef, EnvInit) ELSE Eval(t, EnvInit)

=============================================================================
