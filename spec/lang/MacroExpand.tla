----------------------------- MODULE MacroExpand -----------------------------
(* C13 -- macro replacement of the C preprocessor (C11 6.10.3, C++ [cpp.replace]) for
   object-like, function-like and variadic macros WITHOUT the # and ## operators, as an
   executable definition: argument collection with nested parentheses, complete macro
   expansion of each argument in isolation before substitution, rescanning of the result
   together with the rest of the line, and the "not replaced again" rule as hide sets
   (Prosser's algorithm, the one the standard's wording was derived from).

   A token is [s |-> spelling, hs |-> hide set]; a macro table is a function from the
   defined names to definitions [fun, params, va, body] (body: sequence of spellings).     *)
EXTENDS Integers, Sequences, FiniteSets, TLC

VA == "__VA_ARGS__"
Tok(s) == [s |-> s, hs |-> {}]
Toks(ss) == [i \in 1..Len(ss) |-> Tok(ss[i])]
Plain(ts) == [i \in 1..Len(ts) |-> ts[i].s]
ERR == "#ERR"                                   \* marks an ill-formed invocation in the output
HsAdd(hs, ts) == [i \in 1..Len(ts) |-> [s |-> ts[i].s, hs |-> ts[i].hs \cup hs]]
Def(fun, params, va, body) == [fun |-> fun, params |-> params, va |-> va, body |-> body]

\* ---------------------------------------------------------------- argument collection
(* ts[1] = "(".  Returns [ok, args, close]: the top-level comma separated arguments (token
   sequences) and the index of the matching ")"; ok = FALSE if the line ends first.        *)
Collect(ts) ==
  LET RECURSIVE Scan(_, _, _, _)
      Scan(i, depth, cur, args) ==
        IF i > Len(ts) THEN [ok |-> FALSE, args |-> <<>>, close |-> 0]
        ELSE LET s == ts[i].s
             IN IF s = ")" /\ depth = 0 THEN [ok |-> TRUE, args |-> Append(args, cur), close |-> i]
                ELSE IF s = "," /\ depth = 0 THEN Scan(i + 1, 0, <<>>, Append(args, cur))
                ELSE Scan(i + 1, IF s = "(" THEN depth + 1 ELSE IF s = ")" THEN depth - 1 ELSE depth,
                          Append(cur, ts[i]), args)
  IN Scan(2, 0, <<>>, <<>>)

\* a, b, c  ->  the token sequence  a , b , c   (the variable arguments with their commas)
RECURSIVE JoinComma(_)
JoinComma(args) == IF Len(args) = 0 THEN <<>>
                   ELSE IF Len(args) = 1 THEN args[1]
                   ELSE args[1] \o <<Tok(",")>> \o JoinComma(Tail(args))

\* does the argument list fit the definition?  (subset of the property: non-empty arguments)
ArityOK(d, args) ==
  LET n == Len(d.params)
  IN /\ \A i \in 1..Len(args) : args[i] # <<>>
     /\ IF d.va THEN Len(args) >= n + 1 ELSE Len(args) = n

\* ---------------------------------------------------------------- expansion
RECURSIVE Expand(_, _)
\* the replacement list with every parameter replaced by its completely expanded argument
Subst(d, args, M) ==
  LET n == Len(d.params)
      ParamIdx(s) == CHOOSE i \in 1..n : d.params[i] = s
      IsParam(s) == \E i \in 1..n : d.params[i] = s
      RECURSIVE Go(_)
      Go(i) == IF i > Len(d.body) THEN <<>>
               ELSE LET b == d.body[i]
                    IN (IF d.fun /\ IsParam(b) THEN Expand(args[ParamIdx(b)], M)
                        ELSE IF d.fun /\ d.va /\ b = VA
                             THEN Expand(JoinComma(SubSeq(args, n + 1, Len(args))), M)
                        ELSE <<Tok(b)>>) \o Go(i + 1)
  IN Go(1)

Expand(ts, M) ==
  IF ts = <<>> THEN <<>>
  ELSE LET t == Head(ts)
           rest == Tail(ts)
       IN IF t.s \notin DOMAIN M \/ t.s \in t.hs THEN <<t>> \o Expand(rest, M)
          ELSE LET d == M[t.s]
               IN IF ~d.fun
                  THEN Expand(HsAdd(t.hs \cup {t.s}, Subst(d, <<>>, M)) \o rest, M)
                  ELSE IF rest = <<>> \/ Head(rest).s # "(" THEN <<t>> \o Expand(rest, M)
                  ELSE LET c == Collect(rest)
                       IN IF ~c.ok \/ ~ArityOK(d, c.args) THEN <<Tok(ERR)>>
                          ELSE LET hs == (t.hs \cap rest[c.close].hs) \cup {t.s}
                               IN Expand(HsAdd(hs, Subst(d, c.args, M))
                                           \o SubSeq(rest, c.close + 1, Len(rest)), M)

\* what the preprocessor prints for one line of text
ExpandLine(ss, M) == Plain(Expand(Toks(ss), M))
\* the macros whose replacement produced tokens of the line (union of the hide sets)
UsedBy(ts) == UNION {ts[i].hs : i \in 1..Len(ts)}
LineOK(ss, M) == \A i \in 1..Len(ExpandLine(ss, M)) : ExpandLine(ss, M)[i] # ERR

\* ---------------------------------------------------------------- sanity theorems (checked by TLC)
\* no token left in the output is a replaceable object-like macro name, and no function-like
\* one directly followed by "(", unless it carries its own name in its hide set
Finished(ts, M) ==
  \A i \in 1..Len(ts) :
     (ts[i].s \in DOMAIN M /\ ts[i].s \notin ts[i].hs) =>
        /\ M[ts[i].s].fun
        /\ (i = Len(ts) \/ ts[i + 1].s # "(")
\* without macros nothing changes; expansion of expanded plain output is not required to be stable
NoMacros(ss) == ExpandLine(ss, <<>>) = ss
=============================================================================
