"""Helpers shared by the C24 / C25 / C27 checks (kept here, not in tools/vlib.py).

run_cases(): like vlib.run_replayer, but
  * returns the replayer's log (stdout+stderr) so that sanitizer reports can be classified,
  * survives an implementation that trips a sanitizer on (almost) every behaviour: after
    `halt_budget` UBSan aborts it switches UBSan to report-and-continue (reports are then
    collected from UBSAN log files), so the functional comparison still covers everything,
  * never turns "the implementation keeps crashing" into a broken check silently: it stops after
    `max_crashes` and says how many cases were skipped.
"""
import glob, json, os, re, time
from vlib import sh, Broken


def _read_outs(outp):
    outs, last_crash, done = {}, None, -1
    for line in open(outp, errors="replace"):
        try:
            rec = json.loads(line)
        except ValueError:
            continue
        if "crash" in rec:
            last_crash = rec
        elif "beh" in rec:
            outs[rec["beh"]] = rec
            done = max(done, rec["beh"])
    return outs, last_crash, done


def ub_reports(text):
    """distinct UBSan/ASan reports in a log: list of (kind, file:line, function-or-'')"""
    reps = []
    lines = text.splitlines()
    for i, l in enumerate(lines):
        m = re.search(r"([^\s:]+):(\d+):\d+: runtime error: (.*)$", l)
        if m:
            kind = m.group(3)
            kind = re.sub(r"-?\d+", "N", kind)
            kind = re.sub(r"\s+", "-", kind.strip())[:60]
            fn = ""
            for k in range(i + 1, min(i + 4, len(lines))):
                mm = re.search(r"#0 \S+ in (.+?) \S+:\d+", lines[k])
                if mm:
                    fn = re.sub(r"\(.*", "", mm.group(1))
                    break
            reps.append((kind, os.path.basename(m.group(1)) + ":" + m.group(2), fn))
        m = re.search(r"ERROR: AddressSanitizer: (\S+)", l)
        if m:
            reps.append(("asan-" + m.group(1), "", ""))
    seen, out = set(), []
    for r in reps:
        if r not in seen:
            seen.add(r)
            out.append(r)
    return out


def run_cases(ctx, exe, env, cases, timeout=1200, halt_budget=4, max_crashes=30, args=(), tag="r"):
    """Returns (outs by case index, crashes[list of dict with crash/beh/step/log/reports], info)."""
    stamp = "%s-%d" % (tag, int(time.time() * 1e6) % 10 ** 10)
    inp = os.path.join(ctx.tmp, "in-%s.ndjson" % stamp)
    outp = os.path.join(ctx.tmp, "out-%s.ndjson" % stamp)
    ublog = os.path.join(ctx.tmp, "ubsan-%s" % stamp)
    with open(inp, "w") as f:
        for c in cases:
            f.write(json.dumps(c) + "\n")
    open(outp, "w").close()
    env = dict(env)
    start, crashes, halting = 0, [], True
    soft_reports = []
    while start < len(cases):
        rc, out = sh([exe, inp, outp, str(start)] + list(args), timeout=timeout, env=env)
        if not halting:
            for p in glob.glob(ublog + "*"):
                soft_reports += ub_reports(open(p, errors="replace").read())
                os.unlink(p)
        if rc == 0:
            break
        outs, last, done = _read_outs(outp)
        if last is None or last.get("beh", -1) < start:
            last = {"crash": "exit-%d" % rc, "beh": max(done + 1, start), "step": -1}
        last["log"] = out[-4000:]
        last["reports"] = ub_reports(out)
        crashes.append(last)
        start = last["beh"] + 1
        lines = [l for l in open(outp, errors="replace") if '"crash"' not in l]
        open(outp, "w").writelines(lines)
        ub_only = bool(last["reports"]) and all(not r[0].startswith("asan-") for r in last["reports"])
        if halting and ub_only and sum(1 for c in crashes if c["reports"]) >= halt_budget:
            halting = False
            env["UBSAN_OPTIONS"] = "print_stacktrace=1:halt_on_error=0:log_path=" + ublog
        if len(crashes) >= max_crashes:
            break
    outs, _, _ = _read_outs(outp)
    seen, soft = set(), []
    for r in soft_reports:
        if r not in seen:
            seen.add(r)
            soft.append(r)
    info = {"skipped": max(0, len(cases) - start) if len(crashes) >= max_crashes and start < len(cases) else 0,
            "soft_reports": soft, "halting_to_the_end": halting}
    for p in (inp, outp):
        try:
            os.unlink(p)
        except OSError:
            pass
    return outs, crashes, info


def run_cases_par(ctx, exe, env, cases, ways=4, **kw):
    """run_cases over `ways` contiguous chunks in parallel processes; indices are those of `cases`."""
    import threading
    n = len(cases)
    if n < 4 * ways:
        return run_cases(ctx, exe, env, cases, **kw)
    bounds = [(k * n) // ways for k in range(ways + 1)]
    res = [None] * ways
    tag = kw.pop("tag", "r")

    def work(k):
        try:
            res[k] = run_cases(ctx, exe, env, cases[bounds[k]:bounds[k + 1]], tag="%s%d" % (tag, k), **kw)
        except BaseException as e:      # re-raised in the caller
            res[k] = e
    ts = [threading.Thread(target=work, args=(k,)) for k in range(ways)]
    for t in ts:
        t.start()
    for t in ts:
        t.join()
    outs, crashes, info = {}, [], {"skipped": 0, "soft_reports": [], "halting_to_the_end": True}
    for k in range(ways):
        if isinstance(res[k], BaseException):
            raise res[k]
        o, c, inf = res[k]
        off = bounds[k]
        for i, rec in o.items():
            rec["beh"] = i + off
            outs[i + off] = rec
        for cr in c:
            cr["beh"] += off
            crashes.append(cr)
        info["skipped"] += inf["skipped"]
        for r in inf["soft_reports"]:
            if r not in info["soft_reports"]:
                info["soft_reports"].append(r)
        info["halting_to_the_end"] = info["halting_to_the_end"] and inf["halting_to_the_end"]
    return outs, crashes, info


def crash_sig(c, action):
    """specific signature of a crash: sanitizer kind + location + the action that was executing"""
    if c.get("reports"):
        k, loc, fn = c["reports"][0]
        return "crash:%s:%s@%s:%s" % (action, k, fn or "?", loc.split(":")[0])
    return "crash:%s:%s" % (action, c["crash"])


def latin1(b):
    """bytes -> str that json.dumps writes as \\u00XX, which mini_json turns back into bytes"""
    return b.decode("latin-1")


class Phases:
    """wall time per phase of a check, reported in the evidence notes"""
    def __init__(self, ctx):
        self.ctx, self.t, self.acc = ctx, time.time(), []

    def mark(self, name):
        now = time.time()
        self.acc.append("%s=%.0fs" % (name, now - self.t))
        self.t = now

    def done(self):
        self.ctx.notes.append("phase wall: " + " ".join(self.acc))


def tlc_many(ctx, jobs, par=4):
    """run several TLC generation jobs side by side (each with workers=1): jobs = [(name, kwargs for ctx.tlc)];
    returns {name: TlcResult}.  JVM start-up dominates small runs, so this saves wall time."""
    import threading
    res, lock = {}, threading.Semaphore(par)

    def work(name, kw, delay):
        time.sleep(delay)            # distinct metadir names (vlib derives them from the clock)
        with lock:
            try:
                res[name] = ctx.tlc(**kw)
            except BaseException as e:
                res[name] = e
    ts = [threading.Thread(target=work, args=(n, kw, 0.2 * i)) for i, (n, kw) in enumerate(jobs)]
    for t in ts:
        t.start()
    for t in ts:
        t.join()
    for n, r in res.items():
        if isinstance(r, BaseException):
            raise r
    return res


def b_json_tolerant(r, what=""):
    """vlib.b_json, but a behaviour line that TLC's periodic progress report cut in two is dropped
    (and counted) instead of failing the check; more than a handful of them is a broken check."""
    out, bad = [], 0
    for line in r.printed:
        try:
            i = line.index(",") + 1
            lit = line[i:].strip()
            if not lit.endswith(">>"):
                raise ValueError
            out.append(json.loads(json.loads(lit[:-2].strip())))
        except ValueError:
            bad += 1
    if bad > max(3, len(r.printed) // 200):
        raise Broken("%d of %d behaviour lines of %s are unreadable" % (bad, len(r.printed), what))
    return out


def load_replay(path):
    """a replay artefact written by these checks: ndjson of {"case": harness input, "spec": the spec's behaviour}"""
    recs = []
    for line in open(path):
        line = line.strip()
        if line:
            rec = json.loads(line)
            if "case" not in rec or "spec" not in rec:
                raise Broken("%s is not a replay artefact of this check" % path)
            recs.append(rec)
    if not recs:
        raise Broken("empty replay artefact %s" % path)
    return recs


def finish_keeping_evidence(ctx):
    """--replay re-executes one artefact; it must not overwrite the evidence of the last full run"""
    ev = os.path.join(os.path.dirname(os.path.dirname(os.path.abspath(__file__))), "evidence", ctx.pid + ".json")
    old = open(ev).read() if os.path.exists(ev) else None
    rc = ctx.finish(exhaustive=False)
    if old is not None:
        open(ev, "w").write(old)
    return rc
