"""C02 -- device memory behaves like an aliased byte array; misuse raises errors.
Spec runtime/DeviceMemory.tla (+ trace/DeviceMemoryTrace.tla); MC: mc/DM_design.cfg; behaviour
generation: mc/DM_gen2[t]|shapes[_t]|sim.cfg; replayer harness/devmem_replay.cpp; random driver
harness/devmem_driver.cpp.

The oracle is the TLA+ spec: every behaviour TLC prints carries, per call, the predicted outcome
("ok"/"error"), the bytes a read returns and the full observation (every handle: initialised, byte
size, dtype size, bytes; the wrapped host array).  Python only concretises the HUGE/NEGHUGE tokens,
compares and classifies.
"""
import json, os, random, re, threading, time
import vlib
from vlib import Broken, b_json

HUGE, NEGHUGE = 1000000, -1000000
HUGE_VALUES = [2 ** 31, 2 ** 62, 2 ** 63 - 1, 2 ** 62 + 1, 2 ** 61]
NEGHUGE_VALUES = [-2 ** 31 - 1, -2 ** 62, -2 ** 63, -2 ** 61]
SENT = 0xEE
DTYPES = {1: ["byte", "char", "uint8", "int8", "bool"], 2: ["short", "int16", "uint16", "char2"], 3: ["char3", "uchar3"],
          4: ["int", "int32", "uint32", "float", "uchar4", "short2"], 8: ["double", "int64", "float2"]}
ACTIONS = ["Malloc", "MallocFrom", "Wrap", "Slice", "Offset", "Cast", "Clone", "H2D", "D2H", "D2D", "Free", "HostPoke"]


# ----------------------------------------------------------------------------- classification
def cls(a, L, is_count=False):
    """argument class relative to the element count L of the handle the call is made on"""
    if a == HUGE:
        return "HUGE"
    if a == NEGHUGE:
        return "NEGHUGE"
    if a == -1 and is_count:
        return "dflt"
    if a < 0:
        return "neg"
    if a == 0:
        return "zero"
    if a < L:
        return "in"
    if a == L:
        return "end"
    return "over"


def pre_elems(prev_obs, v):
    if v == 0 or prev_obs is None:
        return 0
    o = prev_obs["v"][v - 1]
    return (o["n"] // o["e"]) if o["i"] else 0


def arg_class(s, prev_obs):
    """specific signature part: action arguments by class + shape of the handles involved"""
    c = s["c"]
    a = c["a"]
    L = pre_elems(prev_obs, c["v"])
    if a in ("Malloc", "MallocFrom"):
        k = "n=" + cls(c["x"], 10 ** 9) + (",init" if c["f"] else "")
        if a == "MallocFrom":
            k += ",src=" + s["kind"]
        return k
    if a == "Wrap":
        return "n=" + cls(c["y"], 10 ** 9)
    if a in ("Slice", "H2D", "D2H"):
        return "off=%s,cnt=%s,on=%s" % (cls(c["x"], L), cls(c["y"], L, True), s["kind"])
    if a == "Offset":
        return "off=%s,on=%s" % (cls(c["x"], L), s["kind"])
    if a in ("Cast", "Clone", "Free"):
        return "on=%s" % s["kind"]
    if a == "HostPoke":
        return "at=%d,n=%d" % (c["x"], c["y"])
    if a == "D2D":
        Ls = pre_elems(prev_obs, c["w"])
        same = ""
        if prev_obs is not None and c["v"] and c["w"]:
            same = ",same-handle" if c["v"] == c["w"] else ""
        return "%s,doff=%s,soff=%s,cnt=%s,dst=%s,src=%s%s" % ("copyFrom" if c["f"] else "copyTo", cls(c["x"], L), cls(c["z"], Ls),
                                                           cls(c["y"], L if c["f"] else Ls, True), s["kind"], s["kind2"], same)
    return ""


def coarse_class(s, prev_obs):
    """coverage cell: (shape of the handle, action, validity class)"""
    return (s["kind"], s["c"]["a"], s["res"])


# ----------------------------------------------------------------------------- concretisation
def concretise(beh, rng, mode, nviews, host, quiet_prefix=0):
    """spec behaviour -> replayer case.  HUGE/NEGHUGE become several concrete 64-bit values (only calls
    the spec predicts to fail carry tokens, so repeating them must leave everything unchanged)."""
    steps = []
    for s in beh:
        c = s["c"]
        vals = []
        for key in ("x", "y", "z"):
            a = c[key]
            if a == HUGE:
                vals.append(list(HUGE_VALUES))
            elif a == NEGHUGE:
                vals.append(list(NEGHUGE_VALUES))
            else:
                vals.append([a])
        n = max(len(v) for v in vals)
        if n > 1 and s["res"] != "error":
            raise Broken("spec predicts %s for a call with a HUGE/NEGHUGE argument: %s" % (s["res"], c))
        alts = [[str(v[i % len(v)]) for v in vals] for i in range(n)]
        steps.append({"a": c["a"], "v": c["v"], "w": c["w"], "t": c["t"], "e": c["e"], "f": c["f"],
                      "g": rng.randrange(2), "dt": rng.choice(DTYPES[c["e"]]), "pat": c["pat"], "alts": alts,
                      "noobs": 1 if len(steps) < quiet_prefix else 0})
    return {"mode": mode, "nviews": nviews, "host": host, "steps": steps}


# ----------------------------------------------------------------------------- replay (fan-out)
def run_chunk(ctx, exe, env, cases, idx, res, tag="rep"):
    """like vlib.run_replayer, for one chunk with its own file names (called from threads)"""
    inp = os.path.join(ctx.tmp, "dm-%s-in-%d.ndjson" % (tag, idx))
    outp = os.path.join(ctx.tmp, "dm-%s-out-%d.ndjson" % (tag, idx))
    with open(inp, "w") as f:
        for c in cases:
            f.write(json.dumps(c) + "\n")
    open(outp, "w").close()
    start, crashes, outs = 0, [], {}
    restarts = 0
    try:
        while start < len(cases):
            rc, out = vlib.sh([exe, inp, outp, str(start)], timeout=1800, env=env)
            if rc == 0:
                break
            restarts += 1
            last, done = None, -1
            for line in open(outp):
                try:
                    rec = json.loads(line)
                except ValueError:
                    continue
                if "crash" in rec:
                    last = rec
                elif "beh" in rec:
                    done = max(done, rec["beh"])
            if last is None or last.get("beh", -1) < start:
                last = {"crash": "exit-%d" % rc, "beh": max(done + 1, start), "step": -1}
            last["log"] = out[-4000:]
            crashes.append(last)
            start = last["beh"] + 1
            lines = [l for l in open(outp) if '"crash"' not in l]
            open(outp, "w").writelines(lines)
            if restarts >= MAX_RESTARTS:
                # a crash storm (every restart costs seconds): the violations are established, stop this chunk
                ctx.cov["replay_chunks_cut_after_crashes"] = ctx.cov.get("replay_chunks_cut_after_crashes", 0) + 1
                break
        for line in open(outp):
            try:
                rec = json.loads(line)
            except ValueError:
                raise Broken("unparseable replayer output: %r" % line[:200])
            if "beh" in rec:
                outs[rec["beh"]] = rec
        res[idx] = (outs, crashes, None)
    except Exception as e:  # noqa
        res[idx] = ({}, [], e)
    finally:
        for p in (inp, outp):
            try:
                os.remove(p)
            except OSError:
                pass


def replay_all(ctx, exe, env, cases, fan, tag="rep", min_chunk=200):
    n = len(cases)
    fan = max(1, min(fan, (n + min_chunk - 1) // min_chunk))
    bounds = [(i * n // fan, (i + 1) * n // fan) for i in range(fan)]
    res = {}
    ths = []
    for i, (lo, hi) in enumerate(bounds):
        e = dict(env)
        e["OCCA_CACHE_DIR"] = env["OCCA_CACHE_DIR"] + "-%s%d" % (tag, i)
        t = threading.Thread(target=run_chunk, args=(ctx, exe, e, cases[lo:hi], i, res, tag))
        t.start()
        ths.append(t)
    for t in ths:
        t.join()
    outs, crashes = {}, []
    for i, (lo, hi) in enumerate(bounds):
        o, c, err = res[i]
        if err is not None:
            raise err if isinstance(err, Broken) else Broken("replay chunk failed: %r" % err)
        for k, v in o.items():
            outs[lo + k] = v
        for cr in c:
            cr = dict(cr)
            cr["beh"] += lo
            crashes.append(cr)
    return outs, crashes


# ----------------------------------------------------------------------------- comparison
def bytes_differ(model, impl):
    """first index where the implementation's bytes differ from the model's (U = -1 matches anything)"""
    if len(model) != len(impl):
        return min(len(model), len(impl))
    for i, (m, x) in enumerate(zip(model, impl)):
        if m != -1 and m != x:
            return i
    return None


def compare_step(s, o, prev_obs):
    """s = spec record, o = replayer outcome of one concretisation.  Returns None or (sigpart, text)."""
    c = s["c"]
    a = c["a"]
    if o.get("noobs") and not o.get("ubsan"):
        # scripted prefix step, fully observed in the first behaviour of its group: outcome only
        if o["res"] != s["res"]:
            return ("%s->%s" % (s["res"], o["res"]), "outcome %s, spec predicts %s (%s)" % (o["res"], s["res"], o.get("what", "")))
        return None
    if o.get("ubsan"):
        m = re.match(r"([^@]*)@([^:]*)", o["ubsan"])
        return ("ubsan-%s-%s" % (m.group(1), m.group(2)), "UBSan report %s during the call (outcome %s, spec predicts %s)" % (o["ubsan"], o["res"], s["res"]))
    if o["res"] != s["res"]:
        return ("%s->%s" % (s["res"], o["res"]), "outcome %s, spec predicts %s (%s)" % (o["res"], s["res"], o.get("what", "")))
    # the host destination of copyTo
    rd = s["rd"] if (a == "D2H" and s["res"] == "ok") else []
    got = o["rd"]
    d = bytes_differ(rd, got[:len(rd)])
    if d is not None:
        return ("read", "copyTo returned %s, spec %s" % (got[:len(rd)], rd))
    if any(x != SENT for x in got[len(rd):]) or o["rdtail"] != 1:
        return ("read-overrun", "copyTo wrote beyond the %d requested bytes: %s" % (len(rd), got[:len(rd) + 8]))
    # every handle
    for i, (m, x) in enumerate(zip(s["obs"]["v"], o["v"])):
        who = "handle %d" % (i + 1)
        if m["i"] != x["i"]:
            return ("obs:init", "%s isInitialized=%d, spec %d" % (who, x["i"], m["i"]))
        if not m["i"]:
            if x["n"] != 0:
                return ("obs:size", "%s uninitialised but reports a size" % who)
            continue
        if x.get("err"):
            return ("obs:exception", "%s: reading it back raised" % who)
        if x["n"] != m["n"]:
            return ("obs:byte_size", "%s byte_size=%d, spec %d" % (who, x["n"], m["n"]))
        if x["e"] != m["e"]:
            return ("obs:dtype", "%s dtype size=%d, spec %d" % (who, x["e"], m["e"]))
        if x["l"] != m["n"] // m["e"] or x["s"] != x["l"]:
            return ("obs:length", "%s length=%d size=%d, spec %d" % (who, x["l"], x["s"], m["n"] // m["e"]))
        d = bytes_differ(m["b"], x["b"])
        if d is not None:
            return ("obs:bytes", "%s reads %s, spec %s (first difference at byte %d)" % (who, x["b"], m["b"], d))
        if x["tail"] != 1:
            return ("obs:overrun", "%s: copyTo wrote past the view" % who)
    if bytes_differ(s["obs"]["h"], o["h"]) is not None:
        return ("obs:host", "host array is %s, spec %s" % (o["h"], s["obs"]["h"]))
    return None


def crash_kind(log):
    m = re.search(r"ERROR: AddressSanitizer: (\S+)", log or "")
    if m:
        return "asan-" + m.group(1)
    m = re.search(r"runtime error: ([a-z \-]+)", log or "")
    if m:
        return "ubsan-" + "-".join(m.group(1).split()[:4])
    return None


def describe(beh, upto):
    out = []
    for s in beh[:upto + 1]:
        c = s["c"]
        out.append("%s(v=%d,w=%d,x=%d,y=%d,z=%d,e=%d,f=%d)->%s" % (c["a"], c["v"], c["w"], c["x"], c["y"], c["z"], c["e"], c["f"], s["res"]))
    return " ; ".join(out)


MAX_REPORTS = 40
MAX_RESTARTS = 30


def report(ctx, sig, what, replay):
    """ctx.mismatch with a cap: one wrong handle makes every later observation differ, under many signatures"""
    if len(ctx.mismatches) < MAX_REPORTS or (ctx.pid, sig) in ctx.known:
        ctx.mismatch(sig, what, replay)
    else:
        ctx.cov["mismatches_not_reported"] = ctx.cov.get("mismatches_not_reported", 0) + 1


# ----------------------------------------------------------------------------- main
_tlc_slots = threading.Semaphore(4)


def gen(ctx, cfg, sim=None, depth=None, workers=2, timeout=1500):
    # a simulation that hits the timeout still delivers the behaviours printed so far
    with _tlc_slots:
        g = ctx.tlc("mc/MC_DeviceMemory.tla", cfg, workers=workers, simulate=sim, depth=(depth + 2 if depth else None), timeout=timeout)
    if g.rc not in (0,) and not g.printed:
        raise Broken("generation failed (%s): %s" % (cfg, g.out[-2000:]))
    bs = b_json(g)
    if not bs:
        raise Broken("no behaviours generated by %s:\n%s" % (cfg, g.out[-1500:]))
    return bs


CFG_SHAPE = {  # cfg -> (nviews, host array, behaviours start with a scripted prefix)
    "mc/DM_gen2.cfg": (3, [201, 202, 203, 204], False),
    "mc/DM_gen2t.cfg": (3, [201, 202, 203, 204], False),
    "mc/DM_shapes.cfg": (7, [201, 202, 203, 204, 205, 206, 207, 208], True),
    "mc/DM_shapes_t.cfg": (7, [201, 202, 203, 204, 205, 206, 207, 208], True),
    "mc/DM_sim.cfg": (6, [201, 202, 203, 204, 205, 206, 207, 208], False),
}


class Par:
    """run callables in threads, re-raise the first failure"""
    def __init__(self):
        self.ths, self.res, self.err = [], {}, []

    def go(self, name, fn, *a, **kw):
        def w():
            try:
                self.res[name] = fn(*a, **kw)
            except BaseException as e:  # noqa
                self.err.append(e)
        t = threading.Thread(target=w)
        t.start()
        self.ths.append(t)

    def wait(self):
        for t in self.ths:
            t.join()
        if self.err:
            e = self.err[0]
            raise e if isinstance(e, Broken) else Broken("worker failed: %r" % (e,))
        return self.res


# ---------------------------------------------------------------- trace validation (code -> spec)
def run_driver(ctx, exe, env, dcases):
    outs, crashes = replay_all(ctx, exe, env, dcases, len(dcases), tag="drv", min_chunk=1)
    return outs, crashes


def validate_traces(ctx, lines, what):
    """lines = the concatenated log (Reset + events).  Returns the list of (line, verdict names, call)."""
    path = os.path.join(ctx.tmp, "dm-trace-%s.ndjson" % what)
    with open(path, "w") as f:
        for rec in lines:
            f.write(json.dumps(rec) + "\n")
    with _tlc_slots:
        r = ctx.tlc("trace/DeviceMemoryTrace.tla", "trace/DeviceMemoryTrace.cfg", workers=1, env={"TRACE": path},
                    deadlock=True, timeout=3000)
    verdicts = []
    for line in r.out.splitlines():
        if line.startswith('<<"V"'):
            lit = line[line.index(",") + 1:].strip()[:-2].strip()
            v = json.loads(json.loads(lit))
            verdicts.append((v["l"], list(v["bad"]), lines[v["l"] - 1]))
    if r.rc != 0 and not verdicts:
        raise Broken("trace validation failed without a verdict (rc=%s, violated=%s):\n%s" % (r.rc, r.violated, vlib.tail(r.out, 40)))
    if r.violated:
        verdicts.append((-1, ["Invariant:" + str(r.violated)], {}))
    return r, verdicts


def trace_part(ctx, drv, env, thorough):
    n_exec, n_ev = (12, 5000) if thorough else (4, 600)
    dcases = [{"mode": "Serial" if i % 2 == 0 else "OpenMP", "seed": ctx.seed * 1000 + i, "events": n_ev, "nviews": 6,
               "hostlen": 16, "maxbytes": 16} for i in range(n_exec)]
    outs, crashes = run_driver(ctx, drv, env, dcases)
    for cr in crashes:
        kind = crash_kind(cr.get("log")) or cr["crash"]
        report(ctx, "driver-crash:%s" % kind, "random driver %s crashed at event %s: %s\n%s" %
                     (dcases[cr["beh"]], cr["step"], kind, (cr.get("log") or "")[-1200:]), [{"driver": dcases[cr["beh"]]}])
    lines, index = [], []
    for i in sorted(outs):
        o = outs[i]
        lines.append({"a": "Reset", "host": o["host"], "mode": o["mode"], "seed": o["seed"]})
        index.append((i, len(lines)))
        lines += o["events"]
    if not lines:
        return {"executions": 0, "events": 0}
    r, verdicts = validate_traces(ctx, lines, "all")
    for (l, names, call) in verdicts:
        if l < 1:
            report(ctx, "trace:%s" % names[0], "DeviceMemoryTrace: %s violated while consuming the driver log" % names[0], lines)
            continue
        ev = lines[l - 1]
        first = max(j for j in range(l) if lines[j]["a"] == "Reset")
        prev = lines[l - 2]["obs"] if l - 2 > first else None
        s = {"c": call, "kind": "?", "kind2": "?", "res": ev["res"]}
        sig = "trace:%s:%s:%s" % (ev["a"], "+".join(names), re.sub(r",?(on|dst|src)=\?", "", arg_class(s, prev)))
        report(ctx, sig, "driver execution (mode %s, seed %s), event %d: %s(v=%s,w=%s,x=%s,y=%s,z=%s,e=%s,f=%s) gave %s%s; the spec disagrees on %s" %
                     (lines[first]["mode"], lines[first]["seed"], l - first - 1, ev["a"], ev["v"], ev["w"], ev["x"], ev["y"], ev["z"], ev["e"],
                      ev["f"], ev["res"], (" ubsan=" + ev["ubsan"]) if ev.get("ubsan") else "", names),
                     lines[first:l])
    consumed = sum(1 for x in lines if x["a"] != "Reset")
    return {"executions": len(outs), "events": consumed, "rejected_events": len(verdicts), "tlc_states": r.distinct}


def run(ctx):
    rng = random.Random(ctx.seed)
    thorough = ctx.tier == "thorough"
    W = 8 if thorough else 4
    exe, lib = ctx.build_harness("devmem_replay", ["devmem_replay.cpp"])
    drv, _ = ctx.build_harness("devmem_driver", ["devmem_driver.cpp"])
    env = ctx.occa_env(lib)
    # UBSan reports are recorded per call by the harnesses (their __ubsan_on_report hook) instead of killing them
    env["UBSAN_OPTIONS"] = "print_stacktrace=0:halt_on_error=0"

    if ctx.replay:
        recs = [json.loads(l) for l in open(ctx.replay) if l.strip()]
        if recs and "a" in recs[0]:           # a driver log
            r, verdicts = validate_traces(ctx, recs, "replay")
            for (l, names, call) in verdicts:
                report(ctx, "trace:%s:%s" % (recs[l - 1]["a"] if l > 0 else "-", "+".join(names)), "event %d: %s" % (l, call), recs)
            ctx.cov["trace_events"] = len(recs)
            return ctx.finish(exhaustive=False)
        if recs and "driver" in recs[0]:      # a driver case that crashed
            res = trace_part_cases(ctx, drv, env, [r["driver"] for r in recs])
            return ctx.finish(exhaustive=False)
        behs = [r["spec"] for r in recs]
        cases = [r["case"] for r in recs]
        tr = None
    else:
        par = Par()
        # 1. design run + vacuity
        def design():
            with _tlc_slots:
                return ctx.tlc("mc/MC_DeviceMemory.tla", "mc/DM_design_t.cfg" if thorough else "mc/DM_design.cfg",
                               coverage=True, workers=W, timeout=3000)
        par.go("design", design)
        # 2. behaviours
        if thorough:
            plan = [("mc/DM_gen2t.cfg", None, None), ("mc/DM_shapes_t.cfg", None, None), ("mc/DM_sim.cfg", 400, 15)]
        else:
            plan = [("mc/DM_gen2.cfg", None, None), ("mc/DM_shapes.cfg", None, None), ("mc/DM_sim.cfg", 25, 15)]
        for cfg, sim, depth in plan:
            par.go(cfg, gen, ctx, cfg, sim, depth, workers=(W if sim else 2))
        # 3. random driver + trace validation, concurrently
        par.go("trace", trace_part, ctx, drv, env, thorough)
        res = par.wait()
        r = res["design"]
        ctx.tlc_must_pass(r, "DeviceMemory design")
        ctx.require_coverage(r, ACTIONS)
        ctx.cov["design_states"] = r.distinct
        tr = res["trace"]
        behs, cases = [], []
        per_cfg = {}
        for cfg, sim, depth in plan:
            bs = res[cfg]
            nviews, host, scripted = CFG_SHAPE[cfg]
            seen = set()
            kept = 0
            for b in bs:
                key = json.dumps([[s["c"], s["res"]] for s in b], sort_keys=True)
                if key in seen:
                    continue
                seen.add(key)
                kept += 1
                # scripted prefix + one free call: the prefix is identified by its first command
                plen = (len(b) - 1) if scripted else 0
                behs.append((key, b, nviews, host, plen, cfg + ":" + (json.dumps(b[0]["c"], sort_keys=True) if scripted else "")))
            per_cfg[os.path.basename(cfg)] = kept
        ctx.cov["behaviours_by_config"] = per_cfg
        # canonical order (TLC's multi-worker output order is not deterministic)
        behs.sort(key=lambda t: (t[2], t[0]))
        tmp = behs
        behs = []
        observed_prefix = set()    # (cfg, device): the scripted prefix is fully observed in its first two behaviours per device
        for i, (key, b, nviews, host, plen, cfg) in enumerate(tmp):
            mode = "Serial" if i % 2 == 0 else "OpenMP"
            quiet = 0
            if plen:
                n_seen = sum(1 for x in observed_prefix if x[:2] == (cfg, mode))
                if n_seen >= 2:
                    quiet = plen
                else:
                    observed_prefix.add((cfg, mode, n_seen))
            behs.append(b)
            cases.append(concretise(b, rng, mode, nviews, host, quiet))
        if thorough:
            # the shape-coverage behaviours once more on the other device
            extra = [(b, c) for (b, c) in zip(behs, cases) if c["nviews"] >= 6 and len(b) <= 7]
            for b, c in extra:
                c2 = dict(c)
                c2["mode"] = "OpenMP" if c["mode"] == "Serial" else "Serial"
                behs.append(b)
                cases.append(c2)

    t_gen = time.time() - ctx.t0
    outs, crashes = replay_all(ctx, exe, env, cases, 8 if thorough else 6)
    t_rep = time.time() - ctx.t0 - t_gen

    steps_checked = calls_executed = 0
    cells = {}
    modes = {}
    for cr in crashes:
        i = cr["beh"]
        b = behs[i]
        j = cr["step"]
        kind = crash_kind(cr.get("log")) or cr["crash"]
        if 0 <= j < len(b):
            prev = b[j - 1]["obs"] if j else None
            sig = "crash:%s:%s:%s" % (kind, b[j]["c"]["a"], arg_class(b[j], prev))
            what = "%s in step %d of [%s] on %s" % (kind, j, describe(b, j), cases[i]["mode"])
        else:
            sig = "crash:%s:outside-steps" % kind
            what = "%s outside the steps of [%s]\n%s" % (kind, describe(b, len(b)), (cr.get("log") or "")[-1500:])
        report(ctx, sig, what, [{"case": cases[i], "spec": b}])
    for i, b in enumerate(behs):
        o = outs.get(i)
        if o is None:
            continue
        modes[o["mode"]] = modes.get(o["mode"], 0) + 1
        prev = None
        for j, s in enumerate(b):
            steps_checked += 1
            cell = coarse_class(s, prev)
            cells[cell] = cells.get(cell, 0) + 1
            bad = None
            for q, alt in enumerate(o["obs"][j]):
                calls_executed += 1
                bad = compare_step(s, alt, prev)
                if bad:
                    big = ""
                    if len(o["obs"][j]) > 1:
                        big = " with (x,y,z)=(" + ",".join(cases[i]["steps"][j]["alts"][q]) + ")"
                    sig = "%s:%s:%s" % (s["c"]["a"], bad[0], arg_class(s, prev))
                    report(ctx, sig, "%s after [%s]%s on %s: %s" % (s["c"]["a"], describe(b, j), big, o["mode"], bad[1]),
                                 [{"case": cases[i], "spec": b}])
                    break
            if bad:
                break   # the rest of this behaviour runs from a diverged state
            prev = s["obs"]

    # transition coverage of the shape classes: every call on every shape, valid and invalid
    if not ctx.replay:
        need = []
        for kind in ("buf", "slice", "slice2", "cast", "clone", "wrap"):
            for a in ("Slice", "Offset", "H2D", "D2H", "D2D"):
                need += [(kind, a, "ok"), (kind, a, "error")]
            need += [(kind, "Cast", "ok"), (kind, "Clone", "ok"), (kind, "Free", "ok"), (kind, "MallocFrom", "ok"),
                     (kind, "MallocFrom", "error")]
        for a in ("Slice", "Offset", "Clone", "H2D", "D2H", "Free"):
            need.append(("none", a, "ok"))
        need += [("none", "HostPoke", "ok"), ("none", "Cast", "error"), ("none", "D2D", "error"), ("none", "D2D", "ok"), ("none", "Malloc", "ok"),
                 ("none", "Malloc", "error"), ("none", "Wrap", "ok"), ("none", "Wrap", "error")]
        missing = [c for c in need if not cells.get(c)]
        if missing:
            raise Broken("transition coverage: shape/action/outcome classes never replayed: %s" % missing[:12])
        ctx.cov["shape_action_outcome_classes"] = len(cells)
        ctx.cov["shape_action_outcome_required"] = len(need)
        ctx.cov["trace_validation"] = tr
    ctx.traces_validated = len(outs) + (tr["executions"] if tr else 0)
    ctx.samples = [{"mode": cases[i]["mode"], "calls": describe(behs[i], len(behs[i]))} for i in
                   sorted(set([0, len(cases) // 3, 2 * len(cases) // 3, len(cases) - 1]))]
    ctx.cov["phase_s"] = {"build+tlc+driver": round(t_gen, 1), "replay": round(t_rep, 1),
                          "compare": round(time.time() - ctx.t0 - t_gen - t_rep, 1)}
    ctx.cov.update({"behaviours_replayed": len(outs), "steps_checked": steps_checked, "calls_executed": calls_executed,
                    "crashes": len(crashes), "behaviours_by_device": modes})
    ctx.assumptions += [
        "replay: device allocations <= 8 bytes, <= 7 live handles, dtype sizes 1/2/4 (15 builtin dtypes; also 3-byte char3/uchar3 in simulation and the thorough tier), one 8-byte host array for wrapMemory",
        "trace validation: allocations <= 16 bytes, 6 handle slots, a 16-byte host array, random data bytes 1..255",
        "HUGE/NEGHUGE are concretised to +-2^31, 2^61, 2^62, 2^62+1, 2^63-1, -2^63; malloc sizes stay <= 16 bytes (no huge allocations)",
        "bytes of a malloc without initial data are undefined in the spec and not compared until written",
        "ASan/UBSan (incl. memcpy-param-overlap, signed overflow) active during replay; a sanitizer report is a mismatch",
        "each handle slot is one occa::memory; handle life cycle (copies of handles, reference counts) belongs to C01",
        "use_host_pointer allocations and memory pools are out of scope here (C05, C03/C04)"]
    return ctx.finish(exhaustive=False)


def trace_part_cases(ctx, drv, env, dcases):
    outs, crashes = run_driver(ctx, drv, env, dcases)
    for cr in crashes:
        kind = crash_kind(cr.get("log")) or cr["crash"]
        report(ctx, "driver-crash:%s" % kind, "random driver %s crashed at event %s" % (dcases[cr["beh"]], cr["step"]), [{"driver": dcases[cr["beh"]]}])
    return outs
