"""C26 -- mode-specific properties override generic ones only for their mode.
Spec types/Props.tla (+ mc/MC_Props.tla); cfgs mc/Props_gen.cfg (exhaustive over the 2^13 present/absent
combinations of the 13 layers; invariants on), mc/Props_sim.cfg (random shapes per layer and target);
replayer harness/props_replay.cpp.
"""
import json, os, random, re, time
from concurrent.futures import ThreadPoolExecutor
from vlib import Broken, b_json, run_replayer, sh

WORKERS = int(os.environ.get("VERIF_WORKERS", "8"))
FANOUT = int(os.environ.get("VERIF_FANOUT", "4"))
OBJECTS = ("kernel", "memory", "stream")


def flat(j, pre=()):
    """json value -> {path tuple: scalar}; empty objects carry no entry (as in the spec)."""
    out = {}
    if isinstance(j, dict):
        for k, v in j.items():
            out.update(flat(v, pre + (k,)))
    else:
        out[pre] = j
    return out


def tree(seq):
    return {tuple(e["p"]): e["v"] for e in seq}


def layer_class(v):
    """'UmoA-kernel' -> ('Umo', 'A', 'kernel'); non-marker values -> (str(v), '', '')"""
    m = re.match(r"^(Sg|Som|Smo|Ug|Uom|Umo|Eg|Em)([AB]?)-(\w+)$", str(v))
    return (m.group(1), m.group(2), m.group(3)) if m else (str(v), "", "")


def classify(obs, exps, mode_letter):
    other = "B" if mode_letter == "A" else "A"
    for v in obs.values():
        if layer_class(v)[1] == other:
            return "other-mode-entry:" + layer_class(v)[0]
    e = exps[0]
    if set(obs) != set(e):
        extra = sorted("/".join(p) for p in set(obs) - set(e))
        miss = sorted("/".join(p) for p in set(e) - set(obs))
        return "keyset:+%s:-%s" % (",".join(extra)[:40], ",".join(miss)[:40])
    for p in sorted(e):
        if obs[p] != e[p]:
            return "winner:exp=%s:got=%s" % (layer_class(e[p])[0], layer_class(obs[p])[0])
    return "differs"


def replay_parallel(ctx, exe, env, cases, chunks):
    n = len(cases)
    if n == 0:
        return {}, []
    size = (n + chunks - 1) // chunks
    parts = [(i, cases[i:i + size]) for i in range(0, n, size)]

    def one(arg):
        k, (off, part) = arg
        time.sleep(0.05 * k)        # run_replayer names its files by the clock
        outs, crashes = run_replayer(ctx, exe, env, part, timeout=1500)
        return ({off + i: o for i, o in outs.items()},
                [dict(c, beh=c["beh"] + off) for c in crashes])

    outs, crashes = {}, []
    with ThreadPoolExecutor(max_workers=chunks) as ex:
        for o, c in ex.map(one, enumerate(parts)):
            outs.update(o)
            crashes += c
    return outs, crashes


def strip(b):
    """what the replayer gets: the calls, without the spec's predictions"""
    return {"steps": [{k: v for k, v in s.items() if k not in ("exp", "exp0")} for s in b]}


def compare(ctx, b, o, where, modeseq):
    """compare one replayed behaviour with the spec's predictions; returns number of asks checked"""
    case = {"steps": b}          # the replay artefact keeps the spec's predictions (the replayer ignores them)
    asked = 0
    devdump = {}
    for j, s in enumerate(b):
        ob = o["obs"][j]
        if "err" in ob:
            ctx.mismatch("exception:%s%s" % (s["a"], where), "unexpected exception in %s: %s" % (s, ob["err"][:300]), [case])
            return asked
        if s["a"] == "create":
            if ob["mode"] != s["m"]:
                ctx.mismatch("create:mode%s" % where, "device(mode=%s).mode() = %s" % (s["m"], ob["mode"]), [case])
        if s["a"] != "ask":
            continue
        asked += 1
        letter = "A" if s["m"] == modeseq[0] else "B"
        exp0 = [tree(t) for t in s["exp0"]]
        if s["o"] == "device":
            full = ob["p0"]
            devdump[s["m"]] = full
            own = flat({k: v for k, v in full.items() if k not in OBJECTS})
            if own not in exp0:
                ctx.mismatch("ask:device:%s%s" % (classify(own, exp0, letter), where),
                             "device(%s).properties() own entries = %s; spec accepts %s" % (s["m"], own, exp0), [case])
            # other-mode markers anywhere in the dump (also inside the object sections)
            for v in flat(full).values():
                if layer_class(v)[1] not in ("", letter):
                    ctx.mismatch("ask:device:other-mode-entry-anywhere%s" % where,
                                 "device(%s).properties() contains %s" % (s["m"], v), [case])
            continue
        exp = [tree(t) for t in s["exp"]]
        p0, p = flat(ob["p0"]), flat(ob["p"])
        if p0 not in exp0:
            ctx.mismatch("ask:%s:noarg:%s%s" % (s["o"], classify(p0, exp0, letter), where),
                         "device(%s).%sProperties() = %s; spec accepts %s" % (s["m"], s["o"], p0, exp0), [case])
        if p not in exp:
            ctx.mismatch("ask:%s:percall:%s%s" % (s["o"], classify(p, exp, letter), where),
                         "device(%s).%sProperties(extra) = %s; spec accepts %s" % (s["m"], s["o"], p, exp), [case])
        # the section of properties() and <o>Properties() are the same object
        if s["m"] in devdump and flat(devdump[s["m"]].get(s["o"], {})) != p0:
            ctx.mismatch("ask:%s:section-differs%s" % (s["o"], where),
                         "properties()[%s] = %s but %sProperties() = %s" % (s["o"], devdump[s["m"]].get(s["o"]), s["o"], p0), [case])
    return asked


def settings_file(b):
    """the settings assignments of a behaviour as a config.json (format conversion only)"""
    root = {}
    for s in b:
        if s["a"] == "set":
            for a in s["sets"]:
                if a["t"] == "settings":
                    d = root
                    for k in a["p"][:-1]:
                        d = d.setdefault(k, {})
                    d[a["p"][-1]] = a["v"]
    return root


def finish_replay(ctx):
    """--replay: report what was reproduced; the evidence file is not touched"""
    import shutil
    for (sig, what, path) in ctx.mismatches:
        print("VIOLATION property=%s replay=%s sig=%s :: %s" % (ctx.pid, ctx.replay, sig, " | ".join(what.splitlines())[:900]))
    if not ctx.mismatches:
        print("REPLAY-OK property=%s replay=%s: the implementation now conforms on this artefact" % (ctx.pid, ctx.replay))
    shutil.rmtree(ctx.tmp, ignore_errors=True)
    return 1 if ctx.mismatches else 0


def replay(ctx, modeseq):
    behaviours = [json.loads(l)["steps"] for l in open(ctx.replay) if l.strip()]
    cases = [strip(b) for b in behaviours]
    exe, lib = ctx.build_harness("props_replay", ["props_replay.cpp"], variant="fast")
    env = ctx.occa_env(lib)
    env["OCCA_CONFIG"] = os.path.join(ctx.tmp, "no-such-config.json")
    outs, crashes = run_replayer(ctx, exe, env, cases, timeout=600)
    for c in crashes:
        ctx.mismatch("crash:" + c["crash"], "replayer crashed at step %s: %s" % (c["step"], c.get("log", "")[-800:]))
    for i, b in enumerate(behaviours):
        if i in outs:
            if not any("exp0" in s for s in b if s["a"] == "ask"):
                raise Broken("the artefact carries no predictions (written by an older version of the check)")
            compare(ctx, b, outs[i], "", modeseq)
    return finish_replay(ctx)


def run(ctx):
    modeseq = ["Serial", "OpenMP"]
    if ctx.replay:
        return replay(ctx, modeseq)
    # 1. model: exhaustive over the 2^13 layer combinations, invariants (composed = intended, no entry
    #    of another mode, last-writer-wins sanity of the oracle) on, coverage on; the same run emits
    #    every behaviour
    t_gen = time.time()
    r = ctx.tlc("mc/MC_Props.tla", "mc/Props_gen.cfg", workers=WORKERS, coverage=True, deadlock=False, timeout=2400)
    ctx.tlc_must_pass(r, "Props exhaustive (model + generation)")
    ctx.require_coverage(r, ["Install", "Create", "Ask"])
    behaviours = b_json(r)
    if len(behaviours) != 8192:
        raise Broken("expected 8192 behaviours from Props_gen.cfg, got %d" % len(behaviours))
    n_exh = len(behaviours)
    nsim = 0
    sims = 3000 if ctx.tier == "thorough" else 120
    t_sim = time.time()
    # 2. simulation with nested shapes chosen per layer and per target (invariants on in TLC)
    g = ctx.tlc("mc/MC_Props.tla", "mc/Props_sim.cfg", workers=min(WORKERS, 8), simulate=max(1, sims // min(WORKERS, 8)),
                depth=40, deadlock=False, timeout=2400)
    ctx.tlc_must_pass(g, "Props simulation")
    sb = b_json(g)
    if not sb:
        raise Broken("simulation produced no behaviour:\n" + g.out[-1500:])
    nsim = len(sb)
    behaviours += sb
    behaviours.sort(key=lambda b: json.dumps(b, sort_keys=True))
    cases = [strip(b) for b in behaviours]

    # 3. replay in-process (settings installed through occa::settings()).  The statement has no
    #    memory-safety clause: all behaviours run on the plain -O2 build, and the simulated ones plus a
    #    seeded sample of the exhaustive ones additionally on the ASan+UBSan build (monitor only).
    t_replay = time.time()
    exe, lib = ctx.build_harness("props_replay", ["props_replay.cpp"], variant="fast")
    env = ctx.occa_env(lib)
    env["OCCA_CONFIG"] = os.path.join(ctx.tmp, "no-such-config.json")
    outs, crashes = replay_parallel(ctx, exe, env, cases, FANOUT)
    for c in crashes:
        ctx.mismatch("crash:" + c["crash"], "replayer crashed at step %s: %s" % (c["step"], c.get("log", "")[-800:]), [cases[c["beh"]]])
    rnd = random.Random(ctx.seed)
    nasan = 2000 if ctx.tier == "thorough" else 300
    if os.environ.get("VERIF_VARIANT") == "fast":      # development aid (scratch builds without an ASan library)
        nasan = 0
    idx = sorted(rnd.sample(range(len(cases)), min(nasan, len(cases))))
    exe_a, lib_a = ctx.build_harness("props_replay", ["props_replay.cpp"], variant=("asan" if nasan else "fast"))
    env_a = ctx.occa_env(lib_a)
    env_a["OCCA_CONFIG"] = env["OCCA_CONFIG"]
    env_a["ASAN_OPTIONS"] += ":quarantine_size_mb=8"
    outs_a, crashes_a = replay_parallel(ctx, exe_a, env_a, [cases[i] for i in idx], FANOUT)
    for c in crashes_a:
        ctx.mismatch("crash:asan:" + c["crash"], "replayer (ASan) crashed at step %s: %s" % (c["step"], c.get("log", "")[-800:]), [cases[idx[c["beh"]]]])
    for k, o in outs_a.items():
        compare(ctx, behaviours[idx[k]], o, ":asan", modeseq)
    asks = 0
    for i, b in enumerate(behaviours):
        o = outs.get(i)
        if o is None:
            continue
        asks += compare(ctx, b, o, "", modeseq)
        # the library must not write into the global settings while composing
        want = flat(settings_file(b))
        got = {p: v for p, v in flat(o["settings"]).items() if p[0] not in ("version", "okl_version")}
        if got != want:
            ctx.mismatch("settings-modified", "occa::settings() after the behaviour = %s, installed %s" % (got, want), [cases[i]])

    # 4. the same behaviours with the settings coming from $OCCA_CONFIG (one process each)
    t_cfg = time.time()
    withset = [i for i, b in enumerate(behaviours) if settings_file(b)]
    pick = rnd.sample(withset, min(len(withset), 60 if ctx.tier == "thorough" else 8))
    ncfg = 0
    for i in pick:
        cfgp = os.path.join(ctx.tmp, "config-%d.json" % i)
        with open(cfgp, "w") as f:
            json.dump(settings_file(behaviours[i]), f)
        env2 = dict(env)
        env2.update({"OCCA_CONFIG": cfgp, "PROPS_SETTINGS_VIA": "config"})
        o2, cr2 = run_replayer(ctx, exe, env2, [cases[i]], timeout=300)
        for c in cr2:
            ctx.mismatch("crash:config:" + c["crash"], "replayer crashed (settings from OCCA_CONFIG): %s" % c.get("log", "")[-800:], [cases[i]])
        if 0 in o2:
            compare(ctx, behaviours[i], o2[0], ":via-config", modeseq)
            ncfg += 1

    t_end = time.time()
    ctx.notes.append("phase wall seconds: model+generation %.0f, simulation %.0f, replay %.0f, config-file replay %.0f"
                     % (t_sim - t_gen, t_replay - t_sim, t_cfg - t_replay, t_end - t_cfg))
    ctx.traces_validated = len(outs) + ncfg
    ctx.samples = [cases[0], cases[len(cases) // 2]]
    ctx.cov.update({"behaviours_exhaustive": n_exh, "behaviours_simulated": nsim, "behaviours_replayed": len(outs),
                    "behaviours_replayed_via_config_file": ncfg, "behaviours_replayed_asan": len(outs_a), "asks_checked": asks, "crashes": len(crashes),
                    "layers": 13, "actions_taken": {a: r.coverage.get(a, (0, 0))[1] for a in ("Install", "Create", "Ask")}})
    ctx.assumptions += [
        "modes Serial and OpenMP (the two run-time modes compiled in); objects kernel, memory, stream, device",
        "13 layers (settings/user/per-call x generic / <object>/modes/<m> / modes/<m>/<object>, both modes); exhaustive over present/absent with scalar entries at one key; nested entries (x/a, x/b) and per-target shapes by seeded simulation",
        "the two spellings of a mode section inside one tree are not ordered by the statement: either order is accepted",
        "well-formed trees only (sections are objects; no key named modes/mode inside a section; no empty objects)",
        "settings installed through occa::settings() before the device is created (and, sampled, through $OCCA_CONFIG)",
        "ASan/UBSan active during replay; a sanitizer report is a crash mismatch"]
    return ctx.finish(exhaustive=True)
