"""C17 -- every backend visits exactly the iterations of each OKL @outer/@inner loop.
Spec lang/OklLoops.tla; MC mc/MC_OklLoops.tla + mc/OklLoops_*.cfg; replayer harness/oklrun_replay.cpp
(+ harness/emu: emulation of the five launcher backends); python side harness/oklrun_lib.py.
"""
import os, sys, json, collections
from vlib import Broken, b_json, VERIF

sys.path.insert(0, os.path.join(VERIF, "harness"))
import oklrun_lib                      # noqa: E402
from oklrun_lib import Batch, MODES, LAUNCHER_MODES   # noqa: E402

BATCH = 48
ARGS = ["ip", "iq", "bp", "bq", "sp", "sq"]

# C operator precedence facts needed to *write* a header that means "it CMP <operand>": an operand
# whose top operator binds more loosely than the relational operators must be parenthesised by the
# programmer (these then reach the translator as a parenthesised node).
LOOSER_THAN_RELATIONAL = {"band", "bor", "tern"}


def render_operand(d, P, Q, role, ity):
    c = d["c"]
    if c == "lit":
        return str(d["v"])
    t = {"var": P, "add": "%s + %s" % (P, Q), "sub": "%s - %s" % (P, Q), "mul": "%s * %s" % (P, Q),
         "neg": "-%s" % P, "shl": "%s << %s" % (P, Q), "band": "%s & %s" % (P, Q), "bor": "%s | %s" % (P, Q),
         "tern": "%s > %s ? %s : %s" % (P, Q, P, Q), "call": "idf(%s)" % P, "paren": "(%s + %s)" % (P, Q),
         "cast": "(%s) %s" % (ity, P), "div": "%s / %s" % (P, Q)}[c]
    if role == "bound" and c in LOOSER_THAN_RELATIONAL:
        t = "(" + t + ")"
    return t


CMP = {"lt": "<", "le": "<=", "gt": ">", "ge": ">="}


def render_header(k, it, names=ARGS):
    init = render_operand(k["ci"], names[0], names[1], "init", k["ity"])
    bound = render_operand(k["cb"], names[2], names[3], "bound", k["ity"])
    step = render_operand(k["cs"], names[4], names[5], "step", k["ity"])
    check = ("%s %s %s" % (it, CMP[k["cmp"]], bound)) if k["left"] else ("%s %s %s" % (bound, CMP[k["cmp"]], it))
    upd = {"preinc": "++" + it, "postinc": it + "++", "predec": "--" + it, "postdec": it + "--",
           "addeq": "%s += %s" % (it, step), "subeq": "%s -= %s" % (it, step)}[k["upd"]]
    return "%s %s = %s; %s; %s" % (k["ity"], it, init, check, upd)


def render_kernel(name, k):
    hdr = render_header(k, "i")
    sig = ", ".join("const int " + a for a in ARGS) + ", int *out"
    if k["pos"] == "outer":
        body = ("  for (%s; @outer) {\n    for (int j = 0; j < 1; ++j; @inner) {\n      @atomic out[REC(i)] += 1;\n    }\n  }\n" % hdr)
    else:
        body = ("  for (int o = 0; o < 1; ++o; @outer) {\n    for (%s; @inner) {\n      @atomic out[REC(i)] += 1;\n    }\n  }\n" % hdr)
    return "@kernel void %s(%s) {\n%s}\n" % (name, sig, body)


N_LO, N_HI = -2, 3                 # recording window of the nests (per iterator) + two overflow digits
NW = N_HI - N_LO + 1 + 2


def nest_names(j):
    return ["p%d" % j, "z%d" % j, "q%d" % j, "z%d" % j, "z%d" % j, "z%d" % j]


def render_nest(name, k):
    n = len(k["loops"])
    its = "abcdef"[:n]
    sig = ", ".join("const int p%d, const int q%d" % (j, j) for j in range(n)) + ", int *out"
    body, ind = "", "  "
    for j, sh in enumerate(k["loops"]):
        body += "%sfor (%s; @%s) {\n" % (ind, render_header(sh, its[j], nest_names(j)), "outer" if j < k["nouter"] else "inner")
        ind += "  "
    cell = "RECN(%s)" % its[0]
    for j in range(1, n):
        cell = "(%s) * %d + RECN(%s)" % (cell, NW, its[j])
    body += "%s@atomic out[%s] += 1;\n" % (ind, cell)
    for j in range(n):
        ind = ind[:-2]
        body += "%s}\n" % ind
    return "@kernel void %s(%s) {\n%s}\n" % (name, sig, body)


def nest_args(k, a):
    """run-time arguments of a nest run: loop j starts at lo / hi according to its direction (OklNest!LoopArgs)"""
    out = []
    for sh, p in zip(k["loops"], a):
        up = sh["upd"] in ("preinc", "postinc", "addeq")
        out += [{"t": "int", "v": p[0] if up else p[1]}, {"t": "int", "v": p[1] if up else p[0]}]
    return out


def load_replay(ctx):
    """the spec cases recorded in a replay artefact (evidence/replays/*.ndjson), or None"""
    if not ctx.replay:
        return None
    out = []
    for line in open(ctx.replay):
        line = line.strip()
        if line:
            rec = json.loads(line)
            if "case" in rec:
                out.append(rec["case"])
    if not out:
        raise Broken("nothing to replay in %s" % ctx.replay)
    return out


def finish(ctx):
    """ctx.finish, except that a --replay run must not replace the evidence of the last full run"""
    if not ctx.replay:
        return ctx.finish(exhaustive=False)
    ev = os.path.join(VERIF, "evidence", ctx.pid + ".json")
    old = open(ev).read() if os.path.exists(ev) else None
    rc = ctx.finish(exhaustive=False)
    if old is not None:
        with open(ev, "w") as f:
            f.write(old)
    return rc


def kkey(k):
    return json.dumps(k, sort_keys=True)


def features(k, h, exp):
    """the specific part of a mismatch signature: direction, alignment, operator classes, emptiness"""
    f = ["inc" if k["upd"] in ("preinc", "postinc", "addeq") else "dec"]
    if k.get("ity", "int") != "int":
        f.append("ity=" + k["ity"])
    if k["upd"] in ("addeq", "subeq"):
        f.append("step")
    for role, d in (("init", k["ci"]), ("bound", k["cb"]), ("step", k["cs"])):
        if d["c"] not in ("lit", "var"):
            f.append("%s=%s" % (role, d["c"]))
    return f


def judge(ctx, res, batches, index, want_of, decode, sig_of, describe, kernel_text):
    # sig_of(case, kind, where, detail): detail = the emulator's launch message, if any
    """Compares what every backend visited with the spec's visits.  index[bi][ki] = the spec cases
    (one per run) of kernel ki of batch bi; want_of(case) -> Counter of expected cell values;
    decode(cell index, case) -> value.  Python only compares and classifies."""
    stats = collections.Counter()
    traced = []      # (header, visited Counter, rejected, python's verdict) of every 1-d run: re-judged by TLC (VisitTrace)
    for bi, b in enumerate(batches):
        for m in MODES:
            r = res[(bi, m)]
            where = "launcher" if m in LAUNCHER_MODES else m
            if not r.translated:
                ctx.mismatch("translate-fail:%s" % where, "mode %s failed to translate a batch of valid kernels: %s" % (m, (r.terr or "")[:600]),
                             [{"okl": b.okl_text, "mode": m, "err": r.terr}])
                stats["translate_fail"] += 1
                continue
            if r.module_err:
                raise Broken("emulated module for %s/%s did not build:\n%s" % (b.name, m, r.module_err[-3000:]))
            if r.runs is None:
                ctx.mismatch("crash:%s" % where, "running batch %s on %s: %s" % (b.name, m, (r.run_err or "")[:800]),
                             [{"okl": b.okl_text, "mode": m, "err": r.run_err}])
                stats["crash"] += 1
                continue
            for ki, cs in enumerate(index[bi]):
                for ri, c in enumerate(cs):
                    o = r.runs[ki][ri]
                    stats["runs"] += 1
                    got = collections.Counter()
                    for idx_, val in (o["out"][0] if o["out"] else []):
                        got[decode(idx_, c)] += val
                    want = want_of(c)
                    bad_launch = [l for l in o["launches"] if l["code"] != 0]
                    kind = None
                    if o["err"]:
                        kind = "exception"
                    elif bad_launch:
                        kind = "launch-error" if bad_launch[0]["code"] == 1 else "oversized-launch"
                    elif got != want:
                        extra = [v for v in got if v not in want]
                        rep = [v for v in got if v in want and got[v] > want[v]]
                        kind = "extra-visits" if extra else "repeated-visits" if rep else "missed-visits"
                    if "h" in c and all(not isinstance(v, tuple) for v in got) and all(not isinstance(v, tuple) for v in want):
                        traced.append((c["h"], got, bool(o["err"] or bad_launch), kind is not None))
                    if kind is None:
                        stats["conform"] += 1
                        if not want:
                            stats["conform_empty"] += 1
                        continue
                    stats["mismatch"] += 1
                    sig = sig_of(c, kind, where, bad_launch[0]["msg"] if bad_launch else "")
                    what = ("%s on %s: %s: sequential loop visits %s, translation visited %s%s%s" %
                            (kind, m, describe(c), sorted(want.elements(), key=str), sorted(got.elements(), key=str),
                             (", launch: " + bad_launch[0]["msg"]) if bad_launch else "",
                             (", error: " + o["err"][:200]) if o["err"] else ""))
                    ctx.mismatch(sig, what, [{"case": c, "mode": m, "kernel": kernel_text(c),
                                              "launcher": oklrun_lib.read_text(r.launcher_src) or None,
                                              "device": oklrun_lib.read_text(r.device_src) or None,
                                              "observed": o}])
    validate_traces(ctx, traced, stats)
    return stats


def validate_traces(ctx, traced, stats, cap=40000):
    """Second judge: the visit logs are validated by TLC against trace/VisitTrace.tla (the sequential
    loop of OklHeaders).  Its verdicts must coincide with the comparison above, run by run."""
    import random
    if not traced:
        return
    rnd = random.Random(ctx.seed)
    sel = list(range(len(traced)))
    if len(sel) > cap:       # keep every deviating run, sample the conforming ones
        devs = [i for i in sel if traced[i][3]]
        rest = [i for i in sel if not traced[i][3]]
        sel = sorted(devs[:cap // 4] + rnd.sample(rest, min(len(rest), cap - min(len(devs), cap // 4))))
    path = os.path.join(ctx.tmp, "visits-%d.ndjson" % len(traced))
    n_ev = 0
    with open(path, "w") as f:
        for rid in sel:
            h, got, rejected, _ = traced[rid]
            f.write(json.dumps({"e": "B", "r": rid, "h": h}) + "\n")
            if rejected:
                f.write('{"e":"X"}\n')
                n_ev += 1
            for v, cnt in sorted(got.items(), key=lambda t: str(t[0])):
                vv = -1000 if v == "below" else 1000 if v == "above" else v
                for _ in range(cnt):
                    f.write(json.dumps({"e": "V", "v": vv}) + "\n")
                    n_ev += 1
            f.write(json.dumps({"e": "E", "r": rid}) + "\n")
            n_ev += 2
    r = ctx.tlc("trace/VisitTrace.tla", "trace/VisitTrace.cfg", workers=1, env={"TRACE": path}, timeout=2400,
                jvm=("-Xss256m",))
    if r.rc != 0:
        raise Broken("trace validation did not accept the visit log (rc=%s):\n%s" % (r.rc, r.out[-2500:]))
    tlc_bad = set()
    for line in r.out.splitlines():
        if line.startswith('<<"V", '):
            tlc_bad.add(int(line.split(",")[1]))
    py_bad = set(rid for rid in sel if traced[rid][3])
    if tlc_bad != py_bad:
        d = sorted(tlc_bad ^ py_bad)[:5]
        raise Broken("the two judges disagree on runs %s (TLC VisitTrace vs python comparison), e.g. %s" %
                     (d, [(traced[i][0], dict(traced[i][1])) for i in d[:2]]))
    stats["trace_runs"] = len(sel)
    stats["trace_events"] = n_ev
    stats["trace_deviating"] = len(tlc_bad)


def run(ctx):
    thorough = ctx.tier == "thorough"
    W_LO, W_HI = -24, 24           # recording window; everything else lands in two overflow cells
    NCELL = W_HI - W_LO + 1 + 2
    replayed = load_replay(ctx)
    if replayed is not None:
        # ./check C17 --replay <file>: re-execute the recorded spec cases (all backends) and judge them again
        cases = [c for c in replayed if not c.get("nest")]
    else:
        # 1. design run + vacuity
        if not os.environ.get("C17_DEV_SKIP_DESIGN"):      # development aid only
            r = ctx.tlc("mc/MC_OklLoops.tla", "mc/OklLoops_design.cfg", workers=4, coverage=True, timeout=1200)
            ctx.tlc_must_pass(r, "OklLoops design")
            ctx.require_coverage(r, ["Init", "Test", "Body"])
        # 2. behaviours: one record per (kernel shape, argument values) with the sequential visits
        cfg = "mc/OklLoops_gen_thorough.cfg" if thorough else "mc/OklLoops_gen_quick.cfg"
        g = ctx.tlc("mc/MC_OklLoops.tla", cfg, workers=1, timeout=2400)
        if g.rc != 0:
            raise Broken("generation failed (%s): rc=%s violated=%s\n%s" % (cfg, g.rc, g.violated, g.out[-2500:]))
        cases = b_json(g)
        if not cases:
            raise Broken("no behaviours generated by %s" % cfg)
    bykernel = collections.OrderedDict()
    for c in cases:
        bykernel.setdefault(kkey(c["k"]), []).append(c)
    kernels = list(bykernel.items())
    if os.environ.get("C17_LIMIT"):      # development aid only
        kernels = kernels[::max(1, len(kernels) // int(os.environ["C17_LIMIT"]))]
    # 3. render
    head = ("#define REC(i) (((i) < %d) ? %d : (((i) > %d) ? %d : ((i) - (%d))))\nint idf(int x) { return x; }\n\n"
            % (W_LO, NCELL - 2, W_HI, NCELL - 1, W_LO))
    batches, index = [], []          # index[bi][ki] = list of cases
    for b0 in range(0, len(kernels), BATCH):
        part = kernels[b0:b0 + BATCH]
        text, ks, idx = head, [], []
        for j, (kk, cs) in enumerate(part):
            name = "k%d" % (b0 + j)
            text += render_kernel(name, cs[0]["k"]) + "\n"
            runs = []
            for c in cs:
                runs.append([{"t": "int", "v": c["a"][a]} for a in ARGS] + [{"t": "int*", "n": NCELL}])
            ks.append({"name": name, "runs": runs})
            idx.append(cs)
        batches.append(Batch("c17b%d" % (b0 // BATCH), text, ks))
        index.append(idx)
    # 3b. nests: several @outer / @inner loops around one body (dimension mapping)
    if replayed is not None:
        ncases = [c for c in replayed if c.get("nest")]
    else:
        gn = ctx.tlc("mc/MC_OklNest.tla", "mc/OklNest_gen_%s.cfg" % ("thorough" if thorough else "quick"), workers=1, timeout=2400)
        if gn.rc != 0:
            raise Broken("nest generation failed: rc=%s violated=%s\n%s" % (gn.rc, gn.violated, gn.out[-2500:]))
        ncases = b_json(gn)
        if not ncases:
            raise Broken("no nest behaviours generated")
    bynest = collections.OrderedDict()
    for c in ncases:
        c["nest"] = True
        bynest.setdefault(kkey(c["k"]), []).append(c)
    nhead = ("#define RECN(i) (((i) < %d) ? %d : (((i) > %d) ? %d : ((i) - (%d))))\n\n" % (N_LO, NW - 2, N_HI, NW - 1, N_LO))
    text, ks, idx = nhead, [], []
    for j, (kk, cs) in enumerate(bynest.items()):
        k = cs[0]["k"]
        text += render_nest("n%d" % j, k) + "\n"
        ks.append({"name": "n%d" % j, "runs": [nest_args(k, c["a"]) + [{"t": "int*", "n": NW ** len(k["loops"])}] for c in cs]})
        idx.append(cs)
    if ks:
        batches.append(Batch("c17nest", text, ks))
        index.append(idx)
    # 4. translate / build / run
    res = oklrun_lib.execute(ctx, batches, MODES, fanout=(8 if thorough else 4), build_workers=(8 if thorough else 4), timeout=(7200 if thorough else 1800),
                              asan_batches=(4 if thorough else 1))
    # 5. compare with the spec
    def decode(idx_, c):
        if c.get("nest"):
            t = []
            for _ in c["k"]["loops"]:
                d = idx_ % NW
                t.append("below" if d == NW - 2 else "above" if d == NW - 1 else d + N_LO)
                idx_ //= NW
            return tuple(reversed(t))
        return "below" if idx_ == NCELL - 2 else "above" if idx_ == NCELL - 1 else idx_ + W_LO

    def want_of(c):
        return collections.Counter(tuple(t) for t in c["exp"]) if c.get("nest") else collections.Counter(c["exp"])

    def sig_of(c, kind, where, detail):
        if c.get("nest"):
            k = c["k"]
            return "%s:%s:nest%dx%d%s" % (kind, where, k["nouter"], len(k["loops"]) - k["nouter"], ",empty" if not c["exp"] else "")
        f = features(c["k"], c["h"], c["exp"])
        if c["exp"] == []:
            f.append("empty")
        if not c["aligned"]:
            # one class: the comparison opposes the update (the loop is empty or runs away)
            return "contrary-direction:%s" % where
        return "%s:%s:%s" % (kind, where, ",".join(f))

    def describe(c):
        if c.get("nest"):
            return "nest %s with (lo, hi) = %s" % (render_nest("n", c["k"]).replace("\n", " "), c["a"])
        k, h = c["k"], c["h"]
        return "header `for (%s)` %s-position, args %s (init=%d bound=%d step=%d)" % (
            render_header(k, "i"), k["pos"], c["a"], h["init"], h["bound"], h["step"])

    stats = judge(ctx, res, batches, index, want_of, decode, sig_of, describe,
                  lambda c: render_nest("n", c["k"]) if c.get("nest") else render_kernel("k", c["k"]))
    ctx.traces_validated = stats["runs"]
    cases = cases or ncases
    ctx.samples = [{"kernel": render_header(c["k"], "i") if "h" in c else "(nest)", "pos": c["k"].get("pos", "nest"), "args": c["a"], "spec_visits": c["exp"][:12]}
                   for c in ([c for c in cases if c["exp"]] or cases)[::max(1, len([c for c in cases if c["exp"]] or cases) // 4)][:4]]
    ctx.cov.update({"kernel_shapes": len(kernels) + len(bynest), "spec_runs": len(cases) + len(ncases), "nest_runs": len(ncases), "backends": len(MODES),
                    "backend_runs_compared": stats["runs"], "conforming": stats["conform"],
                    "conforming_empty_loops": stats["conform_empty"], "mismatching_runs": stats["mismatch"],
                    "batches": len(batches), "trace_runs_validated_by_tlc": stats["trace_runs"],
                    "trace_events": stats["trace_events"], "trace_runs_deviating": stats["trace_deviating"]})
    ctx.assumptions += [
        "launcher backends (cuda, hip, opencl, metal, dpcpp) are executed under harness/emu: real generated launcher and device "
        "source, host emulation of the documented launch model (groups sequential, work-items real threads); no GPU",
        "operand values within -10..10, loops of at most 9 iterations, steps 1..3; int (and long in the thorough tier) iterators",
        "one loop under test per kernel, the other OKL loop has one iteration; run-time arguments are ints",
        "a sample of the batches is additionally translated under ASan+UBSan (see notes); Serial/OpenMP kernels are built by the real JIT with -O0"]
    return finish(ctx)
