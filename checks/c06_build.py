"""C06 build tier: KernelKey.tla build histories executed with real builds (fresh process per
build, one cache directory per history).  The kernel writes one integer per build input it can
observe; python decodes them and compares with the same projection of the configuration the spec
says must have been compiled (exp.ran), and compiled/loaded with exp.act."""
import json, os, concurrent.futures
from vlib import Broken, b_json, run_replayer
import c06_bind as bind

FLAG = {"a": "-DFV=1 -shared -fPIC", "b": "-DFV=2 -shared -fPIC"}
XARR = {"a": "#define HV 1", "b": "#define HV 2"}     # a header line, and also the *name* of an include file

# <iso646.h> and <fenv.h> are "standard headers" for the OKL preprocessor: it passes the #include on
# to the compiler, which finds envA|envB/iso646.h through CPATH (compiler_env_script) and raw/fenv.h
# through CPLUS_INCLUDE_PATH (part of the fixed process environment of a history).  raw/fenv.h turns the
# compiler-level macros (-DFV from the flag properties, -DCCV from the compiler wrapper, EV) into constants.
KERNEL = """#include <iso646.h>
#include <fenv.h>
#include "oklinc.h"
#ifndef DV
#define DV 0
#endif
#ifndef IV
#define IV 0
#endif
#ifndef HV
#define HV 0
#endif
@kernel void k(int *out) {
  for (int i = 0; i < 1; ++i; @tile(1, @outer, @inner)) {
    out[0] = %d; out[1] = DV; out[2] = IV; out[3] = HV; out[4] = OKLV;
    out[5] = c06_fv; out[6] = c06_ccv; out[7] = c06_ev; out[8] = 0; out[9] = 77;
  }
}
"""
RAW_FENV = """#include_next <fenv.h>
#ifndef FV
#define FV 0
#endif
#ifndef CCV
#define CCV 0
#endif
#ifndef EV
#define EV 0
#endif
static const int c06_fv = FV, c06_ccv = CCV, c06_ev = EV;
"""
NUM = {"e": 0, "a": 1, "b": 2}


def files():
    f = {"raw/fenv.h": RAW_FENV}
    for t, n in NUM.items():
        f["src_%s.okl" % t] = KERNEL % n
        d = "okl%s" % {"e": "0", "a": "A", "b": "B"}[t]
        f[d + "/oklinc.h"] = "#define OKLV %d\n" % n
        for x, m in (("a", 1), ("b", 2)):
            f[d + "/" + XARR[x]] = "#define IV %d\n" % m
    for x, m in (("a", 1), ("b", 2)):
        f["bin/cc%s" % x.upper()] = "#!/bin/sh\nexec g++ -DCCV=%d \"$@\"\n" % m
        f["env%s/iso646.h" % x.upper()] = "#define EV %d\n" % m
    return f


def props(cfg):
    p = {}
    okl = {"e": "0", "a": "A", "b": "B"}[cfg["okl"]]
    p["okl"] = {"include_paths": ["@W@/okl" + okl]}
    if cfg["defines"] != "e":
        p["defines"] = {"DV": NUM[cfg["defines"]]}
    for q in ("includes", "headers"):
        if cfg[q] != "e":
            p[q] = [XARR[cfg[q]]]
    for q in ("compiler_flags", "compiler_linker_flags", "compiler_shared_flags"):
        if cfg[q] != "e":
            p[q] = FLAG[cfg[q]]
    if cfg["compiler"] != "e":
        p["compiler"] = "@W@/bin/cc" + cfg["compiler"].upper()
    if cfg["compiler_env_script"] != "e":
        p["compiler_env_script"] = "export CPATH=@W@/env" + cfg["compiler_env_script"].upper()
    for q in ("functions", "compiler_language"):
        assert cfg[q] == "e", "not buildable here: " + q
    return json.dumps(p, sort_keys=True)


def facts(cfg, mode):
    """The integers a binary compiled for `cfg` writes (projection of the configuration)."""
    fv = 0
    for q in ("compiler_flags", "compiler_shared_flags", "compiler_linker_flags"):   # command-line order; the last -DFV wins
        if cfg[q] != "e":
            fv = NUM[cfg[q]]
    return [NUM[cfg["source"]], NUM[cfg["defines"]], NUM[cfg["includes"]], NUM[cfg["headers"]], NUM[cfg["okl"]],
            fv, NUM[cfg["compiler"]], NUM[cfg["compiler_env_script"]], 0, 77]


FACT_NAMES = ["source", "defines", "includes", "headers", "okl", "flags", "compiler", "env_script", "unused", "sentinel"]


def build_tier(ctx):
    g = ctx.tlc("mc/MC_KernelKey.tla", "mc/KernelKey_build.cfg", workers=1, simulate=40, depth=11, deadlock=False, timeout=2400)
    raw = b_json(g)
    if not raw:
        raise Broken("no build histories generated (rc=%s):\n%s" % (g.rc, g.out[-1500:]))
    # the simulator prints one line per successor of the last state: keep one history per 9-build prefix,
    # and at most 3 per (device, property group)
    seen, per, behaviours = set(), {}, []
    for b in raw:
        pre = json.dumps(b[:-1], sort_keys=True)
        if pre in seen:
            continue
        seen.add(pre)
        grp = (b[0]["mode"], tuple(sorted(set(p for s in b for p, v in s["cfg"].items() if v != "e" and p != "route"))))
        if per.get(grp, 0) >= 3:
            continue
        per[grp] = per.get(grp, 0) + 1
        behaviours.append(b)
    behaviours = behaviours[:64]
    cases = [{"mode": b[0]["mode"], "files": files(),
              "steps": [{"src": "src_%s.okl" % s["cfg"]["source"], "props": props(s["cfg"])} for s in b]} for b in behaviours]
    exe, lib = ctx.build_harness("kernelbuild_replay", ["kernelbuild_replay.cpp"], variant="fast")
    env = bind.fixed_env(ctx.occa_env(lib))
    env["KBUILD_TIMEOUT"] = "600"
    fan = 12
    chunks = [c for c in (list(range(i, len(cases), fan)) for i in range(fan)) if c]
    results = {}

    def work(ci):
        e = dict(env)
        e["KBUILD_WORK"] = os.path.join(ctx.tmp, "kb-%d" % ci)
        os.makedirs(e["KBUILD_WORK"], exist_ok=True)
        outs, crashes = run_replayer(ctx, exe, e, [cases[i] for i in chunks[ci]], timeout=6000)
        return ci, outs, crashes

    with concurrent.futures.ThreadPoolExecutor(max_workers=fan) as ex:
        for ci, outs, crashes in ex.map(work, range(len(chunks))):
            if crashes:
                raise Broken("the C06 build replayer itself crashed: %s" % crashes[:1])
            for pos, o in outs.items():
                results[chunks[ci][pos]] = o
    builds, acts = 0, {}
    for i, b in enumerate(behaviours):
        o = results.get(i)
        if o is None:
            raise Broken("no output for build history %d" % i)
        mode = b[0]["mode"]
        varied = "+".join(sorted(set(p for s in b for p, v in s["cfg"].items() if v != "e" and p != "route")))
        for j, s in enumerate(b):
            ob = o["obs"][j]
            builds += 1
            if ob["status"] != "ok":
                raise Broken("build %d of history %d did not run (%s): %s\nprops=%s" %
                             (j, i, ob["status"], ob.get("tail") or ob.get("what"), cases[i]["steps"][j]["props"]))
            if ob["devmode"] != mode:
                raise Broken("device mode %s not available (got %s)" % (mode, ob["devmode"]))
            acts[ob["act"]] = acts.get(ob["act"], 0) + 1
            want = facts(s["exp"]["ran"], mode)
            if ob["out"] != want:
                bad = [FACT_NAMES[t] for t in range(len(want)) if ob["out"][t] != want[t]]
                ctx.mismatch("build-runs-foreign-code:%s:%s" % ("+".join(bad), varied),
                             "%s build %d (%s) ran code with %s, its own configuration gives %s (differs in %s); history %s" %
                             (mode, j, ob["act"], ob["out"], want, bad,
                              [{p: v for p, v in t["cfg"].items() if v != "e" and p != "route"} for t in b[:j + 1]]),
                             [cases[i]])
            if ob["act"] != s["exp"]["act"]:
                ctx.mismatch("build-act:%s-expected-%s:%s" % (ob["act"], s["exp"]["act"], varied),
                             "%s build %d was %s, the spec says %s; history %s" %
                             (mode, j, ob["act"], s["exp"]["act"], [{p: v for p, v in t["cfg"].items() if v != "e" and p != "route"} for t in b[:j + 1]]),
                             [cases[i]])
    ctx.traces_validated += len(behaviours)
    ctx.cov.update({"build_histories_replayed": len(behaviours), "real_builds_in_fresh_processes": builds,
                    "real_builds_compiled": acts.get("compiled", 0), "real_builds_loaded": acts.get("loaded", 0)})
    ctx.samples.append({"build_history": {"mode": cases[0]["mode"], "steps": cases[0]["steps"][:3]}})
    ctx.assumptions.append("build tier: property groups that can really be built (see BuildGroups in MC_KernelKey.tla); "
                           "functions and compiler_language are covered at the key level only")
