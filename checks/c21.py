"""C21 -- OpenMP kernels are deterministic for every thread count and schedule, and race free.
Spec lang/OmpSchedule.tla (extends lang/OklKernel.tla): OmpRun = SeqRun for every distribution of the
outermost @outer iterations over the threads and every interleaving; placement mutants violate it.
Binding: the kernels of the spec's generator are built by the real OpenMP mode (JIT) and run for
OMP_NUM_THREADS x OMP_SCHEDULE x repeats; outputs must equal the spec's prediction and the Serial run.
Race detection: the translated OpenMP source is compiled with clang++-14 -fopenmp -fsanitize=thread and run
under Archer.  harness/kern_replay.cpp, checks/kerncommon.py.
"""
import os, re, sys, json, time, collections, subprocess, concurrent.futures
from vlib import Broken, sh
import kerncommon as kc

THREADS = [1, 2, 3, 4, 8, 16]
SCHEDULES = ["static", "static,1", "dynamic,1", "dynamic,3", "guided"]
ARCHER = "/usr/lib/llvm-14/lib/libarcher.so"
MUTANTS = [("mc/OmpSchedule_mut_shared_hoisted.cfg", "@shared array hoisted out of the parallel loop"),
           ("mc/OmpSchedule_mut_excl_hoisted.cfg", "@exclusive array hoisted out of the parallel loop"),
           ("mc/OmpSchedule_mut_atomic_dropped.cfg", "#pragma omp atomic dropped")]


def design(ctx, thorough):
    if os.environ.get("C21_DEV_SKIP_DESIGN"):       # development aid only
        return
    cfg = "mc/OmpSchedule_design.cfg" if thorough else "mc/OmpSchedule_design_quick.cfg"
    r = ctx.tlc("mc/MC_OmpSchedule.tla", cfg, workers=4, coverage=True, deadlock=False, timeout=6000)
    ctx.tlc_must_pass(r, "OmpSchedule design (%s)" % cfg)
    ctx.cov["design_actions_taken"] = kc.require_cov(r, [("OBegin", "DoBegin", "BeginNest"), ("OAdd", "DoAdd", "AddStmt"),
                                                          ("ONextPhase", "DoNextPhase", "NextPhase"), ("OFinish", "Finish"),
                                                          ("DoOmpLaunch", "OmpLaunch"), ("DoGrab", "Grab"), ("DoOmpStmt", "OmpStmt", "Idle"), ("OmpNextNest",)])
    caught = 0
    for cfg, what in MUTANTS:
        # random distributions/interleavings find the counterexample much faster than breadth-first search
        m = ctx.tlc("mc/MC_OmpSchedule.tla", cfg, workers=2, simulate=4000, depth=150, deadlock=False, timeout=1500, count=False,
                    expect_violation=True)
        if m.violated not in ("OmpIsSeq", "OmpNoBadAccess"):
            raise Broken("placement mutant `%s` (%s) is not rejected by the model: rc=%s violated=%s\n%s" % (what, cfg, m.rc, m.violated, m.out[-1500:]))
        caught += 1
    ctx.cov["placement_mutants_rejected"] = caught


def sig_features(g):
    f = kc.features(g["k"])
    core = [x for x in ("header-stride", "loop-header", "empty-range", "atomic-block", "atomic-alias", "atomic", "shared", "exclusive", "tile", "nested-outer", "sibling-outer", "runtime-bounds", "max_inner_dims",
                        "wrapped-inner", "nested-inner", "sibling-inner", "for", "if") if x in f]
    return ",".join(core[:4])


def check_runs(ctx, batches, res, runs, mode, label, argvecs, stats, serial=None):
    """compare with the spec's prediction (and with what Serial produced)"""
    for bi, b in enumerate(batches):
        r = res[(bi, mode)]
        rr = runs.get((bi, mode))
        if not r.translated or rr is None:
            continue
        if "err" in rr:
            ctx.mismatch("crash:%s:%s" % (mode, label.split("/")[0]), "running batch %s on %s (%s): %s" % (b.name, mode, label, rr["err"][:1500]),
                         [{"okl": b.text, "mode": mode, "config": label, "err": rr["err"]}])
            stats["crash"] += 1
            continue
        for ki, g in enumerate(b.items):
            for vi, want in enumerate(g["runs"]):
                o = rr["runs"][ki][vi]
                stats["runs"] += 1
                kind = None
                if o["err"]:
                    kind = "error"
                else:
                    got_in, got_out, got_acc = o["out"]
                    if got_in != argvecs[vi]["in"]:
                        kind = "input-written"
                    elif got_out != want["out"]:
                        kind = "wrong-out"
                    elif got_acc != want["acc"]:
                        kind = "wrong-acc"
                    elif not o.get("same", True):
                        kind = "differs-between-repeats"
                    elif serial is not None and serial.get((bi, ki, vi)) is not None and serial[(bi, ki, vi)] != o["out"]:
                        kind = "differs-from-serial"
                if kind is None:
                    stats["conform"] += 1
                    continue
                stats["mismatch"] += 1
                ctx.mismatch("%s:%s:%s" % (kind, mode, sig_features(g)),
                             "%s on %s with %s, class %s, argument vector %d: spec out=%s acc=%s, got %s alt %s %s\n%s" %
                             (kind, mode, label, g["cls"], vi + 1, want["out"], want["acc"], o["out"][1:] if o["out"] else o["out"],
                              o.get("alt"), (o["err"] or "")[:300], g["okl"]),
                             [{"kernel": g["k"], "okl": g["okl"], "mode": mode, "config": label, "args": argvecs[vi], "spec": want,
                               "observed": o, "translated": kc.read_text(r.device_src) or None}])


# --------------------------------------------------------------------------------- race detection
def write_driver(path, translated, batch, argvecs):
    """a main() that calls every kernel of the translated OpenMP source with every argument vector and prints the arrays"""
    L = ['#include <cstdio>', '#include <vector>', '#include "%s"' % translated,
         'static void pr(const char *k, int v, const std::vector<int> &a, const std::vector<int> &b, const std::vector<int> &c) {',
         '  printf("R %s %d [", k, v);',
         '  for (size_t i = 0; i < a.size(); ++i) printf(i ? ",%d" : "%d", a[i]); printf("] [");',
         '  for (size_t i = 0; i < b.size(); ++i) printf(i ? ",%d" : "%d", b[i]); printf("] [");',
         '  for (size_t i = 0; i < c.size(); ++i) printf(i ? ",%d" : "%d", c[i]); printf("]\\n"); fflush(stdout); }',
         'int main() {']
    for kern in batch.kernels:
        for vi, args in enumerate(kern["runs"]):
            L.append("  {")
            call = []
            for ai, a in enumerate(args):
                if a["t"] == "int":
                    L.append("    const int s%d = %d;" % (ai, a["v"]))
                    call.append("s%d" % ai)
                else:
                    L.append("    std::vector<int> p%d = {%s};" % (ai, ", ".join(str(x) for x in a["init"])))
                    call.append("p%d.data()" % ai)
            n = len(args)
            L.append("    %s(%s);" % (kern["name"], ", ".join(call)))
            L.append('    pr("%s", %d, p%d, p%d, p%d);' % (kern["name"], vi, n - 3, n - 2, n - 1))
            L.append("  }")
    L.append("  return 0;\n}")
    with open(path, "w") as f:
        f.write("\n".join(L) + "\n")


def kernel_of_line(translated_text):
    """line number -> kernel name of the translated source"""
    owner, cur = {}, None
    for n, line in enumerate(translated_text.splitlines(), 1):
        m = re.match(r'extern "C" void (k\d+)\(', line)
        if m:
            cur = m.group(1)
        owner[n] = cur
    return owner


def archer(ctx, batches, res, argvecs, stats, threads, fan):
    work = os.path.join(ctx.tmp, "tsan")
    os.makedirs(work, exist_ok=True)

    def one(bi):
        b, r = batches[bi], res[(bi, "openmp")]
        if not r.translated:
            return bi, None, None
        drv = os.path.join(work, "%s.driver.cpp" % b.name)
        exe = os.path.join(work, "%s.driver" % b.name)
        write_driver(drv, r.device_src, b, argvecs)
        rc, out = sh(["clang++-14", "-std=c++17", "-fopenmp", "-fsanitize=thread", "-g", "-O1", "-w", drv, "-o", exe], timeout=1800)
        if rc != 0:
            return bi, "build", out[-3000:]
        outs = []
        for nt in threads:
            env = {"OMP_NUM_THREADS": str(nt), "OMP_WAIT_POLICY": "passive", "OMP_TOOL_LIBRARIES": ARCHER,
                   "TSAN_OPTIONS": "ignore_noninstrumented_modules=1:exitcode=0:halt_on_error=0:report_bugs=1:second_deadlock_stack=0",
                   "ARCHER_OPTIONS": "verbose=0"}
            rc, out = sh([exe], timeout=1800, env=env)
            outs.append((nt, rc, out))
        return bi, "ran", outs

    with concurrent.futures.ThreadPoolExecutor(max_workers=fan) as ex:
        results = list(ex.map(one, range(len(batches))))
    for bi, status, payload in results:
        b, r = batches[bi], res[(bi, "openmp")]
        if status is None:
            continue
        if status == "build":
            raise Broken("the translated OpenMP source of %s does not compile with clang++-14 -fopenmp -fsanitize=thread:\n%s" % (b.name, payload))
        owner = kernel_of_line(kc.read_text(r.device_src, limit=10 ** 7))
        byname = dict((g["name"], g) for g in b.items)
        base = os.path.basename(r.device_src)
        for nt, rc, out in payload:
            if rc != 0 and "ThreadSanitizer" not in out:
                ctx.mismatch("crash:openmp:tsan", "the TSan build of batch %s crashed with %d threads: %s" % (b.name, nt, out[-1500:]),
                             [{"okl": b.text, "threads": nt, "log": out[-4000:]}])
                stats["crash"] += 1
                continue
            # outputs
            for m in re.finditer(r"^R (k\d+) (\d+) (\[[^\]]*\]) (\[[^\]]*\]) (\[[^\]]*\])$", out, re.M):
                g, vi = byname[m.group(1)], int(m.group(2))
                got = [json.loads(m.group(3)), json.loads(m.group(4)), json.loads(m.group(5))]
                want = g["runs"][vi]
                stats["tsan_runs"] += 1
                if got != [argvecs[vi]["in"], want["out"], want["acc"]]:
                    ctx.mismatch("wrong-output:openmp-tsan:%s" % sig_features(g),
                                 "clang/TSan build, %d threads, class %s vector %d: spec out=%s acc=%s, got %s\n%s" %
                                 (nt, g["cls"], vi + 1, want["out"], want["acc"], got[1:], g["okl"]),
                                 [{"kernel": g["k"], "okl": g["okl"], "threads": nt, "spec": want, "observed": got}])
                    stats["mismatch"] += 1
            # race reports whose stack is in the translated kernel
            for rep in re.split(r"(?m)^={18}$", out):
                if "ThreadSanitizer: data race" not in rep:
                    continue
                stats["tsan_reports"] += 1
                lines = [int(x) for x in re.findall(re.escape(base) + r":(\d+)", rep)]
                ks = sorted(set(owner.get(n) for n in lines if owner.get(n)))
                if not ks:
                    continue
                g = byname.get(ks[0])
                ctx.mismatch("data-race:openmp:%s" % (sig_features(g) if g else "?"),
                             "ThreadSanitizer/Archer reports a data race inside translated kernel %s (%d threads):\n%s\n%s" %
                             (ks[0], nt, rep.strip()[:1800], g["okl"] if g else ""),
                             [{"kernel": g["k"] if g else None, "okl": g["okl"] if g else None, "threads": nt, "report": rep.strip()[:6000],
                               "translated": kc.read_text(r.device_src) or None}])
                stats["races"] += 1


def run(ctx):
    ctx.level = "model_checking"
    thorough = ctx.tier == "thorough"
    t0 = time.time()
    design(ctx, thorough)
    kc.lap(ctx, t0, "design")
    num = int(os.environ.get("C21_NUM", 600 if thorough else 100))
    gen = kc.generate(ctx, "mc/OklKernel_gen.cfg", num)
    gen += kc.generate_all(ctx, "mc/OklKernel_gen_headers.cfg" if thorough else "mc/OklKernel_gen_headers_quick.cfg")
    kc.lap(ctx, t0, "generated %d kernels" % len(gen))
    argvecs = kc.spec_argvecs()
    batches = kc.make_batches(gen, argvecs, per_batch=50, prefix="c21b")
    fan = 8 if thorough else 4
    res = kc.translate(ctx, batches, ["serial", "openmp"], fanout=fan)
    for (bi, m), r in res.items():
        if not r.translated:
            ctx.mismatch("translate-fail:%s" % m, "mode %s failed to translate a batch of valid kernels: %s" % (m, (r.terr or "")[:800]),
                         [{"okl": batches[bi].text, "mode": m, "err": r.terr}])
    kc.lap(ctx, t0, "translated")
    stats = collections.Counter()
    reps = 5 if thorough else 3
    # Serial: the reference execution (also compared with the spec)
    sruns = kc.run(ctx, batches, res, ["serial"], variant="fast", fanout=fan, cache_name="cache")
    check_runs(ctx, batches, res, sruns, "serial", "serial", argvecs, stats)
    serial = {}
    for (bi, m), rr in sruns.items():
        if "runs" in rr:
            for ki, ks in enumerate(rr["runs"]):
                for vi, o in enumerate(ks):
                    if not o["err"]:
                        serial[(bi, ki, vi)] = o["out"]
    kc.lap(ctx, t0, "serial")
    # OpenMP through the real mode (unmodified translation), every thread count; and the same translation with the
    # schedule left to OMP_SCHEDULE: ` schedule(runtime)` appended to the pragmas the translator emitted (without a
    # schedule clause the choice is the implementation's), built by the OpenMP device from the translated source
    # (okl/enabled = false)
    sched_src = {}
    for bi, b in enumerate(batches):
        r = res[(bi, "openmp")]
        if not r.translated:
            continue
        text = kc.read_text(r.device_src, limit=10 ** 7)
        n = len(re.findall(r"(?m)^\s*#pragma omp parallel for\s*$", text))
        if n == 0:
            ctx.mismatch("no-parallel-for:openmp", "the OpenMP translation of batch %s contains no `#pragma omp parallel for`" % b.name,
                         [{"okl": b.text, "translated": text[:20000]}])
            continue
        p = os.path.join(ctx.tmp, "okl", "%s.openmp.sched.cpp" % b.name)
        with open(p, "w") as f:
            f.write(re.sub(r"(?m)^(\s*#pragma omp parallel for)\s*$", r"\1 schedule(runtime)", text))
        sched_src[bi] = p
        stats["parallel_for_pragmas"] += n
    tset = THREADS if thorough else [2, 4, 16]
    configs = [("threads=%d" % nt, {"OMP_NUM_THREADS": str(nt), "OMP_DYNAMIC": "false"}, False) for nt in THREADS]
    configs += [("threads=%d/schedule=%s" % (nt, sc), {"OMP_NUM_THREADS": str(nt), "OMP_SCHEDULE": sc, "OMP_DYNAMIC": "false"}, True)
                for nt in tset for sc in SCHEDULES]

    def one(cfg):
        label, env, sched = cfg
        if sched:
            return kc.run(ctx, batches, res, ["openmp"], variant="fast", fanout=2, cache_name="cache", reps=reps, env_extra=env,
                          props={"okl": {"enabled": False}}, okl_of=lambda bi, m: sched_src.get(bi))
        return kc.run(ctx, batches, res, ["openmp"], variant="fast", fanout=2, cache_name="cache", reps=reps, env_extra=env)

    # the first configuration of each kind fills the JIT cache; the others run side by side
    first = [configs[0], configs[len(THREADS)]]
    rest = [c for c in configs if c not in first]
    results = [(c, one(c)) for c in first]
    with concurrent.futures.ThreadPoolExecutor(max_workers=(6 if thorough else 3)) as ex:
        results += list(zip(rest, ex.map(one, rest)))
    for (label, env, sched), oruns in results:
        check_runs(ctx, batches, res, oruns, "openmp", label, argvecs, stats, serial)
    configs = len(configs)
    kc.lap(ctx, t0, "openmp x threads x schedules")
    # race detection
    if not os.environ.get("C21_DEV_SKIP_TSAN"):
        archer(ctx, batches, res, argvecs, stats, [4, 16] if thorough else [4], fan)
        kc.lap(ctx, t0, "archer")
    ctx.traces_validated = stats["runs"] + stats["tsan_runs"]
    feats = collections.Counter()
    for g in gen:
        for f in kc.features(g["k"]):
            feats[f] += 1
    ctx.cov.update({"kernels": len(gen), "configurations": configs, "thread_counts": THREADS, "schedules": SCHEDULES, "repeats": reps,
                    "kernel_runs_compared": stats["runs"], "conforming": stats["conform"], "mismatching_runs": stats["mismatch"],
                    "tsan_runs": stats["tsan_runs"], "tsan_reports": stats["tsan_reports"], "races_in_translated_kernels": stats["races"],
                    "parallel_for_pragmas": stats["parallel_for_pragmas"], "kernels_by_feature": dict(feats)})
    pick = [gen[0], gen[len(gen) // 2], gen[-1]]
    ctx.samples = [{"class": g["cls"], "okl": g["okl"], "args": argvecs[1], "spec_out": g["runs"][1]["out"], "spec_acc": g["runs"][1]["acc"]}
                   for g in pick]
    ctx.assumptions += [
        "model: <= 3 threads, outermost @outer loops of 2-4 iterations, statement-granularity interleaving, @atomic indivisible",
        "kernels come from the generator of spec/lang/OklKernel.tla (independent iterations by construction)",
        "schedules other than the implementation default are imposed by appending schedule(runtime) to the parallel-for pragmas "
        "of the translated source; the unmodified translation is run for every thread count",
        "absence of data races is monitored (ThreadSanitizer + Archer on the clang build of the translated source), not proved; "
        "libgomp (JIT runs) and libomp (TSan runs) are trusted"]
    return ctx.finish(exhaustive=False)
