"""C03 / C04 -- memory pool.  One pipeline, two sets of predicates.

  spec/runtime/PoolProps.tla     the property predicates (defined once)
  spec/runtime/PoolAlgo.tla      transcription of modeMemoryPool_t; model-checked against PoolProps;
                                 also the generator of operation sequences
  spec/runtime/MemoryPool.tla    the abstract (placement-free) pool
  spec/trace/MemoryPoolTrace.tla trace validation of real executions against the abstract pool
  harness/pool_replay.cpp        executes the sequences on a real occa::memoryPool, logs full state
"""
import json, os, random, time, concurrent.futures as cf
from vlib import Broken, b_json, run_replayer, tail

C03_PREDS = {"Disjoint", "Inside", "Rigid", "Reads", "LiveSet", "Length",
             "ReserveRefused", "SliceRefused", "BadSliceAccepted", "ReleaseRefused", "WriteRefused", "SetAlignment"}
C04_PREDS = {"Reserved", "Count", "SizeGeReserved", "ZeroWhenEmpty",
             "ResizeRefused", "ResizeTooSmall", "ResizeBelowReservedAccepted", "RefusedButChanged"}
BIG = 2000000000


def clamp(x):
    if isinstance(x, int) and not isinstance(x, bool):
        return BIG if x > BIG else (-BIG if x < -BIG else x)
    if isinstance(x, list):
        return [clamp(v) for v in x]
    if isinstance(x, dict):
        return {k: clamp(v) for k, v in x.items()}
    return x


def gen_behaviours(ctx, design):
    """design: the TlcResult of the exhaustive design run, which printed one operation sequence per
    transition of the reachable state graph (EmitEdge).  Sequences that are a proper prefix of another
    one are dropped (they are executed on the way)."""
    t0 = time.time()
    hs = b_json(design)
    if not hs:
        raise Broken("design run printed no operation sequences")
    keys = {json.dumps(h, sort_keys=True): h for h in hs}
    # "cover": every proper prefix of these sequences is itself (the end of) a sequence of the batch or a
    # prefix of one, so only the last operation (and the final release) of each needs a verdict
    out = [{"align": 2, "unit": 1, "steps": keys[k], "cover": 1} for k in sorted(keys) if keys[k]]
    ctx.cov["transitions_covered_by_replay"] = len(keys)
    # random deeper sequences (larger requests, more alignments, writes through slices)
    nsim = 4000 if ctx.tier == "thorough" else 250
    g = ctx.tlc("mc/MC_PoolAlgo.tla", "mc/PoolAlgo_sim.cfg", workers=1, simulate=nsim, depth=14, timeout=3000)
    bs = b_json(g)
    if not bs:
        raise Broken("no behaviours from simulation:\n%s" % tail(g.out, 30))
    seen = set()
    for b in bs:
        k = json.dumps(b, sort_keys=True)
        if k not in seen:
            seen.add(k)
            out.append({"align": 4, "unit": 1, "steps": b})
    ctx.cov["simulated_sequences"] = len(seen)
    # the same shapes at the default alignment (128) with sizes that are not multiples of it
    rnd = random.Random(ctx.seed + 1)
    extra = rnd.sample(out, min(len(out), 1500 if ctx.tier == "quick" else 8000))
    for b in extra:
        steps = [s for s in b["steps"] if s["op"] != "align"]
        if steps:
            out.append({"align": 0, "unit": 50, "steps": steps})
    ctx.notes.append("generation %.0fs" % (time.time() - t0))
    return out


def validate_chunk(args):
    ctx, path = args
    r = ctx.tlc("trace/MemoryPoolTrace.tla", "trace/MemoryPoolTrace.cfg", workers=1, env={"TRACE": path},
                timeout=3000, count=False, jvm=("-Xmx3g",))
    return path, r


def run(ctx, which):
    preds = C03_PREDS if which == "C03" else C04_PREDS
    # 1. the transcribed algorithm satisfies the predicates (exhaustive within the constants)
    cfg = "mc/PoolAlgo_design.cfg" if ctx.tier == "quick" else "mc/PoolAlgo_design6.cfg"
    t0 = time.time()
    r = ctx.tlc("mc/MC_PoolAlgo.tla", cfg, workers=8, coverage=True, timeout=3000, jvm=("-Xmx12g",))
    ctx.notes.append("design run %.0fs" % (time.time() - t0))
    ctx.tlc_must_pass(r, "PoolAlgo design")
    ctx.require_coverage(r, ["Reserve", "SliceOf", "Release", "DoResizeOp", "SetAlignment"])
    # 2. operation sequences
    if ctx.replay:
        cases = [json.loads(l) for l in open(ctx.replay) if l.strip()]
    else:
        cases = gen_behaviours(ctx, r)
    # 3. execute on the real pool
    exe, lib = ctx.build_harness("pool_replay", ["pool_replay.cpp"])
    env = ctx.occa_env(lib)
    t0 = time.time()
    outs, crashes = run_replayer(ctx, exe, env, cases, timeout=3000, max_restarts=150, give_up_ok=True)
    ctx.notes.append("replay %.0fs" % (time.time() - t0))
    t0 = time.time()
    for c in crashes:
        if True:   # a crashing pool is reported by both checks (for C04 the events of that execution are lost)
            step = c.get("step", -1)
            b = cases[c["beh"]]
            op = b["steps"][step]["op"] if 0 <= step < len(b["steps"]) else "teardown"
            ctx.mismatch("crash:%s@%s" % (c["crash"], op),
                         "pool replay crashed (%s) at step %s of %s\n%s" % (c["crash"], step, json.dumps(b), c.get("log", "")[-1500:]), [b])
    # 4. trace validation, in parallel chunks (each chunk starts at an `init` event)
    order = sorted(outs)
    nchunks = max(1, min(12, len(order) // 400))
    chunks = [order[i::nchunks] for i in range(nchunks)]
    jobs = []
    linemap = {}
    for ci, ch in enumerate(chunks):
        path = os.path.join(ctx.tmp, "pooltrace-%d.ndjson" % ci)
        ln = 0
        with open(path, "w") as f:
            for bi in ch:
                o = outs[bi]
                for ei, ev in enumerate(o["ev"]):
                    ev = clamp(ev)
                    if ev["e"] == "init":
                        ev["unit"] = o["unit"]
                    if cases[bi].get("cover") and ei < len(o["ev"]) - 2:
                        ev["j"] = 0
                    f.write(json.dumps(ev) + "\n")
                    ln += 1
                    linemap[(path, ln)] = (bi, ei)
        jobs.append((ctx, path))
    events = 0
    with cf.ThreadPoolExecutor(max_workers=min(8, len(jobs))) as ex:
        for path, r in ex.map(validate_chunk, jobs):
            if r.rc != 0:
                raise Broken("trace validation run failed or log not accepted (rc=%s) for %s:\n%s" % (r.rc, path, tail(r.out, 40)))
            ctx.tlc_states += r.distinct
            ctx.tlc_transitions += r.generated
            events += r.distinct - 1
            for line in r.out.splitlines():
                if line.startswith('<<"V"'):
                    # <<"V", 17, {"Disjoint", "Reads"}>>
                    body = line[len('<<"V", '):-2]
                    num, names = body.split(",", 1)
                    names = [n.strip().strip('"') for n in names.strip().strip("{}").split(",") if n.strip()]
                    bi, ei = linemap[(path, int(num))]   # Judge prints the (unprimed) index of the line it consumes
                    ev = outs[bi]["ev"][ei]
                    for nme in names:
                        if nme in preds:
                            b = cases[bi]
                            prefix = {"align": b["align"], "unit": b["unit"], "steps": b["steps"][:ei]}
                            ctx.mismatch("%s@%s" % (nme, ev["e"]),
                                         "predicate %s false after event %d (%s) of %s; logged state: %s" %
                                         (nme, ei, ev["e"], json.dumps(prefix), json.dumps({k: ev[k] for k in ("size", "reserved", "nres", "align", "res")})[:600]),
                                         [b])
    ctx.notes.append("trace validation %.0fs" % (time.time() - t0))
    ctx.traces_validated = len(outs)
    ctx.samples = [cases[0], cases[len(cases) // 2], cases[-1]]
    ctx.cov.update({"behaviours_executed": len(outs), "events_validated": events, "crashes": len(crashes),
                    "design_states": r.distinct if False else None})
    ctx.cov.pop("design_states")
    ctx.assumptions += [
        "pool on a Serial device; sizes 1..6 bytes at alignments 2,3,4,8 (set with setAlignment) and the same shapes scaled by 50 at the default alignment 128",
        "slices of slices, release of a parent with live slices, resize relative to reserved()/size(), shrinkToFit, setAlignment, explicit writes through slices",
        "zero-length reservations are not generated (reserve(0) returns an empty memory by design)",
        "ASan/UBSan active: an out-of-buffer write through a reservation is a crash mismatch",
    ]
    return ctx.finish(exhaustive=False)
