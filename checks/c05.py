"""C05 -- device memory accounting returns to zero and tracks live allocations.
Spec runtime/Accounting.tla (+ runtime/Handles.tla for the composition with handle histories);
MC: mc/Accounting_design*.cfg (+ mc/Accounting_leaky.cfg: skipping the un-count of use_host_pointer
allocations breaks Conservation at design level); generation: mc/Accounting_gen*.cfg, mc/Accounting_sim.cfg;
replayer harness/acct_replay.cpp.
"""
import json
from vlib import Broken, b_json, run_replayer
import c01

ACTIONS = ["DoMalloc", "DoMallocZero", "DoWrap", "DoClone", "DoSlice", "DoFreeView", "DoCreatePool", "DoReserve",
           "DoRelease", "DoResize", "DoShrinkToFit", "DoSetAlignment", "DoFreePool"]


def classify(b, j):
    """Argument class of step j of behaviour b (for the signature only)."""
    s = b[j]
    a = s["a"]
    if a == "malloc":
        return "malloc:%s" % ("hostptr%s" % ("+own" if s["own"] else "") if (s["use"] and s["src"]) else
                              ("copy-src" if s["src"] else "plain"))
    if a in ("free", "clone", "slice"):
        # what kind of buffer is it applied to
        kind = "?"
        for t in b[:j]:
            if t["a"] in ("malloc", "wrap") and t["x"] == s["x"]:
                kind = "hostptr" if (t["a"] == "malloc" and t["use"] and t["src"]) else ("wrap" if t["a"] == "wrap" else "malloc")
            if t["a"] == "clone" and t["n"] == s["x"]:
                kind = "clone"
        last = ""
        if a == "free":
            views = 0
            for t in b[:j]:
                if t["a"] in ("malloc", "wrap") and t["x"] == s["x"]:
                    views = 1
                elif t["a"] == "clone" and t["n"] == s["x"]:
                    views = 1
                elif t["a"] == "slice" and t["x"] == s["x"]:
                    views += 1
                elif t["a"] == "free" and t["x"] == s["x"]:
                    views -= 1
            last = ":last-view" if views == 1 else ":other-view"
        return "%s:%s%s" % (a, kind, last)
    if a in ("resize", "shrink", "reserve", "align"):
        res = 0
        for t in b[:j]:
            if t["x"] == s["x"]:
                if t["a"] == "reserve":
                    res += 1
                elif t["a"] == "release":
                    res -= 1
                elif t["a"] == "freePool":
                    res = 0
        return "%s:%s" % (a, "with-reservations" if res > 0 else "empty")
    return a


def compare(ctx, behaviours, cases, outs, crashes, mode):
    steps = 0
    for c in crashes:
        i = c["beh"]
        if i < 0 or i >= len(cases):
            raise Broken("replayer crash outside any behaviour: %s" % c)
        b = behaviours[i]
        j = c.get("step", -1)
        where = classify(b, j) if 0 <= j < len(b) else "release-all"
        ctx.mismatch("crash:%s:%s" % (c["crash"], where), "[%s] replayer died at step %s of %s\n%s" %
                     (mode, j, [(s["a"], s["x"], s["n"], s["use"], s["own"], s["src"]) for s in b], c.get("log", "")[-1500:]),
                     [cases[i]])
    for i, b in enumerate(behaviours):
        o = outs.get(i)
        if o is None:
            continue
        hist = [(s["a"], s["x"], s["n"]) + ((s["use"], s["own"], s["src"]) if s["a"] == "malloc" else ()) for s in b]
        for j, s in enumerate(b):
            steps += 1
            got = o["obs"][j]
            pre = "[%s] after %s: " % (mode, hist[:j + 1])
            if bool(got["err"]) != bool(s["err"]):
                ctx.mismatch("exception:%s" % classify(b, j), pre + "exception raised = %s, spec %s" % (bool(got["err"]), s["err"]), [cases[i]])
                break
            if got["mem"] != s["mem"]:
                ctx.mismatch("memoryAllocated:%s" % classify(b, j), pre + "memoryAllocated() = %d, spec %d" % (got["mem"], s["mem"]), [cases[i]])
                break
            if got["max"] != s["max"]:
                ctx.mismatch("maxMemoryAllocated:%s" % classify(b, j), pre + "maxMemoryAllocated() = %d, spec %d" % (got["max"], s["max"]), [cases[i]])
                break
            if got["psz"] != c01.seqs(s["psz"]):
                # the counters agree with the spec but the pool is not as large as the transcribed placement says:
                # a different (possibly legitimate) pool policy -- reported under its own signature
                ctx.mismatch("pool-size:%s" % classify(b, j), pre + "pool size() = %s, spec %s (counters agree: the transcribed pool "
                             "placement of Accounting.tla no longer matches memoryPool.cpp)" % (got["psz"], c01.seqs(s["psz"])), [cases[i]])
                break
        else:
            steps += 1
            if o["end"]["mem"] != 0:
                ctx.mismatch("not-zero-after-release-all", "[%s] after %s and releasing everything: memoryAllocated() = %d, spec 0"
                             % (mode, hist, o["end"]["mem"]), [cases[i]])
    return steps


def run(ctx):
    thorough = ctx.tier == "thorough"
    W = 8 if thorough else 4
    cov = {}
    # quick: buffers and pool separately (their effects on the counter add up); thorough: also the product
    cfgs = ["mc/Accounting_design_bufs.cfg", "mc/Accounting_design_pool.cfg"] + (["mc/Accounting_design_large.cfg"] if thorough else [])
    for cfg in cfgs:
        r = ctx.tlc("mc/MC_Accounting.tla", cfg, workers=W, coverage=True, timeout=3000)
        ctx.tlc_must_pass(r, "Accounting design (%s)" % cfg)
        for a in ACTIONS:
            cov[a] = cov.get(a, 0) + r.coverage.get(a, (0, 0))[1]
    missing = [a for a in ACTIONS if cov[a] == 0]
    if missing:
        raise Broken("vacuity: actions never taken in the design runs: %s" % missing)
    r = ctx.tlc("mc/MC_Accounting.tla", "mc/Accounting_leaky.cfg", workers=2, count=False, expect_violation=True, timeout=900)
    if r.violated != "Conservation":
        raise Broken("skipping the un-count of use_host_pointer allocations no longer violates Conservation on the model "
                     "(rc=%s, violated=%s)\n%s" % (r.rc, r.violated, r.out[-1500:]))
    gens = [("mc/Accounting_gen4.cfg", None, None), ("mc/Accounting_genp3.cfg", None, None), ("mc/Accounting_sim.cfg", 500, 24)] if thorough else \
           [("mc/Accounting_gen3.cfg", None, None), ("mc/Accounting_genp2.cfg", None, None), ("mc/Accounting_sim.cfg", 60, 24)]
    behaviours, gen_counts = [], {}
    for cfg, sim, depth in gens:
        g = ctx.tlc("mc/MC_Accounting.tla", cfg, workers=W if sim else 4, simulate=sim, depth=depth, deadlock=False, timeout=3000)
        bs = b_json(g)
        if not bs or (g.rc != 0 and sim is None):
            raise Broken("generation failed (%s, rc=%s):\n%s" % (cfg, g.rc, g.out[-2000:]))
        gen_counts[cfg] = len(bs)
        behaviours += bs
    seen, uniq = set(), []
    for b in behaviours:
        key = json.dumps([(s["a"], s["x"], s["n"], s["use"], s["own"], s["src"]) for s in b])
        if key not in seen:
            seen.add(key)
            uniq.append(b)
    uniq.sort(key=lambda b: json.dumps([(s["a"], s["x"], s["n"], s["use"], s["own"], s["src"]) for s in b]))
    behaviours = uniq
    cases = [{"steps": [{k: s[k] for k in ("a", "x", "n", "use", "own", "src")} for s in b]} for b in behaviours]
    exe, lib = ctx.build_harness("acct_replay", ["acct_replay.cpp"])
    steps = replayed = ncrash = leak_checks = 0
    for mode in (["Serial", "OpenMP"] if thorough else ["Serial"]):
        env = ctx.occa_env(lib, "occa-cache-" + mode)
        env["HR_MODE"] = mode
        env["UBSAN_OPTIONS"] = "print_stacktrace=1:halt_on_error=0"
        # LeakSanitizer as a monitor: after every 50th behaviour (everything released) no heap block allocated by
        # the library may be unreachable -- "released" must also mean given back
        env["ASAN_OPTIONS"] = "detect_leaks=1:leak_check_at_exit=0:abort_on_error=0:exitcode=86:detect_stack_use_after_return=0"
        env["HR_LEAKCHECK"] = str(c01.LEAK_EVERY)
        outs, crashes = c01.parallel_replay(ctx, exe, env, cases, W)
        steps += compare(ctx, behaviours, cases, outs, crashes, mode)
        results, chunks = c01.parallel_replay.last
        c01.find_leaks(ctx, exe, env, cases, results, chunks, c01.LEAK_EVERY,
                       lambda g: [(t["a"], t["x"], t["n"]) + ((t["use"], t["own"], t["src"]) if t["a"] == "malloc" else ())
                                  for t in behaviours[g]])
        leak_checks += sum(len(r[0]) - 2 for r in results) // c01.LEAK_EVERY
        replayed += len(outs)
        ncrash += len(crashes)
    ctx.traces_validated = replayed
    k = len(cases)
    ctx.samples = [cases[0], cases[k // 3], cases[(2 * k) // 3], cases[-1]]
    ctx.cov.update({"behaviours_replayed": replayed, "distinct_behaviours": k, "steps_checked": steps, "crashes": ncrash, "leak_checks": leak_checks,
                    "generated": gen_counts, "actions_taken_in_design_run": cov, "leaky_counterexample": True})
    ctx.assumptions += [
        "one device per history; malloc sizes 16/48 bytes; pools are used through reserve() only (no slices of reservations): "
        "reservations of 40/100/300 bytes, alignments 32/128/512 (setAlignment coarser and finer, with live reservations and on an "
        "empty pool), resize to 0/200/512/1024 bytes, pools up to 2048 bytes; detach() is not exercised",
        "the pool sizes are predicted by a transcription of the placement of memoryPool.cpp (reserve/reallocate/migrate/"
        "computeReserved); a legitimate change of that policy shows up as pool-size:... , not as an accounting signature",
        "use_host_pointer x own_host_pointer x (source pointer given or not) are per-call memory properties",
        "the transient old+new peak inside a pool resize with live reservations counts for maxMemoryAllocated() (it is the true high-water mark)",
        "modes Serial (quick) and Serial+OpenMP (thorough)",
        "LeakSanitizer is a monitor (every 50 behaviours, after everything was released); it can miss a block that a stale "
        "stack slot still points at",
    ]
    return ctx.finish(exhaustive=False)
