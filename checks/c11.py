"""C11 -- dtype and kernel-metadata JSON round trip, incl. cast compatibility.
Spec types/Dtype.tla (+ mc/MC_Dtype.tla); cfgs mc/Dtype_{trees,pairs,meta}_{Quick,Full}.cfg;
replayer harness/dtype_replay.cpp.
"""
import json, os, time
from vlib import Broken, b_json, run_replayer

WORKERS = int(os.environ.get("VERIF_WORKERS", "8"))


def canon_flat(fl):
    """object-local leaf ids -> '#<index of first occurrence>' (ids are local names on both sides)"""
    first, out = {}, []
    for i, l in enumerate(fl):
        if l["u"]:
            first.setdefault(l["id"], i)
            out.append({"u": True, "id": "#%d" % first[l["id"]]})
        else:
            out.append({"u": False, "id": l["id"]})
    return out


def canon_obs(o):
    return {"k": o["k"], "n": o["n"], "bytes": o["bytes"], "reg": o["reg"], "fn": list(o["fn"]),
            "sub": [canon_obs(s) for s in o["sub"]], "flat": canon_flat(o["flat"])}


def diff_fields(exp, got, path=""):
    """list of (path, field) where two canonical observations differ"""
    out = []
    for f in ("k", "n", "bytes", "reg", "fn", "flat"):
        if exp[f] != got[f]:
            out.append((path, f))
    if len(exp["sub"]) != len(got["sub"]):
        out.append((path, "sub-count"))
    else:
        for i, (a, b) in enumerate(zip(exp["sub"], got["sub"])):
            out += diff_fields(a, b, path + "/%s" % (exp["fn"][i] if i < len(exp["fn"]) else i))
    return out


def node_at(tree, path):
    t = tree
    for name in [p for p in path.split("/") if p]:
        t = t["sub"][t["fn"].index(name)]
    return t


def tree_class(t):
    if t["k"] == "builtin":
        return "builtin-vector" if t["n"][-1:].isdigit() and t["n"] not in ("int8", "int32") else "builtin"
    if t["k"] == "custom":
        return "custom-registered" if t["reg"] else "custom"
    return t["k"]


def has_reg_custom(o):
    return any(l["id"].startswith("reg:") for l in o["flat"])


def rt_sig(node, f, exp_node_obs):
    """signature of one difference between the spec's read-back value and the observed one"""
    if f in ("n", "own-name", "own-name-not-passed", "nested-own-name") and node["k"] in ("struct", "enum"):
        return "roundtrip:composite-own-name"
    if tree_class(node) == "custom-registered" and f in ("reg", "flat"):
        return "roundtrip:registered-custom-identity"
    if f == "flat" and has_reg_custom(exp_node_obs):
        return "roundtrip:registered-custom-identity"
    return "roundtrip:%s:%s" % (tree_class(node), f)


def obs_at(o, path):
    for name in [p for p in path.split("/") if p]:
        o = o["sub"][o["fn"].index(name)]
    return o


def shape_key(flat, isbyte):
    return json.dumps([canon_flat(flat), isbyte], sort_keys=True)


def leaf_class(flat):
    if any(l["u"] for l in flat):
        return "object-local-leaf"
    if any(l["id"].startswith("reg:") for l in flat):
        return "registered-custom-leaf"
    return "builtin-leaves"


def evaluate(ctx, trees, metas, rel):
    """build, round-trip and observe the given trees / metadata lists with the real library and compare with
    the spec's records; returns (trees checked, metadata lists checked, comparisons, distinct shapes, crashes)"""
    exe, lib = ctx.build_harness("dtype_replay", ["dtype_replay.cpp"], variant=os.environ.get("VERIF_VARIANT", "asan"))
    env = ctx.occa_env(lib)
    cases = [{"kind": "trees", "pool": [t["tree"] for t in trees]},
             {"kind": "meta", "metas": [m["meta"] for m in metas]}]
    outs, crashes = run_replayer(ctx, exe, env, cases, timeout=3000)
    for c in crashes:
        what = cases[c["beh"]]
        item = None
        if c["beh"] == 0 and 0 <= c["step"]:
            item = what["pool"][c["step"] % len(what["pool"])]
        ctx.mismatch("crash:%s:%s" % (what["kind"], c["crash"]), "replayer crashed on %s: %s" % (item, c.get("log", "")[-1500:]),
                     [{"kind": what["kind"], "item": item}])
    n = len(trees)
    checked = 0
    if 0 in outs:
        o = outs[0]
        keys = []
        for i, t in enumerate(trees):
            tr, ob = t["tree"], o["trees"][i]
            isbyte = tr["k"] == "builtin" and tr["n"] == "byte"
            keys.append(shape_key(t["orig"]["flat"], isbyte))
            rep = [{"kind": "trees", "pool": [tr], "spec": {"trees": [t]}}]
            if "err" in ob:
                ctx.mismatch("exception:%s" % tree_class(tr), "exception for %s: %s" % (tr, ob["err"][:300]), rep)
                continue
            eo, eb = canon_obs(t["orig"]), canon_obs(t["back"])
            # the spec's model of the API itself (original and plain copy)
            for which in ("orig", "copy"):
                d = diff_fields(eo, canon_obs(ob[which]))
                if d:
                    ctx.mismatch("api:%s:%s:%s" % (which, tree_class(node_at(tr, d[0][0])), d[0][1]),
                                 "%s value of %s reports %s, spec %s (differs at %s)" % (which, tr, ob[which], eo, d), rep)
            # THE property: the value read back
            for which in ("back", "named", "twice"):
                for (path, f) in diff_fields(eb, canon_obs(ob[which])):
                    node = node_at(tr, path)
                    if f == "n" and which == "named" and path == "":
                        sig = "roundtrip:%s:own-name-although-passed" % tree_class(node)
                    else:
                        sig = rt_sig(node, f, obs_at(eb, path))
                    ctx.mismatch(sig,
                                 "%s: after toJson/fromJson (%s) the value reports %s, spec %s; JSON text %s" %
                                 (tr, which, ob[which], eb, ob["text"]), rep)
            for f in ("selfcast", "copycast"):
                if ob[f] != t[f]:
                    ctx.mismatch("cast:%s:%s" % (f, leaf_class(t["orig"]["flat"])), "%s of %s = %s, spec %s" % (f, tr, ob[f], t[f]), rep)
            if ob["backself"] is not True:
                ctx.mismatch("cast:backself", "read-back value of %s cannot be cast to itself" % tr, rep)
            checked += 1
        # cast matrix: originals and read-back values, all ordered pairs
        for i in range(n):
            for variant in ("oo", "ro", "or", "rr"):
                row = o[variant][i]
                for j in range(n):
                    if row[j] == "x":
                        continue
                    if i == j:
                        want = trees[i]["selfcast"] if variant in ("oo", "rr") else trees[i]["copycast"]
                    else:
                        want = rel[(keys[i], keys[j])]
                    if (row[j] == "1") != want:
                        cls = leaf_class(trees[i]["orig"]["flat"] + trees[j]["orig"]["flat"])
                        a, b = trees[i]["tree"], trees[j]["tree"]
                        sig = "cast:%s:%s:%s" % ({"oo": "orig->orig", "ro": "back->orig", "or": "orig->back", "rr": "back->back"}[variant],
                                                 cls, "wrongly-%s" % ("accepted" if row[j] == "1" else "refused"))
                        if variant != "oo" and cls == "registered-custom-leaf" and row[j] == "0":
                            sig = "roundtrip:registered-custom-identity"
                        ctx.mismatch(sig,
                                     "canBeCastedTo(%s, %s) [%s] = %s, spec %s" % (a, b, variant, row[j], want),
                                     [{"kind": "trees", "pool": [a, b],
                                       "spec": {"trees": [trees[i], trees[j]],
                                                "rel": [[keys[i], keys[j], rel[(keys[i], keys[j])]], [keys[j], keys[i], rel[(keys[j], keys[i])]]]}}])
                    checked += 1
    nmeta = 0
    if 1 in outs:
        for i, m in enumerate(metas):
            ob = outs[1]["metas"][i]
            rep = [{"kind": "meta", "metas": [m["meta"]], "spec": {"metas": [m]}}]
            if "err" in ob:
                ctx.mismatch("exception:meta", "exception for %s: %s" % (m["meta"], ob["err"][:300]), rep)
                continue
            for which in ("orig", "back"):
                e, g = m[which], ob[which]
                if g["name"] != e["name"] or len(g["args"]) != len(e["args"]):
                    ctx.mismatch("meta:%s:name-or-count" % which, "%s: %s reports %s" % (m["meta"], which, g), rep)
                    continue
                if which == "back" and e["args"] and g["init"] is not True:
                    ctx.mismatch("meta:back:not-initialized", "%s read back is not initialised" % m["meta"], rep)
                for k, (ea, ga) in enumerate(zip(e["args"], g["args"])):
                    for f in ("const", "ptr", "name"):
                        if ea[f] != ga[f]:
                            ctx.mismatch("meta:%s:%s" % (which, f), "%s arg %d: %s = %s, spec %s" % (m["meta"], k, f, ga[f], ea[f]), rep)
                    for (path, f) in diff_fields(canon_obs(ea["dtype"]), canon_obs(ga["dtype"])):
                        node = node_at(m["meta"]["args"][k]["dtype"], path)
                        sig = ("meta:orig:dtype:%s:%s" % (tree_class(node), f) if which == "orig"
                               else rt_sig(node, f, obs_at(canon_obs(ea["dtype"]), path)))
                        ctx.mismatch(sig,
                                     "%s arg %d dtype reports %s, spec %s" % (m["meta"], k, ga["dtype"], ea["dtype"]), rep)
            nmeta += 1
    return n, nmeta, checked, (len(set(keys)) if 0 in outs else 0), len(crashes)


def finish_replay(ctx):
    """--replay: report what was reproduced; the evidence file is not touched"""
    import shutil
    for (sig, what, path) in ctx.mismatches:
        print("VIOLATION property=%s replay=%s sig=%s :: %s" % (ctx.pid, ctx.replay, sig, " | ".join(what.splitlines())[:900]))
    if not ctx.mismatches:
        print("REPLAY-OK property=%s replay=%s: the implementation now conforms on this artefact" % (ctx.pid, ctx.replay))
    shutil.rmtree(ctx.tmp, ignore_errors=True)
    return 1 if ctx.mismatches else 0


def replay(ctx):
    recs = [json.loads(l) for l in open(ctx.replay) if l.strip()]
    if not all("spec" in r for r in recs):
        raise Broken("the artefact carries no predictions (written by an older version of the check)")
    for r in recs:
        sp = r["spec"]
        rel = {(a, b): w for a, b, w in sp.get("rel", [])}
        evaluate(ctx, sp.get("trees", []), sp.get("metas", []), rel)
    return finish_replay(ctx)


def run(ctx):
    if ctx.replay:
        return replay(ctx)
    size = "Full" if ctx.tier == "thorough" else "Quick"
    t0 = time.time()
    gen = {}
    for part in ("trees", "pairs", "meta"):
        cfg = "mc/Dtype_%s_%s.cfg" % (part, size if part != "meta" else "Quick")
        r = ctx.tlc("mc/MC_Dtype.tla", cfg, workers=min(WORKERS, 4), coverage=(part == "trees"), deadlock=False, timeout=3000)
        ctx.tlc_must_pass(r, "Dtype %s (definitions' sanity theorems + round-trip property + generation)" % part)
        if part == "trees":
            ctx.require_coverage(r, ["Step"])
        gen[part] = [b[0] for b in b_json(r)]
        if not gen[part]:
            raise Broken("no values generated by %s" % cfg)
    t1 = time.time()
    trees = sorted(gen["trees"], key=lambda s: json.dumps(s["tree"], sort_keys=True))
    metas = sorted(gen["meta"], key=lambda s: json.dumps(s["meta"], sort_keys=True))
    rel = {}
    for p in gen["pairs"]:
        rel[(shape_key(p["fa"], p["ba"]), shape_key(p["fb"], p["bb"]))] = p["can"]

    n, nmeta, checked, nshapes, ncrashes = evaluate(ctx, trees, metas, rel)
    t2 = time.time()
    t3 = time.time()
    ctx.notes.append("phase wall seconds: TLC %.0f, replay %.0f, compare %.0f" % (t1 - t0, t2 - t1, t3 - t2))
    ctx.traces_validated = n + nmeta
    ctx.samples = [{"tree": trees[0]["tree"]}, {"tree": trees[n // 2]["tree"]}, {"meta": metas[len(metas) // 2]["meta"]}]
    ctx.cov.update({"dtype_trees": n, "cast_pairs_checked_x4": n * n, "distinct_shapes": nshapes,
                    "metadata_lists": nmeta, "comparisons": checked, "crashes": ncrashes})
    ctx.assumptions += [
        "dtype trees of depth <= 2, width <= 2 over the leaves byte/int/float/float2/custom/registered custom/enum (thorough: + double, int8, int4, long, a second custom); tuples of size 2, 3",
        "equivalent value = what a plain copy is: same kind, names, field order, element types, bytes; same canBeCastedTo answers as a copy towards every other pool member (original or read back)",
        "unions exist only via fromJson (no constructor), so their 'original' is itself read from JSON text; registered custom types are not placed below unions",
        "registered objects are handed to addField/tuple as themselves (a *copy* of a registered dtype has bytes_ 0 and addField reads that field: construction, not serialisation, outside C11)",
        "kernelMetadata_t::isInitialized is compared only for non-empty argument lists (see C10 for empty ones)",
        "ASan/UBSan active during replay; a sanitizer report is a crash mismatch"]
    return ctx.finish(exhaustive=True)
