"""C29 -- C API values keep value and type; handles valid until occaFree.
Spec types/CApi.tla (+ mc/MC_CApi.tla); cfgs mc/CApi_{design,scalars,gen,sim}.cfg; replayer harness/capi_replay.cpp
(C headers only).
"""
import json, os, re, struct, time
from concurrent.futures import ThreadPoolExecutor
from vlib import Broken, b_json, run_replayer

WORKERS = int(os.environ.get("VERIF_WORKERS", "8"))
FANOUT = int(os.environ.get("VERIF_FANOUT", "4"))
INT_RANGE = {"i8": (-2 ** 7, 2 ** 7 - 1), "u8": (0, 2 ** 8 - 1), "i16": (-2 ** 15, 2 ** 15 - 1), "u16": (0, 2 ** 16 - 1),
             "i32": (-2 ** 31, 2 ** 31 - 1), "u32": (0, 2 ** 32 - 1), "i64": (-2 ** 63, 2 ** 63 - 1), "u64": (0, 2 ** 64 - 1)}
BYTES = {"i8": 1, "u8": 1, "i16": 2, "u16": 2, "i32": 4, "u32": 4, "i64": 8, "u64": 8, "f32": 4, "f64": 8, "bool": 1}
FLT = {"f32": {"MIN": -3.4028234663852886e38, "MAX": 3.4028234663852886e38, "TINY": 1.1754943508222875e-38,
               "FRAC": struct.unpack("f", struct.pack("f", 0.1))[0]},
       "f64": {"MIN": -1.7976931348623157e308, "MAX": 1.7976931348623157e308, "TINY": 2.2250738585072014e-308, "FRAC": 0.1}}
STRS = {"EMPTY": "", "S": "s", "ESC": "q\"b\\s\nnl\t/"}


def concrete(t, v):
    """the concrete value the harness uses for token v of C type t (format conversion of the token)"""
    if t in INT_RANGE:
        lo, hi = INT_RANGE[t]
        return {"MIN": lo, "M1": -1, "ZERO": 0, "ONE": 1, "MAX": hi, "HALF": (hi + 1) // 2}[v]
    if t in FLT:
        return {"M1": -1.0, "ZERO": 0.0, "ONE": 1.0}.get(v, FLT[t].get(v))
    if t == "bool":
        return 1 if v == "ONE" else 0
    if t == "string":
        return STRS[v]
    return None


def same_value(t, v, text):
    want = concrete(t, v)
    try:
        if t in INT_RANGE or t == "bool":
            return int(text) == want
        if t in FLT:
            return float.fromhex(text) == want
        if t == "string":
            return text == want
    except ValueError:
        return False
    return text == ""


def expected_value(x):
    """the spec's value tree -> the python value its JSON text must parse to (format conversion of tokens)"""
    t = x["t"]
    if t == "obj":
        return {kv["k"]: expected_value(kv["val"]) for kv in x["kids"]}
    if t == "arr":
        return [expected_value(kv["val"]) for kv in x["kids"]]
    if t == "null":
        return None
    if t == "bool":
        return x["v"] == "ONE"
    return concrete(t, x["v"])


DUMP_TOKEN = re.compile(r'''"(?:\\.|[^"\\])*"|(-?\d+(?:\.\d+)?(?:[eE][-+]?\d+)?)(?:[uU]?[lL]{1,2}|[uU]|[fF])?''')


def parse_dump(text):
    """occa's dump writes numbers as C literals (4294967295U, -9223372036854775808L, 1.0e-01f) and control
    characters raw inside strings; drop the literal suffixes and parse leniently (format conversion)"""
    norm = DUMP_TOKEN.sub(lambda m: m.group(0) if m.group(1) is None else m.group(1), text)
    return json.loads(norm, strict=False)


def same_json(want, got):
    """structural equality; integers exactly, floating point up to the printing precision of the dump"""
    if isinstance(want, dict):
        return isinstance(got, dict) and set(want) == set(got) and all(same_json(want[k], got[k]) for k in want)
    if isinstance(want, list):
        return isinstance(got, list) and len(want) == len(got) and all(same_json(a, b) for a, b in zip(want, got))
    if isinstance(want, bool) or want is None or isinstance(want, str):
        return type(want) is type(got) and want == got
    if isinstance(got, bool) or not isinstance(got, (int, float)):
        return False
    if isinstance(want, int):
        return isinstance(got, int) and got == want or (isinstance(got, float) and got == want and abs(want) < 2 ** 53)
    return abs(got - want) <= 1e-5 * abs(want)


def check_wide_and_text(ctx, exp, got, a, case, stats):
    """reads that do not depend on the type the value was stored with: as int64 / uint64 / double where the
    spec says the value is representable, and through the text of occaJsonDump"""
    t = exp["tag"][5:]
    if exp["rd"]["i64"] or exp["rd"]["u64"] or exp["rd"]["f64"]:
        want = concrete(t, exp["v"])
        for T, conv in (("i64", int), ("u64", int), ("f64", float.fromhex)):
            if not exp["rd"][T]:
                continue
            try:
                ok = conv(got[T]) == want
            except (ValueError, KeyError):
                ok = False
            if not ok:
                ctx.mismatch("json:%s:read-as-%s:%s:%s" % (a, T, t, exp["v"]),
                             "stored %s %s = %r; occaJsonGetNumber(.., %s) = %r" % (t, exp["v"], want, T, got.get(T)), [case])
    if "dump" in got and t != "none":
        stats["dumps"] += 1
        try:
            parsed = parse_dump(got["dump"])
        except ValueError:
            stats["dumps_unparsed"] += 1     # the text syntax itself is C24's subject
            return
        want = expected_value(exp["val"])
        if not same_json(want, parsed):
            kind = t if t in ("obj", "arr") else ("number" if t in BYTES and t != "bool" else t)
            ctx.mismatch("json:%s:dump:%s" % (a, kind), "occaJsonDump of handle %d = %s; the spec's document is %r" %
                         (exp["h"], got["dump"][:300], want), [case])


STATS = {"dumps": 0, "dumps_unparsed": 0}


def to_step(s):
    reads = []
    for o in s["obs"]:
        if o["tag"] == "dead":
            continue
        t = o["tag"][5:] if o["tag"].startswith("json:") else ""
        reads.append({"h": o["h"], "as": t if t in BYTES and t != "bool" else ""})
    call = {"pset": "oset", "pget": "oget", "phas": "ohas"}.get(s["a"], s["a"])   # path keys go through the same C calls
    return {"a": call, "h": s["h"], "k": s["k"], "x": {"t": s["x"]["t"], "v": s["x"]["v"]}, "src": s["src"], "i": s["i"], "reads": reads}


class PushRefCtx:
    """mismatch reporter for the behaviours of CApi_pushref.cfg: what a dangling element handle reports after
    ArrayPush (without ASan: stale or empty values) is the same finding as the ASan report"""
    def __init__(self, ctx):
        self.ctx = ctx

    def mismatch(self, sig, what, replay=None):
        if sig.startswith("json:apush:"):
            sig = "handle:array-element-ref:use-after-free-after-ArrayPush"
        return self.ctx.mismatch(sig, what, replay)


def check_read(ctx, exp, got, step, case):
    """one handle: spec observation `exp` vs what the C API reported `got`"""
    tag = exp["tag"]
    a = step["a"]
    if not tag.startswith("json:"):
        # a scalar occaType handed back as it was passed / constructed
        if got.get("tag") != tag:
            return ctx.mismatch("value:%s:tag:%s" % (a, tag), "%s: handle %d has tag %s, spec %s" % (a, exp["h"], got.get("tag"), tag), [case])
        if tag in BYTES and got["bytes"] != BYTES[tag]:
            ctx.mismatch("value:%s:bytes:%s" % (a, tag), "%s: handle %d reports bytes %s" % (a, exp["h"], got["bytes"]), [case])
        if tag == "string" and got["bytes"] != len(STRS[exp["v"]].encode()):
            ctx.mismatch("value:%s:bytes:string" % a, "%s: string handle bytes %s" % (a, got["bytes"]), [case])
        if tag != "null" and not same_value(tag, exp["v"], got.get("v", "")):
            ctx.mismatch("value:%s:value:%s:%s" % (a, tag, exp["v"]), "%s: handle %d value %r, spec %s %s = %r" %
                         (a, exp["h"], got.get("v"), tag, exp["v"], concrete(tag, exp["v"])), [case])
        return
    t = tag[5:]
    if got.get("tag") != "json":
        return ctx.mismatch("json:%s:tag:%s" % (a, t), "%s: handle %d has tag %s, spec json (%s)" % (a, exp["h"], got.get("tag"), t), [case])
    want_is = {"bool": "B", "string": "S", "arr": "A", "obj": "O", "none": "", "null": ""}.get(t, "N")
    if t == "bool" and got["is"] == "BN":
        want_is = "BN"            # occa::json keeps a boolean as a number of type bool: isNumber() is true as well
    if got["is"] != want_is:
        return ctx.mismatch("json:%s:kind:%s" % (a, t), "%s: handle %d is %r, spec %s" % (a, exp["h"], got["is"], t), [case])
    check_wide_and_text(ctx, exp, got, a, case, STATS)
    if t in ("arr", "obj"):
        if got["n"] != exp["n"]:
            ctx.mismatch("json:%s:size:%s" % (a, t), "%s: handle %d has %d entries, spec %d" % (a, exp["h"], got["n"], exp["n"]), [case])
    elif want_is == "N":
        if got.get("ntag") != t:
            ctx.mismatch("json:%s:number-tag:%s" % (a, t), "occaJsonGetNumber(.., %s) returned tag %s" % (t, got.get("ntag")), [case])
        elif not same_value(t, exp["v"], got["v"]):
            ctx.mismatch("json:%s:number-value:%s:%s" % (a, t, exp["v"]), "stored %s %s = %r, read back %r" %
                         (t, exp["v"], concrete(t, exp["v"]), got["v"]), [case])
    elif want_is in ("B", "BN", "S"):
        if not same_value(t, exp["v"], got["v"]):
            ctx.mismatch("json:%s:value:%s:%s" % (a, t, exp["v"]), "stored %s %s, read back %r" % (t, exp["v"], got["v"]), [case])


def check_echo(ctx, tok, e, case):
    order = ["i8", "u8", "i16", "u16", "i32", "u32", "i64", "u64"]
    for i, t in enumerate(order):
        want = concrete(t, tok if not (tok == "M1" and t[0] == "u") else "MAX")
        if tok == "M1" and t[0] == "u":
            want = INT_RANGE[t][1]          # (harness passes (T)-1)
        if t == "u64" and want >= 2 ** 63:
            want -= 2 ** 64                 # written through a long
        if int(e["oi"][i]) != want:
            ctx.mismatch("echo:%s:%s" % (t, tok), "kernel received %s for %s %s (= %d)" % (e["oi"][i], t, tok, want), [case])
    for i, t in enumerate(["f32", "f64"]):
        if float.fromhex(e["of"][i]) != concrete(t, tok):
            ctx.mismatch("echo:%s:%s" % (t, tok), "kernel received %s for %s %s" % (e["of"][i], t, tok), [case])
    if e["boolerr"]:
        ctx.mismatch("echo:bool:rejected", "occaBool as kernel argument raises: %s" % e["boolerr"], [case])
    elif int(e["oi"][8]) != (0 if tok == "ZERO" else 1):
        ctx.mismatch("echo:bool:value", "kernel received %s for bool" % e["oi"][8], [case])
    if e["hashlen"] != 16:
        ctx.mismatch("string:occaKernelHash:length", "strlen(occaKernelHash()) = %d, expected 16" % e["hashlen"], [case])


def replay_parallel(ctx, exe, env, cases, chunks):
    n = len(cases)
    size = max(1, (n + chunks - 1) // chunks)
    parts = [(i, cases[i:i + size]) for i in range(0, n, size)]

    def one(arg):
        k, (off, part) = arg
        time.sleep(0.07 * k)
        e = dict(env)
        e["OCCA_CACHE_DIR"] = env["OCCA_CACHE_DIR"] + "-%d" % k
        outs, crashes = run_replayer(ctx, exe, e, part, timeout=2400, max_restarts=60)
        return ({off + i: o for i, o in outs.items()}, [dict(c, beh=c["beh"] + off) for c in crashes])

    outs, crashes = {}, []
    with ThreadPoolExecutor(max_workers=chunks) as ex:
        for o, c in ex.map(one, enumerate(parts)):
            outs.update(o)
            crashes += c
    return outs, crashes


def finish_replay(ctx):
    """--replay: report what was reproduced; the evidence file is not touched"""
    import shutil
    for (sig, what, path) in ctx.mismatches:
        print("VIOLATION property=%s replay=%s sig=%s :: %s" % (ctx.pid, ctx.replay, sig, " | ".join(what.splitlines())[:900]))
    if not ctx.mismatches:
        print("REPLAY-OK property=%s replay=%s: the implementation now conforms on this artefact" % (ctx.pid, ctx.replay))
    shutil.rmtree(ctx.tmp, ignore_errors=True)
    return 1 if ctx.mismatches else 0


def compare_behaviour(ctx, b, case, o, is_pushref):
    """one behaviour: every read of every step against the spec's observation; returns reads checked"""
    if o is None:
        return 0
    art = [dict(case, spec=b, pushref=is_pushref)]
    reads = 0
    for j, s in enumerate(b):
        ob = o["obs"][j]
        if "err" in ob:
            ctx.mismatch("exception:%s" % s["a"], "unexpected exception in %s: %s" % (to_step(s), ob["err"]), art)
            break
        exp = [e for e in s["obs"] if e["tag"] != "dead"]
        if len(exp) != len(ob["reads"]):
            raise Broken("replayer returned %d reads for %d requested" % (len(ob["reads"]), len(exp)))
        rctx = PushRefCtx(ctx) if is_pushref else ctx
        for e, g in zip(exp, ob["reads"]):
            check_read(rctx, e, g, s, art[0])
            reads += 1
        if s["a"] == "construct" and ob.get("amb") != "ok":
            ctx.mismatch("construct:ambiguous:%s" % ob.get("amb"), "occa%s() differs from the sized constructor for %s" % (ob.get("amb"), s["x"]), art)
        if s["a"] == "echo":
            check_echo(ctx, s["k"], ob["echo"], art[0])
        if s["a"] == "phas" and ob.get("has") != s["res"]:
            ctx.mismatch("json:phas:result:%s" % ("missing" if s["res"] else "phantom"),
                         "occaJsonObjectHas(h%d, %r) = %s, spec %s" % (s["h"], s["k"], ob.get("has"), s["res"]), art)
    return reads


def crash_sig(c, case):
    st = case["steps"][c["step"]] if 0 <= c["step"] < len(case["steps"]) else {"a": "end-of-behaviour"}
    log = c.get("log", "")
    where = "occaKernelHash" if ("occaKernelHash" in log or "occaKernelFullHash" in log) and "strlen" in log else st["a"]
    sig = "crash:%s:%s" % (c["crash"], where)
    if "heap-use-after-free" in log and st["a"] == "apush" and "_M_realloc_insert" in log:
        sig = "handle:array-element-ref:use-after-free-after-ArrayPush"
    return sig, "replayer died at step %s (%s): %s" % (c["step"], st, log[-1800:])


def replay(ctx):
    recs = [json.loads(l) for l in open(ctx.replay) if l.strip()]
    if not all("spec" in r for r in recs):
        raise Broken("the artefact carries no predictions (written by an older version of the check)")
    cases = [{"steps": r["steps"]} for r in recs]
    exe, lib = ctx.build_harness("capi_replay", ["capi_replay.cpp"], internal=False, variant=os.environ.get("VERIF_VARIANT", "asan"))
    env = ctx.occa_env(lib)
    env["UBSAN_OPTIONS"] = "print_stacktrace=0:halt_on_error=0"
    outs, crashes = run_replayer(ctx, exe, env, cases, timeout=900)
    for c in crashes:
        sig, what = crash_sig(c, cases[c["beh"]])
        ctx.mismatch(sig, what)
    for i, r in enumerate(recs):
        compare_behaviour(ctx, r["spec"], cases[i], outs.get(i), r.get("pushref", False))
    return finish_replay(ctx)


def run(ctx):
    if ctx.replay:
        return replay(ctx)
    t0 = time.time()
    # 1. design run: all actions, tiny values, history hidden; invariants + vacuity
    r = ctx.tlc("mc/MC_CApi.tla", "mc/CApi_design.cfg" if ctx.tier == "thorough" else "mc/CApi_design5.cfg", workers=min(WORKERS, 4), coverage=True, deadlock=False, timeout=2400)
    ctx.tlc_must_pass(r, "CApi design")
    ctx.require_coverage(r, ["Create", "ObjSet", "ObjGet", "ArrPush", "ArrGet", "ArrChange", "Free", "FreeAgain"])
    # 2. behaviours: all scalars (script shaped), all short histories, random long histories
    gens = [("mc/CApi_scalars.cfg", None), ("mc/CApi_pushref.cfg", None), ("mc/CApi_paths.cfg", None), ("mc/CApi_gen.cfg", None), ("mc/CApi_sim.cfg", 6000 if ctx.tier == "thorough" else 600)]
    behaviours, counts, pushref_keys = [], {}, set()
    for cfg, sim in gens:
        w = min(WORKERS, 4)
        g = ctx.tlc("mc/MC_CApi.tla", cfg, workers=(w if sim else 2), simulate=(max(1, sim // w) if sim else None),
                    depth=(12 if sim else None), deadlock=False, timeout=2400)
        ctx.tlc_must_pass(g, "CApi generation %s" % cfg)
        bs = b_json(g)
        if not bs:
            raise Broken("no behaviours from %s" % cfg)
        counts[cfg] = len(bs)
        if "pushref" in cfg:
            pushref_keys = set(json.dumps([to_step(s) for s in b], sort_keys=True) for b in bs)
        behaviours += bs
    seen, uniq = set(), []
    for b in behaviours:
        key = json.dumps([to_step(s) for s in b], sort_keys=True)
        if key not in seen:
            seen.add(key)
            uniq.append(b)
    behaviours = sorted(uniq, key=lambda b: json.dumps(b, sort_keys=True))
    cases = [{"steps": [to_step(s) for s in b]} for b in behaviours]
    t1 = time.time()
    exe, lib = ctx.build_harness("capi_replay", ["capi_replay.cpp"], internal=False, variant=os.environ.get("VERIF_VARIANT", "asan"))
    env = ctx.occa_env(lib)
    # UBSan is a monitor for properties that name undefined behaviour; C29 does not (occa::hash's signed
    # overflow, C27's subject, is on the JIT path of the kernel echo): report, do not halt
    env["UBSAN_OPTIONS"] = "print_stacktrace=0:halt_on_error=0"
    outs, crashes = replay_parallel(ctx, exe, env, cases, FANOUT)
    for c in crashes:
        sig, what = crash_sig(c, cases[c["beh"]])
        ctx.mismatch(sig, what, [dict(cases[c["beh"]], spec=behaviours[c["beh"]],
                                      pushref=json.dumps(cases[c["beh"]]["steps"], sort_keys=True) in pushref_keys)])
    reads = 0
    for i, b in enumerate(behaviours):
        reads += compare_behaviour(ctx, b, cases[i], outs.get(i), json.dumps(cases[i]["steps"], sort_keys=True) in pushref_keys)
    t2 = time.time()
    ctx.notes.append("phase wall seconds: TLC %.0f, build+replay+compare %.0f" % (t1 - t0, t2 - t1))
    ctx.traces_validated = len(outs)
    ctx.samples = [cases[0], cases[len(cases) // 2], cases[-1]]
    ctx.cov.update({"behaviours_replayed": len(outs), "handle_reads_checked": reads,
                    "dumps_compared": STATS["dumps"] - STATS["dumps_unparsed"], "dumps_unparsed": STATS["dumps_unparsed"], "crashes": len(crashes),
                    "generated": counts, "actions_taken": {a: v[1] for a, v in r.coverage.items() if a[0].isupper()}})
    ctx.assumptions += [
        "scalar tokens MIN/-1/0/1/2^(w-1)/MAX (integers), -MAX/-1/0/1/MAX/smallest normal/0.1 (float, double), bool, three strings (empty, plain, with quote/backslash/newline), null",
        "a stored number is read back as the C type it was stored with, as int64, uint64 and double wherever the spec says the value is representable there, and through occaJsonDump of every live handle (owner handles: the whole document; integers compared exactly, floating point up to the dump's printing precision; a dump that is not parseable JSON is counted, not judged: text syntax is C24's subject); occaJsonObjectGet/ArrayGet return references by design",
        "integer tokens: least value, -1 (signed), 0, 1, 2^(w-1) (unsigned), greatest value -- for every width, in the quick tier too",
        "a reference handle is used only while its owner lives and its location exists (ArrayPop/Clear/Insert and ObjectSet over a container end the locations below); ObjectSet of other keys must not invalidate",
        "ArrayPush: the intended behaviour (element handles stay valid) is generated by CApi_pushref.cfg only; all other runs use the named deviation PushKeepsRefs = FALSE (element handles of an array end at a push), so that the rest of each history keeps being validated",
        "path keys a, a/b, a/b/c, a/a (and a/b, b/a, a/b/a in random histories) for ObjectSet / ObjectGet(default) / ObjectHas with nested-dictionary semantics: set creates intermediates, has and get agree, a path that does not resolve (missing member or scalar on the way) returns the default with its type; documents built through the C calls only (not occaJsonParse)",
        "documents of depth <= 2 (3 with path keys), keys {a,b}, arrays up to 2 (exhaustive) / 4 (simulation) entries, up to 3 / 6 handles",
        "kernel-argument conversion observed end to end: a Serial kernel writes its 10 scalar parameters (and a bool) to memory",
        "memory safety (use after free, double free, leaks of documents) is monitored by ASan on the explored behaviours only; LSan is off (parser leaks in the JIT path)"]
    return ctx.finish(exhaustive=False)
