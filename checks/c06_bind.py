"""C06 binding tables: how the spec's value tokens (e/a/b per build input) become concrete
occa properties.  Pure glue -- no expectation about keys lives here."""
import json

STR = ["compiler", "compiler_flags", "compiler_linker_flags", "compiler_shared_flags",
       "compiler_env_script", "compiler_language"]
ARR = ["includes", "headers"]
OBJ = ["defines", "functions"]


def kind(p):
    return "str" if p in STR else "arr" if p in ARR else "obj" if p in OBJ else p


# value flavours of the key tier.  Inside one flavour all properties of a kind use the same two
# values ("values may coincide across different properties"); every value differs from the
# default and from the other one in its effect on a build.
FLAVOURS = [
    {"str": {"a": "-DOCCA_V=1", "b": "-DOCCA_V=2"},
     "arr": {"a": ["occa_c06_a.h"], "b": ["occa_c06_b.h"]},
     "obj": {"a": {"f": "@FN:a@"}, "b": {"f": "@FN:b@"}},
     "okl": {"a": {"restrict": "disabled"}, "b": {"restrict": "__restrict"}}},
    {"str": {"a": "g++", "b": "clang++-14"},
     "arr": {"a": ["#define HV 1"], "b": ["#define HV 2"]},
     "obj": {"a": {"A": "@FN:a@"}, "b": {"B": "@FN:a@"}},
     "okl": {"a": {"enabled": False}, "b": {"validate": False}}},
    {"str": {"a": "-DA=1 -DB=2", "b": "-DB=2 -DA=1"},
     "arr": {"a": ["p.h", "q.h"], "b": ["q.h", "p.h"]},
     "obj": {"a": {"A": "@FN:a@", "B": "@FN:b@"}, "b": {"A": "@FN:b@", "B": "@FN:a@"}},
     "okl": {"a": {"include_paths": ["/tmp/occa_c06_inc/A"]}, "b": {"include_paths": ["/tmp/occa_c06_inc/B"]}}},
    {"str": {"a": "x\", \"compiler_flags\": \"y", "b": "x, y"},
     "arr": {"a": ["a,b"], "b": ["a", "b"]},
     "obj": {"a": {"F": "@FN:a@", "G": "@FN:a@"}, "b": {"F": "@FN:a@"}},
     "okl": {"a": {"strict_headers": False}, "b": {"strict_headers": False, "validate": False}}},
]

SOURCES = {
    "e": "@kernel void k(int *out) {\n  for (int i = 0; i < 1; ++i; @tile(1, @outer, @inner)) { out[i] = 0; }\n}\n",
    "a": "@kernel void k(int *out) {\n  for (int i = 0; i < 1; ++i; @tile(1, @outer, @inner)) { out[i] = 1; }\n}\n",
    "b": "@kernel void k(int *out) {\n  for (int i = 0; i < 1; ++i; @tile(1, @outer, @inner)) { out[i] = 2; }\n}\n",
}


def source_text(tok):
    return SOURCES[tok]


# flavours in which an overriding value completely replaces the overridden one (object values are merged
# key by key by occa::json, so both values of an object-valued input must use the same keys)
OVERRIDE_SAFE = [0, 2]
OTHER_TOKEN = {"a": "b", "b": "a"}
OTHER_MODE = {"Serial": "OpenMP", "OpenMP": "Serial"}


def _values(cfg, flavour, other=False):
    fl = FLAVOURS[flavour]
    d = {}
    for p, tok in cfg.items():
        if p in ("source", "route") or tok == "e":
            continue
        d[p] = fl[kind(p)][OTHER_TOKEN[tok] if other else tok]
    return d


def props_text(cfg, flavour, mode="Serial"):
    """(build props text, device props text) that deliver the configuration's properties by its route."""
    d = _values(cfg, flavour)
    route = cfg.get("route", "flat")
    dev = {}
    if route == "flat":
        props = d
    elif route == "mode":
        props = {"modes": {mode: d}}
    elif route == "generic+mode":
        props = dict(_values(cfg, flavour, other=True))
        props["modes"] = {mode: d}
    elif route == "othermode":
        props = {"modes": {OTHER_MODE[mode]: d}}
    elif route == "dev":
        props, dev = {}, {"kernel": d}
    elif route == "devmode":
        props, dev = {}, {"kernel": {"modes": {mode: d}}}
    elif route == "dev+flat":
        props, dev = d, {"kernel": _values(cfg, flavour, other=True)}
    else:
        raise ValueError(route)
    return json.dumps(props, sort_keys=True), json.dumps(dev, sort_keys=True)


def fixed_env(env):
    """The fixed process environment of the property: no variable that overrides a listed
    property (serial::device::buildKernel gives OCCA_CXX, OCCA_LDFLAGS, ... precedence)."""
    e = dict(env)
    for v in ("OCCA_CXX", "OCCA_CC", "OCCA_CXXFLAGS", "OCCA_CFLAGS", "OCCA_LDFLAGS", "OCCA_COMPILER_SHARED_FLAGS",
              "OCCA_COMPILER_LANGUAGE", "OCCA_INCLUDE_PATH", "OCCA_LIBRARY_PATH", "OCCA_KERNEL_PATH", "CXX", "CC",
              "CXXFLAGS", "CFLAGS"):
        e[v] = ""
    return e
