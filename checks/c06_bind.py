"""C06 binding tables: how the spec's value tokens (e/a/b per build input) become concrete
occa properties.  Pure glue -- no expectation about keys lives here."""
import json

STR = ["compiler", "compiler_flags", "compiler_linker_flags", "compiler_shared_flags",
       "compiler_env_script", "compiler_language"]
ARR = ["includes", "headers"]
OBJ = ["defines", "functions"]


def kind(p):
    return "str" if p in STR else "arr" if p in ARR else "obj" if p in OBJ else p


# value flavours of the key tier.  Inside one flavour all properties of a kind use the same two
# values ("values may coincide across different properties"); every value differs from the
# default and from the other one in its effect on a build.
FLAVOURS = [
    {"str": {"a": "-DOCCA_V=1", "b": "-DOCCA_V=2"},
     "arr": {"a": ["occa_c06_a.h"], "b": ["occa_c06_b.h"]},
     "obj": {"a": {"f": "@FN:a@"}, "b": {"f": "@FN:b@"}},
     "okl": {"a": {"restrict": "disabled"}, "b": {"restrict": "__restrict"}}},
    {"str": {"a": "g++", "b": "clang++-14"},
     "arr": {"a": ["#define HV 1"], "b": ["#define HV 2"]},
     "obj": {"a": {"A": "@FN:a@"}, "b": {"B": "@FN:a@"}},
     "okl": {"a": {"enabled": False}, "b": {"validate": False}}},
    {"str": {"a": "-DA=1 -DB=2", "b": "-DB=2 -DA=1"},
     "arr": {"a": ["p.h", "q.h"], "b": ["q.h", "p.h"]},
     "obj": {"a": {"A": "@FN:a@", "B": "@FN:b@"}, "b": {"A": "@FN:b@", "B": "@FN:a@"}},
     "okl": {"a": {"include_paths": ["/tmp/occa_c06_inc/A"]}, "b": {"include_paths": ["/tmp/occa_c06_inc/B"]}}},
    {"str": {"a": "x\", \"compiler_flags\": \"y", "b": "x, y"},
     "arr": {"a": ["a,b"], "b": ["a", "b"]},
     "obj": {"a": {"F": "@FN:a@", "G": "@FN:a@"}, "b": {"F": "@FN:a@"}},
     "okl": {"a": {"strict_headers": False}, "b": {"strict_headers": False, "validate": False}}},
]

SOURCES = {
    "e": "@kernel void k(int *out) {\n  for (int i = 0; i < 1; ++i; @tile(1, @outer, @inner)) { out[i] = 0; }\n}\n",
    "a": "@kernel void k(int *out) {\n  for (int i = 0; i < 1; ++i; @tile(1, @outer, @inner)) { out[i] = 1; }\n}\n",
    "b": "@kernel void k(int *out) {\n  for (int i = 0; i < 1; ++i; @tile(1, @outer, @inner)) { out[i] = 2; }\n}\n",
}


def source_text(tok):
    return SOURCES[tok]


def props_text(cfg, flavour):
    fl = FLAVOURS[flavour]
    d = {}
    for p, tok in cfg.items():
        if p == "source" or tok == "e":
            continue
        d[p] = fl[kind(p)][tok]
    return json.dumps(d, sort_keys=True)


def fixed_env(env):
    """The fixed process environment of the property: no variable that overrides a listed
    property (serial::device::buildKernel gives OCCA_CXX, OCCA_LDFLAGS, ... precedence)."""
    e = dict(env)
    for v in ("OCCA_CXX", "OCCA_CC", "OCCA_CXXFLAGS", "OCCA_CFLAGS", "OCCA_LDFLAGS", "OCCA_COMPILER_SHARED_FLAGS",
              "OCCA_COMPILER_LANGUAGE", "OCCA_INCLUDE_PATH", "OCCA_LIBRARY_PATH", "OCCA_KERNEL_PATH", "CXX", "CC",
              "CXXFLAGS", "CFLAGS"):
        e[v] = ""
    return e
