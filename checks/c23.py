"""C23 -- functional arrays, ranges and forLoop match sequential semantics.
Spec lang/Functional.tla (definition + implementation schemes), lang/FunctionalMachine.tla (one action
per public call, history variable); constants mc/MC_Functional.tla; design runs mc/Functional_design_*.cfg;
generation mc/Functional_gen_*.cfg; replayer harness/functional_replay.cpp (Serial and OpenMP devices).
"""
import json, os, threading, time, collections
from vlib import Broken, b_json

MODES = ("Serial", "OpenMP")
ARRAY_ACTIONS = ["NewArray", "SetTile", "AEvery", "ASome", "AFindIndex", "AMap", "AMapToSelf", "AMapToOther",
                 "AForEach", "AReduce", "AMin", "AMax", "ADot", "AFill", "ASlice", "AConcat", "AIndexOf",
                 "ALastIndexOf", "AIncludes", "AReverse", "AClamp", "AShiftLeft", "AShiftRight"]
RANGE_ACTIONS = ["NewRange", "RSetTile", "REvery", "RSome", "RFindIndex", "RMap", "RMapTo", "RToArray", "RForEach",
                 "RReduce"]


# ------------------------------------------------------------------ classification helpers (no oracle here)
def set_tile(old, ts, ti):
    return (ts if ts > 0 else old[0], ti if ti > 0 else old[1])


def eff_tiles(length, tile):
    """the clamped (tileSize, tileIterations) the map kernels are specialised with (classification only)"""
    ts = max(1, min(max(1, tile[0] if tile[0] else -1), length))
    ti = min(max(1, tile[1] if tile[1] else -1), (length + ts - 1) // ts)
    return ts, ti


def walk(beh):
    """yields (step index, step, object length before the step, tile settings before the step)"""
    length, tile = 0, (0, 0)
    for j, s in enumerate(beh):
        a, g = s["a"], s["args"]
        yield j, s, length, tile
        if a in ("new", "range"):
            length, tile = s["exp"], set_tile((0, 0), g["ts"], g["ti"])
        elif a == "tile":
            tile = set_tile(tile, g["ts"], g["ti"])
        elif a in ("slice", "concat"):
            length, tile = len(s["exp"]), (0, 0)


def loop_class(g):
    its = list(g["outer"]) + list(g["inner"])
    c = []
    if g["tiled"]:
        c.append("tiled")
        if any(i["k"] == "array" for i in its[:-1]):
            return "tiled+array-not-last"      # one class: the loop nest cannot be compiled (known finding)
    if any(i["k"] == "range" and i["st"] < 0 for i in its):
        c.append("negstep")
    if any(i["k"] == "range" and abs(i["st"]) > 1 for i in its):
        c.append("step>1")
    if any(i["k"] == "array" for i in its):
        c.append("array")
    return "+".join(c) or "plain"


def step_class(s, length, tile):
    a, g = s["a"], s["args"]
    if a == "loop":
        return loop_class(g)
    if a in ("new", "range"):
        return "create"
    c = []
    if length == 0:
        c.append("len0")
    ts, ti = eff_tiles(length, tile)
    if ti > 1:
        c.append("ti>1")
    elif ts > 1:
        c.append("ts>1")
    return "+".join(c) or "plain"


def fn_of(s):
    g = s["args"]
    f = g.get("f", "") if isinstance(g, dict) else ""
    if s["a"] in ("reduce", "r.reduce"):
        f = "%s/%s/%s%s" % (g["rt"], f, g["t2"], "/init" if g["hi"] else "")
    return f


def bag(tuples):
    c = collections.Counter(tuple(t) for t in tuples)
    return sorted([list(k), v] for k, v in c.items())


def strip(beh, lo_w):
    """the replayer's input: actions and arguments only (no predictions)"""
    steps = []
    for s in beh:
        g = dict(s["args"]) if isinstance(s["args"], dict) else {}
        if s["a"] == "loop":
            g["lo"], g["W"] = lo_w(s)
        steps.append({"a": s["a"], "args": g})
    return {"steps": steps}


def loop_window(s):
    g = s["args"]
    arity = len(g["outer"]) + len(g["inner"])
    lo, w = (-8, 24) if arity <= 3 else ((-4, 14) if arity == 4 else (-2, 9))
    for t in s["exp"]:
        for x in t:
            if not (lo <= x < lo + w):
                raise Broken("loop tuple component %d outside the counter window [%d,%d)" % (x, lo, lo + w))
    return lo, w


# ------------------------------------------------------------------ fan-out over replayer processes
def group_key(beh):
    # behaviours that need the same JIT kernels go to the same worker (each worker has its own kernel cache)
    k = []
    for j, s, length, tile in walk(beh):
        if s["a"] in ("new", "range", "tile"):
            continue
        if s["a"] == "loop":
            g = s["args"]
            k.append(("loop", g["tiled"], len(g["outer"]),
                      tuple((i["k"], i["s"] == 0, abs(i["st"]) == 1, i["st"] > 0, i["t"]) for i in list(g["outer"]) + list(g["inner"]))))
        else:
            k.append((s["a"], fn_of(s), eff_tiles(length, tile)))
    if len(k) > 1:
        # histories of several calls need many kernels each: keep them together in one worker per device
        # (their execution is cheap) instead of compiling those kernels in every worker
        return (("multi", "", None),)
    return tuple(k)


def replay_worker(exe, env, tmp, cases, timeout, max_crashes):
    """run `exe in out start` over `cases`, restarting after a crash (the crash is attributed to the behaviour
    being executed); gives up on the rest after max_crashes crashes (they are reported, the rest is not executed).
    Returns (outputs by case index, crashes, number of cases not executed)."""
    from vlib import sh
    inp, outp = os.path.join(tmp, "in.ndjson"), os.path.join(tmp, "out.ndjson")
    with open(inp, "w") as f:
        for c in cases:
            f.write(json.dumps(c) + "\n")
    open(outp, "w").close()
    start, crashes, skipped = 0, [], 0
    while start < len(cases):
        rc, log = sh([exe, inp, outp, str(start)], timeout=timeout, env=env)
        if rc == 0:
            break
        last, done = None, -1
        lines = open(outp).read().splitlines()
        for line in lines:
            try:
                rec = json.loads(line)
            except ValueError:
                continue
            if "crash" in rec:
                last = rec
            elif "beh" in rec:
                done = max(done, rec["beh"])
        if last is None or last.get("beh", -1) < start:
            last = {"crash": "exit-%d" % rc, "beh": max(done + 1, start), "step": -1}
        last["log"] = log[-3000:]
        crashes.append(last)
        start = last["beh"] + 1
        with open(outp, "w") as f:
            f.write("".join(l + "\n" for l in lines if '"crash"' not in l))
        if len(crashes) >= max_crashes:
            skipped = len(cases) - start
            break
    outs = {}
    for line in open(outp):
        try:
            rec = json.loads(line)
        except ValueError:
            raise Broken("unparseable replayer output: %r" % line[:200])
        if "beh" in rec:
            outs[rec["beh"]] = rec
    return outs, crashes, skipped


def fan_out(ctx, exe, env, cases, behs, mode, workers, timeout, max_crashes=12):
    groups = collections.defaultdict(list)
    for i, b in enumerate(behs):
        groups[group_key(b)].append(i)
    # estimated cost of a group: its kernel(s) (forLoop kernels include <occa.hpp>) plus the executions
    def cost(key):
        return (6.0 if key and key[0][0] == "loop" else 1.0) + 0.004 * len(groups[key])

    bins, load = [[] for _ in range(workers)], [0.0] * workers
    for key in sorted(groups, key=lambda k: (-cost(k), repr(k))):
        w = load.index(min(load))
        bins[w].extend(groups[key])
        load[w] += cost(key)
    outs, crashes, errs, skipped, kernels = {}, [], [], [0], [0]

    def work(w):
        try:
            idx = bins[w]
            if not idx:
                return
            tmp = os.path.join(ctx.tmp, "w-%s-%d" % (mode, w))
            os.makedirs(tmp, exist_ok=True)
            e = dict(env)
            e["OCCA_CACHE_DIR"] = os.path.join(tmp, "occa-cache")
            e["C23_MODE"] = mode
            o, c, sk = replay_worker(exe, e, tmp, [cases[i] for i in idx], timeout, max_crashes)
            skipped[0] += sk
            try:
                kernels[0] += len(os.listdir(os.path.join(e["OCCA_CACHE_DIR"], "cache")))
            except OSError:
                pass
            for k, rec in o.items():
                outs[idx[k]] = rec
            for cr in c:
                cr = dict(cr)
                cr["beh"] = idx[cr["beh"]] if 0 <= cr["beh"] < len(idx) else -1
                crashes.append(cr)
        except Exception as ex:  # noqa
            errs.append(ex)

    ths = [threading.Thread(target=work, args=(w,)) for w in range(workers)]
    for t in ths:
        t.start()
    for t in ths:
        t.join()
    if errs:
        raise errs[0] if isinstance(errs[0], Broken) else Broken("replayer fan-out failed: %r" % (errs[0],))
    return outs, crashes, skipped[0], kernels[0]


# ------------------------------------------------------------------ comparison
def compare_step(s, ob):
    """-> None if the observation equals the spec's prediction, else a short description"""
    a, exp = s["a"], s["exp"]
    if ob["err"]:
        return "exception: " + ob["err"].replace("\n", " ")[:200]
    v = ob["v"]
    if a == "loop":
        if v["outside"] != 0:
            return "body ran %d time(s) with an index outside every iteration range" % v["outside"]
        want = bag(exp)
        got = sorted(v["cells"])
        if want != got:
            miss = [w for w in want if w not in got][:3]
            extra = [x for x in got if x not in want][:3]
            return "index tuples differ: expected-but-not-run-as-often %s, run-but-not-expected %s" % (miss, extra)
        return None
    if a == "r.forEach":
        if sorted(exp) != sorted(v):
            return "forEach touched %s, spec %s" % (sorted(v), sorted(exp))
        return None
    if v != exp:
        return "returned %s, spec %s" % (json.dumps(v), json.dumps(exp))
    return None


def describe(beh, j):
    return [(t["a"], t["args"]) for t in beh[:j + 1]]


def run(ctx):
    thorough = ctx.tier == "thorough"
    ctx.level = "model_checking"
    workers = int(os.environ.get("C23_WORKERS", "8" if thorough else "6"))
    tlcw = 4
    tlcpar = int(os.environ.get("C23_TLC_PAR", "4"))

    # ---- replay of a stored counterexample
    if ctx.replay:
        recs = [json.loads(l) for l in open(ctx.replay) if l.strip()]
        gens_out = [(r["steps"], r.get("mode")) for r in recs]
        behaviours = [b for b, _ in gens_out]
        only_modes = sorted({m for _, m in gens_out if m}) or list(MODES)
    else:
        only_modes = list(MODES)
        # ---- 1. design runs: definition vs implementation schemes in every reachable object state
        res = {}

        def tlc_job(name, cfg, **kw):
            res[name] = ctx.tlc("mc/MC_Functional.tla", cfg, **kw)

        jobs = [("design_array", "mc/Functional_design_array.cfg", dict(workers=tlcw, coverage=True)),
                ("design_range", "mc/Functional_design_range.cfg", dict(workers=tlcw, coverage=True))]
        # (name, cfg, simulate num, depth)
        gens = [("tiled", "mc/Functional_gen_tiled.cfg", None, None), ("values", "mc/Functional_gen_values.cfg", None, None),
                ("pairs", "mc/Functional_gen_pairs.cfg", None, None),
                ("range", "mc/Functional_gen_range.cfg", None, None), ("range_tiled", "mc/Functional_gen_range_tiled.cfg", None, None),
                ("loop", "mc/Functional_gen_loop.cfg", None, None)]
        if thorough:
            gens = [("tiled_t", "mc/Functional_gen_tiled_t.cfg", None, None), ("values_t", "mc/Functional_gen_values_t.cfg", None, None),
                    ("pairs_t", "mc/Functional_gen_pairs_t.cfg", None, None), ("helpers", "mc/Functional_gen_helpers.cfg", None, None),
                    ("range_t", "mc/Functional_gen_range_t.cfg", None, None), ("loop_t", "mc/Functional_gen_loop_t.cfg", None, None),
                    ("sim_array", "mc/Functional_sim_array.cfg", 1500, 7), ("sim_range", "mc/Functional_sim_range.cfg", 600, 5),
                    ("sim_loop", "mc/Functional_sim_loop.cfg", 40, 1)]
        only = [x for x in os.environ.get("C23_ONLY", "").split(",") if x]
        if only:      # development aid (mutant demonstrations): a subset of the generation configs, no design runs
            gens = [g for g in gens if g[0] in only]
            jobs = []
            ctx.notes.append("C23_ONLY=%s: partial run" % ",".join(only))
        for name, cfg, sim, depth in gens:
            # simulation: SimSpec prints each complete behaviour in a stuttering step (no CONSTRAINT, no deadlock check)
            jobs.append((name, cfg, dict(workers=1, count=False, timeout=3000, simulate=sim,
                                         depth=(depth + 2 if depth else None), deadlock=(sim is None))))
        # at most `tlcpar` TLC processes at a time
        sem = threading.Semaphore(tlcpar)

        def guarded(name, cfg, kw):
            with sem:
                tlc_job(name, cfg, **kw)

        ths = []
        for name, cfg, kw in jobs:
            t = threading.Thread(target=guarded, args=(name, cfg, kw))
            t.start()
            ths.append(t)
            time.sleep(0.05)
        for t in ths:
            t.join()
        for name, _, _ in jobs:
            if name not in res:
                raise Broken("TLC job %s did not finish" % name)
        if not only:
            ctx.tlc_must_pass(res["design_array"], "Functional design (arrays)")
            ctx.tlc_must_pass(res["design_range"], "Functional design (ranges)")
            ctx.require_coverage(res["design_array"], ARRAY_ACTIONS)
            ctx.require_coverage(res["design_range"], RANGE_ACTIONS)
        else:
            ctx.level = "exploration"
        # ---- 2. behaviours
        behaviours, per_cfg = [], {}
        for name, cfg, _, _ in gens:
            g = res[name]
            if g.rc != 0 and not g.printed:
                raise Broken("generation failed (%s): %s" % (cfg, g.out[-2000:]))
            bs = b_json(g)
            if not bs:
                raise Broken("no behaviours generated by %s:\n%s" % (cfg, g.out[-1500:]))
            per_cfg[name] = len(bs)
            behaviours += bs
        seen, uniq = set(), []
        for b in behaviours:
            key = json.dumps([(s["a"], s["args"]) for s in b], sort_keys=True)
            if key not in seen:
                seen.add(key)
                uniq.append(b)
        behaviours = uniq
        ctx.cov["behaviours_per_config"] = per_cfg

    cases = [strip(b, loop_window) for b in behaviours]
    # ---- 3. execute on both devices
    exe, lib = ctx.build_harness("functional_replay", ["functional_replay.cpp"], variant="fast")
    env = ctx.occa_env(lib)
    env.update({"OMP_NUM_THREADS": "3", "OMP_WAIT_POLICY": "passive", "GOMP_SPINCOUNT": "0", "C23_STEP_TIMEOUT": "3600", "C23_STEP_CPU": "90"})
    results = {}

    def exec_mode(mode):
        results[mode] = fan_out(ctx, exe, env, cases, behaviours, mode, max(1, workers // len(only_modes)),
                                timeout=20000 if thorough else 6000)

    ths = [threading.Thread(target=exec_mode, args=(m,)) for m in only_modes]
    for t in ths:
        t.start()
    for t in ths:
        t.join()
    for m in only_modes:
        if m not in results:
            raise Broken("replay on %s did not finish" % m)

    # ---- 4. compare with the spec's predictions
    steps_checked, distinct = 0, set()
    per_action = collections.Counter()
    for mode in only_modes:
        outs, crashes, skipped, _ = results[mode]
        for c in crashes:
            if c["crash"].startswith("exit-2"):
                raise Broken("replayer reported a harness error: %s" % c.get("log", "")[-800:])
            b = behaviours[c["beh"]] if 0 <= c["beh"] < len(behaviours) else []
            j = c.get("step", -1)
            st = b[j] if 0 <= j < len(b) else {"a": "?", "args": {}}
            cls = "?"
            for jj, s, length, tile in walk(b):
                if jj == j:
                    cls = step_class(s, length, tile)
            ctx.mismatch("crash:%s:%s:%s:%s" % (c["crash"], st["a"], fn_of(st) if st["a"] != "?" else "", cls),
                         "[%s] replayer died (%s) in step %d of %s\n%s" % (mode, c["crash"], j, describe(b, j), c.get("log", "")[-600:]),
                         [{"mode": mode, "steps": b}])
        for i, b in enumerate(behaviours):
            o = outs.get(i)
            if o is None:
                continue
            for j, s, length, tile in walk(b):
                if j >= len(o["obs"]):
                    break
                steps_checked += 1
                per_action[s["a"]] += 1
                if length >= 2 or s["a"] == "loop":
                    distinct.add((mode, json.dumps((s["a"], s["args"], tile, [t["exp"] for t in b[:j] if t["a"] in ("new", "range", "mapToSelf", "fill", "slice", "concat")][-1:]), sort_keys=True)))
                d = compare_step(s, o["obs"][j])
                if d is not None:
                    kind = "exception" if o["obs"][j]["err"] else "value"
                    # an exception does not depend on the lambda: keep the signature coarse there
                    ctx.mismatch("%s:%s:%s:%s" % (s["a"], fn_of(s) if kind == "value" else "", step_class(s, length, tile), kind),
                                 "[%s] %s(%s) %s ; history %s" % (mode, s["a"], json.dumps(s["args"]), d, describe(b, j)),
                                 [{"mode": mode, "steps": b}])
                    break     # later steps of this behaviour run on a diverged object
    executed = sum(len(results[m][0]) for m in only_modes)
    ctx.traces_validated = executed
    pick = [0, len(behaviours) // 3, (2 * len(behaviours)) // 3, len(behaviours) - 1]
    ctx.samples = [[{"a": s["a"], "args": s["args"], "exp": s["exp"]} for s in behaviours[i]] for i in sorted(set(pick)) if behaviours]
    ctx.cov.update({
        "behaviours": len(behaviours), "behaviours_executed": executed, "devices": list(only_modes),
        "steps_checked": steps_checked, "steps_per_action": dict(per_action),
        "crashes": sum(len(results[m][1]) for m in only_modes),
        "not_executed_after_repeated_crashes": sum(results[m][2] for m in only_modes),
        "jit_kernels_compiled": sum(results[m][3] for m in only_modes),
        "evaluations": steps_checked, "distinct_nontrivial": len(distinct),
        "rule": "every behaviour TLC enumerates from FunctionalMachine (object creation x tile settings x calls with catalogue "
                "lambdas) is executed on a Serial and an OpenMP(3 threads) device; an evaluation is one call whose result is "
                "compared with the spec's prediction; distinct_nontrivial counts distinct (device, call, arguments, tile "
                "settings, current contents) on objects with at least 2 elements, plus every forLoop",
    })
    ctx.assumptions += [
        "element type int (results also as long/double/bool accumulators, double outputs are integer valued); contents in -2..3, lengths 0..5 (quick) / 0..9 (thorough)",
        "lambdas come from the fixed catalogue of Functional.tla; for bitAnd/boolAnd/min/max without localInit only lambdas whose result does not depend on whether the fold starts from the identity or from the first element (the library's convention)",
        "reductions that start from the first element are not called on empty arrays; mapTo's output array is allocated on the device (3-argument lambda: at least as long as the input)",
        "forLoop bodies only count (atomically) per index tuple; order of iterations is not observed; OpenMP runs with 3 threads, one schedule per run",
        "JIT kernels run outside the sanitizers (fast build); the replayer, mini JSON reader and the comparison code are trusted",
    ]
    return ctx.finish(exhaustive=False)
