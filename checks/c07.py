"""C07 -- editing an included header always invalidates stale cached kernels.
Spec cache/DepHash.tla; MC mc/DepHash_*.cfg; replayer harness/dephash_replay.cpp (real header
files, every build in a fresh process sharing one cache directory); the log of what the builds
reported is validated by trace/DepHashTrace.tla.
"""
import json, os, concurrent.futures
from vlib import Broken, b_json, run_replayer, sh

ACTIONS = ["SetVal", "AddInclude", "RemoveInclude", "Build"]


# ---- binding glue: spec content -> file text, spec value sequence -> the number the kernel computes
def inc_line(delims, frm, to):
    """#include line for the edge frm -> to with the delimiter the spec assigned to that edge."""
    return ('#include <%s.h>\n' if delims[frm][to] == "a" else '#include "%s.h"\n') % to


def header_text(c, delims, h):
    return "acc = acc * 10 + %d;\n" % c["val"] + "".join(inc_line(delims, h, g) for g in sorted(c["inc"]))


def kernel_text(root, delims):
    return ("@kernel void k(int *out) {\n"
            "  for (int i = 0; i < 1; ++i; @tile(1, @outer, @inner)) {\n"
            "    int acc = 0;\n" +
            "".join(inc_line(delims, "kernel", h) for h in root) +
            "    out[i] = acc;\n"
            "  }\n"
            "}\n")


def number(seq):
    n = 0
    for d in seq:
        n = n * 10 + d
    return n


def to_case(b):
    steps = []
    for s in b["steps"]:
        if s["a"] == "build":
            steps.append({"a": "build"})
        else:
            steps.append({"a": s["a"], "h": s["h"], "file": header_text(s["text"], b["delims"], s["h"])})
    return {"kernel": kernel_text(b["root"], b["delims"]), "headers": {h: header_text(c, b["delims"], h) for h, c in b["init"].items()}, "steps": steps}


def shape(b, j):
    """Class of the history in front of build step j (signature only): the edit actions since the
    previous build, and whether two headers hold identical text at the build."""
    cur = {h: dict(c) for h, c in b["init"].items()}
    since = []
    nb = 0
    for s in b["steps"][:j]:
        if s["a"] == "build":
            since = []
            nb += 1
        else:
            cur[s["h"]] = s["text"]
            since.append(s["a"])
    texts = [header_text(c, b["delims"], "kernel") for c in cur.values()]
    dup = len(set(texts)) < len(texts)
    return "after=%s:%s:%s:%s" % ("+".join(sorted(set(since))) or "nothing", "first" if nb == 0 else "rebuild", "dup" if dup else "nodup", b.get("style", "quoted"))


def warm_template(ctx, exe, env):
    """A cache directory that holds only what one build of an unrelated kernel leaves behind (the
    compiler-vendor probe results); every history starts from a copy of it."""
    tdir = os.path.join(ctx.tmp, "template")
    os.makedirs(os.path.join(tdir, "inc"), exist_ok=True)
    with open(os.path.join(tdir, "warm.okl"), "w") as f:
        f.write("@kernel void k(int *out) {\n  for (int i = 0; i < 1; ++i; @tile(1, @outer, @inner)) { out[i] = 7; }\n}\n")
    e = dict(env)
    e["OCCA_CACHE_DIR"] = os.path.join(tdir, "cache")
    rc, out = sh([exe, "--build", os.path.join(tdir, "warm.okl"), os.path.join(tdir, "inc"), "Serial"], timeout=900, env=e)
    if rc != 0 or '"val":7' not in out:
        raise Broken("warm-up build failed (rc=%s):\n%s" % (rc, out[-1500:]))
    return e["OCCA_CACHE_DIR"]


def replay(ctx, behaviours, exe, env, fan, tag=""):
    cases = [to_case(b) for b in behaviours]
    chunks = [list(range(i, len(cases), fan)) for i in range(fan)]
    chunks = [c for c in chunks if c]
    results = {}

    def work(ci):
        idx = chunks[ci]
        e = dict(env)
        e["DEPHASH_WORK"] = os.path.join(ctx.tmp, "dh%s-%d" % (tag, ci))
        os.makedirs(e["DEPHASH_WORK"], exist_ok=True)
        outs, crashes = run_replayer(ctx, exe, e, [cases[i] for i in idx], timeout=7200)
        return ci, outs, crashes

    with concurrent.futures.ThreadPoolExecutor(max_workers=fan) as ex:
        for ci, outs, crashes in ex.map(work, range(len(chunks))):
            if crashes:
                raise Broken("the C07 replayer itself crashed: %s" % crashes[:1])
            for pos, o in outs.items():
                results[chunks[ci][pos]] = o
    builds = 0
    acts = {"compiled": 0, "loaded": 0}
    for i, b in enumerate(behaviours):
        o = results.get(i)
        if o is None:
            raise Broken("no output for behaviour %d" % i)
        for j, s in enumerate(b["steps"]):
            if s["a"] != "build":
                continue
            builds += 1
            ob = o["obs"][j]
            want = number(s["exp"])
            if ob["status"] != "ok":
                ctx.mismatch("build%s:%s:%s" % (tag, ob["status"], shape(b, j)),
                             "build %d of the history did not run (%s, exit %s): %s ... %s" %
                             (j, ob["status"], ob.get("code"), [(t["a"], t.get("h"), t.get("x")) for t in b["steps"][:j + 1]],
                              (ob.get("tail") or ob.get("what") or "")[-160:].replace("\n", " ")),
                             [cases[i]])
                break   # the rest of this history runs on a state the spec does not predict
            acts[ob["act"]] = acts.get(ob["act"], 0) + 1
            if ob["val"] != want:
                ctx.mismatch("stale-value%s:%s:%s" % (tag, ob["act"], shape(b, j)),
                             "build %d computed %d, the current files give %d (%s) after %s" %
                             (j, ob["val"], want, ob["act"], [(t["a"], t.get("h"), t.get("x")) for t in b["steps"][:j + 1]]),
                             [cases[i]])
    return cases, builds, acts, results


TRACE_CFG = {("h1", "h2"): "trace/DepHashTrace.cfg", ("h1",): "trace/DepHashTrace1.cfg"}


def validate_traces(ctx, behaviours, results):
    """code -> spec: the log of what the real builds reported (cache directory, compiled/loaded, value)
    is consumed by trace/DepHashTrace.tla; every event must be accepted.  One TLC run per set of headers
    the kernel source includes (a constant of the spec)."""
    total = 0
    for root, cfg in sorted(TRACE_CFG.items()):
        idx = [i for i, b in enumerate(behaviours) if tuple(b["root"]) == root]
        if idx:
            total += validate_group(ctx, behaviours, results, idx, cfg)
    if any(tuple(b["root"]) not in TRACE_CFG for b in behaviours):
        raise Broken("history with a kernel root the trace configs do not know")
    return total


def validate_group(ctx, behaviours, results, idx, cfg):
    events, origin = [], []
    for i in idx:
        b = behaviours[i]
        o = results[i]
        if any(ob is not None and ob["status"] != "ok" for ob in o["obs"]):
            continue                      # already reported by the replay comparison
        events.append({"e": "reset", "init": {h: {"val": c["val"], "inc": sorted(c["inc"])} for h, c in b["init"].items()}})
        origin.append((i, -1))
        for j, s in enumerate(b["steps"]):
            if s["a"] == "build":
                ob = o["obs"][j]
                events.append({"e": "build", "dir": ob["dir"], "act": ob["act"], "val": ob["val"]})
            else:
                events.append({"e": "edit", "h": s["h"], "val": s["text"]["val"], "inc": sorted(s["text"]["inc"])})
            origin.append((i, j))
    if not events:
        return 0
    path = os.path.join(ctx.tmp, "dephash-trace-%d.ndjson" % len(os.listdir(ctx.tmp)))
    with open(path, "w") as f:
        for e in events:
            f.write(json.dumps(e) + "\n")
    r = ctx.tlc("trace/MC_DepHashTrace.tla", cfg, workers=1, deadlock=False,
                env={"TRACE": path}, timeout=2400)
    if r.rc != 0:
        raise Broken("trace validation run failed (rc=%s):\n%s" % (r.rc, r.out[-2000:]))
    accepted = r.depth - 1
    if accepted < len(events):
        i, j = origin[accepted]
        ev = events[accepted]
        b = behaviours[i]
        ctx.mismatch("trace-rejected:%s:%s:%s" % (ev["e"], ev.get("act", "-"), shape(b, max(j, 0))),
                     "the trace spec rejects event %d %s of history %s" %
                     (accepted, ev, [(t["a"], t.get("h"), t.get("x")) for t in b["steps"][:j + 1]]),
                     events[max(0, accepted - j - 1):accepted + 1])
    return accepted


def run(ctx):
    thorough = ctx.tier == "thorough"
    # 1. the model
    r = ctx.tlc("mc/MC_DepHash.tla", "mc/DepHash_design.cfg" if thorough else "mc/DepHash_quick.cfg",
                workers=8 if thorough else 4, coverage=True, deadlock=False, timeout=2400)
    ctx.tlc_must_pass(r, "DepHash design (chained fold)")
    ctx.require_coverage(r, ACTIONS)
    if thorough:
        x = ctx.tlc("mc/MC_DepHash.tla", "mc/DepHash_found.cfg", workers=4, deadlock=False, expect_violation=True, count=False)
        if x.violated != "ResolveTerminates":
            raise Broken("the fold of the code as found was not rejected by the model: rc=%s violated=%s" % (x.rc, x.violated))
        r3 = ctx.tlc("mc/MC_DepHash.tla", "mc/DepHash_design3.cfg", workers=8, deadlock=False, timeout=2400)
        ctx.tlc_must_pass(r3, "DepHash design, 3 headers")
    # 2. behaviours
    # (cfg, simulate num, depth, cap on the number of distinct behaviours kept)
    # DepHash_join.cfg: the directed "join" family (a header joins the include graph through an edit of an
    # included header, is built, then edited / leaves / rejoins), 4 builds per history
    gens = [("mc/DepHash_gen.cfg", None, None, None), ("mc/DepHash_join.cfg", None, None, None),
            ("mc/DepHash_sim3q.cfg", 6, 8, 20)]
    if thorough:
        gens = [("mc/DepHash_gen5.cfg", None, None, None), ("mc/DepHash_gen4v3.cfg", None, None, None),
                ("mc/DepHash_join.cfg", None, None, None), ("mc/DepHash_sim3.cfg", 100, 12, 300)]
    seen, behaviours = set(), []
    for cfg, sim, depth, cap in gens:
        # simulation with one worker: the order of the traces is a function of the seed
        g = ctx.tlc("mc/MC_DepHash.tla", cfg, workers=1, simulate=sim,
                    depth=(depth + 1 if depth else None), deadlock=False, timeout=2400)
        bs = b_json(g)
        if not bs:
            raise Broken("no behaviours generated by %s (rc=%s):\n%s" % (cfg, g.rc, g.out[-1500:]))
        kept = 0
        for b in bs:
            while b["steps"] and b["steps"][-1]["a"] != "build":
                b["steps"].pop()          # edits after the last build are not observed
            if not b["steps"]:
                continue
            k = json.dumps(b, sort_keys=True)
            if k in seen or (cap is not None and kept >= cap):
                continue
            seen.add(k)
            behaviours.append(b)
            kept += 1
    directed = 0
    ctx.cov["join_family_histories"] = sum(1 for b in behaviours if b["root"] == ["h1"])
    if thorough:
        # directed histories: every history of <= 7 steps on which the model of the code as found diverges
        # (TLC, Variant = "found"), stratified by shape; the prediction stays the intended one
        g = ctx.tlc("mc/MC_DepHash.tla", "mc/DepHash_foundcx.cfg", workers=4, deadlock=False, timeout=3000, count=False)
        cx = b_json(g)
        if g.rc != 0 or not cx:
            raise Broken("directed generation failed (rc=%s):\n%s" % (g.rc, g.out[-1500:]))
        per = {}
        for b in sorted(cx, key=lambda b: json.dumps(b, sort_keys=True)):
            cls = (shape(b, len(b["steps"]) - 1), len(b["steps"]), sum(1 for t in b["steps"] if t["a"] == "build"))
            k = json.dumps(b, sort_keys=True)
            if k in seen or per.get(cls, 0) >= 4:
                continue
            per[cls] = per.get(cls, 0) + 1
            seen.add(k)
            behaviours.append(b)
            directed += 1
        ctx.cov["directed_histories_from_found_model"] = directed
        ctx.cov["directed_classes"] = len(per)
    # every build step of a history is compared, so a history that is a proper prefix of another one
    # (same kernel, same initial files) adds nothing: keep the maximal ones
    def hkey(b, n):
        return json.dumps([b["root"], b["init"], b["style"], b["steps"][:n]], sort_keys=True)
    prefixes = set()
    for b in behaviours:
        for n in range(1, len(b["steps"])):
            prefixes.add(hkey(b, n))
    generated = len(behaviours)
    behaviours = [b for b in behaviours if hkey(b, len(b["steps"])) not in prefixes]
    ctx.cov["histories_generated"] = generated
    exe, lib = ctx.build_harness("dephash_replay", ["dephash_replay.cpp"], variant="fast")
    env = ctx.occa_env(lib)
    env["DEPHASH_TIMEOUT"] = "300"
    env["DEPHASH_TEMPLATE"] = warm_template(ctx, exe, env)
    cases, builds, acts, results = replay(ctx, behaviours, exe, env, fan=12)
    accepted = validate_traces(ctx, behaviours, results)
    ctx.traces_validated = len(behaviours)
    variants = 1
    if thorough:
        # the same short histories through device::buildKernelFromString, and on the OpenMP device
        short = [b for b in behaviours if (len(b["steps"]) <= 4 or b["root"] == ["h1"]) and (len(b["init"]) == 2 or b["root"] == ["h1"])
                 and all(t.get("x") != 3 and t["text"]["val"] != 3 for t in b["steps"] if t["a"] != "build")]
        for tag, extra in (("-string", {"DEPHASH_KIND": "string"}), ("-openmp", {"DEPHASH_MODE": "OpenMP"})):
            e2 = dict(env)
            e2.update(extra)
            _, b2, a2, r2 = replay(ctx, short, exe, e2, fan=12, tag=tag)
            accepted += validate_traces(ctx, short, r2)
            builds += b2
            for k, v in a2.items():
                acts[k] = acts.get(k, 0) + v
            ctx.traces_validated += len(short)
            variants += 1
    ctx.cov["trace_events_accepted"] = accepted
    ctx.cov["replay_variants"] = variants
    ctx.samples = [cases[0], cases[len(cases) // 2], cases[-1]]
    ctx.cov.update({"behaviours_replayed": len(behaviours), "builds_in_fresh_processes": builds,
                    "builds_compiled": acts.get("compiled", 0), "builds_loaded_from_cache": acts.get("loaded", 0)})
    ctx.assumptions += [
        "hashes are ideal in the model; the replay uses real files and real hash_t values",
        "OKL kernels whose #include lines are resolved by the OKL preprocessor (okl/include_paths); headers are never deleted; the kernel source itself is not edited",
        "acyclic include graph over 2-3 headers (later headers only), header values 1..3; contents are name independent, so two headers can be byte-identical",
        "every build is a fresh process of the -O2 library build sharing one OCCA_CACHE_DIR per history; Serial device",
    ]
    return ctx.finish(exhaustive=False)
