"""C15 -- printing a parsed expression / declaration / statement preserves structure and meaning.
Specs lang/ExprPrint.tla (expressions: precedence table, Parenthesize, Tokens/Render, ParseC, Eval) and
lang/CGrammar.tla (statements, declarations); MC modules mc/MC_ExprPrint.tla, mc/MC_CGrammar.tla;
replayer harness/exprprint_replay.cpp.

TLC checks ParseC(Tokens(Parenthesize(t))) = Parenthesize(t), value preservation and the spacing rule on the
model and emits <tree, text, value>.  Every text is run through OCCA parse -> print -> parse:
  (1) OCCA's first tree must be the spec's tree (precedence/associativity as in C++),
  (2) the tree of the printed text must be identical to the first tree,
  (3) g++ must evaluate the printed text to the spec's value (and the original text too: if g++ and the
      spec disagree on the ORIGINAL text the check is broken, not the library).
Python only converts notations, compares and classifies.
"""
import json, os, re, subprocess
import vlib
from vlib import Broken, b_json
import c12

NAMES = c12.NAMES


def chars(seq):
    return "".join(NAMES.get(c, c) for c in seq)


def conv(t):
    """spec tree (JSON of the TLA+ records) -> the replayer's list form"""
    n = t["n"]
    if n == "id":
        return ["id", chars(t["v"])]
    if n == "lit":
        if t["k"] == "prim":
            return ["prim", chars(t["sp"])]
        sp = chars(t["sp"])
        qc = '"' if t["k"] == "str" else "'"
        return [t["k"], chars(t["tv"]), sp[:sp.index(qc)], sp[sp.rindex(qc) + 1:]]
    if n in ("un", "post"):
        return [n, chars(t["op"]), conv(t["x"])]
    if n == "bin":
        return ["bin", chars(t["op"]), conv(t["l"]), conv(t["r"])]
    if n == "tern":
        return ["tern", conv(t["c"]), conv(t["t"]), conv(t["f"])]
    if n == "paren":
        return ["paren", conv(t["x"])]
    if n == "call":
        return ["call", conv(t["f"]), ["list"] + ([conv(a) for a in t["args"]] or [["empty"]])]
    if n == "index":
        return ["index", conv(t["a"]), conv(t["i"])]
    if n == "cast":
        return ["cast", normtype(chars(t["ty"])), conv(t["x"])]
    if n == "sizeof":
        return ["sizeof", conv(t["x"])]
    raise Broken("unknown spec node %r" % n)


def normtype(sp):
    """normalised spelling of a type: the multiset of its words with the implied ones removed
    (long == long int, unsigned short == unsigned short int), pointer stars kept at the end"""
    words = sp.replace("*", " * ").split()
    stars = words.count("*")
    words = [w for w in words if w != "*"]
    if any(w in ("long", "short", "unsigned", "signed") for w in words) and "char" not in words:
        words = [w for w in words if w != "int"]
    if "char" not in words:
        words = [w for w in words if w != "signed"]
    return " ".join(sorted(words) + ["*"] * stars)


def norm(t):
    """lists of trees (call arguments, statement lists) become ["list", ...] so that every list starts with a kind"""
    if isinstance(t, list):
        if not t or isinstance(t[0], list):
            return ["list"] + [norm(x) for x in t]
        if t and t[0] in ("cast", "fcast", "scast", "var") and len(t) > 2 and isinstance(t[1], str):
            return [t[0], normtype(t[1])] + [norm(x) for x in t[2:]]
        return [t[0]] + [norm(x) for x in t[1:]]
    return t


def has(t, kind):
    return isinstance(t, list) and (t[:1] == [kind] or any(has(x, kind) for x in t[1:]))


def label(t):
    if not isinstance(t, list) or not t:
        return "?"
    k = t[0]
    if k in ("un", "post", "bin"):
        return "%s(%s)" % (k, t[1])
    if k in ("cast", "var") and len(t) > 1 and isinstance(t[1], str):
        return "%s(%s)" % (k, t[1].replace(" ", "_"))
    if k in ("str", "char"):
        q = '"' if k == "str" else "'"
        v = t[1] if len(t) > 1 else ""
        return "%s:%s" % (k, "quote-first" if v.startswith(q) else ("quote-inside" if q in v else "plain"))
    return k


def first_diff(a, b, path="top"):
    """(path, expected label, got label) of the first structural difference, or None"""
    if a == b:
        return None
    if not (isinstance(a, list) and isinstance(b, list)) or not a or not b or a[0] != b[0] or len(a) != len(b):
        return (path, label(a), label(b))
    if a[0] in ("un", "post", "bin") and a[1] != b[1]:
        return (path, label(a), label(b))
    for i in range(1, len(a)):
        if isinstance(a[i], list):
            d = first_diff(a[i], b[i], label(a))
            if d:
                return d
        elif a[i] != b[i]:
            return (path, label(a), label(b))
    return (path, label(a), label(b))



def confirmed_crashes(ctx, exe, env, cases, crashes):
    """A time-out is reported only if it repeats when the case is run alone with a long watchdog
    (on a loaded machine the first parse of a process can exceed the normal watchdog)."""
    out = []
    for c in crashes:
        if c["crash"] == "TIMEOUT":
            e2 = dict(env)
            e2["REPLAY_WATCHDOG"] = "600"
            o2, c2 = vlib.run_replayer(ctx, exe, e2, [cases[c["beh"]]], timeout=900, max_restarts=1)
            if not c2:
                ctx.notes.append("time-out not repeated: %r" % cases[c["beh"]]["text"][:80])
                continue
        out.append(c)
    return out


def conv_e(e):
    return ["null"] if e.get("n") == "none" else conv(e)


def conv_s(x):
    """spec statement (JSON of the TLA+ record) -> the replayer's (normalised) list form"""
    k = x["s"]
    L = lambda body: ["list"] + [conv_s(y) for y in body]
    if k == "expr":
        return ["expr", conv(x["e"])]
    if k == "decl":
        ty = chars(x["ty"])
        out = ["decl"]
        for v in x["vars"]:
            name = chars(v["name"])
            t = ty
            while name.startswith("*"):
                t, name = t + " *", name[1:]
            out.append(["var", normtype(t), name, conv_e(v["init"])])
        return out
    if k == "if":
        elifs = ["list"] + [["elif", ["expr", conv(e["c"])], L(e["body"])] for e in x["elifs"]]
        el = ["else", L(x["el"][0])] if x["el"] else ["noelse"]
        return ["if", ["expr", conv(x["c"])], L(x["th"]), elifs, el]
    if k == "while":
        return ["while", ["expr", conv(x["c"])], L(x["body"])]
    if k == "do":
        return ["dowhile", ["expr", conv(x["c"])], L(x["body"])]
    if k == "for":
        opt = lambda e: ["emptystmt"] if e.get("n") == "none" else ["expr", conv(e)]
        return ["for", conv_s(x["i"]), opt(x["c"]), opt(x["u"]), L(x["body"])]
    if k == "switch":
        return ["switch", ["expr", conv(x["c"])], L(x["body"])]
    if k == "case":
        return ["case", conv(x["v"])]
    if k == "block":
        return ["block", L(x["body"])]
    if k == "return":
        return ["return", ["null"]]
    return [{"default": "default", "break": "break", "continue": "continue", "empty": "emptystmt"}[k]]


def stmt_label(t):
    return t[0] if isinstance(t, list) and t else "?"


def body_of(tree):
    """root -> function k -> statement list"""
    try:
        fn = [s for s in tree[1][1:] if s[0] == "function"][-1]
        return fn[2]
    except (IndexError, TypeError):
        return None


def gxx_programs(ctx, progs, tag):
    """progs: list of (id, full text of `void k(int &a, int &b) {...}`).  Returns ({id: [a, b]}, {id: error})."""
    if not progs:
        return {}, {}
    src = os.path.join(ctx.tmp, "prog_%s.cpp" % tag)
    exe = os.path.join(ctx.tmp, "prog_%s" % tag)
    remaining, bad = list(progs), {}
    for attempt in range(40):
        lines = ["#include <cstdio>", "#include <cstdlib>", "#include <csignal>", "#include <unistd.h>",
                 "static volatile int cur = -1;",
                 "static void hang(int) { printf(\"%d HANG\\n\", cur); fflush(stdout); _exit(3); }"]
        starts = []
        for (i, text) in remaining:
            starts.append(len(lines) + 1)
            lines += ("namespace n%d {\n%s\n}" % (i, text.strip())).split("\n")
        lines.append("int main(int argc, char **argv) { int start = argc > 1 ? atoi(argv[1]) : 0; signal(SIGALRM, hang);")
        for pos, (i, _) in enumerate(remaining):
            lines.append("if (%d >= start) { cur = %d; alarm(10); int a = 5, b = 3; n%d::k(a, b); alarm(0); printf(\"%d %%d %%d\\n\", a, b); fflush(stdout); }"
                         % (pos, i, i, i))
        lines.append("return 0; }")
        open(src, "w").write("\n".join(lines) + "\n")
        rc, out = vlib.sh(["g++", "-std=c++17", "-w", "-O0", "-fwrapv", "-o", exe, src], timeout=900)
        if rc == 0:
            break
        errl = sorted(set(int(m.group(1)) for m in re.finditer(r"prog_%s\.cpp:(\d+):\d+: error" % tag, out)))
        hit = set()
        for l in errl:
            k = max((n for n, st in enumerate(starts) if st <= l), default=None)
            if k is not None and l < (starts[k + 1] if k + 1 < len(starts) else len(lines) - len(remaining) - 1):
                hit.add(k)
        if not hit:
            raise Broken("g++ failed without a usable error location:\n" + out[-2000:])
        for k in hit:
            bad[remaining[k][0]] = next((ln for ln in out.splitlines() if "error" in ln), "error")
        remaining = [e for k, e in enumerate(remaining) if k not in hit]
    else:
        raise Broken("g++ kept failing on the program file")
    vals = {}
    start = 0
    pos_of = {i: pos for pos, (i, _) in enumerate(remaining)}
    for attempt in range(200):
        rc, out = vlib.sh([exe, str(start)], timeout=3000)
        hung = None
        for ln in out.splitlines():
            q = ln.split()
            if len(q) == 2 and q[1] == "HANG":
                hung = int(q[0])
                vals[hung] = "HANG"
            elif len(q) == 3:
                vals[int(q[0])] = [int(v) for v in q[1:]]
        if rc == 0:
            break
        if hung is None:
            raise Broken("program file crashed (rc=%d): %s" % (rc, out[-1000:]))
        start = pos_of[hung] + 1
    else:
        raise Broken("too many hanging programs")
    return vals, bad


def statements(ctx, exe, env, jvm, workers, thorough):
    """CGrammar: statements and declarations."""
    g = ctx.tlc("mc/MC_CGrammar.tla", "mc/CGrammar_%s.cfg" % ("thorough" if thorough else "quick"), workers=workers,
                jvm=jvm, deadlock=False, timeout=2400, coverage=True)
    ctx.tlc_must_pass(g, "CGrammar (ParseS(TokensS(p)) = p in both styles, same meaning)")
    ctx.require_coverage(g, ["SPrint", "SParse", "SExec"])
    try:
        gen = b_json(g)
    except (ValueError, AssertionError) as e:
        raise Broken("unparseable behaviour line: %s" % e)
    if len(gen) < 100:
        raise Broken("implausibly few statement cases: %d" % len(gen))
    items = []
    for b in gen:
        items.append({"spec": ["list"] + [conv_s(x) for x in b["tree"]], "style": b["style"], "body": chars(b["text"]),
                      "sig": b["sig"], "env": b["env"]})
    items.sort(key=lambda x: (x["body"], x["style"]))
    head = "void k(int &a, int &b) {\n"
    cases = [{"mode": "stmt", "text": head + it["body"] + "\n}\n"} for it in items]
    outs, crashes = vlib.run_replayer(ctx, exe, env, cases, timeout=3000, max_restarts=100)
    crashes = confirmed_crashes(ctx, exe, env, cases, crashes)
    for c in crashes:
        fn, kind = c12.crash_site(c.get("log", ""))
        ctx.mismatch("crash:stmt:%s:%s:%s" % (c["crash"], kind, fn), "%s while processing %r" % (c["crash"], cases[c["beh"]]["text"]), [cases[c["beh"]]])
    compared = reparsed = rejected = 0
    printed = {}
    printed_nospec = {}
    for i, it in enumerate(items):
        o = outs.get(i)
        if o is None:
            continue
        rep = [dict(cases[i], spec_tree=it["spec"], spec_env=it["env"])]
        if "exc" in o:
            ctx.mismatch("exception:stmt", "exception on %r: %s" % (it["body"], o["exc"][:300]), rep)
            continue
        if not o.get("ok1"):
            rejected += 1
            continue
        t1 = body_of(norm(o["t1"]))
        compared += 1
        d = first_diff(it["spec"], t1) if t1 is not None else ("top", "list", "none")
        if d:
            ctx.mismatch("stmt-parse-shape:%s:%s->%s" % d,
                         "%r is parsed as %s, the grammar gives %s" % (it["body"], json.dumps(t1), json.dumps(it["spec"])), rep)
        if not o.get("ok2"):
            kinds = sorted(set(x[0] for x in walk(t1) if x[0] in ("str", "char"))) if t1 else []
            ctx.mismatch("stmt-reparse-fails:%s" % ("+".join(label(x) for x in walk(t1) if x[0] in ("str", "char")) or "none"),
                         "%r is printed as %r, which OCCA does not parse" % (it["body"], o.get("p1")), rep)
            continue
        reparsed += 1
        t2 = body_of(norm(o["t2"]))
        d2 = first_diff(t1, t2) if t2 is not None else ("top", "list", "none")
        if d2:
            ctx.mismatch("stmt-reparse-differs:%s:%s->%s" % d2,
                         "%r is printed as %r and parsed back as %s instead of %s" % (it["body"], o.get("p1"), json.dumps(t2), json.dumps(t1)), rep)
        if it["sig"] in ("go", "return"):
            printed[i] = o["p1"]
        else:
            printed_nospec[i] = o["p1"]
    if rejected > 0.5 * len(items):
        raise Broken("OCCA rejected %d of %d generated programs" % (rejected, len(items)))
    # values: g++ on the original (cross-check of the spec) and on the printed program
    val_ids = [i for i, it in enumerate(items) if it["sig"] in ("go", "return")]
    ov, obad = gxx_programs(ctx, [(i, cases[i]["text"]) for i in val_ids], "orig")
    wrong = []
    for i in val_ids:
        if i in obad:
            wrong.append("%r does not compile: %s" % (items[i]["body"], obad[i]))
        elif ov.get(i) != items[i]["env"]:
            wrong.append("%r: g++ %s, spec %s" % (items[i]["body"], ov.get(i), items[i]["env"]))
    if wrong:
        raise Broken("the specification's statement semantics disagree with g++ on %d original programs (check is broken, not OCCA):\n  %s"
                     % (len(wrong), "\n  ".join(wrong[:12])))
    pv, pbad = gxx_programs(ctx, sorted(printed.items()), "printed")
    checked = 0
    for i, text in sorted(printed.items()):
        rep = [{"mode": "stmt", "text": cases[i]["text"], "printed": text, "spec_env": items[i]["env"]}]
        top = stmt_label(items[i]["spec"][1]) if len(items[i]["spec"]) > 1 else "empty"
        if i in pbad:
            ctx.mismatch("stmt-printed-does-not-compile:%s" % top, "%r printed as %r: %s" % (items[i]["body"], text, pbad[i]), rep)
        elif pv.get(i) != items[i]["env"]:
            ctx.mismatch("stmt-value-changed:%s" % top, "%r gives (a, b) = %s but its printed form %r gives %s" % (items[i]["body"], items[i]["env"], text, pv.get(i)), rep)
        else:
            checked += 1
    # programs without a spec value (64-bit arithmetic, pointers): CROSS-CHECK original versus printed through g++ only
    on, onbad = gxx_programs(ctx, [(i, cases[i]["text"]) for i in sorted(printed_nospec)], "orig_nospec")
    pn, pnbad = gxx_programs(ctx, [(i, t) for i, t in sorted(printed_nospec.items()) if i in on], "printed_nospec")
    differential = 0
    for i, text in sorted(printed_nospec.items()):
        if i not in on:
            continue
        rep = [{"mode": "stmt", "text": cases[i]["text"], "printed": text, "gxx_original": on[i]}]
        top = label(items[i]["spec"][1]) if len(items[i]["spec"]) > 1 else "empty"
        if i in pnbad:
            ctx.mismatch("stmt-printed-does-not-compile:%s" % top, "%r printed as %r: %s" % (items[i]["body"], text, pnbad[i]), rep)
        elif pn.get(i) != on[i]:
            ctx.mismatch("stmt-value-changed-gxx:%s" % top, "g++ runs %r to (a, b) = %s but its printed form %r to %s" % (items[i]["body"], on[i], text, pn.get(i)), rep)
        else:
            differential += 1
    return {"programs_gxx_original_vs_printed_compared": differential, "programs_generated": len(items), "programs_compared_with_spec": compared, "programs_reparsed": reparsed,
            "programs_rejected_by_occa": rejected, "program_values_checked_with_gxx": checked,
            "program_spec_values_crosschecked": len(val_ids)}, compared, \
           [{"text": items[i]["body"], "style": items[i]["style"], "final_a_b": items[i]["env"]} for i in (0, len(items) // 2, len(items) - 1)]


WRAP_HEAD = "int f(int x, int y);\nvoid k(int a, int b, int c, int d, int *p) {\n  "
WRAP_TAIL = ";\n}\n"


def unwrap(tree):
    """root -> [funcproto f, function k -> [expr e]]  =>  e   (None if the shape is different)"""
    try:
        fn = [s for s in tree[1][1:] if s[0] == "function"][-1]
        st = fn[2][1:]
        if len(st) == 1 and st[0][0] == "expr":
            return st[0][1]
    except (IndexError, TypeError):
        pass
    return None


def gxx_values(ctx, exprs, tag, wide=False):
    """exprs: list of (id, text).  Returns ({id: [r,a,b,c,d]}, {id: error line}).
    wide=False: the result is taken as int (the spec's semantics); wide=True: as long long, so that 64-bit
    results are visible (used for the original-versus-printed comparison)."""
    if not exprs:
        return {}, {}
    src = os.path.join(ctx.tmp, "vals_%s.cpp" % tag)
    exe = os.path.join(ctx.tmp, "vals_%s" % tag)
    # a division by zero in an expression without a spec value must not kill the whole program: SIGFPE -> "<id> FPE"
    head = ["#include <cstdio>", "#include <csignal>", "#include <csetjmp>", "static sigjmp_buf jb;",
            "static void fpe(int) { siglongjmp(jb, 1); }", "static int f(int x, int y) { return 10 * x + y; }",
            "int main() { signal(SIGFPE, fpe);"]
    remaining = list(exprs)
    bad = {}
    for attempt in range(40):
        with open(src, "w") as fsrc:
            fsrc.write("\n".join(head) + "\n")
            for (i, text) in remaining:
                fsrc.write("if (sigsetjmp(jb, 1) == 0) { int a = 5, b = 3, c = 2, d = 7; long long r = (long long) " + ("" if wide else "(int) ") + "(%s); "
                           "printf(\"%d %%lld %%d %%d %%d %%d\\n\", r, a, b, c, d); } else printf(\"%d FPE\\n\");\n" % (text.replace("\n", " "), i, i))
            fsrc.write("return 0; }\n")
        rc, out = vlib.sh(["g++", "-std=c++17", "-w", "-O0", "-fwrapv", "-o", exe, src], timeout=900)
        if rc == 0:
            break
        lines = set(int(m.group(1)) for m in re.finditer(r"vals_%s\.cpp:(\d+):\d+: error" % tag, out))
        lines = sorted(l - len(head) - 1 for l in lines if 0 <= l - len(head) - 1 < len(remaining))
        if not lines:
            raise Broken("g++ failed without a usable error location:\n" + out[-2000:])
        for l in lines:
            bad[remaining[l][0]] = next((ln for ln in out.splitlines() if ":%d:" % (l + len(head) + 1) in ln and "error" in ln), "error")
        remaining = [e for k, e in enumerate(remaining) if k not in set(lines)]
    else:
        raise Broken("g++ kept failing on the value program")
    rc, out = vlib.sh([exe], timeout=300)
    if rc != 0:
        raise Broken("value program crashed (rc=%d): %s" % (rc, out[-1000:]))
    vals = {}
    for ln in out.splitlines():
        p = ln.split()
        vals[int(p[0])] = "FPE" if p[1:] == ["FPE"] else [int(x) for x in p[1:]]
    return vals, bad


def run(ctx):
    ctx.level = "model_checking"
    thorough = ctx.tier == "thorough"
    workers = int(os.environ.get("VERIF_WORKERS", "12" if thorough else "8"))
    exe_lex, lib = ctx.build_harness("lexer_replay", ["lexer_replay.cpp"])
    exe, lib = ctx.build_harness("exprprint_replay", ["exprprint_replay.cpp"])
    env = ctx.occa_env(lib)
    if ctx.replay:
        # re-execute a recorded case: OCCA parse -> print -> parse now, next to the recorded spec tree / value
        recs = [json.loads(l) for l in open(ctx.replay) if l.strip()]
        outs, crashes = vlib.run_replayer(ctx, exe, env, [{"mode": r.get("mode", "expr"), "text": r["text"]} for r in recs], timeout=600)
        bad = len(crashes)
        for i, r in enumerate(recs):
            o = outs.get(i, {})
            print("text   : %r\nspec   : %s\noutcome: %s" % (r["text"], json.dumps(r.get("spec_tree") or r.get("spec_value") or r.get("spec_env")), json.dumps(o)))
            bad += 1 if (o.get("ok1") and (not o.get("ok2") or o.get("t1") != o.get("t2"))) else 0
        print("REPLAY property=C15 cases=%d crashed_or_reparsed_differently=%d" % (len(recs), bad))
        import shutil
        shutil.rmtree(ctx.tmp, ignore_errors=True)
        return 1 if bad else 0
    tladir, optable = c12.write_optable(ctx, exe_lex, env)
    jvm = ["-DTLA-Library=" + tladir]

    # 1. design run (also the vacuity check)
    r = ctx.tlc("mc/MC_ExprPrint.tla", "mc/ExprPrint_design.cfg", workers=workers, coverage=True, jvm=jvm, deadlock=False)
    ctx.tlc_must_pass(r, "ExprPrint design (ParseC(Tokens(Parenthesize(t))) = Parenthesize(t), values, spacing)")
    ctx.require_coverage(r, ["AddParens", "PrintIt", "Parse", "Evaluate"])

    # 2. generation
    g = ctx.tlc("mc/MC_ExprPrint.tla", "mc/ExprPrint_%s.cfg" % ("thorough" if thorough else "quick"), workers=workers,
                jvm=jvm, deadlock=False, timeout=2400)
    ctx.tlc_must_pass(g, "ExprPrint generation")
    try:
        gen = b_json(g)
    except (ValueError, AssertionError) as e:
        raise Broken("unparseable behaviour line: %s" % e)
    if len(gen) < 500:
        raise Broken("implausibly few expression cases: %d" % len(gen))
    UNDEF = -999999
    items = []
    for b in gen:
        items.append({"spec": conv(b["tree"]), "text": chars(b["text"]), "v": b["v"], "env": b["env"], "wt": b["wt"]})
    items.sort(key=lambda x: x["text"])

    # 3. replay: every text through expressionParser (unless it needs type information) and through parser_t
    cases, meta = [], []
    for k, it in enumerate(items):
        needs_types = has(it["spec"], "cast")
        if not needs_types:
            cases.append({"mode": "expr", "text": it["text"]})
            meta.append((k, "expr"))
        cases.append({"mode": "stmt", "text": WRAP_HEAD + it["text"] + WRAP_TAIL})
        meta.append((k, "stmt"))
    outs, crashes = vlib.run_replayer(ctx, exe, env, cases, timeout=3000, max_restarts=200)
    crashes = confirmed_crashes(ctx, exe, env, cases, crashes)
    for c in crashes:
        k, mode = meta[c["beh"]]
        fn, kind = c12.crash_site(c.get("log", ""))
        ctx.mismatch("crash:%s:%s:%s" % (c["crash"], kind, fn), "%s while processing %r (%s mode)" % (c["crash"], items[k]["text"], mode),
                     [cases[c["beh"]]])

    rejected, compared, reparsed = {}, 0, 0
    printed_for_value = {}
    printed_all = {}
    for i, (k, mode) in enumerate(meta):
        it = items[k]
        o = outs.get(i)
        if o is None:
            continue
        rep = [dict(cases[i], spec_tree=it["spec"], spec_value=it["v"])]
        if "exc" in o:
            ctx.mismatch("exception:%s" % mode, "exception on %r: %s" % (it["text"], o["exc"][:300]), rep)
            continue
        if not o.get("ok1"):
            d = label(it["spec"])
            rejected[d] = rejected.get(d, 0) + 1
            continue
        t1 = norm(o["t1"]) if mode == "expr" else unwrap(norm(o["t1"]))
        if t1 is None:
            ctx.mismatch("statement-shape:%s" % mode, "wrapper statement of %r parsed to an unexpected shape: %s" % (it["text"], json.dumps(o["t1"])[:300]), rep)
            continue
        compared += 1
        # (1) OCCA's tree is the C++ tree
        d = first_diff(it["spec"], t1)
        if d:
            ctx.mismatch("parse-shape:%s:%s->%s" % d,
                         "%r is parsed as %s, the C++ grammar gives %s (%s mode)" % (it["text"], json.dumps(t1), json.dumps(it["spec"]), mode), rep)
        # (2) printing and re-parsing gives the identical tree
        if not o.get("ok2"):
            leaf = next((l for l in ("str", "char") if has(t1, l)), None)
            cls = label(next(x for x in walk(t1) if x[0] == leaf)) if leaf else label(t1)
            ctx.mismatch("reparse-fails:%s" % cls, "%r is printed as %r, which OCCA does not parse (%s mode)" % (it["text"], o.get("p1"), mode), rep)
            continue
        t2 = norm(o["t2"]) if mode == "expr" else unwrap(norm(o["t2"]))
        reparsed += 1
        d2 = first_diff(t1, t2) if t2 is not None else ("top", label(t1), "none")
        if d2:
            ctx.mismatch("reparse-differs:%s:%s->%s" % d2,
                         "%r is printed as %r and parsed back as %s instead of %s (%s mode)" % (it["text"], o.get("p1"), json.dumps(t2), json.dumps(t1), mode), rep)
        # (3) value of the printed text
        if it["wt"] or it["v"] != UNDEF:
            pw = o["p1"]
            if mode == "stmt":
                mw = re.search(r"\{\s*(.*);\s*\}\s*$", pw, re.S)
                pw = mw.group(1) if mw else None
            if pw is not None:
                printed_all[(k, mode)] = pw
        if it["v"] != UNDEF:
            p1 = o["p1"]
            if mode == "stmt":
                m = re.search(r"\{\s*(.*);\s*\}\s*$", p1, re.S)
                p1 = m.group(1) if m else None
            if p1 is not None:
                printed_for_value[(k, mode)] = p1

    # g++: originals (cross-check of the spec) and printed texts
    val_ids = [k for k, it in enumerate(items) if it["v"] != UNDEF]
    orig_vals, orig_bad = gxx_values(ctx, [(k, items[k]["text"]) for k in val_ids], "orig")
    spec_wrong = []
    for k in val_ids:
        want = [items[k]["v"]] + items[k]["env"]
        if k in orig_bad:
            spec_wrong.append("%r does not compile: %s" % (items[k]["text"], orig_bad[k]))
        elif orig_vals.get(k) != want:
            spec_wrong.append("%r: g++ %s, spec %s" % (items[k]["text"], orig_vals.get(k), want))
    if spec_wrong:
        raise Broken("the specification's C semantics disagree with g++ on %d original texts (check is broken, not OCCA):\n  %s"
                     % (len(spec_wrong), "\n  ".join(spec_wrong[:12])))
    pl = sorted(printed_for_value.items())
    pv, pbad = gxx_values(ctx, [(n, text) for n, (_, text) in enumerate(pl)], "printed")
    values_checked = 0
    for n, ((k, mode), text) in enumerate(pl):
        want = [items[k]["v"]] + items[k]["env"]
        rep = [{"mode": mode, "text": items[k]["text"], "printed": text, "spec_value": want}]
        if n in pbad:
            ctx.mismatch("printed-does-not-compile:%s" % label(items[k]["spec"]), "%r printed as %r: %s" % (items[k]["text"], text, pbad[n]), rep)
        elif pv.get(n) != want:
            ctx.mismatch("value-changed:%s" % label(items[k]["spec"]),
                         "%r = %s but its printed form %r = %s (result, a, b, c, d)" % (items[k]["text"], want, text, pv.get(n)), rep)
        else:
            values_checked += 1

    st_cov, st_compared, st_samples = statements(ctx, exe, env, jvm, workers, thorough)

    # (3b) CROSS-CHECK WITHOUT THE SPEC: original text versus printed text through g++, results as long long, for every
    # expression g++ accepts -- this sees widths the small-int semantics of Eval cannot (64-bit casts, big literals)
    wide_ids = [k for k, it in enumerate(items) if it["wt"]]
    ow, owbad = gxx_values(ctx, [(k, items[k]["text"]) for k in wide_ids], "origw", wide=True)
    if owbad:
        raise Broken("the specification calls %d texts well-typed that g++ rejects, e.g. %r: %s"
                     % (len(owbad), items[next(iter(owbad))]["text"], next(iter(owbad.values()))))
    pwl = sorted(printed_all.items())
    pw, pwbad = gxx_values(ctx, [(n, text) for n, (_, text) in enumerate(pwl)], "printedw", wide=True)
    differential = 0
    for n, ((k, mode), text) in enumerate(pwl):
        if k not in ow:
            continue
        rep = [{"mode": mode, "text": items[k]["text"], "printed": text, "gxx_original": ow[k]}]
        if n in pwbad:
            ctx.mismatch("printed-does-not-compile:%s" % label(items[k]["spec"]), "%r printed as %r: %s" % (items[k]["text"], text, pwbad[n]), rep)
        elif pw.get(n) != ow[k]:
            ctx.mismatch("value-changed-gxx:%s" % label(items[k]["spec"]),
                         "g++ evaluates %r to %s but its printed form %r to %s (result as long long, a, b, c, d)" % (items[k]["text"], ow[k], text, pw.get(n)), rep)
        else:
            differential += 1

    nrej = sum(rejected.values())
    if nrej > 0.6 * len(cases):
        raise Broken("OCCA rejected %d of %d generated texts: the comparison would be vacuous" % (nrej, len(cases)))
    ctx.traces_validated = compared + st_compared
    ctx.samples = [{"text": items[k]["text"], "tree": items[k]["spec"], "value": items[k]["v"]} for k in
                   (0, len(items) // 4, len(items) // 2, 3 * len(items) // 4, len(items) - 1)] + st_samples
    ctx.cov.update(st_cov)
    ctx.cov.update({"expressions_generated": len(items), "texts_executed": len(outs), "trees_compared_with_spec": compared,
                    "reparsed_and_compared": reparsed, "values_checked_with_gxx": values_checked, "gxx_original_vs_printed_compared": differential,
                    "spec_values_crosschecked_with_gxx": len(val_ids), "rejected_by_occa": nrej,
                    "rejected_by_root_kind": rejected, "crashes": len(crashes)})
    ctx.assumptions += [
        "expressions: all ordered pairs of binary operators in both nestings, prefix/postfix chains, prefix against binary, the "
        "conditional operator in every position, literal spellings, calls/subscripts/casts/sizeof/member access; depth 3 only in the thorough tier",
        "texts that OCCA does not parse are outside the property (counted in rejected_by_occa; the run is broken if they exceed 60%)",
        "values: int semantics on small values, variables a,b,c,d = 5,3,2,7; expressions with unsequenced side effects, pointers, "
        "members or out-of-range results have no value and are compared structurally only",
        "statements/declarations: if/else-if/else incl. every dangling-else association, while, do, for (declaration, expression and empty "
        "headers), switch with fall-through, blocks, break/continue/return, declarations with initialisers (casts, char and string "
        "literals with escapes), in two source styles (all bodies braced / minimal braces); bodies of void k(int &a, int &b)",
        "widths: narrowing casts/declarations (unsigned char, signed char, short) are in the spec's semantics; results beyond 32 bits are "
        "not (TLC integers): for those only g++(original) = g++(printed) is compared, as long long, without a spec value",
        "types are compared by a normalised spelling (multiset of words, implied int/signed removed): long == long int",
        "g++ is the reference for C++ values; the spec's values are cross-checked against it on the original texts in every run",
    ]
    return ctx.finish(exhaustive=False)


def walk(t):
    if isinstance(t, list) and t and isinstance(t[0], str):
        yield t
        for x in t[1:]:
            yield from walk(x)
