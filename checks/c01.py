"""C01 -- handles release each backend object exactly once, for any handle history.
Spec runtime/Handles.tla; MC: mc/Handles_design*.cfg (+ mc/Handles_implswap.cfg: the pointer-only swap breaks
RingMatchesRefs at design level); generation: mc/Handles_gen*.cfg, mc/Handles_sim.cfg;
replayer harness/handles_replay.cpp (heap-allocated handle variables, hook H1 live-object registry, ASan).
"""
import json, os, re, threading, time
from vlib import Broken, b_json, run_replayer, sh

SLOTS = ["d1", "d2", "m1", "m2", "m3", "p1", "p2", "k1", "k2", "s1", "s2", "t1", "t2"]
KINDS = {"d": "device", "m": "memory", "p": "pool", "k": "kernel", "s": "stream", "t": "tag"}
KINDSEQ = ["device", "buffer", "memory", "pool", "kernel", "stream", "tag"]
LEAK_EVERY = 50
ACTIONS = ["DoDefaultConstruct", "DoCopyConstruct", "DoAssign", "DoSwap", "DoFree", "DoScopeExit", "DoDontUseRefs",
           "DoNewDevice", "DoMalloc", "DoWrap", "DoSlice", "DoNewPool", "DoReserve", "DoResize", "DoShrinkToFit",
           "DoBuildKernel", "DoCreateStream", "DoTagStream", "DoGetStream", "DoSetStream"]


def seqs(x):
    """ToJson prints an empty TLA+ function as {}: normalise to lists."""
    if isinstance(x, dict) and not x:
        return []
    if isinstance(x, list):
        return [seqs(y) for y in x]
    return x


def norm_obs(o):
    return {"Hd": seqs(o["Hd"]), "L": seqs(o["L"]), "D": [seqs(d) for d in seqs(o["D"])], "A": seqs(o["A"]),
            "M": seqs(o["M"])}


def replay_chunk(ctx, exe, env, cases, tag, timeout=1500, max_crashes=10):
    """Like vlib.run_replayer (same harness protocol: `exe in out start`, restart after the behaviour that
    crashed) but gives up after `max_crashes` crashes: a violation is established by then and every further
    crash costs a process start and a symbolised sanitizer report."""
    inp = os.path.join(ctx.tmp, "in-%s.ndjson" % tag)
    outp = os.path.join(ctx.tmp, "out-%s.ndjson" % tag)
    with open(inp, "w") as f:
        for c in cases:
            f.write(json.dumps(c) + "\n")
    open(outp, "w").close()
    start, crashes = 0, []
    while start < len(cases):
        rc, out = sh([exe, inp, outp, str(start)], timeout=timeout, env=env)
        if rc == 0:
            break
        last, done = None, -1
        for line in open(outp):
            try:
                rec = json.loads(line)
            except ValueError:
                continue
            if "crash" in rec:
                last = rec
            elif "beh" in rec:
                done = max(done, rec["beh"])
        if last is None or last.get("beh", -1) < start:
            last = {"crash": "exit-%d" % rc, "beh": max(done + 1, start), "step": -1}
        last["log"] = out[-3000:]
        crashes.append(last)
        start = last["beh"] + 1
        lines = [l for l in open(outp) if '"crash"' not in l]
        open(outp, "w").writelines(lines)
        if len(crashes) >= max_crashes:
            break
    outs, leaks = {}, []
    for line in open(outp):
        try:
            rec = json.loads(line)
        except ValueError:
            raise Broken("unparseable replayer output: %r" % line[:200])
        if "leak" in rec:
            leaks.append(rec["upto"])
        elif "beh" in rec:
            outs[rec["beh"]] = rec
    outs["leaks"] = leaks
    outs["log"] = out[-6000:] if cases else ""
    return outs, crashes


def leak_frame(log):
    """First two occa:: frames of the first LeakSanitizer stack in a log (for the signature)."""
    fr = []
    on = False
    for line in log.splitlines():
        if "leak of" in line:
            if fr:
                break
            on = True
        elif on:
            m = re.search(r"#\d+ \S+ in (occa::[A-Za-z0-9_:~<>]+)", line)
            if m:
                fr.append(m.group(1))
                if len(fr) == 2:
                    break
    return ">".join(fr) if fr else "unknown"


def find_leaks(ctx, exe, env, cases, outs_list, chunks, every, describe):
    """A leak check failed somewhere in a window of `every` behaviours: re-run the first such window of each
    worker with a check after every behaviour to name the first behaviour that leaks."""
    for w, (o, _) in enumerate(outs_list):
        if not o.get("leaks"):
            continue
        upto = o["leaks"][0]
        lo = max(0, upto - every + 1)
        idx = chunks[w][lo:upto + 1]
        e = dict(env)
        e["HR_LEAKCHECK"] = "1"
        o2, c2 = replay_chunk(ctx, exe, e, [cases[i] for i in idx], "leak-%d" % w)
        if o2.get("leaks"):
            g = idx[o2["leaks"][0]]
            ctx.mismatch("leak:%s" % leak_frame(o2.get("log", "")),
                         "LeakSanitizer: heap memory allocated by the library is unreachable after %s and releasing everything\n%s"
                         % (describe(g), o2.get("log", "")[-2500:]), [cases[g]])
        else:
            ctx.notes.append("a leak report in behaviours %s..%s of worker %d did not repeat when re-run" % (lo, upto, w))


def parallel_replay(ctx, exe, env, cases, ways):
    """Fan the cases out over `ways` replayer processes; returns (outs by global index, crashes)."""
    n = len(cases)
    ways = max(1, min(ways, n))
    chunks = [list(range(w, n, ways)) for w in range(ways)]
    results = [None] * ways
    errors = []

    def work(w):
        try:
            results[w] = replay_chunk(ctx, exe, dict(env), [cases[i] for i in chunks[w]],
                                      "%d-%d" % (w, int(time.time() * 1e6) % 10 ** 9))
        except Exception as ex:  # noqa
            errors.append(ex)

    ths = [threading.Thread(target=work, args=(w,)) for w in range(ways)]
    for t in ths:
        t.start()
    for t in ths:
        t.join()
    if errors:
        raise errors[0]
    outs, crashes = {}, []
    parallel_replay.last = (results, chunks)
    for w in range(ways):
        o, c = results[w]
        for li, rec in o.items():
            if not isinstance(li, int):
                continue
            outs[chunks[w][li]] = rec
        for cr in c:
            cr = dict(cr)
            cr["beh"] = chunks[w][cr["beh"]] if 0 <= cr["beh"] < len(chunks[w]) else -1
            crashes.append(cr)
    return outs, crashes


def step_sig(step):
    k = KINDS.get(step["s"][:1], "?") if step["s"] else "?"
    return "%s:%s" % (step["a"], k)


def shape(b, upto):
    """Coarse shape of the history before a step: did a swap / dontUseRefs / device free happen."""
    tags = []
    acts = [s["a"] for s in b[:upto]]
    if "swap" in acts:
        tags.append("after-swap")
    if "norefs" in acts:
        tags.append("after-norefs")
    return "+".join(tags) if tags else "plain"


def compare(ctx, behaviours, cases, outs, crashes, mode):
    steps_checked = 0
    for c in crashes:
        i = c["beh"]
        if i < 0 or i >= len(cases):
            raise Broken("replayer crash outside any behaviour: %s" % c)
        b = behaviours[i]["h"]
        j = c.get("step", -1)
        if 0 <= j < len(b):
            where = step_sig(b[j])
        elif j == len(b):
            where = "block-exit"
        else:
            where = "unknown"
        kind = c["crash"]
        log = c.get("log", "")
        if "heap-use-after-free" in log:
            kind = "heap-use-after-free"
        elif "attempting double-free" in log:
            kind = "double-free"
        elif "SEGV" in log:
            kind = "SEGV"
        ctx.mismatch("crash:%s:%s:%s" % (kind, where, shape(b, j if j >= 0 else len(b))),
                     "[%s] replayer died (%s) at step %s of %s\n%s" %
                     (mode, kind, j, [(s["a"], s["s"], s["t"], s["n"]) for s in b], log[-1500:]),
                     [cases[i]])
    for i, beh in enumerate(behaviours):
        o = outs.get(i)
        if o is None:
            continue
        b = beh["h"]
        hist = [(s["a"], s["s"], s["t"], s["n"]) for s in b]
        for j in range(len(b) + 1):
            exp = norm_obs(b[j] if j < len(b) else beh["fin"])
            got = o["obs"][j] if j < len(b) else o["fin"]
            steps_checked += 1
            where = step_sig(b[j]) if j < len(b) else "block-exit"
            sh_ = shape(b, j)
            pre = "[%s] after %s%s: " % (mode, hist[:j + 1], "" if j < len(b) else " + block exit")
            if j < len(b) and bool(got["err"]) != bool(b[j]["err"]):
                ctx.mismatch("exception:%s:%s" % (where, sh_), pre + "exception raised = %s, spec %s" %
                             (bool(got["err"]), bool(b[j]["err"])), [cases[i]])
                break
            if got["an"] != 0:
                ctx.mismatch("double-destroy:%s:%s" % (where, sh_), pre + "%d destructor run(s) on an object that was not alive"
                             % got["an"], [cases[i]])
                break
            bad = None
            if got["Hd"] != exp["Hd"]:
                k = next(x for x in range(len(SLOTS)) if got["Hd"][x] != exp["Hd"][x])
                what = "dangling" if got["Hd"][k] == -2 else ("isInitialized" if (got["Hd"][k] == 0) != (exp["Hd"][k] == 0) else "identity")
                bad = ("handle-%s" % what, "handle %s: implementation %s, spec %s (Hd impl %s spec %s)" %
                       (SLOTS[k], got["Hd"][k], exp["Hd"][k], got["Hd"], exp["Hd"]))
            elif got["D"] != exp["D"]:
                k = next(x for x in range(7) if got["D"][x] != exp["D"][x])
                bad = ("destroyed-%s" % KINDSEQ[k], "destroyed counts of kind %s: implementation %s, spec %s" %
                       (KINDSEQ[k], got["D"][k], exp["D"][k]))
            elif got["L"] != exp["L"]:
                k = next(x for x in range(7) if got["L"][x] != exp["L"][x])
                bad = ("live-%s" % KINDSEQ[k], "live objects of kind %s: implementation %d, spec %d" %
                       (KINDSEQ[k], got["L"][k], exp["L"][k]))
            elif got["A"] != exp["A"]:
                k = next(x for x in range(len(SLOTS)) if got["A"][x] != exp["A"][x])
                bad = ("memoryAllocated", "memoryAllocated() through %s: implementation %d, spec %d" %
                       (SLOTS[k], got["A"][k], exp["A"][k]))
            elif got["M"] != exp["M"]:
                k = next(x for x in range(len(SLOTS)) if got["M"][x] != exp["M"][x])
                bad = ("maxMemoryAllocated", "maxMemoryAllocated() through %s: implementation %d, spec %d" %
                       (SLOTS[k], got["M"][k], exp["M"][k]))
            if bad:
                ctx.mismatch("%s:%s:%s" % (bad[0], where, sh_), pre + bad[1], [cases[i]])
                break   # later steps of this behaviour start from a diverged state
    return steps_checked


def run(ctx):
    thorough = ctx.tier == "thorough"
    W = 8 if thorough else 4
    # 1. design runs + vacuity
    cov = {}
    for cfg in (["mc/Handles_design.cfg", "mc/Handles_design_large.cfg"] if thorough else ["mc/Handles_design_tiny.cfg"]):
        r = ctx.tlc("mc/MC_Handles.tla", cfg, workers=W, coverage=True, timeout=3000)
        ctx.tlc_must_pass(r, "Handles design (%s)" % cfg)
        ctx.require_coverage(r, ACTIONS)
        for a in ACTIONS:
            cov[a] = cov.get(a, 0) + r.coverage.get(a, (0, 0))[1]
    # 1b. the as-implemented pointer-only swap must break RingMatchesRefs on the model (keeps the invariant honest)
    r = ctx.tlc("mc/MC_Handles.tla", "mc/Handles_implswap.cfg", workers=2, count=False, expect_violation=True, timeout=900)
    if r.violated != "RingMatchesRefs":
        raise Broken("the pointer-only swap no longer violates RingMatchesRefs on the model (rc=%s, violated=%s)\n%s"
                     % (r.rc, r.violated, r.out[-1500:]))
    # 2. behaviours
    if thorough:
        gens = [("mc/Handles_gen2.cfg", None, None), ("mc/Handles_gen3.cfg", None, None), ("mc/Handles_sim.cfg", 300, 20)]
    else:
        gens = [("mc/Handles_gen2q.cfg", None, None), ("mc/Handles_sim.cfg", 40, 20)]
    behaviours = []
    gen_counts = {}
    for cfg, sim, depth in gens:
        g = ctx.tlc("mc/MC_Handles.tla", cfg, workers=W if sim else 4, simulate=sim, depth=depth, deadlock=False, timeout=3000)
        bs = b_json(g)
        if not bs:
            raise Broken("no behaviours generated by %s (rc=%s):\n%s" % (cfg, g.rc, g.out[-2000:]))
        if g.rc != 0 and sim is None:
            raise Broken("generation run failed (%s, rc=%s):\n%s" % (cfg, g.rc, g.out[-2000:]))
        gen_counts[cfg] = len(bs)
        behaviours += bs
    seen, uniq = set(), []
    for b in behaviours:
        key = tuple((s["a"], s["s"], s["t"], s["n"]) for s in b["h"])
        if key not in seen:
            seen.add(key)
            uniq.append(b)
    uniq.sort(key=lambda b: json.dumps([(s["a"], s["s"], s["t"], s["n"]) for s in b["h"]]))
    behaviours = uniq
    cases = [{"slots": SLOTS, "steps": [{"a": s["a"], "s": s["s"], "t": s["t"], "n": s["n"]} for s in b["h"]]}
             for b in behaviours]
    # 3. replay on the real library (Serial; thorough: OpenMP too)
    exe, lib = ctx.build_harness("handles_replay", ["handles_replay.cpp"])
    steps_checked = 0
    replayed = 0
    ncrash = 0
    leak_checks = 0
    for mode in (["Serial", "OpenMP"] if thorough else ["Serial"]):
        env = ctx.occa_env(lib, "occa-cache-" + mode)
        env["HR_MODE"] = mode
        # UBSan findings of other components (the hash function, C27) must not stop a handle history
        env["UBSAN_OPTIONS"] = "print_stacktrace=0:halt_on_error=0"
        # warm the kernel cache once (one JIT compile), then fan out
        wenv = dict(env)
        wenv["HR_WARM"] = "1"
        wo, wc = run_replayer(ctx, exe, wenv, [{"slots": SLOTS, "steps": []}], timeout=600)
        if wc or 0 not in wo:
            raise Broken("kernel warm-up failed: %s" % (wc,))
        # LeakSanitizer as a monitor: after every 50th behaviour (all handle variables destroyed, devices that were
        # left alive on purpose freed by the replayer) no heap block allocated by the library may be unreachable
        env["ASAN_OPTIONS"] = "detect_leaks=1:leak_check_at_exit=0:abort_on_error=0:exitcode=86:detect_stack_use_after_return=0"
        env["HR_LEAKCHECK"] = str(LEAK_EVERY)
        # the OpenMP device shares the Serial implementation of everything modelled here: every third behaviour
        sel = list(range(len(cases))) if mode == "Serial" else list(range(0, len(cases), 3))
        mcases = [cases[i] for i in sel]
        mbeh = [behaviours[i] for i in sel]
        outs, crashes = parallel_replay(ctx, exe, env, mcases, W)
        steps_checked += compare(ctx, mbeh, mcases, outs, crashes, mode)
        results, chunks = parallel_replay.last
        find_leaks(ctx, exe, env, mcases, results, chunks, LEAK_EVERY,
                   lambda g: [(t["a"], t["s"], t["t"], t["n"]) for t in mbeh[g]["h"]])
        leak_checks += sum(len(r[0]) - 2 for r in results) // LEAK_EVERY
        replayed += len(outs)
        ncrash += len(crashes)
    ctx.traces_validated = replayed
    k = len(cases)
    ctx.samples = [cases[0], cases[k // 3], cases[(2 * k) // 3], cases[-1]]
    ctx.cov.update({"behaviours_replayed": replayed, "distinct_behaviours": len(cases), "steps_checked": steps_checked,
                    "crashes": ncrash, "leak_checks": leak_checks, "generated": gen_counts, "actions_taken_in_design_run": cov,
                    "implswap_counterexample": True})
    ctx.assumptions += [
        "handle variables: 2 device, 3 memory, 2 pool, 2 kernel, 2 stream, 2 tag; <= 2 devices per history; "
        "mallocs of 64 bytes, pool reservations of exactly one 128-byte cell, slices are whole-range",
        "modes Serial (quick) and Serial+OpenMP (thorough); kernels are created with buildKernelFromBinary from one JIT-compiled binary",
        "'never touched after destruction' is monitored by ASan on the replayed behaviours (handle variables are heap objects), "
        "double destruction by the registry of hook H1; absence is claimed for the explored behaviours only",
        "ring order is not observable and not compared; the hook header and the replayer are trusted",
        "LeakSanitizer is a monitor (every 50 behaviours, after everything was destroyed); it can miss a block that a stale "
        "stack slot still points at",
    ]
    return ctx.finish(exhaustive=False)
